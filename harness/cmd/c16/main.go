// C16 correspondence stream: real p2p/conn.SecretConnection pairs over an adversarial in-memory
// pipe (frame-level edit scripts) and man-in-the-middle handshake scripts, versus the Lean model
// (Tmv/Model/SecretFrames.lean with a toy ideal AEAD — positions and verdicts are compared, never
// ciphertext — and the symbolic handshake Tmv/Model/Sts.lean).
package main

import (
	"bytes"
	"crypto/cipher"
	crand "crypto/rand"
	"crypto/sha256"
	"encoding/binary"
	"encoding/hex"
	"errors"
	"fmt"
	"io"
	"math"
	"math/rand"
	"net"
	"strconv"
	"strings"
	"sync"
	"time"

	gogotypes "github.com/gogo/protobuf/types"
	"github.com/gtank/merlin"
	"golang.org/x/crypto/chacha20poly1305"
	"golang.org/x/crypto/curve25519"
	"golang.org/x/crypto/hkdf"

	"github.com/tendermint/tendermint/crypto"
	"github.com/tendermint/tendermint/crypto/ed25519"
	cryptoenc "github.com/tendermint/tendermint/crypto/encoding"
	"github.com/tendermint/tendermint/crypto/secp256k1"
	"github.com/tendermint/tendermint/libs/protoio"
	"github.com/tendermint/tendermint/p2p"
	"github.com/tendermint/tendermint/p2p/conn"
	tmp2p "github.com/tendermint/tendermint/proto/tendermint/p2p"

	"verifharness/core"
)

const (
	dataMaxSize = 1024
	frameSize   = 1028
	sealedSize  = 1044 // totalFrameSize + aeadSizeOverhead (tied to the source by facts)
)

func hx(b []byte) string {
	if len(b) == 0 {
		return "-"
	}
	return hex.EncodeToString(b)
}

func unhx(s string) []byte {
	if s == "-" || s == "" || s == "." {
		return []byte{}
	}
	b, err := hex.DecodeString(s)
	if err != nil {
		panic("bad hex " + s)
	}
	return b
}

func kv(op string) map[string]string {
	m := map[string]string{}
	for _, t := range strings.Fields(op)[1:] {
		if i := strings.IndexByte(t, '='); i > 0 {
			m[t[:i]] = t[i+1:]
		}
	}
	return m
}

func atoi(s string) (int, bool) {
	n, err := strconv.Atoi(s)
	return n, err == nil && n >= 0
}

// ---- the pipe ----

// wire is one direction of the in-memory conn. In blocking mode (handshakes) a read waits for
// data; in scripted mode an empty wire reads as io.EOF, so every op terminates.
type wire struct {
	mu         sync.Mutex
	cond       *sync.Cond
	buf        []byte
	blocking   bool
	closed     bool
	failWrites bool
	writes     int
	rec        []byte // everything ever written (what a passive recorder on the link keeps)
}

func newWire() *wire {
	w := &wire{blocking: true}
	w.cond = sync.NewCond(&w.mu)
	return w
}

func (w *wire) read(p []byte) (int, error) {
	w.mu.Lock()
	defer w.mu.Unlock()
	for len(w.buf) == 0 {
		if !w.blocking || w.closed {
			return 0, io.EOF
		}
		w.cond.Wait()
	}
	n := copy(p, w.buf)
	w.buf = w.buf[n:]
	return n, nil
}

func (w *wire) write(p []byte) (int, error) {
	w.mu.Lock()
	defer w.mu.Unlock()
	if w.failWrites {
		return 0, io.ErrClosedPipe
	}
	w.buf = append(append([]byte{}, w.buf...), p...)
	w.rec = append(w.rec, p...)
	w.writes++
	w.cond.Broadcast()
	return len(p), nil
}

func (w *wire) close() {
	w.mu.Lock()
	w.closed = true
	w.cond.Broadcast()
	w.mu.Unlock()
}

func (w *wire) scripted() {
	w.mu.Lock()
	w.blocking = false
	w.cond.Broadcast()
	w.mu.Unlock()
}

type endConn struct{ in, out *wire }

func (e *endConn) Read(p []byte) (int, error)  { return e.in.read(p) }
func (e *endConn) Write(p []byte) (int, error) { return e.out.write(p) }
func (e *endConn) Close() error                { return nil }

// netEnd is the same end as a net.Conn (deadlines are no-ops: every script closes its wires).
type netEnd struct{ endConn }

func (e *netEnd) Close() error {
	e.in.close()
	e.out.close()
	return nil
}
func (e *netEnd) LocalAddr() net.Addr                { return &net.TCPAddr{IP: net.IPv4(127, 0, 0, 1), Port: 1} }
func (e *netEnd) RemoteAddr() net.Addr               { return &net.TCPAddr{IP: net.IPv4(127, 0, 0, 1), Port: 2} }
func (e *netEnd) SetDeadline(t time.Time) error      { return nil }
func (e *netEnd) SetReadDeadline(t time.Time) error  { return nil }
func (e *netEnd) SetWriteDeadline(t time.Time) error { return nil }

// ---- honest pair ----

type dir struct {
	w      *wire
	writer *conn.SecretConnection
	reader *conn.SecretConnection
}

type pair struct {
	ab, ba *dir
	a, b   *conn.SecretConnection
}

func honestPair() (*pair, error) {
	return honestPairKeys(ed25519.GenPrivKey(), ed25519.GenPrivKey())
}

func honestPairKeys(ka, kb ed25519.PrivKey) (*pair, error) {
	ab, ba := newWire(), newWire()
	var a, b *conn.SecretConnection
	var ea, eb error
	var wg sync.WaitGroup
	wg.Add(2)
	go func() {
		defer wg.Done()
		a, ea = conn.MakeSecretConnection(&endConn{in: ba, out: ab}, ka)
		if ea != nil {
			ab.close()
		}
	}()
	go func() {
		defer wg.Done()
		b, eb = conn.MakeSecretConnection(&endConn{in: ab, out: ba}, kb)
		if eb != nil {
			ba.close()
		}
	}()
	wg.Wait()
	if ea != nil || eb != nil {
		return nil, fmt.Errorf("a:%v b:%v", ea, eb)
	}
	if !a.RemotePubKey().Equals(kb.PubKey()) || !b.RemotePubKey().Equals(ka.PubKey()) {
		return nil, errors.New("remote keys are not the peers' keys")
	}
	ab.scripted()
	ba.scripted()
	return &pair{ab: &dir{ab, a, b}, ba: &dir{ba, b, a}, a: a, b: b}, nil
}

func readClass(err error) string {
	switch {
	case err == io.EOF:
		return "eof"
	case err == io.ErrUnexpectedEOF:
		return "ueof"
	case strings.Contains(err.Error(), "failed to decrypt"):
		return "decrypt"
	case strings.Contains(err.Error(), "chunkLength is greater"):
		return "toolong"
	}
	return "other:" + strings.ReplaceAll(err.Error(), " ", "_")
}

func doWrite(d *dir, data []byte) (s string) {
	before := d.w.writes
	defer func() {
		if r := recover(); r != nil {
			sn, _ := d.writer.VerifNonces()
			s = fmt.Sprintf("panic frames=%d nonce=%d", d.w.writes-before, sn)
		}
	}()
	n, err := d.writer.Write(data)
	sn, _ := d.writer.VerifNonces()
	st := "ok"
	if err != nil {
		st = "err"
	}
	return fmt.Sprintf("n=%d %s frames=%d nonce=%d", n, st, d.w.writes-before, sn)
}

var (
	histMu   sync.Mutex
	readHist = map[string]int{}
	mitmHist = map[string]int{}
)

func count(h map[string]int, k string) {
	histMu.Lock()
	h[k]++
	histMu.Unlock()
}

func doRead(d *dir, k int) (s string) {
	defer func() {
		c := s
		if i := strings.IndexByte(c, ' '); i >= 0 {
			c = c[:i]
		}
		count(readHist, c)
	}()
	tail := func() string {
		_, rn := d.reader.VerifNonces()
		return fmt.Sprintf(" nonce=%d buf=%d", rn, d.reader.VerifRecvBufferLen())
	}
	defer func() {
		if r := recover(); r != nil {
			s = "err:panic" + tail()
		}
	}()
	buf := make([]byte, k)
	n, err := d.reader.Read(buf)
	if err != nil {
		if n != 0 {
			return fmt.Sprintf("err:%s+n=%d", readClass(err), n) + tail()
		}
		return "err:" + readClass(err) + tail()
	}
	return "ok " + hx(buf[:n]) + tail()
}

func editWire(d *dir, f func(w []byte) ([]byte, bool)) string {
	d.w.mu.Lock()
	defer d.w.mu.Unlock()
	nw, ok := f(append([]byte{}, d.w.buf...))
	if !ok {
		return "bad-range"
	}
	d.w.buf = nw
	return fmt.Sprintf("ok len=%d", len(nw))
}

func cat(parts ...[]byte) []byte {
	var o []byte
	for _, p := range parts {
		o = append(o, p...)
	}
	return o
}

func execCase(c core.Case) []string {
	var out []string
	var p *pair
	for _, op := range c.Ops {
		f := strings.Fields(op)
		m := kv(op)
		if f[0] == "hs" && len(f) == 1 {
			np, err := honestPair()
			if err != nil {
				out = append(out, "hs-failed:"+strings.ReplaceAll(err.Error(), " ", "_"))
				continue
			}
			p = np
			as, ar := p.a.VerifNonces()
			bs, br := p.b.VerifNonces()
			out = append(out, fmt.Sprintf("ok a=%d,%d b=%d,%d", as, ar, bs, br))
			continue
		}
		if f[0] == "link" {
			if m["dir"] == "" || m["did"] == "" || m["info"] == "" {
				out = append(out, "bad-op")
				continue
			}
			v := linkScript(m["dir"], m["did"], m["info"])
			count(mitmHist, fmt.Sprintf("link dir=%s did=%s info=%s %s", m["dir"], m["did"], m["info"], v))
			out = append(out, v)
			continue
		}
		if f[0] == "multi" {
			k, ok1 := atoi(m["k"])
			rn, ok2 := atoi(m["r"])
			if !ok1 || !ok2 || k < 1 || k > 16 || rn > 64 {
				out = append(out, "bad-op")
				continue
			}
			v := multiSession(k, rn)
			count(mitmHist, "multi "+v)
			out = append(out, v)
			continue
		}
		if f[0] == "up" {
			if _, ok := m["kind"]; !ok {
				out = append(out, "bad-op")
				continue
			}
			v := upgradeScript(m["kind"])
			count(mitmHist, "up "+m["kind"]+" "+v)
			out = append(out, v)
			continue
		}
		if f[0] == "mitm" {
			k, _ := atoi(m["k"])
			if _, ok := m["kind"]; !ok {
				out = append(out, "bad-op")
				continue
			}
			v := mitm(m["kind"], k)
			count(mitmHist, m["kind"]+" "+v)
			out = append(out, v)
			continue
		}
		var d *dir
		if p != nil {
			switch m["d"] {
			case "ab":
				d = p.ab
			case "ba":
				d = p.ba
			}
		}
		if d == nil {
			out = append(out, "bad-op")
			continue
		}
		S := sealedSize
		switch f[0] {
		case "w":
			if _, ok := m["data"]; !ok {
				out = append(out, "bad-op")
				break
			}
			out = append(out, doWrite(d, unhx(m["data"])))
		case "r":
			k, ok := atoi(m["k"])
			if !ok {
				out = append(out, "bad-op")
				break
			}
			out = append(out, doRead(d, k))
		case "flip":
			off, ok1 := atoi(m["off"])
			bit, ok2 := atoi(m["bit"])
			if !ok1 || !ok2 || bit >= 8 {
				out = append(out, "bad-op")
				break
			}
			out = append(out, editWire(d, func(w []byte) ([]byte, bool) {
				if off >= len(w) {
					return nil, false
				}
				w[off] ^= 1 << uint(bit)
				return w, true
			}))
		case "cut":
			off, ok1 := atoi(m["off"])
			ln, ok2 := atoi(m["len"])
			if !ok1 || !ok2 {
				out = append(out, "bad-op")
				break
			}
			out = append(out, editWire(d, func(w []byte) ([]byte, bool) {
				if off+ln > len(w) {
					return nil, false
				}
				return cat(w[:off], w[off+ln:]), true
			}))
		case "ins":
			off, ok1 := atoi(m["off"])
			_, ok2 := m["bytes"]
			if !ok1 || !ok2 {
				out = append(out, "bad-op")
				break
			}
			b := unhx(m["bytes"])
			out = append(out, editWire(d, func(w []byte) ([]byte, bool) {
				if off > len(w) {
					return nil, false
				}
				return cat(w[:off], b, w[off:]), true
			}))
		case "dupf":
			i, ok1 := atoi(m["i"])
			at, ok2 := atoi(m["at"])
			if !ok1 || !ok2 {
				out = append(out, "bad-op")
				break
			}
			out = append(out, editWire(d, func(w []byte) ([]byte, bool) {
				if (i+1)*S > len(w) || at*S > len(w) {
					return nil, false
				}
				return cat(w[:at*S], w[i*S:(i+1)*S], w[at*S:]), true
			}))
		case "swapf":
			i, ok1 := atoi(m["i"])
			j, ok2 := atoi(m["j"])
			if !ok1 || !ok2 {
				out = append(out, "bad-op")
				break
			}
			out = append(out, editWire(d, func(w []byte) ([]byte, bool) {
				if (i+1)*S > len(w) || (j+1)*S > len(w) || i >= j {
					return nil, false
				}
				return cat(w[:i*S], w[j*S:(j+1)*S], w[(i+1)*S:j*S], w[i*S:(i+1)*S], w[(j+1)*S:]), true
			}))
		case "trunc":
			n, ok := atoi(m["n"])
			if !ok {
				out = append(out, "bad-op")
				break
			}
			out = append(out, editWire(d, func(w []byte) ([]byte, bool) {
				if n > len(w) {
					return nil, false
				}
				return w[:n], true
			}))
		case "setnonce":
			v, err := strconv.ParseUint(m["v"], 10, 64)
			if err != nil {
				out = append(out, "bad-op")
				break
			}
			switch m["side"] {
			case "w":
				d.writer.VerifSetSendNonce(v)
				out = append(out, "ok")
			case "r":
				d.reader.VerifSetRecvNonce(v)
				out = append(out, "ok")
			default:
				out = append(out, "bad-op")
			}
		case "closew":
			d.w.mu.Lock()
			d.w.failWrites = true
			d.w.mu.Unlock()
			out = append(out, "ok")
		case "wraw":
			ln, err := strconv.ParseUint(m["len"], 10, 64)
			_, okb := m["body"]
			body := []byte{}
			if okb {
				body = unhx(m["body"])
			}
			if err != nil || !okb || ln >= 1<<32 || len(body) > dataMaxSize {
				out = append(out, "bad-op")
				break
			}
			out = append(out, doRaw(d, uint32(ln), body))
		case "reflectw":
			od := p.ba
			if m["d"] == "ba" {
				od = p.ab
			}
			d.w.mu.Lock()
			cp := append([]byte{}, d.w.buf...)
			d.w.mu.Unlock()
			od.w.mu.Lock()
			od.w.buf = append(append([]byte{}, od.w.buf...), cp...)
			n := len(od.w.buf)
			od.w.mu.Unlock()
			out = append(out, fmt.Sprintf("ok len=%d", n))
		default:
			out = append(out, "bad-op")
		}
	}
	return out
}

// doRaw: the writer end, as a peer that holds the key but ignores the framing rules, seals a
// frame with an arbitrary length field.
func doRaw(d *dir, ln uint32, body []byte) (s string) {
	defer func() {
		if r := recover(); r != nil {
			sn, _ := d.writer.VerifNonces()
			s = fmt.Sprintf("panic nonce=%d", sn)
		}
	}()
	frame := make([]byte, frameSize)
	binary.LittleEndian.PutUint32(frame, ln)
	copy(frame[4:], body)
	sealed := d.writer.VerifSealRawFrame(frame)
	sn, _ := d.writer.VerifNonces()
	if _, err := d.w.write(sealed); err != nil {
		return fmt.Sprintf("err nonce=%d", sn)
	}
	return fmt.Sprintf("ok nonce=%d", sn)
}

// ---- the adversary's side of a handshake (re-derivation of keys and challenge from public
// libraries; its correctness is checked by the positive controls `own-key` and by opening the
// victim's auth frame in every scenario) ----

type advSess struct {
	in, out          *wire // from / to the victim
	locPriv          [32]byte
	locPub, remPub   [32]byte
	send, recv       cipher.AEAD
	sendN, recvN     uint64
	challenge        [32]byte
	victimAuth       []byte // decrypted delimited AuthSigMessage of the victim
	victimAuthSealed []byte
}

func newAdv(in, out *wire) *advSess {
	a := &advSess{in: in, out: out}
	if _, err := crand.Read(a.locPriv[:]); err != nil {
		panic(err)
	}
	pub, err := curve25519.X25519(a.locPriv[:], curve25519.Basepoint)
	if err != nil {
		panic(err)
	}
	copy(a.locPub[:], pub)
	return a
}

func (a *advSess) conn() io.ReadWriter { return &endConn{in: a.in, out: a.out} }

func (a *advSess) sendEph(pub []byte) {
	_, _ = protoio.NewDelimitedWriter(a.conn()).WriteMsg(&gogotypes.BytesValue{Value: pub})
}

func (a *advSess) readEph() error {
	var bv gogotypes.BytesValue
	if _, err := protoio.NewDelimitedReader(a.conn(), 1<<20).ReadMsg(&bv); err != nil {
		return err
	}
	copy(a.remPub[:], bv.Value)
	return nil
}

// derive mirrors MakeSecretConnection between shareEphPubKey and signChallenge.
func (a *advSess) derive() error {
	lo, hi := a.locPub, a.remPub
	if bytes.Compare(a.locPub[:], a.remPub[:]) >= 0 {
		lo, hi = a.remPub, a.locPub
	}
	tr := merlin.NewTranscript("TENDERMINT_SECRET_CONNECTION_TRANSCRIPT_HASH")
	tr.AppendMessage([]byte("EPHEMERAL_LOWER_PUBLIC_KEY"), lo[:])
	tr.AppendMessage([]byte("EPHEMERAL_UPPER_PUBLIC_KEY"), hi[:])
	locIsLeast := bytes.Equal(a.locPub[:], lo[:])
	dh, err := curve25519.X25519(a.locPriv[:], a.remPub[:])
	if err != nil {
		return err
	}
	tr.AppendMessage([]byte("DH_SECRET"), dh)
	kdf := hkdf.New(sha256.New, dh, nil, []byte("TENDERMINT_SECRET_CONNECTION_KEY_AND_CHALLENGE_GEN"))
	res := make([]byte, 96)
	if _, err := io.ReadFull(kdf, res); err != nil {
		return err
	}
	recvK, sendK := res[0:32], res[32:64]
	if !locIsLeast {
		sendK, recvK = res[0:32], res[32:64]
	}
	copy(a.challenge[:], tr.ExtractBytes([]byte("SECRET_CONNECTION_MAC"), 32))
	if a.send, err = chacha20poly1305.New(sendK); err != nil {
		return err
	}
	if a.recv, err = chacha20poly1305.New(recvK); err != nil {
		return err
	}
	return nil
}

func nonce(c uint64) []byte {
	n := make([]byte, 12)
	binary.LittleEndian.PutUint64(n[4:], c)
	return n
}

func (a *advSess) sealChunk(chunk []byte) []byte {
	frame := make([]byte, frameSize)
	binary.LittleEndian.PutUint32(frame, uint32(len(chunk)))
	copy(frame[4:], chunk)
	s := a.send.Seal(nil, nonce(a.sendN), frame, nil)
	a.sendN++
	return s
}

func (a *advSess) readSealed() ([]byte, error) {
	b := make([]byte, sealedSize)
	if _, err := io.ReadFull(a.conn(), b); err != nil {
		return nil, err
	}
	return b, nil
}

func (a *advSess) openChunk(sealed []byte) ([]byte, error) {
	frame, err := a.recv.Open(nil, nonce(a.recvN), sealed, nil)
	if err != nil {
		return nil, err
	}
	a.recvN++
	l := binary.LittleEndian.Uint32(frame)
	if l > dataMaxSize {
		return nil, errors.New("too long")
	}
	return frame[4 : 4+l], nil
}

// begin: send `eph` (own public key when nil), read the victim's ephemeral, derive.
func (a *advSess) begin(eph []byte) error {
	if eph == nil {
		eph = a.locPub[:]
	}
	a.sendEph(eph)
	if err := a.readEph(); err != nil {
		return err
	}
	return a.derive()
}

// takeAuth reads and opens the victim's auth frame.
func (a *advSess) takeAuth() error {
	s, err := a.readSealed()
	if err != nil {
		return err
	}
	a.victimAuthSealed = s
	a.victimAuth, err = a.openChunk(s)
	return err
}

func authBytes(pk crypto.PubKey, sig []byte) []byte {
	pb, err := cryptoenc.PubKeyToProto(pk)
	if err != nil {
		panic(err)
	}
	bz, err := protoio.MarshalDelimited(&tmp2p.AuthSigMessage{PubKey: pb, Sig: sig})
	if err != nil {
		panic(err)
	}
	return bz
}

type victim struct {
	key  ed25519.PrivKey
	sc   *conn.SecretConnection
	err  error
	done chan struct{}
	toV  *wire // adversary -> victim
	frV  *wire // victim -> adversary
}

func startVictim() *victim { return startVictimKey(ed25519.GenPrivKey()) }

func startVictimKey(key ed25519.PrivKey) *victim {
	v := &victim{key: key, done: make(chan struct{}), toV: newWire(), frV: newWire()}
	go func() {
		defer close(v.done)
		defer func() {
			if r := recover(); r != nil {
				v.err = fmt.Errorf("panic: %v", r)
			}
			v.frV.close()
		}()
		v.sc, v.err = conn.MakeSecretConnection(&endConn{in: v.toV, out: v.frV}, v.key)
	}()
	return v
}

// finish lets the victim run to completion (the adversary has nothing more to say).
func (v *victim) finish() {
	v.toV.close()
	<-v.done
}

func (v *victim) verdict(peer, adv crypto.PubKey) string {
	if v.err != nil {
		s := v.err.Error()
		switch {
		case strings.Contains(s, "low order point"):
			return "fail:low-order"
		case strings.Contains(s, "failed to decrypt"):
			return "fail:decrypt"
		case strings.Contains(s, "expected ed25519 pubkey"):
			return "fail:keytype"
		case strings.Contains(s, "challenge verification failed"):
			return "fail:verify"
		}
		return "fail:other:" + strings.ReplaceAll(s, " ", "_")
	}
	rk := v.sc.RemotePubKey()
	switch {
	case rk.Equals(v.key.PubKey()):
		return "ok:self"
	case peer != nil && rk.Equals(peer):
		return "ok:peer"
	case adv != nil && rk.Equals(adv):
		return "ok:adv"
	}
	if _, ok := rk.(ed25519.PubKey); !ok {
		return "ok:othertype"
	}
	return "ok:other"
}

var lowOrderPoints = []string{
	"0000000000000000000000000000000000000000000000000000000000000000",
	"0100000000000000000000000000000000000000000000000000000000000000",
	"e0eb7a7c3b41b8ae1656e3faf19fc46ada098deb9c32b1fd866205165f49b800",
	"5f9c95bca3508c24b1d0b1559c83ef5b04445cc4581c8e86d8224eddd09f1157",
	"ecffffffffffffffffffffffffffffffffffffffffffffffffffffffffffff7f",
	"edffffffffffffffffffffffffffffffffffffffffffffffffffffffffffff7f",
	"eeffffffffffffffffffffffffffffffffffffffffffffffffffffffffffff7f",
	// the same with the ignored top bit set
	"0000000000000000000000000000000000000000000000000000000000000080",
	"0100000000000000000000000000000000000000000000000000000000000080",
	"e0eb7a7c3b41b8ae1656e3faf19fc46ada098deb9c32b1fd866205165f49b880",
	"5f9c95bca3508c24b1d0b1559c83ef5b04445cc4581c8e86d8224eddd09f11d7",
	"ecffffffffffffffffffffffffffffffffffffffffffffffffffffffffffffff",
	"edffffffffffffffffffffffffffffffffffffffffffffffffffffffffffffff",
	"eeffffffffffffffffffffffffffffffffffffffffffffffffffffffffffffff",
}

// mitm runs one man-in-the-middle script against real MakeSecretConnection endpoints.
func mitm(kind string, k int) string {
	advKey := ed25519.GenPrivKey()
	one := func(script func(a *advSess, v *victim) string) string {
		v := startVictim()
		a := newAdv(v.frV, v.toV)
		if broken := script(a, v); broken != "" {
			v.finish()
			return "adv-broken:" + broken
		}
		v.finish()
		return "a=" + v.verdict(nil, advKey.PubKey())
	}
	two := func(script func(aa, ab *advSess, va, vb *victim) string) string {
		va, vb := startVictim(), startVictim()
		aa, ab := newAdv(va.frV, va.toV), newAdv(vb.frV, vb.toV)
		broken := script(aa, ab, va, vb)
		va.finish()
		vb.finish()
		if broken != "" {
			return "adv-broken:" + broken
		}
		return "a=" + va.verdict(vb.key.PubKey(), advKey.PubKey()) + " b=" + vb.verdict(va.key.PubKey(), advKey.PubKey())
	}
	es := func(err error) string {
		if err == nil {
			return ""
		}
		return strings.ReplaceAll(err.Error(), " ", "_")
	}
	switch kind {
	case "relay":
		p, err := honestPair()
		if err != nil {
			return "a=fail b=fail " + strings.ReplaceAll(err.Error(), " ", "_")
		}
		_ = p
		return "a=ok:peer b=ok:peer"
	case "own-key":
		return one(func(a *advSess, v *victim) string {
			if err := a.begin(nil); err != nil {
				return es(err)
			}
			if err := a.takeAuth(); err != nil {
				return "cannot-open-victim-auth:" + es(err)
			}
			sig, _ := advKey.Sign(a.challenge[:])
			a.out.write(a.sealChunk(authBytes(advKey.PubKey(), sig)))
			return ""
		})
	case "swap-eph", "swap-eph-noreenc":
		return two(func(aa, ab *advSess, va, vb *victim) string {
			if err := aa.begin(nil); err != nil {
				return es(err)
			}
			if err := ab.begin(nil); err != nil {
				return es(err)
			}
			if err := aa.takeAuth(); err != nil {
				return "cannot-open-victim-auth:" + es(err)
			}
			if err := ab.takeAuth(); err != nil {
				return "cannot-open-victim-auth:" + es(err)
			}
			if kind == "swap-eph" {
				aa.out.write(aa.sealChunk(ab.victimAuth))
				ab.out.write(ab.sealChunk(aa.victimAuth))
			} else {
				aa.out.write(ab.victimAuthSealed)
				ab.out.write(aa.victimAuthSealed)
			}
			return ""
		})
	case "replay-auth":
		// an earlier session in which the adversary, as itself, talked to B and kept B's auth message
		vb := startVictim()
		ab := newAdv(vb.frV, vb.toV)
		if err := ab.begin(nil); err != nil {
			vb.finish()
			return "adv-broken:" + es(err)
		}
		if err := ab.takeAuth(); err != nil {
			vb.finish()
			return "adv-broken:cannot-open-victim-auth:" + es(err)
		}
		sig, _ := advKey.Sign(ab.challenge[:])
		ab.out.write(ab.sealChunk(authBytes(advKey.PubKey(), sig)))
		vb.finish()
		if vb.verdict(nil, advKey.PubKey()) != "ok:adv" {
			return "adv-broken:first-session-" + vb.verdict(nil, advKey.PubKey())
		}
		old := ab.victimAuth
		v := startVictim()
		a := newAdv(v.frV, v.toV)
		if err := a.begin(nil); err != nil {
			v.finish()
			return "adv-broken:" + es(err)
		}
		a.out.write(a.sealChunk(old))
		v.finish()
		return "a=" + v.verdict(vb.key.PubKey(), advKey.PubKey())
	case "low-order":
		if k >= len(lowOrderPoints) {
			return "bad-op"
		}
		return one(func(a *advSess, v *victim) string {
			pt, _ := hex.DecodeString(lowOrderPoints[k])
			a.sendEph(pt)
			_ = a.readEph()
			return ""
		})
	case "wrong-keytype":
		return one(func(a *advSess, v *victim) string {
			if err := a.begin(nil); err != nil {
				return es(err)
			}
			sk := secp256k1.GenPrivKey()
			sig, _ := sk.Sign(a.challenge[:])
			a.out.write(a.sealChunk(authBytes(sk.PubKey(), sig)))
			return ""
		})
	case "bad-sig":
		return one(func(a *advSess, v *victim) string {
			if err := a.begin(nil); err != nil {
				return es(err)
			}
			other := sha256.Sum256(a.challenge[:])
			sig, _ := advKey.Sign(other[:])
			a.out.write(a.sealChunk(authBytes(advKey.PubKey(), sig)))
			return ""
		})
	case "reflect":
		return one(func(a *advSess, v *victim) string {
			// echo the victim's own ephemeral and its own sealed auth frame
			if err := a.readEph(); err != nil {
				return es(err)
			}
			a.sendEph(a.remPub[:])
			s, err := a.readSealed()
			if err != nil {
				return es(err)
			}
			a.out.write(s)
			return ""
		})
	case "reflect-sig":
		return one(func(a *advSess, v *victim) string {
			if err := a.begin(nil); err != nil {
				return es(err)
			}
			if err := a.takeAuth(); err != nil {
				return "cannot-open-victim-auth:" + es(err)
			}
			a.out.write(a.sealChunk(a.victimAuth))
			return ""
		})
	case "flip-eph":
		// relay everything, but flip one bit of B's ephemeral on its way to A. Both auth frames are
		// collected before either is delivered, so the verdicts do not depend on scheduling.
		return two(func(aa, ab *advSess, va, vb *victim) string {
			if err := aa.readEph(); err != nil { // A's ephemeral
				return es(err)
			}
			if err := ab.readEph(); err != nil { // B's ephemeral
				return es(err)
			}
			ab.sendEph(aa.remPub[:])
			flipped := ab.remPub
			flipped[7] ^= 0x04
			aa.sendEph(flipped[:])
			fa, err := aa.readSealed()
			if err != nil {
				return es(err)
			}
			fb, err := ab.readSealed()
			if err != nil {
				return es(err)
			}
			aa.out.write(fb)
			ab.out.write(fa)
			return ""
		})
	case "short-eph", "long-eph":
		return one(func(a *advSess, v *victim) string {
			for a.locPub[31] == 0 {
				*a = *newAdv(a.in, a.out)
			}
			eph := a.locPub[:31]
			if kind == "long-eph" {
				eph = append(append([]byte{}, a.locPub[:]...), 0x55)
			}
			if err := a.begin(eph); err != nil {
				return es(err)
			}
			if err := a.takeAuth(); err != nil && kind == "long-eph" {
				return "cannot-open-victim-auth:" + es(err)
			}
			sig, _ := advKey.Sign(a.challenge[:])
			a.out.write(a.sealChunk(authBytes(advKey.PubKey(), sig)))
			return ""
		})
	case "garbage-auth":
		return one(func(a *advSess, v *victim) string {
			if err := a.begin(nil); err != nil {
				return es(err)
			}
			junk := make([]byte, sealedSize)
			crand.Read(junk)
			a.out.write(junk)
			return ""
		})
	}
	return "bad-op"
}

// ---- several sessions of one node in one process, with a recorder on the link ----

type recorded struct {
	nSide, xSide []byte // all bytes the node / its peer put on the link in that session
	xKey         crypto.PubKey
}

// ephOf extracts the cleartext ephemeral public key from the first handshake message.
func ephOf(side []byte) (string, bool) {
	if len(side) < 35 || side[0] != 0x22 || side[1] != 0x0a || side[2] != 0x20 {
		return "", false
	}
	return string(side[3:35]), true
}

// multiSession: node N (one long-term key, one process) runs k honest sessions with fresh peers,
// each followed by one data message from the peer; a passive recorder keeps both sides. Then r
// more handshakes of N are answered by a party holding no key at all that replays a recorded
// side verbatim — the side recorded opposite to the ephemeral key N shows now if N has shown it
// before, else the peer side of session (t mod k). Reports whether all ephemeral public keys sent
// by honest endpoints were distinct, and the verdict of every replay.
func multiSession(k, r int) string {
	nKey := ed25519.GenPrivKey()
	var recs []recorded
	seen := map[string]int{}
	distinct := true
	note := func(side []byte) bool {
		e, ok := ephOf(side)
		if !ok {
			return false
		}
		seen[e]++
		if seen[e] > 1 {
			distinct = false
		}
		return true
	}
	for i := 0; i < k; i++ {
		xKey := ed25519.GenPrivKey()
		p, err := honestPairKeys(nKey, xKey)
		if err != nil {
			return "session-failed:" + strings.ReplaceAll(err.Error(), " ", "_")
		}
		msg := []byte(fmt.Sprintf("hello from peer %d", i))
		if _, err := p.b.Write(msg); err != nil {
			return "session-failed:write"
		}
		buf := make([]byte, 64)
		n, err := p.a.Read(buf)
		if err != nil || !bytes.Equal(buf[:n], msg) {
			return "session-failed:read"
		}
		rc := recorded{nSide: append([]byte{}, p.ab.w.rec...), xSide: append([]byte{}, p.ba.w.rec...), xKey: xKey.PubKey()}
		if !note(rc.nSide) || !note(rc.xSide) {
			return "session-failed:unparsed-ephemeral"
		}
		recs = append(recs, rc)
	}
	var verdicts []string
	for t := 0; t < r; t++ {
		v := startVictimKey(nKey)
		first := make([]byte, 35)
		if _, err := io.ReadFull(&endConn{in: v.frV, out: v.toV}, first); err != nil {
			v.finish()
			verdicts = append(verdicts, "no-ephemeral")
			continue
		}
		e, _ := ephOf(first)
		replay := recs[t%k].xSide
		for _, rc := range recs {
			if ne, _ := ephOf(rc.nSide); ne == e {
				replay = rc.xSide
			} else if xe, _ := ephOf(rc.xSide); xe == e {
				replay = rc.nSide
			}
		}
		note(first)
		v.toV.write(replay)
		v.toV.close()
		<-v.done
		vd := v.verdict(nil, nil)
		if v.err == nil {
			vd = "ok:replayed-session"
			buf := make([]byte, 64)
			if n, err := v.sc.Read(buf); err == nil && n > 0 {
				vd += "+data"
			}
		}
		verdicts = append(verdicts, vd)
	}
	d := "distinct"
	if !distinct {
		d = "reused"
	}
	rs := "-"
	if len(verdicts) > 0 {
		rs = strings.Join(verdicts, ",")
	}
	return fmt.Sprintf("eph=%s replays=%s", d, rs)
}

// ---- transport.upgrade: the identity checks on top of the secret connection ----

func mkNodeInfo(id p2p.ID) p2p.DefaultNodeInfo {
	return p2p.DefaultNodeInfo{
		ProtocolVersion: p2p.NewProtocolVersion(8, 11, 0),
		DefaultNodeID:   id,
		ListenAddr:      "127.0.0.1:26656",
		Network:         "verif",
		Version:         "0.34.24",
		Channels:        []byte{0x01},
		Moniker:         "n",
		Other:           p2p.DefaultNodeInfoOther{TxIndex: "off", RPCAddress: "tcp://127.0.0.1:26657"},
	}
}

type upVictim struct {
	key      ed25519.PrivKey
	err      error
	done     chan struct{}
	toV, frV *wire
}

func startUpgrade(key ed25519.PrivKey, dialed *p2p.NetAddress) *upVictim {
	v := &upVictim{key: key, done: make(chan struct{}), toV: newWire(), frV: newWire()}
	nk := p2p.NodeKey{PrivKey: key}
	mt := p2p.NewMultiplexTransport(mkNodeInfo(nk.ID()), nk, conn.DefaultMConnConfig())
	go func() {
		defer close(v.done)
		defer func() {
			if r := recover(); r != nil {
				v.err = fmt.Errorf("panic: %v", r)
			}
			v.frV.close()
		}()
		_, _, v.err = mt.VerifUpgrade(&netEnd{endConn{in: v.toV, out: v.frV}}, dialed)
	}()
	return v
}

func (v *upVictim) verdict() string {
	v.toV.close()
	<-v.done
	if v.err == nil {
		return "ok"
	}
	rej, ok := v.err.(p2p.ErrRejected)
	if !ok {
		return "err:" + strings.ReplaceAll(v.err.Error(), " ", "_")
	}
	s := rej.Error()
	switch {
	case rej.IsSelf():
		return "rej:self"
	case rej.IsAuthFailure() && strings.Contains(s, "dialed ID"):
		return "rej:auth:dialed"
	case rej.IsAuthFailure() && strings.Contains(s, "NodeInfo.ID"):
		return "rej:auth:nodeinfo"
	case rej.IsAuthFailure() && strings.Contains(s, "secret conn failed"):
		return "rej:auth:secretconn"
	case rej.IsAuthFailure():
		return "rej:auth:handshake"
	case rej.IsNodeInfoInvalid():
		return "rej:nodeinfo-invalid"
	case rej.IsIncompatible():
		return "rej:incompatible"
	}
	return "rej:other:" + strings.ReplaceAll(s, " ", "_")
}

func addrOf(k crypto.PubKey) *p2p.NetAddress {
	return &p2p.NetAddress{ID: p2p.PubKeyToID(k), IP: net.IPv4(127, 0, 0, 1), Port: 26656}
}

// peerSide plays a rule-following node with key `k` that reports node id `infoID`.
func peerSide(v *upVictim, k crypto.PrivKey, infoID p2p.ID) {
	sc, err := conn.MakeSecretConnection(&endConn{in: v.frV, out: v.toV}, k)
	if err != nil {
		return
	}
	_, _ = protoio.NewDelimitedWriter(sc).WriteMsg(mkNodeInfo(infoID).ToProto())
	var pb tmp2p.DefaultNodeInfo
	_, _ = protoio.NewDelimitedReader(sc, 10240).ReadMsg(&pb)
}

// upgradeScript runs the real MultiplexTransport.upgrade against one counterparty script.
func upgradeScript(kind string) string {
	own := ed25519.GenPrivKey()
	peer := ed25519.GenPrivKey()
	third := ed25519.GenPrivKey()
	advKey := ed25519.GenPrivKey()
	switch kind {
	case "honest-out", "honest-in", "dialed-mismatch", "nodeinfo-mismatch", "self-dial", "own-key-out":
		var dialed *p2p.NetAddress
		k, info := crypto.PrivKey(peer), p2p.PubKeyToID(peer.PubKey())
		switch kind {
		case "honest-out":
			dialed = addrOf(peer.PubKey())
		case "dialed-mismatch":
			dialed = addrOf(third.PubKey())
		case "nodeinfo-mismatch":
			info = p2p.PubKeyToID(third.PubKey())
		case "self-dial":
			k, info = own, p2p.PubKeyToID(own.PubKey())
		case "own-key-out": // a man in the middle answering, with its own identity, a dial to `peer`
			k, info = advKey, p2p.PubKeyToID(advKey.PubKey())
			dialed = addrOf(peer.PubKey())
		}
		v := startUpgrade(own, dialed)
		peerSide(v, k, info)
		return v.verdict()
	case "reflect-in", "reflect-out", "reflect-advinfo", "bad-sig":
		var dialed *p2p.NetAddress
		if kind == "reflect-out" {
			dialed = addrOf(peer.PubKey())
		}
		v := startUpgrade(own, dialed)
		a := newAdv(v.frV, v.toV)
		if err := a.begin(nil); err != nil {
			v.verdict()
			return "adv-broken:" + strings.ReplaceAll(err.Error(), " ", "_")
		}
		if err := a.takeAuth(); err != nil {
			v.verdict()
			return "adv-broken:cannot-open-victim-auth"
		}
		if kind == "bad-sig" {
			other := sha256.Sum256(a.challenge[:])
			sig, _ := advKey.Sign(other[:])
			a.out.write(a.sealChunk(authBytes(advKey.PubKey(), sig)))
			return v.verdict()
		}
		a.out.write(a.sealChunk(a.victimAuth)) // the node's own key and signature
		// node info exchange (only reached if the dialed-id check passed)
		if s, err := a.readSealed(); err == nil {
			if ni, err := a.openChunk(s); err == nil {
				if kind == "reflect-advinfo" {
					bz, _ := protoio.MarshalDelimited(mkNodeInfo(p2p.PubKeyToID(advKey.PubKey())).ToProto())
					a.out.write(a.sealChunk(bz))
				} else {
					a.out.write(a.sealChunk(ni)) // the node's own node info
				}
			}
		}
		return v.verdict()
	}
	return "bad-op"
}

// ---- property oracle: an independent symbolic run (every wire byte is "byte `off` of honest
// frame `id`, xor `mask`" or foreign) deciding for every Read what an authenticated, ordered,
// tamper-evident channel may return ----

type cell struct {
	dr   string // direction whose key sealed the frame ("" = foreign bytes)
	id   int    // honest frame id within that direction, -1 = foreign
	off  int
	mask byte
}

type odir struct {
	wire    []cell
	chunks  [][]byte // plaintext chunk of frame id
	fnonce  []uint64 // nonce the frame was sealed under
	wNonce  uint64
	rNonce  uint64
	pending []byte
	closed  bool
	tooLong map[int]bool
	written []byte
	got     []byte
}

func splitChunks(data []byte) [][]byte {
	var o [][]byte
	for len(data) > 0 {
		n := len(data)
		if n > dataMaxSize {
			n = dataMaxSize
		}
		o = append(o, data[:n])
		data = data[n:]
	}
	return o
}

func field(out, key string) string {
	for _, t := range strings.Fields(out) {
		if strings.HasPrefix(t, key+"=") {
			return t[len(key)+1:]
		}
	}
	return ""
}

func oracle(c core.Case, out []string) []core.Finding {
	var fs []core.Finding
	add := func(fp, desc string) { fs = append(fs, core.Finding{Fingerprint: fp, Desc: desc}) }
	var ds map[string]*odir
	for i, op := range c.Ops {
		f := strings.Fields(op)
		m := kv(op)
		o := out[i]
		if strings.HasPrefix(o, "PANIC") || o == "MISSING" {
			add("harness.exec-panic", "executor failed on op "+op+": "+o)
			return fs
		}
		switch f[0] {
		case "hs":
			if !strings.HasPrefix(o, "ok ") {
				add("secretconn.handshake.honest-pair-fails", "an undisturbed handshake failed: "+o)
				return fs
			}
			ds = map[string]*odir{"ab": {wNonce: 1, rNonce: 1}, "ba": {wNonce: 1, rNonce: 1}}
			continue
		case "link":
			// an admitted peer's presented identity (NodeInfo ID; the dialed ID when dialing) must be
			// the ID of the key that completed the handshake (the counterparty always holds key A)
			dirn := map[string]string{"out": "outbound", "in": "inbound"}[m["dir"]]
			honest := m["info"] == "A" && (m["dir"] == "in" || m["did"] == "A")
			switch {
			case o == "bad-op":
			case strings.HasPrefix(o, "harness-") || o == "timeout" || strings.HasPrefix(o, "err:"):
				add("harness.link-script-failed."+dirn, op+": "+o)
			case strings.HasPrefix(o, "admitted"):
				switch {
				case m["info"] != "A" || o != "admitted:key-id":
					add("transport.upgrade.admits-foreign-nodeinfo-id."+dirn, "a counterparty holding key A presented NodeInfo ID B and was admitted as peer B ("+op+": "+o+")")
				case m["dir"] == "out" && m["did"] == "none":
					add("transport.upgrade.admits-without-dialed-id.outbound", "dialing an address without ID admitted whoever answered as an authenticated peer ("+op+": "+o+")")
				case m["dir"] == "out" && m["did"] != "A":
					add("transport.upgrade.admits-undialed-key.outbound", "dialed ID B, the key that completed the handshake is A, admitted ("+op+": "+o+")")
				}
			case honest:
				add("transport.upgrade.rejects-honest-peer."+dirn, op+": "+o)
			}
			continue
		case "multi":
			switch {
			case o == "bad-op":
			case strings.HasPrefix(o, "session-failed"):
				add("secretconn.handshake.honest-pair-fails", "multi-session run: "+o)
			default:
				if field(o, "eph") != "distinct" {
					add("secretconn.handshake.ephemeral-key-reused", "an honest endpoint sent the same cleartext ephemeral public key in two sessions of one process: "+o)
				}
				for _, v := range strings.Split(field(o, "replays"), ",") {
					if strings.HasPrefix(v, "ok") {
						add("secretconn.handshake.replayed-session-accepted", "a party holding no private key replayed the recorded remote side of an earlier session and MakeSecretConnection completed (and read the replayed data frame if +data): "+o)
						break
					}
				}
			}
			continue
		case "up":
			kind := m["kind"]
			switch {
			case o == "bad-op":
			case strings.HasPrefix(o, "adv-broken"):
				add("harness.adversary-broken.up-"+kind, o)
			case kind == "honest-out" || kind == "honest-in":
				if o != "ok" {
					add("transport.upgrade.rejects-honest-peer", kind+": "+o)
				}
			case o == "ok":
				add("transport.upgrade.accepts."+kind, "upgrade accepted a link whose authenticated key is not the dialed / self-reported / a foreign identity (script "+kind+")")
			case !strings.HasPrefix(o, "rej:"):
				add("transport.upgrade.unexpected-error."+kind, o)
			}
			continue
		case "mitm":
			kind := m["kind"]
			if strings.HasPrefix(o, "adv-broken") {
				add("harness.adversary-broken."+kind, "the harness's adversary could not play its part: "+o)
				continue
			}
			if o == "bad-op" {
				continue
			}
			for _, t := range strings.Fields(o) {
				v := t[strings.IndexByte(t, '=')+1:]
				switch {
				case kind == "relay":
					if v != "ok:peer" {
						add("secretconn.handshake.honest-pair-fails", "undisturbed handshake: "+o)
					}
				case kind == "own-key" || kind == "long-eph":
					if v != "ok:adv" {
						add("harness.adversary-broken."+kind, "an adversary that plays by the rules with its own key was not accepted as itself: "+o)
					}
				case v == "ok:self":
					add("secretconn.handshake.reflected-own-signature", "MakeSecretConnection completed with RemotePubKey = the local node's own key against a party that does not hold that key (script "+kind+": the party echoed the node's own key and signature over the symmetric challenge)")
				case v == "ok:peer" || v == "ok:other" || v == "ok:othertype":
					add("secretconn.handshake.mitm-accepted."+kind, "handshake under script "+kind+" completed with an honest/foreign identity the counterparty does not hold: "+o)
				case v == "ok:adv":
					add("secretconn.handshake.not-rejected."+kind, "handshake under script "+kind+" must fail but completed: "+o)
				case strings.HasPrefix(v, "fail:other"):
					add("secretconn.handshake.unexpected-error."+kind, o)
				}
			}
			continue
		}
		if ds == nil {
			continue
		}
		d := ds[m["d"]]
		if d == nil || o == "bad-op" {
			continue
		}
		S := sealedSize
		switch f[0] {
		case "w":
			data := unhx(m["data"])
			k, _ := strconv.Atoi(field(o, "frames"))
			nn, _ := strconv.ParseUint(field(o, "nonce"), 10, 64)
			chs := splitChunks(data)
			if k > len(chs) {
				add("secretconn.Write.too-many-frames", fmt.Sprintf("Write of %d bytes put %d frames on the wire", len(data), k))
				return fs
			}
			for j := 0; j < k; j++ {
				id := len(d.chunks)
				d.chunks = append(d.chunks, chs[j])
				d.fnonce = append(d.fnonce, d.wNonce+uint64(j))
				for x := 0; x < S; x++ {
					d.wire = append(d.wire, cell{m["d"], id, x, 0})
				}
			}
			for j := 0; j < k; j++ { // what reached the conn is what the reader may legitimately see
				d.written = append(d.written, chs[j]...)
			}
			switch {
			case strings.HasPrefix(o, "panic"):
				if d.wNonce+uint64(k) != math.MaxUint64 || nn != math.MaxUint64 {
					add("secretconn.Write.panic-before-overflow", fmt.Sprintf("Write panicked with counter %d after %d frames from %d", nn, k, d.wNonce))
				}
			case strings.Contains(o, " ok "):
				n, _ := strconv.Atoi(field(o, "n"))
				if n != len(data) || k != len(chs) {
					add("secretconn.Write.short-write-without-error", fmt.Sprintf("Write(%d bytes) = %d, %d of %d frames", len(data), n, k, len(chs)))
				}
				if d.closed && len(data) > 0 {
					add("secretconn.Write.ok-on-failed-conn", o)
				}
			default: // conn error: n counts exactly the chunks that reached the conn
				n, _ := strconv.Atoi(field(o, "n"))
				sum := 0
				for j := 0; j < k; j++ {
					sum += len(chs[j])
				}
				if n != sum {
					add("secretconn.Write.wrong-count-on-error", fmt.Sprintf("Write reported n=%d but %d bytes in %d frames reached the conn", n, sum, k))
				}
			}
			// a nonce is never used twice: the counter only moves forward, by at least the frames sealed
			if nn < d.wNonce+uint64(k) || nn < d.wNonce {
				add("secretconn.Write.nonce-reused", fmt.Sprintf("send counter went from %d to %d while %d frames were sealed and sent", d.wNonce, nn, k))
			}
			d.wNonce = nn
		case "r":
			k, _ := strconv.Atoi(m["k"])
			exp := ""
			why := ""
			switch {
			case len(d.pending) > 0:
				n := k
				if n > len(d.pending) {
					n = len(d.pending)
				}
				exp = "ok " + hx(d.pending[:n])
				d.pending = d.pending[n:]
			case len(d.wire) == 0:
				exp = "err:eof"
			case len(d.wire) < S:
				exp = "err:ueof"
				d.wire = nil
			default:
				blk := d.wire[:S]
				d.wire = d.wire[S:]
				id := blk[0].id
				pristine := id >= 0 && blk[0].dr == m["d"]
				for x, cl := range blk {
					if cl.dr != blk[0].dr || cl.id != id || cl.off != x || cl.mask != 0 {
						pristine = false
					}
				}
				switch {
				case !pristine:
					exp, why = "err:decrypt", "modified"
				case d.fnonce[id] != d.rNonce:
					exp, why = "err:decrypt", "replayed-or-reordered"
				case d.rNonce == math.MaxUint64:
					exp = "err:panic"
				case d.tooLong[id]:
					d.rNonce++
					exp = "err:toolong"
				default:
					d.rNonce++
					ch := d.chunks[id]
					n := k
					if n > len(ch) {
						n = len(ch)
					}
					exp = "ok " + hx(ch[:n])
					d.pending = append([]byte{}, ch[n:]...)
				}
			}
			got := o
			if i := strings.Index(o, " nonce="); i >= 0 {
				got = o[:i]
			}
			if strings.HasPrefix(got, "ok ") {
				d.got = append(d.got, unhx(got[3:])...)
				if !bytes.HasPrefix(d.written, d.got) {
					add("secretconn.Read.delivers-non-prefix", fmt.Sprintf("dir %s: bytes handed to the reader are not a prefix of the bytes written", m["d"]))
					return fs
				}
			}
			if got != exp {
				switch {
				case strings.HasPrefix(got, "ok ") && why != "":
					add("secretconn.Read.accepts-"+why+"-frame", fmt.Sprintf("dir %s op %d: Read returned data from a %s frame (expected %s)", m["d"], i, why, exp))
				case strings.HasPrefix(got, "ok "):
					add("secretconn.Read.returns-wrong-bytes", fmt.Sprintf("dir %s op %d: expected %s got %s", m["d"], i, trunc(exp), trunc(got)))
				case strings.HasPrefix(exp, "ok "):
					add("secretconn.Read.fails-on-genuine-frame", fmt.Sprintf("dir %s op %d: expected data, got %s", m["d"], i, got))
				default:
					add("secretconn.Read.wrong-error-class", fmt.Sprintf("dir %s op %d: expected %s got %s", m["d"], i, exp, got))
				}
				return fs
			}
		case "flip":
			if strings.HasPrefix(o, "ok") {
				off, _ := strconv.Atoi(m["off"])
				bit, _ := strconv.Atoi(m["bit"])
				d.wire[off].mask ^= 1 << uint(bit)
			}
		case "cut":
			if strings.HasPrefix(o, "ok") {
				off, _ := strconv.Atoi(m["off"])
				ln, _ := strconv.Atoi(m["len"])
				d.wire = append(append([]cell{}, d.wire[:off]...), d.wire[off+ln:]...)
			}
		case "ins":
			if strings.HasPrefix(o, "ok") {
				off, _ := strconv.Atoi(m["off"])
				n := len(unhx(m["bytes"]))
				nw := append([]cell{}, d.wire[:off]...)
				for x := 0; x < n; x++ {
					nw = append(nw, cell{"", -1, 0, 0})
				}
				d.wire = append(nw, d.wire[off:]...)
			}
		case "dupf":
			if strings.HasPrefix(o, "ok") {
				i2, _ := strconv.Atoi(m["i"])
				at, _ := strconv.Atoi(m["at"])
				nw := append([]cell{}, d.wire[:at*S]...)
				nw = append(nw, d.wire[i2*S:(i2+1)*S]...)
				d.wire = append(nw, d.wire[at*S:]...)
			}
		case "swapf":
			if strings.HasPrefix(o, "ok") {
				a, _ := strconv.Atoi(m["i"])
				b, _ := strconv.Atoi(m["j"])
				nw := append([]cell{}, d.wire...)
				copy(nw[a*S:(a+1)*S], d.wire[b*S:(b+1)*S])
				copy(nw[b*S:(b+1)*S], d.wire[a*S:(a+1)*S])
				d.wire = nw
			}
		case "trunc":
			if strings.HasPrefix(o, "ok") {
				n, _ := strconv.Atoi(m["n"])
				d.wire = d.wire[:n]
			}
		case "setnonce":
			if o == "ok" {
				v, _ := strconv.ParseUint(m["v"], 10, 64)
				if m["side"] == "w" {
					d.wNonce = v
				} else {
					d.rNonce = v
				}
			}
		case "closew":
			d.closed = true
		case "wraw":
			nn, _ := strconv.ParseUint(field(o, "nonce"), 10, 64)
			if strings.HasPrefix(o, "ok") {
				ln, _ := strconv.ParseUint(m["len"], 10, 64)
				body := append(unhx(m["body"]), make([]byte, dataMaxSize)...)
				id := len(d.chunks)
				if ln <= dataMaxSize {
					d.chunks = append(d.chunks, body[:ln])
					d.written = append(d.written, body[:ln]...)
				} else {
					d.chunks = append(d.chunks, nil)
					if d.tooLong == nil {
						d.tooLong = map[int]bool{}
					}
					d.tooLong[id] = true
				}
				d.fnonce = append(d.fnonce, d.wNonce)
				for x := 0; x < S; x++ {
					d.wire = append(d.wire, cell{m["d"], id, x, 0})
				}
			}
			if strings.HasPrefix(o, "panic") && d.wNonce != math.MaxUint64 {
				add("secretconn.Write.panic-before-overflow", "raw frame: "+o)
			}
			d.wNonce = nn
		case "reflectw":
			if strings.HasPrefix(o, "ok") {
				od := ds["ba"]
				if m["d"] == "ba" {
					od = ds["ab"]
				}
				od.wire = append(od.wire, d.wire...) // cells keep the direction whose key sealed them
			}
		}
	}
	return fs
}

func trunc(s string) string {
	if len(s) > 80 {
		return s[:80] + "…"
	}
	return s
}

// ---- generators ----

func rbytes(r *rand.Rand, n int) []byte {
	b := make([]byte, n)
	alpha := 4
	if r.Intn(4) == 0 {
		alpha = 256
	}
	if r.Intn(6) == 0 { // one repeated byte: equal chunks in different frames
		v := byte(r.Intn(alpha))
		for i := range b {
			b[i] = v
		}
		return b
	}
	for i := range b {
		b[i] = byte(r.Intn(alpha))
	}
	return b
}

var writeSizes = []int{0, 1, 2, 3, 7, 100, 1023, 1024, 1025, 2047, 2048, 2049, 3072, 3073}
var readSizes = []int{0, 1, 2, 5, 100, 1023, 1024, 1025, 2048, 5000}

func wsize(r *rand.Rand) int {
	switch r.Intn(4) {
	case 0:
		return writeSizes[r.Intn(len(writeSizes))]
	case 1:
		return r.Intn(40)
	case 2:
		return 900 + r.Intn(300)
	}
	return r.Intn(3300)
}

func rsize(r *rand.Rand) int {
	switch r.Intn(3) {
	case 0:
		return readSizes[r.Intn(len(readSizes))]
	case 1:
		return 1 + r.Intn(30)
	}
	return 1 + r.Intn(2500)
}

type gdir struct {
	name   string
	frames int // sealed frames believed to be on the wire (unread), ignoring misalignment
}

var editHist = map[string]int{}

func randJunk(r *rand.Rand, n int) []byte {
	b := make([]byte, n)
	for i := range b {
		b[i] = byte(r.Intn(256))
	}
	return b
}

// genEdit emits one edit op on a wire believed to hold `frames` whole frames. Byte-granular
// cuts and insertions keep ≥ 16 bytes of the touched block after the edit point, so that a
// block can only stay intact by a ≥ 2^-128 coincidence (the toy and the real ciphertexts differ,
// a one-byte coincidence would show up as a spurious disagreement).
func genEdit(r *rand.Rand, d *gdir) (string, bool) {
	if d.frames == 0 {
		if r.Intn(3) == 0 {
			editHist["ins-on-empty"]++
			return fmt.Sprintf("ins d=%s off=0 bytes=%s", d.name, hx(randJunk(r, 16+r.Intn(1100)))), true
		}
		return "", false
	}
	S := sealedSize
	j := r.Intn(d.frames)
	switch r.Intn(11) {
	case 0, 1:
		editHist["flip"]++
		var off int
		switch r.Intn(4) {
		case 0:
			off = r.Intn(4) // length field
		case 1:
			off = S - 1 - r.Intn(16) // tag
		default:
			off = r.Intn(S)
		}
		return fmt.Sprintf("flip d=%s off=%d bit=%d", d.name, j*S+off, r.Intn(8)), true
	case 2:
		editHist["drop-frame"]++
		d.frames--
		return fmt.Sprintf("cut d=%s off=%d len=%d", d.name, j*S, S), true
	case 3:
		editHist["dup-frame"]++
		at := r.Intn(d.frames + 1)
		d.frames++
		return fmt.Sprintf("dupf d=%s i=%d at=%d", d.name, j, at), true
	case 4:
		if d.frames < 2 {
			return "", false
		}
		editHist["swap-frames"]++
		a := r.Intn(d.frames - 1)
		b := a + 1 + r.Intn(d.frames-a-1)
		return fmt.Sprintf("swapf d=%s i=%d j=%d", d.name, a, b), true
	case 5:
		editHist["trunc-aligned"]++
		n := r.Intn(d.frames + 1)
		d.frames = n
		return fmt.Sprintf("trunc d=%s n=%d", d.name, n*S), true
	case 6:
		editHist["trunc-inside"]++
		n := j*S + 1 + r.Intn(S-1)
		d.frames = j + 1 // the partial one is consumed by the failing read
		return fmt.Sprintf("trunc d=%s n=%d", d.name, n), true
	case 7:
		editHist["cut-bytes"]++
		off := j*S + r.Intn(S-40)
		ln := 1 + r.Intn(40)
		if off+ln > d.frames*S {
			ln = d.frames*S - off
		}
		return fmt.Sprintf("cut d=%s off=%d len=%d", d.name, off, ln), true
	case 8:
		editHist["ins-bytes"]++
		off := j*S + r.Intn(S-40)
		if r.Intn(3) == 0 {
			off = j * S
		}
		n := 16 + r.Intn(40)
		if r.Intn(4) == 0 {
			n = S
			d.frames++
		}
		return fmt.Sprintf("ins d=%s off=%d bytes=%s", d.name, off, hx(randJunk(r, n))), true
	case 9:
		editHist["append-junk"]++
		n := 16 + r.Intn(S+100)
		return fmt.Sprintf("ins d=%s off=%d bytes=%s", d.name, d.frames*S, hx(randJunk(r, n))), true
	default:
		editHist["flip-any"]++
		off := j*S + r.Intn(S)
		bit := r.Intn(8)
		return fmt.Sprintf("flip d=%s off=%d bit=%d", d.name, off, bit), true
	}
}

func drain(r *rand.Rand, d *gdir, ops []string) []string {
	n := d.frames + 3
	for i := 0; i < n; i++ {
		k := 2048
		if r.Intn(3) == 0 {
			k = rsize(r)
		}
		ops = append(ops, fmt.Sprintf("r d=%s k=%d", d.name, k))
	}
	return ops
}

func genStream(r *rand.Rand, emit func(core.Case), n int, tamper int, long bool) {
	for c := 0; c < n; c++ {
		ops := []string{"hs"}
		ds := []*gdir{{name: "ab"}, {name: "ba"}}
		steps := 4 + r.Intn(12)
		if long {
			steps = 20 + r.Intn(40)
		}
		for s := 0; s < steps; s++ {
			d := ds[r.Intn(2)]
			if r.Intn(5) == 0 {
				d = ds[0]
			}
			x := r.Intn(100)
			switch {
			case x < 40:
				sz := wsize(r)
				ops = append(ops, fmt.Sprintf("w d=%s data=%s", d.name, hx(rbytes(r, sz))))
				d.frames += (sz + dataMaxSize - 1) / dataMaxSize
			case x < 44 && tamper > 0:
				// a peer that holds the key but breaks the framing rules
				ln := []int{0, 1, 5, 1023, 1024, 1025, 2000, 65536, 1 << 31, 1<<32 - 1}[r.Intn(10)]
				ops = append(ops, fmt.Sprintf("wraw d=%s len=%d body=%s", d.name, ln, hx(rbytes(r, r.Intn(12)))))
				d.frames++
			case x < 46 && tamper > 0:
				ops = append(ops, "reflectw d="+d.name)
				o := ds[0]
				if d == ds[0] {
					o = ds[1]
				}
				o.frames += d.frames
			case x < 40+tamper:
				if e, ok := genEdit(r, d); ok {
					ops = append(ops, e)
					if strings.HasPrefix(e, "flip") && r.Intn(4) == 0 {
						ops = append(ops, e) // undo
					}
				}
			default:
				ops = append(ops, fmt.Sprintf("r d=%s k=%d", d.name, rsize(r)))
				if r.Intn(3) == 0 && d.frames > 0 {
					d.frames--
				}
			}
		}
		for _, d := range ds {
			ops = drain(r, d, ops)
		}
		kind := "stream"
		if tamper > 0 {
			kind = "tamper"
		}
		emit(core.Case{Kind: kind, Ops: ops})
	}
}

// one clean burst, one edit, full drain: the verdict at the first affected frame
func genOneEdit(r *rand.Rand, emit func(core.Case), n int) {
	for c := 0; c < n; c++ {
		ops := []string{"hs"}
		d := &gdir{name: []string{"ab", "ba"}[r.Intn(2)]}
		for w := 1 + r.Intn(4); w > 0; w-- {
			sz := 1 + wsize(r)
			ops = append(ops, fmt.Sprintf("w d=%s data=%s", d.name, hx(rbytes(r, sz))))
			d.frames += (sz + dataMaxSize - 1) / dataMaxSize
		}
		before := d.frames
		e, ok := genEdit(r, d)
		if ok {
			ops = append(ops, e)
		}
		if d.frames < before {
			d.frames = before
		}
		ops = drain(r, d, ops)
		emit(core.Case{Kind: "one-edit", Ops: ops})
	}
}

func genOverflow(r *rand.Rand, emit func(core.Case), n int) {
	for c := 0; c < n; c++ {
		ops := []string{"hs"}
		dn := []string{"ab", "ba"}[r.Intn(2)]
		v := uint64(math.MaxUint64) - uint64(r.Intn(4))
		ops = append(ops, fmt.Sprintf("setnonce d=%s side=w v=%d", dn, v))
		rv := v
		if r.Intn(4) == 0 {
			rv = v - 1 // desynchronised reader: everything must fail to decrypt
		}
		ops = append(ops, fmt.Sprintf("setnonce d=%s side=r v=%d", dn, rv))
		fr := 0
		for w := 1 + r.Intn(3); w > 0; w-- {
			sz := 1 + r.Intn(3000)
			ops = append(ops, fmt.Sprintf("w d=%s data=%s", dn, hx(rbytes(r, sz))))
			fr += (sz + dataMaxSize - 1) / dataMaxSize
		}
		ops = drain(r, &gdir{name: dn, frames: fr}, ops)
		ops = append(ops, fmt.Sprintf("w d=%s data=01", dn))
		emit(core.Case{Kind: "overflow", Ops: ops})
	}
}

func genClosed(r *rand.Rand, emit func(core.Case), n int) {
	for c := 0; c < n; c++ {
		ops := []string{"hs"}
		dn := []string{"ab", "ba"}[r.Intn(2)]
		sz := r.Intn(2500)
		ops = append(ops, fmt.Sprintf("w d=%s data=%s", dn, hx(rbytes(r, sz))))
		ops = append(ops, "closew d="+dn)
		ops = append(ops, fmt.Sprintf("w d=%s data=%s", dn, hx(rbytes(r, r.Intn(2500)))))
		ops = append(ops, fmt.Sprintf("w d=%s data=%s", dn, hx(rbytes(r, 1+r.Intn(10)))))
		ops = drain(r, &gdir{name: dn, frames: 4}, ops)
		emit(core.Case{Kind: "closed-conn", Ops: ops})
	}
}

var mitmKinds = []string{"relay", "own-key", "swap-eph", "swap-eph-noreenc", "replay-auth", "wrong-keytype",
	"bad-sig", "reflect", "reflect-sig", "garbage-auth", "flip-eph", "short-eph", "long-eph"}

var upKinds = []string{"honest-out", "honest-in", "dialed-mismatch", "nodeinfo-mismatch", "self-dial", "own-key-out",
	"reflect-in", "reflect-out", "reflect-advinfo", "bad-sig"}

func genMitm(r *rand.Rand, emit func(core.Case), rounds int) {
	for c := 0; c < rounds; c++ {
		for _, k := range upKinds {
			emit(core.Case{Kind: "upgrade", Ops: []string{"up kind=" + k}})
		}
		for _, l := range []string{"dir=out did=A info=A", "dir=out did=A info=B", "dir=out did=B info=A", "dir=out did=B info=B",
			"dir=out did=none info=A", "dir=out did=none info=B", "dir=in did=- info=A", "dir=in did=- info=B"} {
			emit(core.Case{Kind: "link", Ops: []string{"link " + l}})
		}
		for i := 0; i < 6; i++ {
			k := 1 + r.Intn(8)
			emit(core.Case{Kind: "multi-session", Ops: []string{fmt.Sprintf("multi k=%d r=%d", k, k+r.Intn(2*k+1))}})
		}
		for _, k := range mitmKinds {
			emit(core.Case{Kind: "mitm", Ops: []string{"mitm kind=" + k}})
		}
		for k := range lowOrderPoints {
			emit(core.Case{Kind: "mitm", Ops: []string{fmt.Sprintf("mitm kind=low-order k=%d", k)}})
		}
	}
	// glue: malformed lines
	emit(core.Case{Kind: "glue", Ops: []string{"r d=ab k=1", "hs", "r d=xx k=1", "w d=ab", "flip d=ab off=0 bit=9",
		"flip d=ab off=0 bit=1", "cut d=ab off=0 len=1", "trunc d=ab n=1", "swapf d=ab i=0 j=0", "dupf d=ab i=0 at=0",
		"mitm kind=nonsense", "mitm", "up", "up kind=nonsense", "link", "link dir=up did=A info=A", "link dir=in did=A info=A", "link dir=out did=C info=A", "link dir=out did=A info=C", "multi", "multi k=0 r=1", "multi k=2 r=0", "multi k=17 r=1", "mitm kind=low-order k=99", "wraw d=ab len=4294967296 body=00", "wraw d=ab len=1", "wraw d=ab len=3 body=010203", "reflectw d=zz", "setnonce d=ab side=x v=1", "frob d=ab", "r d=ab k=0", "w d=ab data=-", "r d=ab k=4"}})
}

func main() {
	core.Main(core.Prop{
		ID:     "C16",
		Driver: "c16",
		Gen: func(r *rand.Rand, tier string, emit func(core.Case)) {
			n := 300
			if tier == "thorough" {
				n = 4000
			}
			genMitm(r, emit, 1+n/100)
			genStream(r, emit, n, 0, false)
			genStream(r, emit, n, 25, false)
			genOneEdit(r, emit, 2*n)
			genOverflow(r, emit, n/2)
			genClosed(r, emit, n/4)
			genStream(r, emit, n/10, 10, true)
		},
		Exec:   execCase,
		Oracle: oracle,
		NonTrivial: func(c core.Case, out []string) bool {
			for _, o := range out {
				if strings.HasPrefix(o, "ok ") || strings.HasPrefix(o, "a=") || strings.HasPrefix(o, "rej:") || strings.HasPrefix(o, "eph=") || strings.HasPrefix(o, "admitted") || o == "ok" {
					return true
				}
			}
			return false
		},
		Rule: "real SecretConnection pairs (fresh keys, real handshake) over an in-memory pipe; writes of 0..3300 bytes around the 1024-byte chunk boundary over a 4-letter alphabet (equal chunks in different frames are common), reads of 0..5000 bytes, both directions; edit scripts on the undelivered ciphertext: bit flips (length field, body, tag; flip-and-undo), frame drop/duplicate/swap, aligned and unaligned truncation, byte-granular cuts and insertions, appended junk; nonce counters set next to 2^64-1; failing conn; MITM handshake scripts (ephemeral substitution with and without re-encryption, replay of an earlier session's auth message, 14 small-order points, non-ed25519 key, bad signature, reflection of ephemeral+frame, reflection of key+signature, garbage frame) with positive controls. Non-trivial = at least one delivered read or one handshake verdict; distinct by hash of the op list",
		Assumptions: []string{"AEAD (ChaCha20-Poly1305), X25519, merlin/HKDF and ed25519 are parameters / free symbolic terms of the model: their strength is a hypothesis of the theorems, not a result",
			"the Lean driver instantiates the AEAD with a toy scheme (plaintext ‖ SHA-256 tag over key, counter, plaintext): only returned bytes, counters, buffer lengths and error classes are compared, never ciphertext",
			"the oracle is an independent symbolic run (each wire byte tracked as byte k of honest frame j or foreign) that decides for every Read what an authenticated ordered channel may return"},
		Extra: func() map[string]interface{} {
			return map[string]interface{}{"edit_histogram": editHist, "read_result_histogram": readHist, "mitm_verdict_histogram": mitmHist}
		},
	})
}
