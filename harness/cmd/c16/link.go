package main

// `link dir=out|in did=A|B|none|- info=A|B`: the REAL MultiplexTransport.Dial / Accept of a node
// over TCP (loopback) against a counterparty that holds key A (it runs the real
// MakeSecretConnection with it) and presents NodeInfo ID A or B; when the node dials, the dialed
// NetAddress carries ID A, ID B or no ID at all. Reports whether a Peer came out and under which
// identity. (How to run a real transport: after harness/cmd/c17/accept.go.)

import (
	"fmt"
	"net"
	"reflect"
	"strings"
	"time"

	"github.com/tendermint/tendermint/crypto/ed25519"
	"github.com/tendermint/tendermint/libs/protoio"
	"github.com/tendermint/tendermint/p2p"
	"github.com/tendermint/tendermint/p2p/conn"
	tmp2p "github.com/tendermint/tendermint/proto/tendermint/p2p"
)

func classifyUpgradeErr(err error) string {
	if err == nil {
		return "ok"
	}
	rej, ok := err.(p2p.ErrRejected)
	if !ok {
		return "err:" + strings.ReplaceAll(err.Error(), " ", "_")
	}
	s := rej.Error()
	switch {
	case rej.IsSelf():
		return "rej:self"
	case rej.IsAuthFailure() && strings.Contains(s, "dialed ID"):
		return "rej:auth:dialed"
	case rej.IsAuthFailure() && strings.Contains(s, "NodeInfo.ID"):
		return "rej:auth:nodeinfo"
	case rej.IsAuthFailure() && strings.Contains(s, "secret conn failed"):
		return "rej:auth:secretconn"
	case rej.IsAuthFailure():
		return "rej:auth:handshake"
	case rej.IsNodeInfoInvalid():
		return "rej:nodeinfo-invalid"
	case rej.IsIncompatible():
		return "rej:incompatible"
	}
	return "rej:other:" + strings.ReplaceAll(s, " ", "_")
}

// counterparty: secret connection with `key`, then the node info exchange presenting `infoID`;
// keeps the conn open until `stop` is closed (so that an admitted link is not torn down early).
func counterparty(c net.Conn, key ed25519.PrivKey, infoID p2p.ID, stop <-chan struct{}) {
	defer c.Close()
	_ = c.SetDeadline(time.Now().Add(10 * time.Second))
	sc, err := conn.MakeSecretConnection(c, key)
	if err != nil {
		return
	}
	_, _ = protoio.NewDelimitedWriter(sc).WriteMsg(mkNodeInfo(infoID).ToProto())
	var pb tmp2p.DefaultNodeInfo
	_, _ = protoio.NewDelimitedReader(sc, 10240).ReadMsg(&pb)
	<-stop
}

func linkScript(dir, did, info string) string {
	nodeKey := ed25519.GenPrivKey()
	keyA := ed25519.GenPrivKey()
	keyB := ed25519.GenPrivKey()
	idA, idB := p2p.PubKeyToID(keyA.PubKey()), p2p.PubKeyToID(keyB.PubKey())
	var infoID p2p.ID
	switch info {
	case "A":
		infoID = idA
	case "B":
		infoID = idB
	default:
		return "bad-op"
	}
	nk := p2p.NodeKey{PrivKey: nodeKey}
	mt := p2p.NewMultiplexTransport(mkNodeInfo(nk.ID()), nk, conn.DefaultMConnConfig())
	stop := make(chan struct{})
	defer close(stop)

	type res struct {
		p   p2p.Peer
		err error
	}
	out := make(chan res, 1)
	call := func(method string, args ...reflect.Value) {
		defer func() {
			if r := recover(); r != nil {
				out <- res{nil, fmt.Errorf("panic: %v", r)}
			}
		}()
		m := reflect.ValueOf(mt).MethodByName(method)
		args = append(args, reflect.Zero(m.Type().In(m.Type().NumIn()-1))) // the unexported peerConfig
		rv := m.Call(args)
		var p p2p.Peer
		var err error
		if !rv[0].IsNil() {
			p, _ = rv[0].Interface().(p2p.Peer)
		}
		if !rv[1].IsNil() {
			err, _ = rv[1].Interface().(error)
		}
		out <- res{p, err}
	}

	switch dir {
	case "out":
		var dialID p2p.ID
		switch did {
		case "A":
			dialID = idA
		case "B":
			dialID = idB
		case "none":
			dialID = ""
		default:
			return "bad-op"
		}
		ln, err := net.Listen("tcp", "127.0.0.1:0")
		if err != nil {
			return "harness-listen-failed"
		}
		defer ln.Close()
		go func() {
			c, err := ln.Accept()
			if err != nil {
				return
			}
			counterparty(c, keyA, infoID, stop)
		}()
		ta := ln.Addr().(*net.TCPAddr)
		addr := p2p.NetAddress{ID: dialID, IP: ta.IP, Port: uint16(ta.Port)}
		go call("Dial", reflect.ValueOf(addr))
	case "in":
		if did != "-" {
			return "bad-op"
		}
		probe, err := net.Listen("tcp", "127.0.0.1:0")
		if err != nil {
			return "harness-listen-failed"
		}
		laddr := probe.Addr().String()
		probe.Close()
		na, err := p2p.NewNetAddressString(p2p.IDAddressString(nk.ID(), laddr))
		if err != nil {
			return "harness-listen-failed"
		}
		if err := mt.Listen(*na); err != nil {
			return "harness-listen-failed"
		}
		defer mt.Close()
		go func() {
			c, err := net.DialTimeout("tcp", laddr, 3*time.Second)
			if err != nil {
				return
			}
			counterparty(c, keyA, infoID, stop)
		}()
		go call("Accept")
	default:
		return "bad-op"
	}

	select {
	case r := <-out:
		if r.err != nil {
			return classifyUpgradeErr(r.err)
		}
		if r.p == nil {
			return "err:no-peer-no-error"
		}
		id := r.p.ID()
		mt.Cleanup(r.p)
		switch id {
		case idA:
			return "admitted:key-id"
		case idB:
			return "admitted:foreign-id"
		}
		return "admitted:unknown-id"
	case <-time.After(15 * time.Second):
		return "timeout"
	}
}
