package main

import (
	"math/rand"

	"verifharness/core"
)

// Free-running cases (pool.Start, requester goroutines, 1 s hand-over ticker) are not part of the
// stream: their outcome depends on map order and timers. The op prefix is reserved.

func genE2E(r *rand.Rand, tier string, emit func(core.Case)) {}

func execE2E(c core.Case) []string {
	out := make([]string, len(c.Ops))
	for i := range out {
		out[i] = "bad-op"
	}
	return out
}

func oracleE2E(c core.Case, out []string) []core.Finding { return nil }
