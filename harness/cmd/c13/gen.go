package main

import (
	"fmt"
	"math/rand"
	"strconv"
	"strings"
	"sync"

	"verifharness/core"
)

// ---------------------------------------------------------------------------------------------
// generators

var (
	histMtx    sync.Mutex
	attackHist = map[string]int{}
	sigHist    = map[string]int{}
)

func count(m map[string]int, k string) {
	histMtx.Lock()
	m[k]++
	histMtx.Unlock()
}

var powerSets = [][]int64{
	{10, 10, 10, 10}, {10, 10, 10, 5}, {1, 1, 1}, {30, 10, 10, 5, 1}, {7, 3}, {5}, {4, 3, 2, 1}, {100, 1, 1, 1}, {2, 2, 2, 2, 2},
}

func pickPowers(r *rand.Rand) []int64 {
	if r.Intn(5) == 0 {
		n := 1 + r.Intn(5)
		p := make([]int64, n)
		for i := range p {
			p[i] = int64(1 + r.Intn(12))
		}
		return p
	}
	return powersCopy(powerSets[r.Intn(len(powerSets))])
}

func powersCopy(p []int64) []int64 { return append([]int64{}, p...) }

// quorumPrefix = smallest k such that validators 0..k-1 hold more than 2/3 of the power
func (ch *chain) quorumPrefix() int {
	total := ch.vals.TotalVotingPower()
	var t int64
	for i, v := range ch.vals.Validators {
		t += v.VotingPower
		if t > total*2/3 {
			return i + 1
		}
	}
	return len(ch.vals.Validators)
}

var sigKinds = []string{"full", "quorum-absent", "padded-sig", "padded-addr", "padded-nil-bad", "padded-nil-ok", "forged", "forged-addr-only",
	"short", "long", "insufficient", "random", "all-absent", "empty"}

func (ch *chain) sigPattern(r *rand.Rand, kind string) []sigTok {
	n := len(ch.keys)
	q := ch.quorumPrefix()
	ok := sigTok{'c', true, true}
	t := make([]sigTok, n)
	for i := range t {
		t[i] = ok
	}
	tail := func(f func(i int) sigTok) {
		for i := q; i < n; i++ {
			t[i] = f(i)
		}
	}
	switch kind {
	case "full":
	case "quorum-absent":
		tail(func(int) sigTok { return sigTok{flag: 'a'} })
	case "padded-sig":
		tail(func(int) sigTok { return sigTok{'c', r.Intn(3) > 0, false} })
	case "padded-addr":
		tail(func(int) sigTok { return sigTok{'c', false, true} })
	case "padded-nil-bad":
		tail(func(int) sigTok { return sigTok{'n', true, false} })
	case "padded-nil-ok":
		tail(func(int) sigTok { return sigTok{'n', true, true} })
	case "forged":
		t[r.Intn(q)] = sigTok{'c', true, false}
	case "forged-addr-only":
		t[r.Intn(q)] = sigTok{'c', false, true}
	case "short":
		t = t[:n-1]
	case "long":
		t = append(t, ok)
	case "insufficient":
		for i := q - 1; i < n; i++ {
			t[i] = sigTok{flag: 'a'}
		}
	case "random":
		for i := range t {
			switch r.Intn(6) {
			case 0:
				t[i] = sigTok{flag: 'a'}
			case 1:
				t[i] = sigTok{'n', r.Intn(2) == 0, r.Intn(2) == 0}
			case 2:
				t[i] = sigTok{'c', r.Intn(2) == 0, r.Intn(2) == 0}
			}
		}
	case "all-absent":
		for i := range t {
			t[i] = sigTok{flag: 'a'}
		}
	case "empty":
		t = nil
	}
	count(sigHist, kind)
	return t
}

func (ch *chain) canon(h int64) blockSpec {
	s := blockSpec{h: h, lch: h - 1}
	if h > 1 {
		s.toks = allSign(len(ch.keys))
	}
	return s
}

// secondWith = canonical block h whose LastCommit (for h-1) follows the given pattern
func (ch *chain) secondWith(r *rand.Rand, h int64, kind string) blockSpec {
	s := ch.canon(h)
	if h > 1 {
		s.toks = ch.sigPattern(r, kind)
	}
	return s
}

type script struct {
	ops []string
}

func (s *script) add(f string, a ...interface{}) { s.ops = append(s.ops, fmt.Sprintf(f, a...)) }

func initOp(powers []int64) (string, string, string) {
	ps, ks := configOf(powers)
	return fmt.Sprintf("init vals=%s keys=%s", ps, ks), ps, ks
}

// honestRound: fair retry for heights cur and cur+1 with the honest peer 1
func honestRound(s *script, ch *chain, cur, tip int64) {
	s.add("connect p=1")
	s.add("status p=1 base=1 height=%d", tip)
	s.add("mkreq")
	s.add("mkreq")
	s.add("rtimeout h=%d", cur)
	s.add("rtimeout h=%d", cur+1)
	s.add("pick h=%d p=1", cur)
	s.add("pick h=%d p=1", cur+1)
	s.ops = append(s.ops, ch.blockOp(1, ch.canon(cur)), ch.blockOp(1, ch.canon(cur+1)))
	s.add("process")
	s.add("show")
}

var attacks = []string{"wrong-first", "flawed-first", "bad-second", "both-unsigned", "wrong-height", "unasked", "silent", "stale-status",
	"bad-status", "malformed", "honest-first-liar-second-wrongheight-lc", "second-lc-other-target", "second-lc-wrong-psh"}

// attack emits one adversarial episode at height cur by liar L; byz reports whether it used
// blocks signed by more than 2/3 (which the property does not exclude from being saved).
func attack(r *rand.Rand, s *script, ch *chain, kind string, L int, cur, tip int64) {
	count(attackHist, kind)
	claim := tip
	if r.Intn(3) == 0 {
		claim = tip + int64(r.Intn(3))
	}
	s.add("connect p=%d", L)
	s.add("status p=%d base=%d height=%d", L, r.Intn(2), claim)
	s.add("mkreq")
	s.add("mkreq")
	honestFirst := func() {
		s.add("connect p=1")
		s.add("status p=1 base=1 height=%d", tip)
		s.add("rtimeout h=%d", cur)
		s.add("pick h=%d p=1", cur)
		s.ops = append(s.ops, ch.blockOp(1, ch.canon(cur)))
	}
	honestSecond := func() {
		s.add("connect p=1")
		s.add("status p=1 base=1 height=%d", tip)
		s.add("rtimeout h=%d", cur+1)
		s.add("pick h=%d p=1", cur+1)
		s.ops = append(s.ops, ch.blockOp(1, ch.canon(cur+1)))
	}
	liarAt := func(h int64, spec blockSpec) {
		s.add("rtimeout h=%d", h)
		s.add("pick h=%d p=%d", h, L)
		s.ops = append(s.ops, ch.blockOp(L, spec))
	}
	finish := func() {
		s.add("process")
		s.add("show")
		if r.Intn(4) > 0 {
			s.add("rstep h=%d", cur)
			s.add("rstep h=%d", cur+1)
		}
	}
	switch kind {
	case "wrong-first":
		sp := ch.canon(cur)
		sp.txv = 1 + r.Intn(2)
		liarAt(cur, sp)
		honestSecond()
		finish()
	case "flawed-first":
		sp := ch.canon(cur)
		sp.flaw = true
		liarAt(cur, sp)
		honestSecond()
		finish()
	case "bad-second":
		honestFirst()
		liarAt(cur+1, ch.secondWith(r, cur+1, sigKinds[r.Intn(len(sigKinds))]))
		finish()
	case "both-unsigned":
		sp := ch.canon(cur)
		sp.txv = 1
		liarAt(cur, sp)
		sp2 := ch.canon(cur + 1)
		sp2.ttxv = 1
		sp2.toks = ch.sigPattern(r, []string{"forged", "insufficient", "all-absent"}[r.Intn(3)])
		liarAt(cur+1, sp2)
		finish()
	case "wrong-height":
		h := cur + 2 + int64(r.Intn(3))
		if h > maxChain {
			h = maxChain
		}
		s.ops = append(s.ops, ch.blockOp(L, ch.canon(h)))
		s.add("show")
	case "unasked":
		honestFirst()
		s.ops = append(s.ops, ch.blockOp(L, ch.canon(cur)))
		s.add("show")
	case "silent":
		s.add("rtimeout h=%d", cur)
		s.add("pick h=%d p=%d", cur, L)
		s.add("show")
		s.add("timeout p=%d", L)
		s.add("rstep h=%d", cur)
	case "stale-status":
		s.add("status p=%d base=0 height=%d", L, r.Intn(2))
		s.add("show")
	case "bad-status":
		switch r.Intn(3) {
		case 0:
			s.add("status p=%d base=5 height=2", L)
		case 1:
			s.add("status p=%d base=-1 height=2", L)
		default:
			s.add("status p=%d base=0 height=-3", L)
		}
	case "malformed":
		honestFirst()
		liarAt(cur+1, ch.secondWith(r, cur+1, "empty"))
		finish()
	case "honest-first-liar-second-wrongheight-lc":
		honestFirst()
		sp := ch.canon(cur + 1)
		sp.lch = cur + int64(1+r.Intn(2))
		liarAt(cur+1, sp)
		finish()
	case "second-lc-other-target":
		honestFirst()
		sp := ch.canon(cur + 1)
		sp.ttxv = 1 + r.Intn(2)
		liarAt(cur+1, sp)
		finish()
	case "second-lc-wrong-psh":
		honestFirst()
		sp := ch.canon(cur + 1)
		sp.twp = true
		liarAt(cur+1, sp)
		finish()
	}
}

// byzPair: more than 2/3 signed something else (alt block, or an invalid block)
func byzPair(r *rand.Rand, s *script, ch *chain, L int, cur, tip int64) {
	s.add("connect p=%d", L)
	s.add("status p=%d base=0 height=%d", L, tip)
	s.add("mkreq")
	s.add("mkreq")
	first := ch.canon(cur)
	second := ch.canon(cur + 1)
	if r.Intn(2) == 0 {
		first.txv, second.ttxv = 1, 1
		count(attackHist, "byz-signed-alt")
	} else {
		first.flaw, second.tflaw = true, true
		count(attackHist, "byz-signed-invalid")
	}
	for i, sp := range []blockSpec{first, second} {
		h := cur + int64(i)
		s.add("rtimeout h=%d", h)
		s.add("pick h=%d p=%d", h, L)
		s.ops = append(s.ops, ch.blockOp(L, sp))
	}
	s.add("process")
	s.add("show")
	s.add("rstep h=%d", cur)
	s.add("rstep h=%d", cur+1)
}

func genSync(r *rand.Rand, kind string) core.Case {
	powers := pickPowers(r)
	io, ps, ks := initOp(powers)
	ch, err := getChain(ps, ks)
	if err != nil {
		panic(err)
	}
	tip := int64(3 + r.Intn(4))
	s := &script{}
	s.add("%s", io)
	nLiars := r.Intn(3)
	if kind == "tip" && nLiars == 0 {
		nLiars = 1
	}
	pAttack := []float64{0, 0.4, 0.7}[r.Intn(3)]
	for cur := int64(1); cur < tip; cur++ {
		if nLiars > 0 && kind == "sync" && r.Float64() < pAttack {
			for k := 0; k < 1+r.Intn(2); k++ {
				attack(r, s, ch, attacks[r.Intn(len(attacks))], 2+r.Intn(nLiars), cur, tip)
			}
		}
		if kind == "sync-byz" && r.Intn(3) == 0 {
			byzPair(r, s, ch, 2, cur, tip)
		}
		if kind == "tip" && cur == tip-1 {
			// the block that only lends its LastCommit comes from the liar
			L := 2
			s.add("connect p=1")
			s.add("status p=1 base=1 height=%d", tip-1)
			s.add("connect p=%d", L)
			s.add("status p=%d base=1 height=%d", L, tip)
			s.add("mkreq")
			s.add("mkreq")
			s.add("rtimeout h=%d", cur)
			s.add("rtimeout h=%d", cur+1)
			s.add("pick h=%d p=1", cur)
			s.add("pick h=%d p=%d", cur+1, L)
			s.ops = append(s.ops, ch.blockOp(1, ch.canon(cur)))
			pat := []string{"padded-sig", "padded-addr", "padded-nil-bad", "padded-nil-ok", "quorum-absent", "full", "forged", "random"}[r.Intn(8)]
			count(attackHist, "tip-"+pat)
			s.ops = append(s.ops, ch.blockOp(L, ch.secondWith(r, cur+1, pat)))
			s.add("process")
			s.add("show")
			s.add("store")
			s.add("handover")
			s.add("rstep h=%d", cur)
			s.add("rstep h=%d", cur+1)
		}
		honestRound(s, ch, cur, tip)
	}
	for L := 2; L < 2+nLiars; L++ {
		s.add("timeout p=%d", L)
	}
	s.add("show")
	s.add("store")
	s.add("handover")
	return core.Case{Kind: kind, ID: fmt.Sprintf("%s-T%d-n%d", kind, tip, len(s.ops)), Ops: s.ops}
}

func genSoup(r *rand.Rand) core.Case {
	powers := pickPowers(r)
	io, ps, ks := initOp(powers)
	ch, err := getChain(ps, ks)
	if err != nil {
		panic(err)
	}
	s := &script{}
	s.add("%s", io)
	s.add("connect p=1")
	s.add("status p=1 base=%d height=%d", r.Intn(2), 2+r.Intn(4))
	n := 25 + r.Intn(40)
	randSpec := func() blockSpec {
		h := int64(1 + r.Intn(4))
		sp := ch.canon(h)
		switch r.Intn(8) {
		case 0:
			sp.txv = 1
		case 1:
			sp.flaw = true
		case 2, 3:
			if h > 1 {
				sp.toks = ch.sigPattern(r, sigKinds[r.Intn(len(sigKinds))])
			}
		case 4:
			sp.ttxv = 1
		case 5:
			sp.lch += int64(r.Intn(3) - 1)
		}
		return sp
	}
	for i := 0; i < n; i++ {
		p := 1 + r.Intn(3)
		h := 1 + r.Intn(4)
		switch x := r.Intn(40); {
		case x < 3:
			s.add("connect p=%d", p)
		case x < 7:
			if r.Intn(8) == 0 {
				s.add("status p=%d base=%d height=%d", p, r.Intn(7)-1, r.Intn(7)-1)
			} else {
				s.add("status p=%d base=%d height=%d", p, r.Intn(2), r.Intn(7))
			}
		case x < 11:
			s.add("mkreq")
		case x < 17:
			s.add("pick h=%d p=%d", h, p)
		case x < 26:
			s.ops = append(s.ops, ch.blockOp(p, randSpec()))
		case x < 28:
			s.add("rstep h=%d", h)
		case x < 29:
			s.add("rtimeout h=%d", h)
		case x < 30:
			s.add("timeout p=%d", p)
		case x < 31:
			s.add("disconnect p=%d", p)
		case x < 35:
			s.add("process")
		case x < 38:
			s.add("show")
		case x < 39:
			s.add("peek")
		default:
			s.add("handover")
		}
	}
	s.add("process")
	s.add("show")
	s.add("store")
	s.add("handover")
	return core.Case{Kind: "soup", Ops: s.ops}
}

func genBadOps(r *rand.Rand) core.Case {
	io, _, _ := initOp([]int64{10, 10, 10})
	bad := []string{"pick h=x p=1", "pick h=1", "block p=1 h=2", "status p=1 base=0", "frobnicate", "connect p=-1", "connect", "mkreq now",
		"block p=1 h=2 id=zz/1 prev=0/0 flaw=0 lc=1:0:0/0:c11 d=0/000", "rstep", "timeout p=a", "process all", "init vals=", "init vals=0,x keys=0,1"}
	s := &script{}
	if r.Intn(2) == 0 {
		s.add("connect p=1") // before init
	}
	s.add("%s", io)
	s.add("connect p=1")
	for i := 0; i < 6; i++ {
		s.add("%s", bad[r.Intn(len(bad))])
	}
	s.add("show")
	return core.Case{Kind: "bad-ops", Ops: s.ops}
}

func gen(r *rand.Rand, tier string, emit func(core.Case)) {
	mul := 1
	if tier == "thorough" {
		mul = 10
	}
	for i := 0; i < 70*mul; i++ {
		emit(genSync(r, "sync"))
	}
	for i := 0; i < 20*mul; i++ {
		emit(genSync(r, "sync-byz"))
	}
	for i := 0; i < 40*mul; i++ {
		emit(genSync(r, "tip"))
	}
	for i := 0; i < 150*mul; i++ {
		emit(genSoup(r))
	}
	for i := 0; i < 10*mul; i++ {
		emit(genBadOps(r))
	}
	genE2E(r, tier, emit)
}

// ---------------------------------------------------------------------------------------------
// property oracle on the implementation's outputs (independent of the model)

type told struct {
	h    int64
	prev string
	flaw bool
	lcOK bool // LastCommit is a fully valid commit (every non-absent signature valid, >2/3 for the block) of height h-1 for `prev`
}

func parsePowers(op string) []int64 {
	var out []int64
	for _, t := range strings.Split(kv(op)["vals"], ",") {
		p, err := strconv.ParseInt(t, 10, 64)
		if err != nil {
			return nil
		}
		out = append(out, p)
	}
	return out
}

// quorum: power of validators with a valid commit-flag signature > 2/3 of the total
func quorum(powers []int64, sigs string) bool {
	toks, ok := parseSigToks(sigs)
	if !ok || len(toks) != len(powers) {
		return false
	}
	var total, got int64
	for i, p := range powers {
		total += p
		if toks[i].flag == 'c' && toks[i].sigOK {
			got += p
		}
	}
	return 3*got > 2*total
}

func allNonAbsentValid(sigs string) bool {
	toks, _ := parseSigToks(sigs)
	for _, t := range toks {
		if t.flag != 'a' && !t.sigOK {
			return false
		}
	}
	return true
}

func oracle(c core.Case, out []string) []core.Finding {
	if len(c.Ops) > 0 && strings.HasPrefix(c.Ops[0], "e2e ") {
		return oracleE2E(c, out)
	}
	var fs []core.Finding
	var powers []int64
	offered := map[string]told{} // block id -> what the harness built
	var pendingPair []string
	lastStore := ""
	for i, op := range c.Ops {
		if i >= len(out) {
			break
		}
		f := strings.Fields(op)
		if len(f) == 0 {
			continue
		}
		m := kv(op)
		switch f[0] {
		case "init":
			if strings.HasPrefix(out[i], "ok") {
				powers = parsePowers(op)
				offered = map[string]told{}
			}
		case "block":
			lc := strings.Split(m["lc"], ":")
			h, _ := strconv.ParseInt(m["h"], 10, 64)
			if len(lc) == 4 {
				t := told{h: h, prev: m["prev"], flaw: m["flaw"] == "1"}
				if h == 1 {
					t.lcOK = lc[3] == "-"
				} else {
					t.lcOK = lc[0] == strconv.FormatInt(h-1, 10) && lc[2] == m["prev"] && quorum(powers, lc[3]) && allNonAbsentValid(lc[3])
				}
				offered[m["id"]] = t
			}
		case "process":
			pendingPair = nil
			if strings.Contains(out[i], "err=") && !strings.Contains(out[i], "err=-") {
				mm := kv("x " + out[i])
				if mm["pair"] != "" {
					for _, p := range strings.Split(mm["pair"], "/") {
						if p != "-" {
							pendingPair = append(pendingPair, p)
						}
					}
				}
			}
		case "show":
			if len(pendingPair) > 0 {
				mm := kv("x " + out[i])
				in := func(list, id string) bool {
					for _, e := range strings.Split(list, ",") {
						if strings.Split(e, ":")[0] == id {
							return true
						}
					}
					return false
				}
				for _, p := range pendingPair {
					if in(mm["peers"], p) || in(mm["conn"], p) {
						fs = append(fs, core.Finding{Fingerprint: "v0.poolRoutine.liar-not-dropped",
							Desc: fmt.Sprintf("after a failed verification peer %s that delivered one of the two blocks is still in the pool or the switch: %s", p, out[i])})
					}
				}
				pendingPair = nil
			}
		case "store":
			lastStore = out[i]
			mm := kv("x " + out[i])
			if mm["blocks"] == "" || mm["blocks"] == "-" {
				continue
			}
			prevID := "0/0"
			for k, e := range strings.Split(mm["blocks"], ";") {
				p := strings.Split(e, ":")
				if len(p) != 4 {
					fs = append(fs, core.Finding{Fingerprint: "v0.store.block-or-seen-commit-missing", Desc: "stored height without block or seen commit: " + e})
					continue
				}
				if p[0] != strconv.Itoa(k+1) {
					fs = append(fs, core.Finding{Fingerprint: "v0.store.heights-not-contiguous", Desc: out[i]})
				}
				if p[1] != p[2] {
					fs = append(fs, core.Finding{Fingerprint: "v0.saved.seen-commit-for-other-block",
						Desc: fmt.Sprintf("height %s: stored block %s but its seen commit is for %s", p[0], p[1], p[2])})
				}
				if !quorum(powers, p[3]) {
					fs = append(fs, core.Finding{Fingerprint: "v0.saved.without-two-thirds",
						Desc: fmt.Sprintf("height %s: block %s stored with seen commit %s which has no valid >2/3 for it", p[0], p[1], p[3])})
				}
				t, known := offered[p[1]]
				if !known || t.flaw || !t.lcOK || t.prev != prevID || strconv.FormatInt(t.h, 10) != p[0] {
					fs = append(fs, core.Finding{Fingerprint: "v0.saved.block-fails-validation",
						Desc: fmt.Sprintf("height %s: stored block %s does not pass validation on its predecessor %s (%+v)", p[0], p[1], prevID, t)})
				}
				prevID = p[1]
			}
		case "handover":
			if strings.HasPrefix(out[i], "panic-") {
				kind := strings.TrimPrefix(out[i], "panic-")
				fp := "v0.handover." + out[i]
				desc := "switch to consensus panics in reconstructLastCommit: " + out[i]
				if (kind == "sig" || kind == "addr") && lastStore != "" {
					// is it the never-verified tail of the tip's seen commit?
					mm := kv("x " + lastStore)
					bl := strings.Split(mm["blocks"], ";")
					p := strings.Split(bl[len(bl)-1], ":")
					if len(p) == 4 && quorum(powers, p[3]) {
						fp += ".unverified-rest-of-tip-seen-commit"
						desc = fmt.Sprintf("the seen commit stored for the last synced block (%s) was only light-verified: a signature after the first +2/3 is invalid or carries a foreign validator address, and CommitToVoteSet panics at SwitchToConsensus (%s)", p[3], out[i])
					}
				}
				fs = append(fs, core.Finding{Fingerprint: fp, Desc: desc})
			}
		}
	}
	if c.Kind == "sync" || c.Kind == "tip" {
		// scripted fair retry with an honest peer: tip-1 must be reached
		tip, nops := int64(0), 0
		if p := strings.Split(c.ID, "-"); len(p) >= 3 {
			tip, _ = strconv.ParseInt(strings.TrimPrefix(p[len(p)-2], "T"), 10, 64)
			nops, _ = strconv.Atoi(strings.TrimPrefix(p[len(p)-1], "n"))
		}
		// (only the unshrunk script is a fair schedule)
		if tip > 0 && nops == len(c.Ops) && !strings.HasPrefix(lastStore, fmt.Sprintf("state=%d:", tip-1)) {
			fs = append(fs, core.Finding{Fingerprint: "v0.sync.tip-not-reached",
				Desc: fmt.Sprintf("honest peer with fair retry did not bring the node to height %d: %s", tip-1, lastStore)})
		}
	}
	return fs
}

func nonTrivial(c core.Case, out []string) bool {
	added, proc := false, false
	for _, o := range out {
		if o == "added" {
			added = true
		}
		if strings.HasPrefix(o, "saved=") || strings.HasPrefix(o, "e2e ") {
			proc = true
		}
	}
	return (added && proc) || (len(out) > 0 && strings.HasPrefix(out[0], "e2e "))
}

func extra() map[string]interface{} {
	histMtx.Lock()
	defer histMtx.Unlock()
	a, s := map[string]int{}, map[string]int{}
	for k, v := range attackHist {
		a[k] = v
	}
	for k, v := range sigHist {
		s[k] = v
	}
	return map[string]interface{}{"attack_histogram": a, "commit_pattern_histogram": s}
}
