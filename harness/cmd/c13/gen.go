package main

import (
	"fmt"
	"math/rand"
	"sort"
	"strconv"
	"strings"
	"sync"

	"github.com/tendermint/tendermint/types"

	"verifharness/core"
)

// ---------------------------------------------------------------------------------------------
// generators

var (
	histMtx    sync.Mutex
	attackHist = map[string]int{}
	sigHist    = map[string]int{}
)

func count(m map[string]int, k string) {
	histMtx.Lock()
	m[k]++
	histMtx.Unlock()
}

var powerSets = [][]int64{
	{10, 10, 10, 10}, {10, 10, 10, 5}, {1, 1, 1}, {30, 10, 10, 5, 1}, {7, 3}, {5}, {4, 3, 2, 1}, {100, 1, 1, 1}, {2, 2, 2, 2, 2},
}

func pickPowers(r *rand.Rand) []int64 {
	if r.Intn(5) == 0 {
		n := 1 + r.Intn(5)
		p := make([]int64, n)
		for i := range p {
			p[i] = int64(1 + r.Intn(12))
		}
		return p
	}
	return append([]int64{}, powerSets[r.Intn(len(powerSets))]...)
}

// pickUpd builds a valid schedule of validator updates (txs of block h, in force at h+2)
func pickUpd(r *rand.Rand, powers []int64, ih int64, mode string) string {
	if mode == "none" {
		return "-"
	}
	cur := map[int]int64{}
	for i, p := range powers {
		cur[i] = p
	}
	var parts []string
	nUpd := 1 + r.Intn(2)
	h := ih + int64(r.Intn(2))
	for u := 0; u < nUpd && h < ih+4; u++ {
		var es []string
		kind := r.Intn(4)
		if mode == "rotate" {
			kind = 3
		}
		switch kind {
		case 0: // power change
			k := r.Intn(len(powers))
			if _, ok := cur[k]; ok {
				p := int64(1 + r.Intn(40))
				cur[k] = p
				es = append(es, fmt.Sprintf("%d!%d", k, p))
			}
		case 1: // add
			for k := 0; k < nKeys; k++ {
				if _, ok := cur[k]; !ok {
					p := int64(1 + r.Intn(30))
					cur[k] = p
					es = append(es, fmt.Sprintf("%d!%d", k, p))
					break
				}
			}
		case 2: // remove one (never the last)
			if len(cur) > 1 {
				for k := 0; k < nKeys; k++ {
					if _, ok := cur[k]; ok && r.Intn(2) == 0 {
						delete(cur, k)
						es = append(es, fmt.Sprintf("%d!0", k))
						break
					}
				}
			}
		case 3: // replace the whole set by fresh keys
			var old []int
			for k := range cur {
				old = append(old, k)
			}
			sort.Ints(old)
			added := 0
			for k := 0; k < nKeys && added < 1+r.Intn(2); k++ {
				if _, ok := cur[k]; !ok {
					p := int64(5 + r.Intn(10))
					cur[k] = p
					es = append(es, fmt.Sprintf("%d!%d", k, p))
					added++
				}
			}
			if added > 0 {
				for _, k := range old {
					delete(cur, k)
					es = append(es, fmt.Sprintf("%d!0", k))
				}
			}
		}
		if len(es) > 0 {
			parts = append(parts, fmt.Sprintf("%d:%s", h, strings.Join(es, "+")))
		}
		h += int64(1 + r.Intn(2))
	}
	if len(parts) == 0 {
		return "-"
	}
	return strings.Join(parts, ";")
}

// quorumPrefix = smallest k such that validators 0..k-1 of the set at height h hold > 2/3
func (ch *chain) quorumPrefix(h int64) int {
	vs := ch.valsAt(h)
	total := vs.TotalVotingPower()
	var t int64
	for i, v := range vs.Validators {
		t += v.VotingPower
		if t > total*2/3 {
			return i + 1
		}
	}
	return len(vs.Validators)
}

var sigKinds = []string{"full", "quorum-absent", "padded-sig", "padded-addr", "padded-addr-other", "padded-nil-bad", "padded-nil-ok", "forged",
	"forged-otherkey", "forged-addr-only", "short", "long", "insufficient", "random", "all-absent", "empty", "other-height-set"}

// sigPattern: entries of a commit for height h (whose validator set is valsAt(h))
func (ch *chain) sigPattern(r *rand.Rand, kind string, h int64) []sigTok {
	ks := ch.keysAt(h)
	n := len(ks)
	q := ch.quorumPrefix(h)
	t := ch.allSign(h)
	tail := func(f func(i int) sigTok) {
		for i := q; i < n; i++ {
			t[i] = f(i)
		}
	}
	switch kind {
	case "full":
	case "quorum-absent":
		tail(func(int) sigTok { return sigTok{flag: 'a'} })
	case "padded-sig":
		tail(func(i int) sigTok {
			if r.Intn(3) == 0 {
				return sigTok{'c', -1, -1}
			}
			return sigTok{'c', ks[i], -1}
		})
	case "padded-addr":
		tail(func(i int) sigTok { return sigTok{'c', -1, ks[i]} })
	case "padded-addr-other":
		tail(func(i int) sigTok { return sigTok{'c', ks[(i+1)%n], ks[i]} })
	case "padded-nil-bad":
		tail(func(i int) sigTok { return sigTok{'n', ks[i], -1} })
	case "padded-nil-ok":
		tail(func(i int) sigTok { return sigTok{'n', ks[i], ks[i]} })
	case "forged":
		i := r.Intn(q)
		t[i] = sigTok{'c', ks[i], -1}
	case "forged-otherkey":
		i := r.Intn(q)
		t[i] = sigTok{'c', ks[i], (ks[i] + 1 + r.Intn(nKeys-1)) % nKeys}
	case "forged-addr-only":
		i := r.Intn(q)
		t[i] = sigTok{'c', -1, ks[i]}
	case "short":
		t = t[:n-1]
	case "long":
		t = append(t, sigTok{'c', ks[0], ks[0]})
	case "insufficient":
		for i := q - 1; i < n; i++ {
			t[i] = sigTok{flag: 'a'}
		}
	case "random":
		for i := range t {
			switch r.Intn(6) {
			case 0:
				t[i] = sigTok{flag: 'a'}
			case 1:
				t[i] = sigTok{'n', ks[i], []int{ks[i], -1}[r.Intn(2)]}
			case 2:
				t[i] = sigTok{'c', []int{ks[i], -1, r.Intn(nKeys)}[r.Intn(3)], []int{ks[i], -1, r.Intn(nKeys)}[r.Intn(3)]}
			}
		}
	case "all-absent":
		for i := range t {
			t[i] = sigTok{flag: 'a'}
		}
	case "empty":
		t = nil
	case "other-height-set":
		// everybody of the set in force at ANOTHER height signs (e.g. a retired set)
		h2 := ch.ih + int64(r.Intn(6))
		t = ch.allSign(h2)
	}
	count(sigHist, kind)
	return t
}

func (ch *chain) canon(h int64) blockSpec {
	s := blockSpec{h: h, lch: h - 1}
	if h > ch.ih {
		s.toks = ch.allSign(h - 1)
	} else {
		s.lch = 0
	}
	return s
}

// secondWith = canonical block h whose LastCommit (for h-1) follows the given pattern
func (ch *chain) secondWith(r *rand.Rand, h int64, kind string) blockSpec {
	s := ch.canon(h)
	if h > ch.ih {
		s.toks = ch.sigPattern(r, kind, h-1)
	}
	return s
}

type script struct {
	ops []string
}

func (s *script) add(f string, a ...interface{}) { s.ops = append(s.ops, fmt.Sprintf(f, a...)) }

// newConfig picks validators, initial height and validator-update schedule and builds the chain
func newConfig(r *rand.Rand, updMode string) (string, *chain) {
	for {
		powers := pickPowers(r)
		ih := []int64{1, 1, 1, 2, 10, 1000}[r.Intn(6)]
		vals := configOf(powers)
		upd := pickUpd(r, powers, ih, updMode)
		ch, err := getChain(vals, strconv.FormatInt(ih, 10), upd)
		if err != nil {
			// an update schedule the real executor rejects: try another one
			continue
		}
		return fmt.Sprintf("init vals=%s ih=%d upd=%s", vals, ih, upd), ch
	}
}

// honestRound: fair retry for heights cur and cur+1 with the honest peer 1
func honestRound(s *script, ch *chain, cur, tip int64) {
	s.add("connect p=1")
	s.add("status p=1 base=%d height=%d", ch.ih, tip)
	s.add("mkreq")
	s.add("mkreq")
	s.add("rtimeout h=%d", cur)
	s.add("rtimeout h=%d", cur+1)
	s.add("pick h=%d p=1", cur)
	s.add("pick h=%d p=1", cur+1)
	s.ops = append(s.ops, ch.blockOp(1, ch.canon(cur)), ch.blockOp(1, ch.canon(cur+1)))
	s.add("process")
	s.add("show")
}

var attacks = []string{"malformed", "forged-by-other-set", "wrong-first", "flawed-first", "bad-second", "both-unsigned", "wrong-height", "unasked", "silent", "stale-status",
	"bad-status", "malformed", "honest-first-liar-second-wrongheight-lc", "second-lc-other-target", "second-lc-wrong-psh"}

// attack emits one adversarial episode at height cur by liar L; byz reports whether it used
// blocks signed by more than 2/3 (which the property does not exclude from being saved).
func attack(r *rand.Rand, s *script, ch *chain, kind string, L int, cur, tip int64) {
	count(attackHist, kind)
	claim := tip
	if r.Intn(3) == 0 {
		claim = tip + int64(r.Intn(3))
	}
	s.add("connect p=%d", L)
	s.add("status p=%d base=%d height=%d", L, int64(r.Intn(2))*ch.ih, claim)
	s.add("mkreq")
	s.add("mkreq")
	honestFirst := func() {
		s.add("connect p=1")
		s.add("status p=1 base=%d height=%d", ch.ih, tip)
		s.add("rtimeout h=%d", cur)
		s.add("pick h=%d p=1", cur)
		s.ops = append(s.ops, ch.blockOp(1, ch.canon(cur)))
	}
	honestSecond := func() {
		s.add("connect p=1")
		s.add("status p=1 base=%d height=%d", ch.ih, tip)
		s.add("rtimeout h=%d", cur+1)
		s.add("pick h=%d p=1", cur+1)
		s.ops = append(s.ops, ch.blockOp(1, ch.canon(cur+1)))
	}
	liarAt := func(h int64, spec blockSpec) {
		s.add("rtimeout h=%d", h)
		s.add("pick h=%d p=%d", h, L)
		s.ops = append(s.ops, ch.blockOp(L, spec))
	}
	finish := func() {
		s.add("process")
		s.add("show")
		if r.Intn(4) > 0 {
			s.add("rstep h=%d", cur)
			s.add("rstep h=%d", cur+1)
		}
	}
	switch kind {
	case "forged-by-other-set":
		// a forged block "committed" by the complete validator set of another height (a retired
		// set after a change); nobody of the set in force need have signed
		sp := ch.canon(cur)
		sp.txv = 1
		liarAt(cur, sp)
		sp2 := ch.canon(cur + 1)
		sp2.ttxv = 1
		h2 := ch.ih + int64(r.Intn(int(cur-ch.ih)+1))
		if r.Intn(3) == 0 {
			h2 = ch.ih
		}
		sp2.toks = ch.allSign(h2)
		if ch.isQuorum(cur, sp2.toks) {
			// that IS the set in force: a block it signed is a fork by >2/3, not a forgery
			sp2.toks = ch.sigPattern(r, "forged", cur)
		}
		liarAt(cur+1, sp2)
		finish()
	case "wrong-first":
		sp := ch.canon(cur)
		sp.txv = 1 + r.Intn(2)
		liarAt(cur, sp)
		honestSecond()
		finish()
	case "flawed-first":
		sp := ch.canon(cur)
		sp.flaw = 1 + r.Intn(nFlaws)
		liarAt(cur, sp)
		honestSecond()
		finish()
	case "bad-second":
		honestFirst()
		liarAt(cur+1, ch.secondWith(r, cur+1, sigKinds[r.Intn(len(sigKinds))]))
		finish()
	case "both-unsigned":
		sp := ch.canon(cur)
		sp.txv = 1
		liarAt(cur, sp)
		sp2 := ch.canon(cur + 1)
		sp2.ttxv = 1
		sp2.toks = ch.sigPattern(r, []string{"forged", "insufficient", "all-absent", "forged-otherkey"}[r.Intn(4)], cur)
		liarAt(cur+1, sp2)
		finish()
	case "wrong-height":
		h := cur + 2 + int64(r.Intn(3))
		if !ch.has(h) {
			h = ch.ih + maxChain - 1
		}
		s.ops = append(s.ops, ch.blockOp(L, ch.canon(h)))
		s.add("show")
	case "unasked":
		honestFirst()
		s.ops = append(s.ops, ch.blockOp(L, ch.canon(cur)))
		s.add("show")
	case "silent":
		s.add("rtimeout h=%d", cur)
		s.add("pick h=%d p=%d", cur, L)
		s.add("show")
		s.add("timeout p=%d", L)
		s.add("rstep h=%d", cur)
	case "stale-status":
		s.add("status p=%d base=0 height=%d", L, r.Intn(2))
		s.add("show")
	case "bad-status":
		switch r.Intn(3) {
		case 0:
			s.add("status p=%d base=5 height=2", L)
		case 1:
			s.add("status p=%d base=-1 height=2", L)
		default:
			s.add("status p=%d base=0 height=-3", L)
		}
	case "malformed":
		// an answer that does not pass BlockFromProto / Block.ValidateBasic
		if r.Intn(4) == 0 {
			honestFirst()
			liarAt(cur+1, ch.secondWith(r, cur+1, "empty"))
		} else {
			sp := ch.canon(cur + int64(r.Intn(2)))
			sp.mal = malKinds[r.Intn(len(malKinds))]
			if sp.h == ch.ih && (sp.mal == "sigtoolong" || sp.mal == "absentaddr" || sp.mal == "lchash") {
				sp.mal = "datahash"
			}
			count(attackHist, "malformed-"+sp.mal)
			if sp.h == cur {
				liarAt(cur, sp)
				honestSecond()
			} else {
				honestFirst()
				liarAt(cur+1, sp)
			}
		}
		s.add("show")
		finish()
	case "honest-first-liar-second-wrongheight-lc":
		honestFirst()
		sp := ch.canon(cur + 1)
		sp.lch = cur + int64(1+r.Intn(2))
		liarAt(cur+1, sp)
		finish()
	case "second-lc-other-target":
		honestFirst()
		sp := ch.canon(cur + 1)
		sp.ttxv = 1 + r.Intn(2)
		liarAt(cur+1, sp)
		finish()
	case "second-lc-wrong-psh":
		honestFirst()
		sp := ch.canon(cur + 1)
		sp.twp = true
		liarAt(cur+1, sp)
		finish()
	}
}

// byzPair: more than 2/3 signed something else (alt block, or an invalid block)
func byzPair(r *rand.Rand, s *script, ch *chain, L int, cur, tip int64) {
	s.add("connect p=%d", L)
	s.add("status p=%d base=0 height=%d", L, tip)
	s.add("mkreq")
	s.add("mkreq")
	first := ch.canon(cur)
	second := ch.canon(cur + 1)
	if r.Intn(2) == 0 {
		first.txv, second.ttxv = 1, 1
		count(attackHist, "byz-signed-alt")
	} else {
		fk := 1 + r.Intn(nFlaws)
		first.flaw, second.tflaw = fk, fk
		count(attackHist, "byz-signed-invalid")
	}
	for i, sp := range []blockSpec{first, second} {
		h := cur + int64(i)
		s.add("rtimeout h=%d", h)
		s.add("pick h=%d p=%d", h, L)
		s.ops = append(s.ops, ch.blockOp(L, sp))
	}
	s.add("process")
	s.add("show")
	s.add("rstep h=%d", cur)
	s.add("rstep h=%d", cur+1)
}

// isQuorum: do the entries carry real signatures of more than 2/3 of the set in force at h?
func (ch *chain) isQuorum(h int64, toks []sigTok) bool {
	vs := ch.valsAt(h)
	if len(toks) != len(vs.Validators) {
		return false
	}
	var got int64
	for i, v := range vs.Validators {
		if toks[i].flag == 'c' && toks[i].sig == keyByAdr[string(v.Address)] {
			got += v.VotingPower
		}
	}
	return 3*got > 2*vs.TotalVotingPower()
}

var _ = types.BlockPartSizeBytes

func genSync(r *rand.Rand, kind string) core.Case {
	updMode := []string{"none", "any", "any", "rotate"}[r.Intn(4)]
	io, ch := newConfig(r, updMode)
	tip := ch.ih + int64(2+r.Intn(4))
	s := &script{}
	s.add("%s", io)
	nLiars := r.Intn(3)
	if kind == "tip" && nLiars == 0 {
		nLiars = 1
	}
	pAttack := []float64{0, 0.4, 0.7}[r.Intn(3)]
	for cur := ch.ih; cur < tip; cur++ {
		if kind != "sync-byz" && cur > ch.ih && r.Intn(8) == 0 {
			// the process is restarted while syncing (same stores)
			s.add("restart")
			s.add("show")
		}
		if nLiars > 0 && kind == "sync" && r.Float64() < pAttack {
			for k := 0; k < 1+r.Intn(2); k++ {
				attack(r, s, ch, attacks[r.Intn(len(attacks))], 2+r.Intn(nLiars), cur, tip)
			}
		}
		if kind == "sync-byz" && r.Intn(3) == 0 {
			byzPair(r, s, ch, 2, cur, tip)
		}
		if kind == "tip" && cur == tip-1 {
			// the block that only lends its LastCommit comes from the liar
			L := 2
			s.add("connect p=1")
			s.add("status p=1 base=%d height=%d", ch.ih, tip-1)
			s.add("connect p=%d", L)
			s.add("status p=%d base=%d height=%d", L, ch.ih, tip)
			s.add("mkreq")
			s.add("mkreq")
			s.add("rtimeout h=%d", cur)
			s.add("rtimeout h=%d", cur+1)
			s.add("pick h=%d p=1", cur)
			s.add("pick h=%d p=%d", cur+1, L)
			s.ops = append(s.ops, ch.blockOp(1, ch.canon(cur)))
			pat := []string{"padded-sig", "padded-addr", "padded-nil-bad", "padded-nil-ok", "quorum-absent", "full", "forged", "random"}[r.Intn(8)]
			count(attackHist, "tip-"+pat)
			s.ops = append(s.ops, ch.blockOp(L, ch.secondWith(r, cur+1, pat)))
			s.add("process")
			s.add("show")
			s.add("store")
			s.add("handover")
			s.add("rstep h=%d", cur)
			s.add("rstep h=%d", cur+1)
		}
		honestRound(s, ch, cur, tip)
	}
	for L := 2; L < 2+nLiars; L++ {
		s.add("timeout p=%d", L)
	}
	s.add("show")
	s.add("store")
	s.add("handover")
	if r.Intn(3) == 0 {
		s.add("restart")
		s.add("store")
	}
	return core.Case{Kind: kind, ID: fmt.Sprintf("%s-T%d-n%d", kind, tip, len(s.ops)), Ops: s.ops}
}

// genBulk: everything is delivered before the processing loop runs, so ONE run of poolRoutine
// (one `state` variable, as in a real node) carries the node across validator-set changes.
// With a liar: the pair at some later height is a forged block "committed" by the complete
// validator set of the first height (retired after a rotation).
func genBulk(r *rand.Rand) core.Case {
	io, ch := newConfig(r, []string{"any", "rotate", "rotate", "none"}[r.Intn(4)])
	tip := ch.ih + int64(3+r.Intn(4))
	s := &script{}
	s.add("%s", io)
	s.add("connect p=1")
	s.add("status p=1 base=%d height=%d", ch.ih, tip)
	forgeAt := int64(-1)
	if r.Intn(2) == 0 {
		forgeAt = ch.ih + 1 + int64(r.Intn(int(tip-ch.ih)-1))
		s.add("connect p=2")
		s.add("status p=2 base=%d height=%d", ch.ih, tip)
	}
	for h := ch.ih; h <= tip; h++ {
		s.add("mkreq")
	}
	for h := ch.ih; h <= tip; h++ {
		switch {
		case h == forgeAt:
			sp := ch.canon(h)
			sp.txv = 1
			s.add("pick h=%d p=2", h)
			s.ops = append(s.ops, ch.blockOp(2, sp))
		case h == forgeAt+1 && forgeAt >= 0:
			sp := ch.canon(h)
			sp.ttxv = 1
			sp.toks = ch.allSign(ch.ih)
			if ch.isQuorum(h-1, sp.toks) {
				sp.toks = ch.sigPattern(r, "forged", h-1)
			}
			count(attackHist, "bulk-forged-by-first-set")
			s.add("pick h=%d p=2", h)
			s.ops = append(s.ops, ch.blockOp(2, sp))
		default:
			s.add("pick h=%d p=1", h)
			s.ops = append(s.ops, ch.blockOp(1, ch.canon(h)))
		}
	}
	s.add("process")
	s.add("show")
	s.add("store")
	start := ch.ih
	if forgeAt >= 0 {
		start = forgeAt
		for h := forgeAt; h <= tip; h++ {
			s.add("rstep h=%d", h)
		}
	} else {
		start = tip
	}
	for cur := start; cur < tip; cur++ {
		honestRound(s, ch, cur, tip)
	}
	s.add("timeout p=2")
	s.add("show")
	s.add("store")
	s.add("handover")
	return core.Case{Kind: "sync", ID: fmt.Sprintf("bulk-T%d-n%d", tip, len(s.ops)), Ops: s.ops}
}

// genLong: a long history before the sync. Dozens of peers connect, are given the requests in
// the window, and go away (disconnect, silence, invalid status) before answering; each cycle
// resets the waiting requesters. Then one honest peer serves a chain LONGER than the window, so
// requesters have to be created after all that — which makeRequestersRoutine only does while
// numPending is below its limit.
func genLong(r *rand.Rand, cycles int) core.Case {
	io, ch := newConfig(r, []string{"none", "any"}[r.Intn(2)])
	tip := ch.ih + 6
	win := int64(2 + r.Intn(2)) // heights requested before the honest peer shows up
	s := &script{}
	s.add("%s", io)
	for c := 0; c < cycles; c++ {
		p := 2 + c%7
		s.add("connect p=%d", p)
		s.add("status p=%d base=%d height=%d", p, ch.ih, ch.ih+win-1)
		for k := int64(0); k < win; k++ {
			s.add("mkreq")
		}
		for k := int64(0); k < win; k++ {
			s.add("pick h=%d p=%d", ch.ih+k, p)
		}
		switch r.Intn(3) {
		case 0:
			s.add("disconnect p=%d", p)
		case 1:
			s.add("timeout p=%d", p)
		default:
			s.add("status p=%d base=3 height=1", p)
		}
		for k := int64(0); k < win; k++ {
			if r.Intn(4) == 0 {
				s.add("rtimeout h=%d", ch.ih+k)
			} else {
				s.add("rstep h=%d", ch.ih+k)
			}
		}
		if c%25 == 0 {
			s.add("show")
		}
	}
	s.add("show")
	for cur := ch.ih; cur < tip; cur++ {
		honestRound(s, ch, cur, tip)
	}
	s.add("show")
	s.add("store")
	s.add("handover")
	return core.Case{Kind: "sync", ID: fmt.Sprintf("long-T%d-n%d", tip, len(s.ops)), Ops: s.ops}
}

// genTipChange: the validator set changes right at the end of the synced range (updates in the
// blocks tip-3 / tip-2, in force at tip-1 / tip): LastValidators and Validators of the state the
// node hands over with are different sets. Honest sync all the way, then hand-over and restart.
func genTipChange(r *rand.Rand) core.Case {
	for {
		powers := pickPowers(r)
		ih := []int64{1, 1, 2, 10}[r.Intn(4)]
		tip := ih + int64(3+r.Intn(3))
		cur := map[int]int64{}
		for i, p := range powers {
			cur[i] = p
		}
		var parts []string
		for _, h := range []int64{tip - 3, tip - 2} {
			if h < ih || (h == tip-3 && r.Intn(2) == 0) {
				continue
			}
			var es []string
			switch r.Intn(4) {
			case 0: // power change (may re-order the set)
				k := r.Intn(len(powers))
				if _, ok := cur[k]; ok {
					p := int64(1 + r.Intn(60))
					cur[k] = p
					es = append(es, fmt.Sprintf("%d!%d", k, p))
				}
			case 1: // a validator with a lot of power joins
				for k := 0; k < nKeys-1; k++ {
					if _, ok := cur[k]; !ok {
						p := int64(20 + r.Intn(40))
						cur[k] = p
						es = append(es, fmt.Sprintf("%d!%d", k, p))
						break
					}
				}
			case 2: // one leaves
				if len(cur) > 1 {
					for k := 0; k < nKeys; k++ {
						if _, ok := cur[k]; ok {
							delete(cur, k)
							es = append(es, fmt.Sprintf("%d!0", k))
							break
						}
					}
				}
			case 3: // one joins and one leaves
				added := -1
				for k := 0; k < nKeys-1; k++ {
					if _, ok := cur[k]; !ok {
						cur[k] = int64(5 + r.Intn(20))
						es = append(es, fmt.Sprintf("%d!%d", k, cur[k]))
						added = k
						break
					}
				}
				for k := 0; k < nKeys && added >= 0; k++ {
					if _, ok := cur[k]; ok && k != added {
						delete(cur, k)
						es = append(es, fmt.Sprintf("%d!0", k))
						break
					}
				}
			}
			if len(es) > 0 {
				parts = append(parts, fmt.Sprintf("%d:%s", h, strings.Join(es, "+")))
			}
		}
		if len(parts) == 0 {
			continue
		}
		vals := configOf(powers)
		upd := strings.Join(parts, ";")
		ch, err := getChain(vals, strconv.FormatInt(ih, 10), upd)
		if err != nil {
			continue
		}
		s := &script{}
		s.add("init vals=%s ih=%d upd=%s", vals, ih, upd)
		for c := ih; c < tip; c++ {
			honestRound(s, ch, c, tip)
		}
		s.add("store")
		s.add("handover")
		s.add("restart")
		s.add("store")
		return core.Case{Kind: "sync", ID: fmt.Sprintf("tipchange-T%d-n%d", tip, len(s.ops)), Ops: s.ops}
	}
}

func genSoup(r *rand.Rand) core.Case {
	io, ch := newConfig(r, []string{"none", "any", "rotate"}[r.Intn(3)])
	s := &script{}
	s.add("%s", io)
	s.add("connect p=1")
	s.add("status p=1 base=%d height=%d", int64(r.Intn(2))*ch.ih, ch.ih+int64(1+r.Intn(4)))
	n := 25 + r.Intn(40)
	randSpec := func() blockSpec {
		h := ch.ih + int64(r.Intn(4))
		sp := ch.canon(h)
		switch r.Intn(8) {
		case 0:
			sp.txv = 1
		case 1:
			sp.flaw = 1 + r.Intn(nFlaws)
		case 2, 3:
			if h > ch.ih {
				sp.toks = ch.sigPattern(r, sigKinds[r.Intn(len(sigKinds))], h-1)
			}
		case 4:
			sp.ttxv = 1
		case 5:
			sp.lch += int64(r.Intn(3) - 1)
		case 6:
			sp.mal = malKinds[r.Intn(len(malKinds))]
			if sp.h == ch.ih && (sp.mal == "sigtoolong" || sp.mal == "absentaddr" || sp.mal == "lchash") {
				sp.mal = "evhash"
			}
		}
		return sp
	}
	for i := 0; i < n; i++ {
		p := 1 + r.Intn(3)
		h := ch.ih + int64(r.Intn(4))
		switch x := r.Intn(40); {
		case x < 3:
			s.add("connect p=%d", p)
		case x < 7:
			if r.Intn(8) == 0 {
				s.add("status p=%d base=%d height=%d", p, r.Intn(7)-1, r.Intn(7)-1)
			} else {
				s.add("status p=%d base=%d height=%d", p, int64(r.Intn(2))*ch.ih, ch.ih-1+int64(r.Intn(7)))
			}
		case x < 11:
			s.add("mkreq")
		case x < 17:
			s.add("pick h=%d p=%d", h, p)
		case x < 26:
			s.ops = append(s.ops, ch.blockOp(p, randSpec()))
		case x < 28:
			s.add("rstep h=%d", h)
		case x < 29:
			s.add("rtimeout h=%d", h)
		case x < 30:
			s.add("timeout p=%d", p)
		case x < 31:
			s.add("disconnect p=%d", p)
		case x < 35:
			s.add("process")
		case x < 38:
			s.add("show")
		case x < 39:
			if r.Intn(3) == 0 {
				s.add("restart")
			} else {
				s.add("peek")
			}
		default:
			s.add("handover")
		}
	}
	s.add("process")
	s.add("show")
	s.add("store")
	s.add("handover")
	return core.Case{Kind: "soup", Ops: s.ops}
}

func genBadOps(r *rand.Rand) core.Case {
	io, _ := newConfig(r, "none")
	bad := []string{"pick h=x p=1", "pick h=1", "block p=1 h=2", "status p=1 base=0", "frobnicate", "connect p=-1", "connect", "mkreq now",
		"block p=1 h=2 id=zz/1 prev=0/0 flaw=0 lc=1:0:0/0:c0.0 nv=- mal=0 d=0/000/-", "rstep", "timeout p=a", "process all", "init vals=", "init vals=0:x ih=1 upd=-",
		"init vals=5:0 ih=0 upd=-", "init vals=0:0 ih=1 upd=-", "restart now", "block p=1 h=2 id=1/1 prev=0/0 flaw=0 lc=1:0:0/0:c0.0 nv=3:0, mal=0 d=0/000/-"}
	s := &script{}
	if r.Intn(2) == 0 {
		s.add("connect p=1") // before init
	}
	s.add("%s", io)
	s.add("connect p=1")
	for i := 0; i < 6; i++ {
		s.add("%s", bad[r.Intn(len(bad))])
	}
	s.add("show")
	return core.Case{Kind: "bad-ops", Ops: s.ops}
}

func gen(r *rand.Rand, tier string, emit func(core.Case)) {
	mul := 1
	if tier == "thorough" {
		mul = 10
	}
	for i := 0; i < 70*mul; i++ {
		emit(genSync(r, "sync"))
	}
	for i := 0; i < 20*mul; i++ {
		emit(genSync(r, "sync-byz"))
	}
	for i := 0; i < 40*mul; i++ {
		emit(genBulk(r))
	}
	for i := 0; i < 30*mul; i++ {
		emit(genTipChange(r))
	}
	// long histories: enough cycles that a counter leaking one unit per reset would pass 600
	emit(genLong(r, 320))
	emit(genLong(r, 40))
	for i := 0; i < 2*(mul-1); i++ {
		emit(genLong(r, 250+r.Intn(150)))
	}
	for i := 0; i < 40*mul; i++ {
		emit(genSync(r, "tip"))
	}
	for i := 0; i < 150*mul; i++ {
		emit(genSoup(r))
	}
	for i := 0; i < 10*mul; i++ {
		emit(genBadOps(r))
	}
	for i := 0; i < 30*mul; i++ {
		emit(genV2(r, "v2-sync"))
	}
	for i := 0; i < 40*mul; i++ {
		emit(genV2(r, "v2-soup"))
	}
	for i := 0; i < 6*mul; i++ {
		emit(genV2(r, "v2-byz"))
	}
	for i := 0; i < 4*mul; i++ {
		emit(genV2(r, "v2-ih"))
	}
	for i := 0; i < 40*mul; i++ {
		emit(genV1(r, "v1-sync"))
	}
	for i := 0; i < 50*mul; i++ {
		emit(genV1(r, "v1-soup"))
	}
	for i := 0; i < 6*mul; i++ {
		emit(genV1(r, "v1-byz"))
	}
	for i := 0; i < 30*mul; i++ {
		emit(genSched(r, "sc-sync"))
	}
	for i := 0; i < 60*mul; i++ {
		emit(genSched(r, "sc-soup"))
	}
}

// ---------------------------------------------------------------------------------------------
// property oracle on the implementation's outputs (independent of the model)

type told struct {
	h      int64
	prev   string
	flaw   bool
	lcH    string
	lcID   string
	lcSigs string
	nv     string
}

type pv struct {
	power int64
	key   int
}

func parseSet(s string) []pv {
	var out []pv
	for _, e := range strings.Split(s, ",") {
		p := strings.Split(e, ":")
		if len(p) != 2 {
			return nil
		}
		pw, err1 := strconv.ParseInt(p[0], 10, 64)
		k, err2 := strconv.Atoi(p[1])
		if err1 != nil || err2 != nil {
			return nil
		}
		out = append(out, pv{pw, k})
	}
	return out
}

// quorum: entry i is a for-block signature by the key of validator i, for > 2/3 of the power
func quorum(set []pv, sigs string) bool {
	toks, ok := parseSigToks(sigs)
	if !ok || len(toks) != len(set) {
		return false
	}
	var total, got int64
	for i, v := range set {
		total += v.power
		if toks[i].flag == 'c' && toks[i].sig == v.key {
			got += v.power
		}
	}
	return 3*got > 2*total
}

// fullyValid: VerifyCommit's extra demand — every non-absent entry verifies under validator i's key
func fullyValid(set []pv, sigs string) bool {
	toks, ok := parseSigToks(sigs)
	if !ok || len(toks) != len(set) {
		return false
	}
	for i, t := range toks {
		if t.flag != 'a' && t.sig != set[i].key {
			return false
		}
	}
	return true
}

func oracle(c core.Case, out []string) []core.Finding {
	if len(c.Ops) > 0 && strings.HasPrefix(c.Ops[0], "v2") {
		return oracleV2(c, out)
	}
	if len(c.Ops) > 0 && strings.HasPrefix(c.Ops[0], "v1") {
		return oracleV1(c, out)
	}
	if len(c.Ops) > 0 && strings.HasPrefix(c.Ops[0], "sc") {
		return oracleSched(c, out)
	}
	var fs []core.Finding
	var set0 []pv
	ih := int64(1)
	offered := map[string]told{} // block id -> what the harness built
	var pendingPair []string
	malSender := ""
	lastStore := ""
	var tipSet []pv // the set that had to commit the last stored block
	var tipSigs string
	savedTotal := int64(0)
	scripted := c.Kind == "sync" || c.Kind == "tip"
	for i, op := range c.Ops {
		if i >= len(out) {
			break
		}
		f := strings.Fields(op)
		if len(f) == 0 {
			continue
		}
		m := kv(op)
		switch f[0] {
		case "init":
			if strings.HasPrefix(out[i], "ok") {
				set0 = parseSet(m["vals"])
				ih, _ = strconv.ParseInt(m["ih"], 10, 64)
				offered = map[string]told{}
				savedTotal = 0
				if out[i] != fmt.Sprintf("ok h=%d", ih) {
					fs = append(fs, core.Finding{Fingerprint: "v0.NewBlockchainReactor.start-height-not-initial-height",
						Desc: fmt.Sprintf("empty store, genesis initial_height %d: the pool starts at %q — the first height it requests must be the chain's first block", ih, out[i])})
				}
			}
		case "connect":
			if m["p"] == malSender {
				malSender = "" // it came back: a new connection
			}
		case "restart":
			malSender = ""
			if strings.HasPrefix(out[i], "ok") && out[i] != fmt.Sprintf("ok h=%d", ih+savedTotal) {
				fs = append(fs, core.Finding{Fingerprint: "v0.NewBlockchainReactor.start-height-after-restart",
					Desc: fmt.Sprintf("restart with %d blocks stored (first height %d): the pool starts at %q instead of %d", savedTotal, ih, out[i], ih+savedTotal)})
			}
			if strings.HasPrefix(out[i], "panic-") {
				fs = append(fs, handoverFinding(out[i], "restart", tipSet, tipSigs))
			}
		case "block":
			lc := strings.Split(m["lc"], ":")
			h, _ := strconv.ParseInt(m["h"], 10, 64)
			if d := strings.Split(m["d"], "/"); len(d) == 3 && len(lc) == 4 {
				why := ""
				if d[2] != "-" {
					why = d[2]
				} else if h > ih && lc[3] == "-" {
					why = "no-signatures"
				}
				if why != "" && out[i] != "stopped" && out[i] != "not-connected" && out[i] != "bad-op" {
					fs = append(fs, core.Finding{Fingerprint: "v0.Receive.malformed-block-sender-not-dropped",
						Desc: fmt.Sprintf("peer %s answered with a block that does not pass BlockFromProto/ValidateBasic (%s) and was not stopped for error (result %q): the request stays assigned to it and is not retried elsewhere", m["p"], why, out[i])})
				}
				if why != "" && out[i] != "not-connected" && out[i] != "bad-op" {
					malSender = m["p"]
				}
			}
			if len(lc) == 4 {
				offered[m["id"]] = told{h: h, prev: m["prev"], flaw: m["flaw"] != "0", lcH: lc[0], lcID: lc[2], lcSigs: lc[3], nv: m["nv"]}
			}
		case "process":
			pendingPair = nil
			mm := kv("x " + out[i])
			if k, err := strconv.ParseInt(mm["saved"], 10, 64); err == nil {
				savedTotal += k
			}
			if mm["err"] != "" && mm["err"] != "-" {
				for _, p := range strings.Split(mm["pair"], "/") {
					if p != "-" && p != "" {
						pendingPair = append(pendingPair, p)
					}
				}
				if scripted && mm["pair"] == "1/1" {
					fs = append(fs, core.Finding{Fingerprint: "v0.poolRoutine.honest-pair-rejected",
						Desc: fmt.Sprintf("both blocks in front came from the honest peer (canonical chain) and the check failed with %s: the honest peer is dropped", mm["err"])})
				}
			}
		case "show":
			{
				// resource counters against their definition
				mm := kv("x " + out[i])
				if pend, err := strconv.Atoi(mm["pending"]); err == nil {
					waitingReqs, total := 0, 0
					if mm["reqs"] != "-" && mm["reqs"] != "" {
						for _, e := range strings.Split(mm["reqs"], ",") {
							total++
							if p := strings.Split(e, ":"); len(p) == 3 && p[2] == "-" {
								waitingReqs++
							}
						}
					}
					if pend != waitingReqs {
						fs = append(fs, core.Finding{Fingerprint: "v0.pool.numPending-differs-from-waiting-requesters",
							Desc: fmt.Sprintf("pool.numPending = %d but %d of %d requesters are without a block: the counter that gates makeRequestersRoutine (maxPendingRequests) drifts (%s)", pend, waitingReqs, total, out[i])})
					}
					if total > 600 {
						fs = append(fs, core.Finding{Fingerprint: "v0.pool.more-requesters-than-maxTotalRequesters", Desc: out[i]})
					}
				}
			}
			if malSender != "" {
				mm := kv("x " + out[i])
				for _, e := range append(strings.Split(mm["peers"], ","), strings.Split(mm["conn"], ",")...) {
					if strings.Split(e, ":")[0] == malSender {
						fs = append(fs, core.Finding{Fingerprint: "v0.Receive.malformed-block-sender-still-connected",
							Desc: fmt.Sprintf("peer %s sent a block that does not decode and is still in the pool / switch: %s", malSender, out[i])})
						break
					}
				}
				for _, e := range strings.Split(mm["reqs"], ",") {
					if p := strings.Split(e, ":"); len(p) == 3 && p[1] == malSender && p[2] == "-" {
						// still assigned and no redo possible: checked through the peer lists above
						_ = p
					}
				}
				malSender = ""
			}
			if len(pendingPair) > 0 {
				mm := kv("x " + out[i])
				in := func(list, id string) bool {
					for _, e := range strings.Split(list, ",") {
						if strings.Split(e, ":")[0] == id {
							return true
						}
					}
					return false
				}
				for _, p := range pendingPair {
					if in(mm["peers"], p) || in(mm["conn"], p) {
						fs = append(fs, core.Finding{Fingerprint: "v0.poolRoutine.liar-not-dropped",
							Desc: fmt.Sprintf("after a failed verification peer %s that delivered one of the two blocks is still in the pool or the switch: %s", p, out[i])})
					}
				}
				pendingPair = nil
			}
		case "store":
			lastStore = out[i]
			sf, ts, tg := checkStore("v0", out[i], set0, ih, offered)
			fs = append(fs, sf...)
			if tg != "" {
				tipSet, tipSigs = ts, tg
			}
		case "handover":
			if strings.HasPrefix(out[i], "panic-") {
				fs = append(fs, handoverFinding(out[i], "SwitchToConsensus", tipSet, tipSigs))
			}
			if strings.HasPrefix(out[i], "ok-but") {
				fs = append(fs, core.Finding{Fingerprint: "consensus.reconstructLastCommit.fails-at-handover",
					Desc: "SwitchToConsensus returned but the consensus state's LastCommit does not verify against state.LastValidators: " + out[i]})
			}
		}
	}
	if scripted {
		// scripted fair retry with an honest peer: tip-1 must be reached
		tip, nops := int64(0), 0
		if p := strings.Split(c.ID, "-"); len(p) >= 3 {
			tip, _ = strconv.ParseInt(strings.TrimPrefix(p[len(p)-2], "T"), 10, 64)
			nops, _ = strconv.Atoi(strings.TrimPrefix(p[len(p)-1], "n"))
		}
		// (only the unshrunk script is a fair schedule)
		if tip > 0 && nops == len(c.Ops) && !strings.HasPrefix(lastStore, fmt.Sprintf("state=%d:", tip-1)) {
			fs = append(fs, core.Finding{Fingerprint: "v0.sync.tip-not-reached",
				Desc: fmt.Sprintf("honest peer with fair retry did not bring the node to height %d: %s", tip-1, lastStore)})
		}
	}
	return fs
}

// checkStore walks a store line: the node's own state is re-derived (sets shift as updateState
// prescribes) and every stored block is judged against it.
func checkStore(px, line string, set0 []pv, ih int64, offered map[string]told) (fs []core.Finding, tipSet []pv, tipSigs string) {
	mm := kv("x " + line)
	if mm["blocks"] == "" || mm["blocks"] == "-" {
		return
	}
	last, cur, next := []pv(nil), set0, set0
	prevID := "0/0"
	for k, e := range strings.Split(mm["blocks"], ";") {
		p := strings.Split(e, ":")
		h := ih + int64(k)
		if len(p) != 4 {
			fs = append(fs, core.Finding{Fingerprint: px + ".store.block-or-seen-commit-missing", Desc: "stored height without block or seen commit: " + e})
			break
		}
		if p[0] != strconv.FormatInt(h, 10) {
			fs = append(fs, core.Finding{Fingerprint: px + ".store.heights-not-contiguous", Desc: line})
		}
		if p[1] != p[2] {
			fs = append(fs, core.Finding{Fingerprint: px + ".saved.seen-commit-for-other-block",
				Desc: fmt.Sprintf("height %s: stored block %s but its seen commit is for %s", p[0], p[1], p[2])})
		}
		if !quorum(cur, p[3]) {
			fs = append(fs, core.Finding{Fingerprint: px + ".saved.without-two-thirds",
				Desc: fmt.Sprintf("height %s: block %s stored with seen commit %s, which does not carry valid signatures of >2/3 of the validator set the node's state prescribes for that height (%v)", p[0], p[1], p[3], cur)})
		}
		t, known := offered[p[1]]
		okLC := false
		if known {
			if h == ih {
				okLC = t.lcSigs == "-"
			} else {
				okLC = t.lcH == strconv.FormatInt(h-1, 10) && t.lcID == prevID && quorum(last, t.lcSigs) && fullyValid(last, t.lcSigs)
			}
		}
		if !known || t.flaw || !okLC || t.prev != prevID || t.h != h {
			fs = append(fs, core.Finding{Fingerprint: px + ".saved.block-fails-validation",
				Desc: fmt.Sprintf("height %s: stored block %s does not pass validation on its predecessor %s (%+v)", p[0], p[1], prevID, t)})
		}
		prevID = p[1]
		tipSet, tipSigs = cur, p[3]
		nn := next
		if known && t.nv != "-" && t.nv != "" {
			nn = parseSet(t.nv)
		}
		last, cur, next = cur, next, nn
	}
	return
}

func handoverFinding(outLine, where string, tipSet []pv, tipSigs string) core.Finding {
	outTok := strings.Fields(outLine)[0]
	kind := strings.TrimPrefix(outTok, "panic-")
	fp := "v0.handover." + outTok
	desc := where + " panics in reconstructLastCommit: " + outLine
	if strings.Contains(outLine, "tipclean=true") {
		// everything stored is valid: the seen commit of the last block verifies entry by entry
		// against the set that had to sign it (state.LastValidators)
		return core.Finding{Fingerprint: "consensus.reconstructLastCommit.fails-at-handover",
			Desc: fmt.Sprintf("%s fails (%s) although the stored seen commit of the last synced block is fully valid for state.LastValidators (%s): the hand-over after block sync must complete", where, outTok, tipSigs)}
	}
	if (kind == "sig" || kind == "addr") && strings.Contains(outLine, "tipq=true") {
		fp += ".unverified-rest-of-tip-seen-commit"
		desc = fmt.Sprintf("the seen commit stored for the last synced block (%s) was only light-verified: an entry after the first +2/3 has an invalid signature or a foreign validator address, and CommitToVoteSet panics at %s (%s)", tipSigs, where, outTok)
	}
	return core.Finding{Fingerprint: fp, Desc: desc}
}

func nonTrivial(c core.Case, out []string) bool {
	added, proc := false, false
	for _, o := range out {
		if o == "added" {
			added = true
		}
		if strings.HasPrefix(o, "saved=") || strings.HasPrefix(o, "processed ") || strings.HasPrefix(o, "failure ") {
			proc = true
		}
	}
	for _, o := range out {
		if o == "processed" || o == "verification-failure" || strings.HasPrefix(o, "block-request") {
			proc = true
		}
	}
	return (added && proc) || (proc && len(c.Ops) > 0 && (strings.HasPrefix(c.Ops[0], "v") || strings.HasPrefix(c.Ops[0], "sc")))
}

func extra() map[string]interface{} {
	histMtx.Lock()
	defer histMtx.Unlock()
	a, s := map[string]int{}, map[string]int{}
	for k, v := range attackHist {
		a[k] = v
	}
	for k, v := range sigHist {
		s[k] = v
	}
	return map[string]interface{}{"attack_histogram": a, "commit_pattern_histogram": s}
}
