package main

import (
	"encoding/binary"
	"fmt"
	"sort"
	"strconv"
	"strings"
	"sync"
	"time"

	dbm "github.com/tendermint/tm-db"

	abci "github.com/tendermint/tendermint/abci/types"
	"github.com/tendermint/tendermint/crypto"
	"github.com/tendermint/tendermint/crypto/ed25519"
	cryptoenc "github.com/tendermint/tendermint/crypto/encoding"
	"github.com/tendermint/tendermint/libs/log"
	mpmock "github.com/tendermint/tendermint/mempool/mock"
	tmproto "github.com/tendermint/tendermint/proto/tendermint/types"
	"github.com/tendermint/tendermint/proxy"
	sm "github.com/tendermint/tendermint/state"
	"github.com/tendermint/tendermint/types"
)

const chainID = "c13-chain"
const maxChain = 8 // blocks ih .. ih+maxChain-1
const nKeys = 8

var baseTime = time.Unix(1600000000, 0).UTC()

var (
	keys     [nKeys]crypto.PrivKey
	keyByAdr = map[string]int{}
)

func init() {
	for i := range keys {
		keys[i] = ed25519.GenPrivKeyFromSecret([]byte(fmt.Sprintf("c13-validator-%d", i)))
		keyByAdr[string(keys[i].PubKey().Address())] = i
	}
}

// ---------------------------------------------------------------------------------------------
// the application: counts transactions; "val:<key>!<power>" updates the validator set

type syncApp struct {
	abci.BaseApplication
	count   uint64
	pending []abci.ValidatorUpdate
}

func parseValTx(tx []byte) (int, int64, bool) {
	s := string(tx)
	if !strings.HasPrefix(s, "val:") {
		return 0, 0, false
	}
	p := strings.Split(s[4:], "!")
	if len(p) != 2 {
		return 0, 0, false
	}
	k, err1 := strconv.Atoi(p[0])
	pw, err2 := strconv.ParseInt(p[1], 10, 64)
	if err1 != nil || err2 != nil || k < 0 || k >= nKeys || pw < 0 {
		return 0, 0, false
	}
	return k, pw, true
}

func (a *syncApp) DeliverTx(req abci.RequestDeliverTx) abci.ResponseDeliverTx {
	a.count++
	if k, pw, ok := parseValTx(req.Tx); ok {
		pk, err := cryptoenc.PubKeyToProto(keys[k].PubKey())
		if err != nil {
			panic(err)
		}
		a.pending = append(a.pending, abci.ValidatorUpdate{PubKey: pk, Power: pw})
	}
	return abci.ResponseDeliverTx{Code: 0}
}

func (a *syncApp) EndBlock(abci.RequestEndBlock) abci.ResponseEndBlock {
	u := a.pending
	a.pending = nil
	return abci.ResponseEndBlock{ValidatorUpdates: u}
}

func (a *syncApp) Commit() abci.ResponseCommit {
	h := make([]byte, 8)
	binary.BigEndian.PutUint64(h, a.count)
	return abci.ResponseCommit{Data: h}
}

// ---------------------------------------------------------------------------------------------
// canonical chain (deterministic from the configuration line)

type valUpd struct {
	key   int
	power int64
}

type chain struct {
	ih     int64
	genDoc *types.GenesisDoc
	upd    map[int64][]valUpd
	states map[int64]sm.State     // states[h] = state after block h (states[ih-1] = genesis)
	blocks map[int64]*types.Block // canonical blocks
	ids    map[int64]types.BlockID
	full   map[int64]*types.Commit // commit for block h signed by the whole set of height h
}

var chains sync.Map // config string -> *chain

// setStr renders a validator set as power:key in set order
func setStr(vs *types.ValidatorSet) string {
	var out []string
	for _, v := range vs.Validators {
		out = append(out, fmt.Sprintf("%d:%d", v.VotingPower, keyByAdr[string(v.Address)]))
	}
	return strings.Join(out, ",")
}

// configOf orders (key index, power) the way the ValidatorSet does
func configOf(powers []int64) string {
	vs := make([]*types.Validator, len(powers))
	for i, p := range powers {
		vs[i] = types.NewValidator(keys[i].PubKey(), p)
	}
	return setStr(types.NewValidatorSet(vs))
}

func (ch *chain) txsFor(v int, h int64) []types.Tx {
	if v != 0 {
		return []types.Tx{types.Tx(fmt.Sprintf("h%d=alt%d", h, v))}
	}
	txs := []types.Tx{types.Tx(fmt.Sprintf("h%d=canon", h))}
	for _, u := range ch.upd[h] {
		txs = append(txs, types.Tx(fmt.Sprintf("val:%d!%d", u.key, u.power)))
	}
	return txs
}

func sigTime(h int64, i int) time.Time {
	return baseTime.Add(time.Duration(h)*time.Second + time.Duration(i)*time.Millisecond)
}

// sigTok: flag 'a' | 'c' | 'n'; addr = key index whose address the entry carries (-1 = a foreign
// address); sig = key index that really signs the entry's sign bytes (-1 = garbage)
type sigTok struct {
	flag byte
	addr int
	sig  int
}

func (s sigTok) String() string {
	if s.flag == 'a' {
		return "a"
	}
	a, g := "f", "x"
	if s.addr >= 0 {
		a = strconv.Itoa(s.addr)
	}
	if s.sig >= 0 {
		g = strconv.Itoa(s.sig)
	}
	return string(s.flag) + a + "." + g
}

func parseSigToks(s string) ([]sigTok, bool) {
	if s == "-" || s == "" {
		return nil, true
	}
	var out []sigTok
	for _, t := range strings.Split(s, ",") {
		if t == "a" {
			out = append(out, sigTok{flag: 'a'})
			continue
		}
		if len(t) < 4 || (t[0] != 'c' && t[0] != 'n') {
			return nil, false
		}
		p := strings.Split(t[1:], ".")
		if len(p) != 2 {
			return nil, false
		}
		tk := sigTok{flag: t[0], addr: -1, sig: -1}
		if p[0] != "f" {
			v, err := strconv.ParseUint(p[0], 10, 31)
			if err != nil || int(v) >= nKeys {
				return nil, false
			}
			tk.addr = int(v)
		}
		if p[1] != "x" {
			v, err := strconv.ParseUint(p[1], 10, 31)
			if err != nil || int(v) >= nKeys {
				return nil, false
			}
			tk.sig = int(v)
		}
		out = append(out, tk)
	}
	return out, true
}

// makeCommit builds a real commit for (height, round 0, target): entry i carries the address of
// key tok.addr (or 20 foreign bytes) and the real signature of key tok.sig over the entry's real
// sign bytes (or 64 bytes of garbage).
func makeCommit(height int64, target types.BlockID, toks []sigTok) *types.Commit {
	sigs := make([]types.CommitSig, len(toks))
	for i, t := range toks {
		if t.flag == 'a' {
			sigs[i] = types.NewCommitSigAbsent()
			continue
		}
		flag := types.BlockIDFlagCommit
		bid := target
		if t.flag == 'n' {
			flag = types.BlockIDFlagNil
			bid = types.BlockID{}
		}
		addr := make([]byte, 20)
		if t.addr >= 0 {
			addr = keys[t.addr].PubKey().Address()
		} else {
			for k := range addr {
				addr[k] = byte(0xE0 + i)
			}
		}
		ts := sigTime(height, i)
		vote := &types.Vote{Type: tmproto.PrecommitType, Height: height, Round: 0, BlockID: bid,
			Timestamp: ts, ValidatorAddress: addr, ValidatorIndex: int32(i)}
		var sig []byte
		if t.sig >= 0 {
			var err error
			sig, err = keys[t.sig].Sign(types.VoteSignBytes(chainID, vote.ToProto()))
			if err != nil {
				panic(err)
			}
		} else {
			sig = make([]byte, 64)
			for k := range sig {
				sig[k] = byte(0xA0 + (k+i)%7)
			}
		}
		sigs[i] = types.CommitSig{BlockIDFlag: flag, ValidatorAddress: addr, Timestamp: ts, Signature: sig}
	}
	return types.NewCommit(height, 0, target, sigs)
}

// valsAt = the validator set in force at height h (of the canonical chain)
func (ch *chain) valsAt(h int64) *types.ValidatorSet { return ch.states[h-1].Validators }

func (ch *chain) keysAt(h int64) []int {
	var ks []int
	for _, v := range ch.valsAt(h).Validators {
		ks = append(ks, keyByAdr[string(v.Address)])
	}
	return ks
}

// allSign: everybody of the set at height h signs
func (ch *chain) allSign(h int64) []sigTok {
	var t []sigTok
	for _, k := range ch.keysAt(h) {
		t = append(t, sigTok{'c', k, k})
	}
	return t
}

func blockIDOf(b *types.Block) types.BlockID {
	return types.BlockID{Hash: b.Hash(), PartSetHeader: b.MakePartSet(types.BlockPartSizeBytes).Header()}
}

func parseUpd(s string) (map[int64][]valUpd, bool) {
	out := map[int64][]valUpd{}
	if s == "-" || s == "" {
		return out, true
	}
	for _, e := range strings.Split(s, ";") {
		p := strings.SplitN(e, ":", 2)
		if len(p) != 2 {
			return nil, false
		}
		h, err := strconv.ParseInt(p[0], 10, 64)
		if err != nil {
			return nil, false
		}
		for _, u := range strings.Split(p[1], "+") {
			k, pw, ok := parseValTx([]byte("val:" + u))
			if !ok {
				return nil, false
			}
			out[h] = append(out[h], valUpd{k, pw})
		}
	}
	return out, true
}

func getChain(valsCSV, ihS, updS string) (*chain, error) {
	key := valsCSV + "|" + ihS + "|" + updS
	if c, ok := chains.Load(key); ok {
		return c.(*chain), nil
	}
	ih, err := strconv.ParseInt(ihS, 10, 64)
	if err != nil || ih < 1 || ih > 1000000 {
		return nil, fmt.Errorf("bad ih")
	}
	upd, ok := parseUpd(updS)
	if !ok {
		return nil, fmt.Errorf("bad upd")
	}
	ch := &chain{ih: ih, upd: upd, states: map[int64]sm.State{}, blocks: map[int64]*types.Block{}, ids: map[int64]types.BlockID{},
		full: map[int64]*types.Commit{}}
	var gvals []types.GenesisValidator
	seen := map[int]bool{}
	for _, e := range strings.Split(valsCSV, ",") {
		p := strings.Split(e, ":")
		if len(p) != 2 {
			return nil, fmt.Errorf("bad vals")
		}
		pw, err1 := strconv.ParseInt(p[0], 10, 64)
		k, err2 := strconv.ParseUint(p[1], 10, 31)
		if err1 != nil || err2 != nil || pw <= 0 || int(k) >= nKeys || seen[int(k)] {
			return nil, fmt.Errorf("bad vals")
		}
		seen[int(k)] = true
		gvals = append(gvals, types.GenesisValidator{PubKey: keys[k].PubKey(), Power: pw, Name: fmt.Sprintf("v%d", k)})
	}
	ch.genDoc = &types.GenesisDoc{GenesisTime: baseTime, ChainID: chainID, InitialHeight: ih, Validators: gvals,
		ConsensusParams: types.DefaultConsensusParams()}
	if err := ch.genDoc.ValidateAndComplete(); err != nil {
		return nil, err
	}
	state, err := sm.MakeGenesisState(ch.genDoc)
	if err != nil {
		return nil, err
	}
	if setStr(state.Validators) != valsCSV {
		return nil, fmt.Errorf("validator order differs from the op line")
	}
	pa := proxy.NewAppConns(proxy.NewLocalClientCreator(&syncApp{}))
	if err := pa.Start(); err != nil {
		return nil, err
	}
	defer pa.Stop() //nolint:errcheck
	ss := sm.NewStore(dbm.NewMemDB(), sm.StoreOptions{})
	if err := ss.Save(state); err != nil {
		return nil, err
	}
	be := sm.NewBlockExecutor(ss, log.NewNopLogger(), pa.Consensus(), mpmock.Mempool{}, sm.EmptyEvidencePool{})
	ch.states[ih-1] = state.Copy()
	ch.full[ih-1] = types.NewCommit(0, 0, types.BlockID{}, nil)
	for h := ih; h < ih+maxChain; h++ {
		b, _ := state.MakeBlock(h, ch.txsFor(0, h), ch.full[h-1], nil, state.Validators.Validators[0].Address)
		id := blockIDOf(b)
		ns, _, err := be.ApplyBlock(state, id, b)
		if err != nil {
			return nil, fmt.Errorf("building the chain: %v", err)
		}
		state = ns
		ch.states[h] = state.Copy()
		ch.blocks[h] = b
		ch.ids[h] = id
		ch.full[h] = makeCommit(h, id, ch.allSign(h))
	}
	c, _ := chains.LoadOrStore(key, ch)
	return c.(*chain), nil
}

func (ch *chain) has(h int64) bool { return h >= ch.ih && h < ch.ih+maxChain }

// variant returns the block at height h built on the canonical state h-1 with the given
// transaction variant, flaw and LastCommit (nil = the canonical full commit).
// flaw kinds: 0 none; what only BlockExecutor.ValidateBlock (validateBlock + the evidence pool)
// rejects, never Block.ValidateBasic: 1 AppHash, 2 ConsensusHash, 3 LastResultsHash,
// 4 ValidatorsHash, 5 block time off the median, 6 inadmissible evidence (forged duplicate votes of
// a key that is no validator). 5 and 6 are checked after the LastCommit.
const nFlaws = 6

func badEvidence(h int64) types.Evidence {
	vh := h - 1
	if vh < 1 {
		vh = 1
	}
	mk := func(tag byte) *types.Vote {
		hash := make([]byte, 32)
		for i := range hash {
			hash[i] = tag
		}
		sig := make([]byte, 64)
		for i := range sig {
			sig[i] = tag + 0x40
		}
		return &types.Vote{Type: tmproto.PrevoteType, Height: vh, Round: 0,
			BlockID:   types.BlockID{Hash: hash, PartSetHeader: types.PartSetHeader{Total: 1, Hash: hash}},
			Timestamp: baseTime, ValidatorAddress: keys[nKeys-1].PubKey().Address(), ValidatorIndex: 0, Signature: sig}
	}
	return &types.DuplicateVoteEvidence{VoteA: mk(1), VoteB: mk(2), TotalVotingPower: 10, ValidatorPower: 1, Timestamp: baseTime}
}

func (ch *chain) variant(h int64, txv int, flaw int, lc *types.Commit) *types.Block {
	if lc == nil {
		lc = ch.full[h-1]
	}
	st := ch.states[h-1]
	var ev []types.Evidence
	if flaw == 6 {
		ev = []types.Evidence{badEvidence(h)}
	}
	b, _ := st.MakeBlock(h, ch.txsFor(txv, h), lc, ev, st.Validators.Validators[0].Address)
	other := make([]byte, 32)
	for i := range other {
		other[i] = 0x11
	}
	switch flaw {
	case 1:
		b.AppHash = []byte("not-the-app-hash")
	case 2:
		b.ConsensusHash = other
	case 3:
		b.LastResultsHash = other
	case 4:
		b.ValidatorsHash = other
	case 5:
		b.Time = b.Time.Add(time.Second)
	}
	return b
}

// nvOf: the NextValidators the execution of block (h, txv) produces, "-" if it has no updates
func (ch *chain) nvOf(h int64, txv int) string {
	if txv != 0 || len(ch.upd[h]) == 0 {
		return "-"
	}
	return setStr(ch.states[h].NextValidators)
}

// target of a commit: block (h, ttxv, tflaw) with canonical LastCommit; wp flips the part-set hash
func (ch *chain) target(h int64, ttxv int, tflaw int, wp bool) types.BlockID {
	if !ch.has(h) {
		return types.BlockID{}
	}
	var id types.BlockID
	if ttxv == 0 && tflaw == 0 {
		id = ch.ids[h]
	} else {
		id = blockIDOf(ch.variant(h, ttxv, tflaw, nil))
	}
	if wp {
		hh := append([]byte{}, id.PartSetHeader.Hash...)
		hh[0] ^= 0x55
		id.PartSetHeader.Hash = hh
	}
	return id
}

func tok32(b []byte) string {
	if len(b) < 4 {
		return "0"
	}
	return fmt.Sprintf("%x", uint32(b[0])<<24|uint32(b[1])<<16|uint32(b[2])<<8|uint32(b[3]))
}

func idTok(id types.BlockID) string { return tok32(id.Hash) + "/" + tok32(id.PartSetHeader.Hash) }

// blockSpec is everything needed to rebuild a real block from an op line.
type blockSpec struct {
	h     int64
	txv   int
	flaw  int
	ttxv  int
	tflaw int
	twp   bool
	lch   int64
	toks  []sigTok
	mal   string // "" / "-" = well-formed; else the way the block fails BlockFromProto / ValidateBasic
}

var malKinds = []string{"datahash", "lchash", "evhash", "nolc", "sigtoolong", "absentaddr", "lcround"}

func (ch *chain) build(s blockSpec) *types.Block {
	var lc *types.Commit
	if s.h == ch.ih && len(s.toks) == 0 {
		lc = types.NewCommit(s.lch, 0, types.BlockID{}, nil)
	} else {
		lc = makeCommit(s.lch, ch.target(s.h-1, s.ttxv, s.tflaw, s.twp), s.toks)
	}
	switch s.mal {
	case "sigtoolong":
		for i := range lc.Signatures {
			if !lc.Signatures[i].Absent() {
				lc.Signatures[i].Signature = append(append([]byte{}, lc.Signatures[i].Signature...), 0x01)
				break
			}
		}
	case "absentaddr":
		if len(lc.Signatures) > 0 {
			lc.Signatures[len(lc.Signatures)-1] = types.CommitSig{BlockIDFlag: types.BlockIDFlagAbsent,
				ValidatorAddress: keys[0].PubKey().Address()}
		}
	case "lcround":
		lc.Round = -1
	}
	b := ch.variant(s.h, s.txv, s.flaw, lc)
	switch s.mal {
	case "datahash": // the right header over other transactions
		b.Data = types.Data{Txs: []types.Tx{types.Tx("something=else")}}
	case "lchash": // header commits to another LastCommit
		// (Commit.Hash covers the signature entries only)
		sigs := append([]types.CommitSig{}, lc.Signatures...)
		sigs = append(sigs, types.CommitSig{BlockIDFlag: types.BlockIDFlagNil, ValidatorAddress: keys[0].PubKey().Address(),
			Timestamp: baseTime, Signature: []byte{1}})
		b.LastCommit = types.NewCommit(lc.Height, lc.Round, lc.BlockID, sigs)
	case "evhash":
		b.EvidenceHash = make([]byte, 32)
	case "nolc":
		b.LastCommit = nil
	}
	return b
}

func (s blockSpec) malformed() bool { return s.mal != "" && s.mal != "-" }

func b01(x bool) string {
	if x {
		return "1"
	}
	return "0"
}

func toksStr(t []sigTok) string {
	if len(t) == 0 {
		return "-"
	}
	s := make([]string, len(t))
	for i := range t {
		s[i] = t[i].String()
	}
	return strings.Join(s, ",")
}

// blockOp renders the op line for delivering the block described by s from peer p.
func (ch *chain) blockOp(p int, s blockSpec) string {
	if s.malformed() {
		// ids of a block that does not decode are not compared
		ws := s
		ws.mal = ""
		wb := ch.build(ws)
		return fmt.Sprintf("block p=%d h=%d id=0/0 prev=%s flaw=%s lc=%d:0:%s:%s nv=%s mal=1 d=%d/%d%s%s/%s",
			p, s.h, idTok(wb.LastBlockID), strconv.Itoa(s.flaw), s.lch, idTok(wb.LastCommit.BlockID), toksStr(s.toks),
			ch.nvOf(s.h, s.txv), s.txv, s.ttxv, strconv.Itoa(s.tflaw), b01(s.twp), s.mal)
	}
	b := ch.build(s)
	return fmt.Sprintf("block p=%d h=%d id=%s prev=%s flaw=%s lc=%d:0:%s:%s nv=%s mal=0 d=%d/%d%s%s/-",
		p, s.h, idTok(blockIDOf(b)), idTok(b.LastBlockID), strconv.Itoa(s.flaw), s.lch, idTok(b.LastCommit.BlockID), toksStr(s.toks),
		ch.nvOf(s.h, s.txv), s.txv, s.ttxv, strconv.Itoa(s.tflaw), b01(s.twp))
}

func kv(op string) map[string]string {
	m := map[string]string{}
	f := strings.Fields(op)
	for _, t := range f[1:] {
		if i := strings.IndexByte(t, '='); i > 0 {
			m[t[:i]] = t[i+1:]
		}
	}
	return m
}

func isIDTok(t string) bool {
	p := strings.Split(t, "/")
	if len(p) != 2 {
		return false
	}
	for _, x := range p {
		if x == "" {
			return false
		}
		for _, c := range x {
			if !strings.ContainsRune("0123456789abcdefABCDEF", c) {
				return false
			}
		}
	}
	return true
}

// isSetStr: "-" or power:key,… with positive powers (what the model's parser accepts)
func isSetStr(s string) bool {
	if s == "-" {
		return true
	}
	if s == "" {
		return false
	}
	for _, e := range strings.Split(s, ",") {
		p := strings.Split(e, ":")
		if len(p) != 2 {
			return false
		}
		pw, err1 := strconv.ParseUint(p[0], 10, 63)
		_, err2 := strconv.ParseUint(p[1], 10, 63)
		if err1 != nil || err2 != nil || pw == 0 {
			return false
		}
	}
	return true
}

func (ch *chain) parseBlockOp(m map[string]string) (blockSpec, bool) {
	var s blockSpec
	var err error
	if s.h, err = strconv.ParseInt(m["h"], 10, 64); err != nil || !ch.has(s.h) {
		return s, false
	}
	fl, err := strconv.ParseUint(m["flaw"], 10, 64)
	if err != nil || fl > nFlaws {
		return s, false
	}
	s.flaw = int(fl)
	lc := strings.Split(m["lc"], ":")
	if len(lc) != 4 || !isIDTok(m["id"]) || !isIDTok(m["prev"]) || !isIDTok(lc[2]) || !isSetStr(m["nv"]) {
		return s, false
	}
	if _, err := strconv.ParseInt(lc[1], 10, 64); err != nil {
		return s, false
	}
	if s.lch, err = strconv.ParseInt(lc[0], 10, 64); err != nil {
		return s, false
	}
	var ok bool
	if s.toks, ok = parseSigToks(lc[3]); !ok {
		return s, false
	}
	d := strings.Split(m["d"], "/")
	if len(d) != 3 || len(d[1]) != 3 {
		return s, false
	}
	if _, err := strconv.ParseUint(m["mal"], 10, 64); err != nil {
		return s, false
	}
	s.mal = d[2]
	if s.mal != "-" {
		known := false
		for _, k := range malKinds {
			known = known || k == s.mal
		}
		if !known || m["mal"] == "0" {
			return s, false
		}
	} else if m["mal"] != "0" {
		return s, false
	}
	if s.txv, err = strconv.Atoi(d[0]); err != nil {
		return s, false
	}
	s.ttxv = int(d[1][0] - '0')
	s.tflaw = int(d[1][1] - '0')
	if s.tflaw < 0 || s.tflaw > nFlaws {
		return s, false
	}
	s.twp = d[1][2] == '1'
	return s, true
}

// commitToks renders a stored commit as tokens (which key's address, which key's signature)
func commitToks(c *types.Commit) string {
	if len(c.Signatures) == 0 {
		return "-"
	}
	out := make([]string, len(c.Signatures))
	for i, s := range c.Signatures {
		if s.Absent() {
			out[i] = "a"
			continue
		}
		t := sigTok{flag: 'c', addr: -1, sig: -1}
		if s.BlockIDFlag == types.BlockIDFlagNil {
			t.flag = 'n'
		}
		if k, ok := keyByAdr[string(s.ValidatorAddress)]; ok {
			t.addr = k
		}
		sb := c.VoteSignBytes(chainID, int32(i))
		for k := range keys {
			if keys[k].PubKey().VerifySignature(sb, s.Signature) {
				t.sig = k
				break
			}
		}
		out[i] = t.String()
	}
	return strings.Join(out, ",")
}

var _ = sort.Strings
