package main

// blockchain/v2 processor stream: the real pcState.handle over its real context (real
// VerifyCommitLight on the context's state, real block store, real BlockExecutor).

import (
	"fmt"
	"math/rand"
	"strconv"
	"strings"

	dbm "github.com/tendermint/tm-db"

	v2 "github.com/tendermint/tendermint/blockchain/v2"
	"github.com/tendermint/tendermint/libs/log"
	mpmock "github.com/tendermint/tendermint/mempool/mock"
	"github.com/tendermint/tendermint/proxy"
	sm "github.com/tendermint/tendermint/state"
	"github.com/tendermint/tendermint/store"
	"github.com/tendermint/tendermint/types"

	"verifharness/core"
)

type v2node struct {
	ch   *chain
	pc   *v2.VerifProcessor
	bs   *store.BlockStore
	pa   proxy.AppConns
	dead bool
}

func newV2(ch *chain) (*v2node, error) {
	n := &v2node{ch: ch}
	state := ch.states[ch.ih-1].Copy()
	ss := sm.NewStore(dbm.NewMemDB(), sm.StoreOptions{})
	if err := ss.Save(state); err != nil {
		return nil, err
	}
	n.bs = store.NewBlockStore(dbm.NewMemDB())
	n.pa = proxy.NewAppConns(proxy.NewLocalClientCreator(&syncApp{}))
	if err := n.pa.Start(); err != nil {
		return nil, err
	}
	be := sm.NewBlockExecutor(ss, log.NewNopLogger(), n.pa.Consensus(), mpmock.Mempool{}, sm.EmptyEvidencePool{})
	n.pc = v2.NewVerifProcessor(n.bs, be, state.Copy())
	return n, nil
}

func (n *v2node) close() { _ = n.pa.Stop() }

func storeLine(ch *chain, bs *store.BlockStore, state sm.State) string {
	var bl []string
	for h := ch.ih; h <= bs.Height(); h++ {
		b := bs.LoadBlock(h)
		sc := bs.LoadSeenCommit(h)
		if b == nil || sc == nil {
			bl = append(bl, fmt.Sprintf("%d:missing", h))
			continue
		}
		bl = append(bl, fmt.Sprintf("%d:%s:%s:%s", h, idTok(blockIDOf(b)), idTok(sc.BlockID), commitToks(sc)))
	}
	return fmt.Sprintf("state=%d:%s blocks=%s", state.LastBlockHeight, idTok(state.LastBlockID), strings.Join(bl, ";")) + dashIfEmpty(bl)
}

func (n *v2node) res(s string) string {
	switch {
	case strings.HasPrefix(s, "panic: duplicate block"):
		n.dead = true
		return "panic-dup"
	case strings.HasPrefix(s, "panic: failed to process committed block"):
		n.dead = true
		return "panic-apply"
	case strings.HasPrefix(s, "panic:"), strings.HasPrefix(s, "error:"), strings.HasPrefix(s, "other:"):
		n.dead = true
		return strings.ReplaceAll(s, " ", "_")
	}
	return s
}

func (n *v2node) op(op string) string {
	f := strings.Fields(op)
	m := kv(op)
	getp := func() (int64, bool) {
		v, err := strconv.ParseInt(m["p"], 10, 64)
		return v, err == nil && m["p"] != "" && v >= 0
	}
	ev := func(g func() string) string {
		if n.dead {
			return "dead"
		}
		return n.res(g())
	}
	switch f[0] {
	case "v2block":
		p, ok := getp()
		spec, ok2 := n.ch.parseBlockOp(m)
		if !ok || !ok2 || spec.malformed() {
			return "bad-op"
		}
		b := n.ch.build(spec)
		if idTok(blockIDOf(b)) != m["id"] || idTok(b.LastBlockID) != m["prev"] {
			return "desc-mismatch"
		}
		// what the reactor hands over: the block decoded from the wire
		pb, err := b.ToProto()
		if err != nil {
			return "proto-error"
		}
		wb, err := types.BlockFromProto(pb)
		if err != nil {
			return "rejected" // the reactor drops what does not decode; the processor never sees it
		}
		return ev(func() string { return n.pc.BlockReceived(pid(int(p)), wb) })
	case "v2nil":
		p, ok := getp()
		if !ok {
			return "bad-op"
		}
		return ev(func() string { return n.pc.BlockReceived(pid(int(p)), nil) })
	case "v2peererr":
		p, ok := getp()
		if !ok {
			return "bad-op"
		}
		return ev(func() string { return n.pc.PeerError(pid(int(p))) })
	case "v2finished":
		if len(f) != 1 {
			return "bad-op"
		}
		return ev(n.pc.Finished)
	case "v2process":
		if len(f) != 1 {
			return "bad-op"
		}
		return ev(n.pc.Process)
	case "v2store":
		if len(f) != 1 {
			return "bad-op"
		}
		return storeLine(n.ch, n.bs, n.pc.State())
	case "v2show":
		if len(f) != 1 {
			return "bad-op"
		}
		return fmt.Sprintf("q=%d draining=%v synced=%d dead=%v", n.pc.QueueLen(), n.pc.Draining(), n.syncedCount(), n.dead)
	}
	return "bad-op"
}

// syncedCount: blocks the processor counts as synced = executed heights
func (n *v2node) syncedCount() int64 {
	h := n.pc.State().LastBlockHeight
	if h == 0 {
		return 0
	}
	return h - n.ch.ih + 1
}

// ---- generators

func v2blockOp(ch *chain, p int, s blockSpec) string {
	return "v2" + ch.blockOp(p, s)
}

func genV2(r *rand.Rand, kind string) core.Case {
	io, ch := newConfig(r, []string{"none", "any", "rotate"}[r.Intn(3)])
	if kind != "v2-ih" && ch.ih != 1 {
		// (initial_height > 1 is its own kind: see the known finding)
		for ch.ih != 1 {
			io, ch = newConfig(r, []string{"none", "any", "rotate"}[r.Intn(3)])
		}
	}
	if kind == "v2-ih" {
		for ch.ih == 1 {
			io, ch = newConfig(r, "none")
		}
	}
	tip := ch.ih + int64(2+r.Intn(4))
	var ops []string
	add := func(f string, a ...interface{}) { ops = append(ops, fmt.Sprintf(f, a...)) }
	add("v2%s", io)
	switch kind {
	case "v2-sync", "v2-ih":
		for cur := ch.ih; cur < tip; cur++ {
			if kind == "v2-sync" && r.Intn(3) == 0 {
				// a liar's pair first
				L := 2 + r.Intn(2)
				first, second := ch.canon(cur), ch.canon(cur+1)
				switch r.Intn(4) {
				case 0:
					first.txv = 1
				case 1:
					second.toks = ch.sigPattern(r, sigKinds[r.Intn(len(sigKinds))], cur)
				case 2:
					first.txv, second.ttxv = 1, 1
					second.toks = ch.allSign(ch.ih)
					if ch.isQuorum(cur, second.toks) {
						second.toks = ch.sigPattern(r, "forged", cur)
					}
				case 3:
					second.lch++
				}
				pf, ps := L, L
				if r.Intn(2) == 0 {
					pf = 1
					first = ch.canon(cur)
				}
				// (the scheduler hands the processor one block per height)
				add("v2peererr p=1")
				add("v2peererr p=2")
				add("v2peererr p=3")
				ops = append(ops, v2blockOp(ch, pf, first), v2blockOp(ch, ps, second))
				add("v2process")
				add("v2show")
				// the scheduler reports the peers of a failed pair
				add("v2peererr p=%d", pf)
				add("v2peererr p=%d", ps)
			}
			add("v2peererr p=1")
			add("v2peererr p=2")
			add("v2peererr p=3")
			ops = append(ops, v2blockOp(ch, 1, ch.canon(cur)), v2blockOp(ch, 1, ch.canon(cur+1)))
			add("v2process")
		}
		add("v2finished")
		add("v2process")
		add("v2show")
		add("v2store")
	case "v2-byz":
		cur := ch.ih
		first, second := ch.canon(cur), ch.canon(cur+1)
		if r.Intn(2) == 0 {
			fk := 1 + r.Intn(5)
			first.flaw, second.tflaw = fk, fk
		} else {
			first.txv, second.ttxv = 1, 1
		}
		ops = append(ops, v2blockOp(ch, 2, first), v2blockOp(ch, 2, second))
		add("v2process")
		add("v2show")
		add("v2store")
		add("v2process")
	case "v2-soup":
		n := 15 + r.Intn(25)
		for i := 0; i < n; i++ {
			p := 1 + r.Intn(3)
			switch x := r.Intn(20); {
			case x < 10:
				h := ch.ih + int64(r.Intn(4))
				sp := ch.canon(h)
				switch r.Intn(6) {
				case 0:
					sp.txv = 1
				case 1:
					sp.flaw = 1 + r.Intn(5)
				case 2:
					if h > ch.ih {
						sp.toks = ch.sigPattern(r, sigKinds[r.Intn(len(sigKinds))], h-1)
					}
				case 3:
					sp.ttxv = 1
				}
				ops = append(ops, v2blockOp(ch, p, sp))
			case x < 11:
				add("v2nil p=%d", p)
			case x < 13:
				add("v2peererr p=%d", p)
			case x < 14:
				add("v2finished")
			case x < 18:
				add("v2process")
			default:
				add("v2show")
			}
		}
		add("v2process")
		add("v2store")
	}
	return core.Case{Kind: kind, ID: fmt.Sprintf("%s-T%d-n%d", kind, tip, len(ops)), Ops: ops}
}

// ---- oracle

func oracleV2(c core.Case, out []string) []core.Finding {
	var fs []core.Finding
	var set0 []pv
	ih := int64(1)
	offered := map[string]told{}
	lastStore := ""
	for i, op := range c.Ops {
		if i >= len(out) {
			break
		}
		f := strings.Fields(op)
		if len(f) == 0 {
			continue
		}
		m := kv(op)
		switch f[0] {
		case "v2init":
			if strings.HasPrefix(out[i], "ok") {
				set0 = parseSet(m["vals"])
				ih, _ = strconv.ParseInt(m["ih"], 10, 64)
			}
		case "v2block":
			lc := strings.Split(m["lc"], ":")
			h, _ := strconv.ParseInt(m["h"], 10, 64)
			if len(lc) == 4 {
				offered[m["id"]] = told{h: h, prev: m["prev"], flaw: m["flaw"] != "0", lcH: lc[0], lcID: lc[2], lcSigs: lc[3], nv: m["nv"]}
			}
		case "v2store":
			lastStore = out[i]
			sf, _, _ := checkStore("v2", out[i], set0, ih, offered)
			fs = append(fs, sf...)
		}
	}
	if c.Kind == "v2-sync" || c.Kind == "v2-ih" {
		tip, nops := int64(0), 0
		if p := strings.Split(c.ID, "-"); len(p) >= 3 {
			tip, _ = strconv.ParseInt(strings.TrimPrefix(p[len(p)-2], "T"), 10, 64)
			nops, _ = strconv.Atoi(strings.TrimPrefix(p[len(p)-1], "n"))
		}
		if tip > 0 && nops == len(c.Ops) && !strings.HasPrefix(lastStore, fmt.Sprintf("state=%d:", tip-1)) {
			fp := "v2.sync.tip-not-reached"
			desc := fmt.Sprintf("the honest peer delivered every pair, the v2 processor did not reach height %d: %s", tip-1, lastStore)
			if ih > 1 && strings.HasPrefix(lastStore, "state=0:") {
				fp = "v2.processor.stalls-when-initial-height-above-1"
				desc = fmt.Sprintf("genesis initial_height %d, empty store: pcState.height() is LastBlockHeight = 0, so nextTwo looks for heights 1 and 2 and never finds the chain's first blocks %d, %d although they are queued: nothing is ever processed (%s)", ih, ih, ih+1, lastStore)
			}
			fs = append(fs, core.Finding{Fingerprint: fp, Desc: desc})
		}
	}
	return fs
}
