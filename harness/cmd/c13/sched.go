package main

// blockchain/v2 scheduler stream: the real scheduler.handle driven by events.

import (
	"fmt"
	"math/rand"
	"strconv"
	"strings"

	v2 "github.com/tendermint/tendermint/blockchain/v2"
	"github.com/tendermint/tendermint/types"

	"verifharness/core"
)

type scnode struct {
	sc   *v2.VerifScheduler
	dead bool
}

func (n *scnode) op(op string) string {
	f := strings.Fields(op)
	m := kv(op)
	geti := func(k string) (int64, bool) {
		v, err := strconv.ParseInt(m[k], 10, 64)
		return v, err == nil && m[k] != ""
	}
	getp := func(k string) (string, bool) {
		v, ok := geti(k)
		return strconv.FormatInt(v, 10), ok && v >= 0
	}
	ev := func(g func() string) string {
		if n.dead {
			return "dead"
		}
		s := g()
		if strings.HasPrefix(s, "panic:") {
			n.dead = true
			return "panic"
		}
		return s
	}
	switch f[0] {
	case "scstatus":
		p, ok := getp("p")
		b, ok2 := geti("base")
		h, ok3 := geti("height")
		if !ok || !ok2 || !ok3 {
			return "bad-op"
		}
		return ev(func() string { return n.sc.StatusResponse(pidS(p), b, h) })
	case "scblock":
		p, ok := getp("p")
		h, ok2 := geti("h")
		t, ok3 := geti("t")
		if !ok || !ok2 || !ok3 {
			return "bad-op"
		}
		blk := types.MakeBlock(h, nil, nil, nil)
		return ev(func() string { return n.sc.BlockResponse(pidS(p), blk, t) })
	case "scnoblock":
		p, ok := getp("p")
		if !ok {
			return "bad-op"
		}
		return ev(func() string { return n.sc.NoBlockResponse(pidS(p), 0) })
	case "scsched":
		t, ok := geti("t")
		if !ok {
			return "bad-op"
		}
		return ev(func() string { return n.sc.TrySchedule(t) })
	case "scadd":
		p, ok := getp("p")
		if !ok {
			return "bad-op"
		}
		return ev(func() string { return n.sc.AddNewPeer(pidS(p)) })
	case "scremove":
		p, ok := getp("p")
		if !ok {
			return "bad-op"
		}
		return ev(func() string { return n.sc.RemovePeer(pidS(p)) })
	case "scprune":
		t, ok := geti("t")
		if !ok {
			return "bad-op"
		}
		return ev(func() string { return n.sc.TryPrune(t) })
	case "scprocessed":
		h, ok := geti("h")
		if !ok {
			return "bad-op"
		}
		return ev(func() string { return n.sc.BlockProcessed(h, "") })
	case "scerror":
		a, ok := getp("p1")
		b, ok2 := getp("p2")
		if !ok || !ok2 {
			return "bad-op"
		}
		return ev(func() string { return n.sc.ProcessError(0, pidS(a), pidS(b)) })
	case "scshow":
		if len(f) != 1 {
			return "bad-op"
		}
		w := n.sc.View()
		return fmt.Sprintf("h=%d peers=%s states=%s pending=%s received=%s", w.Height, listStr(w.Peers), listStr(w.States),
			listStr(w.Pending), listStr(w.Received))
	}
	return "bad-op"
}

// ---- generators (event times: seconds relative to now; -1000.. = long ago, never near ±15)

func genSched(r *rand.Rand, kind string) core.Case {
	var ops []string
	add := func(f string, a ...interface{}) { ops = append(ops, fmt.Sprintf(f, a...)) }
	h0 := []int64{1, 1, 10, 1000}[r.Intn(4)]
	tip := h0 + int64(3+r.Intn(4))
	add("scinit h=%d", h0)
	switch kind {
	case "sc-sync":
		// one honest peer (1) and a liar (2); the processor's verdicts are scripted
		add("scadd p=1")
		add("scstatus p=1 base=%d height=%d", h0, tip)
		withLiar := r.Intn(2) == 0
		if withLiar {
			add("scadd p=2")
			add("scstatus p=2 base=%d height=%d", h0, tip)
		}
		t := int64(-900)
		for i := int64(0); i <= tip-h0; i++ {
			add("scsched t=%d", t)
			t++
		}
		add("scshow")
		if withLiar {
			// the liar's block was paired with the honest peer's: the processor reports both
			add("scerror p1=1 p2=2")
			add("scshow")
			// both reconnect and report again
			add("scadd p=1")
			add("scstatus p=1 base=%d height=%d", h0, tip)
			for i := int64(0); i <= tip-h0; i++ {
				add("scsched t=%d", t)
				t++
			}
			add("scshow")
		}
		for h := h0; h <= tip; h++ {
			add("scblock p=1 h=%d t=%d", h, t)
			t++
		}
		for h := h0; h < tip; h++ {
			add("scprocessed h=%d", h)
		}
		add("scshow")
	case "sc-soup":
		n := 25 + r.Intn(40)
		for i := 0; i < n; i++ {
			p := 1 + r.Intn(3)
			h := h0 + int64(r.Intn(6))
			t := int64(-1000 + r.Intn(900))
			if r.Intn(4) == 0 {
				t = int64(100 + r.Intn(900))
			}
			switch x := r.Intn(22); {
			case x < 4:
				add("scstatus p=%d base=%d height=%d", p, h0-int64(r.Intn(2)), h0-1+int64(r.Intn(8)))
			case x < 9:
				add("scsched t=%d", t)
			case x < 13:
				add("scblock p=%d h=%d t=%d", p, h, t)
			case x < 14:
				add("scnoblock p=%d", p)
			case x < 15:
				add("scadd p=%d", p)
			case x < 16:
				add("scremove p=%d", p)
			case x < 17:
				add("scprune t=%d", t)
			case x < 19:
				add("scprocessed h=%d", h0+int64(r.Intn(3)))
			case x < 20:
				add("scerror p1=%d p2=%d", p, 1+r.Intn(3))
			default:
				add("scshow")
			}
		}
		add("scshow")
	}
	return core.Case{Kind: kind, ID: fmt.Sprintf("%s-T%d-n%d", kind, tip, len(ops)), Ops: ops}
}

// ---- oracle

func oracleSched(c core.Case, out []string) []core.Finding {
	var fs []core.Finding
	asked := map[string]string{} // height -> peer last asked
	var dropped []string         // peers that must be gone at the next observation
	reReported := map[string]bool{}
	known := map[string]bool{}
	got := map[string]bool{}
	cur := int64(0)
	removedSeen := map[string]bool{}
	lastShow := ""
	for i, op := range c.Ops {
		if i >= len(out) {
			break
		}
		f := strings.Fields(op)
		if len(f) == 0 {
			continue
		}
		m := kv(op)
		switch f[0] {
		case "scsched":
			if strings.HasPrefix(out[i], "block-request") {
				mm := kv("x " + out[i])
				asked[mm["h"]] = mm["p"]
			}
		case "scblock":
			if strings.HasPrefix(out[i], "block-received") && asked[m["h"]] != m["p"] {
				fs = append(fs, core.Finding{Fingerprint: "v2.scheduler.unrequested-block-accepted",
					Desc: fmt.Sprintf("block %s from peer %s was passed on although height %s was last requested from %q", m["h"], m["p"], m["h"], asked[m["h"]])})
			}
			if strings.HasPrefix(out[i], "peer-error") {
				dropped = append(dropped, m["p"])
			}
			if strings.HasPrefix(out[i], "block-received") {
				delete(asked, m["h"])
				got[m["h"]] = true
			}
		case "scinit":
			cur, _ = strconv.ParseInt(m["h"], 10, 64)
		case "scprocessed":
			// the processor can only have processed a height whose block and successor it was given
			if h, err := strconv.ParseInt(m["h"], 10, 64); err == nil && h == cur && got[m["h"]] && got[strconv.FormatInt(h+1, 10)] {
				cur++
			}
		case "scerror":
			if out[i] == "finished" && c.Kind == "sc-sync" {
				fs = append(fs, core.Finding{Fingerprint: "v2.scheduler.finished-when-no-ready-peer-remains",
					Desc: fmt.Sprintf("pcBlockVerificationFailure removed the two delivering peers; allBlocksProcessed() counts removed peers in len(sc.peers) and maxHeight() falls back to height-1 when no peer is Ready, so the scheduler emits scFinishedEv (\"error on last block\") at height %d: block sync ends and the node switches to consensus far below the tip", cur)})
			}
			if out[i] != "dead" {
				for _, p := range []string{m["p1"], m["p2"]} {
					if known[p] {
						dropped = append(dropped, p)
					}
				}
			}
		case "scadd":
			if out[i] != "dead" {
				known[m["p"]] = true
			}
		case "scstatus":
			if out[i] != "dead" {
				known[m["p"]] = true
			}
			if removedSeen[m["p"]] {
				reReported[m["p"]] = true
			}
		case "scshow":
			lastShow = out[i]
			mm := kv("x " + out[i])
			for _, e := range strings.Split(mm["peers"], ",") {
				p := strings.Split(e, ":")
				if len(p) == 4 && p[1] == "Removed" {
					removedSeen[p[0]] = true
				}
			}
			for _, d := range dropped {
				for _, e := range strings.Split(mm["peers"], ",") {
					p := strings.Split(e, ":")
					if len(p) == 4 && p[0] == d && p[1] == "Ready" {
						fs = append(fs, core.Finding{Fingerprint: "v2.scheduler.bad-peer-not-removed",
							Desc: fmt.Sprintf("peer %s delivered a bad / unrequested block and is still Ready: %s", d, out[i])})
					}
				}
				for _, key := range []string{"pending", "received"} {
					for _, e := range strings.Split(mm[key], ",") {
						if p := strings.Split(e, ":"); len(p) == 2 && p[1] == d {
							fs = append(fs, core.Finding{Fingerprint: "v2.scheduler.request-not-retried-after-peer-removed",
								Desc: fmt.Sprintf("height %s is still assigned to removed peer %s: %s", p[0], d, out[i])})
						}
					}
				}
			}
			dropped = nil
		}
	}
	if c.Kind == "sc-sync" {
		tip, nops := int64(0), 0
		if p := strings.Split(c.ID, "-"); len(p) >= 3 {
			tip, _ = strconv.ParseInt(strings.TrimPrefix(p[len(p)-2], "T"), 10, 64)
			nops, _ = strconv.Atoi(strings.TrimPrefix(p[len(p)-1], "n"))
		}
		if tip > 0 && nops == len(c.Ops) && cur != tip {
			fp := "v2.scheduler.tip-not-reached"
			desc := "the honest peer answered every request and every block was processed, the scheduler is not at the tip: " + lastShow
			if reReported["1"] && strings.Contains(lastShow, "1:Removed:") {
				fp = "v2.scheduler.removed-peer-never-readmitted"
				desc = "peerStateRemoved is final: the honest peer was removed together with the liar whose block was paired with its own (pcBlockVerificationFailure names both), reconnected and reported its status again — ensurePeer finds the old entry and setPeerRange is a no-op for a Removed peer — so no height can be scheduled any more and the node never reaches the tip (" + lastShow + ")"
			}
			fs = append(fs, core.Finding{Fingerprint: fp, Desc: desc})
		}
	}
	return fs
}
