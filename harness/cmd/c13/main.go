// C13 correspondence stream: the real blockchain/v0 reactor + pool (and the real
// consensus.State.reconstructLastCommit for the hand-over) driven synchronously from op lines,
// against the Lean model Tmv.BlockSync. Each `process` op runs the real poolRoutine until it has
// nothing more to do; the requester goroutine's transitions are separate ops (build-tag hooks).
package main

import (
	"fmt"
	"os"
	"path/filepath"
	"sort"
	"strconv"
	"strings"
	"sync"
	"time"

	dbm "github.com/tendermint/tm-db"

	v0 "github.com/tendermint/tendermint/blockchain/v0"
	v2 "github.com/tendermint/tendermint/blockchain/v2"
	cfg "github.com/tendermint/tendermint/config"
	"github.com/tendermint/tendermint/consensus"
	"github.com/tendermint/tendermint/crypto/ed25519"
	"github.com/tendermint/tendermint/evidence"
	"github.com/tendermint/tendermint/libs/log"
	mpmock "github.com/tendermint/tendermint/mempool/mock"
	"github.com/tendermint/tendermint/p2p"
	p2pmock "github.com/tendermint/tendermint/p2p/mock"
	bcproto "github.com/tendermint/tendermint/proto/tendermint/blockchain"
	"github.com/tendermint/tendermint/proxy"
	sm "github.com/tendermint/tendermint/state"
	"github.com/tendermint/tendermint/store"
	"github.com/tendermint/tendermint/types"

	"verifharness/core"
)

// ---------------------------------------------------------------------------------------------
// the syncing node

type capLogger struct {
	mtx  sync.Mutex
	errs []string
}

func (l *capLogger) Debug(string, ...interface{}) {}
func (l *capLogger) Info(string, ...interface{})  {}
func (l *capLogger) Error(msg string, kv ...interface{}) {
	if msg != "Error in validation" {
		return
	}
	l.mtx.Lock()
	defer l.mtx.Unlock()
	for i := 0; i+1 < len(kv); i += 2 {
		if kv[i] == "err" {
			l.errs = append(l.errs, fmt.Sprint(kv[i+1]))
			return
		}
	}
	l.errs = append(l.errs, "?")
}
func (l *capLogger) With(...interface{}) log.Logger { return l }
func (l *capLogger) count() int {
	l.mtx.Lock()
	defer l.mtx.Unlock()
	return len(l.errs)
}

type hpeer struct {
	*p2pmock.Peer
	id p2p.ID
}

func (p *hpeer) ID() p2p.ID { return p.id }

type node struct {
	ch    *chain
	bcR   *v0.BlockchainReactor
	pool  *v0.BlockPool
	sw    *p2p.Switch
	ss    sm.Store
	bs    *store.BlockStore
	pa    proxy.AppConns
	cs    *consensus.State
	be    *sm.BlockExecutor
	evp   *evidence.Pool
	lg    *capLogger
	peers []*hpeer
}

var setTimeoutOnce sync.Once

func newSwitch() *p2p.Switch {
	c := cfg.DefaultP2PConfig()
	nk := p2p.NodeKey{PrivKey: ed25519.GenPrivKeyFromSecret([]byte("c13-node"))}
	ni := p2p.DefaultNodeInfo{DefaultNodeID: nk.ID(), ListenAddr: "127.0.0.1:1", Network: chainID, Version: "1", Moniker: "c13"}
	t := p2p.NewMultiplexTransport(ni, nk, p2p.MConnConfig(c))
	return p2p.NewSwitch(c, t)
}

func newNode(ch *chain) (*node, error) {
	setTimeoutOnce.Do(func() { v0.VerifSetPeerTimeout(time.Hour) })
	n := &node{ch: ch, lg: &capLogger{}}
	state := ch.states[ch.ih-1].Copy()
	n.ss = sm.NewStore(dbm.NewMemDB(), sm.StoreOptions{})
	if err := n.ss.Save(state); err != nil {
		return nil, err
	}
	n.bs = store.NewBlockStore(dbm.NewMemDB())
	n.pa = proxy.NewAppConns(proxy.NewLocalClientCreator(&syncApp{}))
	if err := n.pa.Start(); err != nil {
		return nil, err
	}
	// a real evidence pool on the node's own stores: ValidateBlock asks it about block evidence
	var err error
	if n.evp, err = evidence.NewPool(dbm.NewMemDB(), n.ss, n.bs); err != nil {
		return nil, err
	}
	n.be = sm.NewBlockExecutor(n.ss, log.NewNopLogger(), n.pa.Consensus(), mpmock.Mempool{}, n.evp)
	n.cs = consensus.NewState(cfg.DefaultConsensusConfig(), state.Copy(), n.be, n.bs, mpmock.Mempool{}, n.evp)
	n.reactor(state)
	return n, nil
}

// switchToConsensus is the hand-over as the node does it: a consensus State created at start-up
// (genesis state) behind a real consensus Reactor, whose SwitchToConsensus(state) reconstructs
// the last commit, updates to the synced state and starts consensus. Returns "ok" when consensus
// runs with a LastCommit that verifies against state.LastValidators.
func (n *node) switchToConsensus(state sm.State) (res string) {
	dir, err := os.MkdirTemp("", "c13-wal")
	if err != nil {
		return "tmp-error"
	}
	defer os.RemoveAll(dir)
	ccfg := cfg.DefaultConsensusConfig()
	ccfg.RootDir = dir
	ccfg.WalPath = filepath.Join("data", "cs.wal", "wal")
	cs := consensus.NewState(ccfg, n.ch.states[n.ch.ih-1].Copy(), n.be, n.bs, mpmock.Mempool{}, n.evp)
	eb := types.NewEventBus()
	if err := eb.Start(); err != nil {
		return "eventbus-error"
	}
	defer eb.Stop() //nolint:errcheck
	cs.SetEventBus(eb)
	conR := consensus.NewReactor(cs, true)
	conR.SetEventBus(eb)
	started := false
	defer func() {
		if r := recover(); r != nil {
			res = classifyHandover(fmt.Sprint(r))
		}
		if started || cs.IsRunning() {
			_ = cs.Stop()
			cs.Wait()
		}
	}()
	conR.SwitchToConsensus(state, true)
	started = true
	rs := cs.GetRoundState()
	if state.LastBlockHeight > 0 {
		if rs.LastCommit == nil || !rs.LastCommit.HasTwoThirdsMajority() {
			return "ok-but-no-lastcommit"
		}
		c := rs.LastCommit.MakeCommit()
		if err := state.LastValidators.VerifyCommit(chainID, c.BlockID, state.LastBlockHeight, c); err != nil {
			return "ok-but-lastcommit-invalid"
		}
	}
	return "ok"
}

// reactor builds reactor, pool and switch on the node's stores (what node start-up does)
func (n *node) reactor(state sm.State) {
	n.bcR = v0.NewBlockchainReactor(state.Copy(), n.be, n.bs, false)
	n.bcR.SetLogger(n.lg)
	v0.VerifSyncMode(n.bcR)
	n.pool = v0.VerifPool(n.bcR)
	n.sw = newSwitch()
	n.sw.AddReactor("BLOCKCHAIN", n.bcR)
}

// restart: the process comes up again on the same stores. consensus.NewState reconstructs the
// last commit first (a panic aborts start-up); the ABCI handshake is a no-op here (the
// application kept its state).
func (n *node) restart() string {
	state, err := n.ss.Load()
	if err != nil {
		return "state-error"
	}
	msg := ""
	var cs *consensus.State
	func() {
		defer func() {
			if r := recover(); r != nil {
				msg = fmt.Sprint(r)
			}
		}()
		cs = consensus.NewState(cfg.DefaultConsensusConfig(), state.Copy(), n.be, n.bs, mpmock.Mempool{}, n.evp)
	}()
	if msg != "" {
		return classifyHandover(msg) + n.tipQ(state)
	}
	n.stopNet()
	n.cs = cs
	n.reactor(state)
	return fmt.Sprintf("ok h=%d", n.pool.VerifView().Height)
}

// tipQ: does the stored seen commit of the state's last block carry real for-block signatures of
// more than 2/3 of LastValidators (independent check with the public keys)?
func (n *node) tipQ(state sm.State) string {
	sc := n.bs.LoadSeenCommit(state.LastBlockHeight)
	vs := state.LastValidators
	ok := false
	if sc != nil && vs != nil && len(sc.Signatures) == len(vs.Validators) {
		var got int64
		for i, v := range vs.Validators {
			s := sc.Signatures[i]
			if s.ForBlock() && v.PubKey.VerifySignature(sc.VoteSignBytes(chainID, int32(i)), s.Signature) {
				got += v.VotingPower
			}
		}
		ok = 3*got > 2*vs.TotalVotingPower()
	}
	clean := sc != nil && vs != nil && len(sc.Signatures) == len(vs.Validators)
	if clean {
		for i, v := range vs.Validators {
			s := sc.Signatures[i]
			if s.Absent() {
				continue
			}
			if string(s.ValidatorAddress) != string(v.Address) || !v.PubKey.VerifySignature(sc.VoteSignBytes(chainID, int32(i)), s.Signature) {
				clean = false
			}
		}
	}
	return fmt.Sprintf(" tipq=%v tipclean=%v", ok, clean)
}

func (n *node) stopNet() {
	for _, p := range n.pool.VerifView().Peers {
		n.pool.RemovePeer(p.ID)
	}
	_ = n.pool.Stop()
	for _, p := range n.peers {
		_ = p.Stop()
	}
	n.peers = nil
}

func (n *node) close() {
	n.stopNet()
	_ = n.pa.Stop()
}

// storedHeight: height of the last stored block (initial height - 1 for an empty store)
func (n *node) storedHeight() int64 {
	if h := n.bs.Height(); h > 0 {
		return h
	}
	return n.ch.ih - 1
}

func pidS(s string) p2p.ID { return p2p.ID(s) }

func pid(i int) p2p.ID { return p2p.ID(strconv.Itoa(i)) }

func (n *node) connectedIDs() []string {
	var ids []string
	for _, p := range n.sw.Peers().List() {
		ids = append(ids, string(p.ID()))
	}
	sort.Strings(ids)
	return ids
}

func listStr(l []string) string {
	if len(l) == 0 {
		return "-"
	}
	return strings.Join(l, ",")
}

// drain does what poolRoutine's helper goroutine does with errorsCh (requests are dropped: the
// scripted peers answer when the op sequence says so).
func (n *node) drain() {
	_, errs := v0.VerifDrain(n.bcR)
	for _, e := range errs {
		if p := n.sw.Peers().Get(e.PeerID); p != nil {
			n.sw.StopPeerForError(p, e.Err)
		}
	}
}

func classifyErr(s string) string {
	switch {
	case strings.Contains(s, "wrong set size"):
		return "size"
	case strings.Contains(s, "Invalid commit -- wrong height"):
		return "height"
	case strings.Contains(s, "wrong block ID"):
		return "blockid"
	case strings.Contains(s, "wrong signature (#"):
		i := strings.Index(s, "(#")
		j := strings.Index(s[i:], ")")
		return "sig" + s[i+2:i+j]
	case strings.Contains(s, "insufficient voting power"):
		return "power"
	case strings.Contains(s, "wrong Block.Header.Height"):
		return "v-height"
	case strings.Contains(s, "wrong Block.Header.LastBlockID"):
		return "v-lastblockid"
	case strings.Contains(s, "wrong Block.Header.AppHash"), strings.Contains(s, "wrong Block.Header.ConsensusHash"),
		strings.Contains(s, "wrong Block.Header.LastResultsHash"), strings.Contains(s, "wrong Block.Header.ValidatorsHash"),
		strings.Contains(s, "block time"), strings.Contains(s, "vidence"), strings.Contains(s, "don't have header"), strings.Contains(s, "was not a validator at height"):
		return "v-flaw"
	case strings.Contains(s, "initial block can't have LastCommit"):
		return "v-initialcommit"
	}
	return "other:" + strings.ReplaceAll(s, " ", "_")
}

func classifyHandover(msg string) string {
	switch {
	case msg == "":
		return "ok"
	case strings.Contains(msg, "seen commit for height"):
		return "panic-noseen"
	case strings.Contains(msg, "does not have +2/3"):
		return "panic-nomaj"
	case strings.Contains(msg, "cannot find validator"):
		return "panic-index"
	case strings.Contains(msg, "does not match address"), strings.Contains(msg, "invalid validator address"):
		return "panic-addr"
	case strings.Contains(msg, "invalid signature"):
		return "panic-sig"
	}
	return "panic-other:" + strings.ReplaceAll(msg, " ", "_")
}

func (n *node) recv(p *hpeer, msg interface{}) (panicked bool) {
	defer func() {
		if r := recover(); r != nil {
			panicked = true
		}
	}()
	switch m := msg.(type) {
	case *bcproto.BlockResponse:
		n.bcR.ReceiveEnvelope(p2p.Envelope{Src: p, ChannelID: v0.BlockchainChannel, Message: m})
	case *bcproto.StatusResponse:
		n.bcR.ReceiveEnvelope(p2p.Envelope{Src: p, ChannelID: v0.BlockchainChannel, Message: m})
	}
	return false
}

func (n *node) op(op string) string {
	f := strings.Fields(op)
	m := kv(op)
	geti := func(k string) (int64, bool) {
		v, err := strconv.ParseInt(m[k], 10, 64)
		return v, err == nil && m[k] != ""
	}
	switch f[0] {
	case "connect":
		p, ok := geti("p")
		if !ok || p < 0 {
			return "bad-op"
		}
		if n.sw.Peers().Has(pid(int(p))) {
			return "dup"
		}
		hp := &hpeer{Peer: p2pmock.NewPeer(nil), id: pid(int(p))}
		n.peers = append(n.peers, hp)
		p2p.AddPeerToSwitchPeerSet(n.sw, hp)
		n.bcR.AddPeer(hp)
		return "ok"
	case "disconnect":
		p, ok := geti("p")
		if !ok || p < 0 {
			return "bad-op"
		}
		peer := n.sw.Peers().Get(pid(int(p)))
		if peer == nil {
			return "not-connected"
		}
		n.sw.StopPeerGracefully(peer)
		return "ok"
	case "status":
		p, ok1 := geti("p")
		b, ok2 := geti("base")
		h, ok3 := geti("height")
		if !ok1 || !ok2 || !ok3 || p < 0 {
			return "bad-op"
		}
		peer := n.sw.Peers().Get(pid(int(p)))
		if peer == nil {
			return "not-connected"
		}
		n.recv(peer.(*hpeer), &bcproto.StatusResponse{Base: b, Height: h})
		n.drain()
		if !n.sw.Peers().Has(pid(int(p))) {
			return "stopped"
		}
		return "ok"
	case "mkreq":
		if len(f) != 1 {
			return "bad-op"
		}
		return fmt.Sprintf("reqs=%d", n.pool.VerifMakeNextRequester())
	case "pick":
		h, ok1 := geti("h")
		p, ok2 := geti("p")
		if !ok1 || !ok2 || p < 0 {
			return "bad-op"
		}
		r := n.pool.VerifPick(h, pid(int(p)))
		n.drain()
		return r
	case "block":
		p, ok := geti("p")
		spec, ok2 := n.ch.parseBlockOp(m)
		if !ok || !ok2 || p < 0 {
			return "bad-op"
		}
		peer := n.sw.Peers().Get(pid(int(p)))
		if peer == nil {
			return "not-connected"
		}
		b := n.ch.build(spec)
		if !spec.malformed() && (idTok(blockIDOf(b)) != m["id"] || idTok(b.LastBlockID) != m["prev"]) {
			return "desc-mismatch"
		}
		pb, err := b.ToProto()
		if err != nil {
			return "proto-error"
		}
		before := n.pool.VerifView()
		panicked := n.recv(peer.(*hpeer), &bcproto.BlockResponse{Block: pb})
		if panicked {
			// the connection's recover stops the peer for error
			n.sw.StopPeerForError(peer, "panic in Receive")
			n.drain()
			return "added-panic"
		}
		_, errs := v0.VerifDrain(n.bcR)
		res := ""
		for _, e := range errs {
			switch {
			case strings.Contains(e.Err.Error(), "too far ahead/behind"):
				res = "unexpected-far"
			case strings.Contains(e.Err.Error(), "invalid peer"):
				res = "invalid-peer"
			}
			if q := n.sw.Peers().Get(e.PeerID); q != nil {
				n.sw.StopPeerForError(q, e.Err)
			}
		}
		if res != "" {
			return res
		}
		if !n.sw.Peers().Has(pid(int(p))) {
			return "stopped"
		}
		after := n.pool.VerifView()
		if after.NumPending == before.NumPending-1 {
			return "added"
		}
		return "unexpected"
	case "rstep":
		h, ok := geti("h")
		if !ok {
			return "bad-op"
		}
		return n.pool.VerifRStep(h)
	case "rtimeout":
		h, ok := geti("h")
		if !ok {
			return "bad-op"
		}
		return n.pool.VerifRTimeout(h)
	case "timeout":
		p, ok := geti("p")
		if !ok || p < 0 {
			return "bad-op"
		}
		if !n.pool.VerifPeerTimeout(pid(int(p))) {
			return "nopeer"
		}
		n.drain()
		return "ok"
	case "process":
		if len(f) != 1 {
			return "bad-op"
		}
		n.drain()
		state, err := n.ss.Load()
		if err != nil {
			return "state-error"
		}
		h0 := n.storedHeight()
		e0 := n.lg.count()
		conn0 := n.connectedIDs()
		until := func() bool {
			a, b := n.pool.PeekTwoBlocks()
			if a == nil || b == nil {
				return true
			}
			return n.lg.count() > e0
		}
		timedOut, panicked := v0.VerifRunPoolRoutineP(n.bcR, state, until, 800*time.Millisecond)
		if panicked != "" {
			// in a node this takes the process down; the stores keep what was written before
			if strings.Contains(panicked, "Failed to process committed block") {
				return "panic-apply"
			}
			return "panic:" + strings.ReplaceAll(panicked, " ", "_")
		}
		if timedOut {
			return "process-timeout"
		}
		n.drain()
		errTok := "-"
		n.lg.mtx.Lock()
		if len(n.lg.errs) > e0 {
			errTok = classifyErr(n.lg.errs[e0])
		}
		n.lg.mtx.Unlock()
		now := map[string]bool{}
		for _, id := range n.connectedIDs() {
			now[id] = true
		}
		var stopped []string
		for _, id := range conn0 {
			if !now[id] {
				stopped = append(stopped, id)
			}
		}
		view := n.pool.VerifView()
		pair := "-/-"
		if errTok != "-" {
			a, b := "-", "-"
			for _, r := range view.Reqs {
				if r.Height == view.Height && r.Peer != "" {
					a = string(r.Peer)
				}
				if r.Height == view.Height+1 && r.Peer != "" {
					b = string(r.Peer)
				}
			}
			pair = a + "/" + b
		}
		return fmt.Sprintf("saved=%d err=%s pair=%s stopped=%s h=%d", n.storedHeight()-h0, errTok, pair, listStr(stopped), view.Height)
	case "peek":
		a, b := n.pool.PeekTwoBlocks()
		s := func(x *types.Block) string {
			if x == nil {
				return "-"
			}
			return idTok(blockIDOf(x))
		}
		return fmt.Sprintf("first=%s second=%s", s(a), s(b))
	case "show":
		v := n.pool.VerifView()
		var rs, ps []string
		for _, r := range v.Reqs {
			peer, blk := "-", "-"
			if r.Peer != "" {
				peer = string(r.Peer)
			}
			if r.Hash != nil {
				blk = tok32(r.Hash) + "/" + tok32(r.PSHash)
			}
			rs = append(rs, fmt.Sprintf("%d:%s:%s", r.Height, peer, blk))
		}
		for _, p := range v.Peers {
			ps = append(ps, fmt.Sprintf("%s:%d:%d:%d", p.ID, p.Base, p.Height, p.NumPending))
		}
		return fmt.Sprintf("h=%d pending=%d reqs=%s max=%d caught=%v peers=%s conn=%s", v.Height, v.NumPending, listStr(rs),
			v.MaxPeerHeight, n.pool.IsCaughtUp(), listStr(ps), listStr(n.connectedIDs()))
	case "store":
		state, err := n.ss.Load()
		if err != nil {
			return "state-error"
		}
		var bl []string
		for h := n.ch.ih; h <= n.bs.Height(); h++ {
			b := n.bs.LoadBlock(h)
			sc := n.bs.LoadSeenCommit(h)
			if b == nil || sc == nil {
				bl = append(bl, fmt.Sprintf("%d:missing", h))
				continue
			}
			bl = append(bl, fmt.Sprintf("%d:%s:%s:%s", h, idTok(blockIDOf(b)), idTok(sc.BlockID), commitToks(sc)))
		}
		_ = bl
		return storeLine(n.ch, n.bs, state)
	case "restart":
		if len(f) != 1 {
			return "bad-op"
		}
		return n.restart()
	case "handover":
		if !n.pool.IsCaughtUp() {
			return "not-caught-up"
		}
		state, err := n.ss.Load()
		if err != nil {
			return "state-error"
		}
		r := n.switchToConsensus(state)
		if strings.HasPrefix(r, "panic-") {
			r += n.tipQ(state)
		}
		return r
	}
	return "bad-op"
}

func dashIfEmpty(l []string) string {
	if len(l) == 0 {
		return "-"
	}
	return ""
}

// execCase runs the case; with C13_SELFCHECK=1 it runs it twice and reports nondeterminism of the
// harness itself on stderr (debugging aid).
func execCase(c core.Case) []string {
	out := execOnce(c)
	if os.Getenv("C13_SELFCHECK") != "" {
		again := execOnce(c)
		for i := range out {
			if i < len(again) && out[i] != again[i] {
				fmt.Fprintf(os.Stderr, "NONDETERMINISTIC case %s op %d %q: %q vs %q\n", c.ID, i, c.Ops[i], out[i], again[i])
				break
			}
		}
	}
	return out
}

func execOnce(c core.Case) []string {
	out := make([]string, 0, len(c.Ops))
	var n *node
	var n2 *v2node
	var n1 *v1node
	var nsc *scnode
	defer func() {
		if n1 != nil {
			n1.close()
		}
		if n != nil {
			n.close()
		}
		if n2 != nil {
			n2.close()
		}
	}()
	for _, op := range c.Ops {
		f := strings.Fields(op)
		if len(f) == 0 {
			out = append(out, "bad-op")
			continue
		}
		if strings.HasPrefix(f[0], "sc") {
			if f[0] == "scinit" {
				h, err := strconv.ParseInt(kv(op)["h"], 10, 64)
				if err != nil {
					out = append(out, "bad-op")
					continue
				}
				nsc = &scnode{sc: v2.NewVerifScheduler(h)}
				out = append(out, "ok")
				continue
			}
			if nsc == nil {
				out = append(out, "bad-op")
				continue
			}
			out = append(out, nsc.op(op))
			continue
		}
		if strings.HasPrefix(f[0], "v1") {
			if f[0] == "v1init" {
				m := kv(op)
				ch, err := getChain(m["vals"], m["ih"], m["upd"])
				if err != nil {
					out = append(out, "bad-op")
					continue
				}
				if n1 != nil {
					n1.close()
				}
				if n1, err = newV1(ch); err != nil {
					out = append(out, "init-error")
					n1 = nil
					continue
				}
				out = append(out, fmt.Sprintf("ok h=%d", n1.r.View().Height))
				continue
			}
			if n1 == nil {
				out = append(out, "bad-op")
				continue
			}
			out = append(out, n1.op(op))
			continue
		}
		if strings.HasPrefix(f[0], "v2") {
			if f[0] == "v2init" {
				m := kv(op)
				ch, err := getChain(m["vals"], m["ih"], m["upd"])
				if err != nil {
					out = append(out, "bad-op")
					continue
				}
				if n2 != nil {
					n2.close()
				}
				if n2, err = newV2(ch); err != nil {
					out = append(out, "init-error")
					n2 = nil
					continue
				}
				out = append(out, fmt.Sprintf("ok h=%d", n2.pc.State().LastBlockHeight))
				continue
			}
			if n2 == nil {
				out = append(out, "bad-op")
				continue
			}
			out = append(out, n2.op(op))
			continue
		}
		if f[0] == "init" {
			m := kv(op)
			ch, err := getChain(m["vals"], m["ih"], m["upd"])
			if err != nil {
				out = append(out, "bad-op")
				continue
			}
			if n != nil {
				n.close()
			}
			n, err = newNode(ch)
			if err != nil {
				out = append(out, "init-error")
				n = nil
				continue
			}
			out = append(out, fmt.Sprintf("ok h=%d", n.pool.VerifView().Height))
			continue
		}
		if n == nil {
			out = append(out, "bad-op")
			continue
		}
		out = append(out, n.op(op))
	}
	return out
}

func main() {
	core.Main(core.Prop{
		ID:         "C13",
		Driver:     "c13",
		Gen:        gen,
		Exec:       execCase,
		Oracle:     oracle,
		NonTrivial: nonTrivial,
		Parallel:   4,
		Rule: "every block in the syncing node's store has a seen commit for exactly its id with valid signatures of >2/3 of the validator set and is a block that passes validation on its predecessor; " +
			"a failed verification removes both delivering peers from pool and switch; hand-over (reconstructLastCommit) does not panic; scripted honest retry reaches tip-1",
		Assumptions: []string{
			"the requester goroutine is represented by its three transitions (pick / redo read / retry timer) through build-tag hooks that call the real sub-functions; the processing branch is the real poolRoutine",
			"the application is a counting app whose val:<key>!<power> transactions update the validator set (canonical chain built by the real BlockExecutor)",
			"block ids compared by 32-bit prefixes of hash and part-set-header hash",
		},
		Extra: extra,
	})
}
