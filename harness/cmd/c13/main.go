// C13 correspondence stream: the real blockchain/v0 reactor + pool (and the real
// consensus.State.reconstructLastCommit for the hand-over) driven synchronously from op lines,
// against the Lean model Tmv.BlockSync. Each `process` op runs the real poolRoutine until it has
// nothing more to do; the requester goroutine's transitions are separate ops (build-tag hooks).
package main

import (
	"fmt"
	"os"
	"sort"
	"strconv"
	"strings"
	"sync"
	"time"

	dbm "github.com/tendermint/tm-db"

	"github.com/tendermint/tendermint/abci/example/kvstore"
	v0 "github.com/tendermint/tendermint/blockchain/v0"
	cfg "github.com/tendermint/tendermint/config"
	"github.com/tendermint/tendermint/consensus"
	"github.com/tendermint/tendermint/crypto"
	"github.com/tendermint/tendermint/crypto/ed25519"
	"github.com/tendermint/tendermint/libs/log"
	mpmock "github.com/tendermint/tendermint/mempool/mock"
	"github.com/tendermint/tendermint/p2p"
	p2pmock "github.com/tendermint/tendermint/p2p/mock"
	bcproto "github.com/tendermint/tendermint/proto/tendermint/blockchain"
	tmproto "github.com/tendermint/tendermint/proto/tendermint/types"
	"github.com/tendermint/tendermint/proxy"
	sm "github.com/tendermint/tendermint/state"
	"github.com/tendermint/tendermint/store"
	"github.com/tendermint/tendermint/types"

	"verifharness/core"
)

const chainID = "c13-chain"
const maxChain = 8

var baseTime = time.Unix(1600000000, 0).UTC()

// ---------------------------------------------------------------------------------------------
// canonical chain (deterministic from the validator configuration)

type chain struct {
	keys   []crypto.PrivKey // in validator-set order
	vals   *types.ValidatorSet
	genDoc *types.GenesisDoc
	states []sm.State      // states[h] = state after block h (states[0] = genesis)
	blocks []*types.Block  // blocks[h], h = 1..maxChain
	ids    []types.BlockID // ids[h]
	full   []*types.Commit // full[h] = commit for block h signed by everybody
	mtx    sync.Mutex
	alt    map[string]*types.Block
}

var chains sync.Map // config string -> *chain

func keyOf(i int) crypto.PrivKey {
	return ed25519.GenPrivKeyFromSecret([]byte(fmt.Sprintf("c13-validator-%d", i)))
}

// configOf orders (key index, power) the way the ValidatorSet does and returns "powers|keys".
func configOf(powers []int64) (string, string) {
	vs := make([]*types.Validator, len(powers))
	idx := map[string]int{}
	for i, p := range powers {
		pk := keyOf(i).PubKey()
		vs[i] = types.NewValidator(pk, p)
		idx[string(pk.Address())] = i
	}
	set := types.NewValidatorSet(vs)
	var ps, ks []string
	for _, v := range set.Validators {
		ps = append(ps, strconv.FormatInt(v.VotingPower, 10))
		ks = append(ks, strconv.Itoa(idx[string(v.Address)]))
	}
	return strings.Join(ps, ","), strings.Join(ks, ",")
}

func txsFor(v int, h int64) []types.Tx {
	if v == 0 {
		return []types.Tx{types.Tx(fmt.Sprintf("h%d=canon", h))}
	}
	return []types.Tx{types.Tx(fmt.Sprintf("h%d=alt%d", h, v))}
}

func sigTime(h int64, i int) time.Time {
	return baseTime.Add(time.Duration(h)*time.Second + time.Duration(i)*time.Millisecond)
}

type sigTok struct {
	flag   byte // 'a', 'c', 'n'
	addrOK bool
	sigOK  bool
}

func (s sigTok) String() string {
	if s.flag == 'a' {
		return "a"
	}
	b := func(x bool) string {
		if x {
			return "1"
		}
		return "0"
	}
	return string(s.flag) + b(s.addrOK) + b(s.sigOK)
}

func parseSigToks(s string) ([]sigTok, bool) {
	if s == "-" || s == "" {
		return nil, true
	}
	var out []sigTok
	for _, t := range strings.Split(s, ",") {
		switch {
		case t == "a":
			out = append(out, sigTok{flag: 'a'})
		case len(t) == 3 && (t[0] == 'c' || t[0] == 'n') && (t[1] == '0' || t[1] == '1') && (t[2] == '0' || t[2] == '1'):
			out = append(out, sigTok{t[0], t[1] == '1', t[2] == '1'})
		default:
			return nil, false
		}
	}
	return out, true
}

// makeCommit builds a real commit for (height, round 0, target) from validity tokens: a valid
// token carries the validator's real signature over the real sign bytes, an invalid one 64 bytes
// of garbage; a wrong address is 20 other bytes. Tokens beyond the validator set reuse key 0.
func (ch *chain) makeCommit(height int64, target types.BlockID, toks []sigTok) *types.Commit {
	sigs := make([]types.CommitSig, len(toks))
	for i, t := range toks {
		if t.flag == 'a' {
			sigs[i] = types.NewCommitSigAbsent()
			continue
		}
		ki := i
		if ki >= len(ch.keys) {
			ki = 0
		}
		addr := ch.keys[ki].PubKey().Address()
		flag := types.BlockIDFlagCommit
		bid := target
		if t.flag == 'n' {
			flag = types.BlockIDFlagNil
			bid = types.BlockID{}
		}
		ts := sigTime(height, i)
		vote := &types.Vote{Type: tmproto.PrecommitType, Height: height, Round: 0, BlockID: bid,
			Timestamp: ts, ValidatorAddress: addr, ValidatorIndex: int32(i)}
		var sig []byte
		if t.sigOK && i < len(ch.keys) {
			var err error
			sig, err = ch.keys[ki].Sign(types.VoteSignBytes(chainID, vote.ToProto()))
			if err != nil {
				panic(err)
			}
		} else {
			sig = make([]byte, 64)
			for k := range sig {
				sig[k] = byte(0xA0 + (k+i)%7)
			}
		}
		a := []byte(addr)
		if !t.addrOK {
			a = make([]byte, 20)
			for k := range a {
				a[k] = byte(0xE0 + i)
			}
		}
		sigs[i] = types.CommitSig{BlockIDFlag: flag, ValidatorAddress: a, Timestamp: ts, Signature: sig}
	}
	return types.NewCommit(height, 0, target, sigs)
}

func allSign(n int) []sigTok {
	t := make([]sigTok, n)
	for i := range t {
		t[i] = sigTok{'c', true, true}
	}
	return t
}

func blockIDOf(b *types.Block) types.BlockID {
	return types.BlockID{Hash: b.Hash(), PartSetHeader: b.MakePartSet(types.BlockPartSizeBytes).Header()}
}

func getChain(powersCSV, keysCSV string) (*chain, error) {
	key := powersCSV + "|" + keysCSV
	if c, ok := chains.Load(key); ok {
		return c.(*chain), nil
	}
	ps := strings.Split(powersCSV, ",")
	ks := strings.Split(keysCSV, ",")
	if len(ps) != len(ks) || len(ps) == 0 {
		return nil, fmt.Errorf("bad config")
	}
	ch := &chain{alt: map[string]*types.Block{}}
	var gvals []types.GenesisValidator
	for i := range ps {
		p, err1 := strconv.ParseInt(ps[i], 10, 64)
		k, err2 := strconv.Atoi(ks[i])
		if err1 != nil || err2 != nil || p <= 0 {
			return nil, fmt.Errorf("bad config")
		}
		pk := keyOf(k)
		ch.keys = append(ch.keys, pk)
		gvals = append(gvals, types.GenesisValidator{PubKey: pk.PubKey(), Power: p, Name: fmt.Sprintf("v%d", k)})
	}
	ch.genDoc = &types.GenesisDoc{GenesisTime: baseTime, ChainID: chainID, InitialHeight: 1, Validators: gvals,
		ConsensusParams: types.DefaultConsensusParams()}
	if err := ch.genDoc.ValidateAndComplete(); err != nil {
		return nil, err
	}
	state, err := sm.MakeGenesisState(ch.genDoc)
	if err != nil {
		return nil, err
	}
	ch.vals = state.Validators.Copy()
	for i, v := range ch.vals.Validators {
		if !v.PubKey.Equals(ch.keys[i].PubKey()) {
			return nil, fmt.Errorf("validator order differs from the op line")
		}
	}
	app := kvstore.NewApplication()
	pa := proxy.NewAppConns(proxy.NewLocalClientCreator(app))
	if err := pa.Start(); err != nil {
		return nil, err
	}
	defer pa.Stop() //nolint:errcheck
	ss := sm.NewStore(dbm.NewMemDB(), sm.StoreOptions{})
	if err := ss.Save(state); err != nil {
		return nil, err
	}
	be := sm.NewBlockExecutor(ss, log.NewNopLogger(), pa.Consensus(), mpmock.Mempool{}, sm.EmptyEvidencePool{})
	ch.states = []sm.State{state.Copy()}
	ch.blocks = []*types.Block{nil}
	ch.ids = []types.BlockID{{}}
	ch.full = []*types.Commit{types.NewCommit(0, 0, types.BlockID{}, nil)}
	for h := int64(1); h <= maxChain; h++ {
		b, _ := state.MakeBlock(h, txsFor(0, h), ch.full[h-1], nil, ch.vals.Validators[0].Address)
		id := blockIDOf(b)
		ns, _, err := be.ApplyBlock(state, id, b)
		if err != nil {
			return nil, err
		}
		state = ns
		ch.states = append(ch.states, state.Copy())
		ch.blocks = append(ch.blocks, b)
		ch.ids = append(ch.ids, id)
		ch.full = append(ch.full, ch.makeCommit(h, id, allSign(len(ch.keys))))
	}
	c, _ := chains.LoadOrStore(key, ch)
	return c.(*chain), nil
}

// variant returns the block at height h built on the canonical state h-1 with the given
// transaction variant, flaw and LastCommit (nil = the canonical full commit).
func (ch *chain) variant(h int64, txv int, flaw bool, lc *types.Commit) *types.Block {
	if lc == nil {
		lc = ch.full[h-1]
	}
	b, _ := ch.states[h-1].MakeBlock(h, txsFor(txv, h), lc, nil, ch.vals.Validators[0].Address)
	if flaw {
		b.AppHash = []byte("not-the-app-hash")
	}
	return b
}

// target of a commit: block (h, ttxv, tflaw) with canonical LastCommit; wp flips the part-set hash
func (ch *chain) target(h int64, ttxv int, tflaw bool, wp bool) types.BlockID {
	if h < 1 || h > maxChain {
		return types.BlockID{}
	}
	var id types.BlockID
	if ttxv == 0 && !tflaw {
		id = ch.ids[h]
	} else {
		id = blockIDOf(ch.variant(h, ttxv, tflaw, nil))
	}
	if wp {
		hh := append([]byte{}, id.PartSetHeader.Hash...)
		hh[0] ^= 0x55
		id.PartSetHeader.Hash = hh
	}
	return id
}

func tok32(b []byte) string {
	if len(b) < 4 {
		return "0"
	}
	return fmt.Sprintf("%x", uint32(b[0])<<24|uint32(b[1])<<16|uint32(b[2])<<8|uint32(b[3]))
}

func idTok(id types.BlockID) string { return tok32(id.Hash) + "/" + tok32(id.PartSetHeader.Hash) }

// blockSpec is everything needed to rebuild a real block from an op line.
type blockSpec struct {
	h     int64
	txv   int
	flaw  bool
	ttxv  int
	tflaw bool
	twp   bool
	lch   int64
	toks  []sigTok
}

func (ch *chain) build(s blockSpec) *types.Block {
	var lc *types.Commit
	if s.h == 1 && len(s.toks) == 0 {
		lc = types.NewCommit(s.lch, 0, types.BlockID{}, nil)
	} else {
		lc = ch.makeCommit(s.lch, ch.target(s.h-1, s.ttxv, s.tflaw, s.twp), s.toks)
	}
	return ch.variant(s.h, s.txv, s.flaw, lc)
}

func b01(x bool) string {
	if x {
		return "1"
	}
	return "0"
}

func toksStr(t []sigTok) string {
	if len(t) == 0 {
		return "-"
	}
	s := make([]string, len(t))
	for i := range t {
		s[i] = t[i].String()
	}
	return strings.Join(s, ",")
}

// blockOp renders the op line for delivering the block described by s from peer p.
func (ch *chain) blockOp(p int, s blockSpec) string {
	b := ch.build(s)
	return fmt.Sprintf("block p=%d h=%d id=%s prev=%s flaw=%s lc=%d:0:%s:%s d=%d/%d%s%s",
		p, s.h, idTok(blockIDOf(b)), idTok(b.LastBlockID), b01(s.flaw), s.lch, idTok(b.LastCommit.BlockID), toksStr(s.toks),
		s.txv, s.ttxv, b01(s.tflaw), b01(s.twp))
}

func kv(op string) map[string]string {
	m := map[string]string{}
	f := strings.Fields(op)
	for _, t := range f[1:] {
		if i := strings.IndexByte(t, '='); i > 0 {
			m[t[:i]] = t[i+1:]
		}
	}
	return m
}

func isIDTok(t string) bool {
	p := strings.Split(t, "/")
	if len(p) != 2 {
		return false
	}
	for _, x := range p {
		if x == "" {
			return false
		}
		for _, c := range x {
			if !strings.ContainsRune("0123456789abcdefABCDEF", c) {
				return false
			}
		}
	}
	return true
}

func parseBlockOp(m map[string]string) (blockSpec, bool) {
	var s blockSpec
	var err error
	if s.h, err = strconv.ParseInt(m["h"], 10, 64); err != nil || s.h < 1 || s.h > maxChain {
		return s, false
	}
	if _, err := strconv.ParseUint(m["flaw"], 10, 64); err != nil {
		return s, false
	}
	s.flaw = m["flaw"] != "0"
	lc := strings.Split(m["lc"], ":")
	if len(lc) != 4 || !isIDTok(m["id"]) || !isIDTok(m["prev"]) || !isIDTok(lc[2]) {
		return s, false
	}
	if _, err := strconv.ParseInt(lc[1], 10, 64); err != nil {
		return s, false
	}
	if s.lch, err = strconv.ParseInt(lc[0], 10, 64); err != nil {
		return s, false
	}
	var ok bool
	if s.toks, ok = parseSigToks(lc[3]); !ok {
		return s, false
	}
	d := strings.Split(m["d"], "/")
	if len(d) != 2 || len(d[1]) != 3 {
		return s, false
	}
	if s.txv, err = strconv.Atoi(d[0]); err != nil {
		return s, false
	}
	s.ttxv = int(d[1][0] - '0')
	s.tflaw = d[1][1] == '1'
	s.twp = d[1][2] == '1'
	return s, true
}

// ---------------------------------------------------------------------------------------------
// the syncing node

type capLogger struct {
	mtx  sync.Mutex
	errs []string
}

func (l *capLogger) Debug(string, ...interface{}) {}
func (l *capLogger) Info(string, ...interface{})  {}
func (l *capLogger) Error(msg string, kv ...interface{}) {
	if msg != "Error in validation" {
		return
	}
	l.mtx.Lock()
	defer l.mtx.Unlock()
	for i := 0; i+1 < len(kv); i += 2 {
		if kv[i] == "err" {
			l.errs = append(l.errs, fmt.Sprint(kv[i+1]))
			return
		}
	}
	l.errs = append(l.errs, "?")
}
func (l *capLogger) With(...interface{}) log.Logger { return l }
func (l *capLogger) count() int {
	l.mtx.Lock()
	defer l.mtx.Unlock()
	return len(l.errs)
}

type hpeer struct {
	*p2pmock.Peer
	id p2p.ID
}

func (p *hpeer) ID() p2p.ID { return p.id }

type node struct {
	ch    *chain
	bcR   *v0.BlockchainReactor
	pool  *v0.BlockPool
	sw    *p2p.Switch
	ss    sm.Store
	bs    *store.BlockStore
	pa    proxy.AppConns
	cs    *consensus.State
	lg    *capLogger
	peers []*hpeer
}

var setTimeoutOnce sync.Once

func newSwitch() *p2p.Switch {
	c := cfg.DefaultP2PConfig()
	nk := p2p.NodeKey{PrivKey: ed25519.GenPrivKeyFromSecret([]byte("c13-node"))}
	ni := p2p.DefaultNodeInfo{DefaultNodeID: nk.ID(), ListenAddr: "127.0.0.1:1", Network: chainID, Version: "1", Moniker: "c13"}
	t := p2p.NewMultiplexTransport(ni, nk, p2p.MConnConfig(c))
	return p2p.NewSwitch(c, t)
}

func newNode(ch *chain) (*node, error) {
	setTimeoutOnce.Do(func() { v0.VerifSetPeerTimeout(time.Hour) })
	n := &node{ch: ch, lg: &capLogger{}}
	state := ch.states[0].Copy()
	n.ss = sm.NewStore(dbm.NewMemDB(), sm.StoreOptions{})
	if err := n.ss.Save(state); err != nil {
		return nil, err
	}
	n.bs = store.NewBlockStore(dbm.NewMemDB())
	n.pa = proxy.NewAppConns(proxy.NewLocalClientCreator(kvstore.NewApplication()))
	if err := n.pa.Start(); err != nil {
		return nil, err
	}
	be := sm.NewBlockExecutor(n.ss, log.NewNopLogger(), n.pa.Consensus(), mpmock.Mempool{}, sm.EmptyEvidencePool{})
	n.bcR = v0.NewBlockchainReactor(state.Copy(), be, n.bs, false)
	n.bcR.SetLogger(n.lg)
	v0.VerifSyncMode(n.bcR)
	n.pool = v0.VerifPool(n.bcR)
	n.sw = newSwitch()
	n.sw.AddReactor("BLOCKCHAIN", n.bcR)
	n.cs = consensus.NewState(cfg.DefaultConsensusConfig(), state.Copy(), be, n.bs, mpmock.Mempool{}, sm.EmptyEvidencePool{})
	return n, nil
}

func (n *node) close() {
	for _, p := range n.pool.VerifView().Peers {
		n.pool.RemovePeer(p.ID)
	}
	_ = n.pool.Stop()
	for _, p := range n.peers {
		_ = p.Stop()
	}
	_ = n.pa.Stop()
}

func pid(i int) p2p.ID { return p2p.ID(strconv.Itoa(i)) }

func (n *node) connectedIDs() []string {
	var ids []string
	for _, p := range n.sw.Peers().List() {
		ids = append(ids, string(p.ID()))
	}
	sort.Strings(ids)
	return ids
}

func listStr(l []string) string {
	if len(l) == 0 {
		return "-"
	}
	return strings.Join(l, ",")
}

// drain does what poolRoutine's helper goroutine does with errorsCh (requests are dropped: the
// scripted peers answer when the op sequence says so).
func (n *node) drain() {
	_, errs := v0.VerifDrain(n.bcR)
	for _, e := range errs {
		if p := n.sw.Peers().Get(e.PeerID); p != nil {
			n.sw.StopPeerForError(p, e.Err)
		}
	}
}

func classifyErr(s string) string {
	switch {
	case strings.Contains(s, "wrong set size"):
		return "size"
	case strings.Contains(s, "Invalid commit -- wrong height"):
		return "height"
	case strings.Contains(s, "wrong block ID"):
		return "blockid"
	case strings.Contains(s, "wrong signature (#"):
		i := strings.Index(s, "(#")
		j := strings.Index(s[i:], ")")
		return "sig" + s[i+2:i+j]
	case strings.Contains(s, "insufficient voting power"):
		return "power"
	case strings.Contains(s, "wrong Block.Header.Height"):
		return "v-height"
	case strings.Contains(s, "wrong Block.Header.LastBlockID"):
		return "v-lastblockid"
	case strings.Contains(s, "wrong Block.Header.AppHash"):
		return "v-flaw"
	case strings.Contains(s, "initial block can't have LastCommit"):
		return "v-initialcommit"
	}
	return "other:" + strings.ReplaceAll(s, " ", "_")
}

func classifyHandover(msg string) string {
	switch {
	case msg == "":
		return "ok"
	case strings.Contains(msg, "seen commit for height"):
		return "panic-noseen"
	case strings.Contains(msg, "does not have +2/3"):
		return "panic-nomaj"
	case strings.Contains(msg, "cannot find validator"):
		return "panic-index"
	case strings.Contains(msg, "does not match address"), strings.Contains(msg, "invalid validator address"):
		return "panic-addr"
	case strings.Contains(msg, "invalid signature"):
		return "panic-sig"
	}
	return "panic-other:" + strings.ReplaceAll(msg, " ", "_")
}

// commitToks renders a stored commit as validity tokens (independent re-verification with the
// validators' public keys).
func (n *node) commitToks(c *types.Commit) string {
	if len(c.Signatures) == 0 {
		return "-"
	}
	out := make([]string, len(c.Signatures))
	for i, s := range c.Signatures {
		if s.Absent() {
			out[i] = "a"
			continue
		}
		t := sigTok{flag: 'c'}
		if s.BlockIDFlag == types.BlockIDFlagNil {
			t.flag = 'n'
		}
		if i < len(n.ch.vals.Validators) {
			v := n.ch.vals.Validators[i]
			t.addrOK = string(v.Address) == string(s.ValidatorAddress)
			t.sigOK = v.PubKey.VerifySignature(c.VoteSignBytes(chainID, int32(i)), s.Signature)
		}
		out[i] = t.String()
	}
	return strings.Join(out, ",")
}

func (n *node) recv(p *hpeer, msg interface{}) (panicked bool) {
	defer func() {
		if r := recover(); r != nil {
			panicked = true
		}
	}()
	switch m := msg.(type) {
	case *bcproto.BlockResponse:
		n.bcR.ReceiveEnvelope(p2p.Envelope{Src: p, ChannelID: v0.BlockchainChannel, Message: m})
	case *bcproto.StatusResponse:
		n.bcR.ReceiveEnvelope(p2p.Envelope{Src: p, ChannelID: v0.BlockchainChannel, Message: m})
	}
	return false
}

func (n *node) op(op string) string {
	f := strings.Fields(op)
	m := kv(op)
	geti := func(k string) (int64, bool) {
		v, err := strconv.ParseInt(m[k], 10, 64)
		return v, err == nil && m[k] != ""
	}
	switch f[0] {
	case "connect":
		p, ok := geti("p")
		if !ok || p < 0 {
			return "bad-op"
		}
		if n.sw.Peers().Has(pid(int(p))) {
			return "dup"
		}
		hp := &hpeer{Peer: p2pmock.NewPeer(nil), id: pid(int(p))}
		n.peers = append(n.peers, hp)
		p2p.AddPeerToSwitchPeerSet(n.sw, hp)
		n.bcR.AddPeer(hp)
		return "ok"
	case "disconnect":
		p, ok := geti("p")
		if !ok || p < 0 {
			return "bad-op"
		}
		peer := n.sw.Peers().Get(pid(int(p)))
		if peer == nil {
			return "not-connected"
		}
		n.sw.StopPeerGracefully(peer)
		return "ok"
	case "status":
		p, ok1 := geti("p")
		b, ok2 := geti("base")
		h, ok3 := geti("height")
		if !ok1 || !ok2 || !ok3 || p < 0 {
			return "bad-op"
		}
		peer := n.sw.Peers().Get(pid(int(p)))
		if peer == nil {
			return "not-connected"
		}
		n.recv(peer.(*hpeer), &bcproto.StatusResponse{Base: b, Height: h})
		n.drain()
		if !n.sw.Peers().Has(pid(int(p))) {
			return "stopped"
		}
		return "ok"
	case "mkreq":
		if len(f) != 1 {
			return "bad-op"
		}
		return fmt.Sprintf("reqs=%d", n.pool.VerifMakeNextRequester())
	case "pick":
		h, ok1 := geti("h")
		p, ok2 := geti("p")
		if !ok1 || !ok2 || p < 0 {
			return "bad-op"
		}
		r := n.pool.VerifPick(h, pid(int(p)))
		n.drain()
		return r
	case "block":
		p, ok := geti("p")
		spec, ok2 := parseBlockOp(m)
		if !ok || !ok2 || p < 0 {
			return "bad-op"
		}
		peer := n.sw.Peers().Get(pid(int(p)))
		if peer == nil {
			return "not-connected"
		}
		b := n.ch.build(spec)
		if idTok(blockIDOf(b)) != m["id"] || idTok(b.LastBlockID) != m["prev"] {
			return "desc-mismatch"
		}
		pb, err := b.ToProto()
		if err != nil {
			return "proto-error"
		}
		before := n.pool.VerifView()
		panicked := n.recv(peer.(*hpeer), &bcproto.BlockResponse{Block: pb})
		if panicked {
			// the connection's recover stops the peer for error
			n.sw.StopPeerForError(peer, "panic in Receive")
			n.drain()
			return "added-panic"
		}
		_, errs := v0.VerifDrain(n.bcR)
		res := ""
		for _, e := range errs {
			switch {
			case strings.Contains(e.Err.Error(), "too far ahead/behind"):
				res = "unexpected-far"
			case strings.Contains(e.Err.Error(), "invalid peer"):
				res = "invalid-peer"
			}
			if q := n.sw.Peers().Get(e.PeerID); q != nil {
				n.sw.StopPeerForError(q, e.Err)
			}
		}
		if res != "" {
			return res
		}
		if !n.sw.Peers().Has(pid(int(p))) {
			return "stopped"
		}
		after := n.pool.VerifView()
		if after.NumPending == before.NumPending-1 {
			return "added"
		}
		return "unexpected"
	case "rstep":
		h, ok := geti("h")
		if !ok {
			return "bad-op"
		}
		return n.pool.VerifRStep(h)
	case "rtimeout":
		h, ok := geti("h")
		if !ok {
			return "bad-op"
		}
		return n.pool.VerifRTimeout(h)
	case "timeout":
		p, ok := geti("p")
		if !ok || p < 0 {
			return "bad-op"
		}
		if !n.pool.VerifPeerTimeout(pid(int(p))) {
			return "nopeer"
		}
		n.drain()
		return "ok"
	case "process":
		if len(f) != 1 {
			return "bad-op"
		}
		n.drain()
		state, err := n.ss.Load()
		if err != nil {
			return "state-error"
		}
		h0 := n.bs.Height()
		e0 := n.lg.count()
		conn0 := n.connectedIDs()
		until := func() bool {
			a, b := n.pool.PeekTwoBlocks()
			if a == nil || b == nil {
				return true
			}
			return n.lg.count() > e0
		}
		if v0.VerifRunPoolRoutine(n.bcR, state, until, 800*time.Millisecond) {
			return "process-timeout"
		}
		n.drain()
		errTok := "-"
		n.lg.mtx.Lock()
		if len(n.lg.errs) > e0 {
			errTok = classifyErr(n.lg.errs[e0])
		}
		n.lg.mtx.Unlock()
		now := map[string]bool{}
		for _, id := range n.connectedIDs() {
			now[id] = true
		}
		var stopped []string
		for _, id := range conn0 {
			if !now[id] {
				stopped = append(stopped, id)
			}
		}
		view := n.pool.VerifView()
		pair := "-/-"
		if errTok != "-" {
			a, b := "-", "-"
			for _, r := range view.Reqs {
				if r.Height == view.Height && r.Peer != "" {
					a = string(r.Peer)
				}
				if r.Height == view.Height+1 && r.Peer != "" {
					b = string(r.Peer)
				}
			}
			pair = a + "/" + b
		}
		return fmt.Sprintf("saved=%d err=%s pair=%s stopped=%s h=%d", n.bs.Height()-h0, errTok, pair, listStr(stopped), view.Height)
	case "peek":
		a, b := n.pool.PeekTwoBlocks()
		s := func(x *types.Block) string {
			if x == nil {
				return "-"
			}
			return idTok(blockIDOf(x))
		}
		return fmt.Sprintf("first=%s second=%s", s(a), s(b))
	case "show":
		v := n.pool.VerifView()
		var rs, ps []string
		for _, r := range v.Reqs {
			peer, blk := "-", "-"
			if r.Peer != "" {
				peer = string(r.Peer)
			}
			if r.Hash != nil {
				blk = tok32(r.Hash) + "/" + tok32(r.PSHash)
			}
			rs = append(rs, fmt.Sprintf("%d:%s:%s", r.Height, peer, blk))
		}
		for _, p := range v.Peers {
			ps = append(ps, fmt.Sprintf("%s:%d:%d:%d", p.ID, p.Base, p.Height, p.NumPending))
		}
		return fmt.Sprintf("h=%d pending=%d reqs=%s max=%d caught=%v peers=%s conn=%s", v.Height, v.NumPending, listStr(rs),
			v.MaxPeerHeight, n.pool.IsCaughtUp(), listStr(ps), listStr(n.connectedIDs()))
	case "store":
		state, err := n.ss.Load()
		if err != nil {
			return "state-error"
		}
		var bl []string
		for h := int64(1); h <= n.bs.Height(); h++ {
			b := n.bs.LoadBlock(h)
			sc := n.bs.LoadSeenCommit(h)
			if b == nil || sc == nil {
				bl = append(bl, fmt.Sprintf("%d:missing", h))
				continue
			}
			bl = append(bl, fmt.Sprintf("%d:%s:%s:%s", h, idTok(blockIDOf(b)), idTok(sc.BlockID), n.commitToks(sc)))
		}
		return fmt.Sprintf("state=%d:%s blocks=%s", state.LastBlockHeight, idTok(state.LastBlockID), strings.Join(append([]string{}, bl...), ";")) + dashIfEmpty(bl)
	case "handover":
		if !n.pool.IsCaughtUp() {
			return "not-caught-up"
		}
		state, err := n.ss.Load()
		if err != nil {
			return "state-error"
		}
		if state.LastBlockHeight > 0 {
			return classifyHandover(consensus.VerifReconstructLastCommit(n.cs, state))
		}
		return "ok"
	}
	return "bad-op"
}

func dashIfEmpty(l []string) string {
	if len(l) == 0 {
		return "-"
	}
	return ""
}

// execCase runs the case; with C13_SELFCHECK=1 it runs it twice and reports nondeterminism of the
// harness itself on stderr (debugging aid).
func execCase(c core.Case) []string {
	out := execOnce(c)
	if os.Getenv("C13_SELFCHECK") != "" {
		again := execOnce(c)
		for i := range out {
			if i < len(again) && out[i] != again[i] {
				fmt.Fprintf(os.Stderr, "NONDETERMINISTIC case %s op %d %q: %q vs %q\n", c.ID, i, c.Ops[i], out[i], again[i])
				break
			}
		}
	}
	return out
}

func execOnce(c core.Case) []string {
	if len(c.Ops) > 0 && strings.HasPrefix(c.Ops[0], "e2e ") {
		return execE2E(c)
	}
	out := make([]string, 0, len(c.Ops))
	var n *node
	defer func() {
		if n != nil {
			n.close()
		}
	}()
	for _, op := range c.Ops {
		f := strings.Fields(op)
		if len(f) == 0 {
			out = append(out, "bad-op")
			continue
		}
		if f[0] == "init" {
			m := kv(op)
			ch, err := getChain(m["vals"], m["keys"])
			if err != nil {
				out = append(out, "bad-op")
				continue
			}
			if n != nil {
				n.close()
			}
			n, err = newNode(ch)
			if err != nil {
				out = append(out, "init-error")
				n = nil
				continue
			}
			out = append(out, fmt.Sprintf("ok h=%d", n.pool.VerifView().Height))
			continue
		}
		if n == nil {
			out = append(out, "bad-op")
			continue
		}
		out = append(out, n.op(op))
	}
	return out
}

func main() {
	core.Main(core.Prop{
		ID:         "C13",
		Driver:     "c13",
		Gen:        gen,
		Exec:       execCase,
		Oracle:     oracle,
		NonTrivial: nonTrivial,
		Parallel:   4,
		Rule: "every block in the syncing node's store has a seen commit for exactly its id with valid signatures of >2/3 of the validator set and is a block that passes validation on its predecessor; " +
			"a failed verification removes both delivering peers from pool and switch; hand-over (reconstructLastCommit) does not panic; scripted honest retry reaches tip-1",
		Assumptions: []string{
			"the requester goroutine is represented by its three transitions (pick / redo read / retry timer) through build-tag hooks that call the real sub-functions; the processing branch is the real poolRoutine",
			"validator set constant over the chain (kvstore application without validator updates)",
			"block ids compared by 32-bit prefixes of hash and part-set-header hash",
		},
		Extra: extra,
	})
}
