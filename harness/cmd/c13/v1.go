package main

// blockchain/v1 stream: the real FSM (BcReactorFSM.Handle) + BlockPool driven by events, and the
// real reactor's processBlock on real stores and executor.

import (
	"fmt"
	"math/rand"
	"strconv"
	"strings"

	dbm "github.com/tendermint/tm-db"

	v1 "github.com/tendermint/tendermint/blockchain/v1"
	"github.com/tendermint/tendermint/libs/log"
	mpmock "github.com/tendermint/tendermint/mempool/mock"
	"github.com/tendermint/tendermint/p2p"
	"github.com/tendermint/tendermint/proxy"
	sm "github.com/tendermint/tendermint/state"
	"github.com/tendermint/tendermint/store"
	"github.com/tendermint/tendermint/types"

	"verifharness/core"
)

type v1node struct {
	ch   *chain
	r    *v1.VerifV1
	bs   *store.BlockStore
	pa   proxy.AppConns
	dead bool
}

func newV1(ch *chain) (*v1node, error) {
	n := &v1node{ch: ch}
	state := ch.states[ch.ih-1].Copy()
	ss := sm.NewStore(dbm.NewMemDB(), sm.StoreOptions{})
	if err := ss.Save(state); err != nil {
		return nil, err
	}
	n.bs = store.NewBlockStore(dbm.NewMemDB())
	n.pa = proxy.NewAppConns(proxy.NewLocalClientCreator(&syncApp{}))
	if err := n.pa.Start(); err != nil {
		return nil, err
	}
	be := sm.NewBlockExecutor(ss, log.NewNopLogger(), n.pa.Consensus(), mpmock.Mempool{}, sm.EmptyEvidencePool{})
	n.r = v1.NewVerifV1(state.Copy(), be, n.bs)
	return n, nil
}

func (n *v1node) close() {
	if !n.dead {
		n.r.Stop() // entering `finished` cleans the pool up (peer timers)
	}
	_ = n.pa.Stop()
}

func (n *v1node) res(s string) string {
	if strings.HasPrefix(s, "panic:") {
		n.dead = true
		if strings.Contains(s, "failed to process committed block") {
			return "panic-apply"
		}
		return "panic"
	}
	return s
}

func (n *v1node) op(op string) string {
	f := strings.Fields(op)
	m := kv(op)
	geti := func(k string) (int64, bool) {
		v, err := strconv.ParseInt(m[k], 10, 64)
		return v, err == nil && m[k] != ""
	}
	getp := func() (p2p.ID, bool) {
		v, ok := geti("p")
		return pid(int(v)), ok && v >= 0
	}
	ev := func(g func() string) string {
		if n.dead {
			return "dead"
		}
		return n.res(g())
	}
	switch f[0] {
	case "v1start":
		if len(f) != 1 {
			return "bad-op"
		}
		return ev(n.r.Start)
	case "v1stop":
		if len(f) != 1 {
			return "bad-op"
		}
		return ev(n.r.Stop)
	case "v1status":
		p, ok := getp()
		b, ok2 := geti("base")
		h, ok3 := geti("height")
		if !ok || !ok2 || !ok3 {
			return "bad-op"
		}
		return ev(func() string { return n.r.StatusResponse(p, b, h) })
	case "v1block":
		p, ok := getp()
		spec, ok2 := n.ch.parseBlockOp(m)
		if !ok || !ok2 || spec.malformed() {
			return "bad-op"
		}
		b := n.ch.build(spec)
		if idTok(blockIDOf(b)) != m["id"] || idTok(b.LastBlockID) != m["prev"] {
			return "desc-mismatch"
		}
		pb, err := b.ToProto()
		if err != nil {
			return "proto-error"
		}
		wb, err := types.BlockFromProto(pb)
		if err != nil {
			return "rejected" // the reactor drops what does not decode; the FSM never sees it
		}
		return ev(func() string { return n.r.BlockResponse(p, wb, pb.Size()) })
	case "v1noblock":
		p, ok := getp()
		if !ok {
			return "bad-op"
		}
		return ev(func() string { return n.r.NoBlockResponse(p, 0) })
	case "v1processed":
		v, ok := geti("failed")
		if !ok || v < 0 {
			return "bad-op"
		}
		return ev(func() string { return n.r.Processed(v != 0) })
	case "v1remove":
		p, ok := getp()
		if !ok {
			return "bad-op"
		}
		return ev(func() string { return n.r.PeerRemove(p) })
	case "v1timeout":
		switch m["name"] {
		case "unknown", "waitForPeer", "waitForBlock", "finished":
		default:
			return "bad-op"
		}
		return ev(func() string { return n.r.StateTimeout(m["name"]) })
	case "v1mkreq":
		max, ok := geti("max")
		def, ok2 := geti("def")
		if !ok || !ok2 || max < 0 || def < 0 || m["tries"] == "" {
			return "bad-op"
		}
		tries := map[int64]p2p.ID{}
		for h := int64(-2); h < n.ch.ih+maxChain+70; h++ {
			tries[h] = pid(int(def))
		}
		if m["tries"] != "-" {
			ts := strings.Split(m["tries"], ",")
			// (the first entry for a height wins, as in the model's lookup)
			for k := len(ts) - 1; k >= 0; k-- {
				p := strings.Split(ts[k], ":")
				if len(p) != 2 {
					return "bad-op"
				}
				h, err1 := strconv.ParseInt(p[0], 10, 64)
				q, err2 := strconv.ParseUint(p[1], 10, 31)
				if err1 != nil || err2 != nil {
					return "bad-op"
				}
				tries[h] = pid(int(q))
			}
		}
		return ev(func() string { return n.r.MakeRequests(int(max), tries) })
	case "v1process":
		if len(f) != 1 {
			return "bad-op"
		}
		if n.dead {
			return "dead"
		}
		return n.res(n.r.ProcessOnce())
	case "v1show":
		if len(f) != 1 {
			return "bad-op"
		}
		w := n.r.View()
		var planned, peers []string
		for _, h := range w.Planned {
			planned = append(planned, strconv.FormatInt(h, 10))
		}
		for _, q := range w.Peers {
			bl := "."
			if len(q.Blocks) > 0 {
				bl = strings.Join(q.Blocks, "/")
			}
			peers = append(peers, fmt.Sprintf("%s:%d:%d:%d:%s", q.ID, q.Base, q.Height, q.NumPending, bl))
		}
		var errs []string
		for _, e := range n.r.R.PeerErrors {
			errs = append(errs, string(e))
		}
		return fmt.Sprintf("st=%s h=%d max=%d next=%d planned=%s blocks=%s peers=%s errs=%s sw=%v dead=%v", w.State, w.Height,
			w.MaxPeerHeight, w.NextRequestHeight, listStr(planned), listStr(w.Blocks), listStr(peers), listStr(errs), n.r.R.Switched, n.dead)
	case "v1store":
		if len(f) != 1 {
			return "bad-op"
		}
		return storeLine(n.ch, n.bs, n.r.State())
	}
	return "bad-op"
}

// ---- generators

func v1blockOp(ch *chain, p int, s blockSpec) string { return "v1" + ch.blockOp(p, s) }

func genV1(r *rand.Rand, kind string) core.Case {
	io, ch := newConfig(r, []string{"none", "any", "rotate"}[r.Intn(3)])
	tip := ch.ih + int64(2+r.Intn(4))
	var ops []string
	add := func(f string, a ...interface{}) { ops = append(ops, fmt.Sprintf(f, a...)) }
	add("v1%s", io)
	add("v1start")
	switch kind {
	case "v1-sync", "v1-byz":
		honestBulk := func(from, to int64) {
			// the honest peer (re)reports, is given every open request, answers from..to
			add("v1status p=1 base=%d height=%d", ch.ih, tip)
			add("v1mkreq max=64 tries=- def=1")
			for h := from; h <= to; h++ {
				ops = append(ops, v1blockOp(ch, 1, ch.canon(h)))
			}
			for h := from; h < to; h++ {
				add("v1process")
			}
			add("v1show")
		}
		episode := func(cur int64) {
			// a liar delivers one of the two blocks in front; the pair must fail
			L := 2 + r.Intn(2)
			first, second := ch.canon(cur), ch.canon(cur+1)
			pf := L
			switch r.Intn(5) {
			case 0:
				first.txv = 1
			case 1:
				pf = 1
				second.toks = ch.sigPattern(r, []string{"forged", "insufficient", "all-absent", "forged-otherkey", "short", "long"}[r.Intn(6)], cur)
				if len(second.toks) == 0 {
					// (an empty commit does not decode: the reactor would drop it before the FSM)
					second.toks = ch.sigPattern(r, "forged", cur)
				}
			case 2:
				first.txv, second.ttxv = 1, 1
				second.toks = ch.allSign(ch.ih)
				if ch.isQuorum(cur, second.toks) {
					second.toks = ch.sigPattern(r, "forged", cur)
				}
			case 3:
				pf = 1
				second.lch++
			case 4:
				pf = 1
				second.ttxv = 1
			}
			add("v1status p=1 base=%d height=%d", ch.ih, tip)
			add("v1status p=%d base=%d height=%d", L, ch.ih, tip+int64(r.Intn(2)))
			add("v1mkreq max=64 tries=%d:%d,%d:%d def=1", cur, pf, cur+1, L)
			ops = append(ops, v1blockOp(ch, pf, first), v1blockOp(ch, L, second))
			add("v1process")
			add("v1show")
		}
		if kind == "v1-byz" {
			first, second := ch.canon(ch.ih), ch.canon(ch.ih+1)
			if r.Intn(2) == 0 {
				fk := 1 + r.Intn(5)
				first.flaw, second.tflaw = fk, fk
			} else {
				first.txv, second.ttxv = 1, 1
			}
			add("v1status p=2 base=%d height=%d", ch.ih, tip)
			add("v1mkreq max=64 tries=- def=2")
			ops = append(ops, v1blockOp(ch, 2, first), v1blockOp(ch, 2, second))
			add("v1process")
			add("v1show")
			add("v1store")
			break
		}
		mid := ch.ih + int64(r.Intn(int(tip-ch.ih)))
		if r.Intn(3) > 0 {
			if mid > ch.ih {
				honestBulk(ch.ih, mid)
			}
			episode(mid)
		} else {
			mid = ch.ih
		}
		honestBulk(mid, tip)
		add("v1store")
	case "v1-soup":
		n := 20 + r.Intn(30)
		for i := 0; i < n; i++ {
			p := 1 + r.Intn(3)
			switch x := r.Intn(24); {
			case x < 4:
				add("v1status p=%d base=%d height=%d", p, int64(r.Intn(2))*ch.ih, ch.ih-1+int64(r.Intn(7)))
			case x < 8:
				add("v1mkreq max=%d tries=%d:%d def=%d", r.Intn(5), ch.ih+int64(r.Intn(4)), 1+r.Intn(3), p)
			case x < 15:
				h := ch.ih + int64(r.Intn(4))
				sp := ch.canon(h)
				switch r.Intn(6) {
				case 0:
					sp.txv = 1
				case 1:
					sp.flaw = 1 + r.Intn(5)
				case 2:
					if h > ch.ih {
						sp.toks = ch.sigPattern(r, sigKinds[r.Intn(len(sigKinds))], h-1)
					}
				case 3:
					sp.ttxv = 1
				}
				ops = append(ops, v1blockOp(ch, p, sp))
			case x < 18:
				add("v1process")
			case x < 19:
				add("v1remove p=%d", p)
			case x < 20:
				add("v1timeout name=%s", []string{"waitForBlock", "waitForPeer", "unknown"}[r.Intn(3)])
			case x < 21:
				// (processedBlockEv is internal to the reactor: it reaches the FSM through v1process)
				add("v1show")
			case x < 22:
				add("v1noblock p=%d", p)
			case x < 23:
				add("v1show")
			default:
				if r.Intn(6) == 0 {
					add("v1stop")
				} else {
					add("v1start")
				}
			}
		}
		add("v1process")
		add("v1show")
		add("v1store")
	}
	return core.Case{Kind: kind, ID: fmt.Sprintf("%s-T%d-n%d", kind, tip, len(ops)), Ops: ops}
}

// ---- oracle

func oracleV1(c core.Case, out []string) []core.Finding {
	var fs []core.Finding
	var set0 []pv
	ih := int64(1)
	offered := map[string]told{}
	lastStore := ""
	lowNext := false
	for i, op := range c.Ops {
		if i >= len(out) {
			break
		}
		f := strings.Fields(op)
		if len(f) == 0 {
			continue
		}
		m := kv(op)
		switch f[0] {
		case "v1init":
			if strings.HasPrefix(out[i], "ok") {
				set0 = parseSet(m["vals"])
				ih, _ = strconv.ParseInt(m["ih"], 10, 64)
				if out[i] != fmt.Sprintf("ok h=%d", ih) {
					fs = append(fs, core.Finding{Fingerprint: "v1.NewBlockchainReactor.start-height-not-initial-height",
						Desc: fmt.Sprintf("empty store, genesis initial_height %d: the v1 pool starts at %q", ih, out[i])})
				}
			}
		case "v1block":
			lc := strings.Split(m["lc"], ":")
			h, _ := strconv.ParseInt(m["h"], 10, 64)
			if len(lc) == 4 {
				offered[m["id"]] = told{h: h, prev: m["prev"], flaw: m["flaw"] != "0", lcH: lc[0], lcID: lc[2], lcSigs: lc[3], nv: m["nv"]}
			}
		case "v1show":
			mm := kv("x " + out[i])
			h, e1 := strconv.ParseInt(mm["h"], 10, 64)
			nx, e2 := strconv.ParseInt(mm["next"], 10, 64)
			if e1 == nil && e2 == nil && mm["st"] != "finished" && nx < h {
				fs = append(fs, core.Finding{Fingerprint: "v1.pool.nextRequestHeight-falls-below-pool-height",
					Desc: fmt.Sprintf("after the pool lost all its peers RemovePeer set nextRequestHeight to MaxPeerHeight+1 = %d although the pool is at height %d: the next batches request already processed heights (their blocks are never taken out of pool.blocks and use up request slots); when no peer serves those heights (base above them, e.g. genesis initial_height > 1 or pruned peers) MakeNextRequests gives up at the first of them and no request is ever made again (%s)", nx, h, out[i])})
				lowNext = true
			}
		case "v1process":
			if out[i] == "verification-failure" && i+1 < len(c.Ops) && c.Ops[i+1] == "v1show" && i+1 < len(out) {
				// both delivering peers must have been reported and removed
				mm := kv("x " + out[i+1])
				if mm["st"] == "finished" && mm["sw"] == "true" {
					fs = append(fs, core.Finding{Fingerprint: "v1.fsm.switches-to-consensus-when-failed-verification-removes-last-peers",
						Desc: "processedBlockEv with an error removes the two delivering peers (InvalidateFirstTwoBlocks) and then tests ReachedMaxHeight() without testing NumPeers(): with no peer left MaxPeerHeight is 0, the test holds, the FSM enters `finished` and switches to consensus although nothing near the tip was synced — one lying peer paired with the only honest one ends block sync (" + out[i+1] + ")"})
					lowNext = true
				}
				if mm["errs"] == "-" {
					fs = append(fs, core.Finding{Fingerprint: "v1.fsm.bad-pair-peers-not-reported",
						Desc: "a failed verification did not report the delivering peers: " + out[i+1]})
				}
			}
		case "v1store":
			lastStore = out[i]
			sf, _, _ := checkStore("v1", out[i], set0, ih, offered)
			fs = append(fs, sf...)
		}
	}
	if c.Kind == "v1-sync" {
		tip, nops := int64(0), 0
		if p := strings.Split(c.ID, "-"); len(p) >= 3 {
			tip, _ = strconv.ParseInt(strings.TrimPrefix(p[len(p)-2], "T"), 10, 64)
			nops, _ = strconv.Atoi(strings.TrimPrefix(p[len(p)-1], "n"))
		}
		if tip > 0 && nops == len(c.Ops) && !lowNext && !strings.HasPrefix(lastStore, fmt.Sprintf("state=%d:", tip-1)) {
			fs = append(fs, core.Finding{Fingerprint: "v1.sync.tip-not-reached",
				Desc: fmt.Sprintf("the honest peer was given and answered every pair of requests, the v1 reactor did not reach height %d: %s", tip-1, lastStore)})
		}
	}
	return fs
}
