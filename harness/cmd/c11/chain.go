// C11 harness: a generated chain in a real state store / block store, real evidence objects built
// deterministically from the tokens of the op lines.
package main

import (
	"bytes"
	"encoding/hex"
	"fmt"
	"sort"
	"strconv"
	"strings"
	"sync"
	"time"

	dbm "github.com/tendermint/tm-db"

	"github.com/tendermint/tendermint/crypto"
	"github.com/tendermint/tendermint/crypto/ed25519"
	"github.com/tendermint/tendermint/evidence"
	tmproto "github.com/tendermint/tendermint/proto/tendermint/types"
	tmversion "github.com/tendermint/tendermint/proto/tendermint/version"
	sm "github.com/tendermint/tendermint/state"
	"github.com/tendermint/tendermint/store"
	"github.com/tendermint/tendermint/types"
	"github.com/tendermint/tendermint/version"
)

const chainID = "c11-chain"

var baseTime = time.Date(2019, 1, 1, 0, 0, 0, 0, time.UTC)

func tm(ns int64) time.Time { return baseTime.Add(time.Duration(ns)) }

var keyCache sync.Map

func privKey(i int) ed25519.PrivKey {
	if k, ok := keyCache.Load(i); ok {
		return k.(ed25519.PrivKey)
	}
	k := ed25519.GenPrivKeyFromSecret([]byte(fmt.Sprintf("c11-key-%d", i)))
	keyCache.Store(i, k)
	return k
}

// Address tokens are the first 4 bytes of the address in hex (8 chars): the order of the tokens is
// the byte order of the addresses (what ValidatorsByVotingPower breaks ties with). Keys the harness
// knows: 0..19, 300..429 (large conflicting sets), 900, 901 (phantoms).
var knownKeys = func() []int {
	var l []int
	for i := 0; i < 20; i++ {
		l = append(l, i)
	}
	for i := 300; i < 430; i++ {
		l = append(l, i)
	}
	return append(l, 900, 901)
}()

var (
	tokOnce  sync.Once
	tokToKey map[string]int
	keyToTok map[int]string
)

func initToks() {
	tokOnce.Do(func() {
		tokToKey, keyToTok = map[string]int{}, map[int]string{}
		for _, i := range knownKeys {
			t := hex.EncodeToString(privKey(i).PubKey().Address()[:4])
			if _, dup := tokToKey[t]; dup {
				panic("address prefix collision among harness keys")
			}
			tokToKey[t], keyToTok[i] = i, t
		}
	})
}

// kt: address token of key i
func kt(i int) string { initToks(); return keyToTok[i] }

func isTok(tok string) bool {
	if len(tok) != 8 {
		return false
	}
	_, err := hex.DecodeString(tok)
	return err == nil && strings.ToLower(tok) == tok
}

// addrBytes: the address a token stands for (unknown tokens: the 4 bytes, padded)
func addrBytes(tok string) ([]byte, bool) {
	if !isTok(tok) {
		return nil, false
	}
	initToks()
	if i, ok := tokToKey[tok]; ok {
		return privKey(i).PubKey().Address(), true
	}
	b, _ := hex.DecodeString(tok)
	for len(b) < 20 {
		b = append(b, 0x5a)
	}
	return b, true
}

// tokOfAddr: token of an address (inverse of addrBytes on what the harness builds)
func tokOfAddr(a []byte) string {
	if len(a) < 4 {
		return "00000000"
	}
	return hex.EncodeToString(a[:4])
}

func keyIdx(tok string) (int, bool) {
	initToks()
	i, ok := tokToKey[tok]
	return i, ok
}

func h8(b []byte) string {
	if len(b) < 4 {
		return "00000000"
	}
	return hex.EncodeToString(b[:4])
}

type valTok struct {
	addr  string // token
	power int64
	pk    string // token k<i>
}

type blkDef struct {
	t     int64
	vals  []valTok
	round int32 // round of the block's commit
	flags []int // flag byte of each slot of that commit
}

type evDef struct {
	raw       types.Evidence // as built (what a peer would encode); ev is the decoded object
	wireTotal int64          // forged conflicting_block.validator_set.total_voting_power on the wire (0 = honest)
	id        string
	ev        types.Evidence
	kind      string
	hash      string // 12 hex
	sz        int
	vb        bool
	// line data kept for the oracle's reference verifier
	m map[string]string
}

type chain struct {
	M      int64 // ConsensusParams.Evidence.MaxBytes of every state of the chain
	A, D   int64
	blks   []blkDef
	built  bool
	blocks []*types.Block // index h-1
	parts  []*types.PartSet
	commit []*types.Commit // canonical commit of height h (index h-1)
	vsets  []*types.ValidatorSet

	stateStore sm.Store
	blockStore *store.BlockStore
	evDB       dbm.DB
	storeH     int64
	savedState int64 // highest LastBlockHeight saved in the state store (-1 none)
	pool       *evidence.Pool
	dead       bool
	hook       *hooker
	ab         bool // genuine chain driven by ApplyBlock (applyblock.go)
	abn        *abNode
	defs       map[string]*evDef
	order      []string
}

func newChain(A, D int64) *chain {
	return &chain{A: A, D: D, M: 1 << 20, defs: map[string]*evDef{}, savedState: -1}
}

func (c *chain) n() int64 { return int64(len(c.blks)) }

func (c *chain) valSetOf(b blkDef) *types.ValidatorSet {
	vs := make([]*types.Validator, 0, len(b.vals))
	for _, v := range b.vals {
		a, _ := addrBytes(v.addr)
		ki, _ := keyIdx(v.pk)
		vs = append(vs, &types.Validator{Address: a, PubKey: privKey(ki).PubKey(), VotingPower: v.power})
	}
	return types.NewValidatorSet(vs)
}

// V(h), h ≥ 1; heights past the chain repeat the last set
func (c *chain) vset(h int64) *types.ValidatorSet {
	if h < 1 {
		h = 1
	}
	if h > c.n() {
		h = c.n()
	}
	return c.vsets[h-1].Copy()
}

func sameVals(a, b blkDef) bool {
	if len(a.vals) != len(b.vals) {
		return false
	}
	for i := range a.vals {
		if a.vals[i] != b.vals[i] {
			return false
		}
	}
	return true
}

func (c *chain) blkAt(h int64) blkDef {
	if h < 1 {
		h = 1
	}
	if h > c.n() {
		h = c.n()
	}
	return c.blks[h-1]
}

// first height of the run of equal validator sets ending at h
func (c *chain) lastChanged(h int64) int64 {
	l := h
	for l > 1 && sameVals(c.blkAt(l-1), c.blkAt(h)) {
		l--
	}
	return l
}

func fixed(b byte) []byte {
	out := make([]byte, 32)
	for i := range out {
		out[i] = b
	}
	return out
}

func (c *chain) params() tmproto.ConsensusParams {
	p := *types.DefaultConsensusParams()
	p.Evidence.MaxAgeNumBlocks = c.A
	p.Evidence.MaxAgeDuration = time.Duration(c.D)
	p.Evidence.MaxBytes = c.M
	return p
}

// build makes the stores (once)
func (c *chain) build() {
	if c.built {
		return
	}
	c.built = true
	c.stateStore = sm.NewStore(dbm.NewMemDB(), sm.StoreOptions{})
	c.blockStore = store.NewBlockStore(dbm.NewMemDB())
	c.evDB = dbm.NewMemDB()
}

// appendBlock builds block h = len+1 from its definition alone (header and commit do not depend on
// the neighbouring blocks, so a line's derived tokens are a function of that line)
func (c *chain) appendBlock(b blkDef) {
	blk, ps, cm, vs := c.makeBlock(b)
	c.blks = append(c.blks, b)
	c.vsets = append(c.vsets, vs)
	c.blocks = append(c.blocks, blk)
	c.parts = append(c.parts, ps)
	c.commit = append(c.commit, cm)
}

// blkToks: the derived tokens the next `blk` line must carry
func (c *chain) blkToks(b blkDef) (string, string) {
	blk, _, _, _ := c.makeBlock(b)
	return headerToks(&blk.Header)
}

func (c *chain) makeBlock(b blkDef) (*types.Block, *types.PartSet, *types.Commit, *types.ValidatorSet) {
	h := int64(len(c.blks)) + 1
	vs := c.valSetOf(b)
	var lastCommit *types.Commit
	if h == 1 {
		lastCommit = types.NewCommit(0, 0, types.BlockID{}, nil)
	} else {
		lastCommit = c.commit[h-2]
	}
	blk := types.MakeBlock(h, nil, lastCommit, nil)
	blk.Header.Version = tmversion.Consensus{Block: version.BlockProtocol, App: 1}
	blk.Header.ChainID = chainID
	blk.Header.Time = tm(b.t)
	blk.Header.LastBlockID = types.BlockID{Hash: fixed(byte(h - 1)), PartSetHeader: types.PartSetHeader{Total: 1, Hash: fixed(0xBC)}}
	blk.Header.LastCommitHash = fixed(byte(h) ^ 0x80)
	blk.Header.ValidatorsHash = vs.Hash()
	blk.Header.NextValidatorsHash = vs.Hash()
	blk.Header.ConsensusHash = types.HashConsensusParams(c.params())
	blk.Header.AppHash = fixed(byte(h))
	blk.Header.LastResultsHash = fixed(0x11)
	blk.Header.ProposerAddress = vs.Validators[0].Address
	ps := blk.MakePartSet(65536)
	id := types.BlockID{Hash: fixed(byte(h) ^ 0x40), PartSetHeader: types.PartSetHeader{Total: 1, Hash: fixed(0xBD)}}
	sigs := make([]types.CommitSig, len(vs.Validators))
	for i, v := range vs.Validators {
		fl := 2
		if i < len(b.flags) {
			fl = b.flags[i]
		}
		switch fl {
		case 1:
			sigs[i] = types.NewCommitSigAbsent()
		case 3:
			sigs[i] = types.CommitSig{BlockIDFlag: types.BlockIDFlagNil, ValidatorAddress: v.Address, Timestamp: tm(b.t), Signature: fixed(0x77)}
		default:
			sigs[i] = types.NewCommitSigForBlock(fixed(0x77), v.Address, tm(b.t))
		}
	}
	return blk, ps, types.NewCommit(h, b.round, id, sigs), vs
}

// derived tokens of a header: its hash and the five fields ConflictingHeaderIsInvalid compares
func headerToks(hd *types.Header) (string, string) {
	return h8(hd.Hash()), strings.Join([]string{h8(hd.ValidatorsHash), h8(hd.NextValidatorsHash), h8(hd.ConsensusHash),
		h8(hd.AppHash), h8(hd.LastResultsHash)}, ".")
}

// hooker lets the harness run something at a chosen point INSIDE a pool call: the next store lookup
// (block meta) or evidence-DB membership test made by the pool
type hooker struct {
	mu sync.Mutex
	fn func()
}

func (h *hooker) fire() {
	h.mu.Lock()
	f := h.fn
	h.fn = nil
	h.mu.Unlock()
	if f != nil {
		f()
	}
}

type hookBS struct {
	*store.BlockStore
	h *hooker
}

func (b hookBS) LoadBlockMeta(height int64) *types.BlockMeta {
	b.h.fire()
	return b.BlockStore.LoadBlockMeta(height)
}

type hookDB struct {
	dbm.DB
	h *hooker
}

func (d hookDB) Has(k []byte) (bool, error) {
	d.h.fire()
	return d.DB.Has(k)
}

func (c *chain) newPool() (*evidence.Pool, error) {
	if c.hook == nil {
		c.hook = &hooker{}
	}
	return evidence.NewPool(hookDB{c.evDB, c.hook}, c.stateStore, hookBS{c.blockStore, c.hook})
}

// sm.State after block h (h ≥ 0)
func (c *chain) stateAt(h int64) sm.State {
	st := sm.State{
		ChainID:                          chainID,
		InitialHeight:                    1,
		LastBlockHeight:                  h,
		Validators:                       c.vset(h + 1),
		NextValidators:                   c.vset(h + 2),
		LastValidators:                   c.vset(h),
		LastHeightValidatorsChanged:      c.lastChanged(h + 2),
		ConsensusParams:                  c.params(),
		LastHeightConsensusParamsChanged: 1,
		LastResultsHash:                  fixed(0x11),
		AppHash:                          fixed(byte(h + 1)),
	}
	if h >= 1 && h <= c.n() {
		st.LastBlockTime = tm(c.blks[h-1].t)
		st.LastBlockID = c.commit[h-1].BlockID
	} else {
		st.LastBlockTime = baseTime
	}
	return st
}

// grow fills both stores up to height k
func (c *chain) grow(k int64) {
	for h := c.savedState + 1; h <= k; h++ {
		if err := c.stateStore.Save(c.stateAt(h)); err != nil {
			panic(err)
		}
		c.savedState = h
	}
	for h := c.blockStore.Height() + 1; h <= k; h++ {
		c.blockStore.SaveBlock(c.blocks[h-1], c.parts[h-1], c.commit[h-1])
	}
	c.storeH = k
}

func (c *chain) signedHeader(h int64) *types.SignedHeader {
	if h < 1 || h > c.n() {
		return nil
	}
	hd := c.blocks[h-1].Header
	return &types.SignedHeader{Header: &hd, Commit: c.commit[h-1]}
}

// ---------------------------------------------------------------------------------------------
// evidence objects from tokens

func blockIDOf(bid int64) types.BlockID {
	if bid < 0 {
		return types.BlockID{}
	}
	if bid >= 256 { // 256 + 4*h + p: block hash h, part-set header p (same block hash, other parts)
		h := fixed(0xFF)
		h[1] = byte((bid - 256) / 4)
		return types.BlockID{Hash: h, PartSetHeader: types.PartSetHeader{Total: 1, Hash: fixed(0xB0 + byte((bid-256)%4))}}
	}
	h := fixed(0xAA)
	h[0] = byte(bid)
	return types.BlockID{Hash: h, PartSetHeader: types.PartSetHeader{Total: 1, Hash: fixed(0xBB)}}
}

// vote token: h/r/t/addr/bid/ts/idx/sig
func parseVote(tok string) (*types.Vote, bool) {
	f := strings.Split(tok, "/")
	if len(f) != 8 {
		return nil, false
	}
	var n [8]int64
	for _, i := range []int{0, 1, 2, 4, 5, 6} {
		v, err := strconv.ParseInt(f[i], 10, 64)
		if err != nil {
			return nil, false
		}
		n[i] = v
	}
	addr, ok := addrBytes(f[3])
	if !ok || n[4] > 600 || (n[4] > 200 && n[4] < 256) {
		return nil, false
	}
	v := &types.Vote{
		Type:             tmproto.SignedMsgType(n[2]),
		Height:           n[0],
		Round:            int32(n[1]),
		BlockID:          blockIDOf(n[4]),
		Timestamp:        tm(n[5]),
		ValidatorAddress: addr,
		ValidatorIndex:   int32(n[6]),
	}
	sig := f[7]
	switch {
	case sig == "z":
		v.Signature = make([]byte, 64)
	case sig == "e":
		v.Signature = nil
	case strings.HasPrefix(sig, "s"): // n arbitrary signature bytes (1..64)
		n, err := strconv.Atoi(sig[1:])
		if err != nil || n < 1 || n > 64 {
			return nil, false
		}
		v.Signature = fixed(0x01)[:0]
		for i := 0; i < n; i++ {
			v.Signature = append(v.Signature, 0x01)
		}
	case strings.HasPrefix(sig, "k") || strings.HasPrefix(sig, "w"):
		i, err := strconv.Atoi(sig[1:])
		if err != nil || i < 0 || i > 999 {
			return nil, false
		}
		cid := chainID
		if sig[0] == 'w' {
			cid = "other-chain"
		}
		s, err := privKey(i).Sign(types.VoteSignBytes(cid, v.ToProto()))
		if err != nil {
			return nil, false
		}
		v.Signature = s
	default:
		return nil, false
	}
	return v, true
}

func pint(m map[string]string, k string) (int64, bool) {
	s, ok := m[k]
	if !ok {
		return 0, false
	}
	v, err := strconv.ParseInt(s, 10, 64)
	return v, err == nil
}

func hash12(ev types.Evidence) string { return hex.EncodeToString(ev.Hash())[:12] }

func protoSize(ev types.Evidence) int {
	pb, err := types.EvidenceToProto(ev)
	if err != nil {
		return 0
	}
	return pb.Size()
}

func b01(b bool) string {
	if b {
		return "1"
	}
	return "0"
}

// sigBits: VerifySignature of both votes under the public key of the validator token `addrTok`
func sigBits(d *types.DuplicateVoteEvidence, addrTok string) (bool, bool) {
	i, ok := keyIdx(addrTok)
	if !ok {
		return false, false
	}
	pk := privKey(i).PubKey()
	return pk.VerifySignature(types.VoteSignBytes(chainID, d.VoteA.ToProto()), d.VoteA.Signature),
		pk.VerifySignature(types.VoteSignBytes(chainID, d.VoteB.ToProto()), d.VoteB.Signature)
}

// buildDV builds the object of a `kind=dv` line
func buildDV(m map[string]string) (*types.DuplicateVoteEvidence, bool) {
	a, ok1 := parseVote(m["a"])
	b, ok2 := parseVote(m["b"])
	tvp, ok3 := pint(m, "tvp")
	vp, ok4 := pint(m, "vp")
	t, ok5 := pint(m, "t")
	if !(ok1 && ok2 && ok3 && ok4 && ok5) {
		return nil, false
	}
	return &types.DuplicateVoteEvidence{VoteA: a, VoteB: b, TotalVotingPower: tvp, ValidatorPower: vp, Timestamp: tm(t)}, true
}

// buildLCA builds the object of a `kind=lca` line from its build inputs: common, cfh, cft, tvp, t and
// tag = <attack>.<mutation>. Everything else on the line is derived from the object (lcaToks).
func (c *chain) buildLCA(m map[string]string) (*types.LightClientAttackEvidence, bool) {
	common, ok1 := pint(m, "common")
	cfh, ok2 := pint(m, "cfh")
	cft, ok3 := pint(m, "cft")
	tvp, ok4 := pint(m, "tvp")
	t, ok5 := pint(m, "t")
	tag := strings.Split(m["tag"], ".")
	if !(ok1 && ok2 && ok3 && ok4 && ok5) || len(tag) != 2 || cfh < 1 || c.n() == 0 {
		return nil, false
	}
	atk, mut := tag[0], tag[1]
	baseH := cfh
	if baseH > c.n() {
		baseH = c.n()
	}
	hd := c.blocks[baseH-1].Header // copy
	hd.Height = cfh
	hd.Time = tm(cft)
	round := c.commit[baseH-1].Round
	type cv struct {
		ki    int // key the member signs with (its public key in the set)
		power int64
		aki   int // key whose ADDRESS the member carries (-1: its own)
	}
	var cvs []cv
	ownVals := func(h int64) bool {
		for _, v := range c.blkAt(h).vals {
			ki, ok := keyIdx(v.pk)
			if !ok || v.addr != v.pk {
				return false
			}
			cvs = append(cvs, cv{ki, v.power, -1})
		}
		return true
	}
	switch atk {
	case "lunatic", "lunaticbig":
		hd.AppHash = fixed(0xEE)
		cvs = nil
		for _, v := range c.blkAt(common).vals {
			if ki, ok := keyIdx(v.pk); ok && v.addr == v.pk {
				cvs = append(cvs, cv{ki, v.power, -1})
			}
		}
		cvs = append(cvs, cv{900, 1, -1}) // a phantom validator
		if atk == "lunaticbig" {          // the encoded evidence exceeds 16 KiB
			for k := 0; k < 130; k++ {
				cvs = append(cvs, cv{300 + k, 1, -1})
			}
		}
	case "forge":
		// a forger without any validator key: copies the honest header (other DataHash), signs with his
		// own keys and presents a validator set carrying the honest ADDRESSES and powers next to HIS
		// public keys. The set does not hash to the header's ValidatorsHash (ValidateBasic fails).
		if !ownVals(cfh) {
			return nil, false
		}
		for i := range cvs {
			cvs[i].aki = cvs[i].ki
			cvs[i].ki = 10 + i%10
		}
		hd.DataHash = fixed(0xDB)
	case "equiv":
		if !ownVals(cfh) {
			return nil, false
		}
		hd.DataHash = fixed(0xDD)
	case "amnesia":
		if !ownVals(cfh) {
			return nil, false
		}
		hd.DataHash = fixed(0xDC)
		round++
	case "same":
		if !ownVals(cfh) {
			return nil, false
		}
	default:
		return nil, false
	}
	// single-field perturbations of the header
	switch mut {
	case "d0":
		hd.ValidatorsHash = fixed(0xA0)
	case "d1":
		hd.NextValidatorsHash = fixed(0xA1)
	case "d2":
		hd.ConsensusHash = fixed(0xA2)
	case "d3":
		hd.AppHash = fixed(0xA3)
	case "d4":
		hd.LastResultsHash = fixed(0xA4)
	case "round":
		round++
	case "cvpow":
		if len(cvs) > 0 {
			cvs[0].power++
		}
	}
	if len(cvs) == 0 {
		return nil, false
	}
	vals := make([]*types.Validator, len(cvs))
	byAddr := map[string]int{}
	for i, v := range cvs {
		pk := privKey(v.ki).PubKey()
		vals[i] = types.NewValidator(pk, v.power)
		if v.aki >= 0 {
			vals[i].Address = privKey(v.aki).PubKey().Address()
		}
		byAddr[string(vals[i].Address)] = v.ki
	}
	cvals := types.NewValidatorSet(vals)
	if (atk == "lunatic" || atk == "lunaticbig") && mut != "d0" {
		hd.ValidatorsHash = cvals.Hash()
	}
	id := types.BlockID{Hash: hd.Hash(), PartSetHeader: types.PartSetHeader{Total: 1, Hash: fixed(0xCC)}}
	n := len(cvals.Validators)
	sigs := make([]types.CommitSig, n)
	// slot the slot mutations act on: the last one, or slot 1 for the "...1" variants
	tgt := n - 1
	switch mut {
	case "flagnil1", "flagabs1", "sigaddr1", "sigaddrnil1":
		mut = strings.TrimSuffix(mut, "1")
		tgt = 1
		if n < 2 {
			tgt = 0
		}
	}
	for i, v := range cvals.Validators {
		if (mut == "fewsig" || mut == "wiretotal") && i > 0 {
			sigs[i] = types.NewCommitSigAbsent()
			continue
		}
		if mut == "flagabs" && i == tgt {
			sigs[i] = types.NewCommitSigAbsent()
			continue
		}
		vote := &types.Vote{Type: tmproto.PrecommitType, Height: cfh, Round: round, BlockID: id,
			Timestamp: tm(cft), ValidatorAddress: v.Address, ValidatorIndex: int32(i)}
		s, err := privKey(byAddr[string(v.Address)]).Sign(types.VoteSignBytes(chainID, vote.ToProto()))
		if err != nil {
			return nil, false
		}
		if (mut == "badsig" && i == 0) || (mut == "badsiglast" && i == n-1) {
			s[3] ^= 0x40
		}
		sigs[i] = types.NewCommitSigForBlock(s, v.Address, tm(cft))
		switch {
		case mut == "flagnil" && i == tgt: // a nil vote: never verified, still "not absent"
			sigs[i].BlockIDFlag = types.BlockIDFlagNil
			sigs[i].Signature = fixed(0x55)
		case mut == "sigaddr" && i == tgt: // slot address outside the conflicting set (unauthenticated field)
			sigs[i].ValidatorAddress, _ = addrBytes("0badc0de")
		case mut == "sigaddrnil" && i == tgt: // same on a nil vote
			sigs[i].BlockIDFlag = types.BlockIDFlagNil
			sigs[i].Signature = fixed(0x55)
			sigs[i].ValidatorAddress, _ = addrBytes("0badc0de")
		case mut == "sigaddr2" && i == n-1 && n > 1: // address of another member
			sigs[i].ValidatorAddress = cvals.Validators[0].Address
		}
	}
	cmh := cfh
	if mut == "cmheight" {
		cmh++
	}
	ev := &types.LightClientAttackEvidence{
		ConflictingBlock: &types.LightBlock{
			SignedHeader: &types.SignedHeader{Header: &hd, Commit: types.NewCommit(cmh, round, id, sigs)},
			ValidatorSet: cvals,
		},
		CommonHeight:     common,
		TotalVotingPower: tvp,
		Timestamp:        tm(t),
	}
	// byzantine validators by the intersection rule, computed here (not by the code under test), then mutated
	if common >= 1 && common <= c.n() && cfh <= c.n() {
		ev.ByzantineValidators = c.refByz(ev)
	}
	bz := ev.ByzantineValidators
	switch mut {
	case "byzdrop":
		if len(bz) > 0 {
			ev.ByzantineValidators = bz[:len(bz)-1]
		}
	case "byzextra":
		ev.ByzantineValidators = append(append([]*types.Validator{}, bz...), types.NewValidator(privKey(901).PubKey(), 3))
	case "byzpow":
		if len(bz) > 0 {
			cp := bz[0].Copy()
			cp.VotingPower++
			ev.ByzantineValidators = append([]*types.Validator{cp}, bz[1:]...)
		}
	case "byzaddr":
		if len(bz) > 0 {
			cp := bz[0].Copy()
			cp.Address, _ = addrBytes("0badc0de")
			ev.ByzantineValidators = append([]*types.Validator{cp}, bz[1:]...)
		}
	case "byzswap":
		if len(bz) > 1 {
			r := append([]*types.Validator{}, bz...)
			r[0], r[len(r)-1] = r[len(r)-1], r[0]
			ev.ByzantineValidators = r
		}
	case "byzone": // exactly one entry (what a nil validator would be compared with)
		ev.ByzantineValidators = []*types.Validator{types.NewValidator(privKey(901).PubKey(), 3)}
	case "none", "badsig", "badsiglast", "fewsig", "wiretotal", "flagabs", "flagnil", "sigaddr", "sigaddrnil", "sigaddr2", "cmheight",
		"d0", "d1", "d2", "d3", "d4", "round", "cvpow":
	default:
		return nil, false
	}
	return ev, true
}

// refByz: who misbehaved, from the definition of the three attacks. Lunatic (the conflicting header is
// not derived from the trusted state): members of the common set with a for-block slot in the
// conflicting commit. Equivocation (same round): members of the conflicting set whose slot is present in
// both commits. Amnesia (other round): nobody can be named. Ordered by power (desc), then address.
func (c *chain) refByz(ev *types.LightClientAttackEvidence) []*types.Validator {
	cb := ev.ConflictingBlock
	tr := c.signedHeader(cb.Height)
	if tr == nil {
		return nil
	}
	var out []*types.Validator
	derivedDiffer := !bytes.Equal(tr.ValidatorsHash, cb.ValidatorsHash) || !bytes.Equal(tr.NextValidatorsHash, cb.NextValidatorsHash) ||
		!bytes.Equal(tr.ConsensusHash, cb.ConsensusHash) || !bytes.Equal(tr.AppHash, cb.AppHash) ||
		!bytes.Equal(tr.LastResultsHash, cb.LastResultsHash)
	find := func(vs *types.ValidatorSet, a []byte) *types.Validator {
		for _, v := range vs.Validators {
			if bytes.Equal(v.Address, a) {
				return v
			}
		}
		return nil
	}
	switch {
	case derivedDiffer:
		cv := c.vset(ev.CommonHeight)
		for _, s := range cb.Commit.Signatures {
			if s.BlockIDFlag == types.BlockIDFlagCommit {
				if v := find(cv, s.ValidatorAddress); v != nil {
					out = append(out, v)
				}
			}
		}
	case tr.Commit.Round == cb.Commit.Round:
		for i, s := range cb.Commit.Signatures {
			if s.BlockIDFlag == types.BlockIDFlagAbsent || i >= len(tr.Commit.Signatures) ||
				tr.Commit.Signatures[i].BlockIDFlag == types.BlockIDFlagAbsent {
				continue
			}
			if v := find(cb.ValidatorSet, s.ValidatorAddress); v != nil {
				out = append(out, v)
			}
		}
	}
	sort.SliceStable(out, func(i, j int) bool {
		if out[i].VotingPower != out[j].VotingPower {
			return out[i].VotingPower > out[j].VotingPower
		}
		return bytes.Compare(out[i].Address, out[j].Address) < 0
	})
	return out
}

// lcaToks: the content of light-client-attack evidence as the model reads it
func lcaToks(ev *types.LightClientAttackEvidence) map[string]string {
	out := map[string]string{}
	cb := ev.ConflictingBlock
	out["hh"], out["hd"] = headerToks(cb.Header)
	out["cmh"] = strconv.FormatInt(cb.Commit.Height, 10)
	out["cr"] = strconv.FormatInt(int64(cb.Commit.Round), 10)
	var cv, cs, bz []string
	initToks()
	for _, v := range cb.ValidatorSet.Validators {
		cv = append(cv, fmt.Sprintf("%s:%d:%s", tokOfAddr(v.Address), v.VotingPower, tokOfAddr(v.PubKey.Address())))
	}
	for i, s := range cb.Commit.Signatures {
		sig := "x"
		if s.BlockIDFlag != types.BlockIDFlagAbsent {
			// which harness key (if any) this signature verifies under, for this slot's sign bytes
			sb := func() (b []byte) {
				defer func() { recover() }()
				return cb.Commit.VoteSignBytes(chainID, int32(i))
			}()
			try := []int{}
			if i < len(cb.ValidatorSet.Validators) {
				if k, ok := tokToKey[tokOfAddr(cb.ValidatorSet.Validators[i].PubKey.Address())]; ok {
					try = append(try, k)
				}
			}
			if k, ok := tokToKey[tokOfAddr(s.ValidatorAddress)]; ok {
				try = append(try, k)
			}
			for _, k := range try {
				if sb != nil && privKey(k).PubKey().VerifySignature(sb, s.Signature) {
					sig = "s" + kt(k)
					break
				}
			}
		}
		addr := "00000000"
		if len(s.ValidatorAddress) >= 4 {
			addr = tokOfAddr(s.ValidatorAddress)
		}
		cs = append(cs, fmt.Sprintf("%d:%s:%s", s.BlockIDFlag, addr, sig))
	}
	for _, v := range ev.ByzantineValidators {
		bz = append(bz, fmt.Sprintf("%s:%d", tokOfAddr(v.Address), v.VotingPower))
	}
	join := func(l []string, sep string) string {
		if len(l) == 0 {
			return "-"
		}
		return strings.Join(l, sep)
	}
	out["cv"], out["cs"], out["byz"] = join(cv, ","), join(cs, ";"), join(bz, ",")
	return out
}

// lcaVerdict: VerifyLightClientAttack against the chain's own headers (trusted header taken at the
// conflicting height): reference verdict for the oracle (the model computes its own)
func (c *chain) lcaVerdict(ev *types.LightClientAttackEvidence) (ok bool) {
	common, cfh := ev.CommonHeight, ev.ConflictingBlock.Height
	if common < 1 || common > c.n() || cfh < 1 || cfh > c.n() {
		return false
	}
	defer func() {
		if r := recover(); r != nil {
			ok = false
		}
	}()
	err := evidence.VerifyLightClientAttack(ev, c.signedHeader(common), c.signedHeader(cfh), c.vset(common),
		time.Time{}, time.Duration(c.D))
	return err == nil
}

// define parses an `ev` line into an object and computes the derived tokens
func (c *chain) define(m map[string]string) (*evDef, bool) {
	id, kind := m["id"], m["kind"]
	if id == "" {
		return nil, false
	}
	d := &evDef{id: id, kind: kind, m: m}
	switch kind {
	case "dv":
		ev, ok := buildDV(m)
		if !ok {
			return nil, false
		}
		d.ev = ev
	case "lca":
		ev, ok := c.buildLCA(m)
		if !ok {
			return nil, false
		}
		d.ev = ev
	default:
		return nil, false
	}
	d.raw = d.ev
	d.hash = hash12(d.ev)
	d.sz = protoSize(d.ev)
	d.vb = d.ev.ValidateBasic() == nil
	if kind == "lca" && strings.HasSuffix(m["tag"], ".wiretotal") {
		d.wireTotal = 1 // the sender claims a total of 1: any single signer exceeds 2/3 of it
	}
	if d.vb {
		// evidence reaches the pool decoded from protobuf (reactor message, block): hand the pool
		// the decoded object
		if pb, err := d.toWire(); err == nil {
			if ev2, err := types.EvidenceFromProto(pb); err == nil {
				d.ev = ev2
			} else {
				d.vb = false
			}
		}
	}
	return d, true
}

// toWire: the protobuf message a peer sends for this evidence
func (d *evDef) toWire() (*tmproto.Evidence, error) {
	pb, err := types.EvidenceToProto(d.raw)
	if err != nil {
		return nil, err
	}
	if d.wireTotal != 0 {
		if l := pb.GetLightClientAttackEvidence(); l != nil && l.ConflictingBlock != nil && l.ConflictingBlock.ValidatorSet != nil {
			l.ConflictingBlock.ValidatorSet.TotalVotingPower = d.wireTotal
		}
	}
	return pb, nil
}

// derived tokens of a definition, as they must appear on the line
func (c *chain) derived(d *evDef) map[string]string {
	out := map[string]string{"hash": d.hash, "sz": strconv.Itoa(d.sz), "vb": b01(d.vb)}
	switch ev := d.ev.(type) {
	case *types.DuplicateVoteEvidence:
		sa, sb := sigBits(ev, strings.Split(d.m["a"], "/")[3])
		out["sa"], out["sb"] = b01(sa), b01(sb)
	case *types.LightClientAttackEvidence:
		out["ok"] = b01(c.lcaVerdict(ev))
		for k, v := range lcaToks(ev) {
			out[k] = v
		}
	}
	return out
}

var _ = crypto.AddressSize
