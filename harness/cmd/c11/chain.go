// C11 harness: a generated chain in a real state store / block store, real evidence objects built
// deterministically from the tokens of the op lines.
package main

import (
	"encoding/hex"
	"fmt"
	"strconv"
	"strings"
	"sync"
	"time"

	dbm "github.com/tendermint/tm-db"

	"github.com/tendermint/tendermint/crypto"
	"github.com/tendermint/tendermint/crypto/ed25519"
	"github.com/tendermint/tendermint/evidence"
	tmproto "github.com/tendermint/tendermint/proto/tendermint/types"
	tmversion "github.com/tendermint/tendermint/proto/tendermint/version"
	sm "github.com/tendermint/tendermint/state"
	"github.com/tendermint/tendermint/store"
	"github.com/tendermint/tendermint/types"
	"github.com/tendermint/tendermint/version"
)

const chainID = "c11-chain"

var baseTime = time.Date(2019, 1, 1, 0, 0, 0, 0, time.UTC)

func tm(ns int64) time.Time { return baseTime.Add(time.Duration(ns)) }

var keyCache sync.Map

func privKey(i int) ed25519.PrivKey {
	if k, ok := keyCache.Load(i); ok {
		return k.(ed25519.PrivKey)
	}
	k := ed25519.GenPrivKeyFromSecret([]byte(fmt.Sprintf("c11-key-%d", i)))
	keyCache.Store(i, k)
	return k
}

// address token: k<i> = address of key i, x<hex> = raw bytes
func addrBytes(tok string) ([]byte, bool) {
	if strings.HasPrefix(tok, "k") {
		i, err := strconv.Atoi(tok[1:])
		if err != nil || i < 0 || i > 999 {
			return nil, false
		}
		return privKey(i).PubKey().Address(), true
	}
	if strings.HasPrefix(tok, "x") {
		b, err := hex.DecodeString(tok[1:])
		if err != nil {
			return nil, false
		}
		return b, true
	}
	return nil, false
}

func keyIdx(tok string) (int, bool) {
	if strings.HasPrefix(tok, "k") {
		i, err := strconv.Atoi(tok[1:])
		if err == nil && i >= 0 && i <= 999 {
			return i, true
		}
	}
	return 0, false
}

type valTok struct {
	addr  string // token
	power int64
	pk    string // token k<i>
}

type blkDef struct {
	t    int64
	vals []valTok
}

type evDef struct {
	id   string
	ev   types.Evidence
	kind string
	hash string // 12 hex
	sz   int
	vb   bool
	// line data kept for the oracle's reference verifier
	m map[string]string
}

type chain struct {
	M      int64 // ConsensusParams.Evidence.MaxBytes of every state of the chain
	A, D   int64
	blks   []blkDef
	built  bool
	blocks []*types.Block // index h-1
	parts  []*types.PartSet
	commit []*types.Commit // canonical commit of height h (index h-1)
	vsets  []*types.ValidatorSet

	stateStore sm.Store
	blockStore *store.BlockStore
	evDB       dbm.DB
	storeH     int64
	savedState int64 // highest LastBlockHeight saved in the state store (-1 none)
	pool       *evidence.Pool
	dead       bool
	hook       *hooker
	defs       map[string]*evDef
	order      []string
}

func newChain(A, D int64) *chain {
	return &chain{A: A, D: D, M: 1 << 20, defs: map[string]*evDef{}, savedState: -1}
}

func (c *chain) n() int64 { return int64(len(c.blks)) }

func (c *chain) valSetOf(b blkDef) *types.ValidatorSet {
	vs := make([]*types.Validator, 0, len(b.vals))
	for _, v := range b.vals {
		a, _ := addrBytes(v.addr)
		ki, _ := keyIdx(v.pk)
		vs = append(vs, &types.Validator{Address: a, PubKey: privKey(ki).PubKey(), VotingPower: v.power})
	}
	return types.NewValidatorSet(vs)
}

// V(h), h ≥ 1; heights past the chain repeat the last set
func (c *chain) vset(h int64) *types.ValidatorSet {
	if h < 1 {
		h = 1
	}
	if h > c.n() {
		h = c.n()
	}
	return c.vsets[h-1].Copy()
}

func sameVals(a, b blkDef) bool {
	if len(a.vals) != len(b.vals) {
		return false
	}
	for i := range a.vals {
		if a.vals[i] != b.vals[i] {
			return false
		}
	}
	return true
}

func (c *chain) blkAt(h int64) blkDef {
	if h < 1 {
		h = 1
	}
	if h > c.n() {
		h = c.n()
	}
	return c.blks[h-1]
}

// first height of the run of equal validator sets ending at h
func (c *chain) lastChanged(h int64) int64 {
	l := h
	for l > 1 && sameVals(c.blkAt(l-1), c.blkAt(h)) {
		l--
	}
	return l
}

func fixed(b byte) []byte {
	out := make([]byte, 32)
	for i := range out {
		out[i] = b
	}
	return out
}

func (c *chain) params() tmproto.ConsensusParams {
	p := *types.DefaultConsensusParams()
	p.Evidence.MaxAgeNumBlocks = c.A
	p.Evidence.MaxAgeDuration = time.Duration(c.D)
	p.Evidence.MaxBytes = c.M
	return p
}

func (c *chain) build() {
	if c.built {
		return
	}
	c.built = true
	for _, b := range c.blks {
		c.vsets = append(c.vsets, c.valSetOf(b))
	}
	params := c.params()
	lastID := types.BlockID{}
	lastCommit := types.NewCommit(0, 0, types.BlockID{}, nil)
	for h := int64(1); h <= c.n(); h++ {
		vs := c.vsets[h-1]
		blk := types.MakeBlock(h, nil, lastCommit, nil)
		blk.Header.Version = tmversion.Consensus{Block: version.BlockProtocol, App: 1}
		blk.Header.ChainID = chainID
		blk.Header.Time = tm(c.blks[h-1].t)
		blk.Header.LastBlockID = lastID
		blk.Header.ValidatorsHash = vs.Hash()
		blk.Header.NextValidatorsHash = c.vset(h + 1).Hash()
		blk.Header.ConsensusHash = types.HashConsensusParams(params)
		blk.Header.AppHash = fixed(byte(h))
		blk.Header.LastResultsHash = fixed(0x11)
		blk.Header.ProposerAddress = vs.Validators[0].Address
		ps := blk.MakePartSet(65536)
		id := types.BlockID{Hash: blk.Hash(), PartSetHeader: ps.Header()}
		sigs := make([]types.CommitSig, len(vs.Validators))
		for i, v := range vs.Validators {
			sigs[i] = types.NewCommitSigForBlock(fixed(0x77)[:], v.Address, tm(c.blks[h-1].t))
		}
		cm := types.NewCommit(h, 0, id, sigs)
		c.blocks = append(c.blocks, blk)
		c.parts = append(c.parts, ps)
		c.commit = append(c.commit, cm)
		lastID, lastCommit = id, cm
	}
	c.stateStore = sm.NewStore(dbm.NewMemDB(), sm.StoreOptions{})
	c.blockStore = store.NewBlockStore(dbm.NewMemDB())
	c.evDB = dbm.NewMemDB()
}

// hooker lets the harness run something at a chosen point INSIDE a pool call: the next store lookup
// (block meta) or evidence-DB membership test made by the pool
type hooker struct {
	mu sync.Mutex
	fn func()
}

func (h *hooker) fire() {
	h.mu.Lock()
	f := h.fn
	h.fn = nil
	h.mu.Unlock()
	if f != nil {
		f()
	}
}

type hookBS struct {
	*store.BlockStore
	h *hooker
}

func (b hookBS) LoadBlockMeta(height int64) *types.BlockMeta {
	b.h.fire()
	return b.BlockStore.LoadBlockMeta(height)
}

type hookDB struct {
	dbm.DB
	h *hooker
}

func (d hookDB) Has(k []byte) (bool, error) {
	d.h.fire()
	return d.DB.Has(k)
}

func (c *chain) newPool() (*evidence.Pool, error) {
	if c.hook == nil {
		c.hook = &hooker{}
	}
	return evidence.NewPool(hookDB{c.evDB, c.hook}, c.stateStore, hookBS{c.blockStore, c.hook})
}

// sm.State after block h (h ≥ 0)
func (c *chain) stateAt(h int64) sm.State {
	st := sm.State{
		ChainID:                          chainID,
		InitialHeight:                    1,
		LastBlockHeight:                  h,
		Validators:                       c.vset(h + 1),
		NextValidators:                   c.vset(h + 2),
		LastValidators:                   c.vset(h),
		LastHeightValidatorsChanged:      c.lastChanged(h + 2),
		ConsensusParams:                  c.params(),
		LastHeightConsensusParamsChanged: 1,
		LastResultsHash:                  fixed(0x11),
		AppHash:                          fixed(byte(h + 1)),
	}
	if h >= 1 && h <= c.n() {
		st.LastBlockTime = tm(c.blks[h-1].t)
		st.LastBlockID = c.commit[h-1].BlockID
	} else {
		st.LastBlockTime = baseTime
	}
	return st
}

// grow fills both stores up to height k
func (c *chain) grow(k int64) {
	for h := c.savedState + 1; h <= k; h++ {
		if err := c.stateStore.Save(c.stateAt(h)); err != nil {
			panic(err)
		}
		c.savedState = h
	}
	for h := c.blockStore.Height() + 1; h <= k; h++ {
		c.blockStore.SaveBlock(c.blocks[h-1], c.parts[h-1], c.commit[h-1])
	}
	c.storeH = k
}

func (c *chain) signedHeader(h int64) *types.SignedHeader {
	if h < 1 || h > c.n() {
		return nil
	}
	hd := c.blocks[h-1].Header
	return &types.SignedHeader{Header: &hd, Commit: c.commit[h-1]}
}

// ---------------------------------------------------------------------------------------------
// evidence objects from tokens

func blockIDOf(bid int64) types.BlockID {
	if bid < 0 {
		return types.BlockID{}
	}
	h := fixed(0xAA)
	h[0] = byte(bid)
	return types.BlockID{Hash: h, PartSetHeader: types.PartSetHeader{Total: 1, Hash: fixed(0xBB)}}
}

// vote token: h/r/t/addr/bid/ts/idx/sig
func parseVote(tok string) (*types.Vote, bool) {
	f := strings.Split(tok, "/")
	if len(f) != 8 {
		return nil, false
	}
	var n [8]int64
	for _, i := range []int{0, 1, 2, 4, 5, 6} {
		v, err := strconv.ParseInt(f[i], 10, 64)
		if err != nil {
			return nil, false
		}
		n[i] = v
	}
	addr, ok := addrBytes(f[3])
	if !ok || n[4] > 255 {
		return nil, false
	}
	v := &types.Vote{
		Type:             tmproto.SignedMsgType(n[2]),
		Height:           n[0],
		Round:            int32(n[1]),
		BlockID:          blockIDOf(n[4]),
		Timestamp:        tm(n[5]),
		ValidatorAddress: addr,
		ValidatorIndex:   int32(n[6]),
	}
	sig := f[7]
	switch {
	case sig == "z":
		v.Signature = make([]byte, 64)
	case sig == "e":
		v.Signature = nil
	case strings.HasPrefix(sig, "s"): // n arbitrary signature bytes (1..64)
		n, err := strconv.Atoi(sig[1:])
		if err != nil || n < 1 || n > 64 {
			return nil, false
		}
		v.Signature = fixed(0x01)[:0]
		for i := 0; i < n; i++ {
			v.Signature = append(v.Signature, 0x01)
		}
	case strings.HasPrefix(sig, "k") || strings.HasPrefix(sig, "w"):
		i, err := strconv.Atoi(sig[1:])
		if err != nil || i < 0 || i > 999 {
			return nil, false
		}
		cid := chainID
		if sig[0] == 'w' {
			cid = "other-chain"
		}
		s, err := privKey(i).Sign(types.VoteSignBytes(cid, v.ToProto()))
		if err != nil {
			return nil, false
		}
		v.Signature = s
	default:
		return nil, false
	}
	return v, true
}

func pint(m map[string]string, k string) (int64, bool) {
	s, ok := m[k]
	if !ok {
		return 0, false
	}
	v, err := strconv.ParseInt(s, 10, 64)
	return v, err == nil
}

func hash12(ev types.Evidence) string { return hex.EncodeToString(ev.Hash())[:12] }

func protoSize(ev types.Evidence) int {
	pb, err := types.EvidenceToProto(ev)
	if err != nil {
		return 0
	}
	return pb.Size()
}

func b01(b bool) string {
	if b {
		return "1"
	}
	return "0"
}

// sigBits: VerifySignature of both votes under the public key of the validator token `addrTok`
func sigBits(d *types.DuplicateVoteEvidence, addrTok string) (bool, bool) {
	i, ok := keyIdx(addrTok)
	if !ok {
		return false, false
	}
	pk := privKey(i).PubKey()
	return pk.VerifySignature(types.VoteSignBytes(chainID, d.VoteA.ToProto()), d.VoteA.Signature),
		pk.VerifySignature(types.VoteSignBytes(chainID, d.VoteB.ToProto()), d.VoteB.Signature)
}

// buildDV builds the object of a `kind=dv` line
func buildDV(m map[string]string) (*types.DuplicateVoteEvidence, bool) {
	a, ok1 := parseVote(m["a"])
	b, ok2 := parseVote(m["b"])
	tvp, ok3 := pint(m, "tvp")
	vp, ok4 := pint(m, "vp")
	t, ok5 := pint(m, "t")
	if !(ok1 && ok2 && ok3 && ok4 && ok5) {
		return nil, false
	}
	return &types.DuplicateVoteEvidence{VoteA: a, VoteB: b, TotalVotingPower: tvp, ValidatorPower: vp, Timestamp: tm(t)}, true
}

// buildLCA builds the object of a `kind=lca` line. tag = <attack>.<mutation>
func (c *chain) buildLCA(m map[string]string) (*types.LightClientAttackEvidence, bool) {
	common, ok1 := pint(m, "common")
	cfh, ok2 := pint(m, "cfh")
	cft, ok3 := pint(m, "cft")
	tvp, ok4 := pint(m, "tvp")
	t, ok5 := pint(m, "t")
	tag := strings.Split(m["tag"], ".")
	if !(ok1 && ok2 && ok3 && ok4 && ok5) || len(tag) != 2 || cfh < 1 {
		return nil, false
	}
	atk, mut := tag[0], tag[1]
	baseH := cfh
	if baseH > c.n() {
		baseH = c.n()
	}
	hd := c.blocks[baseH-1].Header // copy
	hd.Height = cfh
	hd.Time = tm(cft)
	round := int32(0)
	// conflicting validator set (by key index) and who signs
	type cv struct {
		ki    int
		power int64
	}
	var cvs []cv
	switch atk {
	case "lunatic", "lunaticbig":
		hd.AppHash = fixed(0xEE)
		for _, v := range c.blkAt(common).vals {
			if ki, ok := keyIdx(v.pk); ok && v.addr == v.pk {
				cvs = append(cvs, cv{ki, v.power})
			}
		}
		cvs = append(cvs, cv{900, 1}) // a phantom validator
		if atk == "lunaticbig" {      // a large conflicting validator set: the encoded evidence exceeds 16 KiB
			for k := 0; k < 130; k++ {
				cvs = append(cvs, cv{300 + k, 1})
			}
		}
	case "equiv", "amnesia", "same":
		for _, v := range c.blkAt(cfh).vals {
			if ki, ok := keyIdx(v.pk); ok && v.addr == v.pk {
				cvs = append(cvs, cv{ki, v.power})
			}
		}
		if len(cvs) != len(c.blkAt(cfh).vals) {
			return nil, false
		}
		if atk == "equiv" {
			hd.DataHash = fixed(0xDD)
		}
		if atk == "amnesia" {
			hd.DataHash = fixed(0xDC)
			round = 1
		}
	default:
		return nil, false
	}
	if len(cvs) == 0 {
		return nil, false
	}
	vals := make([]*types.Validator, len(cvs))
	byAddr := map[string]int{}
	for i, v := range cvs {
		pk := privKey(v.ki).PubKey()
		vals[i] = types.NewValidator(pk, v.power)
		byAddr[string(pk.Address())] = v.ki
	}
	cvals := types.NewValidatorSet(vals)
	if atk == "lunatic" || atk == "lunaticbig" {
		hd.ValidatorsHash = cvals.Hash()
	}
	id := types.BlockID{Hash: hd.Hash(), PartSetHeader: types.PartSetHeader{Total: 1, Hash: fixed(0xCC)}}
	sigs := make([]types.CommitSig, len(cvals.Validators))
	for i, v := range cvals.Validators {
		if mut == "fewsig" && i > 0 {
			sigs[i] = types.NewCommitSigAbsent()
			continue
		}
		vote := &types.Vote{Type: tmproto.PrecommitType, Height: cfh, Round: round, BlockID: id,
			Timestamp: tm(cft), ValidatorAddress: v.Address, ValidatorIndex: int32(i)}
		s, err := privKey(byAddr[string(v.Address)]).Sign(types.VoteSignBytes(chainID, vote.ToProto()))
		if err != nil {
			return nil, false
		}
		if mut == "badsig" && i == 0 {
			s[3] ^= 0x40
		}
		sigs[i] = types.NewCommitSigForBlock(s, v.Address, tm(cft))
	}
	ev := &types.LightClientAttackEvidence{
		ConflictingBlock: &types.LightBlock{
			SignedHeader: &types.SignedHeader{Header: &hd, Commit: types.NewCommit(cfh, round, id, sigs)},
			ValidatorSet: cvals,
		},
		CommonHeight:     common,
		TotalVotingPower: tvp,
		Timestamp:        tm(t),
	}
	// byzantine validators as the full node would compute them (when it has the headers), then mutated
	if common >= 1 && common <= c.n() && cfh <= c.n() {
		func() {
			defer func() { recover() }()
			ev.ByzantineValidators = ev.GetByzantineValidators(c.vset(common), c.signedHeader(cfh))
		}()
	}
	bz := ev.ByzantineValidators
	switch mut {
	case "byzdrop":
		if len(bz) > 0 {
			ev.ByzantineValidators = bz[:len(bz)-1]
		}
	case "byzextra":
		ev.ByzantineValidators = append(append([]*types.Validator{}, bz...), types.NewValidator(privKey(901).PubKey(), 3))
	case "byzpow":
		if len(bz) > 0 {
			cp := bz[0].Copy()
			cp.VotingPower++
			ev.ByzantineValidators = append([]*types.Validator{cp}, bz[1:]...)
		}
	case "byzswap":
		if len(bz) > 1 {
			r := append([]*types.Validator{}, bz...)
			r[0], r[len(r)-1] = r[len(r)-1], r[0]
			ev.ByzantineValidators = r
		}
	case "none", "badsig", "fewsig":
	default:
		return nil, false
	}
	return ev, true
}

// lcaVerdict: VerifyLightClientAttack against the chain's own headers (trusted header taken at the
// conflicting height) — the value of the model's `lcaOK` parameter
func (c *chain) lcaVerdict(ev *types.LightClientAttackEvidence) (ok bool) {
	common, cfh := ev.CommonHeight, ev.ConflictingBlock.Height
	if common < 1 || common > c.n() || cfh < 1 || cfh > c.n() {
		return false
	}
	defer func() {
		if r := recover(); r != nil {
			ok = false
		}
	}()
	err := evidence.VerifyLightClientAttack(ev, c.signedHeader(common), c.signedHeader(cfh), c.vset(common),
		time.Time{}, time.Duration(c.D))
	return err == nil
}

// define parses an `ev` line into an object and computes the derived tokens
func (c *chain) define(m map[string]string) (*evDef, bool) {
	id, kind := m["id"], m["kind"]
	if id == "" {
		return nil, false
	}
	d := &evDef{id: id, kind: kind, m: m}
	switch kind {
	case "dv":
		ev, ok := buildDV(m)
		if !ok {
			return nil, false
		}
		d.ev = ev
	case "lca":
		ev, ok := c.buildLCA(m)
		if !ok {
			return nil, false
		}
		d.ev = ev
	default:
		return nil, false
	}
	d.hash = hash12(d.ev)
	d.sz = protoSize(d.ev)
	d.vb = d.ev.ValidateBasic() == nil
	return d, true
}

// derived tokens of a definition, as they must appear on the line
func (c *chain) derived(d *evDef) map[string]string {
	out := map[string]string{"hash": d.hash, "sz": strconv.Itoa(d.sz), "vb": b01(d.vb)}
	switch ev := d.ev.(type) {
	case *types.DuplicateVoteEvidence:
		sa, sb := sigBits(ev, strings.Split(d.m["a"], "/")[3])
		out["sa"], out["sb"] = b01(sa), b01(sb)
	case *types.LightClientAttackEvidence:
		out["ok"] = b01(c.lcaVerdict(ev))
	}
	return out
}

var _ = crypto.AddressSize
