package main

import (
	"fmt"
	"strconv"
	"strings"

	"verifharness/core"
)

// ---------------------------------------------------------------------------------------------
// property oracle: evaluates C11 itself on the implementation's outputs with a reference verifier
// written from the property text (not from the pool's code): uses only the tokens of the op lines.

type oev struct {
	id, kind string
	m        map[string]string
	key      string // height/hash
	hash     string
	h, t     int64
}

type ovote struct {
	h, r, t int64
	addr    string
	bid     int64
}

func oparseVote(s string) (ovote, bool) {
	f := strings.Split(s, "/")
	if len(f) != 8 {
		return ovote{}, false
	}
	var v ovote
	var err [4]error
	v.h, err[0] = strconv.ParseInt(f[0], 10, 64)
	v.r, err[1] = strconv.ParseInt(f[1], 10, 64)
	v.t, err[2] = strconv.ParseInt(f[2], 10, 64)
	v.bid, err[3] = strconv.ParseInt(f[4], 10, 64)
	v.addr = f[3]
	for _, e := range err {
		if e != nil {
			return v, false
		}
	}
	return v, true
}

type ostate struct {
	A, D      int64
	blks      []blkDef
	defs      map[string]*oev
	storeH    int64
	H, T      int64 // pool's state
	inited    bool
	pend      []string
	comm      []string
	size      int64
	buffer    []string           // ids reported and not yet flushed
	applied   map[int64][]string // height -> keys of the evidence of the block stored at that height
	savedBy   map[int64]bool     // the state of that height was saved by ApplyBlock itself (before it died)
	consensus []string           // every id ever reported
}

func (o *ostate) blk(h int64) (blkDef, bool) {
	if h < 1 || h > int64(len(o.blks)) {
		return blkDef{}, false
	}
	return o.blks[h-1], true
}

func (o *ostate) expired(h, t int64) bool { return o.H-h > o.A && o.T-t > o.D }

// proves: the evidence proves the misbehaviour it claims against the validator set and block time
// of its height (heights the node has)
func (o *ostate) proves(e *oev) bool {
	b, ok := o.blk(e.h)
	if !ok || e.h > o.storeH || e.t != b.t {
		return false
	}
	if e.kind == "lca" {
		cfh, _ := strconv.ParseInt(e.m["cfh"], 10, 64)
		return (e.m["ok"] == "1" || e.m["gen"] == "1") && e.h < o.storeH && cfh < o.storeH && twoThirdsSigned(e.m)
	}
	a, ok1 := oparseVote(e.m["a"])
	bb, ok2 := oparseVote(e.m["b"])
	if !ok1 || !ok2 {
		return false
	}
	tvp, _ := strconv.ParseInt(e.m["tvp"], 10, 64)
	vp, _ := strconv.ParseInt(e.m["vp"], 10, 64)
	var val *valTok
	for i := range b.vals {
		if b.vals[i].addr == a.addr {
			val = &b.vals[i]
			break
		}
	}
	if val == nil || val.pk != val.addr {
		return false
	}
	return a.h == bb.h && a.r == bb.r && a.t == bb.t && a.addr == bb.addr && a.bid != bb.bid &&
		val.power == vp && total(b) == tvp && e.m["sa"] == "1" && e.m["sb"] == "1"
}

// twoThirdsSigned: from the tokens of the line alone (validator set cv = addr:power:pk, slots
// cs = flag:addr:sig where sig = s<pk> iff the signature really verifies under that key): the
// for-block slots with a signature valid under the member of the same position carry more than 2/3
// of the conflicting set's power - necessary for VerifyCommitLight whatever total anybody claims
func twoThirdsSigned(m map[string]string) bool {
	if m["cv"] == "-" || m["cs"] == "-" {
		return false
	}
	cv := strings.Split(m["cv"], ",")
	cs := strings.Split(m["cs"], ";")
	if len(cv) != len(cs) {
		return false
	}
	var total, got int64
	for i := range cv {
		v := strings.Split(cv[i], ":")
		s := strings.Split(cs[i], ":")
		if len(v) != 3 || len(s) != 3 {
			return false
		}
		p, _ := strconv.ParseInt(v[1], 10, 64)
		total += p
		if s[0] == "2" && s[2] == "s"+v[2] {
			got += p
		}
	}
	return 3*got > 2*total
}

func has(l []string, k string) bool {
	for _, x := range l {
		if x == k {
			return true
		}
	}
	return false
}

func parseView(s string) (size int64, pend, comm []string, ok bool) {
	for _, t := range strings.Fields(s) {
		switch {
		case strings.HasPrefix(t, "size="):
			size, _ = strconv.ParseInt(t[5:], 10, 64)
			ok = true
		case strings.HasPrefix(t, "pend=") && t != "pend=-":
			pend = strings.Split(t[5:], ",")
		case strings.HasPrefix(t, "comm=") && t != "comm=-":
			comm = strings.Split(t[5:], ",")
		}
	}
	return
}

func oracle(c core.Case, out []string) []core.Finding {
	var fs []core.Finding
	seen := map[string]bool{}
	add := func(fp, desc string) {
		if !seen[fp] {
			seen[fp] = true
			fs = append(fs, core.Finding{Fingerprint: fp, Desc: desc})
		}
	}
	o := &ostate{defs: map[string]*oev{}}
	for i, op := range c.Ops {
		if i >= len(out) {
			break
		}
		f := strings.Fields(op)
		if len(f) == 0 || strings.HasPrefix(out[i], "bad-op") {
			continue
		}
		m := kv(op)
		res := strings.Fields(out[i])[0]
		switch f[0] {
		case "ctx":
			A, _ := strconv.ParseInt(m["A"], 10, 64)
			D, _ := strconv.ParseInt(m["D"], 10, 64)
			o = &ostate{A: A, D: D, defs: map[string]*oev{}}
			continue
		case "blk":
			t, _ := strconv.ParseInt(m["t"], 10, 64)
			vs, _ := parseVals(m["vals"])
			o.blks = append(o.blks, blkDef{t: t, vals: vs})
			continue
		case "ev":
			e := &oev{id: m["id"], kind: m["kind"], m: m, hash: m["hash"]}
			e.t, _ = strconv.ParseInt(m["t"], 10, 64)
			if e.kind == "dv" {
				if a, ok := oparseVote(m["a"]); ok {
					e.h = a.h
				}
			} else {
				e.h, _ = strconv.ParseInt(m["common"], 10, 64)
			}
			e.key = fmt.Sprintf("%d/%s", e.h, e.hash)
			o.defs[e.id] = e
			continue
		case "pe":
			o.checkPE(m, out[i], add)
			continue
		case "prep":
			if e := o.defs[m["e"]]; e != nil && strings.HasPrefix(out[i], "prep send=") {
				sent := out[i] == "prep send=1"
				ph, err := strconv.ParseInt(m["ph"], 10, 64)
				want := err == nil && ph > e.h && ph-e.h <= o.A
				switch {
				case sent && !want && (err != nil || ph <= e.h):
					add("reactor.prepare.sends-to-peer-behind", fmt.Sprintf("evidence of height %d would be sent to a peer at height %s", e.h, m["ph"]))
				case sent && !want:
					add("reactor.prepare.sends-too-old-for-peer", fmt.Sprintf("evidence of height %d would be sent to a peer at height %d (max age %d blocks)", e.h, ph, o.A))
				case !sent && want:
					add("reactor.prepare.withholds-from-peer", fmt.Sprintf("evidence of height %d is not sent to a peer at height %d (max age %d blocks)", e.h, ph, o.A))
				}
			}
			continue
		}
		size, pend, comm, ok := parseView(out[i])
		if !ok || res == "dead" {
			continue
		}
		if res == "panic" && (f[0] == "add" || f[0] == "check") {
			add("pool."+f[0]+".panics-on-evidence", fmt.Sprintf("verifying evidence crashed instead of rejecting it (op %q): a block or a peer message carrying it takes the node's consensus / peer routine down", op))
			continue
		}
		if res == "panic" {
			// the process died inside Update; what it left in the DB is judged at the restart
			o.size, o.pend, o.comm = size, pend, comm
			continue
		}
		prePend, preComm := o.pend, o.comm
		var committedNow []string
		abHeights := func() (sh, bh int64) {
			for _, t := range strings.Fields(out[i]) {
				if strings.HasPrefix(t, "sh=") {
					sh, _ = strconv.ParseInt(t[3:], 10, 64)
				}
				if strings.HasPrefix(t, "bh=") {
					bh, _ = strconv.ParseInt(t[3:], 10, 64)
				}
			}
			return
		}
		switch f[0] {
		case "abinit":
			h, _ := strconv.ParseInt(m["h"], 10, 64)
			o.storeH, o.inited = h, true
			if b, ok := o.blk(h); ok {
				o.H, o.T = h, b.t
			}
			o.applied, o.savedBy = map[int64][]string{}, map[int64]bool{}
		case "apply":
			h, _ := strconv.ParseInt(m["h"], 10, 64)
			sh, bh := abHeights()
			o.storeH = bh
			if bh != h { // the proposal was rejected: nothing stored
				break
			}
			var keys []string
			if m["ev"] != "-" {
				for _, id := range strings.Split(m["ev"], ",") {
					if e := o.defs[id]; e != nil {
						keys = append(keys, e.key)
					}
				}
			}
			if o.applied == nil {
				o.applied, o.savedBy = map[int64][]string{}, map[int64]bool{}
			}
			o.applied[h], o.savedBy[h] = keys, sh == h
			o.buffer = nil
			if res == "ok" {
				if b, ok := o.blk(h); ok {
					o.H, o.T = h, b.t
				}
				committedNow = keys
				for _, k := range keys {
					if !has(comm, k) {
						add("pool.Update.committed-not-marked", "evidence of the applied block is not in the committed key space: "+k)
					}
					if has(pend, k) {
						add("pool.Update.committed-still-pending", "evidence of the applied block is still pending: "+k)
					}
				}
			} else { // crash: the dead process is judged at the restart
				o.size, o.pend, o.comm = size, pend, comm
				continue
			}
		case "abrestart":
			if res != "ok" {
				add("pool.restart.fails", "restart over the same databases failed: "+out[i])
				break
			}
			sh, bh := abHeights()
			o.storeH = bh
			if b, ok := o.blk(sh); ok {
				o.H, o.T = sh, b.t
			}
			o.buffer = nil
			// "used once" across crashes: evidence of every block the node considers applied is committed
			for h, keys := range o.applied {
				if h > sh {
					continue
				}
				for _, k := range keys {
					if has(comm, k) && !has(pend, k) {
						continue
					}
					committedNow = append(committedNow, k)
					if o.savedBy[h] {
						add("pool.restart.committed-evidence-pending-after-crash", fmt.Sprintf("block %d (evidence %s) was applied and its state saved before the crash; after the restart the evidence is not marked committed (pending: %v): it will be proposed and accepted a second time", h, k, has(pend, k)))
					} else {
						add("pool.restart.committed-evidence-pending-after-replay", fmt.Sprintf("block %d (evidence %s) was stored, the process died before the pool update, the handshake applied it with an empty evidence pool: after the restart the evidence is not marked committed (pending: %v)", h, k, has(pend, k)))
					}
				}
			}
			for _, k := range preComm {
				if !has(comm, k) {
					add("pool.restart.loses-committed", "committed marker lost over a restart: "+k)
				}
			}
		case "init":
			h, _ := strconv.ParseInt(m["h"], 10, 64)
			o.storeH, o.inited = h, true
			if b, ok := o.blk(h); ok {
				o.H, o.T = h, b.t
			}
		case "grow":
			o.storeH, _ = strconv.ParseInt(m["h"], 10, 64)
		case "add", "rpcbroadcast":
			e := o.defs[m["e"]]
			if e == nil {
				break
			}
			if m := e.m["vb"]; m != "1" {
				// malformed evidence must not get in through any entry point
				if has(pend, e.key) && !has(prePend, e.key) {
					add("pool."+f[0]+".admits-malformed."+e.kind, fmt.Sprintf("evidence that fails ValidateBasic was admitted (%s): %s", e.m["tag"], e.key))
				}
				break
			}
			admitted := has(pend, e.key) && !has(prePend, e.key)
			good := o.proves(e) && !o.expired(e.h, e.t) && !has(preComm, e.key)
			if admitted {
				switch {
				case has(preComm, e.key):
					add("pool.AddEvidence.admits-committed", "AddEvidence made committed evidence pending again: "+e.key)
				case o.expired(e.h, e.t):
					add("pool.AddEvidence.admits-expired", fmt.Sprintf("AddEvidence admitted evidence %s expired by both limits (state %d/%d)", e.key, o.H, o.T))
				case !o.proves(e):
					add("pool.AddEvidence.admits-invalid."+e.kind, "AddEvidence admitted evidence the reference verifier rejects: "+op)
				}
			}
			if good && !has(prePend, e.key) && (!admitted || res != "ok") {
				add("pool.AddEvidence.rejects-valid."+e.kind, fmt.Sprintf("AddEvidence did not admit valid, fresh, uncommitted evidence %s: %s", e.key, out[i]))
			}
			// light-client-attack evidence that is a genuine attack by construction must be admitted
			// (independent of the code's own verdict): headers present, fresh, new
			if e.kind == "lca" && !has(prePend, e.key) && !has(preComm, e.key) && !o.expired(e.h, e.t) && e.h >= 1 && e.h < o.storeH && !admitted {
				cfh, _ := strconv.ParseInt(e.m["cfh"], 10, 64)
				atk := strings.Split(e.m["tag"], ".")[0]
				switch {
				case e.m["gen"] == "1" && cfh < o.storeH:
					add("pool.AddEvidence.rejects-valid.lca-"+atk, fmt.Sprintf("AddEvidence did not admit genuine %s evidence %s: %s", atk, e.key, out[i]))
				case e.m["gen"] == "fwd" && cfh > o.storeH:
					add("pool.AddEvidence.rejects-valid.lca-forward-lunatic", fmt.Sprintf("AddEvidence did not admit a genuine forward lunatic attack (conflicting height %d above the node's latest block %d, time not after it): %s", cfh, o.storeH, out[i]))
				}
			}
			if res != "ok" && has(pend, e.key) && !has(prePend, e.key) {
				add("pool.AddEvidence.error-but-pending", "AddEvidence returned an error yet the item became pending")
			}
		case "recv":
			if res != "recv" {
				break
			}
			stopped := strings.Contains(out[i], "stop=1")
			wantStop := false
			cur := append([]string{}, prePend...)
			var ds []*oev
			for _, id := range strings.Split(m["l"], ",") {
				if e := o.defs[id]; e != nil {
					ds = append(ds, e)
					if e.m["vb"] != "1" {
						wantStop = true // the whole message fails to decode / validate
					}
				}
			}
			if !wantStop {
				for _, e := range ds {
					if has(cur, e.key) || has(preComm, e.key) {
						continue
					}
					if o.proves(e) && !o.expired(e.h, e.t) {
						cur = append(cur, e.key)
						continue
					}
					wantStop = true
					break
				}
			} else {
				cur = prePend
			}
			for _, k := range pend {
				if !has(prePend, k) {
					e := o.byKey(k)
					switch {
					case has(preComm, k):
						add("reactor.Receive.admits-committed", "a peer message made committed evidence pending again: "+k)
					case e != nil && o.expired(e.h, e.t):
						add("reactor.Receive.admits-expired", "a peer message got expired evidence admitted: "+k)
					case !has(cur, k):
						add("reactor.Receive.admits-invalid", "a peer message got evidence admitted that the reference verifier rejects (or that follows an invalid item): "+k)
					}
				}
			}
			for _, k := range cur {
				if !has(pend, k) && o.uniqueKey(k) {
					if e := o.byKey(k); e != nil && (e.kind == "dv" || e.m["gen"] == "1") {
						add("reactor.Receive.rejects-valid."+e.kind, "valid, fresh, new evidence from a peer was not admitted: "+k)
					}
				}
			}
			if stopped && !wantStop {
				add("reactor.Receive.punishes-honest-peer", fmt.Sprintf("the peer was stopped although every item of its message was valid or already known (op %q)", op))
			}
			if !stopped && wantStop {
				add("reactor.Receive.keeps-peer-sending-invalid", fmt.Sprintf("a peer sent invalid evidence and was not stopped (op %q)", op))
			}
		case "check":
			if res != "ok" {
				break
			}
			hashes := map[string]bool{}
			for _, id := range strings.Split(m["l"], ",") {
				e := o.defs[id]
				if e == nil {
					continue
				}
				if hashes[e.hash] {
					add("pool.CheckEvidence.accepts-duplicate", "CheckEvidence passed a list with the same evidence twice: "+m["l"])
				}
				hashes[e.hash] = true
				switch {
				case has(preComm, e.key):
					add("pool.CheckEvidence.accepts-committed", "CheckEvidence passed evidence that was committed before: "+e.key)
				case o.expired(e.h, e.t):
					add("pool.CheckEvidence.accepts-expired."+e.kind, fmt.Sprintf("CheckEvidence passed evidence %s (time %d) expired by both limits at state height %d time %d (A=%d D=%d)", e.key, e.t, o.H, o.T, o.A, o.D))
				case !o.proves(e) && !o.fromConsensus(e):
					add("pool.CheckEvidence.accepts-invalid."+e.kind, "CheckEvidence passed evidence the reference verifier rejects: "+id)
				}
			}
		case "update", "cupdate":
			if res != "ok" {
				break
			}
			h, _ := strconv.ParseInt(m["h"], 10, 64)
			if b, ok := o.blk(h); ok {
				o.H, o.T = h, b.t
			}
			if m["ev"] != "-" {
				for _, id := range strings.Split(m["ev"], ",") {
					if e := o.defs[id]; e != nil {
						committedNow = append(committedNow, e.key)
						if !has(comm, e.key) {
							add("pool.Update.committed-not-marked", "evidence of the committed block is not in the committed key space: "+e.key)
						}
						if has(pend, e.key) {
							add("pool.Update.committed-still-pending", "evidence of the committed block is still pending: "+e.key)
						}
					}
				}
			}
			// conflicting votes of decided heights become pending (unless committed / expired at once)
			var keep []string
			for _, id := range o.buffer {
				e := o.defs[id]
				if e == nil {
					continue
				}
				if e.h > h {
					continue // dropped by the code (logged); reported above the state: not claimed
				}
				b, okb := o.blk(e.h)
				formedIsE := okb && e.t == b.t && e.m["tvp"] == strconv.FormatInt(total(b), 10)
				if formedIsE && !has(pend, e.key) && !has(comm, e.key) && !o.expired(e.h, e.t) {
					add("pool.Update.buffer-not-pending", fmt.Sprintf("conflicting votes reported by consensus for height %d are not pending after Update(%d): %s", e.h, h, e.key))
				}
			}
			o.buffer = keep
			if f[0] == "cupdate" { // the concurrent report is ordered after the flush: due at the next Update
				if e := o.defs[m["e"]]; e != nil {
					o.buffer = append(o.buffer, e.id)
					o.consensus = append(o.consensus, e.id)
				}
			}
		case "report":
			if e := o.defs[m["e"]]; e != nil {
				o.buffer = append(o.buffer, e.id)
				o.consensus = append(o.consensus, e.id)
			}
		case "restart":
			if res != "ok" {
				add("pool.restart.fails", "NewPool on the existing evidence DB failed: "+out[i])
				break
			}
			if b, ok := o.blk(o.storeH); ok {
				o.H, o.T = o.storeH, b.t
			}
			o.buffer = nil
			for _, k := range preComm {
				if !has(comm, k) {
					add("pool.restart.loses-committed", "committed marker lost over a restart: "+k)
				}
			}
		}
		// pending evidence survives every operation until committed or expired
		for _, k := range prePend {
			if has(pend, k) || has(committedNow, k) {
				continue
			}
			e := o.byKey(k)
			if e != nil && o.expired(e.h, e.t) {
				continue
			}
			add("pool."+f[0]+".drops-pending", fmt.Sprintf("pending evidence %s disappeared without being committed or expired (op %q)", k, op))
		}
		for _, k := range preComm {
			if !has(comm, k) {
				add("pool."+f[0]+".uncommits", "committed marker removed: "+k)
			}
		}
		for _, k := range pend {
			if has(comm, k) {
				add("pool.pending-and-committed", "evidence is both pending and committed after "+f[0]+": "+k)
			}
		}
		if strings.Contains(out[i], " bad=") && !strings.Contains(out[i], " bad=0") {
			add("pool.pending-fails-ValidateBasic.after-"+f[0], fmt.Sprintf("a pending record does not decode / fails ValidateBasic after %q: a restart fails on it and no peer accepts it (%s)", op, out[i]))
		}
		if size != int64(len(pend)) {
			add("pool.Size.ne-pending-count.after-"+f[0], fmt.Sprintf("Size()=%d but %d items are pending after %q", size, len(pend), op))
		}
		o.size, o.pend, o.comm = size, pend, comm
	}
	return fs
}

func (o *ostate) byKey(k string) *oev {
	var r *oev
	for _, e := range o.defs {
		if e.key == k && (r == nil || e.id < r.id) {
			r = e
		}
	}
	return r
}

// light-client-attack evidence with the same conflicting header and common height shares a key
func (o *ostate) uniqueKey(k string) bool {
	n := 0
	for _, e := range o.defs {
		if e.key == k {
			n++
		}
	}
	return n == 1
}

// fromConsensus: the item was formed from votes reported by consensus (trusted, never verified)
func (o *ostate) fromConsensus(e *oev) bool {
	for _, id := range o.consensus {
		if d := o.defs[id]; d != nil && d.key == e.key {
			return true
		}
	}
	return false
}

func (o *ostate) checkPE(m map[string]string, out string, add func(fp, desc string)) {
	if !strings.HasPrefix(out, "pe ") {
		return
	}
	var n, bytes int64
	real := int64(-1)
	var ids []string
	for _, t := range strings.Fields(out) {
		switch {
		case strings.HasPrefix(t, "n="):
			n, _ = strconv.ParseInt(t[2:], 10, 64)
		case strings.HasPrefix(t, "bytes="):
			bytes, _ = strconv.ParseInt(t[6:], 10, 64)
		case strings.HasPrefix(t, "real="):
			real, _ = strconv.ParseInt(t[5:], 10, 64)
		case strings.HasPrefix(t, "ids=") && t != "ids=-":
			ids = strings.Split(t[4:], ",")
		}
	}
	max, _ := strconv.ParseInt(m["max"], 10, 64)
	if real >= 0 {
		if max >= 0 && real > max {
			add("pool.PendingEvidence.returns-more-than-max-bytes", fmt.Sprintf("PendingEvidence(%d) returned evidence that takes %d bytes in a block (it reported %d)", max, real, bytes))
		}
		if real != bytes {
			add("pool.PendingEvidence.wrong-byte-count", fmt.Sprintf("PendingEvidence reported %d bytes for evidence whose tmproto.EvidenceList takes %d", bytes, real))
		}
	}
	if max >= 0 && bytes > max {
		add("pool.PendingEvidence.exceeds-max-bytes", fmt.Sprintf("PendingEvidence(%d) returned %d bytes", max, bytes))
	}
	var sum int64
	exact := true
	for i, k := range ids {
		exact = exact && o.uniqueKey(k)
		if has(o.comm, k) {
			add("pool.PendingEvidence.returns-committed", "PendingEvidence returned committed evidence "+k)
		}
		if i >= len(o.pend) || o.pend[i] != k {
			add("pool.PendingEvidence.not-prefix-of-pending", "PendingEvidence did not return the oldest pending items in order: "+out)
		}
		if e := o.byKey(k); e != nil {
			if o.expired(e.h, e.t) {
				add("pool.PendingEvidence.returns-expired", fmt.Sprintf("PendingEvidence proposes evidence %s (time %d) expired by both limits at state height %d time %d (A=%d D=%d)", k, e.t, o.H, o.T, o.A, o.D))
			}
			sz, _ := strconv.ParseInt(e.m["sz"], 10, 64)
			sum += 1 + int64(varintLen(uint64(sz))) + sz
		}
	}
	if int64(len(ids)) != n {
		return
	}
	// the proposer gets as much pending evidence as fits: the next pending item must not fit
	if max >= 0 && exact && len(ids) < len(o.pend) && o.uniqueKey(o.pend[len(ids)]) {
		if e := o.byKey(o.pend[len(ids)]); e != nil {
			sz, _ := strconv.ParseInt(e.m["sz"], 10, 64)
			if sum+1+int64(varintLen(uint64(sz)))+sz <= max {
				add("pool.PendingEvidence.returns-less-than-fits", fmt.Sprintf("PendingEvidence(%d) returned %d of %d pending items (%d bytes) although the next one fits", max, len(ids), len(o.pend), sum))
			}
		}
	}
	if exact && sum != bytes && len(ids) > 0 {
		add("pool.PendingEvidence.wrong-byte-count", fmt.Sprintf("PendingEvidence reported %d bytes for items whose list encoding takes %d", bytes, sum))
	}
	if max == -1 && len(ids) != len(o.pend) {
		add("pool.PendingEvidence.unbounded-misses-items", "PendingEvidence(-1) did not return all pending items: "+out)
	}
}

func varintLen(x uint64) int {
	n := 1
	for x >= 128 {
		x >>= 7
		n++
	}
	return n
}
