package main

import (
	"fmt"
	"math/rand"
	"sort"
	"strconv"
	"strings"

	"verifharness/core"
)

// ---------------------------------------------------------------------------------------------
// generator: builds a case by executing it on a private instance of the real code (so that e.g. a
// block is only committed when its evidence passed the check, as ApplyBlock does)

type gctx struct {
	r        *rand.Rand
	c        *chain
	ops      []string
	N        int64
	M        int64
	lastView string
	curH     int64 // pool's state height
	storeH   int64
	nid      int
	ids      []string        // defined evidence ids
	genu     map[string]bool // ids built without perturbation
	kindOf   map[string]string
	reported []string
}

func (g *gctx) do(op string) string {
	g.ops = append(g.ops, op)
	r := execOp(&g.c, op)
	if strings.Contains(r, " pend=") {
		g.lastView = r
	}
	if strings.HasPrefix(r, "panic") && g.r.Intn(4) != 0 { // the node is restarted after a crash
		g.ops = append(g.ops, "restart")
		if strings.HasPrefix(execOp(&g.c, "restart"), "ok") {
			g.curH = g.storeH
		}
	}
	return r
}

func (g *gctx) blk(h int64) blkDef { return g.c.blkAt(h) }

// emitBlk emits the next block line: commit round / slot flags chosen here, header tokens derived
func (g *gctx) emitBlk(t int64, toks []string) {
	r := g.r
	vals, _ := parseVals(strings.Join(toks, ","))
	b := blkDef{t: t, vals: vals}
	if r.Intn(6) == 0 {
		b.round = int32(1 + r.Intn(2))
	}
	fl := make([]string, len(vals))
	for i := range vals {
		f := 2
		if r.Intn(12) == 0 {
			f = []int{1, 3}[r.Intn(2)]
		}
		b.flags = append(b.flags, f)
		fl[i] = strconv.Itoa(f)
	}
	hash, d := g.c.blkToks(b)
	g.do(fmt.Sprintf("blk h=%d t=%d vals=%s cr=%d cf=%s hash=%s d=%s", g.c.n()+1, t, strings.Join(toks, ","), b.round,
		strings.Join(fl, ","), hash, d))
}

func total(b blkDef) int64 {
	var s int64
	for _, v := range b.vals {
		s += v.power
	}
	return s
}

func voteTok(h, round, typ int64, addr string, bid, ts, idx int64, sig string) string {
	return fmt.Sprintf("%d/%d/%d/%s/%d/%d/%d/%s", h, round, typ, addr, bid, ts, idx, sig)
}

type dvFields struct {
	ah, ar, at int64
	aaddr      string
	abid, ats  int64
	aidx       int64
	asig       string
	bh, br, bt int64
	baddr      string
	bbid, bts  int64
	bidx       int64
	bsig       string
	tvp, vp, t int64
}

func (f dvFields) line(id string) string {
	return fmt.Sprintf("ev id=%s kind=dv a=%s b=%s tvp=%d vp=%d t=%d", id,
		voteTok(f.ah, f.ar, f.at, f.aaddr, f.abid, f.ats, f.aidx, f.asig),
		voteTok(f.bh, f.br, f.bt, f.baddr, f.bbid, f.bts, f.bidx, f.bsig), f.tvp, f.vp, f.t)
}

// complete appends the derived tokens (computed by the real functions) to a definition line
func (g *gctx) complete(line string) (string, bool) {
	m := kv(line)
	g.c.build()
	d, ok := g.c.define(m)
	if !ok {
		return "", false
	}
	der := g.c.derived(d)
	keys := make([]string, 0, len(der))
	for k := range der {
		keys = append(keys, k)
	}
	sort.Strings(keys)
	for _, k := range keys {
		line += " " + k + "=" + der[k]
	}
	return line, true
}

func (g *gctx) newID(p string) string {
	g.nid++
	return fmt.Sprintf("%s%d", p, g.nid)
}

func (g *gctx) pickHeight() int64 {
	r := g.r
	switch r.Intn(10) {
	case 0:
		return 1 + r.Int63n(g.N)
	case 1:
		return g.curH + 1 + r.Int63n(2)
	case 2:
		return int64(r.Intn(3)) - 1 // -1, 0, 1
	default:
		h := g.curH - r.Int63n(g.c.A+3)
		if h < 1 {
			h = 1
		}
		return h
	}
}

func (g *gctx) genuineDV(h int64) dvFields {
	r := g.r
	b := g.blk(h)
	vi := r.Intn(len(b.vals))
	v := b.vals[vi]
	t := b.t
	bid1 := int64(r.Intn(4))
	bid2 := bid1 + 1 + int64(r.Intn(3))
	round := int64(r.Intn(2))
	typ := int64(1 + r.Intn(2))
	sig := "z"
	if ki, ok := keyIdx(v.pk); ok {
		sig = fmt.Sprintf("k%d", ki)
	}
	return dvFields{ah: h, ar: round, at: typ, aaddr: v.addr, abid: bid1, ats: t + 5, aidx: int64(vi), asig: sig,
		bh: h, br: round, bt: typ, baddr: v.addr, bbid: bid2, bts: t + 7, bidx: int64(vi), bsig: sig,
		tvp: total(b), vp: v.power, t: t}
}

func (g *gctx) perturbDV(f dvFields) (dvFields, string) {
	r := g.r
	other := func(a string) string {
		if r.Intn(3) == 0 {
			return "abababab"
		}
		return kt(r.Intn(6))
	}
	names := []string{"a.height", "b.height", "both.height", "a.round", "b.round", "a.type", "b.type", "both.type3",
		"a.addr", "b.addr", "both.addr", "same-block", "order", "b.nil-block", "a.ts", "b.ts", "a.idx", "b.idx",
		"a.sig-zero", "b.sig-zero", "a.sig-otherchain", "b.sig-otherkey", "a.sig-empty", "tvp", "vp", "t+1", "t-other-height", "idx-negative"}
	n := names[r.Intn(len(names))]
	d := int64(1)
	if r.Intn(2) == 0 {
		d = -1
	}
	switch n {
	case "a.height":
		f.ah += d
	case "b.height":
		f.bh += d
	case "both.height":
		f.ah += d
		f.bh += d
	case "a.round":
		f.ar++
	case "b.round":
		f.br++
	case "a.type":
		f.at = 3 - f.at
	case "b.type":
		f.bt = 3 - f.bt
	case "both.type3":
		f.at, f.bt = 3, 3
	case "a.addr":
		f.aaddr = other(f.aaddr)
	case "b.addr":
		f.baddr = other(f.baddr)
	case "both.addr":
		o := other(f.aaddr)
		f.aaddr, f.baddr = o, o
	case "same-block":
		f.bbid = f.abid
	case "order":
		f.abid, f.bbid = f.bbid, f.abid
	case "b.nil-block":
		f.abid, f.bbid = -1, f.abid
	case "a.ts":
		f.ats += 1000
	case "b.ts":
		f.bts += 1000
	case "a.idx":
		f.aidx++
	case "b.idx":
		f.bidx++
	case "a.sig-zero":
		f.asig = "z"
	case "b.sig-zero":
		f.bsig = "z"
	case "a.sig-otherchain":
		f.asig = "w" + f.asig[1:]
	case "b.sig-otherkey":
		f.bsig = fmt.Sprintf("k%d", 7+r.Intn(2))
	case "a.sig-empty":
		f.asig = "e"
	case "tvp":
		f.tvp += d
	case "vp":
		f.vp += d
	case "t+1":
		f.t += d
	case "t-other-height":
		f.t = g.blk(f.ah + d).t
	case "idx-negative":
		f.aidx = -1
	}
	return f, n
}

// defineDV emits a definition; returns the id ("" if the line could not be built)
func (g *gctx) defineDV(f dvFields, genuine bool) string {
	id := g.newID("d")
	line, ok := g.complete(f.line(id))
	if !ok {
		return ""
	}
	if r := g.do(line); r != "ok" {
		return ""
	}
	g.ids = append(g.ids, id)
	g.genu[id] = genuine
	g.kindOf[id] = "dv"
	return id
}

func (g *gctx) defineLCA() string {
	r := g.r
	atk := []string{"lunatic", "lunatic", "equiv", "equiv", "amnesia", "same", "lunatic", "lunaticbig", "forge"}[r.Intn(9)]
	mut := "none"
	if r.Intn(5) < 2 { // every single-field perturbation of the evidence
		muts := []string{"badsig", "badsiglast", "fewsig", "flagabs", "flagnil", "sigaddr", "sigaddrnil", "sigaddr2", "cmheight",
			"d0", "d1", "d2", "d3", "d4", "round", "cvpow", "byzdrop", "byzextra", "byzpow", "byzaddr", "byzswap", "byzone",
			"sigaddr", "sigaddrnil", "flagnil", "flagnil1", "flagabs1", "sigaddr1", "sigaddrnil1", "wiretotal", "wiretotal"}
		mut = muts[r.Intn(len(muts))]
		if r.Intn(5) == 0 { // who counts as a signer: nil / absent / misaddressed slots of members
			mut = []string{"flagnil", "flagnil1", "flagabs1", "sigaddr1", "sigaddrnil1"}[r.Intn(5)]
		}
	}
	common := g.pickHeight()
	if common < 1 {
		common = 1
	}
	if common > g.N {
		common = g.N
	}
	cfh := common
	if atk == "lunatic" || atk == "lunaticbig" {
		cfh = common + 1 + r.Int63n(3)
		if r.Intn(8) == 0 {
			cfh = g.N + 1 + r.Int63n(2) // forward lunatic
		}
	}
	cb := g.blk(cfh)
	cft := cb.t
	if r.Intn(3) == 0 {
		cft += int64(r.Intn(3)) * 500000000
	}
	b := g.blk(common)
	tvp, t := total(b), b.t
	// gen: genuine by construction (an unperturbed attack of a known kind): the oracle expects it to
	// be admitted when fresh; "fwd" = genuine forward lunatic attack (conflicting block above the
	// node's chain whose time does not exceed the latest block's)
	gen := "0"
	if mut == "none" && atk != "same" && atk != "forge" {
		gen = "1"
		for _, v := range g.blk(common).vals { // the attackers must hold keys of the common set
			if v.addr != v.pk {
				gen = "0"
			}
		}
	}
	if cfh > g.N {
		cft = g.blk(g.N).t - int64(r.Intn(2))*1000000000
		if gen == "1" {
			gen = "fwd"
		}
	}
	switch r.Intn(12) {
	case 0:
		tvp++
		gen = "0"
		mut2("lca.tvp")
	case 1:
		t++
		gen = "0"
		mut2("lca.t")
	case 2:
		if common > 1 {
			common-- // timestamp / total power now belong to another height
			gen = "0"
			mut2("lca.common-1")
		}
	}
	mutHist["lca."+atk+"."+mut]++
	id := g.newID("l")
	line, ok := g.complete(fmt.Sprintf("ev id=%s kind=lca common=%d cfh=%d cft=%d tvp=%d t=%d tag=%s.%s gen=%s", id, common, cfh, cft, tvp, t, atk, mut, gen))
	if !ok {
		return ""
	}
	if r := g.do(line); r != "ok" {
		return ""
	}
	g.ids = append(g.ids, id)
	g.kindOf[id] = "lca"
	return id
}

func mut2(n string) { mutHist[n]++ }

// someEvidence returns an id: a fresh genuine / perturbed / light-client-attack item or an old one
func (g *gctx) someEvidence() string {
	r := g.r
	if len(g.ids) > 0 && r.Intn(3) == 0 {
		return g.ids[r.Intn(len(g.ids))]
	}
	for try := 0; try < 5; try++ {
		var id string
		switch k := r.Intn(10); {
		case k < 4:
			h := g.pickHeight()
			if h < 1 || h > g.N {
				h = 1 + r.Int63n(g.N)
			}
			id = g.defineDV(g.genuineDV(h), true)
			mut2("dv.genuine")
		case k < 8:
			h := g.pickHeight()
			hh := h
			if hh < 1 || hh > g.N {
				hh = 1 + r.Int63n(g.N)
			}
			f, n := g.perturbDV(g.genuineDV(hh))
			if r.Intn(6) == 0 {
				f, _ = g.perturbDV(f)
			}
			mut2("dv." + n)
			id = g.defineDV(f, false)
		default:
			id = g.defineLCA()
		}
		if id != "" {
			return id
		}
	}
	if len(g.ids) > 0 {
		return g.ids[r.Intn(len(g.ids))]
	}
	return "none"
}

func (g *gctx) growTo(h int64) {
	if h > g.N {
		h = g.N
	}
	if h > g.storeH {
		g.do(fmt.Sprintf("grow h=%d", h))
		g.storeH = h
	}
}

func pendOf(view string) []string {
	i := strings.Index(view, "pend=")
	if i < 0 {
		return nil
	}
	s := strings.Fields(view[i+5:])[0]
	if s == "-" {
		return nil
	}
	return strings.Split(s, ",")
}

func genCase(r *rand.Rand, long bool) core.Case {
	A := int64(r.Intn(5))
	if r.Intn(6) == 0 {
		A = int64(r.Intn(3)) + 5
	}
	D := []int64{0, 1000000000, 2500000000, 5000000000, 20000000000, 1}[r.Intn(6)]
	N := int64(6 + r.Intn(20))
	if long {
		N = int64(20 + r.Intn(21))
	}
	// Evidence.MaxBytes: often only one to four items' worth, so a pending backlog exceeds a block
	M := []int64{300, 450, 800, 1000, 1300, 1700, 2500, 5000, 30000, 1 << 20}[r.Intn(10)]
	g := &gctx{r: r, N: N, M: M, genu: map[string]bool{}, kindOf: map[string]string{}}
	g.do(fmt.Sprintf("ctx A=%d D=%d M=%d", A, D, M))
	// validators
	cur := map[int]int64{}
	powers := []int64{1, 2, 5, 10, 100}
	nv := 1 + r.Intn(4)
	for len(cur) < nv {
		cur[r.Intn(5)] = powers[r.Intn(len(powers))]
	}
	t := int64(0)
	badPk := r.Intn(25) == 0
	for h := int64(1); h <= N; h++ {
		t += []int64{300000000, 1000000000, 1000000001, 1500000000, 2000000000, 5000000000}[r.Intn(6)]
		if h > 1 && r.Intn(5) == 0 {
			switch k := r.Intn(5); {
			case len(cur) > 1 && r.Intn(3) == 0:
				ks := make([]int, 0, len(cur))
				for x := range cur {
					ks = append(ks, x)
				}
				sort.Ints(ks)
				delete(cur, ks[r.Intn(len(ks))])
			case r.Intn(2) == 0:
				cur[k] = powers[r.Intn(len(powers))]
			default:
				cur[k] = cur[k] + 1
			}
		}
		ks := make([]int, 0, len(cur))
		for k := range cur {
			ks = append(ks, k)
		}
		sort.Ints(ks)
		toks := make([]string, len(ks))
		for i, k := range ks {
			pk := k
			if badPk && i == 0 {
				pk = 6 // address of key k, public key of key 6
			}
			toks[i] = fmt.Sprintf("%s:%d:%s", kt(k), cur[k], kt(pk))
		}
		g.emitBlk(t, toks)
	}
	h0 := 1 + r.Int63n(4)
	if h0 > N {
		h0 = N
	}
	if r.Intn(4) == 0 { // some evidence defined before the pool exists
		g.c.A, g.c.D = A, D
		g.someEvidence()
	}
	g.do(fmt.Sprintf("init h=%d", h0))
	g.curH, g.storeH = h0, h0
	budget := 20 + r.Intn(40)
	if long {
		budget = 60 + r.Intn(80)
	}
	for i := 0; i < budget && g.curH < N; i++ {
		switch k := r.Intn(100); {
		case k < 3:
			g.concurrentReport()
		case k < 6: // a peer's evidence message, and what we would gossip to a peer at some height
			if r.Intn(3) != 0 {
				n := 1 + r.Intn(3)
				var l []string
				for j := 0; j < n; j++ {
					l = append(l, g.someEvidence())
				}
				g.do("recv l=" + strings.Join(l, ","))
			} else {
				ph := fmt.Sprint(g.curH - 3 + r.Int63n(int64(g.c.A)+8))
				if r.Intn(10) == 0 {
					ph = "-"
				}
				g.do(fmt.Sprintf("prep e=%s ph=%s", g.someEvidence(), ph))
			}
		case k < 11:
			g.unseenBlock()
		case k < 15:
			g.peNear()
		case k < 18: // small / same-hash evidence through the consensus buffer
			h := g.curH + 1
			if h > N {
				h = g.curH
			}
			f := g.smallDV(h)
			if r.Intn(2) == 0 {
				f = g.sameHashDV(h)
			}
			if id := g.defineDV(f, true); id != "" {
				g.do(fmt.Sprintf("report e=%s swap=%d", id, r.Intn(2)))
			}
		case k < 25:
			g.do("rpcbroadcast e=" + g.someEvidence())
		case k < 32:
			g.do("add e=" + g.someEvidence())
		case k < 42:
			n := 1 + r.Intn(3)
			var l []string
			for j := 0; j < n; j++ {
				if j > 0 && r.Intn(5) == 0 {
					l = append(l, l[r.Intn(len(l))])
				} else {
					l = append(l, g.someEvidence())
				}
			}
			g.do("check l=" + strings.Join(l, ","))
		case k < 62: // a block: evidence from the pool's own proposal and/or from outside
			var l []string
			if r.Intn(2) == 0 {
				mx := g.M // CreateProposalBlock: PendingEvidence(state.ConsensusParams.Evidence.MaxBytes)
				if r.Intn(4) == 0 {
					mx = []int64{-1, 400, 1000, 1 << 20}[r.Intn(4)]
				}
				out := g.do(fmt.Sprintf("pe max=%d", mx))
				if i := strings.Index(out, "ids="); i >= 0 && out[i+4:] != "-" {
					for _, k := range strings.Split(out[i+4:], ",") {
						if id := g.idOfKey(k); id != "" {
							l = append(l, id)
						}
					}
				}
			}
			for r.Intn(3) == 0 {
				l = append(l, g.someEvidence())
			}
			g.growTo(g.curH + 1)
			ls := "-"
			if len(l) > 0 {
				ls = strings.Join(l, ",")
			}
			res := "ok"
			if len(l) > 0 {
				res = g.do("check l=" + ls)
				if r.Intn(4) == 0 { // ValidateBlock runs more than once per block
					res = g.do("check l=" + ls)
				}
			}
			if !strings.HasPrefix(res, "ok") {
				ls = "-"
			}
			if strings.HasPrefix(g.do(fmt.Sprintf("update h=%d ev=%s", g.curH+1, ls)), "ok") {
				g.curH++
			}
		case k < 74:
			step := int64(1)
			if r.Intn(5) == 0 {
				step = 1 + r.Int63n(4)
			}
			nh := g.curH + step
			if nh > N {
				nh = N
			}
			g.growTo(nh)
			if strings.HasPrefix(g.do(fmt.Sprintf("update h=%d ev=-", nh)), "ok") {
				g.curH = nh
			}
		case k < 82: // consensus saw conflicting votes at the height being decided (or reports late)
			h := g.curH + 1
			if r.Intn(4) == 0 {
				h = g.pickHeight()
			}
			if h < 1 || h > N {
				h = g.curH
			}
			f := g.genuineDV(h)
			if r.Intn(12) == 0 { // a validator outside the set: the code dereferences a nil evidence
				f.aaddr, f.baddr = kt(9), kt(9)
				mut2("report.non-validator")
			}
			id := g.defineDV(f, true)
			if id != "" {
				g.do(fmt.Sprintf("report e=%s swap=%d", id, r.Intn(2)))
				if r.Intn(3) == 0 {
					g.do(fmt.Sprintf("report e=%s swap=%d", id, r.Intn(2)))
				}
			}
		case k < 90:
			if r.Intn(2) == 0 {
				g.growTo(g.curH + 1) // crash after the state was saved, before the pool was updated
			}
			if strings.HasPrefix(g.do("restart"), "ok") {
				g.curH = g.storeH
			}
			if r.Intn(2) == 0 {
				g.do(fmt.Sprintf("pe max=%d", []int64{-1, g.M, 600}[r.Intn(3)]))
			}
		case k < 96:
			g.do(fmt.Sprintf("pe max=%d", []int64{-1, 0, 1, 300, 600, 1200, 1 << 20, -2, g.M, g.M}[r.Intn(10)]))
		case k < 97:
			g.do(fmt.Sprintf("update h=%d ev=-", g.curH-int64(r.Intn(2)))) // not above the pool's state: panics
		default:
			g.do(hostileLine(r, g))
		}
	}
	g.do("pe max=-1")
	g.do("restart")
	if g.c != nil && g.c.evDB != nil {
		g.c.evDB.Close()
	}
	kind := "pool"
	if long {
		kind = "pool-long"
	}
	return core.Case{Kind: kind, Ops: g.ops}
}

var lcaMuts = []string{"none", "wiretotal", "badsig", "badsiglast", "fewsig", "flagabs", "flagabs1", "flagnil", "flagnil1", "sigaddr", "sigaddr1",
	"sigaddrnil", "sigaddrnil1", "sigaddr2", "cmheight", "d0", "d1", "d2", "d3", "d4", "round", "cvpow", "byzdrop", "byzextra", "byzpow",
	"byzaddr", "byzswap", "byzone"}

// genLCASweep: every single-field perturbation of every attack kind, placed where verification is
// reached (headers present, nothing expires) and where one changed slot does not by itself break
// the +2/3 / +1/3 thresholds (4..5 validators of similar power)
func genLCASweep(r *rand.Rand) core.Case {
	N := int64(8)
	g := &gctx{r: r, N: N, M: 1 << 20, genu: map[string]bool{}, kindOf: map[string]string{}}
	g.do("ctx A=100 D=0 M=1048576")
	nv := 4 + r.Intn(2)
	pw := []int64{10, 10, 10, 10, 10}
	if r.Intn(2) == 0 {
		pw = []int64{10, 9, 8, 7, 6}
	}
	var toks []string
	for k := 0; k < nv; k++ {
		toks = append(toks, fmt.Sprintf("%s:%d:%s", kt(k), pw[k], kt(k)))
	}
	t := int64(0)
	for h := int64(1); h <= N; h++ {
		t += 1000000000
		g.emitBlk(t, toks)
	}
	g.do(fmt.Sprintf("init h=%d", N))
	g.curH, g.storeH = N, N
	atks := []string{"lunatic", "equiv", "amnesia", "forge"}
	perm := r.Perm(len(lcaMuts))
	for _, pi := range perm {
		mut := lcaMuts[pi]
		atk := atks[r.Intn(4)]
		common := 1 + r.Int63n(4)
		cfh := common
		if atk == "lunatic" {
			cfh = common + 1 + r.Int63n(2)
		}
		b := g.blk(common)
		gen := "0"
		if mut == "none" && atk != "forge" {
			gen = "1"
		}
		id := g.newID("l")
		line, ok := g.complete(fmt.Sprintf("ev id=%s kind=lca common=%d cfh=%d cft=%d tvp=%d t=%d tag=%s.%s gen=%s", id, common, cfh,
			g.blk(cfh).t+int64(r.Intn(2)), total(b), b.t, atk, mut, gen))
		if !ok || g.do(line) != "ok" {
			continue
		}
		g.ids = append(g.ids, id)
		mutHist["sweep."+atk+"."+mut]++
		switch r.Intn(5) {
		case 0:
			g.do("check l=" + id)
		case 1:
			g.do("recv l=" + id)
		case 2, 3:
			g.do("rpcbroadcast e=" + id)
		default:
			g.do("add e=" + id)
		}
	}
	g.do("pe max=-1")
	if g.c != nil && g.c.evDB != nil {
		g.c.evDB.Close()
	}
	return core.Case{Kind: "lca-sweep", Ops: g.ops}
}

// genApplyBlock: a genuine chain applied block by block through BlockExecutor.ApplyBlock with the
// real pool; crashes at every point inside ApplyBlock, restarts over the same databases, and the
// evidence of the interrupted block offered again
func genApplyBlock(r *rand.Rand) core.Case {
	N := int64(8 + r.Intn(7))
	A := int64(3 + r.Intn(6))
	D := []int64{1, 3000000000, 100000000000}[r.Intn(3)]
	g := &gctx{r: r, N: N, M: 1 << 20, genu: map[string]bool{}, kindOf: map[string]string{}}
	g.do(fmt.Sprintf("ctx A=%d D=%d M=1048576 mode=ab", A, D))
	nv := 1 + r.Intn(3)
	var toks, fl []string
	for k := 0; k < nv; k++ {
		toks = append(toks, fmt.Sprintf("%s:%d:%s", kt(k), []int64{1, 5, 10}[r.Intn(3)], kt(k)))
		fl = append(fl, "2")
	}
	t := int64(0)
	for h := int64(1); h <= N; h++ {
		t += []int64{1000000000, 1500000000, 2000000000}[r.Intn(3)]
		g.do(fmt.Sprintf("blk h=%d t=%d vals=%s cr=0 cf=%s hash=00000000 d=00000000.00000000.00000000.00000000.00000000",
			h, t, strings.Join(toks, ","), strings.Join(fl, ",")))
	}
	h0 := 2 + r.Int63n(2)
	g.do(fmt.Sprintf("abinit h=%d", h0))
	g.curH, g.storeH = h0, h0
	proposal := func() string {
		out := g.do("pe max=1048576")
		var l []string
		if i := strings.Index(out, "ids="); i >= 0 && out[i+4:] != "-" {
			for _, k := range strings.Split(out[i+4:], ",") {
				if id := g.idOfKey(k); id != "" {
					l = append(l, id)
				}
			}
		}
		if len(l) == 0 {
			return "-"
		}
		return strings.Join(l, ",")
	}
	for g.curH < N {
		for i := 0; i < r.Intn(3); i++ {
			h := 1 + r.Int63n(g.curH)
			id := g.defineDV(g.genuineDV(h), true)
			if id == "" {
				continue
			}
			switch r.Intn(5) {
			case 0:
				g.do("recv l=" + id)
			case 1:
				g.do("rpcbroadcast e=" + id)
			case 2:
				g.do(fmt.Sprintf("report e=%s swap=%d", id, r.Intn(2)))
			default:
				g.do("add e=" + id)
			}
		}
		evs := proposal()
		if evs == "-" && r.Intn(4) == 0 { // evidence the pool never saw, straight from a block
			if id := g.defineDV(g.genuineDV(1+r.Int63n(g.curH)), true); id != "" {
				evs = id
			}
		}
		crash := "-"
		if r.Intn(2) == 0 {
			crash = []string{"b1", "a1", "b2", "a2", "b3", "a3"}[r.Intn(6)]
		}
		out := g.do(fmt.Sprintf("apply h=%d ev=%s crash=%s", g.curH+1, evs, crash))
		switch {
		case strings.HasPrefix(out, "ok"):
			g.curH++
		case strings.HasPrefix(out, "crash") || strings.HasPrefix(out, "panic"):
			if r.Intn(3) == 0 {
				g.do("pe max=-1") // dead
			}
			if strings.HasPrefix(g.do("abrestart"), "ok") {
				g.curH++ // the handshake brings the state to the stored block
			}
			g.do("pe max=-1")
			if evs != "-" {
				g.do("check l=" + evs)
				if r.Intn(2) == 0 {
					g.do("add e=" + strings.Split(evs, ",")[0])
				}
			}
		default: // the proposal was rejected
			if r.Intn(2) == 0 {
				g.do(fmt.Sprintf("apply h=%d ev=- crash=-", g.curH+1))
				if g.c.abn != nil && g.c.abn.state.LastBlockHeight == g.curH+1 {
					g.curH++
				}
			}
		}
		g.storeH = g.curH
	}
	g.do("pe max=-1")
	g.do("abrestart")
	g.do("pe max=-1")
	if g.c != nil {
		g.c.abClose()
		if g.c.evDB != nil {
			g.c.evDB.Close()
		}
	}
	return core.Case{Kind: "applyblock", Ops: g.ops}
}

// genBacklog: a pending backlog larger than one block's worth of evidence (small Evidence.MaxBytes,
// limits that do not expire it), carried across restarts and drained block by block
func genBacklog(r *rand.Rand) core.Case {
	A := int64(20 + r.Intn(30))
	D := []int64{0, 5000000000, 100000000000}[r.Intn(3)]
	N := int64(8 + r.Intn(12))
	M := []int64{300, 450, 800, 1000, 1300, 2000, 26000, 60000}[r.Intn(8)]
	g := &gctx{r: r, N: N, M: M, genu: map[string]bool{}, kindOf: map[string]string{}}
	g.do(fmt.Sprintf("ctx A=%d D=%d M=%d", A, D, M))
	t := int64(0)
	nv := 1 + r.Intn(3)
	var toks []string
	for k := 0; k < nv; k++ {
		toks = append(toks, fmt.Sprintf("%s:%d:%s", kt(k), []int64{1, 5, 10}[r.Intn(3)], kt(k)))
	}
	for h := int64(1); h <= N; h++ {
		t += []int64{1000000000, 1500000000, 2000000000}[r.Intn(3)]
		g.emitBlk(t, toks)
	}
	h0 := 2 + r.Int63n(3)
	g.do(fmt.Sprintf("init h=%d", h0))
	g.curH, g.storeH = h0, h0
	fill := func(n int) {
		for i := 0; i < n; i++ {
			h := 1 + r.Int63n(g.curH)
			switch r.Intn(6) {
			case 0:
				if id := g.defineLCA(); id != "" {
					g.do("check l=" + id)
				}
			case 1:
				if id := g.defineDV(g.genuineDV(h), true); id != "" {
					g.do("check l=" + id)
				}
			case 2:
				f := g.genuineDV(g.curH)
				switch r.Intn(3) {
				case 0:
					f = g.smallDV(g.curH)
				case 1:
					f = g.sameHashDV(g.curH)
				}
				if id := g.defineDV(f, true); id != "" {
					g.do(fmt.Sprintf("report e=%s swap=%d", id, r.Intn(2)))
				}
			default:
				if id := g.defineDV(g.genuineDV(h), true); id != "" {
					g.do("add e=" + id)
				}
			}
		}
	}
	fill(3 + r.Intn(6))
	for round := 0; round < 2+r.Intn(4) && g.curH < N; round++ {
		switch r.Intn(4) {
		case 0:
			g.growTo(g.curH + 1)
		case 1:
			fill(1 + r.Intn(3))
		}
		g.do("restart")
		g.curH = g.storeH
		g.do(fmt.Sprintf("pe max=%d", []int64{-1, g.M, g.M, 2 * g.M}[r.Intn(4)]))
		// drain: blocks carrying what the proposer gets within the cap
		for b := 0; b < 1+r.Intn(3) && g.curH < N; b++ {
			out := g.do(fmt.Sprintf("pe max=%d", g.M))
			var l []string
			if i := strings.Index(out, "ids="); i >= 0 && out[i+4:] != "-" {
				for _, k := range strings.Split(out[i+4:], ",") {
					if id := g.idOfKey(k); id != "" {
						l = append(l, id)
					}
				}
			}
			g.growTo(g.curH + 1)
			ls := "-"
			if len(l) > 0 {
				ls = strings.Join(l, ",")
				if !strings.HasPrefix(g.do("check l="+ls), "ok") {
					ls = "-"
				}
			}
			if strings.HasPrefix(g.do(fmt.Sprintf("update h=%d ev=%s", g.curH+1, ls)), "ok") {
				g.curH++
			}
			if r.Intn(3) == 0 {
				g.do("pe max=-1")
			}
			if r.Intn(2) == 0 {
				g.peNear()
			}
		}
		switch r.Intn(4) {
		case 0:
			g.concurrentReport()
		case 1:
			g.unseenBlock()
		}
	}
	g.peNear()
	g.peNear()
	g.do("pe max=-1")
	g.do(fmt.Sprintf("pe max=%d", g.M))
	g.do("restart")
	g.do("pe max=-1")
	if g.c != nil && g.c.evDB != nil {
		g.c.evDB.Close()
	}
	return core.Case{Kind: "backlog", Ops: g.ops}
}

// peNear asks for pending evidence with a cap within ±2 bytes of the encoded size of a prefix of
// the pending list (sizes from the definitions' real proto sizes)
func (g *gctx) peNear() {
	pend := pendOf(g.lastView)
	if len(pend) == 0 {
		g.do("pe max=0")
		return
	}
	k := 1 + g.r.Intn(len(pend))
	var sum int64
	for _, key := range pend[:k] {
		if id := g.idOfKey(key); id != "" {
			sz := int64(g.c.defs[id].sz)
			sum += 1 + int64(varintLen(uint64(sz))) + sz
		}
	}
	g.do(fmt.Sprintf("pe max=%d", sum+int64(g.r.Intn(5))-2))
}

// smallDV: conflicting votes with a nil block on one side and short signatures; consensus reports
// votes unverified, so such evidence (130..260 encoded bytes) becomes pending through the buffer
func (g *gctx) smallDV(h int64) dvFields {
	f := g.genuineDV(h)
	f.abid = -1
	sig := fmt.Sprintf("s%d", 1+g.r.Intn(40))
	f.asig, f.bsig = sig, sig
	if g.r.Intn(2) == 0 {
		f.ar, f.br = 0, 0
	}
	return f
}

// sameHashDV: conflicting votes for the same block hash with different part-set headers (or a nil
// vote against a block): only BlockID.Key() orders them
func (g *gctx) sameHashDV(h int64) dvFields {
	f := g.genuineDV(h)
	hsh := int64(g.r.Intn(3))
	p1 := int64(g.r.Intn(3))
	p2 := p1 + 1 + int64(g.r.Intn(3-int(p1)))
	f.abid, f.bbid = 256+4*hsh+p1, 256+4*hsh+p2
	if g.r.Intn(5) == 0 {
		f.abid = -1
	}
	return f
}

// concurrentReport: an Update during which consensus reports a new pair; an older pair is put in the
// buffer first so that the flush has store lookups to do
func (g *gctx) concurrentReport() {
	r := g.r
	if g.curH >= g.N {
		return
	}
	if r.Intn(4) != 0 {
		h := g.curH - r.Int63n(2)
		if h < 1 {
			h = 1
		}
		if id := g.defineDV(g.genuineDV(h), true); id != "" {
			g.do(fmt.Sprintf("report e=%s swap=%d", id, r.Intn(2)))
		}
	}
	g.growTo(g.curH + 1)
	nh := g.curH + 1
	eh := nh
	if r.Intn(3) == 0 {
		eh = g.curH
	}
	id := g.defineDV(g.genuineDV(eh), true)
	if id == "" {
		return
	}
	if strings.HasPrefix(g.do(fmt.Sprintf("cupdate h=%d ev=- e=%s swap=%d", nh, id, r.Intn(2))), "ok") {
		g.curH = nh
	}
	// the pair reported during that Update is due at the next one
	if g.curH < g.N && r.Intn(4) != 0 {
		g.growTo(g.curH + 1)
		if strings.HasPrefix(g.do(fmt.Sprintf("update h=%d ev=-", g.curH+1)), "ok") {
			g.curH++
		}
	}
}

// unseenBlock: a block whose evidence the pool has never seen (applied without CheckEvidence, as the
// block-sync reactors do), after which the same evidence is offered again
func (g *gctx) unseenBlock() {
	r := g.r
	if g.curH >= g.N {
		return
	}
	var l []string
	for i := 0; i < 1+r.Intn(2); i++ {
		h := g.curH - r.Int63n(3)
		if h < 1 {
			h = 1
		}
		if id := g.defineDV(g.genuineDV(h), true); id != "" {
			l = append(l, id)
		}
	}
	if len(l) == 0 {
		return
	}
	g.growTo(g.curH + 1)
	if strings.HasPrefix(g.do(fmt.Sprintf("update h=%d ev=%s", g.curH+1, strings.Join(l, ","))), "ok") {
		g.curH++
	}
	for _, id := range l {
		switch r.Intn(3) {
		case 0:
			g.do("add e=" + id)
		case 1:
			g.do("check l=" + id)
		}
	}
	if r.Intn(2) == 0 {
		g.do("check l=" + strings.Join(l, ","))
	}
}

func (g *gctx) idOfKey(k string) string {
	for _, id := range g.ids {
		d := g.c.defs[id]
		if d != nil && fmt.Sprintf("%d/%s", d.ev.Height(), d.hash) == k {
			return id
		}
	}
	return ""
}

func hostileLine(r *rand.Rand, g *gctx) string {
	l := []string{
		"frobnicate", "add", "add e=nosuch", "check l=nosuch,alsonot", "check", "update h=x ev=-", "update ev=-",
		fmt.Sprintf("update h=%d ev=-", g.N+5), "grow h=0", fmt.Sprintf("grow h=%d", g.N+1), "grow h=y", "init h=1",
		"blk t=5 vals=k1:1:k1", "blk h=1 t=5 vals=0badc0de:1:0badc0de cr=0 cf=2 hash=00000000 d=zz", "report e=nosuch swap=0", "report e=d1", "pe", "pe max=z", "restart now", "recv", "recv l=nosuch", "rpcbroadcast", "rpcbroadcast e=nosuch", "apply h=3 ev=- crash=-", "abrestart", "abinit h=1", "apply h=3 ev=- crash=zz", "prep e=nosuch ph=3", "prep e=d1 ph=q",
		"ev id=q kind=dv", "ev id=q kind=zz hash=00 sz=1 vb=1 tvp=1 t=1", "update h=1 ev=nosuch", "report e=d1 swap=2",
	}
	return l[r.Intn(len(l))]
}

func gen(r *rand.Rand, tier string, emit func(core.Case)) {
	n, nl := 400, 60
	if tier == "thorough" {
		n, nl = 14000, 1500
	}
	for i := 0; i < n; i++ {
		emit(genCase(r, false))
	}
	for i := 0; i < nl; i++ {
		emit(genCase(r, true))
	}
	for i := 0; i < 2*nl; i++ {
		emit(genBacklog(r))
	}
	for i := 0; i < nl/2; i++ {
		emit(genLCASweep(r))
	}
	for i := 0; i < nl; i++ {
		emit(genApplyBlock(r))
	}
	// malformed streams: ops before any context, wrong order
	for i := 0; i < 20; i++ {
		var ops []string
		g := &gctx{r: r, N: 3}
		for j := 0; j < 6; j++ {
			ops = append(ops, hostileLine(r, g))
		}
		emit(core.Case{Kind: "malformed", Ops: ops})
	}
}

var _ = strconv.Itoa
