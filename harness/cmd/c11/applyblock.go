package main

// "ab" mode: a GENUINE chain (every block made by State.MakeBlock, validated, committed with real
// signatures and applied by the real BlockExecutor.ApplyBlock with the real evidence pool), with
// crash points inside ApplyBlock and restarts over the same databases.

import (
	"fmt"
	"strconv"
	"strings"

	dbm "github.com/tendermint/tm-db"

	abci "github.com/tendermint/tendermint/abci/types"
	"github.com/tendermint/tendermint/evidence"
	"github.com/tendermint/tendermint/libs/log"
	mmock "github.com/tendermint/tendermint/mempool/mock"
	tmstate "github.com/tendermint/tendermint/proto/tendermint/state"
	tmproto "github.com/tendermint/tendermint/proto/tendermint/types"
	"github.com/tendermint/tendermint/proxy"
	sm "github.com/tendermint/tendermint/state"
	"github.com/tendermint/tendermint/store"
	"github.com/tendermint/tendermint/types"
)

type simCrash struct{}

// crashCtl: while armed, the process "dies" (panic) before or after the k-th call ApplyBlock makes
// into the state store (writes) or the evidence pool (Update)
type crashCtl struct {
	armed  bool
	n      int
	at     int
	before bool
}

func (c *crashCtl) enter() {
	if !c.armed {
		return
	}
	c.n++
	if c.before && c.n == c.at {
		panic(simCrash{})
	}
}

func (c *crashCtl) leave() {
	if c.armed && !c.before && c.n == c.at {
		panic(simCrash{})
	}
}

type crashStore struct {
	sm.Store
	c *crashCtl
}

func (s crashStore) Save(st sm.State) error {
	s.c.enter()
	err := s.Store.Save(st)
	s.c.leave()
	return err
}

func (s crashStore) SaveABCIResponses(h int64, r *tmstate.ABCIResponses) error {
	s.c.enter()
	err := s.Store.SaveABCIResponses(h, r)
	s.c.leave()
	return err
}

type crashPool struct {
	*evidence.Pool
	c *crashCtl
}

func (p crashPool) Update(st sm.State, evs types.EvidenceList) {
	p.c.enter()
	p.Pool.Update(st, evs)
	p.c.leave()
}

type abNode struct {
	state      sm.State
	proxyApp   proxy.AppConns
	exec       *sm.BlockExecutor
	ctl        *crashCtl
	lastCommit *types.Commit
}

func (c *chain) abTimeOf(h int64) int64 {
	if h <= c.n() {
		return c.blks[h-1].t
	}
	return c.blks[c.n()-1].t + 1000000000*(h-c.n())
}

// abInit: genesis, stores, pool, executor; blocks 1..h0 without evidence
func (c *chain) abInit(h0 int64) bool {
	first := c.blks[0]
	for _, b := range c.blks {
		if !sameVals(first, b) {
			return false
		}
	}
	var gvs []types.GenesisValidator
	for _, v := range first.vals {
		ki, ok := keyIdx(v.pk)
		if !ok || v.addr != v.pk || v.power <= 0 {
			return false
		}
		pk := privKey(ki).PubKey()
		gvs = append(gvs, types.GenesisValidator{Address: pk.Address(), PubKey: pk, Power: v.power, Name: v.addr})
	}
	params := c.params()
	gen := &types.GenesisDoc{GenesisTime: tm(first.t), ChainID: chainID, InitialHeight: 1, ConsensusParams: &params, Validators: gvs}
	if err := gen.ValidateAndComplete(); err != nil {
		return false
	}
	st, err := sm.MakeGenesisState(gen)
	if err != nil {
		return false
	}
	c.build()
	if err := c.stateStore.Save(st); err != nil {
		return false
	}
	pool, err := c.newPool()
	if err != nil {
		return false
	}
	c.pool = pool
	app := proxy.NewAppConns(proxy.NewLocalClientCreator(abci.NewBaseApplication()))
	if err := app.Start(); err != nil {
		return false
	}
	c.abn = &abNode{state: st, proxyApp: app, ctl: &crashCtl{}, lastCommit: types.NewCommit(0, 0, types.BlockID{}, nil)}
	c.abExec()
	for h := int64(1); h <= h0; h++ {
		if r := c.abApply(h, nil, "-"); r != "ok" {
			return false
		}
	}
	return true
}

func (c *chain) abExec() {
	c.abn.exec = sm.NewBlockExecutor(crashStore{c.stateStore, c.abn.ctl}, log.NewNopLogger(), c.abn.proxyApp.Consensus(),
		mmock.Mempool{}, crashPool{c.pool, c.abn.ctl})
}

func (c *chain) abClose() {
	if c.abn != nil && c.abn.proxyApp != nil {
		c.abn.proxyApp.Stop() //nolint:errcheck
	}
}

func (c *chain) abCommit(h int64, id types.BlockID, vals *types.ValidatorSet) *types.Commit {
	ts := tm(c.abTimeOf(h + 1)) // the median of these timestamps is the next block's time
	sigs := make([]types.CommitSig, len(vals.Validators))
	for i, v := range vals.Validators {
		ki, _ := keyIdx(tokOfAddr(v.Address))
		vote := &types.Vote{Type: tmproto.PrecommitType, Height: h, Round: 0, BlockID: id, Timestamp: ts,
			ValidatorAddress: v.Address, ValidatorIndex: int32(i)}
		s, err := privKey(ki).Sign(types.VoteSignBytes(chainID, vote.ToProto()))
		if err != nil {
			panic(err)
		}
		sigs[i] = types.NewCommitSigForBlock(s, v.Address, ts)
	}
	return types.NewCommit(h, 0, id, sigs)
}

// abApply: what consensus' finalizeCommit does for block h: make / validate the block, save it, apply it
func (c *chain) abApply(h int64, evs []types.Evidence, crash string) string {
	n := c.abn
	st := n.state
	block, parts := st.MakeBlock(h, nil, n.lastCommit, evs, st.Validators.GetProposer().Address)
	if err := n.exec.ValidateBlock(st, block); err != nil {
		r := "err-invalid"
		if e, ok := err.(*types.ErrInvalidEvidence); ok {
			if k := classify(e.Reason, e.Evidence); k == "err-committed" || k == "err-duplicate" {
				r = k
			}
		} else if _, ok := err.(*types.ErrEvidenceOverflow); ok {
			r = "err-overflow"
		}
		return r
	}
	id := types.BlockID{Hash: block.Hash(), PartSetHeader: parts.Header()}
	seen := c.abCommit(h, id, st.Validators)
	c.blockStore.SaveBlock(block, parts, seen)
	n.lastCommit = seen
	ctl := n.ctl
	*ctl = crashCtl{}
	if crash != "-" {
		k, _ := strconv.Atoi(crash[1:])
		*ctl = crashCtl{armed: true, at: k, before: crash[0] == 'b'}
	}
	res := func() (r string) {
		defer func() {
			if x := recover(); x != nil {
				if _, ok := x.(simCrash); ok {
					r = "crash"
				} else {
					r = "panic"
				}
			}
		}()
		ns, _, err := n.exec.ApplyBlock(st, id, block)
		if err != nil {
			return "err-apply:" + strings.ReplaceAll(err.Error(), " ", "_")
		}
		n.state = ns
		return "ok"
	}()
	ctl.armed = false
	if res == "ok" && crash != "-" {
		res = "crash" // the armed point was never reached: die right after ApplyBlock
	}
	return res
}

// abRestart: the handshake (stored blocks above the saved state are applied with an empty evidence
// pool), then a new pool and executor over the same databases
func (c *chain) abRestart() string {
	n := c.abn
	st, err := c.stateStore.Load()
	if err != nil {
		return "restart-error"
	}
	for st.LastBlockHeight < c.blockStore.Height() {
		h := st.LastBlockHeight + 1
		block := c.blockStore.LoadBlock(h)
		meta := c.blockStore.LoadBlockMeta(h)
		ex := sm.NewBlockExecutor(c.stateStore, log.NewNopLogger(), n.proxyApp.Consensus(), mmock.Mempool{}, sm.EmptyEvidencePool{})
		ns, _, err := ex.ApplyBlock(st, meta.BlockID, block)
		if err != nil {
			return "replay-error:" + strings.ReplaceAll(err.Error(), " ", "_")
		}
		st = ns
	}
	n.state = st
	n.lastCommit = c.blockStore.LoadSeenCommit(c.blockStore.Height())
	pool, err := c.newPool()
	if err != nil {
		return "restart-error:" + strings.ReplaceAll(err.Error(), " ", "_")
	}
	c.pool = pool
	c.dead = false
	c.abExec()
	return "ok"
}

func (c *chain) abHeights() string {
	sh := int64(-1)
	if st, err := c.stateStore.Load(); err == nil {
		sh = st.LastBlockHeight
	}
	return fmt.Sprintf("sh=%d bh=%d", sh, c.blockStore.Height())
}

var _ = store.NewBlockStore
var _ dbm.DB
