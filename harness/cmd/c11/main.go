// C11 correspondence stream: real evidence.Pool on memdb with a real state store / block store of a
// generated chain vs the Lean model (Tmv/Model/Evidence.lean).
package main

import (
	"encoding/hex"
	"fmt"
	"math/rand"
	"os"
	"sort"
	"strconv"
	"strings"
	"sync"
	"time"

	dbm "github.com/tendermint/tm-db"

	"github.com/tendermint/tendermint/config"
	"github.com/tendermint/tendermint/evidence"
	tmjson "github.com/tendermint/tendermint/libs/json"
	"github.com/tendermint/tendermint/p2p"
	"github.com/tendermint/tendermint/p2p/mock"
	rpccore "github.com/tendermint/tendermint/rpc/core"

	tmproto "github.com/tendermint/tendermint/proto/tendermint/types"
	"github.com/tendermint/tendermint/types"

	"verifharness/core"
)

func kv(op string) map[string]string {
	m := map[string]string{}
	f := strings.Fields(op)
	if len(f) == 0 {
		return m
	}
	for _, t := range f[1:] {
		parts := strings.Split(t, "=")
		if len(parts) == 2 {
			if _, dup := m[parts[0]]; !dup { // the driver's kv takes the first occurrence
				m[parts[0]] = parts[1]
			}
		}
	}
	return m
}

// ---- canonical view of the pool: Size() and both key spaces of the evidence DB ----

func keysOf(db dbm.DB, prefix byte) []string {
	it, err := dbm.IteratePrefix(db, []byte{prefix})
	if err != nil {
		return []string{"db-error"}
	}
	defer it.Close()
	var out []string
	for ; it.Valid(); it.Next() {
		k := string(it.Key()[1:])
		f := strings.SplitN(k, "/", 2)
		h, err := strconv.ParseInt(f[0], 16, 64)
		if err != nil || len(f) != 2 || len(f[1]) < 12 {
			out = append(out, "badkey:"+hex.EncodeToString(it.Key()))
			continue
		}
		out = append(out, fmt.Sprintf("%d/%s", h, strings.ToLower(f[1][:12])))
	}
	return out
}

func showKeys(l []string) string {
	if len(l) == 0 {
		return "-"
	}
	return strings.Join(l, ",")
}

func (c *chain) view() string {
	return fmt.Sprintf("size=%d pend=%s comm=%s bad=%d", c.pool.Size(), showKeys(keysOf(c.evDB, 1)), showKeys(keysOf(c.evDB, 0)), undecodable(c.evDB))
}

// undecodable: pending records that do not decode (protobuf + ValidateBasic) - what a restart, the
// proposer and every peer receiving them would do with them
func undecodable(db dbm.DB) int {
	it, err := dbm.IteratePrefix(db, []byte{1})
	if err != nil {
		return -1
	}
	defer it.Close()
	n := 0
	for ; it.Valid(); it.Next() {
		var pb tmproto.Evidence
		if pb.Unmarshal(it.Value()) != nil {
			n++
			continue
		}
		if _, err := types.EvidenceFromProto(&pb); err != nil {
			n++
		}
	}
	return n
}

func classify(err error, ev types.Evidence) string {
	if err == nil {
		return "ok"
	}
	s := err.Error()
	_, isLCA := ev.(*types.LightClientAttackEvidence)
	switch {
	case strings.Contains(s, "evidence was already committed"):
		return "err-committed"
	case strings.Contains(s, "duplicate evidence"):
		return "err-duplicate"
	case strings.Contains(s, "don't have header #"):
		return "err-noheader"
	case strings.Contains(s, "evidence has a different time"):
		return "err-time"
	case strings.Contains(s, "is too old"):
		return "err-expired"
	case strings.Contains(s, "don't have header at height") || strings.Contains(s, "don't have commit at height"):
		return "err-lca-noheader"
	case strings.Contains(s, "latest block time"):
		return "err-lca-latestbefore"
	case strings.Contains(s, "validators at height") || strings.Contains(s, "couldn't find validators"):
		return "err-novals"
	case isLCA:
		return "err-lca-bad"
	case strings.Contains(s, "was not a validator at height"):
		return "err-dv-notval"
	case strings.Contains(s, "h/r/s does not match"):
		return "err-dv-hrs"
	case strings.Contains(s, "validator addresses do not match"):
		return "err-dv-addr"
	case strings.Contains(s, "block IDs are the same"):
		return "err-dv-sameblock"
	case strings.Contains(s, "doesn't match pubkey"):
		return "err-dv-pkaddr"
	case strings.Contains(s, "validator power from evidence"):
		return "err-dv-power"
	case strings.Contains(s, "total voting power from the evidence"):
		return "err-dv-total"
	case strings.Contains(s, "verifying VoteA"):
		return "err-dv-siga"
	case strings.Contains(s, "verifying VoteB"):
		return "err-dv-sigb"
	}
	return "err-other:" + strings.ReplaceAll(s, " ", "_")
}

// spyPeer: StopPeerForError first asks the peer whether it is running; answering no ends it there
// (no transport needed) and records that the reactor wanted the peer stopped
type spyPeer struct {
	*mock.Peer
	asked bool
}

func (p *spyPeer) IsRunning() bool { p.asked = true; return false }

type peerHeight int64

func (h peerHeight) GetHeight() int64 { return int64(h) }

// guard: a panic of the code under test inside a verification is a result (the reactor's peer
// goroutine recovers it; inside consensus it is a consensus failure)
func guard(f func() error) (err error, panicked bool) {
	defer func() {
		if x := recover(); x != nil {
			panicked = true
		}
	}()
	return f(), false
}

func isCrash(s string) bool {
	switch s {
	case "-", "b1", "a1", "b2", "a2", "b3", "a3":
		return true
	}
	return false
}

func isDerived(s string) bool {
	f := strings.Split(s, ".")
	if len(f) != 5 {
		return false
	}
	for _, x := range f {
		if !isTok(x) {
			return false
		}
	}
	return true
}

func isInt(s string, ok bool) bool {
	if !ok || s == "" {
		return false
	}
	_, err := strconv.ParseInt(s, 10, 64)
	return err == nil
}

func parseVals(s string) ([]valTok, bool) {
	if s == "-" || s == "" {
		return nil, true
	}
	var out []valTok
	for _, t := range strings.Split(s, ",") {
		f := strings.Split(t, ":")
		if len(f) != 3 {
			return nil, false
		}
		p, err := strconv.ParseInt(f[1], 10, 64)
		if err != nil {
			return nil, false
		}
		if _, ok := addrBytes(f[0]); !ok {
			return nil, false
		}
		if _, ok := keyIdx(f[2]); !ok {
			return nil, false
		}
		out = append(out, valTok{f[0], p, f[2]})
	}
	return out, true
}

func (c *chain) lookupAll(s string, ok bool) ([]*evDef, bool) {
	if !ok {
		return nil, false
	}
	if s == "-" || s == "" {
		return nil, true
	}
	var out []*evDef
	for _, id := range strings.Split(s, ",") {
		d, ok := c.defs[id]
		if !ok {
			return nil, false
		}
		out = append(out, d)
	}
	return out, true
}

func evList(ds []*evDef) types.EvidenceList {
	l := make(types.EvidenceList, len(ds))
	for i, d := range ds {
		l[i] = d.ev
	}
	return l
}

func execCase(cs core.Case) []string {
	var out []string
	var c *chain
	for _, op := range cs.Ops {
		out = append(out, execOp(&c, op))
	}
	if c != nil {
		c.abClose()
	}
	if c != nil && c.evDB != nil {
		c.evDB.Close()
	}
	if f := os.Getenv("C11_DUMP"); f != "" { // debugging aid: every case with its outputs
		dumpMu.Lock()
		if fh, err := os.OpenFile(f, os.O_APPEND|os.O_CREATE|os.O_WRONLY, 0o644); err == nil {
			for i, op := range cs.Ops {
				fmt.Fprintf(fh, "%s\t%s\t%s\n", cs.ID, op, out[i])
			}
			fh.Close()
		}
		dumpMu.Unlock()
	}
	return out
}

var dumpMu sync.Mutex

// rpc/core keeps its environment in a package variable: one RPC call at a time
var rpcMu sync.Mutex

func execOp(cp **chain, op string) (res string) {
	f := strings.Fields(op)
	if len(f) == 0 {
		return "bad-op"
	}
	m := kv(op)
	c := *cp
	get := func(k string) (string, bool) { v, ok := m[k]; return v, ok }
	switch f[0] {
	case "ctx":
		a, okA := get("A")
		d, okD := get("D")
		if !isInt(a, okA) || !isInt(d, okD) {
			return "bad-op"
		}
		A, _ := strconv.ParseInt(a, 10, 64)
		D, _ := strconv.ParseInt(d, 10, 64)
		M := int64(1 << 20)
		if mv, has := m["M"]; has { // Evidence.MaxBytes of the chain's consensus params (the pool must not depend on it)
			if !isInt(mv, true) {
				return "bad-op"
			}
			M, _ = strconv.ParseInt(mv, 10, 64)
		}
		if c != nil && c.evDB != nil {
			c.evDB.Close()
		}
		if c != nil {
			c.abClose()
		}
		*cp = newChain(A, D)
		(*cp).M = M
		(*cp).ab = m["mode"] == "ab"
		return "ok"
	case "blk":
		if c == nil {
			c = newChain(0, 0)
			*cp = c
		}
		t, okT := get("t")
		vs, okV := get("vals")
		vals, okP := parseVals(vs)
		if !isInt(t, okT) || !okV || !okP || c.pool != nil {
			return "bad-op"
		}
		if len(vals) == 0 {
			return "bad-op" // the model accepts an empty set; never generated (ValidatorSet would be nil)
		}
		T, _ := strconv.ParseInt(t, 10, 64)
		hh, okH := get("h")
		cr, okR := get("cr")
		cf, okF := get("cf")
		if !isInt(hh, okH) || !isInt(cr, okR) || !okF {
			return "bad-op"
		}
		H, _ := strconv.ParseInt(hh, 10, 64)
		R, _ := strconv.ParseInt(cr, 10, 64)
		if H != c.n()+1 || H > 250 {
			return "bad-op"
		}
		var flags []int
		if cf != "-" {
			for _, x := range strings.Split(cf, ",") {
				v, err := strconv.Atoi(x)
				if err != nil || v < 0 {
					return "bad-op"
				}
				flags = append(flags, v)
			}
		}
		hashTok, okA := get("hash")
		dTok, okD := get("d")
		if !okA || !okD || !isTok(hashTok) || !isDerived(dTok) {
			return "bad-op"
		}
		if c.ab { // the real chain is made by ApplyBlock; the line only declares time and validators
			c.blks = append(c.blks, blkDef{t: T, vals: vals, round: int32(R), flags: flags})
			return "ok"
		}
		c.appendBlock(blkDef{t: T, vals: vals, round: int32(R), flags: flags})
		gh, gd := headerToks(&c.blocks[H-1].Header)
		if gh != hashTok || gd != dTok {
			return "bad-op:derived-token hash=" + gh + " d=" + gd
		}
		return "ok"
	}
	if c == nil {
		c = newChain(0, 0)
		*cp = c
	}
	switch f[0] {
	case "ev":
		for _, k := range []string{"id", "kind", "hash", "sz", "vb", "tvp", "t"} {
			if _, ok := m[k]; !ok {
				return "bad-op"
			}
		}
		if _, dup := c.defs[m["id"]]; dup || len(c.blks) == 0 {
			return "bad-op"
		}
		c.build()
		d, ok := c.define(m)
		if !ok {
			return "bad-op"
		}
		for k, v := range c.derived(d) {
			if k == "ok" { // reference verdict for the oracle only (computed by the code under test)
				continue
			}
			if m[k] != v {
				return "bad-op:derived-token-" + k + "=" + v
			}
		}
		c.defs[d.id] = d
		return "ok"
	case "abinit":
		h, okH := get("h")
		if !isInt(h, okH) || c.pool != nil || !c.ab {
			return "bad-op"
		}
		H, _ := strconv.ParseInt(h, 10, 64)
		if H < 1 || H > c.n() {
			return "bad-op"
		}
		if !c.abInit(H) {
			return "init-error"
		}
		return "ok " + c.abHeights() + " " + c.view()
	case "init":
		h, okH := get("h")
		if !isInt(h, okH) || c.pool != nil || c.ab {
			return "bad-op"
		}
		H, _ := strconv.ParseInt(h, 10, 64)
		if H < 1 || H > c.n() {
			return "bad-op"
		}
		c.build()
		c.grow(H)
		p, err := c.newPool()
		if err != nil {
			return "init-error"
		}
		c.pool = p
		return "ok " + c.view()
	}
	if c.pool == nil {
		return "bad-op"
	}
	if c.dead { // a panic killed the process: only a restart (and the stores) continue
		switch f[0] {
		case "grow", "restart", "abrestart", "apply":
		case "add", "check", "update", "cupdate", "report", "pe", "recv", "rpcbroadcast":
			if r := deadOp(c, f[0], m); r != "" {
				return r
			}
		}
	}
	if c.ab {
		switch f[0] {
		case "grow", "update", "cupdate", "restart":
			return "bad-op"
		}
	}
	switch f[0] {
	case "apply":
		h, okH := get("h")
		e, okE := get("ev")
		ds, ok := c.lookupAll(e, okE)
		cr, okC := get("crash")
		if !c.ab || !isInt(h, okH) || !ok || !okC || !isCrash(cr) {
			return "bad-op"
		}
		H, _ := strconv.ParseInt(h, 10, 64)
		if c.dead || H != c.blockStore.Height()+1 || c.abn.state.LastBlockHeight != c.blockStore.Height() || H > c.n() {
			return "bad-op"
		}
		for _, d := range ds {
			if !d.vb {
				return "bad-op"
			}
		}
		r := c.abApply(H, evList(ds), cr)
		if r == "crash" || r == "panic" {
			c.dead = true
		}
		return r + " " + c.abHeights() + " " + c.view()
	case "abrestart":
		if !c.ab || len(f) != 1 {
			return "bad-op"
		}
		r := c.abRestart()
		return r + " " + c.abHeights() + " " + c.view()
	case "grow":
		h, okH := get("h")
		if !isInt(h, okH) {
			return "bad-op"
		}
		H, _ := strconv.ParseInt(h, 10, 64)
		if H < c.storeH || H > c.n() {
			return "bad-op"
		}
		c.grow(H)
		return "ok " + c.view()
	case "add":
		d, ok := c.defs[m["e"]]
		if !ok {
			return "bad-op"
		}
		if !d.vb { // the reactor / block decoding runs ValidateBasic first
			return "err-basic " + c.view()
		}
		err, pan := guard(func() error { return c.pool.AddEvidence(d.ev) })
		if pan {
			return "panic " + c.view()
		}
		if e, ok := err.(*types.ErrInvalidEvidence); ok {
			err = e.Reason
		}
		return classify(err, d.ev) + " " + c.view()
	case "check":
		l, okL := get("l")
		ds, ok := c.lookupAll(l, okL)
		if !ok {
			return "bad-op"
		}
		for _, d := range ds {
			if !d.vb {
				return "err-basic " + c.view()
			}
		}
		err, pan := guard(func() error { return c.pool.CheckEvidence(evList(ds)) })
		if pan {
			return "panic " + c.view()
		}
		// verify's errors come back unwrapped and do not name the failing item: the canonical
		// result of a check is pass / committed / duplicate / invalid (classes are observed via `add`)
		r := "ok"
		if e, ok := err.(*types.ErrInvalidEvidence); ok {
			r = classify(e.Reason, e.Evidence)
			if r != "err-committed" && r != "err-duplicate" {
				r = "err-invalid"
			}
		} else if err != nil {
			r = "err-invalid"
		}
		return r + " " + c.view()
	case "update", "cupdate":
		h, okH := get("h")
		e, okE := get("ev")
		ds, ok := c.lookupAll(e, okE)
		if !isInt(h, okH) || !ok {
			return "bad-op"
		}
		H, _ := strconv.ParseInt(h, 10, 64)
		if H > c.storeH || H < 1 {
			return "bad-op"
		}
		// cupdate: consensus (another goroutine) reports a conflicting vote pair WHILE Update runs:
		// released at the pool's first store / DB lookup inside Update
		var done chan struct{}
		if f[0] == "cupdate" {
			d, ok := c.defs[m["e"]]
			sw := m["swap"]
			if !ok || (sw != "0" && sw != "1") {
				return "bad-op"
			}
			dv, isDV := d.ev.(*types.DuplicateVoteEvidence)
			if !isDV {
				return "bad-op"
			}
			a, b := *dv.VoteA, *dv.VoteB
			if sw == "1" {
				a, b = b, a
			}
			done = make(chan struct{})
			pool := c.pool
			c.hook.mu.Lock()
			c.hook.fn = func() {
				go func() {
					pool.ReportConflictingVotes(&a, &b)
					close(done)
				}()
				select { // give the reporter time to get in (it blocks while Update holds the mutex)
				case <-done:
				case <-time.After(3 * time.Millisecond):
				}
			}
			c.hook.mu.Unlock()
		}
		r := func() (r string) {
			defer func() {
				if x := recover(); x != nil {
					r = "panic"
				}
			}()
			c.pool.Update(c.stateAt(H), evList(ds))
			return "ok"
		}()
		if done != nil {
			c.hook.fire() // Update made no lookup: the report simply follows it
			select {
			case <-done:
			case <-time.After(5 * time.Second):
				return "hang " + c.view()
			}
		}
		if r == "panic" {
			c.dead = true
		}
		return r + " " + c.view()
	case "report":
		d, ok := c.defs[m["e"]]
		sw, okS := get("swap")
		if !ok || !okS || (sw != "0" && sw != "1") {
			return "bad-op"
		}
		dv, isDV := d.ev.(*types.DuplicateVoteEvidence)
		if !isDV {
			return "bad-op"
		}
		a, b := *dv.VoteA, *dv.VoteB
		if sw == "1" {
			c.pool.ReportConflictingVotes(&b, &a)
		} else {
			c.pool.ReportConflictingVotes(&a, &b)
		}
		return "ok " + c.view()
	case "rpcbroadcast":
		// the broadcast_evidence RPC: the evidence arrives decoded from JSON, nothing before
		// rpc/core.BroadcastEvidence has validated it
		d, ok := c.defs[m["e"]]
		if !ok {
			return "bad-op"
		}
		bz, err := tmjson.Marshal(d.raw)
		var ev types.Evidence
		if err != nil || tmjson.Unmarshal(bz, &ev) != nil {
			return "bad-op"
		}
		rpcMu.Lock()
		rpccore.SetEnvironment(&rpccore.Environment{EvidencePool: c.pool})
		var rerr error
		_, pan := guard(func() error { _, rerr = rpccore.BroadcastEvidence(nil, ev); return nil })
		rpcMu.Unlock()
		if pan {
			return "panic " + c.view()
		}
		r := "ok"
		if rerr != nil {
			s := rerr.Error()
			switch {
			case strings.Contains(s, "ValidateBasic failed"):
				r = "err-basic"
			default:
				r = classify(rerr, ev)
			}
		}
		return r + " " + c.view()
	case "recv":
		l, okL := get("l")
		ds, ok := c.lookupAll(l, okL)
		if !ok {
			return "bad-op"
		}
		var msg tmproto.EvidenceList
		for _, d := range ds {
			pb, err := d.toWire()
			if err != nil {
				return "bad-op"
			}
			msg.Evidence = append(msg.Evidence, *pb)
		}
		// over the wire and back, as MConnection delivers it
		bz, err := msg.Marshal()
		var dec tmproto.EvidenceList
		if err != nil || dec.Unmarshal(bz) != nil {
			return "bad-op"
		}
		evR := evidence.NewReactor(c.pool)
		evR.SetSwitch(p2p.NewSwitch(config.DefaultP2PConfig(), nil))
		peer := &spyPeer{Peer: mock.NewPeer(nil)}
		_, pan := guard(func() error {
			evR.ReceiveEnvelope(p2p.Envelope{ChannelID: evidence.EvidenceChannel, Src: peer, Message: &dec})
			return nil
		})
		if pan {
			return "panic " + c.view()
		}
		return fmt.Sprintf("recv stop=%s %s", b01(peer.asked), c.view())
	case "prep":
		d, ok := c.defs[m["e"]]
		ph, okP := get("ph")
		if !ok || !okP || (ph != "-" && !isInt(ph, true)) {
			return "bad-op"
		}
		peer := mock.NewPeer(nil)
		if ph != "-" {
			H, _ := strconv.ParseInt(ph, 10, 64)
			peer.Set(types.PeerStateKey, peerHeight(H))
		}
		evR := evidence.NewReactor(c.pool)
		return fmt.Sprintf("prep send=%s", b01(len(evR.VerifPrepareEvidenceMessage(peer, d.ev)) > 0))
	case "restart":
		if len(f) != 1 {
			return "bad-op"
		}
		p, err := c.newPool()
		if err != nil {
			return "restart-error:" + strings.ReplaceAll(err.Error(), " ", "_")
		}
		c.pool = p
		c.dead = false
		return "ok " + c.view()
	case "pe":
		mx, okM := get("max")
		if !isInt(mx, okM) {
			return "bad-op"
		}
		M, _ := strconv.ParseInt(mx, 10, 64)
		evs, n := c.pool.PendingEvidence(M)
		ids := make([]string, len(evs))
		for i, e := range evs {
			ids[i] = fmt.Sprintf("%d/%s", e.Height(), hash12(e))
		}
		// real = size of the returned evidence as a block carries it (tmproto.EvidenceList), measured
		// here with the generated proto code, independently of the pool's own count
		var pl tmproto.EvidenceList
		for _, e := range evs {
			if pb, err := types.EvidenceToProto(e); err == nil {
				pl.Evidence = append(pl.Evidence, *pb)
			}
		}
		return fmt.Sprintf("pe n=%d bytes=%d real=%d ids=%s", len(evs), n, pl.Size(), showKeys(ids))
	}
	return "bad-op"
}

// deadOp answers a well-formed op on a dead process ("" = the line is malformed: fall through to
// the normal parser, which answers bad-op)
func deadOp(c *chain, op string, m map[string]string) string {
	ok := false
	switch op {
	case "add", "rpcbroadcast":
		_, ok = c.defs[m["e"]]
	case "check":
		l, has := m["l"]
		_, ok = c.lookupAll(l, has)
	case "update", "cupdate":
		h, okH := m["h"]
		e, okE := m["ev"]
		_, okL := c.lookupAll(e, okE)
		H, _ := strconv.ParseInt(h, 10, 64)
		ok = isInt(h, okH) && okL && H >= 1 && H <= c.storeH
		if op == "cupdate" && ok {
			d, has := c.defs[m["e"]]
			ok = false
			if has && (m["swap"] == "0" || m["swap"] == "1") {
				_, ok = d.ev.(*types.DuplicateVoteEvidence)
			}
		}
	case "report":
		d, has := c.defs[m["e"]]
		if has && (m["swap"] == "0" || m["swap"] == "1") {
			_, ok = d.ev.(*types.DuplicateVoteEvidence)
		}
	case "pe":
		mx, okM := m["max"]
		ok = isInt(mx, okM)
	case "recv":
		l, has := m["l"]
		_, ok = c.lookupAll(l, has)
	}
	if !ok {
		return ""
	}
	return "dead " + c.view()
}

func main() {
	core.Main(core.Prop{
		ID:         "C11",
		Driver:     "c11",
		Gen:        gen,
		Exec:       execCase,
		Oracle:     oracle,
		NonTrivial: nonTrivial,
		Rule: "per case: a generated chain (6..40 heights, strictly increasing block times with sub-second jitter, up to 5 validators with different powers, " +
			"validator changes) in a real state store and block store; evidence params A∈0..6 blocks, D∈0..20s so expiry happens; genuine DuplicateVoteEvidence " +
			"and every single-field perturbation (votes' height/round/type/address/block id/timestamp/index/signature, powers, timestamp), light-client-attack " +
			"evidence (lunatic/equivocation/amnesia/no-attack, commit and byzantine-validator mutations); random interleavings of add / check(list, with repeats) / " +
			"block (check+update) / update / grow / report / restart / PendingEvidence(max) until the chain ends; hostile and malformed lines. " +
			"Non-trivial = some evidence became pending or committed; distinct by hash of the op list",
		Assumptions: []string{
			"evidence hash / proto size, ed25519 verification and the verdict of VerifyLightClientAttack are parameters of the model, instantiated per case by tables computed with the real functions",
			"ValidateBasic is run before the pool is called (as the reactor and block decoding do); its verdict is a token of the evidence definition",
			"the state store / block store are modelled as total functions of the height on the filled range",
		},
		Extra: func() map[string]interface{} { return map[string]interface{}{"mutation_histogram": mutHist} },
	})
}

func nonTrivial(c core.Case, out []string) bool {
	for _, o := range out {
		if strings.Contains(o, " pend=") && !strings.Contains(o, "pend=- comm=-") {
			return true
		}
	}
	return false
}

var mutHist = map[string]int{}
var _ = sort.Strings
var _ = rand.Int
