// C12 correspondence stream: the real mempool/v0 CListMempool and mempool/v1 TxMempool over a local
// ABCI client whose CheckTx verdicts come from the op lines, versus the Lean models
// (Tmv/Model/MempoolV0.lean, MempoolV1.lean). After every op Size, SizeBytes and ReapMaxTxs(-1) are
// observed. The oracle evaluates the property itself on those outputs.
package main

import (
	"bytes"
	"encoding/hex"
	"fmt"
	"math/rand"
	"regexp"
	"runtime"
	"strconv"
	"strings"
	"sync"
	"sync/atomic"
	"time"

	abcicli "github.com/tendermint/tendermint/abci/client"
	abci "github.com/tendermint/tendermint/abci/types"
	"github.com/tendermint/tendermint/config"
	"github.com/tendermint/tendermint/libs/log"
	"github.com/tendermint/tendermint/mempool"
	mempoolv0 "github.com/tendermint/tendermint/mempool/v0"
	mempoolv1 "github.com/tendermint/tendermint/mempool/v1"
	"github.com/tendermint/tendermint/proxy"
	"github.com/tendermint/tendermint/types"

	"verifharness/core"
)

// ---------- encoding helpers ----------

// A transaction token is lower-case hex, "-"/"." for the empty tx, or "hh*N" = byte hh repeated
// N times (long transactions); canonical output form: runs of >= 8 equal bytes are written hh*N.
func encTx(b []byte) string {
	if len(b) == 0 {
		return "."
	}
	if len(b) >= 8 {
		same := true
		for _, x := range b {
			if x != b[0] {
				same = false
				break
			}
		}
		if same {
			return fmt.Sprintf("%02x*%d", b[0], len(b))
		}
	}
	return hex.EncodeToString(b)
}

func hx(b []byte) string {
	if len(b) == 0 {
		return "-"
	}
	return encTx(b)
}

func unhx(s string) []byte {
	if s == "-" || s == "" || s == "." {
		return []byte{}
	}
	if i := strings.IndexByte(s, '*'); i == 2 {
		v, err := hex.DecodeString(s[:2])
		n, err2 := strconv.Atoi(s[3:])
		if err != nil || err2 != nil {
			panic("bad tx token " + s)
		}
		return bytes.Repeat(v, n)
	}
	b, err := hex.DecodeString(s)
	if err != nil {
		panic("bad hex " + s)
	}
	return b
}

func hxList(l []types.Tx) string {
	if len(l) == 0 {
		return "-"
	}
	s := make([]string, len(l))
	for i, b := range l {
		s[i] = encTx(b)
	}
	return strings.Join(s, ",")
}

func splitList(s string) []string {
	if s == "-" || s == "" {
		return nil
	}
	return strings.Split(s, ",")
}

func kv(op string) map[string]string {
	m := map[string]string{}
	f := strings.Fields(op)
	for _, t := range f[1:] {
		if i := strings.IndexByte(t, '='); i > 0 {
			m[t[:i]] = t[i+1:]
		}
	}
	return m
}

func atoi(s string) (int64, bool) {
	v, err := strconv.ParseInt(s, 10, 64)
	return v, err == nil
}

// ---------- scripted application ----------

type verdict struct {
	code         uint32
	gas, prio    int64
	sender       string
	fromDefaults bool
}

type scriptApp struct {
	abci.BaseApplication
	mu      sync.Mutex
	first   verdict
	rv      map[string]verdict
	postGas *int64 // the post-check in force (only to predict how a recheck ends)
	rcCalls int
	rcKeep  int
}

func (a *scriptApp) CheckTx(req abci.RequestCheckTx) abci.ResponseCheckTx {
	a.mu.Lock()
	defer a.mu.Unlock()
	v := a.first
	if req.Type == abci.CheckTxType_Recheck {
		v = verdict{}
		if x, ok := a.rv[string(req.Tx)]; ok {
			v = x
		}
		a.rcCalls++
		if v.code == 0 && postOK(a.postGas, v.gas) {
			a.rcKeep++
		}
	}
	return abci.ResponseCheckTx{Code: v.code, GasWanted: v.gas, Priority: v.prio, Sender: v.sender}
}

func postOK(maxGas *int64, gas int64) bool {
	if maxGas == nil || *maxGas == -1 {
		return true
	}
	return gas >= 0 && gas <= *maxGas
}

// ---------- one pool under test ----------

type pool struct {
	ver     int
	cfg     *config.MempoolConfig
	app     *scriptApp
	mp      mempool.Mempool
	v1      *mempoolv1.TxMempool
	timeout bool
	async   *asyncConn // v0 over the asynchronous FIFO client (cfg async=1)

	// v1 split mode (cfg split=1): CheckTx calls are started by `begin` and held at the application
	// (gatedConn) until `finish i=` releases the i-th one still in flight.
	split    bool
	holding  bool
	arrived  chan *heldCall
	inflight []*heldCall

	// v1 logical time (cfg ttldur=D > 0): TTLDuration = D hours; an op's now=<t> is mapped onto the
	// wall clock the code reads by rewriting the pooled entries' timestamps (hook VerifSetTimestamp)
	// to base + t*hour, with base chosen at every Update so that time.Now() = base + now*hour - 30min.
	ttlD int64
	ts   map[string]int64
	base time.Time

	// v0 only: the installed post-check is always postHook = (optional start barrier for ccheck) +
	// the PostCheckMaxGas of the last update op. v0 runs the post-check in the caller's goroutine
	// right before the admission step, outside every lock: the barrier releases all concurrent
	// submitters into that step together.
	postInner mempool.PostCheckFunc
	barMu     sync.Mutex
	barWant   int
	barGot    int
	barCh     chan struct{}
	barSpin   int32
}

// asyncConn (v0, cfg async=1): an ABCI mempool connection with the discipline of the socket client
// (abci/client/socket_client.go): CheckTxAsync only queues; a response is produced and handled
// later (deliver): Response set, global callback, then the request's own callback; FlushSync
// handles everything pending.
type asyncConn struct {
	app     *scriptApp
	mu      sync.Mutex
	cb      abcicli.Callback
	queue   []*abcicli.ReqRes
	verdict []verdict // first-time verdict captured when the request was sent
}

func (c *asyncConn) SetResponseCallback(cb abcicli.Callback) { c.cb = cb }
func (c *asyncConn) Error() error                            { return nil }
func (c *asyncConn) FlushAsync() *abcicli.ReqRes {
	return abcicli.NewReqRes(abci.ToRequestFlush())
}
func (c *asyncConn) FlushSync() error {
	for c.deliver() {
	}
	return nil
}
func (c *asyncConn) CheckTxSync(req abci.RequestCheckTx) (*abci.ResponseCheckTx, error) {
	r := c.app.CheckTx(req)
	return &r, nil
}
func (c *asyncConn) CheckTxAsync(req abci.RequestCheckTx) *abcicli.ReqRes {
	rr := abcicli.NewReqRes(abci.ToRequestCheckTx(req))
	c.mu.Lock()
	c.app.mu.Lock()
	v := c.app.first
	c.app.mu.Unlock()
	c.queue = append(c.queue, rr)
	c.verdict = append(c.verdict, v)
	c.mu.Unlock()
	return rr
}
func (c *asyncConn) pending() (n, rechecks int) {
	c.mu.Lock()
	defer c.mu.Unlock()
	for _, rr := range c.queue {
		if rr.Request.GetCheckTx().Type == abci.CheckTxType_Recheck {
			rechecks++
		}
	}
	return len(c.queue), rechecks
}

// pendingRecheckOf: is a recheck answer for tx still pending
func (c *asyncConn) pendingRecheckOf(tx types.Tx) bool {
	c.mu.Lock()
	defer c.mu.Unlock()
	for _, rr := range c.queue {
		r := rr.Request.GetCheckTx()
		if r.Type == abci.CheckTxType_Recheck && string(r.Tx) == string(tx) {
			return true
		}
	}
	return false
}

// deliver handles the oldest pending response; false when nothing is pending
func (c *asyncConn) deliver() bool {
	c.mu.Lock()
	if len(c.queue) == 0 {
		c.mu.Unlock()
		return false
	}
	rr, v := c.queue[0], c.verdict[0]
	c.queue, c.verdict = c.queue[1:], c.verdict[1:]
	c.mu.Unlock()
	req := rr.Request.GetCheckTx()
	if req.Type != abci.CheckTxType_Recheck {
		c.app.mu.Lock()
		c.app.first = v
		c.app.mu.Unlock()
	}
	res := abci.ToResponseCheckTx(c.app.CheckTx(*req))
	rr.Response = res
	rr.Done()
	if c.cb != nil {
		c.cb(rr.Request, res)
	}
	rr.InvokeCallback()
	return true
}

// gatedConn (v1): v1's CheckTx calls the application (CheckTxSync) after its read-locked first
// phase and before addNewTransaction. During a ccheck the gate holds every submitter here until
// all expected ones have passed the first phase, so their application calls and insertions overlap
// the other submitters' first phases as tightly as the code allows.
// heldCall: one CheckTx call in flight
type heldCall struct {
	tx      types.Tx
	release chan struct{}
	done    chan error
	meP     *string
}

type gatedConn struct {
	proxy.AppConnMempool
	p *pool
}

func (g *gatedConn) CheckTxSync(req abci.RequestCheckTx) (*abci.ResponseCheckTx, error) {
	if req.Type == abci.CheckTxType_New {
		if g.p.holding {
			hc := &heldCall{tx: req.Tx, release: make(chan struct{})}
			g.p.arrived <- hc
			<-hc.release
		}
		g.p.barrier()
	}
	return g.AppConnMempool.CheckTxSync(req)
}

// barrier: two phases — wait (bounded) until barWant submitters have arrived, then spin until all
// of them are running again.
func (p *pool) barrier() {
	p.barMu.Lock()
	ch := p.barCh
	if ch != nil {
		p.barGot++
		if p.barGot >= p.barWant {
			close(ch)
			p.barCh = nil
		}
	}
	p.barMu.Unlock()
	if ch == nil {
		return
	}
	select {
	case <-ch:
	case <-time.After(100 * time.Millisecond):
	}
	want := int32(p.barWant)
	atomic.AddInt32(&p.barSpin, 1)
	for i := 0; atomic.LoadInt32(&p.barSpin) < want && i < 400000; i++ {
		if i&0x3ffff == 0x3ffff {
			runtime.Gosched() // more submitters than free CPUs: let the others get there
		}
	}
}

func (p *pool) postHook(tx types.Tx, res *abci.ResponseCheckTx) error {
	p.barrier()
	p.barMu.Lock()
	inner := p.postInner
	p.barMu.Unlock()
	if inner != nil {
		return inner(tx, res)
	}
	return nil
}

func newPool(m map[string]string) (*pool, bool) {
	get := func(k string) (int64, bool) { return atoi(m[k]) }
	ver, ok0 := get("ver")
	size, ok1 := get("size")
	maxb, ok2 := get("maxbytes")
	maxtx, ok3 := get("maxtx")
	cache, ok4 := get("cache")
	keep, ok5 := get("keep")
	rc, ok6 := get("recheck")
	ttl, ok7 := get("ttl")
	ttld, ok8 := get("ttld")
	h, ok9 := get("h")
	if !(ok0 && ok1 && ok2 && ok3 && ok4 && ok5 && ok6 && ok7 && ok8 && ok9) || (ver != 0 && ver != 1) ||
		(keep != 0 && keep != 1) || (rc != 0 && rc != 1) || (ttld != 0 && ttld != 1) {
		return nil, false
	}
	cfg := config.DefaultMempoolConfig()
	cfg.Size = int(size)
	cfg.MaxTxsBytes = maxb
	cfg.MaxTxBytes = int(maxtx)
	cfg.CacheSize = int(cache)
	cfg.KeepInvalidTxsInCache = keep == 1
	cfg.Recheck = rc == 1
	cfg.TTLNumBlocks = ttl
	cfg.TTLDuration = time.Duration(ttld) // 1ns: every entry is older than the TTL at the next Update
	app := &scriptApp{rv: map[string]verdict{}}
	cli := abcicli.NewLocalClient(nil, app)
	p := &pool{ver: int(ver), cfg: cfg, app: app}
	var conn proxy.AppConnMempool = proxy.NewAppConnMempool(cli)
	if ver == 1 {
		conn = &gatedConn{AppConnMempool: conn, p: p}
	}
	if d, has := m["ttldur"]; has {
		v, ok := atoi(d)
		if !ok || v < 0 || ver != 1 || strings.HasPrefix(d, "+") || strings.HasPrefix(d, "-") {
			return nil, false
		}
		p.ttlD, p.ts, p.base = v, map[string]int64{}, time.Now()
		if v > 0 {
			cfg.TTLDuration = time.Duration(v) * time.Hour
		}
	}
	if sp, has := m["split"]; has {
		if sp != "1" || ver != 1 {
			return nil, false
		}
		p.split = true
		p.arrived = make(chan *heldCall, 1)
	}
	if a, has := m["async"]; has {
		if (a != "0" && a != "1") || (a == "1" && ver != 0) {
			return nil, false
		}
		if a == "1" {
			p.async = &asyncConn{app: app}
			conn = p.async
		}
	}
	if ver == 0 {
		cfg.Version = config.MempoolV0
		p.mp = mempoolv0.NewCListMempool(cfg, conn, h, mempoolv0.WithPostCheck(p.postHook))
	} else {
		cfg.Version = config.MempoolV1
		p.v1 = mempoolv1.NewTxMempool(log.NewNopLogger(), cfg, conn, h)
		p.v1.EnableTxsAvailable()
		p.mp = p.v1
	}
	return p, true
}

func (p *pool) obs() string {
	s := fmt.Sprintf(" | n=%d b=%d all=%s", p.mp.Size(), p.mp.SizeBytes(), hxList(p.mp.ReapMaxTxs(-1)))
	if p.timeout {
		s += " recheck-timeout"
	}
	if p.async != nil {
		n, _ := p.async.pending()
		s += fmt.Sprintf(" q=%d", n)
	}
	if p.split {
		s += fmt.Sprintf(" pend=%d", len(p.inflight))
	}
	return s
}

func classify(err error) string {
	switch err.(type) {
	case nil:
		return "ok"
	case mempool.ErrMempoolIsFull:
		return "full"
	case mempool.ErrTxTooLarge:
		return "too-large"
	case mempool.ErrPreCheck:
		return "pre"
	}
	if err == mempool.ErrTxInCache {
		return "in-cache"
	}
	return "err-other:" + strings.ReplaceAll(err.Error(), " ", "_")
}

func mempoolErrClass(s string) string {
	switch {
	case s == "":
		return "-"
	case strings.Contains(s, "already exists for sender"):
		return "sender"
	case strings.Contains(s, "mempool is full"):
		return "full"
	}
	return "post"
}

func parseVerdict(m map[string]string) (verdict, bool) {
	code, ok1 := atoi(m["code"])
	gas, ok2 := atoi(m["gas"])
	prio, ok3 := atoi(m["prio"])
	s, ok4 := m["sender"]
	if !(ok1 && ok2 && ok3 && ok4) || code < 0 || code > 0xffffffff {
		return verdict{}, false
	}
	if s == "-" {
		s = ""
	}
	return verdict{code: uint32(code), gas: gas, prio: prio, sender: s}, true
}

// rv=tx:code:gas:prio;tx:code:gas:prio
func parseRV(s string) (map[string]verdict, bool) {
	out := map[string]verdict{}
	if s == "-" {
		return out, true
	}
	if s == "" {
		return nil, false
	}
	for _, e := range strings.Split(s, ";") {
		f := strings.Split(e, ":")
		if len(f) != 4 {
			return nil, false
		}
		code, ok1 := atoi(f[1])
		gas, ok2 := atoi(f[2])
		prio, ok3 := atoi(f[3])
		if !(ok1 && ok2 && ok3) || code < 0 || code > 0xffffffff || !validHex(f[0]) {
			return nil, false
		}
		k := string(unhx(f[0]))
		if _, dup := out[k]; !dup { // first entry wins (as in the model's lookup)
			out[k] = verdict{code: uint32(code), gas: gas, prio: prio}
		}
	}
	return out, true
}

func validHex(s string) bool {
	if s == "-" || s == "." {
		return true
	}
	if i := strings.IndexByte(s, '*'); i >= 0 {
		if i != 2 || len(s) < 4 || len(s) > 10 || s[3] == '0' {
			return false
		}
		for _, c := range s[3:] {
			if c < '0' || c > '9' {
				return false
			}
		}
		s = s[:2]
	}
	if len(s) == 0 || len(s)%2 != 0 {
		return false
	}
	for _, c := range s {
		if !(c >= '0' && c <= '9' || c >= 'a' && c <= 'f') {
			return false
		}
	}
	return true
}

func (p *pool) check(m map[string]string) string {
	v, ok := parseVerdict(m)
	if !ok || !validHex(m["tx"]) {
		return "bad-op"
	}
	peer, ok := atoi(m["peer"])
	if !ok || peer < 0 || peer > 65535 {
		return "bad-op"
	}
	tx := types.Tx(unhx(m["tx"]))
	p.app.mu.Lock()
	p.app.first = v
	p.app.mu.Unlock()
	now, hasNow := atoi(m["now"])
	wasIn := false
	if p.ts != nil && hasNow {
		_, wasIn = p.v1.VerifPeers(tx)
	}
	me := "-"
	called := false
	err := p.mp.CheckTx(tx, func(r *abci.Response) {
		called = true
		if c := r.GetCheckTx(); c != nil {
			me = mempoolErrClass(c.MempoolError)
		}
	}, mempool.TxInfo{SenderID: uint16(peer)})
	if p.ts != nil && hasNow && !wasIn {
		if _, in := p.v1.VerifPeers(tx); in {
			p.ts[string(tx)] = now
			p.v1.VerifSetTimestamp(tx, p.base.Add(time.Duration(now)*time.Hour))
		}
	}
	if err == nil && !called && p.async == nil {
		return "ok callback-missing" + p.obs()
	}
	if p.async != nil {
		return classify(err) + p.obs()
	}
	if p.ver == 1 && err == nil {
		return "ok me=" + me + " p=" + p.peersOf(tx) + p.obs()
	}
	return classify(err) + " p=" + p.peersOf(tx) + p.obs()
}

// ccheck: K distinct, equally long, never-seen transactions with one and the same verdict are
// submitted by K goroutines released together. Every linearisation admits the same NUMBER of them
// (the model answers with the sequential run); which ones is schedule dependent, so only counts are
// reported and the generator flushes the pool afterwards.
func (p *pool) ccheck(m map[string]string) string {
	v, ok := parseVerdict(m)
	txl := splitList(m["txs"])
	if !ok || len(txl) == 0 || len(txl) > 64 {
		return "bad-op"
	}
	var txs []types.Tx
	for _, t := range txl {
		if !validHex(t) {
			return "bad-op"
		}
		txs = append(txs, types.Tx(unhx(t)))
	}
	p.app.mu.Lock()
	p.app.first = v
	p.app.mu.Unlock()
	before := p.mp.Size()
	// submitters expected at the barrier: with a cache, repeats of a tx are turned away before it
	want := len(txs)
	if p.cfg.CacheSize > 0 {
		d := map[string]bool{}
		for _, t := range txs {
			d[string(t)] = true
		}
		want = len(d)
	}
	p.barMu.Lock()
	p.barWant, p.barGot, p.barCh = want, 0, make(chan struct{})
	atomic.StoreInt32(&p.barSpin, 0)
	p.barMu.Unlock()
	start := make(chan struct{})
	var wg sync.WaitGroup
	var panicked int32
	for i := range txs {
		wg.Add(1)
		go func(i int) {
			defer wg.Done()
			defer func() {
				if r := recover(); r != nil {
					atomic.StoreInt32(&panicked, 1)
				}
			}()
			<-start
			_ = p.mp.CheckTx(txs[i], nil, mempool.TxInfo{SenderID: uint16(i)})
		}(i)
	}
	close(start)
	wg.Wait()
	p.barMu.Lock()
	p.barCh = nil
	p.barMu.Unlock()
	all := p.mp.ReapMaxTxs(-1)
	seen := map[string]bool{}
	dup := 0
	var sum int64
	for _, t := range all {
		if seen[string(t)] {
			dup++
		}
		seen[string(t)] = true
		sum += int64(len(t))
	}
	n, b := p.mp.Size(), p.mp.SizeBytes()
	s := fmt.Sprintf("admitted=%d | n=%d b=%d dup=%d reap=%d", n-before, n, b, dup, len(all))
	if b != sum {
		s += fmt.Sprintf(" contents=%d", sum)
	}
	if panicked != 0 {
		s += " panic"
	}
	return s
}

// peersOf: the peer ids the pool has recorded for tx (hook accessor), "-" when tx is not pooled
func (p *pool) peersOf(tx types.Tx) string {
	var ids []uint16
	var ok bool
	if p.v1 != nil {
		ids, ok = p.v1.VerifPeers(tx)
	} else {
		ids, ok = p.mp.(*mempoolv0.CListMempool).VerifSenders(tx)
	}
	if !ok {
		return "-"
	}
	s := make([]string, len(ids))
	for i, id := range ids {
		s[i] = strconv.Itoa(int(id))
	}
	return strings.Join(s, ",")
}

// begin: start a CheckTx and let it run until it either returns (refused in the first phase) or
// is about to call the application, where it is held
func (p *pool) begin(m map[string]string) string {
	peer, ok := atoi(m["peer"])
	if !ok || peer < 0 || peer > 65535 || !validHex(m["tx"]) || !p.split {
		return "bad-op"
	}
	tx := types.Tx(unhx(m["tx"]))
	done := make(chan error, 1)
	me := "-"
	p.holding = true
	go func() {
		done <- p.mp.CheckTx(tx, func(r *abci.Response) {
			if c := r.GetCheckTx(); c != nil {
				me = mempoolErrClass(c.MempoolError)
			}
		}, mempool.TxInfo{SenderID: uint16(peer)})
	}()
	select {
	case err := <-done:
		p.holding = false
		return classify(err) + p.obs()
	case hc := <-p.arrived:
		p.holding = false
		hc.done = done
		hc.meP = &me
		p.inflight = append(p.inflight, hc)
		return "pending" + p.obs()
	}
}

// finish: the application answers the i-th call in flight with the given verdict
func (p *pool) finish(m map[string]string) string {
	v, ok := parseVerdict(m)
	i, ok2 := atoi(m["i"])
	if !ok || !ok2 || !p.split || i < 0 || int(i) >= len(p.inflight) {
		return "bad-op"
	}
	hc := p.inflight[i]
	p.inflight = append(p.inflight[:i:i], p.inflight[i+1:]...)
	p.app.mu.Lock()
	p.app.first = v
	p.app.mu.Unlock()
	close(hc.release)
	err := <-hc.done
	if err != nil {
		return classify(err) + p.obs()
	}
	return "ok me=" + *hc.meP + " p=" + p.peersOf(hc.tx) + p.obs()
}

// releaseAll lets every call still in flight complete (rejected) so that no goroutine is left
func (p *pool) releaseAll() {
	p.app.mu.Lock()
	p.app.first = verdict{code: 1}
	p.app.mu.Unlock()
	for _, hc := range p.inflight {
		close(hc.release)
		<-hc.done
	}
	p.inflight = nil
}

func (p *pool) deliver(n int) (res string) {
	defer func() {
		if r := recover(); r != nil {
			res = "panic" + p.obs()
		}
	}()
	for i := 0; i < n && p.async.deliver(); i++ {
	}
	return "ok" + p.obs()
}

func (p *pool) update(m map[string]string) string {
	h, ok := atoi(m["h"])
	if !ok {
		return "bad-op"
	}
	txl := splitList(m["txs"])
	cl := splitList(m["codes"])
	if len(txl) != len(cl) || m["txs"] == "" || m["codes"] == "" {
		return "bad-op"
	}
	var txs types.Txs
	var resps []*abci.ResponseDeliverTx
	for i := range txl {
		c, ok := atoi(cl[i])
		if !ok || c < 0 || c > 0xffffffff || !validHex(txl[i]) {
			return "bad-op"
		}
		txs = append(txs, types.Tx(unhx(txl[i])))
		resps = append(resps, &abci.ResponseDeliverTx{Code: uint32(c)})
	}
	rv, ok := parseRV(m["rv"])
	if !ok {
		return "bad-op"
	}
	var pre mempool.PreCheckFunc
	var post mempool.PostCheckFunc
	var postGas *int64
	var newInner mempool.PostCheckFunc
	switch m["pre"] {
	case "-":
	default:
		v, ok := atoi(m["pre"])
		if !ok {
			return "bad-op"
		}
		pre = mempool.PreCheckMaxBytes(v)
	}
	switch m["post"] {
	case "-":
	default:
		v, ok := atoi(m["post"])
		if !ok {
			return "bad-op"
		}
		post = mempool.PostCheckMaxGas(v)
		postGas = &v
		if p.ver == 0 {
			newInner = post
			post = p.postHook
		}
	}

	if p.v1 != nil {
		select {
		case <-p.v1.TxsAvailable():
		default:
		}
	}
	if p.ts != nil {
		if now, ok := atoi(m["now"]); ok {
			p.base = time.Now().Add(-time.Duration(now)*time.Hour + 30*time.Minute)
			for _, tx := range p.mp.ReapMaxTxs(-1) {
				p.v1.VerifSetTimestamp(tx, p.base.Add(time.Duration(p.ts[string(tx)])*time.Hour))
			}
		}
	}
	// as state/execution.go Commit: Lock, FlushAppConn, (app commit), Update, Unlock
	p.mp.Lock()
	_ = p.mp.FlushAppConn() // answers still pending are given with the previous height's verdicts
	p.app.mu.Lock()
	p.app.rv = rv
	if postGas != nil {
		p.app.postGas = postGas
	}
	p.app.rcCalls, p.app.rcKeep = 0, 0
	p.app.mu.Unlock()
	if newInner != nil {
		p.barMu.Lock()
		p.postInner = newInner
		p.barMu.Unlock()
	}
	err := p.mp.Update(h, txs, resps, pre, post)
	pending := p.mp.Size()
	p.mp.Unlock()
	if p.v1 != nil && p.cfg.Recheck && pending > 0 {
		p.waitRecheckV1(pending)
	}
	if err != nil {
		return "err" + p.obs()
	}
	return "ok" + p.obs()
}

// waitRecheckV1: v1 rechecks in a goroutine of its own that needs the pool lock for every result
// and finally signals TxsAvailable (when something is left). Wait for that point.
func (p *pool) waitRecheckV1(pending int) {
	deadline := time.Now().Add(3 * time.Second)
	for {
		p.app.mu.Lock()
		calls, keep := p.app.rcCalls, p.app.rcKeep
		p.app.mu.Unlock()
		if calls >= pending {
			if keep > 0 {
				select {
				case <-p.v1.TxsAvailable():
				case <-time.After(time.Until(deadline)):
					p.timeout = true
				}
				break
			}
			if p.mp.Size() == 0 {
				break
			}
		}
		if time.Now().After(deadline) {
			p.timeout = true
			break
		}
		time.Sleep(20 * time.Microsecond)
	}
	p.mp.Lock()
	p.mp.Unlock() //nolint
}

// execCase: cases with concurrent submissions are schedule dependent on broken code only; they are
// run up to 4 times on fresh pools and the first run on which the oracle objects is reported (on
// correct code all runs give the same canonical lines).
func execCase(c core.Case) []string {
	conc := false
	for _, op := range c.Ops {
		if strings.HasPrefix(op, "ccheck ") {
			conc = true
		}
	}
	if !conc {
		return execOnce(c)
	}
	var out []string
	for i := 0; i < 4; i++ {
		out = execOnce(c)
		if len(oracle(c, out)) > 0 {
			break
		}
	}
	return out
}

func execOnce(c core.Case) []string {
	var out []string
	var p *pool
	defer func() {
		if p != nil && p.split {
			p.releaseAll()
		}
	}()
	for _, op := range c.Ops {
		f := strings.Fields(op)
		if len(f) == 0 {
			out = append(out, "bad-op")
			continue
		}
		m := kv(op)
		if f[0] == "cfg" {
			np, ok := newPool(m)
			if !ok {
				out = append(out, "bad-op")
				continue
			}
			if p != nil && p.split {
				p.releaseAll()
			}
			p = np
			out = append(out, "ok"+p.obs())
			continue
		}
		if f[0] == "stress" {
			out = append(out, stress(m))
			continue
		}
		if f[0] == "hazard" {
			out = append(out, hazard(m))
			continue
		}
		if p == nil {
			out = append(out, "bad-op")
			continue
		}
		switch f[0] {
		case "check":
			if p.split {
				out = append(out, "bad-op")
				continue
			}
			out = append(out, countRes(p.check(m)))
		case "update":
			out = append(out, countRes(p.update(m)))
		case "begin":
			out = append(out, p.begin(m))
		case "finish":
			out = append(out, p.finish(m))
		case "deliver":
			n, ok := atoi(m["n"])
			if !ok || p.async == nil || n < 0 || n > 1000 {
				out = append(out, "bad-op")
				continue
			}
			out = append(out, p.deliver(int(n)))
		case "ccheck":
			if p.async != nil || p.split {
				out = append(out, "bad-op")
				continue
			}
			out = append(out, p.ccheck(m))
		case "rmkey":
			if p.async == nil || !validHex(m["tx"]) {
				out = append(out, "bad-op")
				continue
			}
			tx := types.Tx(unhx(m["tx"]))
			if p.async.pendingRecheckOf(tx) { // outside the discipline (V0.Allowed): not performed
				out = append(out, "unsafe"+p.obs())
				continue
			}
			_ = p.mp.RemoveTxByKey(tx.Key())
			out = append(out, "ok"+p.obs())
		case "flush":
			if len(f) == 1 && p.async != nil {
				if _, rc := p.async.pending(); rc > 0 {
					out = append(out, "unsafe"+p.obs())
				} else {
					p.mp.Flush()
					out = append(out, "ok"+p.obs())
				}
				continue
			}
			if len(f) != 1 || p.async != nil || p.split {
				out = append(out, "bad-op")
				continue
			}
			p.mp.Flush()
			out = append(out, "ok"+p.obs())
		case "reap":
			b, ok1 := atoi(m["bytes"])
			g, ok2 := atoi(m["gas"])
			if !ok1 || !ok2 {
				out = append(out, "bad-op")
				continue
			}
			out = append(out, hxList(p.mp.ReapMaxBytesMaxGas(b, g))+p.obs())
		case "reapn":
			n, ok := atoi(m["n"])
			if !ok || n > 1<<30 || n < -(1<<30) {
				out = append(out, "bad-op")
				continue
			}
			out = append(out, hxList(p.mp.ReapMaxTxs(int(n)))+p.obs())
		default:
			out = append(out, "bad-op")
		}
	}
	return out
}

// ---------- concurrent stress run (thorough tier): real goroutine interleavings, oracle as monitor ----------

type stressApp struct {
	abci.BaseApplication
	epoch int64
}

func (a *stressApp) CheckTx(req abci.RequestCheckTx) abci.ResponseCheckTx {
	var h uint32 = 2166136261
	for _, b := range req.Tx {
		h = (h ^ uint32(b)) * 16777619
	}
	e := uint32(atomic.LoadInt64(&a.epoch))
	code := uint32(0)
	if req.Type == abci.CheckTxType_Recheck {
		if (h+e)%5 == 0 {
			code = 1
		}
	} else if (h+e)%11 == 0 {
		code = 1
	}
	return abci.ResponseCheckTx{Code: code, GasWanted: int64(h % 4), Priority: int64((h + e) % 5)}
}

// stress runs W submitters, one committer and one reaper concurrently on a small pool and checks
// the state invariants of the property while they run and after they are done.
func stress(m map[string]string) string {
	ver, ok0 := atoi(m["ver"])
	seed, ok1 := atoi(m["seed"])
	workers, ok2 := atoi(m["workers"])
	size, ok3 := atoi(m["size"])
	cache, ok4 := atoi(m["cache"])
	maxb, ok5 := atoi(m["maxbytes"])
	if !(ok0 && ok1 && ok2 && ok3 && ok4 && ok5) || (ver != 0 && ver != 1) || workers < 1 || workers > 64 {
		return "bad-op"
	}
	cfg := config.DefaultMempoolConfig()
	cfg.Size, cfg.CacheSize, cfg.MaxTxsBytes, cfg.MaxTxBytes, cfg.Recheck = int(size), int(cache), maxb, 1000, true
	app := &stressApp{}
	conn := proxy.NewAppConnMempool(abcicli.NewLocalClient(nil, app))
	var mp mempool.Mempool
	if ver == 0 {
		mp = mempoolv0.NewCListMempool(cfg, conn, 1)
	} else {
		mp = mempoolv1.NewTxMempool(log.NewNopLogger(), cfg, conn, 1)
	}
	var failMu sync.Mutex
	fail := ""
	setFail := func(s string) {
		failMu.Lock()
		if fail == "" {
			fail = s
		}
		failMu.Unlock()
	}
	checkReap := func(where string) {
		txs := mp.ReapMaxTxs(-1)
		seen := map[string]bool{}
		for _, t := range txs {
			if seen[string(t)] {
				setFail("duplicate-tx-" + where)
			}
			seen[string(t)] = true
		}
	}
	mkTx := func(r *rand.Rand) types.Tx {
		n := 1 + r.Intn(3)
		b := make([]byte, n)
		for i := range b {
			b[i] = byte(r.Intn(3))
		}
		return b
	}
	var wg sync.WaitGroup
	stop := int32(0)
	for w := 0; w < int(workers); w++ {
		wg.Add(1)
		go func(w int) {
			defer wg.Done()
			defer func() {
				if r := recover(); r != nil {
					setFail("panic-in-CheckTx")
				}
			}()
			r := rand.New(rand.NewSource(seed*1000 + int64(w)))
			for i := 0; i < 300; i++ {
				_ = mp.CheckTx(mkTx(r), nil, mempool.TxInfo{SenderID: uint16(w)})
				if n := mp.Size(); n > int(size) {
					setFail("size-exceeds-limit-while-running")
				}
			}
		}(w)
	}
	var aux sync.WaitGroup
	aux.Add(2)
	go func() { // committer
		defer aux.Done()
		defer func() {
			if r := recover(); r != nil {
				setFail("panic-in-Update")
			}
		}()
		r := rand.New(rand.NewSource(seed*1000 + 999))
		for h := int64(2); atomic.LoadInt32(&stop) == 0; h++ {
			var txs types.Txs
			var resps []*abci.ResponseDeliverTx
			for i := 0; i < r.Intn(3); i++ {
				txs = append(txs, mkTx(r))
				resps = append(resps, &abci.ResponseDeliverTx{Code: uint32(r.Intn(2))})
			}
			mp.Lock()
			_ = mp.FlushAppConn()
			atomic.AddInt64(&app.epoch, 1)
			_ = mp.Update(h, txs, resps, nil, nil)
			mp.Unlock()
			time.Sleep(200 * time.Microsecond)
		}
	}()
	go func() { // reaper
		defer aux.Done()
		for atomic.LoadInt32(&stop) == 0 {
			checkReap("while-running")
			mp.ReapMaxBytesMaxGas(50, 20)
			time.Sleep(50 * time.Microsecond)
		}
	}()
	wg.Wait()
	atomic.StoreInt32(&stop, 1)
	aux.Wait()
	// let v1's recheck goroutines drain
	for i := 0; i < 200; i++ {
		time.Sleep(time.Millisecond)
		mp.Lock()
		mp.Unlock() //nolint
		if i > 20 {
			break
		}
	}
	checkReap("at-rest")
	all := mp.ReapMaxTxs(-1)
	var sum int64
	for _, t := range all {
		sum += int64(len(t))
	}
	if mp.Size() != len(all) {
		setFail("size-differs-from-reap-all-at-rest")
	}
	if mp.SizeBytes() != sum {
		setFail("sizebytes-differs-from-contents-at-rest")
	}
	if mp.Size() > int(size) || mp.SizeBytes() > maxb {
		setFail("exceeds-limits-at-rest")
	}
	if fail != "" {
		return "stress-fail " + fail
	}
	return "stress-ok"
}

// hazard: Flush / RemoveTxByKey while the answers of a recheck are still in flight (asynchronous
// client). Three entries a,b,c are rechecked, c is rejected by the application. The property asks
// that c is gone and the counters fit the contents when the recheck is over.
func hazard(m map[string]string) (res string) {
	kind := m["kind"]
	if kind == "tie" {
		return hazardTie()
	}
	if kind != "flush" && kind != "remove" && kind != "none" {
		return "bad-op"
	}
	p, ok := newPool(map[string]string{"ver": "0", "size": "10", "maxbytes": "1000", "maxtx": "100", "cache": "10",
		"keep": "0", "recheck": "1", "ttl": "0", "ttld": "0", "h": "1", "async": "1"})
	if !ok {
		return "bad-op"
	}
	defer func() {
		if r := recover(); r != nil {
			res = "hazard-fail panic"
		}
	}()
	a, b, c := types.Tx{0xa1}, types.Tx{0xb1}, types.Tx{0xc1}
	p.app.first = verdict{}
	for _, tx := range []types.Tx{a, b, c} {
		_ = p.mp.CheckTx(tx, nil, mempool.TxInfo{})
	}
	_ = p.async.FlushSync()
	p.app.rv = map[string]verdict{string(c): {code: 1}}
	p.mp.Lock()
	_ = p.mp.FlushAppConn()
	_ = p.mp.Update(2, nil, nil, nil, nil)
	p.mp.Unlock()
	switch kind {
	case "flush":
		p.mp.Flush()
	case "remove":
		_ = p.mp.RemoveTxByKey(b.Key())
	}
	_ = p.async.FlushSync()
	all := p.mp.ReapMaxTxs(-1)
	var sum int64
	for _, t := range all {
		sum += int64(len(t))
		if string(t) == string(c) {
			return "hazard-fail rejected-tx-kept"
		}
	}
	if p.mp.Size() != len(all) || p.mp.SizeBytes() != sum {
		return "hazard-fail counters-differ-from-contents"
	}
	return "hazard-ok"
}

// hazardTie (v1): two entries with the same priority and (through the timestamp hook) the same
// arrival timestamp; the reap order is asked for repeatedly.
func hazardTie() string {
	p, ok := newPool(map[string]string{"ver": "1", "size": "10", "maxbytes": "1000", "maxtx": "100", "cache": "10",
		"keep": "0", "recheck": "0", "ttl": "0", "ttld": "0", "h": "1"})
	if !ok {
		return "bad-op"
	}
	a, b := types.Tx{0xa1}, types.Tx{0xb1}
	p.app.first = verdict{prio: 1}
	_ = p.mp.CheckTx(a, nil, mempool.TxInfo{})
	_ = p.mp.CheckTx(b, nil, mempool.TxInfo{})
	t := time.Now()
	p.v1.VerifSetTimestamp(a, t)
	p.v1.VerifSetTimestamp(b, t)
	seen := map[string]bool{}
	for i := 0; i < 64; i++ {
		seen[hxList(p.mp.ReapMaxTxs(-1))] = true
	}
	if len(seen) > 1 {
		return "hazard-fail order-varies"
	}
	return "hazard-ok"
}

// ---------- property oracle on the implementation's outputs ----------

type obsv struct {
	res string
	n   int64
	b   int64
	all []string // hex tokens ("." = empty tx)
	q   int64
	ok  bool
	// peers recorded for the tx of a check op ("-" not pooled, "?" not reported)
	peers string
}

func parseObs(line string) obsv {
	i := strings.Index(line, " | ")
	if i < 0 {
		return obsv{res: line}
	}
	o := obsv{res: line[:i], ok: true, peers: "?"}
	if j := strings.Index(o.res, " p="); j >= 0 {
		o.peers = o.res[j+3:]
		o.res = o.res[:j]
	}
	for _, t := range strings.Fields(line[i+3:]) {
		switch {
		case strings.HasPrefix(t, "n="):
			o.n, _ = atoi(t[2:])
		case strings.HasPrefix(t, "b="):
			o.b, _ = atoi(t[2:])
		case strings.HasPrefix(t, "all="):
			o.all = splitList(t[4:])
		case strings.HasPrefix(t, "q="):
			o.q, _ = atoi(t[2:])
		}
	}
	return o
}

func tokLen(t string) int64 {
	if !validHex(t) {
		return 0
	}
	return int64(len(unhx(t)))
}

func normTok(t string) string {
	if !validHex(t) {
		return t
	}
	return encTx(unhx(t))
}

func protoSize(n int64) int64 {
	v := int64(1)
	for x := n; x >= 128; x >>= 7 {
		v++
	}
	return 1 + v + n
}

func postPasses(bound, gas string) bool {
	if bound == "-" {
		return true
	}
	b, _ := atoi(bound)
	g, _ := atoi(gas)
	return b == -1 || (g >= 0 && g <= b)
}

func isPrefix(a, b []string) bool {
	if len(a) > len(b) {
		return false
	}
	for i := range a {
		if a[i] != b[i] {
			return false
		}
	}
	return true
}

func contains(l []string, x string) bool {
	for _, y := range l {
		if y == x {
			return true
		}
	}
	return false
}

type meta struct {
	gas, prio int64
	arrival   int
}

func oracle(c core.Case, out []string) []core.Finding {
	var fs []core.Finding
	add := func(fp, d string) { fs = append(fs, core.Finding{Fingerprint: fp, Desc: d}) }
	var cfg map[string]string
	ver := "v?"
	var prev []string
	info := map[string]meta{}
	arrival := 0
	var size, maxb, cache int64
	lastCommittedOK := "" // tx committed with code 0 as the last entry of the previous op's block
	// asynchronous client: the recheck is over when as many responses as the pool had entries at
	// Update have been handled
	async := false
	var aSnap []string
	var aRV map[string]verdict
	aLeft := -1 // recheck answers still to come (-1: no recheck being watched)
	aResub := map[string]bool{}
	aCommitted := map[string]bool{} // committed by an Update and not submitted again since
	var qPrev int64
	cfgPost := "-" // PostCheckMaxGas bound in force
	// split mode (v1): calls in flight, and whether a block containing their tx was committed meanwhile
	type inflightT struct {
		tx      string
		spanned bool
	}
	var inflight []inflightT
	// TTL (v1): admission time / height of the pooled txs as the op lines give them
	admT := map[string]int64{}
	admH := map[string]int64{}
	var curH int64
	for i, op := range c.Ops {
		if i >= len(out) {
			break
		}
		f := strings.Fields(op)
		if len(f) == 0 {
			continue
		}
		o := parseObs(out[i])
		if f[0] == "hazard" && strings.HasPrefix(out[i], "hazard-fail") {
			m := kv(op)
			if m["kind"] == "tie" {
				add("v1.reap.order-undefined-on-equal-timestamps", "two entries with equal priority and equal arrival timestamp are reaped in varying order: "+out[i])
				continue
			}
			add("v0.async."+m["kind"]+"-during-recheck."+strings.TrimPrefix(out[i], "hazard-fail "),
				"v0 over an asynchronous client: "+m["kind"]+" while recheck answers are in flight: "+out[i])
			continue
		}
		if f[0] == "stress" && strings.HasPrefix(out[i], "stress-fail") {
			m := kv(op)
			add("v"+m["ver"]+".concurrent."+strings.TrimPrefix(out[i], "stress-fail "),
				"concurrent submitters/committer/reaper on one pool ("+op+"): "+out[i])
			continue
		}
		if f[0] == "ccheck" && strings.HasPrefix(out[i], "admitted=") && cfg != nil {
			var adm, n, b, dup, reap int64
			fmt.Sscanf(out[i], "admitted=%d | n=%d b=%d dup=%d reap=%d", &adm, &n, &b, &dup, &reap)
			if size >= 0 && maxb >= 0 && (n > size || b > maxb) {
				add(ver+".concurrent.exceeds-configured-limits", fmt.Sprintf("after %d concurrent CheckTx calls Size()=%d SizeBytes()=%d exceed size=%d max_txs_bytes=%d", len(splitList(kv(op)["txs"])), n, b, size, maxb))
			}
			if dup != 0 {
				add(ver+".concurrent.duplicate-tx", "after concurrent CheckTx calls a transaction is in the pool twice")
			}
			if reap != n {
				add(ver+".concurrent.size-differs-from-reap-all", fmt.Sprintf("after concurrent CheckTx calls Size()=%d but %d txs are reapable", n, reap))
			}
			if strings.Contains(out[i], "contents=") {
				add(ver+".concurrent.sizebytes-differs-from-contents", "after concurrent CheckTx calls SizeBytes() differs from the pool contents: "+out[i])
			}
			if strings.Contains(out[i], "panic") {
				add(ver+".concurrent.panic", "CheckTx panicked under concurrent callers")
			}
			prev = nil
			continue
		}
		if strings.HasPrefix(out[i], "PANIC") {
			add(ver+".panic", "the pool panicked on op "+op+": "+out[i])
			continue
		}
		if !o.ok {
			continue
		}
		m := kv(op)
		if o.res == "panic" {
			add(ver+".async.panic", "the pool panicked while a response was handled (op "+f[0]+")")
		}
		if strings.Contains(out[i], "recheck-timeout") {
			add(ver+".recheck.never-settles", "after Update the recheck did not reach a settled state within 3 s")
		}
		if f[0] == "cfg" {
			cfg = m
			ver = "v" + m["ver"]
			size, _ = atoi(m["size"])
			maxb, _ = atoi(m["maxbytes"])
			cache, _ = atoi(m["cache"])
			async = m["async"] == "1"
			inflight = nil
			aCommitted = map[string]bool{}
			cfgPost = "-"
			admT, admH = map[string]int64{}, map[string]int64{}
			curH, _ = atoi(m["h"])
			aLeft, qPrev = -1, 0
			prev = nil
			info = map[string]meta{}
			lastCommittedOK = ""
			continue
		}
		if cfg == nil {
			continue
		}
		// --- invariants of every observed state ---
		seen := map[string]bool{}
		var sum int64
		for _, t := range o.all {
			if seen[t] {
				add(ver+".pool.duplicate-tx", fmt.Sprintf("transaction %s is in the pool twice (cache=%s size=%s) after op %d %q", t, cfg["cache"], cfg["size"], i, f[0]))
			}
			seen[t] = true
			sum += tokLen(t)
		}
		if o.n != int64(len(o.all)) {
			add(ver+".size-differs-from-reap-all", fmt.Sprintf("Size()=%d but ReapMaxTxs(-1) returns %d txs", o.n, len(o.all)))
		}
		if o.b != sum && o.n == int64(len(o.all)) {
			add(ver+".sizebytes-differs-from-contents", fmt.Sprintf("SizeBytes()=%d but the pool holds %d bytes", o.b, sum))
		}
		if size >= 0 && maxb >= 0 && (o.n > size || o.b > maxb) {
			add(ver+".exceeds-configured-limits", fmt.Sprintf("Size()=%d SizeBytes()=%d exceed size=%d max_txs_bytes=%d", o.n, o.b, size, maxb))
		}
		if async {
			for _, t := range o.all {
				if aCommitted[t] {
					add("v0.async.committed-tx-in-pool-after-update", fmt.Sprintf("tx %s was in a committed block (Update) and has not been submitted since, but is in the pool after op %d %q: an answer to a CheckTx sent before the commit was handled after Update", t, i, f[0]))
				}
			}
		}
		nextCommitted := ""
		switch f[0] {
		case "begin":
			if o.res == "pending" {
				inflight = append(inflight, inflightT{tx: normTok(m["tx"])})
			} else if strings.Join(prev, ",") != strings.Join(o.all, ",") {
				add("v1.split.refused-call-changes-pool", "a CheckTx refused in its first phase changed the pool")
			}
		case "finish":
			i64, _ := atoi(m["i"])
			if int(i64) < len(inflight) && strings.HasPrefix(o.res, "ok") {
				fl := inflight[i64]
				inflight = append(inflight[:i64:i64], inflight[i64+1:]...)
				wasIn, isIn := contains(prev, fl.tx), contains(o.all, fl.tx)
				if isIn && !wasIn {
					gas, _ := atoi(m["gas"])
					prio, _ := atoi(m["prio"])
					arrival++
					info[fl.tx] = meta{gas: gas, prio: prio, arrival: arrival}
					admH[fl.tx] = curH
					if fl.spanned && cache >= 10 { // cache larger than the tx alphabet: still remembered
						add("v1.inflight-check-readmits-committed-tx", fmt.Sprintf("tx %s was committed by an Update while a CheckTx of it was in flight (between its cache check and addNewTransaction); the call then put the committed tx into the pool", fl.tx))
					}
				}
				for _, t := range o.all {
					if t != fl.tx && !contains(prev, t) {
						add("v1.split.foreign-tx-appears", "finishing the CheckTx of "+fl.tx+" made "+t+" appear")
					}
				}
			}
		case "deliver":
			handled := int(qPrev - o.q)
			if aLeft > 0 && handled > 0 {
				aLeft -= handled
				if aLeft <= 0 {
					aLeft = -1
					for _, t := range o.all {
						if contains(aSnap, t) && !aResub[t] && aRV[string(unhx(t))].code != 0 {
							add("v0.async.recheck.keeps-rejected-tx", fmt.Sprintf("all recheck answers have been handled and tx %s, answered code %d, is still in the pool", t, aRV[string(unhx(t))].code))
						}
					}
				}
			}
		case "check":
			if async {
				aResub[normTok(m["tx"])] = true
				delete(aCommitted, normTok(m["tx"]))
				if o.res == "in-cache" || o.res == "full" || o.res == "too-large" || o.res == "pre" || o.res == "ok" {
					if strings.Join(prev, ",") != strings.Join(o.all, ",") {
						add("v0.async.check.changes-pool-before-answer", "CheckTx changed the pool before its answer was handled")
					}
				}
				break
			}
			tx := normTok(m["tx"])
			wasIn := contains(prev, tx)
			isIn := contains(o.all, tx)
			for _, t := range o.all {
				if t != tx && !contains(prev, t) {
					add(ver+".check.foreign-tx-appears", "CheckTx of "+tx+" made "+t+" appear")
				}
			}
			if o.res == "in-cache" || o.res == "full" || o.res == "too-large" || o.res == "pre" {
				if strings.Join(prev, ",") != strings.Join(o.all, ",") {
					add(ver+".check.rejected-call-changes-pool", "CheckTx returned "+o.res+" but the pool changed")
				}
			}
			if lastCommittedOK != "" && lastCommittedOK == tx && cache > 0 && isIn {
				add(ver+".check.readmits-just-committed-tx", "tx "+tx+" committed (code 0) by the previous Update and still remembered was admitted again")
			}
			code, _ := atoi(m["code"])
			if o.peers != "?" && isIn && (o.res == "in-cache" || (strings.HasPrefix(o.res, "ok") && code == 0 && !strings.Contains(o.res, "me=post"))) {
				if !contains(strings.Split(o.peers, ","), m["peer"]) && postPasses(cfgPost, m["gas"]) {
					add(ver+".senders.peer-not-recorded", fmt.Sprintf("tx %s is in the pool after CheckTx from peer %s but the peer is not among its recorded senders (%s)", tx, m["peer"], o.peers))
				}
			}
			if code != 0 && isIn && !wasIn {
				add(ver+".check.admits-rejected-tx", "tx "+tx+" rejected by the application (code!=0) entered the pool")
			}
			if isIn && !wasIn {
				gas, _ := atoi(m["gas"])
				prio, _ := atoi(m["prio"])
				if ver == "v1" {
					for _, t := range prev {
						if !contains(o.all, t) && info[t].prio >= prio {
							add("v1.evict.victim-not-lower-priority", fmt.Sprintf("tx %s (priority %d) was evicted for %s (priority %d)", t, info[t].prio, tx, prio))
						}
					}
				}
				arrival++
				info[tx] = meta{gas: gas, prio: prio, arrival: arrival}
				admH[tx] = curH
				if t, ok := atoi(m["now"]); ok {
					admT[tx] = t
				}
			} else if ver == "v0" || !isIn || wasIn {
				for _, t := range prev {
					if !contains(o.all, t) {
						add(ver+".check.drops-tx-without-admission", "CheckTx of "+tx+" removed "+t+" although "+tx+" was not admitted")
					}
				}
			}
		case "update":
			if m["post"] != "-" && m["post"] != "" {
				cfgPost = m["post"]
			}
			for k := range inflight {
				for _, t := range splitList(m["txs"]) {
					if normTok(t) == inflight[k].tx {
						inflight[k].spanned = true
					}
				}
			}
			if ver == "v1" {
				uh, _ := atoi(m["h"])
				curH = uh
				ttl, _ := atoi(cfg["ttl"])
				d, _ := atoi(cfg["ttldur"])
				now, hasNow := atoi(m["now"])
				for _, t := range o.all {
					if ttl > 0 && uh-admH[t] > ttl {
						add("v1.ttl.expired-by-blocks-kept", fmt.Sprintf("tx %s admitted at height %d is still pooled after Update(%d) with TTLNumBlocks=%d", t, admH[t], uh, ttl))
					}
					if at, known := admT[t]; d > 0 && hasNow && known && now-at > d {
						add("v1.ttl.expired-by-duration-kept", fmt.Sprintf("tx %s admitted at time %d is still pooled after Update at time %d with TTLDuration=%d", t, at, now, d))
					}
				}
			} else if uh, ok := atoi(m["h"]); ok {
				curH = uh
			}
			txl := splitList(m["txs"])
			for k, t := range txl {
				if contains(o.all, normTok(t)) {
					add(ver+".update.committed-tx-still-in-pool", "tx "+t+" was in the committed block and is still in the pool")
				}
				_ = k
			}
			cl := splitList(m["codes"])
			if len(txl) > 0 && len(cl) == len(txl) && cl[len(cl)-1] == "0" {
				nextCommitted = normTok(txl[len(txl)-1])
			}
			if async {
				for _, t := range splitList(m["txs"]) {
					aCommitted[normTok(t)] = true
				}
				// pending first-time answers are handled by FlushAppConn before Update; the recheck
				// answers are handled later
				aSnap, aLeft, aResub = o.all, len(o.all), map[string]bool{}
				aRV, _ = parseRV(m["rv"])
				if cfg["recheck"] != "1" || o.q == 0 {
					aLeft = -1
				}
				break
			}
			for _, t := range o.all {
				if !contains(prev, t) {
					add(ver+".update.tx-appears", "Update made "+t+" appear")
				}
			}
			if cfg["recheck"] == "1" {
				rv, _ := parseRV(m["rv"])
				// the post-check in force is the last one given
				for _, t := range o.all {
					v := rv[string(unhx(t))]
					if v.code != 0 {
						add(ver+".recheck.keeps-rejected-tx", fmt.Sprintf("after Update with recheck tx %s is still in the pool although the application answered code %d", t, v.code))
					}
					if ver == "v1" {
						mi := info[t]
						mi.prio = v.prio
						info[t] = mi
					}
				}
			}
		case "reapn":
			n, _ := atoi(m["n"])
			r := splitList(o.res)
			if !isPrefix(r, prev) {
				add(ver+".ReapMaxTxs.not-a-prefix", "ReapMaxTxs result is not a prefix of the pool order")
			}
			if n >= 0 && int64(len(r)) > n {
				add(ver+".ReapMaxTxs.returns-more-than-max", fmt.Sprintf("ReapMaxTxs(%d) returned %d transactions", n, len(r)))
			}
			if (n < 0 || int64(len(prev)) <= n) && len(r) != len(prev) {
				add(ver+".ReapMaxTxs.returns-fewer-than-available", fmt.Sprintf("ReapMaxTxs(%d) returned %d of %d", n, len(r), len(prev)))
			}
		case "reap":
			mb, _ := atoi(m["bytes"])
			mg, _ := atoi(m["gas"])
			r := splitList(o.res)
			if !isPrefix(r, prev) {
				add(ver+".ReapMaxBytesMaxGas.not-a-prefix", "ReapMaxBytesMaxGas result is not a prefix of the pool order")
			}
			var tb, tg int64
			for _, t := range r {
				tb += protoSize(tokLen(t))
				tg += info[t].gas
			}
			if mb >= 0 && tb > mb {
				add(ver+".ReapMaxBytesMaxGas.exceeds-max-bytes", fmt.Sprintf("reaped %d proto bytes > maxBytes %d", tb, mb))
			}
			if mg >= 0 && tg > mg {
				add(ver+".ReapMaxBytesMaxGas.exceeds-max-gas", fmt.Sprintf("reaped gas %d > maxGas %d", tg, mg))
			}
		}
		if ver == "v1" {
			for k := 0; k+1 < len(o.all); k++ {
				a, b := info[o.all[k]], info[o.all[k+1]]
				if a.prio < b.prio || (a.prio == b.prio && a.arrival > b.arrival) {
					add("v1.reap.order-not-priority-then-arrival", fmt.Sprintf("%s (prio %d, arrival %d) is ordered before %s (prio %d, arrival %d)", o.all[k], a.prio, a.arrival, o.all[k+1], b.prio, b.arrival))
				}
			}
		}
		lastCommittedOK = nextCommitted
		prev = o.all
		qPrev = o.q
	}
	fs = append(fs, oracleRecency(c, out)...)
	// one finding per fingerprint per case
	uniq := map[string]bool{}
	var res []core.Finding
	for _, f := range fs {
		if !uniq[f.Fingerprint] {
			uniq[f.Fingerprint] = true
			res = append(res, f)
		}
	}
	return res
}

// oracleRecency: "remembered" = among the last cacheSize distinct keys by most recent push.
// A key pushed at event t (submission that reaches the cache, or commit with code 0) and not taken
// out since is certainly still cached as long as FEWER THAN cacheSize distinct other keys have been
// pushed after t (Lean: Props.C12.cache_remembers_recent). While that holds, a submission of it
// must be answered ErrTxInCache. Every op that might push another key is counted (a superset), and
// a key is dropped from the watch list on anything that might take it out of the cache, so the
// clause only fires on certain cases. Plain pools only (no async / split mode).
func oracleRecency(c core.Case, out []string) []core.Finding {
	var fs []core.Finding
	var cfg map[string]string
	var cache int64
	ver := "v?"
	lastPush := map[string]int{}  // key -> index into pushes of its latest push
	byCommit := map[string]bool{} // that push was a commit (Update, code 0)
	var pushes []string           // every key that may have been pushed, in order
	var prev []string
	post := "-" // PostCheckMaxGas bound in force
	reset := func() { lastPush, byCommit, pushes, prev = map[string]int{}, map[string]bool{}, nil, nil }
	for i, op := range c.Ops {
		if i >= len(out) {
			break
		}
		f := strings.Fields(op)
		if len(f) == 0 {
			continue
		}
		m := kv(op)
		o := parseObs(out[i])
		if f[0] == "cfg" {
			cfg = nil
			if o.ok && m["async"] != "1" && m["split"] != "1" {
				cfg = m
				ver = "v" + m["ver"]
				cache, _ = atoi(m["cache"])
			}
			reset()
			post = "-"
			continue
		}
		if cfg == nil || !o.ok {
			if cfg != nil && f[0] != "reap" && f[0] != "reapn" {
				reset() // ccheck, stress, bad lines …: cache contents unknown from here
			}
			continue
		}
		switch f[0] {
		case "check":
			tx := normTok(m["tx"])
			if t, ok := lastPush[tx]; ok && cache > 0 {
				distinct := map[string]bool{}
				for _, k := range pushes[t+1:] {
					if k != tx {
						distinct[k] = true
					}
				}
				if int64(len(distinct)) < cache && o.res != "in-cache" && o.res != "full" && o.res != "too-large" && o.res != "pre" {
					if byCommit[tx] && contains(o.all, tx) {
						fs = append(fs, core.Finding{Fingerprint: ver + ".CheckTx.readmits-committed-tx-still-within-cache-window",
							Desc: fmt.Sprintf("tx %s was committed (code 0, pushed to the cache) and only %d distinct other keys have been pushed since (cache_size=%d), yet its resubmission at op %d was not answered ErrTxInCache and it is in the pool again", tx, len(distinct), cache, i)})
					} else {
						fs = append(fs, core.Finding{Fingerprint: "cache.Push.does-not-refresh-recency",
							Desc: fmt.Sprintf("%s: key %s was pushed and only %d distinct other keys have been pushed since (cache_size=%d), yet CheckTx at op %d answered %q instead of ErrTxInCache: the cache forgot a key within its recency window", ver, tx, len(distinct), cache, i, o.res)})
					}
				}
			}
			pushes = append(pushes, tx)
			code, _ := atoi(m["code"])
			switch {
			case o.res == "in-cache":
				lastPush[tx] = len(pushes) - 1 // a hit refreshes the recency
			case strings.HasPrefix(o.res, "ok") && code == 0 && postPasses(post, m["gas"]) && contains(o.all, tx):
				lastPush[tx] = len(pushes) - 1
				byCommit[tx] = false
			default:
				delete(lastPush, tx)
			}
			for _, t := range prev { // evicted entries leave the cache too
				if !contains(o.all, t) {
					delete(lastPush, t)
				}
			}
		case "update":
			if m["post"] != "-" && m["post"] != "" {
				post = m["post"]
			}
			txl, cl := splitList(m["txs"]), splitList(m["codes"])
			inBlock := map[string]bool{}
			for k, t := range txl {
				t = normTok(t)
				inBlock[t] = true
				pushes = append(pushes, t)
				if k < len(cl) && cl[k] == "0" {
					lastPush[t] = len(pushes) - 1
					byCommit[t] = true
				} else if cfg["keep"] != "1" {
					delete(lastPush, t)
				}
			}
			for _, t := range prev { // recheck rejection / TTL expiry take the key out of the cache
				if !contains(o.all, t) && !inBlock[t] {
					delete(lastPush, t)
				}
			}
		case "flush":
			reset()
		case "reap", "reapn":
		default:
			reset()
		}
		prev = o.all
	}
	return fs
}

// genCacheRecency: a small cache (2..10) and a pool that is larger. Key A is pushed first, the cache
// is filled with other keys, A is pushed AGAIN (resubmission = cache hit, or commit of A in a block),
// then fewer than cache_size fresh keys arrive — enough to push A out if the second push did not
// refresh its recency, not enough otherwise — and A is submitted once more.
func genCacheRecency(r *rand.Rand, emit func(core.Case), n, ver int) {
	for c := 0; c < n; c++ {
		cache := 2 + r.Intn(9)
		fresh := 0
		next := func() string { fresh++; return fmt.Sprintf("%04x", 0x6000+fresh) }
		ops := []string{fmt.Sprintf("cfg ver=%d size=%d maxbytes=100000 maxtx=1000 cache=%d keep=%d recheck=0 ttl=0 ttld=0 h=1", ver, 3*cache+8, cache, r.Intn(2))}
		chk := func(t string) string {
			return fmt.Sprintf("check tx=%s peer=%d code=0 gas=1 prio=1 sender=-", t, r.Intn(4))
		}
		a := next()
		ops = append(ops, chk(a))
		for i := 0; i < r.Intn(cache); i++ { // up to a full cache, A the oldest entry
			ops = append(ops, chk(next()))
		}
		h := 1
		for round := 0; round < 1+r.Intn(3); round++ {
			// push A again
			if r.Intn(2) == 0 {
				ops = append(ops, chk(a))
			} else {
				h++
				blk, codes := []string{a}, []string{"0"}
				if r.Intn(3) == 0 {
					blk, codes = []string{next(), a}, []string{"0", "0"}
				}
				ops = append(ops, fmt.Sprintf("update h=%d txs=%s codes=%s rv=- pre=- post=-", h, strings.Join(blk, ","), strings.Join(codes, ",")))
			}
			// fewer than cache_size fresh keys
			for i := 0; i < 1+r.Intn(cache-1); i++ {
				ops = append(ops, chk(next()))
			}
			// and A once more: must still be remembered
			ops = append(ops, chk(a))
		}
		emit(core.Case{Kind: fmt.Sprintf("cache-recency-v%d", ver), Ops: ops})
	}
}

// ---------- generators ----------

var alphabet = []string{"aa", "bb", "cc", "dd", "ee", "ff", "0102", "0103", "a1a2a3", "b1b2b3b4", "c1c2c3c4c5", "-"}
var senders = []string{"-", "-", "-", "s1", "s2", "s3"}

func pickTx(r *rand.Rand, k int) string {
	if r.Intn(60) == 0 { // a long tx: two-byte varint in the proto size
		return strings.Repeat("ab", 128+r.Intn(8))
	}
	return alphabet[r.Intn(k)]
}

var cfgHist = map[string]int{}
var resHist = map[string]int{}
var resMu sync.Mutex

func countRes(s string) string {
	k := s
	if i := strings.Index(s, " | "); i >= 0 {
		k = s[:i]
	}
	if len(k) > 12 && !strings.HasPrefix(k, "ok me=") {
		k = "txlist"
	} else if strings.ContainsAny(k, ",") || (len(k) > 0 && k[0] >= '0' && k[0] <= '9') || validHex(k) && k != "-" {
		k = "txlist"
	}
	resMu.Lock()
	resHist[k]++
	resMu.Unlock()
	return s
}

func genCfg(r *rand.Rand, ver int) (string, int, int) {
	size := 1 + r.Intn(8)
	if r.Intn(25) == 0 {
		size = 0
	}
	if r.Intn(60) == 0 { // fails ValidateBasic; the pools must still not misbehave
		size = -1
		cfgHist["invalid-negative"]++
	}
	var maxb int64
	switch r.Intn(3) {
	case 0:
		maxb = int64(2 + r.Intn(10)) // tight
		cfgHist["maxbytes-tight"]++
	default:
		maxb = 1000
	}
	if r.Intn(80) == 0 {
		maxb = -1
		cfgHist["invalid-negative"]++
	}
	cache := 0
	switch r.Intn(5) {
	case 0:
		cache = 0
		cfgHist["cache=0"]++
	case 1:
		cache = 1
		cfgHist["cache=1"]++
	case 2:
		cache = size - 1
		if cache < 0 {
			cache = 0
		}
		cfgHist["cache=size-1"]++
	case 3:
		cache = 2 * size
		cfgHist["cache=2*size"]++
	case 4:
		cache = 1 + r.Intn(4)
		cfgHist["cache=1..4"]++
	}
	maxtx := 1000
	if r.Intn(6) == 0 {
		maxtx = r.Intn(5)
	}
	if r.Intn(60) == 0 {
		cache = -1 - r.Intn(3)
		cfgHist["invalid-negative"]++
	}
	ttl, ttld := 0, 0
	if ver == 1 {
		if r.Intn(3) == 0 {
			ttl = 1 + r.Intn(3)
			cfgHist["ttl-blocks"]++
		}
		if r.Intn(12) == 0 {
			ttld = 1
			cfgHist["ttl-duration"]++
		}
	}
	rc := r.Intn(2)
	if rc == 1 {
		cfgHist["recheck"]++
	}
	keep := 0
	if r.Intn(3) == 0 {
		keep = 1
		cfgHist["keep-invalid"]++
	}
	if cache < size {
		cfgHist["cache<size"]++
	}
	return fmt.Sprintf("cfg ver=%d size=%d maxbytes=%d maxtx=%d cache=%d keep=%d recheck=%d ttl=%d ttld=%d h=%d",
		ver, size, maxb, maxtx, cache, keep, rc, ttl, ttld, r.Intn(3)), size, cache
}

func genCheck(r *rand.Rand, tx string, ver int) string {
	code := 0
	if r.Intn(6) == 0 {
		code = 1 + r.Intn(2)
	}
	gas := int64(r.Intn(4))
	if r.Intn(20) == 0 {
		gas = -1 - int64(r.Intn(2))
	}
	prio := int64(r.Intn(4))
	if r.Intn(25) == 0 {
		prio = -int64(r.Intn(3))
	}
	s := "-"
	if ver == 1 {
		s = senders[r.Intn(len(senders))]
	}
	return fmt.Sprintf("check tx=%s peer=%d code=%d gas=%d prio=%d sender=%s", tx, r.Intn(4), code, gas, prio, s)
}

func genUpdate(r *rand.Rand, h int, k int, known []string) string {
	n := r.Intn(4)
	var txs, codes []string
	for i := 0; i < n; i++ {
		t := pickTx(r, k)
		if len(known) > 0 && r.Intn(3) != 0 {
			t = known[r.Intn(len(known))]
		}
		if t == "-" {
			t = "."
		}
		txs = append(txs, t)
		c := "0"
		if r.Intn(4) == 0 {
			c = "1"
		}
		codes = append(codes, c)
	}
	var rv []string
	for _, t := range known {
		if r.Intn(4) == 0 {
			continue // default verdict: code 0 gas 0 prio 0
		}
		c := 0
		if r.Intn(4) == 0 {
			c = 1
		}
		rv = append(rv, fmt.Sprintf("%s:%d:%d:%d", t, c, r.Intn(4), r.Intn(4)))
	}
	j := func(l []string, sep string) string {
		if len(l) == 0 {
			return "-"
		}
		return strings.Join(l, sep)
	}
	pre, post := "-", "-"
	if r.Intn(8) == 0 {
		pre = strconv.Itoa(2 + r.Intn(5))
	}
	if r.Intn(8) == 0 {
		post = strconv.Itoa(r.Intn(4) - 1)
	}
	return fmt.Sprintf("update h=%d txs=%s codes=%s rv=%s pre=%s post=%s", h, j(txs, ","), j(codes, ","), j(rv, ";"), pre, post)
}

func genRandom(r *rand.Rand, emit func(core.Case), n, ver int) {
	for c := 0; c < n; c++ {
		cfg, size, _ := genCfg(r, ver)
		ops := []string{cfg}
		k := 3 + r.Intn(len(alphabet)-2)
		h := 1
		var known []string
		nops := 8 + r.Intn(30)
		for i := 0; i < nops; i++ {
			switch x := r.Intn(20); {
			case x < 11:
				t := pickTx(r, k)
				if !contains(known, t) {
					known = append(known, t)
				}
				ops = append(ops, genCheck(r, t, ver))
			case x < 14:
				h++
				if r.Intn(10) == 0 {
					h = r.Intn(4)
				}
				ops = append(ops, genUpdate(r, h, k, known))
			case x < 15:
				ops = append(ops, "flush")
			case x < 18:
				ops = append(ops, fmt.Sprintf("reapn n=%d", r.Intn(size+3)-1))
			default:
				b, g := int64(-1), int64(-1)
				if r.Intn(3) != 0 {
					b = int64(r.Intn(30))
				}
				if r.Intn(3) != 0 {
					g = int64(r.Intn(8))
				}
				ops = append(ops, fmt.Sprintf("reap bytes=%d gas=%d", b, g))
			}
		}
		emit(core.Case{Kind: fmt.Sprintf("random-v%d", ver), Ops: ops})
	}
}

// genCacheEviction: the quantifier's named scenario — a cache smaller than the pool, a live tx
// evicted from the cache by other submissions, then submitted again (by another peer).
func genCacheEviction(r *rand.Rand, emit func(core.Case), n, ver int) {
	for c := 0; c < n; c++ {
		size := 3 + r.Intn(6)
		cache := 1 + r.Intn(size-1)
		ops := []string{fmt.Sprintf("cfg ver=%d size=%d maxbytes=1000 maxtx=1000 cache=%d keep=%d recheck=%d ttl=0 ttld=0 h=1", ver, size, cache, r.Intn(2), r.Intn(2))}
		perm := r.Perm(8)
		for i := 0; i <= cache && i < 8; i++ {
			ops = append(ops, fmt.Sprintf("check tx=%s peer=1 code=0 gas=1 prio=%d sender=-", alphabet[perm[i]], r.Intn(3)))
		}
		for i := 0; i < 2+r.Intn(4); i++ {
			ops = append(ops, fmt.Sprintf("check tx=%s peer=2 code=0 gas=1 prio=%d sender=-", alphabet[perm[r.Intn(cache+1)]], r.Intn(3)))
		}
		ops = append(ops, "reapn n=-1")
		if r.Intn(2) == 0 {
			ops = append(ops, fmt.Sprintf("update h=2 txs=%s codes=0 rv=- pre=- post=-", alphabet[perm[0]]))
			ops = append(ops, fmt.Sprintf("check tx=%s peer=3 code=0 gas=1 prio=1 sender=-", alphabet[perm[0]]))
		}
		emit(core.Case{Kind: fmt.Sprintf("cache-eviction-v%d", ver), Ops: ops})
	}
}

// genReapBoundary: pools of k txs reaped with every max in -1..k+1 and byte/gas limits at the
// exact cumulative sums and one below.
func genReapBoundary(r *rand.Rand, emit func(core.Case), n, ver int) {
	for c := 0; c < n; c++ {
		k := 1 + r.Intn(5)
		ops := []string{fmt.Sprintf("cfg ver=%d size=%d maxbytes=1000 maxtx=1000 cache=20 keep=0 recheck=0 ttl=0 ttld=0 h=1", ver, k+r.Intn(2))}
		perm := r.Perm(len(alphabet))
		var cumB, cumG []int64
		var b, g int64
		for i := 0; i < k; i++ {
			t := alphabet[perm[i]]
			gas := int64(r.Intn(4))
			ops = append(ops, fmt.Sprintf("check tx=%s peer=0 code=0 gas=%d prio=%d sender=-", t, gas, 0))
			b += protoSize(tokLen(t))
			g += gas
			cumB = append(cumB, b)
			cumG = append(cumG, g)
		}
		for m := -1; m <= k+1; m++ {
			ops = append(ops, fmt.Sprintf("reapn n=%d", m))
		}
		for i := 0; i < k; i++ {
			ops = append(ops, fmt.Sprintf("reap bytes=%d gas=-1", cumB[i]))
			ops = append(ops, fmt.Sprintf("reap bytes=%d gas=-1", cumB[i]-1))
			ops = append(ops, fmt.Sprintf("reap bytes=-1 gas=%d", cumG[i]))
			ops = append(ops, fmt.Sprintf("reap bytes=%d gas=%d", cumB[i], cumG[i]-1))
		}
		ops = append(ops, "reap bytes=0 gas=0", "reap bytes=-1 gas=-1", "reap bytes=-2 gas=-2")
		emit(core.Case{Kind: fmt.Sprintf("reap-boundary-v%d", ver), Ops: ops})
	}
}

// genEviction (v1): a full pool, then higher-/equal-/lower-priority arrivals of various sizes.
func genEviction(r *rand.Rand, emit func(core.Case), n int) {
	for c := 0; c < n; c++ {
		size := 2 + r.Intn(4)
		maxb := int64(1000)
		if r.Intn(2) == 0 {
			maxb = int64(4 + r.Intn(8))
		}
		ops := []string{fmt.Sprintf("cfg ver=1 size=%d maxbytes=%d maxtx=1000 cache=%d keep=0 recheck=%d ttl=0 ttld=0 h=1", size, maxb, r.Intn(2*size+1), r.Intn(2))}
		perm := r.Perm(len(alphabet))
		for i := 0; i < size+2+r.Intn(5) && i < len(alphabet); i++ {
			ops = append(ops, fmt.Sprintf("check tx=%s peer=%d code=0 gas=%d prio=%d sender=%s", alphabet[perm[i]], r.Intn(3), r.Intn(3), r.Intn(5), senders[r.Intn(len(senders))]))
			if r.Intn(5) == 0 {
				ops = append(ops, "reap bytes=-1 gas=-1")
			}
		}
		if r.Intn(2) == 0 {
			ops = append(ops, genUpdate(r, 2, len(alphabet), alphabet[:6]))
			ops = append(ops, fmt.Sprintf("check tx=%s peer=1 code=0 gas=1 prio=%d sender=-", alphabet[perm[0]], r.Intn(5)))
		}
		emit(core.Case{Kind: "eviction-v1", Ops: ops})
	}
}

// genConcurrent: a pool filled up to `free` free slots (by count or by bytes), then K > free
// goroutines released together, each submitting its own fresh 2-byte tx with the same accepting
// verdict; then flush. v1: the pool holds lower- and higher-priority entries, so evictions happen too.
func genConcurrent(r *rand.Rand, emit func(core.Case), n, ver int) {
	for c := 0; c < n; c++ {
		size := 1 + r.Intn(5)
		pre := r.Intn(size + 1) // entries already there
		maxb := int64(1000)
		if r.Intn(3) == 0 { // the byte limit is the tight one
			maxb = int64(2*pre + 2*(1+r.Intn(2)) + r.Intn(2))
			size = pre + 4
		}
		ops := []string{fmt.Sprintf("cfg ver=%d size=%d maxbytes=%d maxtx=1000 cache=%d keep=0 recheck=0 ttl=0 ttld=0 h=1", ver, size, maxb, r.Intn(40))}
		for round := 0; round < 3; round++ {
			for i := 0; i < pre; i++ {
				ops = append(ops, fmt.Sprintf("check tx=d%x%02x peer=0 code=0 gas=1 prio=%d sender=-", round, i, r.Intn(4)))
			}
			k := 2 + r.Intn(9)
			var txs []string
			for i := 0; i < k; i++ {
				txs = append(txs, fmt.Sprintf("e%x%02x", round, i))
			}
			ops = append(ops, fmt.Sprintf("ccheck txs=%s code=0 gas=1 prio=%d sender=-", strings.Join(txs, ","), r.Intn(4)), "flush")
		}
		emit(core.Case{Kind: fmt.Sprintf("concurrent-v%d", ver), Ops: ops})
	}
}

// genConcurrentSame: the SAME transaction submitted by several goroutines at once (with some
// distinct ones in between), cache disabled / tiny / large: exactly one copy may enter.
func genConcurrentSame(r *rand.Rand, emit func(core.Case), n, ver int) {
	for c := 0; c < n; c++ {
		size := 2 + r.Intn(6)
		cache := []int{0, 0, 1, 2, 50}[r.Intn(5)]
		ops := []string{fmt.Sprintf("cfg ver=%d size=%d maxbytes=1000 maxtx=1000 cache=%d keep=0 recheck=%d ttl=0 ttld=0 h=1", ver, size, cache, r.Intn(2))}
		for round := 0; round < 3; round++ {
			for i := 0; i < r.Intn(size); i++ {
				ops = append(ops, fmt.Sprintf("check tx=d%x%02x peer=0 code=0 gas=1 prio=%d sender=-", round, i, r.Intn(4)))
			}
			distinct := 1 + r.Intn(3)
			k := 2 + r.Intn(10)
			var txs []string
			for i := 0; i < k; i++ {
				txs = append(txs, fmt.Sprintf("e%x%02x", round, r.Intn(distinct)))
			}
			ops = append(ops, fmt.Sprintf("ccheck txs=%s code=0 gas=1 prio=%d sender=-", strings.Join(txs, ","), r.Intn(4)))
			ops = append(ops, "flush")
		}
		emit(core.Case{Kind: fmt.Sprintf("concurrent-same-v%d", ver), Ops: ops})
	}
}

// genVarint: transaction lengths on both sides of the varint boundaries of the proto length
// prefix (127/128, 255/256, 16383/16384, ...), reaped with maxBytes within 2 bytes of every
// cumulative encoded size; pre-check bounds at the encoded size of a tx and one below.
func genVarint(r *rand.Rand, emit func(core.Case), n, ver int) {
	lens := []int{126, 127, 128, 129, 200, 254, 255, 256, 257, 1000, 16382, 16383, 16384, 16385, 20000, 65535, 65536, 70000}
	for c := 0; c < n; c++ {
		k := 1 + r.Intn(4)
		ops := []string{fmt.Sprintf("cfg ver=%d size=%d maxbytes=10000000 maxtx=100000 cache=%d keep=0 recheck=0 ttl=0 ttld=0 h=1", ver, k+1, r.Intn(6))}
		var cum []int64
		var tot int64
		for i := 0; i < k; i++ {
			l := lens[r.Intn(len(lens))]
			if r.Intn(4) == 0 {
				l = 1 + r.Intn(70000)
			}
			if c%40 == 7 && i == 0 {
				l = 2097151 + r.Intn(3) // 3-/4-byte prefix boundary
				ops[0] = strings.Replace(ops[0], "maxtx=100000", "maxtx=3000000", 1)
			}
			ops = append(ops, fmt.Sprintf("check tx=%02x*%d peer=0 code=0 gas=1 prio=0 sender=-", 0x10+i, l))
			tot += protoSize(int64(l))
			cum = append(cum, tot)
		}
		for _, cb := range cum {
			for d := int64(-2); d <= 2; d++ {
				ops = append(ops, fmt.Sprintf("reap bytes=%d gas=-1", cb+d))
			}
		}
		l := lens[r.Intn(len(lens))]
		for d := int64(-1); d <= 1; d++ {
			ops = append(ops, "flush", fmt.Sprintf("update h=2 txs=- codes=- rv=- pre=%d post=-", protoSize(int64(l))+d),
				fmt.Sprintf("check tx=77*%d peer=1 code=0 gas=1 prio=0 sender=-", l))
		}
		emit(core.Case{Kind: fmt.Sprintf("varint-v%d", ver), Ops: ops})
	}
}

// genAsync: v0 over the asynchronous FIFO client: submissions, response deliveries (0..3 at a time)
// and block updates with recheck interleaved freely, so recheck answers are handled while new
// submissions queue up behind them; reaps in between.
func genAsync(r *rand.Rand, emit func(core.Case), n int) {
	for c := 0; c < n; c++ {
		cfg, size, _ := genCfg(r, 0)
		cfg = strings.Replace(cfg, "recheck=0", "recheck=1", 1) + " async=1"
		ops := []string{cfg}
		k := 3 + r.Intn(6)
		h := 1
		var known []string
		for i := 0; i < 10+r.Intn(30); i++ {
			switch x := r.Intn(20); {
			case x < 9:
				t := pickTx(r, k)
				if !contains(known, t) {
					known = append(known, t)
				}
				ops = append(ops, genCheck(r, t, 0))
			case x < 14:
				ops = append(ops, fmt.Sprintf("deliver n=%d", r.Intn(4)))
			case x < 17:
				h++
				ops = append(ops, genUpdate(r, h, k, known))
			case x < 18:
				ops = append(ops, fmt.Sprintf("reapn n=%d", r.Intn(size+3)-1))
			case x < 19:
				switch r.Intn(4) {
				case 0:
					ops = append(ops, "flush")
				case 1:
					if len(known) > 0 {
						ops = append(ops, "rmkey tx="+strings.Replace(known[r.Intn(len(known))], "-", ".", 1))
					}
				default:
					ops = append(ops, "deliver n=1000")
				}
			default:
				ops = append(ops, fmt.Sprintf("reap bytes=%d gas=%d", r.Intn(30)-1, r.Intn(8)-1))
			}
		}
		ops = append(ops, "deliver n=1000")
		emit(core.Case{Kind: "async-v0", Ops: ops})
	}
	for _, k := range []string{"none", "flush", "remove", "tie"} {
		emit(core.Case{Kind: "async-hazard", Ops: []string{"hazard kind=" + k}})
	}
}

// genTTL (v1): logical time on the op lines (now=), TTLDuration = D units and/or TTLNumBlocks;
// submissions at strictly increasing times, updates at later times such that entries are younger
// than, exactly at, and older than the TTL.
func genTTL(r *rand.Rand, emit func(core.Case), n int) {
	for c := 0; c < n; c++ {
		d := 1 + r.Intn(5)
		ttl := 0
		if r.Intn(2) == 0 {
			ttl = 1 + r.Intn(3)
		}
		ops := []string{fmt.Sprintf("cfg ver=1 size=%d maxbytes=1000 maxtx=1000 cache=%d keep=%d recheck=%d ttl=%d ttld=0 h=1 ttldur=%d",
			3+r.Intn(5), r.Intn(8), r.Intn(2), r.Intn(2), ttl, d)}
		now, h := 0, 1
		var known []string
		for i := 0; i < 8+r.Intn(20); i++ {
			if r.Intn(3) != 0 {
				now += 1 + r.Intn(3)
				t := pickTx(r, 8)
				if !contains(known, t) {
					known = append(known, t)
				}
				ops = append(ops, genCheck(r, t, 1)+fmt.Sprintf(" now=%d", now))
			} else {
				now += r.Intn(d + 2)
				h++
				ops = append(ops, genUpdate(r, h, 8, known)+fmt.Sprintf(" now=%d", now))
			}
			if r.Intn(6) == 0 {
				ops = append(ops, "reap bytes=-1 gas=-1")
			}
		}
		emit(core.Case{Kind: "ttl-v1", Ops: ops})
	}
}

// genAsyncCommit: a CheckTx still in flight when the block containing that very tx is committed
// (empty or non-empty pool); its answer must be handled before Update, never after.
func genAsyncCommit(r *rand.Rand, emit func(core.Case), n int) {
	for c := 0; c < n; c++ {
		ops := []string{fmt.Sprintf("cfg ver=0 size=%d maxbytes=1000 maxtx=1000 cache=%d keep=0 recheck=%d ttl=0 ttld=0 h=1 async=1", 2+r.Intn(5), r.Intn(6), r.Intn(2))}
		h := 1
		for round := 0; round < 3; round++ {
			var inflight []string
			if r.Intn(2) == 0 { // something already pooled
				ops = append(ops, genCheck(r, alphabet[6+r.Intn(3)], 0), "deliver n=1000")
			}
			for i := 0; i < 1+r.Intn(3); i++ {
				t := alphabet[r.Intn(6)]
				inflight = append(inflight, t)
				ops = append(ops, fmt.Sprintf("check tx=%s peer=%d code=0 gas=1 prio=0 sender=-", t, r.Intn(3)))
			}
			h++
			ops = append(ops, fmt.Sprintf("update h=%d txs=%s codes=%s rv=- pre=- post=-", h, inflight[0], []string{"0", "1"}[r.Intn(2)]))
			ops = append(ops, "deliver n=1", "deliver n=1000", "reapn n=-1")
		}
		emit(core.Case{Kind: "async-commit-v0", Ops: ops})
	}
}

// genBigV1: pools of 13..200 entries with few distinct priorities interleaved (sort routines
// switch algorithm above 12 elements), distinct arrival times; every reap must be in
// "priority, then arrival" order.
func genBigV1(r *rand.Rand, emit func(core.Case), n int) {
	for c := 0; c < n; c++ {
		k := 13 + r.Intn(28)
		if c%10 == 0 {
			k = 100 + r.Intn(101)
		}
		np := 2 + r.Intn(3)
		ops := []string{fmt.Sprintf("cfg ver=1 size=%d maxbytes=100000 maxtx=1000 cache=%d keep=0 recheck=%d ttl=0 ttld=0 h=1", k+r.Intn(3), 2*k, r.Intn(2))}
		for i := 0; i < k; i++ {
			ops = append(ops, fmt.Sprintf("check tx=%04x peer=%d code=0 gas=%d prio=%d sender=-", 0x7000+i, r.Intn(3), r.Intn(3), r.Intn(np)))
		}
		ops = append(ops, "reapn n=-1", fmt.Sprintf("reapn n=%d", r.Intn(k)), "reap bytes=-1 gas=-1", fmt.Sprintf("reap bytes=%d gas=-1", 4*r.Intn(k+1)))
		if r.Intn(2) == 0 {
			ops = append(ops, fmt.Sprintf("update h=2 txs=%04x,%04x codes=0,0 rv=- pre=- post=-", 0x7000+r.Intn(k), 0x7000+r.Intn(k)), "reapn n=-1")
		}
		emit(core.Case{Kind: "big-v1", Ops: ops})
	}
}

// genSplit (v1): CheckTx calls started (begin) and answered (finish) in any order, with block
// updates — also of the very tx in flight — and reaps in between.
func genSplit(r *rand.Rand, emit func(core.Case), n int) {
	for c := 0; c < n; c++ {
		cfg, size, _ := genCfg(r, 1)
		cfg = strings.Replace(cfg, "ttld=1", "ttld=0", 1) + " split=1"
		if c%3 == 0 { // a cache that forgets nothing during the case
			cfg = regexp.MustCompile(`cache=-?\d+`).ReplaceAllString(cfg, "cache=20")
		}
		ops := []string{cfg}
		k := 3 + r.Intn(5)
		h, pend := 1, 0
		var known, flying []string
		for i := 0; i < 10+r.Intn(25); i++ {
			switch x := r.Intn(20); {
			case x < 8:
				t := pickTx(r, k)
				if !contains(known, t) {
					known = append(known, t)
				}
				flying = append(flying, t)
				ops = append(ops, fmt.Sprintf("begin tx=%s peer=%d", t, r.Intn(4)))
				pend++ // upper bound: a refused call is not in flight (then finish answers bad-op)
			case x < 15:
				if pend > 0 {
					v := strings.SplitN(genCheck(r, "aa", 1), " peer=", 2)[1]
					v = v[strings.Index(v, " ")+1:]
					ops = append(ops, fmt.Sprintf("finish i=%d %s", r.Intn(pend), v))
					pend--
				}
			case x < 18:
				h++
				u := genUpdate(r, h, k, known)
				if len(flying) > 0 && r.Intn(2) == 0 { // commit a tx that may be in flight
					u = fmt.Sprintf("update h=%d txs=%s codes=0 rv=- pre=- post=-", h, strings.Replace(flying[r.Intn(len(flying))], "-", ".", 1))
				}
				ops = append(ops, u)
			case x < 19:
				ops = append(ops, fmt.Sprintf("reapn n=%d", r.Intn(size+3)-1))
			default:
				ops = append(ops, "reap bytes=-1 gas=-1")
			}
		}
		for ; pend > 0; pend-- {
			ops = append(ops, "finish i=0 code=0 gas=1 prio=1 sender=-")
		}
		emit(core.Case{Kind: "split-v1", Ops: ops})
	}
}

// genHostile: malformed / out-of-contract op lines (negative limits, unknown ops, bad hex, ops before cfg).
func genHostile(r *rand.Rand, emit func(core.Case), n int) {
	bad := []string{
		"check tx=zz peer=1 code=0 gas=1 prio=1 sender=-", "check tx=aa", "update h=1 txs=aa codes=0,1 rv=- pre=- post=-",
		"update h=x txs=- codes=- rv=- pre=- post=-", "update h=1 txs=- codes=- rv=aa:0:0 pre=- post=-", "reap bytes=a gas=1", "reapn", "frobnicate",
		"flush now", "cfg ver=2 size=1 maxbytes=1 maxtx=1 cache=1 keep=0 recheck=0 ttl=0 ttld=0 h=0", "check tx=a peer=1 code=0 gas=1 prio=1 sender=-",
		"check tx=aa peer=70000 code=0 gas=1 prio=1 sender=-", "update h=1 txs=aa codes=0 rv=- pre=q post=-",
	}
	for c := 0; c < n; c++ {
		ver := r.Intn(2)
		var ops []string
		if r.Intn(3) == 0 {
			ops = append(ops, bad[r.Intn(len(bad))], "flush")
		}
		cfg, _, _ := genCfg(r, ver)
		ops = append(ops, cfg)
		for i := 0; i < 6+r.Intn(10); i++ {
			switch r.Intn(4) {
			case 0:
				ops = append(ops, bad[r.Intn(len(bad))])
			case 1:
				ops = append(ops, genCheck(r, pickTx(r, 5), ver))
			case 2:
				ops = append(ops, genUpdate(r, i, 5, alphabet[:5]))
			case 3:
				ops = append(ops, fmt.Sprintf("reap bytes=%d gas=%d", r.Intn(40)-20, r.Intn(10)-5))
			}
		}
		emit(core.Case{Kind: "hostile", Ops: ops})
	}
}

func main() {
	core.Main(core.Prop{
		ID:     "C12",
		Driver: "c12",
		Gen: func(r *rand.Rand, tier string, emit func(core.Case)) {
			n := 400
			if tier == "thorough" {
				n = 12000
			}
			for ver := 0; ver < 2; ver++ {
				genRandom(r, emit, 3*n, ver)
				genCacheEviction(r, emit, n, ver)
				genReapBoundary(r, emit, n/2, ver)
			}
			genEviction(r, emit, n)
			genHostile(r, emit, n/2)
			genConcurrent(r, emit, n/8, 0)
			genConcurrent(r, emit, n/8, 1)
			genConcurrentSame(r, emit, n/8, 0)
			genConcurrentSame(r, emit, n/8, 1)
			genAsync(r, emit, n/2)
			genTTL(r, emit, n/2)
			genAsyncCommit(r, emit, n/4)
			genCacheRecency(r, emit, n/4, 0)
			genCacheRecency(r, emit, n/4, 1)
			genSplit(r, emit, n/2)
			genBigV1(r, emit, n/20)
			genVarint(r, emit, n/10, 0)
			genVarint(r, emit, n/10, 1)
			if tier == "thorough" {
				for i := 0; i < 200; i++ {
					size := 2 + r.Intn(6)
					emit(core.Case{Kind: "stress", Ops: []string{fmt.Sprintf("stress ver=%d seed=%d workers=%d size=%d cache=%d maxbytes=%d",
						i%2, r.Intn(1000), 2+r.Intn(15), size, r.Intn(2*size), 8+r.Intn(30))}})
				}
			}
		},
		Exec:   execCase,
		Oracle: oracle,
		NonTrivial: func(c core.Case, out []string) bool {
			for _, o := range out {
				if strings.Contains(o, " n=") && !strings.Contains(o, " n=0 ") {
					return true
				}
			}
			return false
		},
		Rule: "op histories (cfg, check with scripted verdict code/gas/priority/sender, update with committed txs+codes+recheck verdicts+new pre/post filters, flush, reap by bytes/gas, reap by count) over a 12-value tx alphabet (plus rare 256+-byte txs and the empty tx) so repeats are the norm; configurations size 0..8, tight/loose max_txs_bytes, cache 0/1/size-1/2*size/1..4 (cache<size common), keep-invalid, recheck on/off, v1 TTL blocks/duration; dedicated streams: cache eviction of a live tx then resubmission, reap boundaries (every count -1..k+1, byte/gas limits at and one below each cumulative sum), v1 eviction on a full pool, hostile/malformed lines. Non-trivial = some state with a non-empty pool observed",
		Assumptions: []string{
			"ops are atomic (one CheckTx/Update/Reap at a time; v1's recheck goroutines are awaited before the next op); truly concurrent submitters are not explored",
			"tx keys: the model is parametric in the key function; tmdriver instantiates it with the identity (SHA-256 collision-freeness on the tx alphabet is assumed by the stream, not by the theorems)",
			"v1 arrival time = arrival sequence number (wall-clock timestamps of successive CheckTx calls are assumed strictly increasing); TTLDuration is driven as 0 (off) or 1ns (everything expires)",
			"int64 overflow of gas/byte totals is not modelled (Int)",
		},
		Extra: func() map[string]interface{} {
			return map[string]interface{}{"config_histogram": cfgHist, "check_update_result_histogram": resHist}
		},
	})
}
