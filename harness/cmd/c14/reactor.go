// C14 stream "reactor": the real statesync.Reactor (Receive: wire bytes -> ReceiveEnvelope) in a
// real p2p.Switch, with mock peers, the world's ABCI connection as the local application and the
// world's real syncer attached.
package main

import (
	"fmt"
	"net"
	"sort"
	"strings"

	"github.com/gogo/protobuf/proto"

	abci "github.com/tendermint/tendermint/abci/types"
	"github.com/tendermint/tendermint/config"
	"github.com/tendermint/tendermint/crypto/ed25519"
	"github.com/tendermint/tendermint/libs/log"
	"github.com/tendermint/tendermint/p2p"
	"github.com/tendermint/tendermint/p2p/conn"
	ssproto "github.com/tendermint/tendermint/proto/tendermint/statesync"
	"github.com/tendermint/tendermint/statesync"
)

// the methods of p2p.Peer the switch needs to stop a peer
func (p *fakePeer) IsRunning() bool        { return true }
func (p *fakePeer) IsPersistent() bool     { return false }
func (p *fakePeer) RemoteAddr() net.Addr   { return &net.TCPAddr{IP: net.IPv4(127, 0, 0, 1), Port: 1} }
func (p *fakePeer) CloseConn() error       { return nil }
func (p *fakePeer) SetRemovalFailed()      {}
func (p *fakePeer) GetRemovalFailed() bool { return false }
func (p *fakePeer) FlushStop()             {}
func (p *fakePeer) String() string         { return "fakePeer{" + string(p.id) + "}" }
func (p *fakePeer) Stop() error {
	p.stops++
	return nil
}

type wireMsg struct {
	kind    string // sq | S | Q | C
	h       uint64
	f, i    uint32
	c       uint32
	hash    []byte
	meta    []byte
	body    []byte
	missing bool
}

func parseWire(s string) (wireMsg, bool) {
	p := strings.Split(s, "/")
	num := func(t string) (uint64, bool) {
		var v uint64
		_, err := fmt.Sscanf(t, "%d", &v)
		return v, err == nil && strings.Trim(t, "0123456789") == ""
	}
	switch {
	case s == "sq":
		return wireMsg{kind: "sq"}, true
	case len(p) == 6 && p[0] == "S":
		h, o1 := num(p[1])
		f, o2 := num(p[2])
		c, o3 := num(p[3])
		if !(o1 && o2 && o3) || !isHex(p[4]) || !isHex(p[5]) {
			return wireMsg{}, false
		}
		return wireMsg{kind: "S", h: h, f: uint32(f), c: uint32(c), hash: unhx(p[4]), meta: unhx(p[5])}, true
	case len(p) == 4 && p[0] == "Q":
		h, o1 := num(p[1])
		f, o2 := num(p[2])
		i, o3 := num(p[3])
		return wireMsg{kind: "Q", h: h, f: uint32(f), i: uint32(i)}, o1 && o2 && o3
	case len(p) == 6 && p[0] == "C":
		h, o1 := num(p[1])
		f, o2 := num(p[2])
		i, o3 := num(p[3])
		if !(o1 && o2 && o3) || (p[4] != "nil" && !isHex(p[4])) || (p[5] != "0" && p[5] != "1") {
			return wireMsg{}, false
		}
		return wireMsg{kind: "C", h: h, f: uint32(f), i: uint32(i), body: unbody(p[4]), missing: p[5] == "1"}, true
	}
	return wireMsg{}, false
}

func (m wireMsg) pb() proto.Message {
	switch m.kind {
	case "sq":
		return &ssproto.SnapshotsRequest{}
	case "S":
		return &ssproto.SnapshotsResponse{Height: m.h, Format: m.f, Chunks: m.c, Hash: m.hash, Metadata: m.meta}
	case "Q":
		return &ssproto.ChunkRequest{Height: m.h, Format: m.f, Index: m.i}
	}
	return &ssproto.ChunkResponse{Height: m.h, Format: m.f, Index: m.i, Chunk: m.body, Missing: m.missing}
}

func showWire(e p2p.Envelope) string {
	switch m := e.Message.(type) {
	case *ssproto.SnapshotsResponse:
		return fmt.Sprintf("S/%d/%d/%d/%s/%s", m.Height, m.Format, m.Chunks, hx(m.Hash), hx(m.Metadata))
	case *ssproto.ChunkResponse:
		mi := 0
		if m.Missing {
			mi = 1
		}
		return fmt.Sprintf("C/%d/%d/%d/%s/%d", m.Height, m.Format, m.Index, showBody(m.Chunk), mi)
	case *ssproto.SnapshotsRequest:
		return "sq"
	case *ssproto.ChunkRequest:
		return fmt.Sprintf("Q/%d/%d/%d", m.Height, m.Format, m.Index)
	}
	return fmt.Sprintf("?%T", e.Message)
}

// the reactor of a world, created on first use
func (w *world) reactorOf() *statesync.Reactor {
	if w.reactor != nil {
		return w.reactor
	}
	cfg := config.DefaultStateSyncConfig()
	r := statesync.NewReactor(*cfg, w, w, w.tmp)
	r.SetLogger(log.NewNopLogger())
	nk := p2p.NodeKey{PrivKey: ed25519.GenPrivKeyFromSecret([]byte("c14-node"))}
	tr := p2p.NewMultiplexTransport(p2p.DefaultNodeInfo{}, nk, conn.DefaultMConnConfig())
	sw := p2p.NewSwitch(config.DefaultP2PConfig(), tr)
	sw.SetLogger(log.NewNopLogger())
	sw.AddReactor("STATESYNC", r)
	if err := r.Start(); err != nil {
		panic(err)
	}
	w.reactor = r
	return r
}

// receive hands the wire bytes of m, as sent by peer on channel ch, to the real reactor and
// reports what could be observed: whether the switch stopped the peer, what was sent back
func (w *world) receive(peer string, ch byte, m wireMsg) (stopped bool, sent []string) {
	r := w.reactorOf()
	p := w.peer(peer)
	p.sent = nil
	before := p.stops
	msg := m.pb()
	if wr, ok := msg.(p2p.Wrapper); ok {
		msg = wr.Wrap()
	}
	bz, err := proto.Marshal(msg)
	if err != nil {
		panic(err)
	}
	r.Receive(ch, p, bz)
	return p.stops > before, p.sent
}

// the serving application (ListSnapshots / LoadSnapshotChunk) of a world
type serveApp struct {
	snaps  []*abci.Snapshot
	chunks map[string][]byte
}

func (w *world) rop(f []string, m map[string]string, known func(snapT)) string {
	switch f[0] {
	case "r.app":
		app := &serveApp{chunks: map[string][]byte{}}
		for _, t := range semis(m["snaps"]) {
			s, ok := parseSnapStr(t)
			if !ok || len(strings.Split(t, "/")) != 5 {
				return "bad-op"
			}
			app.snaps = append(app.snaps, &abci.Snapshot{Height: s.h, Format: s.f, Chunks: s.c, Hash: s.hash, Metadata: s.meta})
		}
		for _, t := range commaList(m["chunks"]) {
			p := strings.Split(t, ":")
			if len(p) != 4 || (p[3] != "nil" && !isHex(p[3])) {
				return "bad-op"
			}
			app.chunks[p[0]+":"+p[1]+":"+p[2]] = unbody(p[3])
		}
		if m["snaps"] == "" || m["chunks"] == "" {
			return "bad-op"
		}
		w.serve = app
		return "ok"
	case "r.attach":
		switch m["on"] {
		case "1":
			w.reactorOf().VerifSetSyncer(w.sy)
		case "0":
			w.reactorOf().VerifSetSyncer(nil)
		default:
			return "bad-op"
		}
		return "ok"
	case "r.recv":
		wm, ok := parseWire(m["m"])
		ch := u64(m["ch"])
		if !ok || m["peer"] == "" || m["ch"] == "" || ch > 255 || strings.Trim(m["ch"], "0123456789") != "" {
			return "bad-op"
		}
		if wm.kind == "S" {
			known(snapT{wm.h, wm.f, wm.c, wm.hash, wm.meta})
		}
		stopped, sent := w.receive(name(m["peer"]), byte(ch), wm)
		if stopped {
			return "stop"
		}
		r, _ := rankedCanon(w.sy.VerifPool())
		return fmt.Sprintf("ok sent=%s pool=%s", joinOr(sent, ","), r)
	}
	return "bad-op"
}

// sorted copy, for the oracle
func sortedStrings(l []string) []string {
	o := append([]string{}, l...)
	sort.Strings(o)
	return o
}
