// C14 stream "lcp": the REAL statesync.lightClientStateProvider (NewLightClientStateProvider over
// HTTP JSON-RPC servers on localhost) against a generated chain with validator-set, consensus-param
// and app-version changes; the serving side can lie. Then what node.startStateSync does with the
// result: state store Bootstrap + block store SaveSeenCommit, and whether consensus can start.
// (chain construction adapted from harness/cmd/c20/chain.go)
package main

import (
	"bytes"
	"context"
	"crypto/sha256"
	"fmt"
	"net"
	"net/http"
	"os"
	"sort"
	"strconv"
	"strings"
	"sync"
	"time"

	dbm "github.com/tendermint/tm-db"

	abci "github.com/tendermint/tendermint/abci/types"
	cfg "github.com/tendermint/tendermint/config"
	cs "github.com/tendermint/tendermint/consensus"
	"github.com/tendermint/tendermint/crypto/ed25519"
	cryptoenc "github.com/tendermint/tendermint/crypto/encoding"
	"github.com/tendermint/tendermint/libs/log"
	"github.com/tendermint/tendermint/light"
	mmock "github.com/tendermint/tendermint/mempool/mock"
	tmstate "github.com/tendermint/tendermint/proto/tendermint/state"
	tmproto "github.com/tendermint/tendermint/proto/tendermint/types"
	tmversion "github.com/tendermint/tendermint/proto/tendermint/version"
	"github.com/tendermint/tendermint/proxy"
	ctypes "github.com/tendermint/tendermint/rpc/core/types"
	rpcserver "github.com/tendermint/tendermint/rpc/jsonrpc/server"
	rpctypes "github.com/tendermint/tendermint/rpc/jsonrpc/types"
	sm "github.com/tendermint/tendermint/state"
	"github.com/tendermint/tendermint/statesync"
	"github.com/tendermint/tendermint/store"
	"github.com/tendermint/tendermint/types"
	"github.com/tendermint/tendermint/version"
)

// ---- chain ----

type lspec struct {
	seed int64
	n    int   // number of blocks
	nv   int   // genesis validators
	ih   int64 // initial height
	vchg []int64
	pchg int64 // EndBlock of this height changes a HASHED consensus param (block max bytes)
	uchg int64 // ... an UNHASHED one (evidence max age)
	vver int64 // ... the app version
}

func (s lspec) key() string {
	return fmt.Sprintf("%d/%d/%d/%d/%v/%d/%d/%d", s.seed, s.n, s.nv, s.ih, s.vchg, s.pchg, s.uchg, s.vver)
}

type lapp struct {
	abci.BaseApplication
	spec lspec
	pks  []ed25519.PrivKey
}

func (a *lapp) EndBlock(req abci.RequestEndBlock) abci.ResponseEndBlock {
	r := abci.ResponseEndBlock{}
	for _, h := range a.spec.vchg {
		if h == req.Height {
			i := int(h) % len(a.pks)
			pk, _ := cryptoenc.PubKeyToProto(a.pks[i].PubKey())
			r.ValidatorUpdates = append(r.ValidatorUpdates, abci.ValidatorUpdate{PubKey: pk, Power: 5 + h})
			break
		}
	}
	cp := &abci.ConsensusParams{}
	set := false
	if a.spec.pchg == req.Height {
		cp.Block = &abci.BlockParams{MaxBytes: 3000000 + req.Height, MaxGas: 77}
		set = true
	}
	if a.spec.uchg == req.Height {
		cp.Evidence = &tmproto.EvidenceParams{MaxAgeNumBlocks: 5000 + req.Height, MaxAgeDuration: 72 * time.Hour, MaxBytes: 4096}
		set = true
	}
	if a.spec.vver == req.Height {
		cp.Version = &tmproto.VersionParams{AppVersion: uint64(40 + req.Height)}
		set = true
	}
	if set {
		r.ConsensusParamUpdates = cp
	}
	return r
}

func (a *lapp) Commit() abci.ResponseCommit { return abci.ResponseCommit{} }

type lchain struct {
	spec    lspec
	chainID string
	tip     int64
	lbs     map[int64]*types.LightBlock
	states  map[int64]sm.State                // state after block h
	params  map[int64]tmproto.ConsensusParams // params in effect for block h (what /consensus_params?height=h answers)
	genesis sm.State
	conns   proxy.AppConns
}

var (
	lchainCache   = map[string]*lchain{}
	lchainCacheMu sync.Mutex
	lbaseTime     = time.Date(2021, 3, 4, 5, 6, 7, 0, time.UTC)
)

func getLChain(spec lspec) *lchain {
	lchainCacheMu.Lock()
	defer lchainCacheMu.Unlock()
	if c, ok := lchainCache[spec.key()]; ok {
		return c
	}
	c := buildLChain(spec)
	lchainCache[spec.key()] = c
	return c
}

func buildLChain(spec lspec) *lchain {
	c := &lchain{spec: spec, chainID: fmt.Sprintf("c14-%d", spec.seed%5), lbs: map[int64]*types.LightBlock{},
		states: map[int64]sm.State{}, params: map[int64]tmproto.ConsensusParams{}}
	pvs := make([]types.PrivValidator, spec.nv)
	pks := make([]ed25519.PrivKey, spec.nv)
	gvals := make([]types.GenesisValidator, spec.nv)
	for i := range pvs {
		pks[i] = ed25519.GenPrivKeyFromSecret([]byte(fmt.Sprintf("c14-val-%d-%d", spec.seed, i)))
		pvs[i] = types.NewMockPVWithParams(pks[i], false, false)
		gvals[i] = types.GenesisValidator{Address: pks[i].PubKey().Address(), PubKey: pks[i].PubKey(), Power: int64(10 + (int(spec.seed)+i)%4), Name: fmt.Sprint(i)}
	}
	cp := types.DefaultConsensusParams()
	cp.Block.MaxBytes = 2000000 + spec.seed%7
	cp.Version.AppVersion = uint64(spec.seed % 3) // 0 is a legal on-chain app version
	gen := &types.GenesisDoc{GenesisTime: lbaseTime, ChainID: c.chainID, InitialHeight: spec.ih, ConsensusParams: cp, Validators: gvals,
		AppHash: []byte("genesis-app-hash")}
	if err := gen.ValidateAndComplete(); err != nil {
		panic(err)
	}
	state, err := sm.MakeGenesisState(gen)
	if err != nil {
		panic(err)
	}
	c.genesis = state.Copy()
	c.conns = proxy.NewAppConns(proxy.NewLocalClientCreator(&lapp{spec: spec, pks: pks}))
	c.conns.SetLogger(log.NewNopLogger())
	if err := c.conns.Start(); err != nil {
		panic(err)
	}
	stateStore := sm.NewStore(dbm.NewMemDB(), sm.StoreOptions{DiscardABCIResponses: true})
	if err := stateStore.Save(state); err != nil {
		panic(err)
	}
	exec := sm.NewBlockExecutor(stateStore, log.NewNopLogger(), c.conns.Consensus(), mmock.Mempool{}, sm.EmptyEvidencePool{})
	lastCommit := types.NewCommit(0, 0, types.BlockID{}, nil)
	c.tip = spec.ih + int64(spec.n) - 1
	for h := spec.ih; h <= c.tip; h++ {
		c.params[h] = cpCopy(state.ConsensusParams)
		prop := state.Validators.GetProposer().Address
		block, parts := state.MakeBlock(h, nil, lastCommit, nil, prop)
		// the application's hash after the previous block (a function of the height, distinct per height)
		blockID := types.BlockID{Hash: block.Hash(), PartSetHeader: parts.Header()}
		vals := state.Validators.Copy()
		newState, _, err := exec.ApplyBlock(state, blockID, block)
		if err != nil {
			panic(fmt.Sprintf("ApplyBlock %d: %v", h, err))
		}
		ah := sha256.Sum256([]byte(fmt.Sprintf("app-%d-%d", spec.seed, h)))
		newState.AppHash = ah[:8]
		voteSet := types.NewVoteSet(c.chainID, h, 0, tmproto.PrecommitType, vals)
		var ordered []types.PrivValidator
		for _, v := range vals.Validators {
			for _, pv := range pvs {
				pk, _ := pv.GetPubKey()
				if bytes.Equal(pk.Address(), v.Address) {
					ordered = append(ordered, pv)
				}
			}
		}
		commit, err := types.MakeCommit(blockID, h, 0, voteSet, ordered, block.Time.Add(2*time.Second))
		if err != nil {
			panic(err)
		}
		hdr := block.Header
		c.lbs[h] = &types.LightBlock{SignedHeader: &types.SignedHeader{Header: &hdr, Commit: commit}, ValidatorSet: vals}
		c.states[h] = newState.Copy()
		state = newState
		lastCommit = commit
	}
	return c
}

func cpCopy(p tmproto.ConsensusParams) tmproto.ConsensusParams {
	p.Validator.PubKeyTypes = append([]string{}, p.Validator.PubKeyTypes...)
	return p
}

func cpStr(p tmproto.ConsensusParams) string {
	return fmt.Sprintf("%d/%d/%d/%d/%d/%d/%s/%d", p.Block.MaxBytes, p.Block.MaxGas, p.Block.TimeIotaMs, p.Evidence.MaxAgeNumBlocks,
		int64(p.Evidence.MaxAgeDuration), p.Evidence.MaxBytes, strings.Join(p.Validator.PubKeyTypes, "+"), p.Version.AppVersion)
}

// blocksStr is the abstract description of the chain the model works on: per height
// h/blockhash/apphash/valshash/appversion/lastresults/<params in effect at h>
func (c *lchain) blocksStr() string {
	var out []string
	for h := c.spec.ih; h <= c.tip; h++ {
		lb := c.lbs[h]
		out = append(out, fmt.Sprintf("%d/%s/%s/%s/%d/%s/%s", h, hx(lb.Hash()), hx(lb.AppHash), hx(lb.ValidatorSet.Hash()), lb.Version.App,
			hx(lb.LastResultsHash), cpStr(c.params[h])))
	}
	return strings.Join(out, ";")
}

// ---- the serving side ----

type lie struct {
	kind string
	at   int64
}

func parseLie(s string) (lie, bool) {
	if s == "-" || s == "" {
		return lie{}, true
	}
	p := strings.Split(s, "@")
	if len(p) != 2 {
		return lie{}, false
	}
	h, err := strconv.ParseInt(p[1], 10, 64)
	if err != nil {
		return lie{}, false
	}
	return lie{p[0], h}, true
}

// mutateParams is the lying server's change of a /consensus_params answer (also applied by the
// model's driver)
func mutateParams(kind string, r *ctypes.ResultConsensusParams) {
	p := &r.ConsensusParams
	switch kind {
	case "pmb":
		p.Block.MaxBytes++
	case "pmg":
		p.Block.MaxGas += 3
	case "piota":
		p.Block.TimeIotaMs += 9
	case "peab":
		p.Evidence.MaxAgeNumBlocks += 7
	case "pead":
		p.Evidence.MaxAgeDuration += time.Hour
	case "pemb":
		p.Evidence.MaxBytes += 11
	case "ppk":
		p.Validator.PubKeyTypes = []string{"secp256k1"}
	case "pav":
		p.Version.AppVersion += 5
	case "pinv":
		p.Evidence.MaxAgeNumBlocks = 0
	case "pht":
		r.BlockHeight++
	}
}

type lserver struct {
	c    *lchain
	lie  lie
	ln   net.Listener
	srv  *http.Server
	url  string
	hits map[string]int
	mtx  sync.Mutex
}

func (s *lserver) heightOf(hp *int64) (int64, error) {
	h := s.c.tip
	if hp != nil && *hp != 0 {
		h = *hp
	}
	if h > s.c.tip {
		return 0, fmt.Errorf("height %d must be less than or equal to the current blockchain height %d", h, s.c.tip)
	}
	if h < s.c.spec.ih {
		return 0, fmt.Errorf("height %d is not available, lowest height is %d", h, s.c.spec.ih)
	}
	return h, nil
}

func (s *lserver) count(m string) {
	s.mtx.Lock()
	s.hits[m]++
	s.mtx.Unlock()
}

func (s *lserver) commit(ctx *rpctypes.Context, hp *int64) (*ctypes.ResultCommit, error) {
	s.count("commit")
	h, err := s.heightOf(hp)
	if err != nil {
		return nil, err
	}
	lb := s.c.lbs[h]
	hdr := *lb.Header
	cm := lb.Commit
	if s.lie.at == h {
		switch s.lie.kind {
		case "hah": // another application hash in the header
			hdr.AppHash = append([]byte{0xee}, hdr.AppHash[1:]...)
		case "hvh": // another validator-set hash
			hdr.ValidatorsHash = append([]byte{0xee}, hdr.ValidatorsHash[1:]...)
		case "hnvh":
			hdr.NextValidatorsHash = append([]byte{0xee}, hdr.NextValidatorsHash[1:]...)
		case "hcons":
			hdr.ConsensusHash = append([]byte{0xee}, hdr.ConsensusHash[1:]...)
		case "hver":
			hdr.Version.App += 3
		case "cother": // the commit of another block
			o := h - 1
			if o < s.c.spec.ih {
				o = h + 1
			}
			if other, ok := s.c.lbs[o]; ok {
				cm = other.Commit
			}
		case "cself": // header tampered AND the commit re-pointed to it (signatures no longer match)
			hdr.AppHash = append([]byte{0xee}, hdr.AppHash[1:]...)
			c2 := *cm
			c2.BlockID.Hash = hdr.Hash()
			cm = &c2
		}
	}
	return ctypes.NewResultCommit(&hdr, cm, true), nil
}

func (s *lserver) validators(ctx *rpctypes.Context, hp *int64, pagePtr, perPagePtr *int) (*ctypes.ResultValidators, error) {
	s.count("validators")
	h, err := s.heightOf(hp)
	if err != nil {
		return nil, err
	}
	vs := s.c.lbs[h].ValidatorSet
	if s.lie.at == h && s.lie.kind == "vother" { // the validator set of another height
		for o := s.c.spec.ih; o <= s.c.tip; o++ {
			if !bytes.Equal(s.c.lbs[o].ValidatorSet.Hash(), vs.Hash()) {
				vs = s.c.lbs[o].ValidatorSet
				break
			}
		}
	}
	page := 1
	if pagePtr != nil {
		page = *pagePtr
	}
	if page != 1 {
		return nil, fmt.Errorf("page should be within [1, 1] range, given %d", page)
	}
	return &ctypes.ResultValidators{BlockHeight: h, Validators: vs.Copy().Validators, Count: len(vs.Validators), Total: len(vs.Validators)}, nil
}

func (s *lserver) consensusParams(ctx *rpctypes.Context, hp *int64) (*ctypes.ResultConsensusParams, error) {
	s.count("consensus_params")
	h, err := s.heightOf(hp)
	if err != nil {
		return nil, err
	}
	r := &ctypes.ResultConsensusParams{BlockHeight: h, ConsensusParams: cpCopy(s.c.params[h])}
	if s.lie.at == h {
		mutateParams(s.lie.kind, r)
	}
	return r, nil
}

func startServer(c *lchain, l lie) *lserver {
	s := &lserver{c: c, lie: l, hits: map[string]int{}}
	routes := map[string]*rpcserver.RPCFunc{
		"commit":           rpcserver.NewRPCFunc(s.commit, "height"),
		"validators":       rpcserver.NewRPCFunc(s.validators, "height,page,per_page"),
		"consensus_params": rpcserver.NewRPCFunc(s.consensusParams, "height"),
	}
	mux := http.NewServeMux()
	rpcserver.RegisterRPCFuncs(mux, routes, log.NewNopLogger())
	conf := rpcserver.DefaultConfig()
	ln, err := rpcserver.Listen("tcp://127.0.0.1:0", conf)
	if err != nil {
		panic(err)
	}
	s.ln = ln
	s.url = "http://" + ln.Addr().String()
	// our own http.Server (rpcserver.Serve keeps its server to itself): Close() must also drop the
	// keep-alive connections of the provider's RPC clients, or a long run exhausts the descriptors
	s.srv = &http.Server{Handler: mux, ReadHeaderTimeout: 10 * time.Second}
	go s.srv.Serve(ln) //nolint:errcheck
	return s
}

// ---- running the real provider ----

var (
	lcpHist    = map[string]int{}
	lcpHistMtx sync.Mutex
)

func lcpCount(k string) {
	lcpHistMtx.Lock()
	lcpHist[k]++
	lcpHistMtx.Unlock()
}

type syncRes struct {
	stage   string // "" = all three answers obtained, else the call that failed
	appHash []byte
	state   sm.State
	commit  *types.Commit
}

// runProvider: what Sync() asks of a fresh NewLightClientStateProvider: AppHash, State, Commit.
func runProvider(c *lchain, trust int64, lieP, lieW lie, all bool, h uint64) syncRes {
	lw, l2 := lieW, lie{}
	if all {
		lw, l2 = lieP, lieP
	}
	servers := []*lserver{startServer(c, lieP), startServer(c, lw), startServer(c, l2)}
	defer func() {
		for _, s := range servers {
			s.srv.Close()
		}
	}()
	ctx, cancel := context.WithTimeout(context.Background(), 20*time.Second)
	defer cancel()
	ver := tmstate.Version{Consensus: tmversion.Consensus{Block: version.BlockProtocol, App: 999}, Software: version.TMCoreSemVer}
	tb, ok := c.lbs[trust]
	if !ok {
		return syncRes{stage: "init"}
	}
	sp, err := statesync.NewLightClientStateProvider(ctx, c.chainID, ver, c.spec.ih,
		[]string{servers[0].url, servers[1].url, servers[2].url},
		light.TrustOptions{Period: 800000 * time.Hour, Height: trust, Hash: tb.Hash()}, log.NewNopLogger())
	if err != nil {
		return syncRes{stage: "init"}
	}
	var r syncRes
	if r.appHash, err = sp.AppHash(ctx, h); err != nil {
		r.stage = "apphash"
		return r
	}
	if r.state, err = sp.State(ctx, h); err != nil {
		r.stage = "state"
		return r
	}
	if r.commit, err = sp.Commit(ctx, h); err != nil {
		r.stage = "commit"
		return r
	}
	return r
}

func vh(v *types.ValidatorSet) string {
	if v == nil {
		return "nil"
	}
	return hx(v.Hash())
}

func showSyncRes(r syncRes) string {
	if r.stage != "" {
		return "err@" + r.stage
	}
	s := r.state
	return fmt.Sprintf("apphash=%s state=lbh:%d,app:%s,ver:%d,lv:%s,v:%s,nv:%s,lhvc:%d,lhcpc:%d,lbid:%s,lrh:%s,cp:%s,ih:%d,chain:%s commit=%d:%s",
		hx(r.appHash), s.LastBlockHeight, hx(s.AppHash), s.Version.Consensus.App, vh(s.LastValidators), vh(s.Validators), vh(s.NextValidators),
		s.LastHeightValidatorsChanged, s.LastHeightConsensusParamsChanged, hx(s.LastBlockID.Hash), hx(s.LastResultsHash),
		cpStr(s.ConsensusParams), s.InitialHeight, s.ChainID, r.commit.Height, hx(r.commit.BlockID.Hash))
}

// forged: does an answer differ from the chain? (judged by the harness for runs whose light-client
// outcome the model does not predict, and by the oracle for the others)
func forged(c *lchain, h int64, r syncRes) []string {
	var bad []string
	ne := func(name string, a, b interface{}) {
		if fmt.Sprint(a) != fmt.Sprint(b) {
			bad = append(bad, fmt.Sprintf("%s=%v(chain:%v)", name, a, b))
		}
	}
	t, ok := c.states[h]
	if !ok || c.lbs[h+1] == nil || c.lbs[h+2] == nil {
		return []string{"answer-for-height-without-verifiable-blocks"}
	}
	s := r.state
	ne("apphash", hx(r.appHash), hx(c.lbs[h+1].AppHash))
	ne("state.AppHash", hx(s.AppHash), hx(c.lbs[h+1].AppHash))
	ne("state.LastBlockHeight", s.LastBlockHeight, h)
	ne("state.LastBlockID", hx(s.LastBlockID.Hash), hx(c.lbs[h].Hash()))
	ne("state.LastValidators", vh(s.LastValidators), vh(c.lbs[h].ValidatorSet))
	ne("state.Validators", vh(s.Validators), vh(t.Validators))
	ne("state.NextValidators", vh(s.NextValidators), vh(t.NextValidators))
	ne("state.LastResultsHash", hx(s.LastResultsHash), hx(c.lbs[h+1].LastResultsHash))
	ne("state.Version.App", s.Version.Consensus.App, c.lbs[h+1].Version.App)
	ne("state.ConsensusParams", cpStr(s.ConsensusParams), cpStr(c.params[h+1]))
	ne("state.ChainID", s.ChainID, c.chainID)
	ne("commit", fmt.Sprintf("%d:%s", r.commit.Height, hx(r.commit.BlockID.Hash)), fmt.Sprintf("%d:%s", h, hx(c.lbs[h].Hash())))
	if r.commit.Hash() != nil && !bytes.Equal(r.commit.Hash(), c.lbs[h].Commit.Hash()) {
		bad = append(bad, "commit-signatures-differ")
	}
	return bad
}

// ---- bootstrap: what node.startStateSync does with (state, commit) ----

func bootDump(c *lchain, h int64, r syncRes, crash string, commitFirst bool) string {
	stateStore := sm.NewStore(dbm.NewMemDB(), sm.StoreOptions{DiscardABCIResponses: false})
	blockStore := store.NewBlockStore(dbm.NewMemDB())
	// the two writes of startStateSync (the op names their order; the order in node/node.go is
	// anchored by a fact); `crash` cuts between / before them
	boot := func() error { return stateStore.Bootstrap(r.state) }
	seen := func() error { return blockStore.SaveSeenCommit(r.state.LastBlockHeight, r.commit) }
	w1, w2 := boot, seen
	if commitFirst {
		w1, w2 = seen, boot
	}
	if crash != "before" {
		if err := w1(); err != nil {
			return "write1-error"
		}
	}
	if crash == "" {
		if err := w2(); err != nil {
			return "write2-error"
		}
	}
	// what a (re)starting node finds
	st, err := stateStore.Load()
	if err != nil {
		return "load-error"
	}
	if st.IsEmpty() {
		return "state=empty start=statesync-again"
	}
	var parts []string
	parts = append(parts, fmt.Sprintf("state=lbh:%d,app:%s,v:%s,nv:%s,lv:%s", st.LastBlockHeight, hx(st.AppHash), vh(st.Validators), vh(st.NextValidators), vh(st.LastValidators)))
	for _, k := range []int64{h, h + 1, h + 2, h + 3} {
		v, err := stateStore.LoadValidators(k)
		if err != nil {
			parts = append(parts, fmt.Sprintf("vals%d=none", k-h))
		} else {
			parts = append(parts, fmt.Sprintf("vals%d=%s", k-h, hx(v.Hash())))
		}
	}
	for _, k := range []int64{h, h + 1} {
		p, err := stateStore.LoadConsensusParams(k)
		if err != nil {
			parts = append(parts, fmt.Sprintf("params%d=none", k-h))
		} else {
			parts = append(parts, fmt.Sprintf("params%d=%s", k-h, cpStr(p)))
		}
	}
	sc := blockStore.LoadSeenCommit(h)
	if sc == nil {
		parts = append(parts, "seen=none")
	} else {
		parts = append(parts, fmt.Sprintf("seen=%d:%s", sc.Height, hx(sc.BlockID.Hash)))
	}
	parts = append(parts, "start="+tryStartConsensus(c, st, stateStore, blockStore))
	return strings.Join(parts, " ")
}

// tryStartConsensus: consensus.NewState on the bootstrapped stores (it reconstructs LastCommit
// from the seen commit and the state's LastValidators and panics if that is impossible).
func tryStartConsensus(c *lchain, st sm.State, stateStore sm.Store, blockStore *store.BlockStore) (res string) {
	defer func() {
		if r := recover(); r != nil {
			msg := fmt.Sprint(r)
			switch {
			case strings.Contains(msg, "not found"):
				res = "panic:seen-commit-not-found"
			default:
				res = "panic:" + strings.ReplaceAll(msg, " ", "_")
				if len(res) > 80 {
					res = res[:80]
				}
			}
		}
	}()
	exec := sm.NewBlockExecutor(stateStore, log.NewNopLogger(), c.conns.Consensus(), mmock.Mempool{}, sm.EmptyEvidencePool{})
	conS := cs.NewState(cfg.TestConsensusConfig(), st, exec, blockStore, mmock.Mempool{}, sm.EmptyEvidencePool{})
	if conS.LastCommit == nil || !conS.LastCommit.HasTwoThirdsMajority() {
		return "no-last-commit"
	}
	return "ok"
}

// nodeCommitFirst reads the order of the two writes out of node/node.go startStateSync, so that
// the stream follows the code that exists (the model takes the same order from the regenerated
// fact c14_startStateSync_order).
var nodeCommitFirst = func() bool {
	repo := os.Getenv("VERIF_REPO")
	if repo == "" {
		repo = "/repo"
	}
	b, err := os.ReadFile(repo + "/node/node.go")
	if err != nil {
		return true
	}
	src := string(b)
	i := strings.Index(src, "func startStateSync(")
	if i < 0 {
		return true
	}
	body := src[i:]
	if j := strings.Index(body[1:], "\nfunc "); j > 0 {
		body = body[:j+1]
	}
	a, c := strings.Index(body, ".SaveSeenCommit("), strings.Index(body, ".Bootstrap(")
	return a >= 0 && c >= 0 && a < c
}()

// ---- ops ----

type lctx struct {
	c   *lchain
	tmp string
}

func parseI64List(s string) ([]int64, bool) {
	if s == "-" || s == "" {
		return nil, true
	}
	var out []int64
	for _, t := range strings.Split(s, ",") {
		v, err := strconv.ParseInt(t, 10, 64)
		if err != nil {
			return nil, false
		}
		out = append(out, v)
	}
	return out, true
}

func (l *lctx) op(f []string, m map[string]string) string {
	num := func(k string) (int64, bool) {
		v, err := strconv.ParseInt(m[k], 10, 64)
		return v, err == nil && v >= 0
	}
	switch f[0] {
	case "l.chain":
		seed, o1 := num("seed")
		n, o2 := num("n")
		nv, o3 := num("nv")
		ih, o4 := num("ih")
		pchg, o5 := num("pchg")
		uchg, o6 := num("uchg")
		vver, o7 := num("vver")
		vchg, o8 := parseI64List(m["vchg"])
		if !(o1 && o2 && o3 && o4 && o5 && o6 && o7 && o8) || n < 1 || n > 40 || nv < 1 || nv > 8 || ih < 1 || m["blocks"] == "" {
			return "bad-op"
		}
		sort.Slice(vchg, func(i, j int) bool { return vchg[i] < vchg[j] })
		c := getLChain(lspec{seed, int(n), int(nv), ih, vchg, pchg, uchg, vver})
		if c.blocksStr() != m["blocks"] {
			l.c = nil
			return "chain-mismatch"
		}
		l.c = c
		return "ok"
	case "l.hand":
		if l.c == nil {
			return "bad-op"
		}
		h, o1 := num("h")
		trust, o2 := num("trust")
		boot, o3 := num("boot")
		if !(o1 && o2 && o3) || boot > 9 || (m["seen"] != "ok" && m["seen"] != "fail") || (m["switch"] != "ok" && m["switch"] != "fail") {
			return "bad-op"
		}
		r := runProvider(l.c, trust, lie{}, lie{}, false, uint64(h))
		for try := 0; try < 2 && r.stage != ""; try++ {
			r = runProvider(l.c, trust, lie{}, lie{}, false, uint64(h))
		}
		if r.stage != "" {
			return "err@" + r.stage
		}
		return handOverRun(l.c, h, r, m["seen"] == "fail", int(boot), m["switch"] == "fail", l.tmp)
	case "l.sync", "l.boot":
		if l.c == nil {
			return "bad-op"
		}
		h, o1 := num("h")
		trust, o2 := num("trust")
		lp, o3 := parseLie(m["lieP"])
		lw, o4 := parseLie(m["lieW"])
		exp := m["expect"]
		if !(o1 && o2 && o3 && o4) || (exp != "exact" && exp != "any") || (m["all"] != "0" && m["all"] != "1") {
			return "bad-op"
		}
		if f[0] == "l.boot" && ((m["crash"] != "-" && m["crash"] != "between" && m["crash"] != "before") ||
			(m["order"] != "commit-first" && m["order"] != "state-first" && m["order"] != "node")) {
			return "bad-op"
		}
		r := runProvider(l.c, trust, lp, lw, m["all"] == "1", uint64(h))
		if exp == "exact" && r.stage != "" {
			// an error must be the provider's verdict, not a hiccup of the loopback network under
			// load: it has to repeat
			for try := 0; try < 2 && r.stage != ""; try++ {
				r = runProvider(l.c, trust, lp, lw, m["all"] == "1", uint64(h))
			}
		}
		if f[0] == "l.boot" {
			if r.stage != "" {
				return "err@" + r.stage
			}
			crash := m["crash"]
			if crash == "-" {
				crash = ""
			}
			lcpCount("boot:" + m["crash"])
			return bootDump(l.c, h, r, crash, m["order"] == "commit-first" || (m["order"] == "node" && nodeCommitFirst))
		}
		if exp == "exact" {
			lcpCount("exact:" + strings.SplitN(showSyncRes(r), "=", 2)[0])
			return showSyncRes(r)
		}
		if r.stage != "" {
			lcpCount("any:err@" + r.stage + ":" + lp.kind + "/" + lw.kind)
			return "ok-or-err"
		}
		if bad := forged(l.c, h, r); len(bad) > 0 {
			return "FORGED " + strings.Join(bad, ",")
		}
		lcpCount("any:ok:" + lp.kind + "/" + lw.kind)
		return "ok-or-err"
	}
	return "bad-op"
}
