package main

import (
	"bytes"
	"fmt"
	"strconv"
	"strings"

	"verifharness/core"
)

// The oracle evaluates the property on the implementation's outputs only (journal of ABCI /
// provider / arrival events, results, pool dumps). It keeps its own small bookkeeping of what the
// property text talks about: which chunk arrivals were accepted, what was discarded, what was
// rejected.

type arrival struct {
	body   []byte
	sender string
}

type tracker struct {
	chunks   uint32
	present  map[uint32]arrival // first accepted arrival since the last discard
	returned map[uint32]bool
	applied  map[uint32]arrival // what the app has been handed for the index (current file)
}

func newTracker(chunks uint32) *tracker {
	return &tracker{chunks: chunks, present: map[uint32]arrival{}, returned: map[uint32]bool{}, applied: map[uint32]arrival{}}
}

func (t *tracker) discard(i uint32) {
	if _, ok := t.present[i]; ok {
		delete(t.present, i)
		delete(t.returned, i)
		delete(t.applied, i)
	}
}

func (t *tracker) discardSender(p string) {
	for i, a := range t.present {
		if a.sender == p && !t.returned[i] {
			t.discard(i)
		}
	}
}

func (t *tracker) minUnreturned() (uint32, bool) {
	for i := uint32(0); i < t.chunks; i++ {
		if !t.returned[i] {
			return i, true
		}
	}
	return 0, false
}

func fnd(fp, desc string, a ...interface{}) core.Finding {
	return core.Finding{Fingerprint: fp, Desc: fmt.Sprintf(desc, a...)}
}

// handed checks one chunk handed out (queue Next / ApplySnapshotChunk)
func (t *tracker) handed(site string, idx uint32, body []byte, sender string) []core.Finding {
	var fs []core.Finding
	if m, ok := t.minUnreturned(); !ok || m != idx {
		fs = append(fs, fnd(site+".chunk-out-of-index-order", "chunk %d handed out while the lowest unreturned index is %d (any=%v)", idx, m, ok))
	}
	a, ok := t.present[idx]
	switch {
	case !ok:
		fs = append(fs, fnd(site+".chunk-never-arrived-or-discarded", "chunk %d handed out although no accepted arrival exists since its last discard (refetch not honoured)", idx))
	case !bytes.Equal(a.body, body) || a.sender != sender:
		fs = append(fs, fnd(site+".bytes-or-sender-differ-from-arrival", "chunk %d handed out as (%s,%s) but the accepted arrival was (%s,%s)", idx, hx(body), showName(sender), hx(a.body), showName(a.sender)))
	}
	t.returned[idx] = true
	return fs
}

func parseSnapStr(s string) (snapT, bool) {
	p := strings.Split(s, "/")
	if len(p) < 5 {
		return snapT{}, false
	}
	return snapT{u64(p[0]), u32(p[1]), u32(p[2]), unhx(p[3]), unhx(p[4])}, true
}

type verdictCursor struct {
	applies []applyV
	offers  []offerV
}

func parseAppliesOp(op string) []applyV {
	f := strings.Fields(op)
	var l []applyV
	if len(f) != 2 {
		return nil
	}
	for _, t := range semis(f[1]) {
		p := strings.Split(t, "/")
		if len(p) != 4 && len(p) != 5 {
			return nil
		}
		ms, _ := parseMsgs(p[3])
		l = append(l, applyV{res: p[0], pre: ms})
	}
	return l
}

func parseOffersOp(op string) []offerV {
	f := strings.Fields(op)
	var l []offerV
	if len(f) != 2 {
		return nil
	}
	for _, t := range semis(f[1]) {
		p := strings.Split(t, "/")
		if len(p) != 2 {
			return nil
		}
		ms, _ := parseMsgs(p[1])
		l = append(l, offerV{p[0], ms})
	}
	return l
}

// syncer-level bookkeeping across the ops of one case
type syncOracle struct {
	env      map[uint64]envRow
	cur      verdictCursor
	blKey    map[string]bool
	blFormat map[uint32]bool
	blPeer   map[string]bool
	firstAdv map[string]string // snapshot key -> peer whose advertisement created the entry
	flagged  map[string]bool   // arrivals already reported (index/body/sender)
	live     bool              // fetcher goroutines deliver: arrivals are not journalled
	escaped  map[string]bool   // advertised a snapshot the app answered REJECT_SENDER to, but had been
	// removed from the pool (stopped by the switch) before the verdict was processed
	stoppedNow map[string]bool // peers stopped since the last offer
}

func (o *syncOracle) advert(peer string, s snapT, res string) []core.Finding {
	var fs []core.Finding
	k := string(s.preimage())
	if res == "true" {
		o.firstAdv[k] = peer
		switch {
		case o.escaped[peer]:
			fs = append(fs, fnd("syncer.SyncAny.reject-sender-misses-peer-removed-before-verdict", "snapshot %s advertised by %s entered the pool although the application had answered REJECT_SENDER to a snapshot only this peer had sent: the peer was removed from the pool (stopped) while the offer was being handled, so RejectPeer was never called for it", s, showName(peer)))
		case o.blPeer[peer]:
			fs = append(fs, fnd("pool.Add.accepts-snapshot-from-rejected-peer", "snapshot %s advertised by rejected peer %s entered the pool", s, showName(peer)))
		case o.blFormat[s.f]:
			fs = append(fs, fnd("pool.Add.accepts-rejected-format", "snapshot %s of rejected format entered the pool", s))
		case o.blKey[k]:
			fs = append(fs, fnd("pool.Add.accepts-rejected-snapshot", "rejected snapshot %s entered the pool again", s))
		}
	}
	return fs
}

func (o *syncOracle) run(out string) []core.Finding {
	var fs []core.Finding
	parts := strings.SplitN(out, " | ", 2)
	if len(parts) != 2 {
		return []core.Finding{fnd("harness.run-output-unparseable", "%s", out)}
	}
	res, js := parts[0], parts[1]
	// a run that ended in a tie (Best had to choose) still consumed verdicts: its journal is
	// processed like any other, only no final claim is judged
	var evs []string
	if js != "-" {
		evs = strings.Fields(js)
	}
	var t *tracker
	var curSnap snapT
	var curHash []byte
	haveOffer, accepted := false, false
	lastApplyRes := ""
	lastInfo := ""
	pendingPre := 0
	var pendingEffects func()
	flush := func() {
		if pendingEffects != nil {
			pendingEffects()
			pendingEffects = nil
		}
	}
	for n, ev := range evs {
		if pendingPre == 0 {
			flush()
		}
		eq := strings.LastIndexByte(ev, '=')
		p := strings.Split(ev, ":")
		switch p[0] {
		case "ph", "ps", "pc":
			lastInfo = ""
		case "O":
			snap, ok := parseSnapStr(p[1])
			if !ok || len(p) != 4 {
				return append(fs, fnd("harness.journal-unparseable", "%s", ev))
			}
			k := string(snap.preimage())
			if o.blKey[k] {
				fs = append(fs, fnd("syncer.SyncAny.reoffers-rejected-snapshot", "snapshot %s offered to the application after it had been rejected", snap))
			}
			if o.blFormat[snap.f] {
				fs = append(fs, fnd("syncer.SyncAny.reoffers-rejected-format", "snapshot %s offered although format %d had been rejected", snap, snap.f))
			}
			row := o.env[snap.h]
			if provErr(row.apphash) != nil || !bytes.Equal(unhx(row.apphash), unhx(p[2])) {
				fs = append(fs, fnd("syncer.offerSnapshot.apphash-not-from-provider", "snapshot %s offered with app hash %s, the state provider said %q", snap, p[2], row.apphash))
			}
			retry := haveOffer && lastApplyRes == "retry_snapshot" && string(curSnap.preimage()) == k
			if lastApplyRes == "retry_snapshot" && !retry {
				fs = append(fs, fnd("syncer.SyncAny.retry-snapshot-not-honoured", "after RETRY_SNAPSHOT the next offer is %s, not the same snapshot %s", snap, curSnap))
			}
			if !retry || t == nil {
				t = newTracker(snap.c)
			} else {
				t.returned = map[uint32]bool{}
			}
			o.stoppedNow = map[string]bool{}
			curSnap, curHash, haveOffer = snap, unhx(p[2]), true
			accepted = p[3] == "accept"
			lastApplyRes = ""
			v := offerV{res: "accept"}
			if len(o.cur.offers) > 0 {
				v, o.cur.offers = o.cur.offers[0], o.cur.offers[1:]
			}
			pendingPre = len(v.pre)
			verdict := p[3]
			pendingEffects = func() {
				switch verdict {
				case "reject", "deadline":
					o.blKey[k] = true
				case "reject_format":
					o.blFormat[curSnap.f] = true
				case "reject_sender":
					if a, ok := o.firstAdv[k]; ok && a != "" {
						if o.stoppedNow[a] {
							if o.escaped == nil {
								o.escaped = map[string]bool{}
							}
							o.escaped[a] = true
						} else {
							o.blPeer[a] = true
						}
					}
				}
			}
		case "A":
			if len(p) != 7 || t == nil || !accepted {
				return append(fs, fnd("syncer.applyChunks.apply-without-accepted-offer", "%s (event %d)", ev, n))
			}
			idx, body, sender := u32(p[1]), unhx(p[2]), name(p[3])
			if o.live {
				// the only possible arrival is the answer of the peer the request went to
				if !bytes.Equal(body, stdBody(idx)) {
					fs = append(fs, fnd("syncer.applyChunks.bytes-or-sender-differ-from-arrival", "chunk %d handed to the application as %s, the peers only ever served %s", idx, hx(body), hx(stdBody(idx))))
				}
				if _, ok := t.present[idx]; !ok {
					t.present[idx] = arrival{body, sender}
				}
			}
			fs = append(fs, t.handed("syncer.applyChunks", idx, body, sender)...)
			if o.blPeer[sender] {
				prev, was := t.applied[idx]
				if !was || !bytes.Equal(prev.body, body) || prev.sender != sender {
					key := fmt.Sprintf("%d/%s/%s", idx, hx(body), sender)
					if !o.flagged[key] {
						fs = append(fs, fnd("syncer.applyChunks.applies-new-chunk-from-rejected-sender", "chunk %d from rejected sender %s handed to the application although it had not been applied before the rejection", idx, showName(sender)))
					}
				}
			}
			t.applied[idx] = arrival{body, sender}
			v := applyV{res: "accept"}
			if len(o.cur.applies) > 0 {
				v, o.cur.applies = o.cur.applies[0], o.cur.applies[1:]
			}
			pendingPre = len(v.pre)
			verdict, refetch, rejs := p[4], commaList(p[5]), commaList(p[6])
			lastApplyRes = verdict
			tt := t
			pendingEffects = func() {
				if verdict == "deadline" {
					o.blKey[string(curSnap.preimage())] = true
				}
				if verdict == "error" || verdict == "deadline" {
					return
				}
				for _, x := range refetch {
					tt.discard(u32(x))
				}
				for _, x := range rejs {
					if s := name(x); s != "" {
						o.blPeer[s] = true
						tt.discardSender(s)
					}
				}
				if verdict == "retry" {
					delete(tt.returned, idx)
				}
				if verdict == "reject_snapshot" {
					o.blKey[string(curSnap.preimage())] = true
				}
			}
			lastInfo = ""
		case "stop":
			if pendingPre > 0 {
				pendingPre--
			}
			if o.stoppedNow == nil {
				o.stoppedNow = map[string]bool{}
			}
			if len(p) == 2 {
				o.stoppedNow[name(p[1])] = true
			}
		case "rs":
			if pendingPre > 0 {
				pendingPre--
			}
		case "STALL":
			fs = append(fs, fnd("syncer.fetchChunks.refetch-not-requested-again", "the restore was blocked on chunk %s for more than %v with fetcher goroutines configured: the chunk (discarded for refetching, or never fetched) was %s again", p[1], stallAfter, strings.Join(p[2:], ":")))
		case "I":
			lastInfo = ev
			if ev == "I:deadline" && haveOffer {
				o.blKey[string(curSnap.preimage())] = true
			}
		case "c", "rc":
			if eq < 0 {
				continue
			}
			if pendingPre > 0 {
				pendingPre--
			}
			r := ev[eq+1:]
			q := strings.Split(ev[:eq], ":")
			if len(q) != 6 {
				continue
			}
			if r != "added" {
				continue
			}
			peer, h, f, i, body := name(q[1]), u64(q[2]), u32(q[3]), u32(q[4]), unbody(q[5])
			if t == nil || !haveOffer || h != curSnap.h || f != curSnap.f || i >= curSnap.c || body == nil {
				fs = append(fs, fnd("syncer.AddChunk.accepts-chunk-not-of-this-snapshot", "%s accepted while restoring %s", ev, curSnap))
				continue
			}
			if _, dup := t.present[i]; dup {
				fs = append(fs, fnd("syncer.AddChunk.overwrites-recorded-chunk", "%s accepted although chunk %d was already recorded", ev, i))
			}
			if o.blPeer[peer] {
				o.flagged[fmt.Sprintf("%d/%s/%s", i, hx(body), peer)] = true
				fs = append(fs, fnd("syncer.AddChunk.accepts-chunk-from-rejected-sender", "chunk %d sent by %s was queued although the application had rejected that sender", i, showName(peer)))
			}
			t.present[i] = arrival{body, peer}
		case "s":
			if eq < 0 {
				continue
			}
			if pendingPre > 0 {
				pendingPre--
			}
			q := strings.Split(ev[:eq], ":")
			if len(q) != 7 {
				continue
			}
			snap := snapT{u64(q[2]), u32(q[3]), u32(q[4]), unhx(q[5]), unhx(q[6])}
			fs = append(fs, o.advert(name(q[1]), snap, ev[eq+1:])...)
		}
	}
	pendingPre = 0
	flush()
	// timeouts and the other Sync-level rejections reject the snapshot as well; only the positive
	// claims are judged here
	if strings.HasPrefix(res, "ok ") {
		m := kv(res)
		row := o.env[curSnap.h]
		ok := haveOffer && accepted && m["snap"] == curSnap.String()
		if !ok || provErr(row.state) != nil || provErr(row.commit) != nil || m["state"] != row.state || m["commit"] != strconv.FormatUint(u64(row.commit), 10) {
			fs = append(fs, fnd("syncer.Sync.returns-state-not-from-provider", "result %q but the provider's answers for height %d are state=%q commit=%q (last accepted offer %s)", res, curSnap.h, row.state, row.commit, curSnap))
		}
		good := false
		if q := strings.Split(lastInfo, ":"); len(q) == 4 && provErr(row.state) == nil {
			ht, _ := strconv.ParseInt(q[3], 10, 64)
			ver := strings.Split(row.state, "/")
			good = len(ver) == 2 && q[1] == strconv.FormatUint(u64(ver[1]), 10) && bytes.Equal(unhx(q[2]), curHash) && uint64(ht) == curSnap.h &&
				provErr(row.apphash) == nil && bytes.Equal(unhx(row.apphash), curHash)
		}
		if !good {
			fs = append(fs, fnd("syncer.verifyApp.returns-without-matching-app", "result %q although the application's last Info was %q (expected version/hash/height of the provider for %s)", res, lastInfo, curSnap))
		}
		if t == nil {
			return fs
		}
		if _, more := t.minUnreturned(); more {
			fs = append(fs, fnd("syncer.Sync.returns-before-all-chunks-applied", "result %q with chunks not handed to the application", res))
		}
	}
	return fs
}

func (o *syncOracle) pool(out string) []core.Finding {
	var fs []core.Finding
	m := map[string]string{}
	for _, t := range strings.Fields(out) {
		if i := strings.IndexByte(t, '='); i > 0 {
			m[t[:i]] = t[i+1:]
		}
	}
	for _, row := range semis(m["ranked"]) {
		s, ok := parseSnapStr(row)
		p := strings.Split(row, "/")
		if !ok || len(p) != 6 {
			continue
		}
		if o.blKey[string(s.preimage())] {
			fs = append(fs, fnd("pool.lists-rejected-snapshot", "rejected snapshot %s still in the pool", s))
		}
		if o.blFormat[s.f] {
			fs = append(fs, fnd("pool.lists-rejected-format", "snapshot %s of rejected format still in the pool", s))
		}
		for _, id := range commaList(p[5]) {
			if o.blPeer[name(id)] {
				fs = append(fs, fnd("pool.lists-rejected-peer", "rejected peer %s still listed for snapshot %s", id, s))
			}
		}
	}
	return fs
}

// ---- light-client state provider and the node's bootstrap ----

type oblock struct {
	bh, ah, vh, av, lrh, cp string
}

func parseBlocks(s string) map[int64]oblock {
	m := map[int64]oblock{}
	for _, t := range strings.Split(s, ";") {
		p := strings.Split(t, "/")
		if len(p) != 14 {
			return nil
		}
		h, err := strconv.ParseInt(p[0], 10, 64)
		if err != nil {
			return nil
		}
		m[h] = oblock{p[1], p[2], p[3], p[4], p[5], strings.Join(p[6:], "/")}
	}
	return m
}

func fieldsOf(s string) map[string]string {
	m := map[string]string{}
	for _, t := range strings.Split(s, ",") {
		if i := strings.IndexByte(t, ':'); i > 0 {
			m[t[:i]] = t[i+1:]
		}
	}
	return m
}

func hashedOf(cp string) string {
	p := strings.Split(cp, "/")
	if len(p) < 2 {
		return cp
	}
	return p[0] + "/" + p[1]
}

func lcpOracle(chain map[int64]oblock, op string, m map[string]string, out string) []core.Finding {
	var fs []core.Finding
	h, _ := strconv.ParseInt(m["h"], 10, 64)
	b0, ok0 := chain[h]
	b1, ok1 := chain[h+1]
	b2, ok2 := chain[h+2]
	kvs := map[string]string{}
	for _, t := range strings.Fields(out) {
		if i := strings.IndexByte(t, '='); i > 0 {
			kvs[t[:i]] = t[i+1:]
		}
	}
	if strings.HasPrefix(out, "FORGED") {
		return []core.Finding{fnd("stateprovider.returns-answer-not-from-the-chain", "with lying servers (%s) the provider returned %s", op, out)}
	}
	switch strings.Fields(op)[0] {
	case "l.hand":
		if !strings.HasPrefix(out, "state=") {
			return nil
		}
		goesOn := kvs["switched"] == "1" || kvs["state"] != "empty"
		if goesOn && ok0 && kvs["seen"] != fmt.Sprintf("%d:%s", h, b0.bh) {
			fs = append(fs, fnd("node.startStateSync.goes-on-without-stored-seen-commit", "hand-over with seen=%s boot=%s switch=%s: the node goes on from the restored state (%s) although the light-verified commit of height %d is not in the block store: consensus cannot reconstruct its last commit and the node will not state sync again", m["seen"], m["boot"], m["switch"], out, h))
		}
		if kvs["switched"] == "1" && kvs["state"] != fmt.Sprintf("lbh:%d", h) {
			fs = append(fs, fnd("node.startStateSync.switches-without-stored-state", "hand-over with seen=%s boot=%s switch=%s: switched to block sync but the state store holds %s", m["seen"], m["boot"], m["switch"], kvs["state"]))
		}
	case "l.sync":
		if !strings.HasPrefix(out, "apphash=") {
			return nil
		}
		if !(ok0 && ok1 && ok2) {
			return []core.Finding{fnd("stateprovider.answers-without-verifiable-blocks", "%s -> %s although heights h..h+2 are not all on the chain", op, out)}
		}
		st := fieldsOf(kvs["state"])
		chk := func(name, got, want string) {
			if got != want {
				fs = append(fs, fnd("stateprovider."+name+"-not-from-verified-chain", "snapshot height %d: %s is %s, the chain has %s", h, name, got, want))
			}
		}
		chk("AppHash", kvs["apphash"], b1.ah)
		chk("state.AppHash", st["app"], b1.ah)
		chk("state.LastBlockHeight", st["lbh"], fmt.Sprint(h))
		chk("state.Version.App", st["ver"], b1.av)
		chk("state.LastValidators", st["lv"], b0.vh)
		chk("state.Validators", st["v"], b1.vh)
		chk("state.NextValidators", st["nv"], b2.vh)
		chk("state.LastBlockID", st["lbid"], b0.bh)
		chk("state.LastResultsHash", st["lrh"], b1.lrh)
		chk("state.LastHeightValidatorsChanged", st["lhvc"], fmt.Sprint(h+2))
		chk("state.LastHeightConsensusParamsChanged", st["lhcpc"], fmt.Sprint(h+1))
		chk("commit", kvs["commit"], fmt.Sprintf("%d:%s", h, b0.bh))
		if st["cp"] != b1.cp {
			if hashedOf(st["cp"]) == hashedOf(b1.cp) {
				fs = append(fs, fnd("stateprovider.State.consensus-params-unhashed-fields-not-verified", "snapshot height %d: the returned state's consensus params are %s, the chain's are %s: only Block.MaxBytes/MaxGas are bound by the header's ConsensusHash, the rest is whatever the RPC server says", h, st["cp"], b1.cp))
			} else {
				fs = append(fs, fnd("stateprovider.State.consensus-params-hash-not-checked", "snapshot height %d: params %s returned, the chain's are %s", h, st["cp"], b1.cp))
			}
		}
	case "l.boot":
		if !strings.HasPrefix(out, "state=") || strings.HasPrefix(out, "state=empty") {
			return nil // nothing written that a restart would trust: the node state-syncs again
		}
		start := kvs["start"]
		if start != "ok" {
			fs = append(fs, fnd("node.startStateSync.stores-leave-node-unstartable", "after the writes of startStateSync (crash=%s, order=%s) the state store holds the restored state but consensus cannot start: %s", m["crash"], m["order"], start))
			return fs
		}
		if ok0 && ok1 && ok2 {
			for k, want := range []string{b0.vh, b1.vh, b2.vh} {
				if got := kvs[fmt.Sprintf("vals%d", k)]; got != want {
					fs = append(fs, fnd("node.bootstrap.validators-lookup-differs-from-chain", "LoadValidators(h+%d) = %s, chain %s", k, got, want))
				}
			}
			if kvs["seen"] != fmt.Sprintf("%d:%s", h, b0.bh) {
				fs = append(fs, fnd("node.bootstrap.seen-commit-differs-from-chain", "seen commit %s", kvs["seen"]))
			}
			if kvs["params1"] == "none" {
				fs = append(fs, fnd("node.bootstrap.consensus-params-lookup-fails", "LoadConsensusParams(h+1) fails after Bootstrap"))
			}
		}
	}
	return fs
}

// ---- reactor ----

type reactorState struct {
	snaps  []snapT
	chunks map[string]string
}

// reactorOracle: what the property needs of Receive — an invalid message stops the peer and has
// no other effect; only well-formed snapshots reach the pool; at most recentSnapshots snapshots are
// advertised, newest first; a chunk request is answered with the application's bytes.
func reactorOracle(op string, m map[string]string, out string, rs *reactorState) []core.Finding {
	var fs []core.Finding
	wm, ok := parseWire(m["m"])
	if !ok || out == "bad-op" {
		return nil
	}
	invalid := false
	switch wm.kind {
	case "S":
		invalid = wm.h == 0 || len(wm.hash) == 0 || wm.c == 0
	case "Q":
		invalid = wm.h == 0
	case "C":
		// as decoded from the wire an empty chunk is nil
		invalid = wm.h == 0 || (wm.missing && len(wm.body) > 0) || (!wm.missing && len(wm.body) == 0)
	}
	if invalid != (out == "stop") {
		return []core.Finding{fnd("reactor.Receive.invalid-message-decision", "%s -> %s (message invalid: %v)", op, out, invalid)}
	}
	if out == "stop" {
		return nil
	}
	kvs := map[string]string{}
	for _, t := range strings.Fields(out) {
		if i := strings.IndexByte(t, '='); i > 0 {
			kvs[t[:i]] = t[i+1:]
		}
	}
	for _, row := range semis(kvs["pool"]) {
		if s, ok := parseSnapStr(row); ok && (s.h == 0 || len(s.hash) == 0 || s.c == 0) {
			fs = append(fs, fnd("reactor.Receive.malformed-snapshot-reached-pool", "pool lists %s", row))
		}
	}
	sent := commaList(kvs["sent"])
	ch := m["ch"]
	switch {
	case wm.kind == "sq" && ch == "96":
		if len(sent) > 10 {
			fs = append(fs, fnd("reactor.Receive.advertises-more-than-recentSnapshots", "%d snapshots sent", len(sent)))
		}
		want := len(rs.snaps)
		if want > 10 {
			want = 10
		}
		if len(sent) != want {
			fs = append(fs, fnd("reactor.Receive.snapshots-request-answer", "%d snapshots sent, the application has %d", len(sent), len(rs.snaps)))
		}
		prevH, prevF := uint64(1<<63), uint32(1<<31)
		for _, t := range sent {
			p := strings.Split(t, "/")
			if len(p) != 6 || p[0] != "S" {
				continue
			}
			h, f := u64(p[1]), u32(p[2])
			if h > prevH || (h == prevH && f > prevF) {
				fs = append(fs, fnd("reactor.Receive.snapshots-not-newest-first", "%s", kvs["sent"]))
			}
			prevH, prevF = h, f
		}
	case wm.kind == "Q" && ch == "97":
		body, have := rs.chunks[fmt.Sprintf("%d:%d:%d", wm.h, wm.f, wm.i)]
		if !have {
			body = "nil"
		}
		mi := 0
		if body == "nil" {
			mi = 1
		}
		want := fmt.Sprintf("C/%d/%d/%d/%s/%d", wm.h, wm.f, wm.i, body, mi)
		if len(sent) != 1 || sent[0] != want {
			fs = append(fs, fnd("reactor.Receive.chunk-request-answer", "sent %s, the application's chunk is %s", kvs["sent"], body))
		}
	default:
		if len(sent) != 0 {
			fs = append(fs, fnd("reactor.Receive.unsolicited-reply", "%s -> %s", op, out))
		}
	}
	return fs
}

func oracle(c core.Case, out []string) []core.Finding {
	var fs []core.Finding
	rstate := reactorState{chunks: map[string]string{}}
	var lchainO map[int64]oblock
	so := &syncOracle{env: map[uint64]envRow{}, blKey: map[string]bool{}, blFormat: map[uint32]bool{}, blPeer: map[string]bool{},
		firstAdv: map[string]string{}, flagged: map[string]bool{}}
	// queue / pool streams
	var qt *tracker
	var qh uint64
	var qf uint32
	qclosed := false
	pKey, pFmt, pPeer := map[string]bool{}, map[uint32]bool{}, map[string]bool{}
	checkPoolOut := func(o string) {
		for _, row := range semis(strings.TrimPrefix(o, "best ")) {
			s, ok := parseSnapStr(row)
			if !ok {
				continue
			}
			if pKey[string(s.preimage())] {
				fs = append(fs, fnd("pool.lists-rejected-snapshot", "rejected snapshot %s returned by the pool", s))
			}
			if pFmt[s.f] {
				fs = append(fs, fnd("pool.lists-rejected-format", "snapshot %s of a rejected format returned by the pool", s))
			}
			if p := strings.Split(row, "/"); len(p) == 6 {
				for _, id := range commaList(p[5]) {
					if pPeer[name(id)] {
						fs = append(fs, fnd("pool.lists-rejected-peer", "rejected peer %s still listed for %s", id, s))
					}
				}
			}
		}
	}
	for i, op := range c.Ops {
		if i >= len(out) {
			break
		}
		f := strings.Fields(op)
		if len(f) == 0 || out[i] == "bad-op" {
			continue
		}
		m := kv(op)
		switch f[0] {
		case "l.chain":
			lchainO = nil
			if out[i] == "ok" {
				lchainO = parseBlocks(m["blocks"])
			}
		case "l.sync", "l.boot", "l.hand":
			if lchainO != nil {
				fs = append(fs, lcpOracle(lchainO, op, m, out[i])...)
			}
		case "q.new":
			qt = nil
			if out[i] == "ok" {
				qt, qh, qf, qclosed = newTracker(u32(m["c"])), u64(m["h"]), u32(m["f"]), false
			}
		case "q.add":
			if qt != nil && out[i] == "added" {
				idx := u32(m["i"])
				_, dup := qt.present[idx]
				if qclosed || u64(m["h"]) != qh || u32(m["f"]) != qf || idx >= qt.chunks || m["b"] == "nil" || dup {
					fs = append(fs, fnd("queue.Add.accepts-invalid-or-duplicate", "%s -> added", op))
				}
				qt.present[idx] = arrival{unbody(m["b"]), name(m["p"])}
			}
		case "q.discard":
			if qt != nil && !qclosed {
				qt.discard(u32(m["i"]))
			}
		case "q.dsender":
			if qt != nil && !qclosed {
				qt.discardSender(name(m["p"]))
			}
		case "q.retry":
			if qt != nil {
				delete(qt.returned, u32(m["i"]))
			}
		case "q.retryall":
			if qt != nil {
				qt.returned = map[uint32]bool{}
			}
		case "q.close":
			qclosed = true
		case "q.next":
			if qt == nil {
				continue
			}
			p := strings.Fields(out[i])
			switch {
			case p[0] == "chunk" && len(p) == 6:
				if qclosed {
					fs = append(fs, fnd("queue.Next.returns-chunk-after-close", "%s", out[i]))
				}
				fs = append(fs, qt.handed("queue.Next", u32(p[3]), unbody(p[4]), name(p[5]))...)
			case p[0] == "wait" && len(p) == 2:
				mi, ok := qt.minUnreturned()
				_, have := qt.present[mi]
				if qclosed || !ok || mi != u32(p[1]) || have {
					fs = append(fs, fnd("queue.Next.waits-for-wrong-chunk", "Next waits for %s, lowest unreturned is %d (present=%v)", p[1], mi, have))
				}
			case p[0] == "done":
				if _, ok := qt.minUnreturned(); ok && !qclosed {
					fs = append(fs, fnd("queue.Next.done-with-unreturned-chunks", "Next reports completion with unreturned chunks"))
				}
			}
		case "p.new":
			pKey, pFmt, pPeer = map[string]bool{}, map[uint32]bool{}, map[string]bool{}
		case "p.reject":
			pKey[string(parseSnapKV(m).preimage())] = true
		case "p.rejfmt":
			pFmt[u32(m["f"])] = true
		case "p.rejpeer":
			if name(m["peer"]) != "" {
				pPeer[name(m["peer"])] = true
			}
		case "p.add":
			s := parseSnapKV(m)
			if out[i] == "true" && (pKey[string(s.preimage())] || pFmt[s.f] || pPeer[name(m["peer"])]) {
				fs = append(fs, fnd("pool.Add.accepts-rejected", "%s -> true after a rejection of its key, format or peer", op))
			}
		case "p.best", "p.ranked":
			if strings.HasPrefix(out[i], "BEST-") || out[i] == "RANKED-UNSORTED" {
				fs = append(fs, fnd("pool.Ranked.order", "%s", out[i]))
			}
			checkPoolOut(out[i])
		case "p.peers":
			for _, id := range commaList(out[i]) {
				if pPeer[name(id)] {
					fs = append(fs, fnd("pool.lists-rejected-peer", "rejected peer %s returned by GetPeers", id))
				}
			}
		case "r.recv":
			fs = append(fs, reactorOracle(op, m, out[i], &rstate)...)
		case "r.app":
			rstate.snaps, rstate.chunks = nil, map[string]string{}
			for _, t := range semis(m["snaps"]) {
				if s, ok := parseSnapStr(t); ok {
					rstate.snaps = append(rstate.snaps, s)
				}
			}
			for _, t := range commaList(m["chunks"]) {
				if p := strings.Split(t, ":"); len(p) == 4 {
					rstate.chunks[p[0]+":"+p[1]+":"+p[2]] = p[3]
				}
			}
		// syncer stream
		case "s.live":
			*so = syncOracle{env: map[uint64]envRow{}, blKey: map[string]bool{}, blFormat: map[uint32]bool{}, blPeer: map[string]bool{},
				firstAdv: map[string]string{}, flagged: map[string]bool{}, live: true}
		case "s.new":
			*so = syncOracle{env: map[uint64]envRow{}, blKey: map[string]bool{}, blFormat: map[uint32]bool{}, blPeer: map[string]bool{},
				firstAdv: map[string]string{}, flagged: map[string]bool{}}
		case "s.env":
			so.env[u64(m["h"])] = envRow{m["apphash"], m["state"], m["commit"]}
		case "s.snap":
			fs = append(fs, so.advert(name(m["peer"]), parseSnapKV(m), out[i])...)
		case "s.applies":
			so.cur.applies = parseAppliesOp(op)
		case "s.offers":
			so.cur.offers = parseOffersOp(op)
		case "s.run":
			fs = append(fs, so.run(out[i])...)
		case "s.pool":
			fs = append(fs, so.pool(out[i])...)
		}
	}
	return fs
}
