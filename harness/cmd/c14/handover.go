// C14 stream "hand-over": the node's REAL startStateSync (through the build-tagged hook in
// package node) after a real restore by the real statesync reactor, with stores whose writes fail.
package main

import (
	"bytes"
	"context"
	"errors"
	"fmt"
	"strings"
	"sync"
	"sync/atomic"
	"time"

	dbm "github.com/tendermint/tm-db"

	abci "github.com/tendermint/tendermint/abci/types"
	"github.com/tendermint/tendermint/config"
	"github.com/tendermint/tendermint/crypto/ed25519"
	"github.com/tendermint/tendermint/libs/log"
	"github.com/tendermint/tendermint/node"
	"github.com/tendermint/tendermint/p2p"
	"github.com/tendermint/tendermint/p2p/conn"
	ssproto "github.com/tendermint/tendermint/proto/tendermint/statesync"
	sm "github.com/tendermint/tendermint/state"
	"github.com/tendermint/tendermint/statesync"
	"github.com/tendermint/tendermint/store"
	"github.com/tendermint/tendermint/types"
)

// failDB fails the k-th write (Set / SetSync; 0 = never) or every write of a key prefix
type failDB struct {
	dbm.DB
	mtx    sync.Mutex
	n      int
	failAt int
	prefix []byte
}

func (d *failDB) fails(key []byte) bool {
	d.mtx.Lock()
	defer d.mtx.Unlock()
	d.n++
	return (d.failAt > 0 && d.n == d.failAt) || (d.prefix != nil && bytes.HasPrefix(key, d.prefix))
}
func (d *failDB) Set(k, v []byte) error {
	if d.fails(k) {
		return errors.New("simulated I/O error")
	}
	return d.DB.Set(k, v)
}
func (d *failDB) SetSync(k, v []byte) error {
	if d.fails(k) {
		return errors.New("simulated I/O error")
	}
	return d.DB.SetSync(k, v)
}

// the provider's answers, replayed
type fixedProvider struct{ r syncRes }

func (p fixedProvider) AppHash(context.Context, uint64) ([]byte, error) { return p.r.appHash, nil }
func (p fixedProvider) Commit(context.Context, uint64) (*types.Commit, error) {
	return p.r.commit, nil
}
func (p fixedProvider) State(context.Context, uint64) (sm.State, error) { return p.r.state, nil }

// an application that accepts everything and reports what the provider expects
type handApp struct{ r syncRes }

func (a handApp) Error() error { return nil }
func (a handApp) ListSnapshotsSync(abci.RequestListSnapshots) (*abci.ResponseListSnapshots, error) {
	return &abci.ResponseListSnapshots{}, nil
}
func (a handApp) OfferSnapshotSync(abci.RequestOfferSnapshot) (*abci.ResponseOfferSnapshot, error) {
	return &abci.ResponseOfferSnapshot{Result: abci.ResponseOfferSnapshot_ACCEPT}, nil
}
func (a handApp) LoadSnapshotChunkSync(abci.RequestLoadSnapshotChunk) (*abci.ResponseLoadSnapshotChunk, error) {
	return &abci.ResponseLoadSnapshotChunk{}, nil
}
func (a handApp) ApplySnapshotChunkSync(abci.RequestApplySnapshotChunk) (*abci.ResponseApplySnapshotChunk, error) {
	return &abci.ResponseApplySnapshotChunk{Result: abci.ResponseApplySnapshotChunk_ACCEPT}, nil
}
func (a handApp) EchoSync(s string) (*abci.ResponseEcho, error) {
	return &abci.ResponseEcho{Message: s}, nil
}
func (a handApp) QuerySync(abci.RequestQuery) (*abci.ResponseQuery, error) {
	return &abci.ResponseQuery{}, nil
}
func (a handApp) InfoSync(abci.RequestInfo) (*abci.ResponseInfo, error) {
	return &abci.ResponseInfo{AppVersion: a.r.state.Version.Consensus.App, LastBlockHeight: a.r.state.LastBlockHeight, LastBlockAppHash: a.r.appHash}, nil
}

// a peer that advertises one snapshot of one chunk and serves it
type handPeer struct {
	fakePeer
	ssR    *statesync.Reactor
	height uint64
}

func (p *handPeer) TrySendEnvelope(e p2p.Envelope) bool { return p.SendEnvelope(e) }
func (p *handPeer) SendEnvelope(e p2p.Envelope) bool {
	switch msg := e.Message.(type) {
	case *ssproto.SnapshotsRequest:
		go p.ssR.ReceiveEnvelope(p2p.Envelope{Src: p, ChannelID: statesync.SnapshotChannel,
			Message: &ssproto.SnapshotsResponse{Height: p.height, Format: 1, Chunks: 1, Hash: []byte{1, 2, 3}}})
	case *ssproto.ChunkRequest:
		go p.ssR.ReceiveEnvelope(p2p.Envelope{Src: p, ChannelID: statesync.ChunkChannel,
			Message: &ssproto.ChunkResponse{Height: msg.Height, Format: msg.Format, Index: msg.Index, Chunk: []byte{0xab}}})
	}
	return true
}

type handBcR struct {
	fail     bool
	switched int32
	done     chan struct{}
	once     sync.Once
}

func (r *handBcR) SwitchToFastSync(sm.State) error {
	defer r.once.Do(func() { close(r.done) })
	if r.fail {
		return errors.New("simulated switch failure")
	}
	atomic.AddInt32(&r.switched, 1)
	return nil
}

// endLogger watches the reactor's log for the messages with which startStateSync ends
type endLogger struct {
	end  chan struct{}
	once *sync.Once
}

func (l endLogger) Debug(string, ...interface{}) {}
func (l endLogger) Info(string, ...interface{})  {}
func (l endLogger) Error(msg string, _ ...interface{}) {
	for _, m := range []string{"State sync failed", "Failed to store last seen commit", "Failed to bootstrap node", "Failed to switch to fast sync"} {
		if strings.HasPrefix(msg, m) {
			l.once.Do(func() { close(l.end) })
		}
	}
}
func (l endLogger) With(...interface{}) log.Logger { return l }

var handHist = map[string]int{}

func handOverRun(c *lchain, h int64, r syncRes, seenFails bool, bootFailAt int, switchFails bool, tmp string) string {
	ssCfg := *config.DefaultStateSyncConfig()
	ssCfg.DiscoveryTime = 5 * time.Second // the minimum the syncer accepts
	app := handApp{r}
	ssR := statesync.NewReactor(ssCfg, app, app, tmp)
	el := endLogger{end: make(chan struct{}), once: &sync.Once{}}
	ssR.SetLogger(el)
	nk := p2p.NodeKey{PrivKey: ed25519.GenPrivKeyFromSecret([]byte("c14-hand"))}
	sw := p2p.NewSwitch(config.DefaultP2PConfig(), p2p.NewMultiplexTransport(p2p.DefaultNodeInfo{}, nk, conn.DefaultMConnConfig()))
	sw.SetLogger(log.NewNopLogger())
	sw.AddReactor("STATESYNC", ssR)
	if err := ssR.Start(); err != nil {
		panic(err)
	}
	defer ssR.Stop() //nolint:errcheck
	sdb := &failDB{DB: dbm.NewMemDB(), failAt: bootFailAt}
	bdb := &failDB{DB: dbm.NewMemDB()}
	if seenFails {
		bdb.prefix = []byte("SC:")
	}
	stateStore := sm.NewStore(sdb, sm.StoreOptions{})
	blockStore := store.NewBlockStore(bdb)
	bcR := &handBcR{fail: switchFails, done: make(chan struct{})}
	genesis := sm.State{ChainID: c.chainID, InitialHeight: c.spec.ih}
	if err := node.VerifStartStateSync(ssR, bcR, fixedProvider{r}, &ssCfg, stateStore, blockStore, genesis); err != nil {
		return "start-error"
	}
	peer := &handPeer{fakePeer: fakePeer{id: "hp"}, ssR: ssR, height: uint64(h)}
	time.Sleep(200 * time.Millisecond)
	ssR.AddPeer(peer)
	select {
	case <-bcR.done:
	case <-el.end:
	case <-time.After(60 * time.Second):
		return "hand-over-did-not-end"
	}
	time.Sleep(400 * time.Millisecond) // a hand-over that goes on after a logged error gets the time to
	st, err := stateStore.Load()
	if err != nil {
		return "load-error"
	}
	out := "state=empty"
	if !st.IsEmpty() {
		out = fmt.Sprintf("state=lbh:%d", st.LastBlockHeight)
	}
	if sc := blockStore.LoadSeenCommit(h); sc != nil {
		out += fmt.Sprintf(" seen=%d:%s", sc.Height, hx(sc.BlockID.Hash))
	} else {
		out += " seen=none"
	}
	out += fmt.Sprintf(" switched=%d", atomic.LoadInt32(&bcR.switched))
	histMtx.Lock()
	handHist[strings.Join(strings.Fields(out)[:1], "")+fmt.Sprintf("/seenFails=%v/boot=%d/switchFails=%v", seenFails, bootFailAt, switchFails)]++
	histMtx.Unlock()
	return out
}
