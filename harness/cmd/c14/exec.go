// C14 correspondence stream: real statesync chunkQueue / snapshotPool / syncer vs the Lean model.
package main

import (
	"bytes"
	"context"
	"encoding/hex"
	"errors"
	"fmt"
	"os"
	"sort"
	"strconv"
	"strings"
	"sync"
	"time"

	abci "github.com/tendermint/tendermint/abci/types"
	"github.com/tendermint/tendermint/config"
	"github.com/tendermint/tendermint/libs/log"
	"github.com/tendermint/tendermint/light"
	"github.com/tendermint/tendermint/p2p"
	ssproto "github.com/tendermint/tendermint/proto/tendermint/statesync"
	sm "github.com/tendermint/tendermint/state"
	"github.com/tendermint/tendermint/statesync"
	"github.com/tendermint/tendermint/types"

	"verifharness/core"
)

func hx(b []byte) string {
	if len(b) == 0 {
		return "-"
	}
	return hex.EncodeToString(b)
}

func unhx(s string) []byte {
	if s == "-" || s == "" || s == "." {
		return []byte{}
	}
	b, err := hex.DecodeString(s)
	if err != nil {
		panic("bad hex " + s)
	}
	return b
}

// body: "nil" = nil slice, "-" = empty non-nil
func unbody(s string) []byte {
	if s == "nil" {
		return nil
	}
	return unhx(s)
}

func showBody(b []byte) string {
	if b == nil {
		return "nil"
	}
	return hx(b)
}

func name(s string) string {
	if s == "_" {
		return ""
	}
	return s
}

func showName(s string) string {
	if s == "" {
		return "_"
	}
	return s
}

func kv(op string) map[string]string {
	m := map[string]string{}
	f := strings.Fields(op)
	for _, t := range f[1:] {
		if i := strings.IndexByte(t, '='); i > 0 {
			m[t[:i]] = t[i+1:]
		}
	}
	return m
}

func u64(s string) uint64 { v, _ := strconv.ParseUint(s, 10, 64); return v }
func u32(s string) uint32 { v, _ := strconv.ParseUint(s, 10, 32); return uint32(v) }

type fakePeer struct {
	p2p.Peer
	id    p2p.ID
	w     *world   // set for the peers of a syncer: they answer chunk requests when the world is live
	stops int      // how often the switch stopped this peer
	sent  []string // what the reactor sent to it (reactor stream)
}

func (p *fakePeer) ID() p2p.ID { return p.id }

// SendEnvelope is what the syncer's fetcher goroutines (requestChunk) and AddPeer call. In a live
// world a chunk request is answered at once with the standard bytes for the index.
func (p *fakePeer) SendEnvelope(e p2p.Envelope) bool {
	if p.w != nil && p.w.reactor != nil {
		p.sent = append(p.sent, showWire(e))
	}
	req, ok := e.Message.(*ssproto.ChunkRequest)
	if !ok || p.w == nil || !p.w.live {
		return true
	}
	p.w.mtx.Lock()
	p.w.requests = append(p.w.requests, req.Index)
	p.w.mtx.Unlock()
	_, _ = p.w.sy.AddChunk(&statesync.VerifChunk{Height: req.Height, Format: req.Format, Index: req.Index,
		Chunk: stdBody(req.Index), Sender: p.id})
	return true
}

func (p *fakePeer) TrySendEnvelope(e p2p.Envelope) bool { return p.SendEnvelope(e) }

type snapT struct {
	h          uint64
	f, c       uint32
	hash, meta []byte
}

func (s snapT) real() *statesync.VerifSnapshot {
	return &statesync.VerifSnapshot{Height: s.h, Format: s.f, Chunks: s.c, Hash: s.hash, Metadata: s.meta}
}

func (s snapT) String() string {
	return fmt.Sprintf("%d/%d/%d/%s/%s", s.h, s.f, s.c, hx(s.hash), hx(s.meta))
}

func (s snapT) preimage() []byte {
	b := []byte(fmt.Sprintf("%d:%d:%d", s.h, s.f, s.c))
	b = append(b, s.hash...)
	return append(b, s.meta...)
}

func snapOf(r *statesync.VerifSnapshot) snapT {
	return snapT{r.Height, r.Format, r.Chunks, r.Hash, r.Metadata}
}

func parseSnapKV(m map[string]string) snapT {
	return snapT{u64(m["h"]), u32(m["f"]), u32(m["c"]), unhx(m["hash"]), unhx(m["meta"])}
}

type msgT struct {
	isSnap bool
	peer   string
	h      uint64
	f      uint32
	i      uint32
	body   []byte
	snap   snapT
}

func (m msgT) String() string {
	if m.isSnap {
		return fmt.Sprintf("s:%s:%d:%d:%d:%s:%s", showName(m.peer), m.snap.h, m.snap.f, m.snap.c, hx(m.snap.hash), hx(m.snap.meta))
	}
	return fmt.Sprintf("c:%s:%d:%d:%d:%s", showName(m.peer), m.h, m.f, m.i, showBody(m.body))
}

func parseMsg(s string) (msgT, bool) {
	p := strings.Split(s, ":")
	switch {
	case len(p) == 6 && p[0] == "c":
		return msgT{peer: name(p[1]), h: u64(p[2]), f: u32(p[3]), i: u32(p[4]), body: unbody(p[5])}, true
	case len(p) == 7 && p[0] == "s":
		return msgT{isSnap: true, peer: name(p[1]), snap: snapT{u64(p[2]), u32(p[3]), u32(p[4]), unhx(p[5]), unhx(p[6])}}, true
	}
	return msgT{}, false
}

func parseMsgs(s string) ([]msgT, bool) {
	if s == "-" || s == "" {
		return nil, true
	}
	var out []msgT
	for _, t := range strings.Split(s, ",") {
		m, ok := parseMsg(t)
		if !ok {
			return nil, false
		}
		out = append(out, m)
	}
	return out, true
}

func commaList(s string) []string {
	if s == "-" || s == "" {
		return nil
	}
	return strings.Split(s, ",")
}

type offerV struct {
	res string
	pre []msgT
}
type applyV struct {
	res     string
	refetch []uint32
	rejs    []string
	pre     []msgT
	conc    []msgT // chunks delivered from another goroutine while the verdict is being processed
}
type infoV struct {
	kind   string // echo | err | info
	ver    uint64
	hash   []byte
	height int64
}
type envRow struct {
	apphash, state, commit string
}

var offerRes = map[string]abci.ResponseOfferSnapshot_Result{
	"accept": abci.ResponseOfferSnapshot_ACCEPT, "abort": abci.ResponseOfferSnapshot_ABORT,
	"reject": abci.ResponseOfferSnapshot_REJECT, "reject_format": abci.ResponseOfferSnapshot_REJECT_FORMAT,
	"reject_sender": abci.ResponseOfferSnapshot_REJECT_SENDER, "unknown": abci.ResponseOfferSnapshot_UNKNOWN,
	"error": -1, "deadline": -2,
}
var applyRes = map[string]abci.ResponseApplySnapshotChunk_Result{
	"accept": abci.ResponseApplySnapshotChunk_ACCEPT, "abort": abci.ResponseApplySnapshotChunk_ABORT,
	"retry": abci.ResponseApplySnapshotChunk_RETRY, "retry_snapshot": abci.ResponseApplySnapshotChunk_RETRY_SNAPSHOT,
	"reject_snapshot": abci.ResponseApplySnapshotChunk_REJECT_SNAPSHOT, "unknown": abci.ResponseApplySnapshotChunk_UNKNOWN,
	"error": -1, "deadline": -2,
}

func semis(s string) []string {
	if s == "-" || s == "" {
		return nil
	}
	return strings.Split(s, ";")
}

var (
	raceHist    int
	histMtx     sync.Mutex
	runHist     = map[string]int{}
	verdictHist = map[string]int{}
)

// ---- the scripted world around the real syncer ----

type world struct {
	mtx      sync.Mutex
	sy       *statesync.VerifSyncer
	peers    map[string]*fakePeer
	env      map[uint64]envRow
	offers   []offerV
	applies  []applyV
	infos    []infoV
	late     []msgT
	fallback string
	journal  []string
	retrying bool
	tie      bool
	cur      snapT
	curHash  []byte
	tmp      string
	slowWait bool // a wait nothing can satisfy was entered (real chunkTimeout)
	live     bool // real fetcher goroutines; peers answer their requests
	requests []uint32
	concWG   sync.WaitGroup
	reactor  *statesync.Reactor
	serve    *serveApp
	via      bool // arrivals go through the reactor's Receive (wire bytes) instead of AddChunk/AddSnapshot
}

func (w *world) peer(id string) *fakePeer {
	if p, ok := w.peers[id]; ok {
		return p
	}
	p := &fakePeer{id: p2p.ID(id), w: w}
	w.peers[id] = p
	return p
}

func (w *world) logf(f string, a ...interface{}) {
	w.mtx.Lock()
	w.journal = append(w.journal, fmt.Sprintf(f, a...))
	w.mtx.Unlock()
}

func addClass(added bool, err error) string {
	switch {
	case err == nil && added:
		return "added"
	case err == nil:
		return "ignored"
	}
	s := err.Error()
	switch {
	case strings.Contains(s, "no state sync in progress"):
		return "err-nosync"
	case strings.Contains(s, "nil chunk"):
		return "err-nil"
	case strings.Contains(s, "invalid chunk height"):
		return "err-height"
	case strings.Contains(s, "invalid chunk format"):
		return "err-format"
	case strings.Contains(s, "unexpected chunk"):
		return "err-index"
	}
	return "err-other:" + strings.ReplaceAll(s, " ", "_")
}

func (w *world) addChunk(m msgT) string {
	added, err := w.sy.AddChunk(&statesync.VerifChunk{Height: m.h, Format: m.f, Index: m.i, Chunk: m.body, Sender: p2p.ID(m.peer)})
	return addClass(added, err)
}

func (w *world) addSnap(peer string, s snapT) string {
	added, err := w.sy.AddSnapshot(w.peer(peer), s.real())
	if err != nil {
		return "err"
	}
	return strconv.FormatBool(added)
}

// deliver performs one arrival and journals it; returns the result class
func (w *world) deliver(m msgT) string {
	// the arrival and its journal entry are one step: the syncer may wake up on the Add and must
	// not journal its next call before this entry
	w.mtx.Lock()
	defer w.mtx.Unlock()
	if w.via {
		wm, ch := wireMsg{kind: "C", h: m.h, f: m.f, i: m.i, body: m.body}, byte(statesync.ChunkChannel)
		if m.isSnap {
			wm, ch = wireMsg{kind: "S", h: m.snap.h, f: m.snap.f, c: m.snap.c, hash: m.snap.hash, meta: m.snap.meta}, byte(statesync.SnapshotChannel)
		}
		// Receive reports nothing: a chunk was accepted iff the queue holds it now and did not before
		before := !m.isSnap && w.sy.VerifQueueHas(m.i)
		stopped, _ := w.receive(m.peer, ch, wm)
		if stopped {
			w.journal = append(w.journal, "stop:"+showName(m.peer))
			return "stop"
		}
		res := "no"
		if !m.isSnap && !before && w.sy.VerifQueueHas(m.i) {
			res = "added"
		}
		if m.isSnap {
			w.journal = append(w.journal, "r"+m.String())
		} else {
			w.journal = append(w.journal, "r"+m.String()+"="+res)
		}
		return res
	}
	var r string
	if m.isSnap {
		r = w.addSnap(m.peer, m.snap)
	} else {
		r = w.addChunk(m)
	}
	if !w.live || m.isSnap {
		w.journal = append(w.journal, fmt.Sprintf("%s=%s", m, r))
	}
	return r
}

// topTied: would Best() have to choose between equally ranked snapshots?
func topTied(p *statesync.VerifSnapshotPool) bool {
	r := p.Ranked()
	if len(r) < 2 {
		return false
	}
	a, b := r[0], r[1]
	return a.Height == b.Height && a.Format == b.Format && len(p.GetPeers(a)) == len(p.GetPeers(b))
}

// StateProvider
func (w *world) AppHash(ctx context.Context, height uint64) ([]byte, error) {
	w.concWG.Wait()
	if !w.retrying && topTied(w.sy.VerifPool()) {
		w.tie = true
		return nil, light.ErrNoWitnesses
	}
	w.retrying = false
	w.logf("ph:%d", height)
	return provBytes(w.env[height].apphash)
}

func provErr(s string) error {
	switch s {
	case "nowit":
		return light.ErrNoWitnesses
	case "err", "":
		return errors.New("provider failure")
	}
	return nil
}

func provBytes(s string) ([]byte, error) {
	if err := provErr(s); err != nil {
		return nil, err
	}
	return unhx(s), nil
}

func (w *world) State(ctx context.Context, height uint64) (sm.State, error) {
	w.logf("ps:%d", height)
	s := w.env[height].state
	if err := provErr(s); err != nil {
		return sm.State{}, err
	}
	p := strings.Split(s, "/")
	st := sm.State{ChainID: "tag-" + p[0], LastBlockHeight: int64(height)}
	st.Version.Consensus.App = u64(p[1])
	return st, nil
}

func (w *world) Commit(ctx context.Context, height uint64) (*types.Commit, error) {
	w.logf("pc:%d", height)
	s := w.env[height].commit
	if err := provErr(s); err != nil {
		return nil, err
	}
	return &types.Commit{Height: int64(u64(s))}, nil
}

// proxy.AppConnSnapshot + AppConnQuery
func (w *world) Error() error { return nil }
func (w *world) ListSnapshotsSync(abci.RequestListSnapshots) (*abci.ResponseListSnapshots, error) {
	if w.serve == nil {
		return &abci.ResponseListSnapshots{}, nil
	}
	// a fresh slice: the reactor sorts it in place
	return &abci.ResponseListSnapshots{Snapshots: append([]*abci.Snapshot{}, w.serve.snaps...)}, nil
}
func (w *world) LoadSnapshotChunkSync(req abci.RequestLoadSnapshotChunk) (*abci.ResponseLoadSnapshotChunk, error) {
	if w.serve == nil {
		return &abci.ResponseLoadSnapshotChunk{}, nil
	}
	return &abci.ResponseLoadSnapshotChunk{Chunk: w.serve.chunks[fmt.Sprintf("%d:%d:%d", req.Height, req.Format, req.Chunk)]}, nil
}
func (w *world) EchoSync(s string) (*abci.ResponseEcho, error) {
	return &abci.ResponseEcho{Message: s}, nil
}
func (w *world) QuerySync(abci.RequestQuery) (*abci.ResponseQuery, error) {
	return &abci.ResponseQuery{}, nil
}

func (w *world) OfferSnapshotSync(req abci.RequestOfferSnapshot) (*abci.ResponseOfferSnapshot, error) {
	w.concWG.Wait()
	v := offerV{res: "accept"}
	if len(w.offers) > 0 {
		v, w.offers = w.offers[0], w.offers[1:]
	}
	s := req.Snapshot
	w.cur = snapT{s.Height, s.Format, s.Chunks, s.Hash, s.Metadata}
	w.curHash = req.AppHash
	w.logf("O:%s:%s:%s", w.cur, hx(req.AppHash), v.res)
	for _, m := range v.pre {
		w.deliver(m)
	}
	if v.res == "error" {
		return nil, errors.New("abci connection failure")
	}
	if v.res == "deadline" {
		return nil, context.DeadlineExceeded
	}
	return &abci.ResponseOfferSnapshot{Result: offerRes[v.res]}, nil
}

func u32list(l []uint32) string {
	if len(l) == 0 {
		return "-"
	}
	s := make([]string, len(l))
	for i, v := range l {
		s[i] = strconv.FormatUint(uint64(v), 10)
	}
	return strings.Join(s, ",")
}

func nameList(l []string) string {
	if len(l) == 0 {
		return "-"
	}
	s := make([]string, len(l))
	for i, v := range l {
		s[i] = showName(v)
	}
	return strings.Join(s, ",")
}

func (w *world) ApplySnapshotChunkSync(req abci.RequestApplySnapshotChunk) (*abci.ResponseApplySnapshotChunk, error) {
	w.concWG.Wait()
	v := applyV{res: "accept"}
	if len(w.applies) > 0 {
		v, w.applies = w.applies[0], w.applies[1:]
	}
	w.logf("A:%d:%s:%s:%s:%s:%s", req.Index, hx(req.Chunk), showName(req.Sender), v.res, u32list(v.refetch), nameList(v.rejs))
	for _, m := range v.pre {
		w.deliver(m)
	}
	if v.res == "error" {
		return nil, errors.New("abci connection failure")
	}
	if v.res == "deadline" {
		return nil, context.DeadlineExceeded
	}
	if v.res == "retry_snapshot" {
		w.retrying = true
	}
	w.race(v)
	if w.live && len(v.refetch) > 0 {
		// let the fetcher goroutines finish their round (everything allocated, Allocate() reports
		// errDone) before the refetch request comes back
		time.Sleep(50 * time.Millisecond)
	}
	return &abci.ResponseApplySnapshotChunk{Result: applyRes[v.res], RefetchChunks: v.refetch, RejectSenders: v.rejs}, nil
}

// race delivers the verdict's racing chunks (those of a sender this verdict rejects) from another
// goroutine so that their AddChunk overlaps with applyChunks' rejection of the sender: a reader
// holds the syncer lock while applyChunks queues for the write lock (a pending writer blocks new
// readers), the chunks are sent in that window, then the reader lets go. Whatever the
// linearisation, the property demands that the chunk is not in the queue afterwards.
func (w *world) race(v applyV) {
	var racing []msgT
	for _, m := range v.conc {
		rejected := false
		for _, r := range v.rejs {
			rejected = rejected || (r != "" && r == m.peer)
		}
		if rejected {
			racing = append(racing, m)
			w.logf("c%s=raced", m)
		}
	}
	if len(racing) == 0 {
		return
	}
	histMtx.Lock()
	raceHist++
	histMtx.Unlock()
	w.sy.VerifRLock()
	w.concWG.Add(1)
	go func() {
		defer w.concWG.Done()
		time.Sleep(15 * time.Millisecond) // applyChunks is now waiting for the write lock
		var wg sync.WaitGroup
		for _, m := range racing {
			wg.Add(1)
			go func(m msgT) { defer wg.Done(); w.addChunk(m) }(m)
		}
		time.Sleep(15 * time.Millisecond)
		w.sy.VerifRUnlock()
		wg.Wait()
	}()
}

func (w *world) InfoSync(abci.RequestInfo) (*abci.ResponseInfo, error) {
	w.concWG.Wait()
	v := infoV{kind: "echo"}
	if len(w.infos) > 0 {
		v, w.infos = w.infos[0], w.infos[1:]
	}
	switch v.kind {
	case "err":
		w.logf("I:err")
		return nil, errors.New("abci connection failure")
	case "deadline":
		w.logf("I:deadline")
		return nil, context.DeadlineExceeded
	case "echo":
		st := strings.Split(w.env[w.cur.h].state, "/")
		v.ver, v.hash, v.height = u64(st[1]), w.curHash, int64(w.cur.h)
	}
	w.logf("I:%d:%s:%d", v.ver, hx(v.hash), v.height)
	return &abci.ResponseInfo{AppVersion: v.ver, LastBlockAppHash: v.hash, LastBlockHeight: v.height}, nil
}

// stallAfter: how long a blocked Next() may wait for the fetchers in a live world
const stallAfter = 6 * time.Second

func stdBody(i uint32) []byte { return []byte{byte(i % 256), 0xfb} }

// monitor feeds the syncer while its Next() is blocked: late messages one at a time until the
// awaited chunk is in, then the fallback peer; if nothing can satisfy the wait it runs into the
// code's real chunkTimeout.
func (w *world) monitor(done <-chan struct{}) {
	gaveUp := false
	var waitSince time.Time
	waitIdx, reqMark := uint32(0), 0
	for {
		select {
		case <-done:
			return
		case <-time.After(150 * time.Microsecond):
		}
		idx, waiting := w.sy.VerifWaiting()
		if !waiting {
			gaveUp = false
			waitSince = time.Time{}
			continue
		}
		w.concWG.Wait()
		if w.live {
			// the fetcher goroutines must serve the wait (they poll every 2s once everything has
			// been allocated); if they do not within the deadline, note it and rescue the run
			w.mtx.Lock()
			nreq := len(w.requests)
			w.mtx.Unlock()
			if waitSince.IsZero() || waitIdx != idx {
				waitSince, waitIdx, reqMark = time.Now(), idx, nreq
			} else if time.Since(waitSince) > stallAfter {
				again := "not-requested"
				w.mtx.Lock()
				for _, r := range w.requests[reqMark:] {
					if r == idx {
						again = "requested"
					}
				}
				w.mtx.Unlock()
				w.logf("STALL:%d:%s", idx, again)
				w.addChunk(msgT{peer: "p1", h: w.cur.h, f: w.cur.f, i: idx, body: stdBody(idx)})
				waitSince = time.Time{}
			}
			continue
		}
		if gaveUp {
			continue
		}
		satisfied := false
		for !satisfied && len(w.late) > 0 {
			var m msgT
			m, w.late = w.late[0], w.late[1:]
			r := w.deliver(m)
			satisfied = !m.isSnap && m.i == idx && r == "added"
		}
		if !satisfied {
			if w.fallback != "" {
				r := w.deliver(msgT{peer: w.fallback, h: w.cur.h, f: w.cur.f, i: idx, body: stdBody(idx)})
				satisfied = r == "added"
			}
			if !satisfied {
				gaveUp = true
				w.slowWait = true
			}
		}
	}
}

func (w *world) run() string {
	w.journal = nil
	w.tie = false
	w.retrying = false
	w.slowWait = false
	done := make(chan struct{})
	var wg sync.WaitGroup
	wg.Add(1)
	go func() { defer wg.Done(); w.monitor(done) }()
	st, commit, err := w.sy.SyncAny(0, func() {})
	close(done)
	wg.Wait()
	w.concWG.Wait()
	if err != nil && strings.Contains(err.Error(), "failed to create chunk queue") && topTied(w.sy.VerifPool()) {
		// Best() had to choose among equally ranked snapshots (one of them without chunks)
		w.tie = true
	}
	var res string
	switch {
	case w.tie:
		res = "tie"
	case err == nil:
		res = fmt.Sprintf("ok snap=%s state=%s/%d commit=%d", w.cur, strings.TrimPrefix(st.ChainID, "tag-"), st.Version.Consensus.App, commit.Height)
	default:
		switch c := statesync.VerifErrClass(err); c {
		case "no-snapshots", "abort":
			res = c
		default:
			res = "failed:" + c
		}
	}
	histMtx.Lock()
	cls := strings.Fields(res)[0]
	runHist[cls]++
	for _, e := range w.journal {
		if i := strings.IndexByte(e, ':'); i > 0 && (e[0] == 'A' || e[0] == 'O') {
			p := strings.Split(e, ":")
			verdictHist[p[0]+":"+p[len(p)-3+map[byte]int{'A': 0, 'O': 2}[e[0]]]]++
		}
	}
	if w.slowWait {
		runHist["waited-for-real-chunkTimeout"]++
	}
	histMtx.Unlock()
	j := "-"
	if len(w.journal) > 0 {
		j = strings.Join(w.journal, " ")
	}
	return res + " | " + j
}

// ---- canonical pool views ----

func rankedCanon(p *statesync.VerifSnapshotPool) (string, []snapT) {
	r := p.Ranked()
	type row struct {
		s     snapT
		peers []string
	}
	rows := make([]row, len(r))
	for i, s := range r {
		var ids []string
		for _, pr := range p.GetPeers(s) {
			ids = append(ids, string(pr.ID()))
		}
		rows[i] = row{snapOf(s), ids}
	}
	less3 := func(a, b row) int {
		switch {
		case a.s.h != b.s.h:
			if a.s.h > b.s.h {
				return -1
			}
			return 1
		case a.s.f != b.s.f:
			if a.s.f > b.s.f {
				return -1
			}
			return 1
		case len(a.peers) != len(b.peers):
			if len(a.peers) > len(b.peers) {
				return -1
			}
			return 1
		}
		return 0
	}
	for i := 1; i < len(rows); i++ {
		if less3(rows[i-1], rows[i]) > 0 {
			return "RANKED-UNSORTED", nil
		}
	}
	sort.SliceStable(rows, func(i, j int) bool {
		if c := less3(rows[i], rows[j]); c != 0 {
			return c < 0
		}
		return bytes.Compare(rows[i].s.preimage(), rows[j].s.preimage()) < 0
	})
	if len(rows) == 0 {
		return "-", nil
	}
	out := make([]string, len(rows))
	var top []snapT
	for i, r := range rows {
		out[i] = r.s.String() + "/" + nameList(r.peers)
		if less3(rows[0], r) == 0 {
			top = append(top, r.s)
		}
	}
	return strings.Join(out, ";"), top
}

func poolDump(p *statesync.VerifSnapshotPool, known map[string][]byte) string {
	r, _ := rankedCanon(p)
	fs, ps, ks := p.VerifBlacklists()
	var pre [][]byte
	for _, k := range ks {
		if v, ok := known[string(k)]; ok {
			pre = append(pre, v)
		} else {
			pre = append(pre, append([]byte("unknown-key-"), k...))
		}
	}
	sort.Slice(pre, func(i, j int) bool { return bytes.Compare(pre[i], pre[j]) < 0 })
	pl := make([]string, len(pre))
	for i, b := range pre {
		pl[i] = hx(b)
		if len(b) == 0 {
			pl[i] = "."
		}
	}
	bls := "-"
	if len(pl) > 0 {
		bls = strings.Join(pl, ",")
	}
	return fmt.Sprintf("ranked=%s blf=%s blp=%s bls=%s", r, u32list(fs), nameList(ps), bls)
}

// ---- Exec ----

// required keys per op: n = decimal, x = hex or "-", b = body (hex, "-", "nil"), s = name
var opKeys = map[string]string{
	"q.new": "h:n f:n c:n", "q.add": "h:n f:n i:n b:b p:s", "q.discard": "i:n", "q.dsender": "p:s", "q.sender": "i:n",
	"q.has": "i:n", "q.retry": "i:n", "q.wait": "i:n", "s.live": "n:n",
	"p.add": "peer:s h:n f:n c:n hash:x meta:x", "p.peers": "h:n f:n c:n hash:x meta:x", "p.reject": "h:n f:n c:n hash:x meta:x",
	"p.rejfmt": "f:n", "p.rejpeer": "peer:s", "p.rmpeer": "peer:s",
	"s.snap": "peer:s h:n f:n c:n hash:x meta:x", "s.chunk": "h:n f:n i:n b:b p:s", "s.fallback": "p:s",
}
var bareOps = map[string]bool{"q.alloc": true, "q.close": true, "q.next": true, "q.retryall": true, "q.size": true,
	"p.new": true, "p.best": true, "p.ranked": true, "p.dump": true, "s.new": true, "s.run": true, "s.pool": true}

func isHex(s string) bool {
	if s == "-" || s == "." {
		return true
	}
	_, err := hex.DecodeString(s)
	return err == nil && s != ""
}

func wellFormed(f []string, m map[string]string) bool {
	if bareOps[f[0]] {
		return len(f) == 1
	}
	spec, ok := opKeys[f[0]]
	if !ok {
		return true // list-valued ops validate themselves
	}
	for _, kt := range strings.Fields(spec) {
		k, t := kt[:strings.IndexByte(kt, ':')], kt[strings.IndexByte(kt, ':')+1:]
		v, ok := m[k]
		if !ok || v == "" {
			return false
		}
		switch t {
		case "n":
			if _, err := strconv.ParseUint(v, 10, 64); err != nil {
				return false
			}
		case "x":
			if !isHex(v) {
				return false
			}
		case "b":
			if v != "nil" && !isHex(v) {
				return false
			}
		}
	}
	return true
}

func execCase(c core.Case) (out []string) {
	tmp, err := os.MkdirTemp("", "c14-")
	if err != nil {
		panic(err)
	}
	defer os.RemoveAll(tmp)
	var q *statesync.VerifChunkQueue
	defer func() {
		if q != nil {
			q.Close()
		}
	}()
	pool := statesync.VerifNewSnapshotPool()
	poolPeers := map[string]*fakePeer{}
	known := map[string][]byte{} // key hash -> preimage
	note := func(s snapT) { known[string(s.real().VerifKey())] = s.preimage() }
	newWorld := func(fetchers int) *world {
		w := &world{peers: map[string]*fakePeer{}, env: map[uint64]envRow{}, tmp: tmp, fallback: "pf", live: fetchers > 0}
		cfg := config.DefaultStateSyncConfig()
		cfg.ChunkFetchers = int32(fetchers)
		cfg.ChunkRequestTimeout = 100 * time.Millisecond
		w.sy = statesync.VerifNewSyncer(*cfg, log.NewNopLogger(), w, w, w, tmp)
		return w
	}
	w := newWorld(0)
	lc := &lctx{tmp: tmp}
	noteMsgs := func(ms []msgT) {
		for _, m := range ms {
			if m.isSnap {
				note(m.snap)
			}
		}
	}
	for _, op := range c.Ops {
		f := strings.Fields(op)
		if len(f) == 0 {
			out = append(out, "bad-op")
			continue
		}
		m := kv(op)
		if !wellFormed(f, m) {
			out = append(out, "bad-op")
			continue
		}
		qok := func(g func() string) {
			if q == nil {
				out = append(out, "bad-op")
			} else {
				out = append(out, g())
			}
		}
		if strings.HasPrefix(f[0], "l.") {
			out = append(out, lc.op(f, m))
			continue
		}
		if strings.HasPrefix(f[0], "r.") {
			out = append(out, w.rop(f, m, note))
			continue
		}
		if f[0] == "s.via" {
			switch m["on"] {
			case "1":
				w.via = true
				w.reactorOf().VerifSetSyncer(w.sy)
				out = append(out, "ok")
			case "0":
				w.via = false
				out = append(out, "ok")
			default:
				out = append(out, "bad-op")
			}
			continue
		}
		switch f[0] {
		case "q.new":
			if q != nil {
				q.Close()
			}
			var err error
			q, err = statesync.VerifNewChunkQueue(&statesync.VerifSnapshot{Height: u64(m["h"]), Format: u32(m["f"]), Chunks: u32(m["c"])}, tmp)
			if err != nil {
				q = nil
				out = append(out, "err-nochunks")
			} else {
				out = append(out, "ok")
			}
		case "q.add":
			qok(func() string {
				added, err := q.Add(&statesync.VerifChunk{Height: u64(m["h"]), Format: u32(m["f"]), Index: u32(m["i"]), Chunk: unbody(m["b"]), Sender: p2p.ID(name(m["p"]))})
				return addClass(added, err)
			})
		case "q.alloc":
			qok(func() string {
				i, err := q.Allocate()
				if err != nil {
					return statesync.VerifErrClass(err)
				}
				return strconv.Itoa(int(i))
			})
		case "q.close":
			qok(func() string {
				if err := q.Close(); err != nil {
					return "err"
				}
				return "ok"
			})
		case "q.discard":
			qok(func() string {
				if err := q.Discard(u32(m["i"])); err != nil {
					return "err"
				}
				return "ok"
			})
		case "q.dsender":
			qok(func() string {
				if err := q.DiscardSender(p2p.ID(name(m["p"]))); err != nil {
					return "err"
				}
				return "ok"
			})
		case "q.sender":
			qok(func() string { return showName(string(q.GetSender(u32(m["i"])))) })
		case "q.has":
			qok(func() string { return strconv.FormatBool(q.Has(u32(m["i"]))) })
		case "q.next":
			qok(func() string {
				if i, blocks := q.VerifNextBlocks(); blocks {
					return fmt.Sprintf("wait %d", i)
				}
				ch, err := q.Next()
				if err != nil {
					return statesync.VerifErrClass(err)
				}
				return fmt.Sprintf("chunk %d %d %d %s %s", ch.Height, ch.Format, ch.Index, showBody(ch.Chunk), showName(string(ch.Sender)))
			})
		case "q.retry":
			qok(func() string { q.Retry(u32(m["i"])); return "ok" })
		case "q.retryall":
			qok(func() string { q.RetryAll(); return "ok" })
		case "q.size":
			qok(func() string { return strconv.Itoa(int(q.Size())) })
		case "q.wait":
			qok(func() string {
				ch := q.WaitFor(u32(m["i"]))
				select {
				case _, ok := <-ch:
					if ok {
						return "ready"
					}
					return "closed"
				default:
					return "pending"
				}
			})
		case "p.new":
			pool = statesync.VerifNewSnapshotPool()
			out = append(out, "ok")
		case "p.add":
			id := name(m["peer"])
			if poolPeers[id] == nil {
				poolPeers[id] = &fakePeer{id: p2p.ID(id)}
			}
			s := parseSnapKV(m)
			note(s)
			added, err := pool.Add(poolPeers[id], s.real())
			if err != nil {
				out = append(out, "err")
			} else {
				out = append(out, strconv.FormatBool(added))
			}
		case "p.best":
			_, top := rankedCanon(pool)
			b := pool.Best()
			switch {
			case b == nil && len(top) == 0:
				out = append(out, "none")
			case b == nil:
				out = append(out, "BEST-NIL")
			default:
				in := false
				ss := make([]string, len(top))
				for i, t := range top {
					ss[i] = t.String()
					if t.String() == snapOf(b).String() {
						in = true
					}
				}
				if !in {
					out = append(out, "BEST-NOT-TOP "+snapOf(b).String())
				} else {
					out = append(out, "best "+strings.Join(ss, ";"))
				}
			}
		case "p.ranked":
			r, _ := rankedCanon(pool)
			out = append(out, r)
		case "p.peers":
			var ids []string
			for _, pr := range pool.GetPeers(parseSnapKV(m).real()) {
				ids = append(ids, string(pr.ID()))
			}
			out = append(out, nameList(ids))
		case "p.reject":
			s := parseSnapKV(m)
			note(s)
			pool.Reject(s.real())
			out = append(out, "ok")
		case "p.rejfmt":
			pool.RejectFormat(u32(m["f"]))
			out = append(out, "ok")
		case "p.rejpeer":
			pool.RejectPeer(p2p.ID(name(m["peer"])))
			out = append(out, "ok")
		case "p.rmpeer":
			pool.RemovePeer(p2p.ID(name(m["peer"])))
			out = append(out, "ok")
		case "p.dump":
			out = append(out, poolDump(pool, known))
		case "s.new":
			w = newWorld(0)
			out = append(out, "ok")
		case "s.live":
			n := int(u64(m["n"]))
			if n == 0 || n > 16 {
				out = append(out, "bad-op")
			} else {
				w = newWorld(n)
				out = append(out, "ok")
			}
		case "s.snap":
			s := parseSnapKV(m)
			note(s)
			out = append(out, w.addSnap(name(m["peer"]), s))
		case "s.chunk":
			out = append(out, w.addChunk(msgT{peer: name(m["p"]), h: u64(m["h"]), f: u32(m["f"]), i: u32(m["i"]), body: unbody(m["b"])}))
		case "s.env":
			w.env[u64(m["h"])] = envRow{m["apphash"], m["state"], m["commit"]}
			out = append(out, "ok")
		case "s.offers":
			var l []offerV
			ok := len(f) == 2
			if ok {
				for _, t := range semis(f[1]) {
					p := strings.Split(t, "/")
					if len(p) != 2 {
						ok = false
						break
					}
					ms, ok2 := parseMsgs(p[1])
					if _, known := offerRes[p[0]]; !known || !ok2 {
						ok = false
						break
					}
					noteMsgs(ms)
					l = append(l, offerV{p[0], ms})
				}
			}
			if !ok {
				out = append(out, "bad-op")
			} else {
				w.offers = l
				out = append(out, "ok")
			}
		case "s.applies":
			var l []applyV
			ok := len(f) == 2
			if ok {
				for _, t := range semis(f[1]) {
					p := strings.Split(t, "/")
					if len(p) != 4 && len(p) != 5 {
						ok = false
						break
					}
					ms, ok2 := parseMsgs(p[3])
					if _, known := applyRes[p[0]]; !known || !ok2 {
						ok = false
						break
					}
					noteMsgs(ms)
					v := applyV{res: p[0], pre: ms}
					if len(p) == 5 {
						cs, ok3 := parseMsgs(p[4])
						for _, c := range cs {
							ok3 = ok3 && !c.isSnap
						}
						if !ok3 {
							ok = false
							break
						}
						v.conc = cs
					}
					for _, x := range commaList(p[1]) {
						v.refetch = append(v.refetch, u32(x))
					}
					for _, x := range commaList(p[2]) {
						v.rejs = append(v.rejs, name(x))
					}
					l = append(l, v)
				}
			}
			if !ok {
				out = append(out, "bad-op")
			} else {
				w.applies = l
				out = append(out, "ok")
			}
		case "s.infos":
			var l []infoV
			ok := len(f) == 2
			if ok {
				for _, t := range semis(f[1]) {
					p := strings.Split(t, ":")
					switch {
					case len(p) == 1 && p[0] == "echo":
						l = append(l, infoV{kind: "echo"})
					case len(p) == 1 && p[0] == "err":
						l = append(l, infoV{kind: "err"})
					case len(p) == 1 && p[0] == "deadline":
						l = append(l, infoV{kind: "deadline"})
					case len(p) == 3:
						ht, _ := strconv.ParseInt(p[2], 10, 64)
						l = append(l, infoV{kind: "info", ver: u64(p[0]), hash: unhx(p[1]), height: ht})
					default:
						ok = false
					}
				}
			}
			if !ok {
				out = append(out, "bad-op")
			} else {
				w.infos = l
				out = append(out, "ok")
			}
		case "s.late":
			ms, ok := []msgT(nil), len(f) == 2
			if ok {
				ms, ok = parseMsgs(f[1])
			}
			if !ok {
				out = append(out, "bad-op")
			} else {
				noteMsgs(ms)
				w.late = ms
				out = append(out, "ok")
			}
		case "s.fallback":
			w.fallback = ""
			if m["p"] != "-" {
				w.fallback = m["p"]
			}
			out = append(out, "ok")
		case "s.run":
			out = append(out, w.run())
		case "s.pool":
			out = append(out, poolDump(w.sy.VerifPool(), known))
		default:
			out = append(out, "bad-op")
		}
	}
	return out
}
