package main

import (
	"fmt"
	"math/rand"
	"sort"
	"strings"

	"verifharness/core"
)

var peersAlpha = []string{"p1", "p2", "p3", "p4", "_"}
var hashAlpha = []string{"-", "aa", "ab", "aabb", "31"}
var metaAlpha = []string{"-", "bb", "ab", "33"}
var scenHist = map[string]int{}

func pick(r *rand.Rand, l []string) string { return l[r.Intn(len(l))] }

func rbody(r *rand.Rand) string {
	switch r.Intn(12) {
	case 0:
		return "nil"
	case 1:
		return "-"
	}
	n := 1 + r.Intn(2)
	b := make([]byte, n)
	for i := range b {
		b[i] = byte(r.Intn(3))
	}
	return hx(b)
}

func genQueue(r *rand.Rand, emit func(core.Case), n int) {
	for c := 0; c < n; c++ {
		h, f := 1+r.Intn(2), 1+r.Intn(2)
		chunks := r.Intn(6)
		if r.Intn(8) != 0 && chunks == 0 {
			chunks = 1 + r.Intn(4)
		}
		var ops []string
		if r.Intn(15) == 0 {
			ops = append(ops, "q.next") // before any queue exists
		}
		ops = append(ops, fmt.Sprintf("q.new h=%d f=%d c=%d", h, f, chunks))
		steps := 5 + r.Intn(40)
		for s := 0; s < steps; s++ {
			idx := 0
			if chunks > 0 {
				idx = r.Intn(chunks)
			}
			if r.Intn(8) == 0 {
				idx = r.Intn(chunks + 3)
			}
			switch k := r.Intn(30); {
			case k < 9:
				ah, af := h, f
				if r.Intn(12) == 0 {
					ah = 1 + r.Intn(3)
				}
				if r.Intn(12) == 0 {
					af = 1 + r.Intn(3)
				}
				ops = append(ops, fmt.Sprintf("q.add h=%d f=%d i=%d b=%s p=%s", ah, af, idx, rbody(r), pick(r, peersAlpha)))
			case k < 15:
				ops = append(ops, "q.next")
			case k < 17:
				ops = append(ops, "q.alloc")
			case k < 19:
				ops = append(ops, fmt.Sprintf("q.discard i=%d", idx))
			case k < 21:
				ops = append(ops, "q.dsender p="+pick(r, peersAlpha))
			case k < 23:
				ops = append(ops, fmt.Sprintf("q.retry i=%d", idx))
			case k == 23:
				ops = append(ops, "q.retryall")
			case k == 24:
				ops = append(ops, fmt.Sprintf("q.sender i=%d", idx))
			case k == 25:
				ops = append(ops, fmt.Sprintf("q.has i=%d", idx))
			case k == 26:
				ops = append(ops, fmt.Sprintf("q.wait i=%d", idx))
			case k == 27:
				ops = append(ops, "q.size")
			case k == 28:
				if r.Intn(4) == 0 {
					ops = append(ops, "q.close")
				} else {
					ops = append(ops, "q.alloc")
				}
			default:
				ops = append(ops, "q.bogus", "q.add h=x")
			}
		}
		emit(core.Case{Kind: "queue", Ops: ops})
	}
}

func rsnap(r *rand.Rand) snapT {
	return snapT{uint64(1 + r.Intn(3)), uint32(1 + r.Intn(2)), uint32(r.Intn(4)), unhx(pick(r, hashAlpha)), unhx(pick(r, metaAlpha))}
}

func snapArgs(s snapT) string {
	return fmt.Sprintf("h=%d f=%d c=%d hash=%s meta=%s", s.h, s.f, s.c, hx(s.hash), hx(s.meta))
}

func genPool(r *rand.Rand, emit func(core.Case), n int) {
	for c := 0; c < n; c++ {
		var ops []string
		var seen []snapT
		steps := 6 + r.Intn(40)
		flood := r.Intn(10) == 0
		for s := 0; s < steps; s++ {
			sn := rsnap(r)
			if len(seen) > 0 && r.Intn(2) == 0 {
				sn = seen[r.Intn(len(seen))]
			}
			switch k := r.Intn(24); {
			case k < 10:
				seen = append(seen, sn)
				peer := pick(r, peersAlpha)
				if flood {
					peer = "p1"
					sn.h = uint64(1 + r.Intn(14))
				}
				ops = append(ops, "p.add peer="+peer+" "+snapArgs(sn))
			case k < 13:
				ops = append(ops, "p.best")
			case k < 16:
				ops = append(ops, "p.ranked")
			case k < 18:
				ops = append(ops, "p.peers "+snapArgs(sn))
			case k == 18:
				ops = append(ops, "p.reject "+snapArgs(sn))
			case k == 19:
				ops = append(ops, fmt.Sprintf("p.rejfmt f=%d", 1+r.Intn(3)))
			case k == 20:
				ops = append(ops, "p.rejpeer peer="+pick(r, peersAlpha))
			case k == 21:
				ops = append(ops, "p.rmpeer peer="+pick(r, peersAlpha))
			case k == 22:
				ops = append(ops, "p.dump")
			default:
				if r.Intn(6) == 0 {
					ops = append(ops, "p.new")
				} else {
					ops = append(ops, "p.add peer=p1 h=1")
				}
			}
		}
		ops = append(ops, "p.ranked", "p.best", "p.dump")
		emit(core.Case{Kind: "pool", Ops: ops})
	}
}

func chunkMsg(peer string, s snapT, i int, body string) string {
	return fmt.Sprintf("c:%s:%d:%d:%d:%s", peer, s.h, s.f, i, body)
}

// random arriving messages while `s` is being restored
func rmsgs(r *rand.Rand, s snapT, max int, extra []snapT) []string {
	var out []string
	n := r.Intn(max + 1)
	for k := 0; k < n; k++ {
		i := 0
		if s.c > 0 {
			i = r.Intn(int(s.c))
		}
		t := s
		switch r.Intn(14) {
		case 0:
			t.h++
		case 1:
			t.f++
		case 2:
			i = int(s.c) + r.Intn(2)
		case 3:
			sn := rsnap(r)
			if len(extra) > 0 && r.Intn(2) == 0 {
				sn = extra[r.Intn(len(extra))]
			}
			out = append(out, fmt.Sprintf("s:%s:%d:%d:%d:%s:%s", pick(r, peersAlpha), sn.h, sn.f, sn.c, hx(sn.hash), hx(sn.meta)))
			continue
		}
		out = append(out, chunkMsg(pick(r, peersAlpha), t, i, rbody(r)))
	}
	return out
}

func joinOr(l []string, sep string) string {
	if len(l) == 0 {
		return "-"
	}
	return strings.Join(l, sep)
}

func genSync(r *rand.Rand, emit func(core.Case), n int, tier string) {
	for c := 0; c < n; c++ {
		ops := []string{"s.new"}
		if r.Intn(4) == 0 { // arrivals go through the reactor (wire bytes, validation, peer stops)
			ops = append(ops, "s.via on=1")
			scenHist["via-reactor"]++
		}
		scen := []string{"plain", "verdicts", "verdicts", "reject-sender", "lying-peers", "provider", "info"}[r.Intn(7)]
		scenHist[scen]++
		// snapshots in the pool: distinct heights mostly (ties end a run early)
		ns := 1 + r.Intn(3)
		var snaps []snapT
		for k := 0; k < ns; k++ {
			s := snapT{uint64(1 + r.Intn(4)), uint32(1 + r.Intn(2)), uint32(1 + r.Intn(4)), unhx(pick(r, hashAlpha)), unhx(pick(r, metaAlpha))}
			if r.Intn(12) == 0 {
				s.c = 0
			}
			if k > 0 && r.Intn(4) == 0 { // bogus twin of an advertised snapshot: same height/format
				s.h, s.f = snaps[0].h, snaps[0].f
			}
			snaps = append(snaps, s)
			np := 1 + r.Intn(3)
			for j := 0; j < np; j++ {
				ops = append(ops, fmt.Sprintf("s.snap peer=%s %s", peersAlpha[(k+j+r.Intn(2))%4], snapArgs(s)))
			}
		}
		if r.Intn(10) == 0 {
			ops = append(ops, fmt.Sprintf("s.chunk p=p1 h=%d f=%d i=0 b=01", snaps[0].h, snaps[0].f)) // no sync in progress
		}
		// provider
		for h := uint64(1); h <= 5; h++ {
			ah, st, cm := pick(r, []string{"a1", "a2", "-"}), fmt.Sprintf("%d/%s", 10+h, pick(r, []string{"1", "2", "1", "2", "0", "18446744073709551615"})), fmt.Sprintf("%d", 20+h)
			if scen == "provider" || r.Intn(15) == 0 {
				switch r.Intn(8) {
				case 0:
					ah = "err"
				case 1:
					ah = "nowit"
				case 2:
					st = "err"
				case 3:
					st = "nowit"
				case 4:
					cm = "err"
				case 5:
					cm = "nowit"
				}
			}
			if r.Intn(20) != 0 {
				ops = append(ops, fmt.Sprintf("s.env h=%d apphash=%s state=%s commit=%s", h, ah, st, cm))
			}
		}
		// the snapshot most likely to be tried first
		top := snaps[0]
		for _, s := range snaps {
			if s.h > top.h || (s.h == top.h && s.f > top.f) {
				top = s
			}
		}
		// offer verdicts
		var offers []string
		no := r.Intn(3)
		if scen == "plain" {
			no = 0
		}
		for k := 0; k < no; k++ {
			res := "accept"
			if r.Intn(2) == 0 {
				res = pick(r, []string{"reject", "reject_format", "reject_sender", "abort", "unknown", "error", "reject", "reject_sender", "deadline"})
			}
			offers = append(offers, res+"/"+joinOr(rmsgs(r, top, 3, snaps), ","))
		}
		if len(offers) == 0 && r.Intn(2) == 0 {
			// all chunks of the top snapshot arrive (shuffled, with noise) while the app handles the offer
			var ms []string
			for _, i := range r.Perm(int(top.c)) {
				if r.Intn(6) != 0 {
					ms = append(ms, chunkMsg(pick(r, peersAlpha), top, i, rbody(r)))
				}
				if r.Intn(4) == 0 {
					ms = append(ms, rmsgs(r, top, 1, snaps)...)
				}
			}
			offers = append(offers, "accept/"+joinOr(ms, ","))
		}
		ops = append(ops, "s.offers "+joinOr(offers, ";"))
		// apply verdicts
		var applies []string
		na := r.Intn(10)
		if scen == "plain" {
			na = r.Intn(2)
		}
		for k := 0; k < na; k++ {
			res := "accept"
			x := r.Intn(20)
			switch {
			case x < 3:
				res = "retry"
			case x == 3:
				res = "retry_snapshot"
			case x == 4:
				res = "reject_snapshot"
			case x == 5:
				res = pick(r, []string{"abort", "unknown", "error", "deadline"})
			}
			var refetch, rejs []string
			if r.Intn(4) == 0 {
				for j := 0; j <= r.Intn(2); j++ {
					refetch = append(refetch, fmt.Sprint(r.Intn(int(top.c)+2)))
				}
			}
			if r.Intn(5) == 0 || (scen == "reject-sender" && r.Intn(2) == 0) {
				for j := 0; j <= r.Intn(2); j++ {
					rejs = append(rejs, pick(r, peersAlpha))
				}
			}
			max := 2
			if scen == "lying-peers" || scen == "reject-sender" {
				max = 4
			}
			applies = append(applies, fmt.Sprintf("%s/%s/%s/%s", res, joinOr(refetch, ","), joinOr(rejs, ","), joinOr(rmsgs(r, top, max, snaps), ",")))
		}
		ops = append(ops, "s.applies "+joinOr(applies, ";"))
		// Info answers
		var infos []string
		if scen == "info" || r.Intn(8) == 0 {
			for k := 0; k <= r.Intn(2); k++ {
				switch r.Intn(6) {
				case 0:
					infos = append(infos, pick(r, []string{"err", "deadline"}))
				case 1:
					infos = append(infos, "echo")
				case 2:
					infos = append(infos, fmt.Sprintf("%d:%s:%d", 1+r.Intn(2), pick(r, []string{"a1", "a2", "-"}), top.h))
				case 3:
					infos = append(infos, fmt.Sprintf("%d:%s:%d", 1+r.Intn(2), pick(r, []string{"a1", "a2"}), int64(top.h)+int64(r.Intn(3))-1))
				case 4:
					infos = append(infos, fmt.Sprintf("%d:%s:%d", 1+r.Intn(2), pick(r, []string{"a1", "a2"}), -int64(r.Intn(3))))
				default:
					infos = append(infos, fmt.Sprintf("%s:%s:%d", pick(r, []string{"0", "1", "2", "3", "18446744073709551615"}), pick(r, []string{"a1", "a2", "a3"}), 1+r.Intn(5)))
				}
			}
		}
		ops = append(ops, "s.infos "+joinOr(infos, ";"))
		ops = append(ops, "s.late "+joinOr(rmsgs(r, top, 6, snaps), ","))
		ops = append(ops, "s.fallback p=pf")
		ops = append(ops, "s.run", "s.pool")
		if r.Intn(4) == 0 { // a second attempt on the same syncer: blacklists must persist
			for k := 0; k < 2; k++ {
				ops = append(ops, fmt.Sprintf("s.snap peer=%s %s", pick(r, peersAlpha), snapArgs(snaps[r.Intn(len(snaps))])))
			}
			ops = append(ops, "s.run", "s.pool")
		}
		emit(core.Case{Kind: "sync", Ops: ops})
	}
	if tier == "thorough" {
		// the one case that waits for the code's real chunkTimeout (2 min): nobody serves chunk 1
		emit(core.Case{Kind: "sync-timeout", Ops: []string{"s.new",
			"s.snap peer=p1 h=3 f=1 c=2 hash=aa meta=-", "s.snap peer=p2 h=2 f=1 c=1 hash=ab meta=-",
			"s.env h=3 apphash=a1 state=13/1 commit=23", "s.env h=2 apphash=a2 state=12/1 commit=22",
			"s.offers accept/c:p1:3:1:0:01;accept/c:p2:2:1:0:02", "s.applies -", "s.infos -", "s.late -", "s.fallback p=-", "s.run",
			"s.fallback p=pf", "s.run", "s.pool"}})
	}
}

// genVerify: the last step of a restore. One snapshot whose chunks all arrive, provider answers at
// boundary values (app version 0 / 1 / max uint64, empty app hash, heights around the int64/uint64
// casts), and an application whose Info matches exactly or differs in exactly one of version,
// hash, height.
func genVerify(r *rand.Rand, emit func(core.Case), n int) {
	heights := []uint64{1, 5, 1<<63 - 1, 1 << 63, 1<<64 - 1}
	versions := []uint64{0, 0, 1, 7, 1<<64 - 1}
	hashes := []string{"-", "a1", "a2", "a1a1"}
	for c := 0; c < n; c++ {
		h := heights[r.Intn(len(heights))]
		v := versions[r.Intn(len(versions))]
		ah := hashes[r.Intn(len(hashes))]
		chunks := 1 + r.Intn(2)
		sn := snapT{h, 1, uint32(chunks), unhx("aa"), nil}
		var ms []string
		for i := 0; i < chunks; i++ {
			ms = append(ms, chunkMsg("p1", sn, i, "01"))
		}
		iv, ih, ihash := v, int64(h), ah
		kind := []string{"exact", "version", "hash", "height"}[r.Intn(4)]
		switch kind {
		case "version":
			for iv == v {
				iv = []uint64{0, 1, 2, 7, 1<<64 - 1, v + 1, v - 1}[r.Intn(7)]
			}
		case "hash":
			for ihash == ah {
				ihash = hashes[r.Intn(len(hashes))]
			}
		case "height":
			for uint64(ih) == h {
				ih = []int64{int64(h) + 1, int64(h) - 1, -int64(h), 0, 1, -1 << 63, 1<<63 - 1}[r.Intn(7)]
			}
		}
		scenHist["verify-"+kind]++
		ops := []string{"s.new", "s.snap peer=p1 " + snapArgs(sn),
			fmt.Sprintf("s.env h=%d apphash=%s state=3/%d commit=4", h, ah, v),
			"s.offers accept/" + strings.Join(ms, ","), "s.applies -",
			fmt.Sprintf("s.infos %d:%s:%d", iv, ihash, ih), "s.late -", "s.run", "s.pool"}
		emit(core.Case{Kind: "verify", Ops: ops})
	}
}

// genRace: a chunk of a sender is delivered from another goroutine exactly while applyChunks
// processes the verdict that rejects that sender.
func genRace(r *rand.Rand, emit func(core.Case), n int) {
	for c := 0; c < n; c++ {
		chunks := 2 + r.Intn(3)
		sn := snapT{uint64(1 + r.Intn(3)), 1, uint32(chunks), unhx("aa"), nil}
		bad := pick(r, []string{"p2", "p3"})
		ops := []string{"s.new", "s.snap peer=p1 " + snapArgs(sn), "s.snap peer=" + bad + " " + snapArgs(sn),
			fmt.Sprintf("s.env h=%d apphash=a1 state=3/1 commit=4", sn.h)}
		at := r.Intn(chunks - 1) // the verdict on chunk `at` rejects the sender
		ops = append(ops, "s.offers accept/"+chunkMsg(bad, sn, 0, "0b"))
		var applies []string
		for i := 0; i <= at; i++ {
			if i < at {
				applies = append(applies, "accept/-/-/-")
				continue
			}
			// racing chunks: the next index (it would be handed out next) and sometimes a later one
			conc := []string{chunkMsg(bad, sn, at+1, "ee")}
			if r.Intn(2) == 0 {
				conc = append(conc, chunkMsg(bad, sn, r.Intn(chunks), "ef"))
			}
			if r.Intn(4) == 0 {
				conc = append(conc, chunkMsg("p1", sn, at+1, "0a")) // not rejected: not raced
			}
			refetch := "-"
			if r.Intn(3) == 0 {
				refetch = fmt.Sprint(r.Intn(chunks))
			}
			applies = append(applies, fmt.Sprintf("%s/%s/%s/-/%s", pick(r, []string{"accept", "accept", "retry"}), refetch, bad, strings.Join(conc, ",")))
		}
		ops = append(ops, "s.applies "+strings.Join(applies, ";"), "s.infos -", "s.late -", "s.fallback p=p1", "s.run", "s.pool")
		emit(core.Case{Kind: "race", Ops: ops})
	}
}

// genLive: real fetcher goroutines, one serving peer. After every chunk has been allocated the
// application asks for refetches (with ACCEPT or RETRY, so Sync() is not re-entered): the
// fetchers must request the discarded chunks again.
func genLive(r *rand.Rand, emit func(core.Case), n int) {
	for c := 0; c < n; c++ {
		chunks := 2 + r.Intn(3)
		sn := snapT{uint64(1 + r.Intn(3)), 1, uint32(chunks), unhx("aa"), nil}
		ops := []string{fmt.Sprintf("s.live n=%d", 1+r.Intn(3)), "s.snap peer=p1 " + snapArgs(sn),
			fmt.Sprintf("s.env h=%d apphash=a1 state=3/1 commit=4", sn.h)}
		var applies []string
		for i := 0; i < chunks-1; i++ {
			applies = append(applies, "accept/-/-/-")
		}
		// the verdict on the last chunk: by then every chunk has been allocated (the application
		// takes its time before answering a refetch, see the ABCI wrapper)
		applies = append(applies, fmt.Sprintf("%s/%d/-/-", pick(r, []string{"accept", "retry"}), r.Intn(chunks)))
		if r.Intn(2) == 0 {
			applies = append(applies, fmt.Sprintf("%s/%d/-/-", pick(r, []string{"accept", "retry"}), r.Intn(chunks)))
		}
		ops = append(ops, "s.applies "+strings.Join(applies, ";"), "s.run")
		emit(core.Case{Kind: "live-fetchers", Ops: ops})
	}
}

// nodeWriteOrder: "node" = the order of the two writes in node/node.go startStateSync (the harness
// reads it from the source, the model from the fact c14_startStateSync_order)
const nodeWriteOrder = "node"

var headerLies = []string{"hah", "hvh", "hnvh", "hcons", "hver", "cother", "cself", "vother"}
var paramLies = []string{"pmb", "pmg", "piota", "peab", "pead", "pemb", "ppk", "pav", "pinv", "pht"}

// genLcp: the real light-client state provider over lying RPC servers, and the node's two writes.
func genLcp(r *rand.Rand, emit func(core.Case), n int) {
	for c := 0; c < n; c++ {
		spec := lspec{seed: int64(r.Intn(6)), n: 6 + r.Intn(5), nv: 1 + r.Intn(4), ih: []int64{1, 1, 1, 3, 7}[r.Intn(5)]}
		tip := spec.ih + int64(spec.n) - 1
		hIn := func() int64 { return spec.ih + int64(r.Intn(spec.n)) }
		for k := r.Intn(3); k > 0; k-- {
			v, dup := hIn(), false
			for _, o := range spec.vchg {
				dup = dup || o == v
			}
			if !dup {
				spec.vchg = append(spec.vchg, v)
			}
		}
		sort.Slice(spec.vchg, func(i, j int) bool { return spec.vchg[i] < spec.vchg[j] })
		if r.Intn(2) == 0 {
			spec.pchg = hIn()
		}
		if r.Intn(2) == 0 {
			spec.uchg = hIn()
		}
		if r.Intn(3) == 0 {
			spec.vver = hIn()
		}
		ch := getLChain(spec)
		vch := "-"
		if len(spec.vchg) > 0 {
			t := make([]string, len(spec.vchg))
			for i, v := range spec.vchg {
				t[i] = fmt.Sprint(v)
			}
			vch = strings.Join(t, ",")
		}
		ops := []string{fmt.Sprintf("l.chain seed=%d n=%d nv=%d ih=%d vchg=%s pchg=%d uchg=%d vver=%d blocks=%s", spec.seed, spec.n, spec.nv, spec.ih,
			vch, spec.pchg, spec.uchg, spec.vver, ch.blocksStr())}
		for k := 1 + r.Intn(3); k > 0; k-- {
			// snapshot height: mostly with h+2 on the chain; corners: the initial height, too close
			// to the tip, below the initial height
			h := spec.ih + int64(r.Intn(spec.n-2))
			switch r.Intn(10) {
			case 0:
				h = spec.ih
			case 1:
				h = tip - int64(r.Intn(2))
			case 2:
				if spec.ih > 1 {
					h = spec.ih - 1
				}
			}
			trust := hIn()
			lieP, lieW, all, exp := "-", "-", 0, "exact"
			near := func() int64 { return h + int64(r.Intn(3)) }
			switch r.Intn(6) {
			case 0, 1: // lies about the consensus parameters (the model predicts the outcome)
				at := h + 1
				if r.Intn(6) == 0 {
					at = near()
				}
				lieP = fmt.Sprintf("%s@%d", paramLies[r.Intn(len(paramLies))], at)
			case 2: // the primary lies about a header / commit / validator set
				lieP, exp = fmt.Sprintf("%s@%d", headerLies[r.Intn(len(headerLies))], near()), "any"
			case 3: // a witness lies
				lieW, exp = fmt.Sprintf("%s@%d", headerLies[r.Intn(len(headerLies))], near()), "any"
			case 4: // every server tells the same lie
				lieP, all, exp = fmt.Sprintf("%s@%d", headerLies[r.Intn(len(headerLies))], near()), 1, "any"
			}
			if trust == h || trust == h+1 || trust == h+2 {
				if strings.HasPrefix(lieP, "h") || strings.HasPrefix(lieP, "c") || strings.HasPrefix(lieP, "v") {
					// a lie at the trusted height itself is a wrong trust root, not a lying server
					trust = spec.ih
					if trust >= h {
						trust = tip
					}
				}
			}
			common := fmt.Sprintf("h=%d trust=%d lieP=%s lieW=%s all=%d expect=%s", h, trust, lieP, lieW, all, exp)
			ops = append(ops, "l.sync "+common)
			if exp == "exact" && r.Intn(2) == 0 {
				ops = append(ops, fmt.Sprintf("l.boot %s crash=%s order=%s", common, pick(r, []string{"-", "-", "between", "before"}), nodeWriteOrder))
			}
		}
		emit(core.Case{Kind: "lcp", Ops: ops})
	}
}

func rwire(r *rand.Rand) string {
	h := []int{0, 1, 2, 3}[r.Intn(4)]
	switch r.Intn(9) {
	case 0:
		return "sq"
	case 1, 2, 3:
		return fmt.Sprintf("S/%d/%d/%d/%s/%s", h, 1+r.Intn(2), r.Intn(3), pick(r, []string{"-", "aa", "ab"}), pick(r, metaAlpha))
	case 4:
		return fmt.Sprintf("Q/%d/%d/%d", h, 1+r.Intn(2), r.Intn(3))
	default:
		return fmt.Sprintf("C/%d/%d/%d/%s/%d", h, 1+r.Intn(2), r.Intn(3), pick(r, []string{"nil", "-", "01", "0202"}), r.Intn(4)/3)
	}
}

// genReactor: wire messages from mock peers into the real Reactor.Receive, with and without a
// syncer attached, on the right and on the wrong channel; the local application serves snapshots
// (more than recentSnapshots) and chunks.
func genReactor(r *rand.Rand, emit func(core.Case), n int) {
	for c := 0; c < n; c++ {
		ops := []string{"s.new"}
		var snaps, chunks []string
		ns := r.Intn(5)
		if r.Intn(5) == 0 {
			ns = 9 + r.Intn(5)
		}
		seen := map[string]bool{}
		for k := 0; k < ns; k++ {
			h, f := 1+r.Intn(7), 1+r.Intn(3)
			if seen[fmt.Sprint(h, f)] { // the reactor's sort is not stable: equal (height, format) have no defined order
				continue
			}
			seen[fmt.Sprint(h, f)] = true
			snaps = append(snaps, fmt.Sprintf("%d/%d/%d/%s/%s", h, f, 1+r.Intn(3), pick(r, []string{"aa", "ab"}), pick(r, metaAlpha)))
		}
		for k := r.Intn(5); k > 0; k-- {
			chunks = append(chunks, fmt.Sprintf("%d:%d:%d:%s", 1+r.Intn(3), 1+r.Intn(2), r.Intn(3), pick(r, []string{"nil", "-", "07", "0809"})))
		}
		ops = append(ops, fmt.Sprintf("r.app snaps=%s chunks=%s", joinOr(snaps, ";"), joinOr(chunks, ",")))
		if r.Intn(3) != 0 {
			ops = append(ops, "r.attach on=1")
		}
		for k := 4 + r.Intn(14); k > 0; k-- {
			m := rwire(r)
			ch := 0x60
			if m[0] == 'Q' || m[0] == 'C' {
				ch = 0x61
			}
			switch r.Intn(12) {
			case 0:
				ch = 0x60 + r.Intn(2)
			case 1:
				ch = 5
			}
			ops = append(ops, fmt.Sprintf("r.recv peer=%s ch=%d m=%s", pick(r, peersAlpha), ch, m))
			if r.Intn(9) == 0 {
				ops = append(ops, fmt.Sprintf("r.attach on=%d", r.Intn(2)))
			}
			if r.Intn(9) == 0 {
				ops = append(ops, "s.pool")
			}
		}
		ops = append(ops, "s.pool")
		emit(core.Case{Kind: "reactor", Ops: ops})
	}
}

// genHand: the node's real startStateSync after a real restore, with failing store writes: every
// failure pattern of the hand-over (seen commit / k-th write of Bootstrap / switch to block sync).
// Each case waits for the syncer's minimum discovery time (5 s), so there are few.
func genHand(r *rand.Rand, emit func(core.Case), tier string) {
	type pat struct {
		seen, sw string
		boot     int
	}
	pats := []pat{{"fail", "ok", 0}, {"ok", "ok", 0}, {"ok", "ok", 5}, {"ok", "ok", 1 + r.Intn(4)}, {"ok", "fail", 0}, {"fail", "ok", 1 + r.Intn(5)}}
	if tier == "thorough" {
		pats = nil
		for _, seen := range []string{"ok", "fail"} {
			for boot := 0; boot <= 6; boot++ {
				for _, sw := range []string{"ok", "fail"} {
					pats = append(pats, pat{seen, sw, boot})
				}
			}
		}
	}
	for _, p := range pats {
		spec := lspec{seed: int64(r.Intn(6)), n: 6, nv: 1 + r.Intn(3), ih: []int64{1, 3}[r.Intn(2)]}
		spec.vchg = []int64{spec.ih + 1}
		ch := getLChain(spec)
		h := spec.ih + int64(r.Intn(3))
		ops := []string{fmt.Sprintf("l.chain seed=%d n=%d nv=%d ih=%d vchg=%d pchg=0 uchg=0 vver=0 blocks=%s", spec.seed, spec.n, spec.nv, spec.ih, spec.vchg[0], ch.blocksStr()),
			fmt.Sprintf("l.hand h=%d trust=%d seen=%s boot=%d switch=%s", h, spec.ih, p.seen, p.boot, p.sw)}
		emit(core.Case{Kind: "hand-over", Ops: ops})
	}
}

func main() {
	core.Main(core.Prop{
		ID:     "C14",
		Driver: "c14",
		Gen: func(r *rand.Rand, tier string, emit func(core.Case)) {
			n := 500
			if tier == "thorough" {
				n = 8000
			}
			genQueue(r, emit, n)
			genPool(r, emit, n)
			genSync(r, emit, 2*n, tier)
			genVerify(r, emit, n/2)
			genHand(r, emit, tier)
			genRace(r, emit, n/10)
			genReactor(r, emit, n/2)
			nl := n / 2
			if nl > 1000 {
				nl = 1000 // every run opens real TCP connections: keep clear of the ephemeral port range
			}
			genLcp(r, emit, nl)
			live := 6
			if tier == "thorough" {
				live = 40
			}
			genLive(r, emit, live)
		},
		Exec:   execCase,
		Oracle: oracle,
		NonTrivial: func(c core.Case, out []string) bool {
			for _, o := range out {
				if strings.HasPrefix(o, "chunk ") || o == "true" || strings.Contains(o, " A:") || strings.HasPrefix(o, "apphash=") || strings.HasPrefix(o, "state=") {
					return true
				}
			}
			return false
		},
		Rule: "three streams on the real statesync code: (queue) random op sequences on chunkQueue (add with wrong height/format/index/nil/empty bodies and duplicate arrivals from several senders, next, allocate, discard, discardSender, retry, retryAll, close, waitFor); (pool) random snapshotPool histories over a small alphabet with colliding key preimages, a flooding peer, rejections of snapshot/format/peer and peer removal; (sync) the real syncer.SyncAny with a recording ABCI connection, a scripted state provider (errors, ErrNoWitnesses) and scripted peers: random offer/apply/info verdict sequences (accept, retry, refetch lists, reject-senders, retry-snapshot, reject-snapshot, reject-format, reject-sender, abort, unknown, connection errors), chunks and snapshot advertisements arriving in random order while the application handles a call or while Next() is blocked (bogus twins of a snapshot, wrong/duplicate/late chunks, chunks from rejected senders), a second SyncAny on the same syncer. Non-trivial = a chunk was handed out, a snapshot entered a pool, or the application was handed a chunk",
		Assumptions: []string{
			"SHA-256 of the snapshot key is modelled by its preimage (no collisions); the preimage's own ambiguity (hash||metadata) is modelled",
			"the temp-file system works (os.WriteFile/ReadFile/Remove error branches not modelled)",
			"chunk fetcher goroutines are part of the environment (ChunkFetchers=0 in the stream; every request they would cause is an arrival chosen by the generator); discoveryTime=0",
			"a mutex-protected section is one atomic step; arrivals are injected while the application handles a call or while Next() blocks (the theorems also cover arrivals at every other gap)",
			"the state provider is a function of the height (the light client behind it is C09's subject)",
		},
		Parallel: 8,
		Extra: func() map[string]interface{} {
			return map[string]interface{}{"scenario_histogram": scenHist, "syncany_result_histogram": runHist, "verdict_histogram": verdictHist, "racing_deliveries": raceHist, "lcp_histogram": lcpHist, "handover_histogram": handHist}
		},
	})
}
