// C08 correspondence stream: real types.ValidatorSet and the real state store (memdb) vs the
// Lean model; the oracle evaluates the property on the implementation's outputs against a
// map-based / big-integer reference that shares no code with the model.
package main

import (
	"encoding/hex"
	"fmt"
	"math/big"
	"sort"
	"strconv"
	"strings"
	"sync"
	"time"

	dbm "github.com/tendermint/tm-db"

	abci "github.com/tendermint/tendermint/abci/types"
	"github.com/tendermint/tendermint/consensus"
	"github.com/tendermint/tendermint/proxy"
	rpccore "github.com/tendermint/tendermint/rpc/core"
	rpctypes "github.com/tendermint/tendermint/rpc/jsonrpc/types"
	bstore "github.com/tendermint/tendermint/store"
	"github.com/tendermint/tendermint/crypto"
	"github.com/tendermint/tendermint/crypto/ed25519"
	tmstate "github.com/tendermint/tendermint/proto/tendermint/state"
	sm "github.com/tendermint/tendermint/state"
	"github.com/tendermint/tendermint/types"

	"verifharness/core"
)

const nKeys = 12

var (
	keyByAddr = map[string]crypto.PubKey{}
	keyAddrs  []string // hex, in key order
)

func init() {
	for i := 0; i < nKeys; i++ {
		pk := ed25519.GenPrivKeyFromSecret([]byte{byte(i), 0xc0, 0x08}).PubKey()
		a := hex.EncodeToString(pk.Address())
		keyByAddr[a] = pk
		keyAddrs = append(keyAddrs, a)
	}
}

func kv(op string) map[string]string {
	m := map[string]string{}
	for _, t := range strings.Fields(op)[1:] {
		if i := strings.IndexByte(t, '='); i > 0 {
			m[t[:i]] = t[i+1:]
		}
	}
	return m
}

type pv struct {
	addr        string
	power, prio int64
}

// parseVals parses "addr:power[,..]" / "addr:power:prio[,..]"; ok=false → bad-op.
func parseVals(s string, withPrio bool) ([]pv, bool) {
	if s == "" {
		return nil, false
	}
	if s == "-" {
		return nil, true
	}
	var out []pv
	for _, t := range strings.Split(s, ",") {
		f := strings.Split(t, ":")
		if (withPrio && len(f) != 3) || (!withPrio && len(f) != 2) {
			return nil, false
		}
		if len(f[0]) != 2*crypto.AddressSize {
			return nil, false
		}
		if _, err := hex.DecodeString(f[0]); err != nil {
			return nil, false
		}
		p, err := strconv.ParseInt(f[1], 10, 64)
		if err != nil {
			return nil, false
		}
		v := pv{addr: strings.ToLower(f[0]), power: p}
		if withPrio {
			q, err := strconv.ParseInt(f[2], 10, 64)
			if err != nil {
				return nil, false
			}
			v.prio = q
		}
		out = append(out, v)
	}
	return out, true
}

func toValidators(l []pv) []*types.Validator {
	out := make([]*types.Validator, len(l))
	for i, v := range l {
		a, _ := hex.DecodeString(v.addr)
		out[i] = &types.Validator{Address: a, PubKey: keyByAddr[v.addr], VotingPower: v.power, ProposerPriority: v.prio}
	}
	return out
}

func showVal(v *types.Validator) string {
	if v == nil {
		return "-"
	}
	return fmt.Sprintf("%s:%d:%d", hex.EncodeToString(v.Address), v.VotingPower, v.ProposerPriority)
}

func showVals(l []*types.Validator) string {
	if len(l) == 0 {
		return "-"
	}
	s := make([]string, len(l))
	for i, v := range l {
		s[i] = showVal(v)
	}
	return strings.Join(s, ",")
}

func showSet(vs *types.ValidatorSet) string {
	return showVals(vs.Validators) + ";prop=" + showVal(vs.Proposer)
}

func hasDup(l []pv) bool {
	seen := map[string]bool{}
	for _, v := range l {
		if seen[v.addr] {
			return true
		}
		seen[v.addr] = true
	}
	return false
}

func errClass(msg string, batch []pv) string {
	c := "other:" + msg
	switch {
	case strings.Contains(msg, "duplicate entry"):
		c = "dup"
	case strings.Contains(msg, "voting power can't be negative"):
		c = "negative"
	case strings.Contains(msg, "to prevent clipping/overflow"):
		c = "toobig"
	case strings.Contains(msg, "cannot process validators with voting power 0"),
		strings.Contains(msg, "cannot contain validators with no voting power"):
		c = "zero"
	case strings.Contains(msg, "would result in empty set"):
		c = "empty"
	case strings.Contains(msg, "failed to find validator"):
		c = "remove-missing"
	case strings.Contains(msg, "total voting power of resulting valset exceeds max"):
		c = "overflow"
	case strings.Contains(msg, "Total voting power should be guarded"):
		c = "panic-total"
	}
	if hasDup(batch) && (c == "dup" || c == "negative" || c == "toobig") {
		return "invalid"
	}
	return c
}

var maxTotal = types.MaxTotalVotingPower

func rawOK(l []pv) bool {
	if len(l) == 0 || hasDup(l) {
		return false
	}
	sum := new(big.Int)
	for _, v := range l {
		if v.power < 0 || v.power > maxTotal || v.prio < -(1<<61) || v.prio > 1<<61 {
			return false
		}
		sum.Add(sum, big.NewInt(v.power))
	}
	return sum.Cmp(big.NewInt(maxTotal)) <= 0
}

// icApp: an application that owns the validator set: InitChain answers with its own list (and,
// optionally, consensus params).
type icApp struct {
	abci.BaseApplication
	vals   []abci.ValidatorUpdate
	params bool
}

func (a *icApp) InitChain(req abci.RequestInitChain) abci.ResponseInitChain {
	res := abci.ResponseInitChain{Validators: a.vals}
	if a.params {
		res.ConsensusParams = &abci.ConsensusParams{Block: &abci.BlockParams{MaxBytes: 2000000, MaxGas: 5}}
	}
	return res
}

// rbStore: the block store as Rollback sees it: at the state's height, blocks from the initial
// height on.
type rbStore struct {
	sm.BlockStore
	ih, h int64
}

func (b rbStore) Height() int64 { return b.h }
func (b rbStore) Base() int64   { return b.ih }
func (b rbStore) LoadBlockMeta(h int64) *types.BlockMeta {
	if h < b.ih || h > b.h {
		return nil
	}
	return &types.BlockMeta{Header: types.Header{Height: h, Time: time.Unix(1+h, 0).UTC()}}
}

// staleCS: the consensus state as rpc/core sees it; it may lag behind the stores (block sync, or
// the window between SaveBlock and updateToState).
type staleCS struct {
	rpccore.Consensus
	st sm.State
}

func (c staleCS) GetState() sm.State { return c.st }
func (c staleCS) GetValidators() (int64, []*types.Validator) {
	return c.st.LastBlockHeight, c.st.Validators.Validators
}
func (c staleCS) GetLastHeight() int64 { return c.st.LastBlockHeight }

// rpc/core keeps its environment in a package variable: calls are serialised
var rpcMu sync.Mutex

type world struct {
	hist  []sm.State // states since the last (re)start of the store, newest last
	cur   *types.ValidatorSet
	db    dbm.DB
	store sm.Store
	st    *sm.State
}

func try(f func() string) (res string) {
	defer func() {
		if r := recover(); r != nil {
			res = "PANIC:" + strings.ReplaceAll(fmt.Sprint(r), "\n", " ")
		}
	}()
	return f()
}

func (w *world) op(line string) string {
	f := strings.Fields(line)
	if len(f) == 0 {
		return "bad-op"
	}
	m := kv(line)
	switch f[0] {
	case "new":
		l, ok := parseVals(m["v"], false)
		if !ok {
			return "bad-op"
		}
		r := try(func() string {
			w2 := types.NewValidatorSet(toValidators(l))
			w.cur = w2
			return "ok " + showSet(w2)
		})
		if strings.HasPrefix(r, "PANIC:") {
			return "panic-" + errClass(r, l)
		}
		return r
	case "raw":
		l, ok := parseVals(m["v"], true)
		i, err := strconv.Atoi(m["prop"])
		if !ok || err != nil || !rawOK(l) || i < 0 || i >= len(l) {
			return "bad-op"
		}
		vs := toValidators(l)
		w.cur = &types.ValidatorSet{Validators: vs, Proposer: vs[i]}
		return "ok " + showSet(w.cur)
	case "upd":
		l, ok := parseVals(m["ch"], false)
		if !ok || w.cur == nil {
			return "bad-op"
		}
		sfx := ""
		var l2 []pv
		if a, has := m["alt"]; has {
			l2, ok = parseVals(a, false)
			if !ok {
				return "bad-op"
			}
			sfx = "alt"
		}
		pre := w.cur.Copy()
		r := try(func() string {
			if err := w.cur.UpdateWithChangeSet(toValidators(l)); err != nil {
				return "err-" + errClass(err.Error(), l)
			}
			return "ok"
		})
		if strings.HasPrefix(r, "PANIC:") {
			r = "err-" + errClass(r, l)
		}
		if sfx != "" {
			r2 := try(func() string {
				if err := pre.UpdateWithChangeSet(toValidators(l2)); err != nil {
					return "err"
				}
				return "ok"
			})
			if showVals(pre.Validators) == showVals(w.cur.Validators) && (r2 == "ok") == (r == "ok") {
				sfx = " alt=same"
			} else {
				sfx = " alt=differs"
			}
		}
		return r + " " + showVals(w.cur.Validators) + sfx
	case "incr":
		n, err := strconv.ParseInt(m["n"], 10, 64)
		if err != nil || w.cur == nil || n < -(1<<31) || n > 1<<31-1 {
			return "bad-op"
		}
		r := try(func() string {
			w.cur.IncrementProposerPriority(int32(n))
			return "ok " + showSet(w.cur)
		})
		if strings.HasPrefix(r, "PANIC:") {
			return "panic"
		}
		return r
	case "genesis":
		ih, err := strconv.ParseInt(m["ih"], 10, 64)
		l, ok := parseVals(m["v"], false)
		if err != nil || !ok || ih < 1 || ih > 4000000000000 || len(l) == 0 {
			return "bad-op"
		}
		gv := make([]types.GenesisValidator, len(l))
		for i, v := range l {
			pk := keyByAddr[v.addr]
			if pk == nil {
				return "bad-op"
			}
			gv[i] = types.GenesisValidator{PubKey: pk, Power: v.power, Name: "v"}
		}
		gd := &types.GenesisDoc{ChainID: "c08", InitialHeight: ih, Validators: gv, GenesisTime: time.Unix(1, 0).UTC()}
		r := try(func() string {
			st, err := sm.MakeGenesisState(gd)
			if err != nil {
				return "err-" + errClass(err.Error(), l)
			}
			db := dbm.NewMemDB()
			store := sm.NewStore(db, sm.StoreOptions{})
			if err := store.Save(st); err != nil {
				return "err-save"
			}
			w.db, w.store, w.st = db, store, &st
			w.hist = []sm.State{st}
			return "ok " + showSet(st.Validators) + " / " + showSet(st.NextValidators)
		})
		if strings.HasPrefix(r, "PANIC:") {
			return "err-" + errClass(r, l)
		}
		return r
	case "rpcvals":
		if w.st == nil {
			return "bad-op"
		}
		syncing, err1 := strconv.Atoi(m["sync"])
		lag, err2 := strconv.Atoi(m["lag"])
		if err1 != nil || err2 != nil || syncing < 0 || syncing > 1 || lag < 0 || m["h"] == "" {
			return "bad-op"
		}
		var hp *int64
		if m["h"] != "-" {
			x, err := strconv.ParseInt(m["h"], 10, 64)
			if err != nil {
				return "bad-op"
			}
			hp = &x
		}
		stale := *w.st
		if i := len(w.hist) - 1 - lag; len(w.hist) > 0 {
			if i < 0 {
				i = 0
			}
			stale = w.hist[i]
		}
		r := try(func() string {
			rpcMu.Lock()
			defer rpcMu.Unlock()
			rpccore.SetEnvironment(&rpccore.Environment{
				StateStore:       w.store,
				BlockStore:       rbStore{ih: w.st.InitialHeight, h: w.st.LastBlockHeight},
				ConsensusState:   staleCS{st: stale},
				ConsensusReactor: consensus.VerifReactorWaitSync(syncing == 1),
			})
			res, err := rpccore.Validators(&rpctypes.Context{}, hp, nil, nil)
			if err != nil {
				if strings.Contains(err.Error(), "height") && !strings.Contains(err.Error(), "validator") {
					return "err-height"
				}
				return "err-load"
			}
			return fmt.Sprintf("ok h=%d %s", res.BlockHeight, showVals(res.Validators))
		})
		if strings.HasPrefix(r, "PANIC:") {
			return "panic"
		}
		return r
	case "handshake":
		ih, err := strconv.ParseInt(m["ih"], 10, 64)
		l, ok := parseVals(m["v"], false)
		iv, ok2 := parseVals(m["iv"], false)
		if err != nil || !ok || !ok2 || ih < 1 || ih > 4000000000000 {
			return "bad-op"
		}
		var gv []types.GenesisValidator
		for _, v := range l {
			pk := keyByAddr[v.addr]
			if pk == nil {
				return "bad-op"
			}
			gv = append(gv, types.GenesisValidator{PubKey: pk, Power: v.power, Name: "v"})
		}
		app := &icApp{params: m["cp"] == "1"}
		for _, v := range iv {
			pk := keyByAddr[v.addr]
			if pk == nil {
				return "bad-op"
			}
			app.vals = append(app.vals, types.TM2PB.NewValidatorUpdate(pk, v.power))
		}
		gd := &types.GenesisDoc{ChainID: "c08", InitialHeight: ih, Validators: gv, GenesisTime: time.Unix(1, 0).UTC()}
		var st0 sm.State
		r := try(func() string {
			st, err := sm.MakeGenesisState(gd)
			if err != nil {
				return "err-" + errClass(err.Error(), l)
			}
			st0 = st
			return ""
		})
		if strings.HasPrefix(r, "PANIC:") {
			return "err-" + errClass(r, l)
		}
		if r != "" {
			return r
		}
		r = try(func() string {
			db := dbm.NewMemDB()
			store := sm.NewStore(db, sm.StoreOptions{})
			blockStore := bstore.NewBlockStore(dbm.NewMemDB())
			pa := proxy.NewAppConns(proxy.NewLocalClientCreator(app))
			if err := pa.Start(); err != nil {
				return "err-proxy"
			}
			defer pa.Stop() //nolint
			hs := consensus.NewHandshaker(store, st0, blockStore, gd)
			if err := hs.Handshake(pa); err != nil {
				if strings.Contains(err.Error(), "validator set is nil in genesis") {
					return "err-novalidators"
				}
				return "err-handshake:" + err.Error()
			}
			st, err := store.Load()
			if err != nil {
				return "err-load-state"
			}
			if w.db != nil {
				w.db.Close()
			}
			w.db, w.store, w.st = db, store, &st
			w.hist = []sm.State{st}
			return "ok " + showSet(st.Validators) + " / " + showSet(st.NextValidators)
		})
		if strings.HasPrefix(r, "PANIC:") {
			return "hs-panic-" + errClass(r, iv)
		}
		return r
	case "rollback":
		if len(f) != 1 || w.st == nil {
			return "bad-op"
		}
		r := try(func() string {
			_, _, err := sm.Rollback(rbStore{ih: w.st.InitialHeight, h: w.st.LastBlockHeight}, w.store)
			if err != nil {
				e := err.Error()
				switch {
				case strings.Contains(e, "block at height"):
					return "err-noblock"
				case strings.Contains(e, "consensus params"):
					return "err-params"
				case strings.Contains(e, "failed to save"):
					return "err-save"
				}
				return "err-load"
			}
			st, err := w.store.Load()
			if err != nil {
				return "err-load-state"
			}
			w.st = &st
			if len(w.hist) > 1 {
				w.hist = w.hist[:len(w.hist)-1]
			}
			return fmt.Sprintf("ok h=%d lhc=%d cur=%s next=%s", st.LastBlockHeight, st.LastHeightValidatorsChanged, showSet(st.Validators), showSet(st.NextValidators))
		})
		if strings.HasPrefix(r, "PANIC:") {
			return "panic"
		}
		return r
	case "bootstrap":
		if len(f) != 1 {
			return "bad-op"
		}
		if w.st == nil || w.st.LastBlockHeight < 1 {
			return "bad-op"
		}
		return try(func() string {
			st2 := w.st.Copy()
			st2.LastHeightValidatorsChanged = st2.LastBlockHeight + 2
			db := dbm.NewMemDB()
			store := sm.NewStore(db, sm.StoreOptions{})
			if err := store.Bootstrap(st2); err != nil {
				return "err-bootstrap"
			}
			w.db.Close()
			w.db, w.store, w.st = db, store, &st2
			w.hist = []sm.State{st2}
			return fmt.Sprintf("ok base=%d", st2.LastBlockHeight)
		})
	case "block":
		l, ok := parseVals(m["ch"], false)
		if !ok || w.st == nil {
			return "bad-op"
		}
		for _, v := range l {
			if keyByAddr[v.addr] == nil {
				return "bad-op"
			}
		}
		h := w.st.LastBlockHeight + 1
		if w.st.LastBlockHeight == 0 {
			h = w.st.InitialHeight
		}
		r := try(func() string {
			hdr := &types.Header{Height: h, Time: time.Unix(1+h, 0).UTC()}
			resp := &tmstate.ABCIResponses{BeginBlock: &abci.ResponseBeginBlock{}, EndBlock: &abci.ResponseEndBlock{}}
			st2, err := sm.VerifUpdateState(*w.st, types.BlockID{}, hdr, resp, toValidators(l))
			if err != nil {
				return "err-" + errClass(err.Error(), l)
			}
			if err := w.store.Save(st2); err != nil {
				return "err-save"
			}
			w.st = &st2
			w.hist = append(w.hist, st2)
			return fmt.Sprintf("ok h=%d lhc=%d next=%s", h, st2.LastHeightValidatorsChanged, showSet(st2.NextValidators))
		})
		if strings.HasPrefix(r, "PANIC:") {
			if strings.Contains(r, "Total voting power should be guarded") {
				return "err-panic-total"
			}
			return "panic"
		}
		return r
	case "load":
		h, err := strconv.ParseInt(m["h"], 10, 64)
		if err != nil {
			return "bad-op"
		}
		if w.store == nil {
			return "err-novalset"
		}
		r := try(func() string {
			vs, err := w.store.LoadValidators(h)
			if err != nil {
				switch {
				case strings.Contains(err.Error(), "could not find validator set for height"):
					return "err-novalset"
				case strings.Contains(err.Error(), "couldn't find validators at height"):
					return "err-notfound"
				}
				return "err-proto"
			}
			return "ok " + showSet(vs)
		})
		if strings.HasPrefix(r, "PANIC:") {
			return "panic"
		}
		return r
	case "prune":
		a, err1 := strconv.ParseInt(m["from"], 10, 64)
		b, err2 := strconv.ParseInt(m["to"], 10, 64)
		if err1 != nil || err2 != nil || new(big.Int).Sub(big.NewInt(b), big.NewInt(a)).Cmp(big.NewInt(300000)) > 0 {
			return "bad-op"
		}
		if w.store == nil {
			if a <= 0 || b <= 0 || a >= b {
				return "err-args"
			}
			return "err-novals"
		}
		r := try(func() string {
			err := w.store.PruneStates(a, b)
			if err == nil {
				return "ok"
			}
			s := err.Error()
			switch {
			case strings.Contains(s, "must be greater than 0"), strings.Contains(s, "must be lower than"):
				return "err-args"
			case strings.HasPrefix(s, "validators at height"):
				return "err-novals"
			case strings.HasPrefix(s, "consensus params at height"):
				return "err-noparams"
			}
			return "err-load"
		})
		if strings.HasPrefix(r, "PANIC:") {
			return "panic"
		}
		return r
	case "info":
		a, err1 := strconv.ParseInt(m["from"], 10, 64)
		n, err2 := strconv.ParseUint(m["n"], 10, 32)
		if err1 != nil || err2 != nil || n > 64 {
			return "bad-op"
		}
		parts := make([]string, n)
		for i := range parts {
			parts[i] = "."
			if w.db == nil {
				continue
			}
			bz, err := w.db.Get(sm.VerifValidatorsKey(a + int64(i)))
			if err != nil || len(bz) == 0 {
				continue
			}
			var vi tmstate.ValidatorsInfo
			if err := vi.Unmarshal(bz); err != nil {
				parts[i] = "corrupt"
				continue
			}
			if vi.ValidatorSet == nil {
				parts[i] = fmt.Sprintf("p%d", vi.LastHeightChanged)
			} else {
				parts[i] = fmt.Sprintf("s%d", vi.LastHeightChanged)
			}
		}
		return "info " + strings.Join(parts, " ")
	}
	return "bad-op"
}

func execCase(c core.Case) []string {
	w := &world{}
	out := make([]string, 0, len(c.Ops))
	for _, op := range c.Ops {
		out = append(out, w.op(op))
	}
	if w.db != nil {
		w.db.Close()
	}
	return out
}

// ---------------------------------------------------------------------------------------------
// property oracle (reference: address→power map + exact big-integer weighted round-robin)

type rv struct {
	addr        string
	power, prio *big.Int
}

type rset struct {
	vals []rv
	prop *rv
}

func parseSetOut(s string) (*rset, bool) {
	i := strings.Index(s, ";prop=")
	vs := s
	var prop string
	if i >= 0 {
		vs, prop = s[:i], s[i+6:]
	}
	one := func(t string) (rv, bool) {
		f := strings.Split(t, ":")
		if len(f) != 3 {
			return rv{}, false
		}
		p, ok1 := new(big.Int).SetString(f[1], 10)
		q, ok2 := new(big.Int).SetString(f[2], 10)
		return rv{f[0], p, q}, ok1 && ok2
	}
	r := &rset{}
	if vs != "-" {
		for _, t := range strings.Split(vs, ",") {
			v, ok := one(t)
			if !ok {
				return nil, false
			}
			r.vals = append(r.vals, v)
		}
	}
	if prop != "" && prop != "-" {
		v, ok := one(prop)
		if !ok {
			return nil, false
		}
		r.prop = &v
	}
	return r, true
}

func (s *rset) String() string {
	p := make([]string, len(s.vals))
	for i, v := range s.vals {
		p[i] = fmt.Sprintf("%s:%v:%v", v.addr, v.power, v.prio)
	}
	q := "-"
	if s.prop != nil {
		q = fmt.Sprintf("%s:%v:%v", s.prop.addr, s.prop.power, s.prop.prio)
	}
	return strings.Join(p, ",") + ";prop=" + q
}

func (s *rset) clone() *rset {
	c := &rset{}
	for _, v := range s.vals {
		c.vals = append(c.vals, rv{v.addr, new(big.Int).Set(v.power), new(big.Int).Set(v.prio)})
	}
	return c
}

func (s *rset) total() *big.Int {
	t := new(big.Int)
	for _, v := range s.vals {
		t.Add(t, v.power)
	}
	return t
}

// refNormalize: the specified rescale (divide by ceil(spread/2T), toward zero) and centring
// (subtract floor(avg)).
func (s *rset) refNormalize() {
	T := s.total()
	w := new(big.Int).Mul(big.NewInt(2), T)
	if w.Sign() > 0 && len(s.vals) > 0 {
		mx, mn := new(big.Int).Set(s.vals[0].prio), new(big.Int).Set(s.vals[0].prio)
		for _, v := range s.vals {
			if v.prio.Cmp(mx) > 0 {
				mx.Set(v.prio)
			}
			if v.prio.Cmp(mn) < 0 {
				mn.Set(v.prio)
			}
		}
		d := new(big.Int).Sub(mx, mn)
		if d.Cmp(w) > 0 {
			ratio := new(big.Int).Add(d, w)
			ratio.Sub(ratio, big.NewInt(1))
			ratio.Quo(ratio, w)
			for i := range s.vals {
				s.vals[i].prio.Quo(s.vals[i].prio, ratio)
			}
		}
	}
	sum := new(big.Int)
	for _, v := range s.vals {
		sum.Add(sum, v.prio)
	}
	avg := new(big.Int).Div(sum, big.NewInt(int64(len(s.vals)))) // Euclidean = floor for n>0
	for i := range s.vals {
		s.vals[i].prio.Sub(s.vals[i].prio, avg)
	}
}

func (s *rset) refStep() {
	T := s.total()
	best := -1
	for i := range s.vals {
		s.vals[i].prio.Add(s.vals[i].prio, s.vals[i].power)
		if best < 0 {
			best = i
			continue
		}
		c := s.vals[i].prio.Cmp(s.vals[best].prio)
		if c > 0 || (c == 0 && s.vals[i].addr < s.vals[best].addr) {
			best = i
		}
	}
	s.vals[best].prio.Sub(s.vals[best].prio, T)
	p := s.vals[best]
	s.prop = &rv{p.addr, new(big.Int).Set(p.power), new(big.Int).Set(p.prio)}
}

// refIncrement: one call of the specified IncrementProposerPriority(k).
func refIncrement(s *rset, k int) *rset {
	c := s.clone()
	c.refNormalize()
	for i := 0; i < k; i++ {
		c.refStep()
	}
	return c
}

func sameVals(a, b *rset, withPrio bool) bool {
	if len(a.vals) != len(b.vals) {
		return false
	}
	for i := range a.vals {
		if a.vals[i].addr != b.vals[i].addr || a.vals[i].power.Cmp(b.vals[i].power) != 0 {
			return false
		}
		if withPrio && a.vals[i].prio.Cmp(b.vals[i].prio) != 0 {
			return false
		}
	}
	return true
}

func sameSet(a, b *rset) bool {
	if !sameVals(a, b, true) || (a.prop == nil) != (b.prop == nil) {
		return false
	}
	return a.prop == nil || (a.prop.addr == b.prop.addr && a.prop.power.Cmp(b.prop.power) == 0 && a.prop.prio.Cmp(b.prop.prio) == 0)
}

var (
	bigMaxTotal = big.NewInt(types.MaxTotalVotingPower)
	bigMaxI64   = new(big.Int).SetInt64(1<<63 - 1)
	bigMinI64   = new(big.Int).SetInt64(-1 << 63)
)

// refBatch decides, from the map view only, whether a batch is applicable and what the
// resulting members are (canonical order).
func refBatch(prev *rset, batch []pv, allowDeletes bool) (ok bool, members []rv) {
	cur := map[string]*big.Int{}
	for _, v := range prev.vals {
		cur[v.addr] = v.power
	}
	seen := map[string]bool{}
	for _, b := range batch {
		if seen[b.addr] || b.power < 0 || b.power > maxTotal {
			return false, nil
		}
		seen[b.addr] = true
	}
	for _, b := range batch {
		if b.power == 0 {
			if !allowDeletes {
				return false, nil
			}
			if _, in := cur[b.addr]; !in {
				return false, nil
			}
		}
	}
	for _, b := range batch {
		if b.power == 0 {
			delete(cur, b.addr)
		} else {
			cur[b.addr] = big.NewInt(b.power)
		}
	}
	if len(cur) == 0 {
		return false, nil
	}
	t := new(big.Int)
	for a, p := range cur {
		t.Add(t, p)
		members = append(members, rv{a, p, nil})
	}
	if t.Cmp(bigMaxTotal) > 0 {
		return false, nil
	}
	sort.Slice(members, func(i, j int) bool {
		if c := members[i].power.Cmp(members[j].power); c != 0 {
			return c > 0
		}
		return members[i].addr < members[j].addr
	})
	return true, members
}

// refUpdate: the specified result of applying a (valid) batch, priorities included, in exact
// integer arithmetic: existing validators keep their priority, a NEW validator enters with
// -(P + floor(P/8)) where P is the total power with the updates applied but before the removals;
// then rescale into the window 2*total', centre, canonical order.
func refUpdate(prev *rset, batch []pv) *rset {
	type ent struct{ power, prio *big.Int }
	cur := map[string]*ent{}
	P := new(big.Int)
	for _, v := range prev.vals {
		cur[v.addr] = &ent{new(big.Int).Set(v.power), new(big.Int).Set(v.prio)}
		P.Add(P, v.power)
	}
	for _, b := range batch {
		if b.power == 0 {
			continue
		}
		if e, ok := cur[b.addr]; ok {
			P.Sub(P, e.power)
		}
		P.Add(P, big.NewInt(b.power))
	}
	pen := new(big.Int).Add(P, new(big.Int).Div(P, big.NewInt(8)))
	pen.Neg(pen)
	for _, b := range batch {
		if b.power == 0 {
			delete(cur, b.addr)
		} else if e, ok := cur[b.addr]; ok {
			e.power = big.NewInt(b.power)
		} else {
			cur[b.addr] = &ent{big.NewInt(b.power), new(big.Int).Set(pen)}
		}
	}
	out := &rset{}
	for a, e := range cur {
		out.vals = append(out.vals, rv{a, e.power, e.prio})
	}
	sort.Slice(out.vals, func(i, j int) bool { return out.vals[i].addr < out.vals[j].addr })
	if len(out.vals) > 0 {
		out.refNormalize()
	}
	sort.SliceStable(out.vals, func(i, j int) bool {
		if c := out.vals[i].power.Cmp(out.vals[j].power); c != 0 {
			return c > 0
		}
		return out.vals[i].addr < out.vals[j].addr
	})
	return out
}

// prioFinding classifies a difference between the specified and the observed priorities after
// an update.
func prioFinding(where string, prev *rset, batch []pv, want, got *rset) core.Finding {
	fp := where + ".priorities-differ-from-specification"
	old := map[string]bool{}
	for _, v := range prev.vals {
		old[v.addr] = true
	}
	for i, v := range got.vals {
		if !old[v.addr] && i < len(want.vals) && want.vals[i].addr == v.addr && v.prio.Cmp(want.vals[i].prio) != 0 {
			fp = where + ".new-validator-priority-not-minus-1.125-total"
			if v.prio.Sign() > 0 && want.vals[i].prio.Sign() < 0 {
				fp = where + ".new-validator-priority-overflowed"
			}
			break
		}
	}
	return core.Finding{Fingerprint: fp, Desc: fmt.Sprintf("batch %s on %s: specified %s, got %s", fmtPV(batch), prev, want, got)}
}

func trunc(s string, n int) string {
	if len(s) > n {
		return s[:n] + "…"
	}
	return s
}

func fmtPV(l []pv) string {
	p := make([]string, len(l))
	for i, v := range l {
		p[i] = fmt.Sprintf("%s:%d", v.addr, v.power)
	}
	return strings.Join(p, ",")
}

func checkWellformed(where string, s *rset, afterUpdate bool) []core.Finding {
	var fs []core.Finding
	add := func(fp, d string) { fs = append(fs, core.Finding{Fingerprint: where + "." + fp, Desc: d + ": " + s.String()}) }
	if len(s.vals) == 0 {
		add("empty-set", "validator set became empty")
		return fs
	}
	seen := map[string]bool{}
	for i, v := range s.vals {
		if seen[v.addr] {
			add("duplicate-address", "duplicate address in set")
		}
		seen[v.addr] = true
		if v.power.Sign() <= 0 {
			add("zero-power-member", "member with non-positive power")
		}
		if i > 0 {
			p := s.vals[i-1]
			if c := p.power.Cmp(v.power); c < 0 || (c == 0 && p.addr >= v.addr) {
				add("not-canonical-order", "validators not sorted by power desc, address asc")
			}
		}
		if v.prio.Cmp(bigMaxI64) >= 0 || v.prio.Cmp(bigMinI64) <= 0 {
			add("priority-clipped", "a priority sits at the int64 limit")
		}
	}
	T := s.total()
	if T.Cmp(bigMaxTotal) > 0 {
		add("total-exceeds-limit", "total voting power above MaxTotalVotingPower")
	}
	if afterUpdate {
		mx, mn, sum := new(big.Int).Set(s.vals[0].prio), new(big.Int).Set(s.vals[0].prio), new(big.Int)
		for _, v := range s.vals {
			if v.prio.Cmp(mx) > 0 {
				mx.Set(v.prio)
			}
			if v.prio.Cmp(mn) < 0 {
				mn.Set(v.prio)
			}
			sum.Add(sum, v.prio)
		}
		if new(big.Int).Sub(mx, mn).Cmp(new(big.Int).Mul(big.NewInt(2), T)) > 0 {
			add("spread-exceeds-window", "priority spread above 2*total right after an update")
		}
		if sum.Sign() < 0 || sum.Cmp(big.NewInt(int64(len(s.vals)))) >= 0 {
			add("not-centred", "sum of priorities outside [0,n) right after centring")
		}
	}
	return fs
}

func oracle(c core.Case, out []string) []core.Finding {
	var fs []core.Finding
	var cur *rset                // set-level receiver as last printed
	truth := map[int64]*rset{}   // recorded set in force at each height (store stream)
	var base, tip int64 = 0, -1 // retained range for the store stream
	var ih int64
	rawSeen := false
	// Rollback bookkeeping: last-change height of the current state and the range of heights whose
	// records Rollback may have damaged (known finding)
	var curLhc, taintFrom, taintTo int64 = 0, 0, 0
	// proportional turns: window of single rotations without a rescale (reset on any other op)
	winK := int64(0)
	winCnt := map[string]int64{}
	resetWin := func() { winK = 0; winCnt = map[string]int64{} }
	for i, op := range c.Ops {
		if !strings.HasPrefix(op, "incr n=1") || op != "incr n=1" {
			resetWin()
		}
		if i >= len(out) {
			break
		}
		o := out[i]
		m := kv(op)
		switch strings.Fields(op)[0] {
		case "new":
			if strings.HasPrefix(o, "ok ") {
				s, ok := parseSetOut(o[3:])
				if !ok {
					continue
				}
				cur = s
				rawSeen = false
				l, _ := parseVals(m["v"], false)
				okRef, members := refBatch(&rset{}, l, false)
				if len(l) == 0 {
					continue
				}
				if !okRef {
					fs = append(fs, core.Finding{Fingerprint: "valset.NewValidatorSet.accepts-invalid-list", Desc: "NewValidatorSet accepted " + m["v"]})
					continue
				}
				if !sameVals(&rset{vals: members}, s, false) {
					fs = append(fs, core.Finding{Fingerprint: "valset.NewValidatorSet.members-differ-from-map", Desc: "got " + s.String()})
				} else if want := refIncrement(refUpdate(&rset{}, l), 1); !sameSet(want, s) {
					fs = append(fs, core.Finding{Fingerprint: "valset.NewValidatorSet.priorities-differ-from-specification", Desc: "want " + want.String() + " got " + s.String()})
				}
				fs = append(fs, checkWellformed("valset.NewValidatorSet", s, false)...)
			} else if strings.HasPrefix(o, "panic-") {
				l, _ := parseVals(m["v"], false)
				if okRef, _ := refBatch(&rset{}, l, false); okRef {
					fs = append(fs, core.Finding{Fingerprint: "valset.NewValidatorSet.rejects-valid-list", Desc: o + " for " + m["v"]})
				}
			}
		case "raw":
			if strings.HasPrefix(o, "ok ") {
				if s, ok := parseSetOut(o[3:]); ok {
					cur = s
					rawSeen = true // hostile priorities / zero powers: only order-independence and atomicity are judged
				}
			}
		case "upd":
			if cur == nil || o == "bad-op" {
				continue
			}
			f := strings.Fields(o)
			if len(f) < 2 {
				continue
			}
			after, ok := parseSetOut(f[1])
			if !ok {
				continue
			}
			if len(f) > 2 && f[2] == "alt=differs" {
				fs = append(fs, core.Finding{Fingerprint: "valset.UpdateWithChangeSet.order-dependent", Desc: "batch " + m["ch"] + " and its permutation " + m["alt"] + " give different results"})
			}
			l, _ := parseVals(m["ch"], false)
			if strings.HasPrefix(f[0], "err-") {
				if !sameVals(cur, after, true) {
					fs = append(fs, core.Finding{Fingerprint: "valset.UpdateWithChangeSet.error-mutates-set", Desc: o + " but the set changed from " + cur.String()})
				}
				if okRef, _ := refBatch(cur, l, true); okRef && len(l) > 0 && !rawSeen {
					fs = append(fs, core.Finding{Fingerprint: "valset.UpdateWithChangeSet.rejects-valid-batch", Desc: o + " for " + m["ch"] + " on " + cur.String()})
				}
				after.prop = cur.prop
				cur = after
				continue
			}
			if len(l) > 0 && !rawSeen {
				okRef, members := refBatch(cur, l, true)
				if !okRef {
					fs = append(fs, core.Finding{Fingerprint: "valset.UpdateWithChangeSet.accepts-invalid-batch", Desc: "accepted " + m["ch"] + " on " + cur.String()})
				} else if !sameVals(&rset{vals: members}, after, false) {
					fs = append(fs, core.Finding{Fingerprint: "valset.UpdateWithChangeSet.members-differ-from-map", Desc: "batch " + m["ch"] + " on " + cur.String() + " gave " + after.String()})
				} else if want := refUpdate(cur, l); !sameVals(want, after, true) {
					fs = append(fs, prioFinding("valset.UpdateWithChangeSet", cur, l, want, after))
				}
				fs = append(fs, checkWellformed("valset.UpdateWithChangeSet", after, true)...)
			}
			after.prop = cur.prop
			cur = after
		case "incr":
			if cur == nil || !strings.HasPrefix(o, "ok ") {
				continue
			}
			s, ok := parseSetOut(o[3:])
			if !ok {
				continue
			}
			n, _ := strconv.Atoi(m["n"])
			if !rawSeen {
				want := refIncrement(cur, n)
				if !sameSet(want, s) {
					fp := "valset.IncrementProposerPriority.differs-from-weighted-round-robin"
					if want.prop != nil && s.prop != nil && want.prop.addr != s.prop.addr {
						fp = "valset.IncrementProposerPriority.wrong-proposer"
					}
					fs = append(fs, core.Finding{Fingerprint: fp, Desc: fmt.Sprintf("incr %d on %s: want %s got %s", n, cur, want, s)})
				}
				fs = append(fs, checkWellformed("valset.IncrementProposerPriority", s, false)...)
				// turns proportional to power: in a window of k single rotations in which no rescale
				// triggered, |k*power_i - turns_i*total| <= 5*total (Lean: turns_proportional_no_rescale)
				if n == 1 && s.prop != nil {
					T := cur.total()
					mx, mn := new(big.Int).Set(cur.vals[0].prio), new(big.Int).Set(cur.vals[0].prio)
					for _, v := range cur.vals {
						if v.prio.Cmp(mx) > 0 {
							mx.Set(v.prio)
						}
						if v.prio.Cmp(mn) < 0 {
							mn.Set(v.prio)
						}
					}
					if new(big.Int).Sub(mx, mn).Cmp(new(big.Int).Mul(big.NewInt(2), T)) > 0 {
						resetWin() // this rotation rescaled first
					} else {
						winK++
						winCnt[s.prop.addr]++
						lim := new(big.Int).Mul(big.NewInt(5), T)
						for _, v := range s.vals {
							d := new(big.Int).Mul(big.NewInt(winK), v.power)
							d.Sub(d, new(big.Int).Mul(big.NewInt(winCnt[v.addr]), T))
							if d.Abs(d).Cmp(lim) > 0 {
								fs = append(fs, core.Finding{Fingerprint: "valset.rotation.turns-not-proportional",
									Desc: fmt.Sprintf("after %d rotations validator %s (power %v of %v) had %d turns", winK, v.addr, v.power, T, winCnt[v.addr])})
								resetWin()
								break
							}
						}
					}
				}
			}
			cur = s
		case "rpcvals":
			// the set reported for height h is the one that decides h
			f := strings.Fields(o)
			if len(f) != 3 || f[0] != "ok" {
				continue
			}
			L, err := strconv.ParseInt(strings.TrimPrefix(f[1], "h="), 10, 64)
			got, ok := parseSetOut(f[2])
			want := truth[L]
			if err != nil || !ok || want == nil || L < base || L > tip {
				continue
			}
			if taintFrom > 0 && L >= taintFrom && (taintTo == 0 || L < taintTo) {
				continue // judged by the load ops (known Rollback finding)
			}
			if !sameVals(want, got, true) {
				fp := "rpc.Validators.reported-height-has-another-set"
				if sameVals(want, got, false) {
					fp = "rpc.Validators.reported-height-has-other-priorities"
				}
				fs = append(fs, core.Finding{Fingerprint: fp, Desc: fmt.Sprintf("/validators (%s) answers height %d with %s, the chain had %s", op, L, got, want)})
			}
		case "rollback":
			if !strings.HasPrefix(o, "ok ") {
				continue
			}
			f := strings.Fields(o)
			if len(f) != 5 {
				continue
			}
			rh, _ := strconv.ParseInt(strings.TrimPrefix(f[1], "h="), 10, 64)
			newLhc, _ := strconv.ParseInt(strings.TrimPrefix(f[2], "lhc="), 10, 64)
			cs, ok1 := parseSetOut(strings.TrimPrefix(f[3], "cur="))
			ns, ok2 := parseSetOut(strings.TrimPrefix(f[4], "next="))
			if ok1 && ok2 {
				// a set that an earlier Rollback took from a damaged LoadValidators is the known finding
				tainted := func(q int64) bool { return taintFrom > 0 && q >= taintFrom && (taintTo == 0 || q < taintTo) }
				known := "state.Rollback.last-change-height-clamped-one-too-low"
				if t := truth[rh+1]; t != nil && !sameSet(t, cs) {
					fp := "state.Rollback.validators-not-restored"
					if tainted(rh + 1) {
						fp = known
					}
					fs = append(fs, core.Finding{Fingerprint: fp, Desc: "Rollback: Validators: want " + t.String() + " got " + cs.String()})
				}
				if t := truth[rh+2]; t != nil && !sameSet(t, ns) {
					fp := "state.Rollback.next-validators-not-restored"
					if tainted(rh + 2) {
						fp = known
					}
					fs = append(fs, core.Finding{Fingerprint: fp, Desc: "Rollback: NextValidators: want " + t.String() + " got " + ns.String()})
				}
			}
			if curLhc > rh+1 {
				// the set of height rh+2 last changed above rh+1, but Rollback records rh+1: the record at
				// rh+2 is overwritten by a pointer to a height that does not hold that set
				if taintFrom == 0 || rh+2 < taintFrom {
					taintFrom = rh + 2
				}
				taintTo = 0
			}
			tip = rh + 2
			curLhc = newLhc
		case "bootstrap":
			if strings.HasPrefix(o, "ok base=") {
				b, _ := strconv.ParseInt(strings.TrimPrefix(o, "ok base="), 10, 64)
				if taintFrom > 0 && (taintTo == 0 || b < taintTo) && b+2 >= taintFrom {
					// the state being bootstrapped was rebuilt by a Rollback that read its sets through the
					// damaged records: the sets Bootstrap writes for heights b..b+2 are still the known
					// finding's, in a fresh store (seen in the thorough tier: rollback, blocks, rollback,
					// bootstrap, load)
					if taintFrom < b {
						taintFrom = b
					}
					taintTo = b + 3
					curLhc = 0
				} else {
					curLhc, taintFrom, taintTo = 0, 0, 0
				}
				base = b // the fresh store holds height-1 .. height+1 of the bootstrapped state
			}
		case "genesis", "handshake":
			if !strings.HasPrefix(o, "ok ") {
				continue
			}
			parts := strings.Split(o[3:], " / ")
			if len(parts) != 2 {
				continue
			}
			a, ok1 := parseSetOut(parts[0])
			b, ok2 := parseSetOut(parts[1])
			if !ok1 || !ok2 {
				continue
			}
			ih, _ = strconv.ParseInt(m["ih"], 10, 64)
			truth = map[int64]*rset{ih: a, ih + 1: b}
			base, tip = ih, ih+1
			curLhc, taintFrom, taintTo = ih, 0, 0
			where := "state.MakeGenesisState"
			src, _ := parseVals(m["v"], false)
			if strings.Fields(op)[0] == "handshake" {
				where = "consensus.Handshaker.genesis"
				if iv, _ := parseVals(m["iv"], false); len(iv) > 0 {
					src = iv // the application's list replaces the genesis one
				}
			}
			fs = append(fs, checkWellformed(where, a, false)...)
			// the first set is NewValidatorSet(list) as specified; the next one is ONE rotation ahead
			if okRef, _ := refBatch(&rset{}, src, false); okRef {
				if want := refIncrement(refUpdate(&rset{}, src), 1); !sameSet(want, a) {
					fs = append(fs, core.Finding{Fingerprint: where + ".first-set-differs-from-specification", Desc: "got " + a.String() + " want " + want.String()})
				}
			} else {
				fs = append(fs, core.Finding{Fingerprint: where + ".accepts-invalid-list", Desc: "accepted " + fmtPV(src)})
			}
			if want := refIncrement(a, 1); !sameSet(want, b) {
				fs = append(fs, core.Finding{Fingerprint: where + ".next-not-one-rotation", Desc: "next " + b.String() + " want " + want.String()})
			}
		case "block":
			if !strings.HasPrefix(o, "ok ") {
				continue
			}
			f := strings.Fields(o)
			if len(f) != 4 {
				continue
			}
			h, _ := strconv.ParseInt(strings.TrimPrefix(f[1], "h="), 10, 64)
			s, ok := parseSetOut(strings.TrimPrefix(f[3], "next="))
			if !ok {
				continue
			}
			prev := truth[h+1]
			truth[h+2] = s
			tip = h + 2
			curLhc, _ = strconv.ParseInt(strings.TrimPrefix(f[2], "lhc="), 10, 64)
			if taintFrom > 0 && taintTo == 0 && (curLhc == h+2 || (h+2)%100000 == 0) {
				taintTo = h + 2 // a full record again: later heights no longer depend on the damaged pointer
			}
			fs = append(fs, checkWellformed("state.updateState", s, false)...)
			if l, _ := parseVals(m["ch"], false); len(l) == 0 && prev != nil {
				if want := refIncrement(prev, 1); !sameSet(want, s) {
					fs = append(fs, core.Finding{Fingerprint: "state.updateState.next-not-one-rotation", Desc: "next " + s.String() + " want " + want.String()})
				}
			} else if prev != nil {
				if okRef, members := refBatch(prev, l, true); !okRef {
					fs = append(fs, core.Finding{Fingerprint: "state.updateState.accepts-invalid-batch", Desc: "accepted " + m["ch"]})
				} else if !sameVals(&rset{vals: members}, s, false) {
					fs = append(fs, core.Finding{Fingerprint: "state.updateState.members-differ-from-map", Desc: "got " + s.String()})
				} else if wu := refUpdate(prev, l); !sameSet(refIncrement(wu, 1), s) {
					f := prioFinding("state.updateState", prev, l, refIncrement(wu, 1), s)
					fs = append(fs, f)
				}
			}
		case "prune":
			if o == "ok" {
				to, _ := strconv.ParseInt(m["to"], 10, 64)
				if to > base {
					base = to
				}
			}
		case "load":
			h, err := strconv.ParseInt(m["h"], 10, 64)
			if err != nil || truth[h] == nil || h < base || h > tip {
				continue
			}
			want := truth[h]
			if taintFrom > 0 && h >= taintFrom && (taintTo == 0 || h < taintTo) {
				got, ok := parseSetOut(strings.TrimPrefix(o, "ok "))
				if !strings.HasPrefix(o, "ok ") || !ok || !sameSet(want, got) {
					fs = append(fs, core.Finding{Fingerprint: "state.Rollback.last-change-height-clamped-one-too-low",
						Desc: fmt.Sprintf("after a Rollback over a validator change LoadValidators(%d) (retained, in [%d,%d]) gives %s, chain had %s", h, base, tip, trunc(o, 120), want)})
				}
				continue
			}
			if !strings.HasPrefix(o, "ok ") {
				fs = append(fs, core.Finding{Fingerprint: "store.LoadValidators.retained-height-not-loadable", Desc: fmt.Sprintf("height %d in [%d,%d]: %s", h, base, tip, o)})
				continue
			}
			got, ok := parseSetOut(o[3:])
			if !ok || sameSet(want, got) {
				continue
			}
			if !sameVals(want, got, false) {
				fs = append(fs, core.Finding{Fingerprint: "store.LoadValidators.wrong-members", Desc: fmt.Sprintf("height %d: want %s got %s", h, want, got)})
				continue
			}
			// same members, different priorities/proposer: is it explained by ONE k-step increment
			// of an earlier recorded set (instead of k single increments)?
			explained := false
			for ls := h - 2; ls >= ih && ls >= h-200 && !explained; ls-- {
				if t := truth[ls]; t != nil && sameVals(t, want, false) && sameSet(refIncrement(t, int(h-ls)), got) {
					explained = true
				}
			}
			fp := "store.LoadValidators.wrong-priorities"
			if explained {
				fp = "store.LoadValidators.one-shot-increment-differs-from-chain"
				if want.prop != nil && got.prop != nil && want.prop.addr != got.prop.addr {
					fp = "store.LoadValidators.one-shot-increment-wrong-proposer"
				}
			}
			fs = append(fs, core.Finding{Fingerprint: fp, Desc: fmt.Sprintf("height %d: chain had %s, LoadValidators returns %s", h, want, got)})
		}
	}
	return fs
}

func main() {
	core.Main(core.Prop{
		ID:     "C08",
		Driver: "c08",
		Gen:    gen,
		Exec:   execCase,
		Oracle: oracle,
		NonTrivial: func(c core.Case, out []string) bool {
			n := 0
			for _, o := range out {
				if strings.HasPrefix(o, "ok") {
					n++
				}
			}
			return n >= 3
		},
		Rule: "set stream: NewValidatorSet / raw sets, update batches over a 12-key + 3 synthetic address alphabet (adds, removals, power changes, extreme powers near MaxTotalVotingPower, duplicates, negatives, missing removals, emptying batches, overflowing totals), each batch also applied in a permuted order to a copy, IncrementProposerPriority(1..3000); store stream: real state store on memdb, genesis at initial heights 1 / small / just below multiples of valSetCheckpointInterval, blocks with and without update batches (skewed powers so rescaling triggers), LoadValidators at every height, PruneStates with valid and invalid ranges, raw record probes. Non-trivial = at least 3 successful operations; distinct by hash of the op list",
		Assumptions: []string{
			"addresses are AddressSize (20) bytes: bytes.Compare is modelled as < on their big-endian value",
			"the Proposer pointer between an UpdateWithChangeSet and the next IncrementProposerPriority is not compared (updateState always increments after an update)",
			"protobuf encoding of a validator set is modelled as the identity on non-empty sets with a proposer",
		},
		Extra: func() map[string]interface{} { return map[string]interface{}{"batch_kinds": batchHist} },
	})
}
