package main

import (
	"fmt"
	"math/rand"
	"strings"

	"verifharness/core"
)

var batchHist = map[string]int{}

var synthAddrs = []string{
	"0000000000000000000000000000000000000001",
	"ffffffffffffffffffffffffffffffffffffffff",
	"00000000000000000000000000000000000000ff",
}

// genPower: small, skewed and extreme powers.
func genPower(r *rand.Rand) int64 {
	switch r.Intn(12) {
	case 0:
		return 1
	case 1:
		return 2
	case 2:
		return int64(1 + r.Intn(5))
	case 3, 4, 5:
		return int64(1 + r.Intn(100))
	case 6:
		return int64(1000 + r.Intn(100000))
	case 7:
		return int64(1) << uint(10+r.Intn(45))
	case 8:
		return maxTotal / int64(1+r.Intn(9))
	case 9:
		return maxTotal - int64(r.Intn(100))
	case 10:
		return maxTotal/2 - int64(r.Intn(3))
	}
	return int64(1 + r.Intn(20))
}

func fmtBatch(l []pv) string {
	if len(l) == 0 {
		return "-"
	}
	s := make([]string, len(l))
	for i, v := range l {
		s[i] = fmt.Sprintf("%s:%d", v.addr, v.power)
	}
	return strings.Join(s, ",")
}

func permuted(r *rand.Rand, l []pv) []pv {
	p := make([]pv, len(l))
	for i, j := range r.Perm(len(l)) {
		p[i] = l[j]
	}
	return p
}

// genBatch builds an update batch against the current membership `members` (addr→power, tracked
// by the generator on the assumption that valid batches succeed; it is only a hint).
func genBatch(r *rand.Rand, pool []string, members map[string]int64) ([]pv, string) {
	var in, outl []string
	for _, a := range pool {
		if _, ok := members[a]; ok {
			in = append(in, a)
		} else {
			outl = append(outl, a)
		}
	}
	var b []pv
	used := map[string]bool{}
	pick := func(l []string) (string, bool) {
		for t := 0; t < 6 && len(l) > 0; t++ {
			a := l[r.Intn(len(l))]
			if !used[a] {
				used[a] = true
				return a, true
			}
		}
		return "", false
	}
	kind := "mixed"
	n := 1 + r.Intn(4)
	for i := 0; i < n; i++ {
		switch r.Intn(6) {
		case 0, 1: // add
			if a, ok := pick(outl); ok {
				b = append(b, pv{addr: a, power: genPower(r)})
			}
		case 2: // remove
			if a, ok := pick(in); ok && len(in) > 1 {
				b = append(b, pv{addr: a, power: 0})
			}
		default: // change
			if a, ok := pick(in); ok {
				b = append(b, pv{addr: a, power: genPower(r)})
			}
		}
	}
	switch r.Intn(24) {
	case 0: // duplicate entry
		if len(b) > 0 {
			d := b[r.Intn(len(b))]
			if r.Intn(2) == 0 {
				d.power = genPower(r)
			}
			b = append(b, d)
			kind = "dup"
		}
	case 1:
		if a, ok := pick(pool); ok {
			b = append(b, pv{addr: a, power: -int64(1 + r.Intn(5))})
			kind = "negative"
		}
	case 2:
		if a, ok := pick(pool); ok {
			b = append(b, pv{addr: a, power: maxTotal + 1 + int64(r.Intn(3))})
			kind = "toobig"
		}
	case 3: // remove a non-member
		if a, ok := pick(outl); ok {
			b = append(b, pv{addr: a, power: 0})
			kind = "remove-missing"
		}
	case 4: // remove everybody
		b = nil
		for _, a := range in {
			b = append(b, pv{addr: a, power: 0})
		}
		kind = "remove-all"
	case 5: // push the total over the limit
		if a, ok := pick(pool); ok {
			b = append(b, pv{addr: a, power: maxTotal - int64(r.Intn(3))})
			kind = "huge"
		}
	case 6: // replace the whole set
		b = nil
		for _, a := range in {
			b = append(b, pv{addr: a, power: 0})
		}
		if a, ok := pick(outl); ok {
			b = append(b, pv{addr: a, power: genPower(r)})
		}
		kind = "replace-all"
	case 7:
		b = nil
		kind = "empty"
	case 9, 10: // many powers near the maximum in one batch: the sum of the increases exceeds int64
		b = nil
		cnt := 9 + r.Intn(7)
		for _, i := range r.Perm(len(pool)) {
			if len(b) >= cnt {
				break
			}
			b = append(b, pv{addr: pool[i], power: maxTotal - int64(r.Intn(50))})
		}
		if r.Intn(2) == 0 && len(in) > 0 { // with matching removals / decreases
			for _, a := range in {
				dup := false
				for _, x := range b {
					if x.addr == a {
						dup = true
					}
				}
				if !dup && r.Intn(2) == 0 {
					b = append(b, pv{addr: a, power: 0})
				}
			}
		}
		kind = "many-huge"
	case 8: // swap: remove a huge one and add a huge one (tvp before removals near 2*max)
		kind = "swap-huge"
		var big string
		for _, a := range in {
			if members[a] > maxTotal/4 {
				big = a
			}
		}
		if big != "" && !used[big] {
			if a, ok := pick(outl); ok {
				b = append(b, pv{addr: big, power: 0}, pv{addr: a, power: members[big]})
			}
		}
	}
	batchHist[kind]++
	return b, kind
}

// applyHint updates the generator's membership hint the way a valid batch would.
func applyHint(members map[string]int64, b []pv) {
	seen := map[string]bool{}
	for _, v := range b {
		if seen[v.addr] || v.power < 0 || v.power > maxTotal {
			return
		}
		seen[v.addr] = true
		if v.power == 0 {
			if _, ok := members[v.addr]; !ok {
				return
			}
		}
	}
	nm := map[string]int64{}
	for a, p := range members {
		nm[a] = p
	}
	var tot int64
	for _, v := range b {
		if v.power == 0 {
			delete(nm, v.addr)
		} else {
			nm[v.addr] = v.power
		}
	}
	for _, p := range nm {
		tot += p
		if tot > maxTotal || tot < 0 {
			return
		}
	}
	if len(nm) == 0 {
		return
	}
	for a := range members {
		delete(members, a)
	}
	for a, p := range nm {
		members[a] = p
	}
}

func initialSet(r *rand.Rand, pool []string, skew bool) ([]pv, map[string]int64) {
	n := 1 + r.Intn(5)
	if r.Intn(6) == 0 {
		n = 1 + r.Intn(len(pool))
	}
	members := map[string]int64{}
	var l []pv
	var tot int64
	for _, i := range r.Perm(len(pool))[:n] {
		p := genPower(r)
		if skew {
			p = int64(1 + r.Intn(30))
			if len(l) == 0 {
				p = int64(1000 + r.Intn(100000))
			}
		}
		if tot+p > maxTotal || tot+p < 0 {
			p = 1
		}
		tot += p
		l = append(l, pv{addr: pool[i], power: p})
		members[pool[i]] = p
	}
	return l, members
}

func genSet(r *rand.Rand, emit func(core.Case), n int) {
	pool := append(append([]string{}, keyAddrs[:8]...), synthAddrs...)
	for c := 0; c < n; c++ {
		l, members := initialSet(r, pool, r.Intn(3) == 0)
		ops := []string{"new v=" + fmtBatch(l)}
		if r.Intn(15) == 0 { // hostile constructor input
			b, _ := genBatch(r, pool, map[string]int64{})
			ops = append(ops, "new v="+fmtBatch(b))
			ops = append(ops, "new v="+fmtBatch(l))
		}
		steps := 4 + r.Intn(16)
		for s := 0; s < steps; s++ {
			switch r.Intn(10) {
			case 0, 1, 2, 3:
				b, _ := genBatch(r, pool, members)
				op := "upd ch=" + fmtBatch(b)
				if len(b) > 1 {
					op += " alt=" + fmtBatch(permuted(r, b))
				}
				ops = append(ops, op)
				applyHint(members, b)
				if r.Intn(2) == 0 { // the chain always rotates after an update
					ops = append(ops, "incr n=1")
				}
			case 4, 5, 6, 7:
				k := 1 + r.Intn(4)
				if r.Intn(10) == 0 {
					k = 10 + r.Intn(3000)
				}
				ops = append(ops, fmt.Sprintf("incr n=%d", k))
			case 8:
				ops = append(ops, fmt.Sprintf("incr n=%d", -r.Intn(2)))
			case 9:
				// raw set with hostile priorities (and possibly zero powers)
				var parts []string
				cnt := 1 + r.Intn(4)
				for _, i := range r.Perm(len(pool))[:cnt] {
					pr := int64(r.Intn(2001) - 1000)
					if r.Intn(3) == 0 {
						pr = (r.Int63n(1<<61) + 1) * int64(1-2*r.Intn(2))
					}
					parts = append(parts, fmt.Sprintf("%s:%d:%d", pool[i], int64(r.Intn(50)), pr))
				}
				ops = append(ops, fmt.Sprintf("raw v=%s prop=%d", strings.Join(parts, ","), r.Intn(cnt+1)))
				for a := range members {
					delete(members, a)
				}
				ops = append(ops, fmt.Sprintf("incr n=%d", 1+r.Intn(3)))
			}
		}
		emit(core.Case{Kind: "set", Ops: ops})
	}
}

// sets whose total sits in [Max/2, Max]: validators join, leave and are swapped near the limit
// (the penalty of a newcomer is computed from a total of up to 2*Max: the no-overflow clause).
func nearLimitSet(r *rand.Rand, pool []string) ([]pv, map[string]int64) {
	n := 1 + r.Intn(4)
	target := maxTotal/2 + r.Int63n(maxTotal/2-1000)
	if r.Intn(4) == 0 {
		target = maxTotal - int64(r.Intn(2000))
	}
	members := map[string]int64{}
	var l []pv
	rest := target
	for k, i := range r.Perm(len(pool))[:n] {
		p := rest
		if k < n-1 {
			p = 1 + r.Int63n(rest/2+1)
			if r.Intn(3) == 0 {
				p = int64(1 + r.Intn(1000))
			}
		}
		if p <= 0 {
			p = 1
		}
		rest -= p
		if rest <= 0 {
			rest = 1
		}
		l = append(l, pv{addr: pool[i], power: p})
		members[pool[i]] = p
	}
	return l, members
}

func nearLimitBatch(r *rand.Rand, pool []string, members map[string]int64) []pv {
	var in, outl []string
	var tot int64
	for _, a := range pool {
		if p, ok := members[a]; ok {
			in = append(in, a)
			tot += p
		} else {
			outl = append(outl, a)
		}
	}
	room := maxTotal - tot
	var b []pv
	if len(outl) == 0 {
		return nil
	}
	na := outl[r.Intn(len(outl))]
	np := int64(1 + r.Intn(100))
	if room > 1 && r.Intn(2) == 0 {
		np = 1 + r.Int63n(room)
	}
	switch r.Intn(5) {
	case 0, 1: // plain join
		b = append(b, pv{addr: na, power: np})
	case 2: // join while the biggest member leaves (P before removals up to ~2*Max)
		big := in[0]
		for _, a := range in {
			if members[a] > members[big] {
				big = a
			}
		}
		if len(in) > 1 || true {
			b = append(b, pv{addr: big, power: 0}, pv{addr: na, power: 1 + r.Int63n(members[big]+room)})
		}
	case 3: // join + shrink somebody so that the batch fits
		a := in[r.Intn(len(in))]
		np2 := 1 + r.Int63n(members[a])
		b = append(b, pv{addr: a, power: np2}, pv{addr: na, power: 1 + r.Int63n(members[a]-np2+room+1)})
	case 4: // two joins
		b = append(b, pv{addr: na, power: np})
		if len(outl) > 1 {
			for _, o := range outl {
				if o != na {
					b = append(b, pv{addr: o, power: int64(1 + r.Intn(50))})
					break
				}
			}
		}
	}
	batchHist["near-limit"]++
	return b
}

func genNearLimit(r *rand.Rand, emit func(core.Case), n int) {
	for c := 0; c < n; c++ {
		if c%2 == 0 {
			pool := keyAddrs[:8]
			l, members := nearLimitSet(r, pool)
			ops := []string{"new v=" + fmtBatch(l)}
			for s := 0; s < 3+r.Intn(6); s++ {
				b := nearLimitBatch(r, pool, members)
				if r.Intn(4) == 0 {
					b, _ = genBatch(r, pool, members)
				}
				op := "upd ch=" + fmtBatch(b)
				if len(b) > 1 {
					op += " alt=" + fmtBatch(permuted(r, b))
				}
				ops = append(ops, op, fmt.Sprintf("incr n=%d", 1+r.Intn(3)))
				applyHint(members, b)
			}
			emit(core.Case{Kind: "near-limit-set", Ops: ops})
		} else {
			pool := keyAddrs
			l, members := nearLimitSet(r, pool)
			ih := int64(1 + r.Intn(50))
			ops := []string{fmt.Sprintf("genesis ih=%d v=%s", ih, fmtBatch(l))}
			h := ih
			for s := 0; s < 4+r.Intn(8); s++ {
				var b []pv
				if r.Intn(2) == 0 {
					b = nearLimitBatch(r, pool, members)
				}
				ops = append(ops, "block ch="+fmtBatch(b))
				applyHint(members, b)
				h++
			}
			for q := ih; q <= h+1; q++ {
				ops = append(ops, fmt.Sprintf("load h=%d", q))
			}
			emit(core.Case{Kind: "near-limit-store", Ops: ops})
		}
	}
}

// long rotation windows on a fixed set: turns proportional to power.
func genRotation(r *rand.Rand, emit func(core.Case), n int) {
	pool := keyAddrs[:8]
	for c := 0; c < n; c++ {
		l, _ := initialSet(r, pool, r.Intn(2) == 0)
		ops := []string{"new v=" + fmtBatch(l)}
		k := 20 + r.Intn(120)
		for i := 0; i < k; i++ {
			ops = append(ops, "incr n=1")
		}
		emit(core.Case{Kind: "rotation", Ops: ops})
	}
}

func genStore(r *rand.Rand, emit func(core.Case), n int, thorough bool) {
	pool := keyAddrs
	const I = 100000
	for c := 0; c < n; c++ {
		var ih int64
		switch r.Intn(6) {
		case 0:
			ih = 1
		case 1:
			ih = int64(2 + r.Intn(20))
		case 2, 3:
			ih = I*int64(1+r.Intn(3)) - int64(1+r.Intn(12))
		case 4:
			ih = I * int64(1+r.Intn(2))
		default:
			ih = int64(1 + r.Intn(3*I))
		}
		skew := r.Intn(2) == 0
		l, members := initialSet(r, pool, skew)
		ops := []string{fmt.Sprintf("genesis ih=%d v=%s", ih, fmtBatch(l))}
		if r.Intn(3) == 0 {
			// the node's real handshake; the application's InitChain may return its own validators
			gl := l
			if r.Intn(3) == 0 {
				gl = nil // SDK style: no validators in the genesis file
			}
			var iv []pv
			if r.Intn(4) != 0 || gl == nil {
				iv, members = initialSet(r, pool, skew)
				switch r.Intn(14) {
				case 0:
					iv = append(iv, iv[0])
				case 1:
					iv[0].power = 0
				case 2:
					iv[0].power = -3
				case 3:
					iv = nil
				}
			}
			ops[0] = fmt.Sprintf("handshake ih=%d v=%s iv=%s cp=%d", ih, fmtBatch(gl), fmtBatch(iv), r.Intn(2))
			batchHist["handshake"]++
		}
		blocks := 6 + r.Intn(30)
		bootAt := -1
		if r.Intn(6) == 0 {
			bootAt = 1 + r.Intn(blocks)
		}
		h := ih // height of the next block
		pUpd := 1 + r.Intn(8)
		for b := 0; b < blocks; b++ {
			var batch []pv
			if r.Intn(pUpd) == 0 {
				batch, _ = genBatch(r, pool, members)
				if skew && r.Intn(2) == 0 && len(batch) > 0 {
					// skewed powers keep the spread near the window so later rescales trigger
					for i := range batch {
						if batch[i].power > 0 {
							batch[i].power = int64(1 + r.Intn(40))
							if r.Intn(4) == 0 {
								batch[i].power = int64(10000 + r.Intn(90000))
							}
						}
					}
				}
			}
			ops = append(ops, "block ch="+fmtBatch(batch))
			applyHint(members, batch)
			h++
			if r.Intn(14) == 0 {
				// the operator rolls the last block back; the chain then re-applies a (possibly different) block
				ops = append(ops, "rollback", fmt.Sprintf("load h=%d", h-1), fmt.Sprintf("load h=%d", h), fmt.Sprintf("load h=%d", h+1))
				h--
				batchHist["rollback"]++
			}
			if b == bootAt {
				ops = append(ops, "bootstrap", fmt.Sprintf("load h=%d", h-1), fmt.Sprintf("load h=%d", h), fmt.Sprintf("load h=%d", h+1))
				batchHist["bootstrap"]++
			}
			if r.Intn(12) == 0 {
				ops = append(ops, fmt.Sprintf("load h=%d", h+int64(r.Intn(3))))
			}
			if r.Intn(8) == 0 {
				// the /validators RPC: latest or explicit height, node caught up or block-syncing, the
				// in-memory consensus state possibly some blocks behind the stores
				hs := "-"
				if r.Intn(3) == 0 {
					hs = fmt.Sprint(ih + int64(r.Intn(int(h-ih)+3)) - 1)
				}
				ops = append(ops, fmt.Sprintf("rpcvals h=%s sync=%d lag=%d", hs, r.Intn(2), r.Intn(4)))
				batchHist["rpcvals"]++
			}
			if r.Intn(25) == 0 {
				from := ih + int64(r.Intn(int(h-ih)+1))
				to := from + int64(r.Intn(int(h-from)+2))
				ops = append(ops, fmt.Sprintf("prune from=%d to=%d", from, to))
			}
		}
		// probes: raw records, then every height around the retained range
		ops = append(ops, fmt.Sprintf("info from=%d n=%d", ih-1, min64(h-ih+4, 64)))
		switch r.Intn(4) {
		case 0:
			to := ih + int64(r.Intn(int(h-ih)+2))
			from := ih
			if r.Intn(3) == 0 {
				from = 1
			}
			ops = append(ops, fmt.Sprintf("prune from=%d to=%d", from, to))
			ops = append(ops, fmt.Sprintf("info from=%d n=%d", ih-1, min64(h-ih+4, 64)))
		case 1:
			ops = append(ops, fmt.Sprintf("prune from=%d to=%d", int64(r.Intn(3))-1+ih, ih+int64(r.Intn(4))-1))
		}
		for q := ih - 1; q <= h+2; q++ {
			ops = append(ops, fmt.Sprintf("load h=%d", q))
		}
		if r.Intn(5) == 0 {
			ops = append(ops, "block ch=-", fmt.Sprintf("load h=%d", h+2))
		}
		emit(core.Case{Kind: "store", Ops: ops})
	}
}

func min64(a, b int64) int64 {
	if a < b {
		return a
	}
	return b
}

// hostile / malformed lines (glue): both sides must answer the same.
func genGlue(r *rand.Rand, emit func(core.Case), n int) {
	a := keyAddrs[0]
	lines := []string{
		"upd ch=" + a + ":1", "incr n=1", "load h=5", "prune from=1 to=2", "block ch=-", "info from=1 n=3",
		"new v=" + a + ":1", "new v=-", "new v=" + a, "new v=" + a + ":x", "new v=abcd:1", "new v=" + a + ":1:2",
		"new v=" + a + ":99999999999999999999", "raw v=" + a + ":1:0 prop=0", "raw v=" + a + ":1:0 prop=1", "raw v=" + a + ":1 prop=0",
		"incr n=0", "incr n=-1", "incr n=4294967296", "incr", "upd", "upd ch=-", "upd ch=" + a + ":0", "upd ch=" + a + ":0 alt=zz",
		"genesis ih=0 v=" + a + ":1", "genesis ih=1 v=-", "genesis ih=1 v=" + a + ":0", "genesis ih=1 v=" + a + ":-1", "genesis ih=3 v=" + a + ":5",
		"genesis ih=1 v=" + a + ":5," + a + ":6", "load h=x", "load h=-1", "load h=0", "load h=3", "load h=4", "load h=9223372036854775807",
		"prune from=0 to=5", "prune from=5 to=5", "prune from=3 to=4", "prune from=1 to=900000", "prune from=3 to=5", "info from=-2 n=65", "info from=0 n=8",
		"bootstrap", "bootstrap x=1", "rollback", "rollback now=1", "rpcvals h=- sync=0 lag=0", "rpcvals h=1 sync=1 lag=2",
		"rpcvals h=0 sync=0 lag=0", "rpcvals h=x sync=0 lag=0", "rpcvals h=- sync=2 lag=0", "rpcvals h=-", "rpcvals h=99 sync=0 lag=1", "handshake ih=2 v=- iv=-", "handshake ih=2 v=- iv=" + a + ":4 cp=1", "handshake ih=1 v=" + a + ":3 iv=- cp=0",
		"handshake ih=1 v=" + a + ":3 iv=" + a + ":0", "handshake ih=0 v=- iv=" + a + ":1", "handshake ih=3 v=" + a + ":3",
		"frobnicate", "block ch=" + a + ":0", "block ch=" + a + ":7", "block",
	}
	for c := 0; c < n; c++ {
		k := 3 + r.Intn(12)
		ops := make([]string, k)
		for i := range ops {
			ops[i] = lines[r.Intn(len(lines))]
		}
		emit(core.Case{Kind: "glue", Ops: ops})
	}
}

func gen(r *rand.Rand, tier string, emit func(core.Case)) {
	n := 250
	if tier == "thorough" {
		n = 4000
	}
	genSet(r, emit, n)
	genRotation(r, emit, n/10)
	genNearLimit(r, emit, n/2)
	genStore(r, emit, n, tier == "thorough")
	genGlue(r, emit, n/5)
}
