// C02 correspondence stream ("c01-node" of DESIGN.md): one real consensus.State driven synchronously
// through handleMsg / handleTimeout (build tag verif) vs the Lean node model, plus the C02 oracle
// on what the real node signed.
package main

import (
	"bytes"
	"crypto/sha256"
	"fmt"
	"math/rand"
	"os"
	"sort"
	"strconv"
	"strings"
	"sync"
	"time"

	dbm "github.com/tendermint/tm-db"

	abcicli "github.com/tendermint/tendermint/abci/client"
	"github.com/tendermint/tendermint/abci/example/kvstore"
	cfg "github.com/tendermint/tendermint/config"
	"github.com/tendermint/tendermint/consensus"
	cstypes "github.com/tendermint/tendermint/consensus/types"
	"github.com/tendermint/tendermint/crypto"
	"github.com/tendermint/tendermint/crypto/ed25519"
	"github.com/tendermint/tendermint/libs/bits"
	"github.com/tendermint/tendermint/libs/log"
	tmsync "github.com/tendermint/tendermint/libs/sync"
	mempoolmock "github.com/tendermint/tendermint/mempool/mock"
	"github.com/tendermint/tendermint/p2p"
	"github.com/tendermint/tendermint/privval"
	tmproto "github.com/tendermint/tendermint/proto/tendermint/types"
	sm "github.com/tendermint/tendermint/state"
	"github.com/tendermint/tendermint/store"
	"github.com/tendermint/tendermint/types"

	"verifharness/core"
)

const (
	chainID   = "verif-c02"
	nValid    = 3 // block ids 0..2 are valid (0 = what createProposalBlock yields)
	idInvalid = 3 // a block that fails ValidateBlock
	nPool     = 6 // ids 4,5: block ids nobody has a block for; 0..5 is the pool of the random generators
	nIDs      = 8 // ids 6,7: the HASH of block 1 / 2 with ANOTHER part-set header (only ever voted by a minority)
	maxRounds = 40
)

var genesisTime = time.Unix(1_000_000_000, 0).UTC()

// power configurations (validator-set order: descending power)
var powerSets = [][]int64{
	{1, 1, 1, 1},
	{5, 3, 2, 1},
	{100, 1, 1, 1},
	{8, 4, 2, 1, 1},
	{10, 10, 5, 3, 1, 1},
	{3, 3, 2, 2, 1, 1, 1},
	{4, 3, 3},
	{58617, 17803, 79, 24, 2}, // skewed: priority rescaling is active while rounds are skipped
	{1000, 300, 7, 1},
	{2, 2, 1, 1}, // totals divisible by 3: exactly two thirds is reachable
	{1, 1, 1},
	{6, 3, 2, 1},
}

func kv(op string) map[string]string {
	m := map[string]string{}
	f := strings.Fields(op)
	if len(f) == 0 {
		return m
	}
	for _, t := range f[1:] {
		if i := strings.IndexByte(t, '='); i > 0 {
			m[t[:i]] = t[i+1:]
		}
	}
	return m
}

// ---- world: validators, genesis, blocks (cached per power configuration + self) ----

type world struct {
	powers    []int64
	keys      []crypto.PrivKey // by validator index
	genDoc    *types.GenesisDoc
	state     sm.State
	proposers []int
}

var (
	worldMtx sync.Mutex
	worlds   = map[string]*world{}
)

func powersKey(p []int64) string {
	s := make([]string, len(p))
	for i, x := range p {
		s[i] = strconv.FormatInt(x, 10)
	}
	return strings.Join(s, ",")
}

func prioKey(vs *types.ValidatorSet) string {
	var b strings.Builder
	for _, v := range vs.Validators {
		fmt.Fprintf(&b, "%d,", v.ProposerPriority)
	}
	fmt.Fprintf(&b, "p%X", vs.GetProposer().Address)
	return b.String()
}

func getWorld(powers []int64) *world {
	worldMtx.Lock()
	defer worldMtx.Unlock()
	k := powersKey(powers)
	if w, ok := worlds[k]; ok {
		return w
	}
	n := len(powers)
	gvals := make([]types.GenesisValidator, n)
	keyByAddr := map[string]crypto.PrivKey{}
	for i := 0; i < n; i++ {
		pk := ed25519.GenPrivKeyFromSecret([]byte(fmt.Sprintf("verif-c02-val-%s-%d", k, i)))
		gvals[i] = types.GenesisValidator{PubKey: pk.PubKey(), Power: powers[i]}
		keyByAddr[string(pk.PubKey().Address())] = pk
	}
	gd := &types.GenesisDoc{GenesisTime: genesisTime, ChainID: chainID, InitialHeight: 1, Validators: gvals}
	if err := gd.ValidateAndComplete(); err != nil {
		panic(err)
	}
	st, err := sm.MakeGenesisState(gd)
	if err != nil {
		panic(err)
	}
	w := &world{genDoc: gd, state: st}
	for _, v := range st.Validators.Validators {
		w.powers = append(w.powers, v.VotingPower)
		w.keys = append(w.keys, keyByAddr[string(v.Address)])
	}
	// proposer after k single increments (enterNewRound performs one increment per round, also when
	// rounds are skipped)
	singles := make([]*types.ValidatorSet, maxRounds+1)
	singles[0] = st.Validators.Copy()
	for r := 1; r <= maxRounds; r++ {
		singles[r] = singles[r-1].Copy()
		singles[r].IncrementProposerPriority(1)
	}
	for r := 0; r <= maxRounds; r++ {
		idx, _ := st.Validators.GetByAddress(singles[r].GetProposer().Address)
		w.proposers = append(w.proposers, int(idx))
	}
	worlds[k] = w
	return w
}

type blockInfo struct {
	block *types.Block
	parts *types.PartSet
	id    types.BlockID
}

func makeBlocks(w *world, self int) []blockInfo {
	out := make([]blockInfo, nIDs)
	emptyCommit := types.NewCommit(0, 0, types.BlockID{}, nil)
	for i := 0; i <= idInvalid; i++ {
		var txs []types.Tx
		prop := i % len(w.keys)
		if i == 0 {
			if self >= 0 {
				prop = self
			}
		} else {
			txs = []types.Tx{types.Tx(fmt.Sprintf("k%d=v%d", i, i))}
		}
		b, _ := w.state.MakeBlock(1, txs, emptyCommit, nil, w.keys[prop].PubKey().Address())
		if i == idInvalid {
			b.Header.AppHash = []byte("not the app hash")
		}
		ps := b.MakePartSet(types.BlockPartSizeBytes)
		if ps.Total() != 1 {
			panic("blocks are expected to have one part")
		}
		out[i] = blockInfo{b, ps, types.BlockID{Hash: b.Hash(), PartSetHeader: ps.Header()}}
	}
	for i := idInvalid + 1; i < nPool; i++ {
		h := sha256.Sum256([]byte(fmt.Sprintf("unknown-block-%d", i)))
		h2 := sha256.Sum256([]byte(fmt.Sprintf("unknown-parts-%d", i)))
		out[i] = blockInfo{nil, nil, types.BlockID{Hash: h[:], PartSetHeader: types.PartSetHeader{Total: 1, Hash: h2[:]}}}
	}
	for i := nPool; i < nIDs; i++ { // same hash as block 1 / 2, other parts
		h2 := sha256.Sum256([]byte(fmt.Sprintf("other-parts-%d", i)))
		out[i] = blockInfo{nil, nil, types.BlockID{Hash: out[i-nPool+1].id.Hash, PartSetHeader: types.PartSetHeader{Total: 1, Hash: h2[:]}}}
	}
	return out
}

// ---- recording private validator ----

type recPV struct {
	inner types.PrivValidator
	s     *sim
}

func (p *recPV) GetPubKey() (crypto.PubKey, error) { return p.inner.GetPubKey() }
func (p *recPV) SignVote(chain string, v *tmproto.Vote) error {
	err := p.inner.SignVote(chain, v)
	if err == nil && v.Height == 1 {
		t := "pv"
		if v.Type == tmproto.PrecommitType {
			t = "pc"
		}
		id, _ := types.BlockIDFromProto(&v.BlockID)
		p.s.events = append(p.s.events, fmt.Sprintf("%s(%d,%s)", t, v.Round, p.s.bidName(*id)))
	}
	return err
}
func (p *recPV) SignProposal(chain string, pr *tmproto.Proposal) error {
	err := p.inner.SignProposal(chain, pr)
	if err == nil && pr.Height == 1 {
		id, _ := types.BlockIDFromProto(&pr.BlockID)
		p.s.events = append(p.s.events, fmt.Sprintf("prop(%d,%s,%d)", pr.Round, p.s.bidName(*id), pr.PolRound))
	}
	return err
}

// ---- one simulated node ----

type sim struct {
	w       *world
	self    int
	blocks  []blockInfo
	node    *consensus.VerifNode
	bus     *types.EventBus
	bstore  *store.BlockStore
	dir     string
	events  []string
	halted  bool
	decided string
	sched   [][2]string // timeouts scheduled so far (round, step) – used by the generator
}

var stepNames = map[cstypes.RoundStepType]string{
	cstypes.RoundStepNewHeight: "newHeight", cstypes.RoundStepNewRound: "newRound", cstypes.RoundStepPropose: "propose",
	cstypes.RoundStepPrevote: "prevote", cstypes.RoundStepPrevoteWait: "prevoteWait", cstypes.RoundStepPrecommit: "precommit",
	cstypes.RoundStepPrecommitWait: "precommitWait", cstypes.RoundStepCommit: "commit",
}

func stepByName(s string) (cstypes.RoundStepType, bool) {
	for k, v := range stepNames {
		if v == s {
			return k, true
		}
	}
	return 0, false
}

func (s *sim) bidName(id types.BlockID) string {
	if id.IsZero() {
		return "nil"
	}
	for i, b := range s.blocks {
		if b.id.Equals(id) {
			return strconv.Itoa(i)
		}
	}
	return "?"
}

func (s *sim) blockName(b *types.Block) string {
	if b == nil {
		return "-"
	}
	h := b.Hash()
	for i, x := range s.blocks {
		if bytes.Equal(x.id.Hash, h) {
			return strconv.Itoa(i)
		}
	}
	return "?"
}

func parseInts(s string) ([]int64, bool) {
	if s == "" || s == "-" {
		return nil, true
	}
	var out []int64
	for _, p := range strings.Split(s, ",") {
		x, err := strconv.ParseInt(p, 10, 64)
		if err != nil {
			return nil, false
		}
		out = append(out, x)
	}
	return out, true
}

func cfgLine(w *world, self int, hrs, wait, interval bool) string {
	ps := make([]string, len(w.proposers))
	for i, p := range w.proposers {
		ps[i] = strconv.Itoa(p)
	}
	b := func(x bool) string {
		if x {
			return "1"
		}
		return "0"
	}
	return fmt.Sprintf("cfg n=%d powers=%s self=%d proposers=%s invalid=%d own=0 ids=%d wait=%s needproof=1 interval=%s hrs=%s",
		len(w.powers), powersKey(w.powers), self, strings.Join(ps, ","), idInvalid, nIDs, b(wait), b(interval), b(hrs))
}

func tmpRoot() string {
	if st, err := os.Stat("/dev/shm"); err == nil && st.IsDir() {
		return "/dev/shm"
	}
	return ""
}

// newSim builds the node described by a cfg line; nil if the line is not one this harness can realise.
func newSim(line string) *sim {
	m := kv(line)
	powers, ok := parseInts(m["powers"])
	if !ok || len(powers) == 0 || !sort.SliceIsSorted(powers, func(i, j int) bool { return powers[i] > powers[j] }) {
		return nil
	}
	for _, p := range powers {
		if p <= 0 {
			return nil
		}
	}
	self, err := strconv.Atoi(m["self"])
	if err != nil || self >= len(powers) {
		return nil
	}
	if self < 0 {
		self = -1
	}
	w := getWorld(powers)
	hrs, wait, interval := m["hrs"] == "1", m["wait"] == "1", m["interval"] == "1"
	if line != cfgLine(w, self, hrs, wait, interval) {
		return nil
	}
	s := &sim{w: w, self: self, blocks: makeBlocks(w, self)}

	app := kvstore.NewApplication()
	mtx := new(tmsync.Mutex)
	proxyApp := abcicli.NewLocalClient(mtx, app)
	mp := mempoolmock.Mempool{}
	evpool := sm.EmptyEvidencePool{}
	db := dbm.NewMemDB()
	stateStore := sm.NewStore(db, sm.StoreOptions{DiscardABCIResponses: false})
	if err := stateStore.Save(w.state); err != nil {
		panic(err)
	}
	s.bstore = store.NewBlockStore(dbm.NewMemDB())
	blockExec := sm.NewBlockExecutor(stateStore, log.NewNopLogger(), proxyApp, mp, evpool)
	cc := cfg.TestConsensusConfig()
	cc.SkipTimeoutCommit = false
	if wait {
		cc.CreateEmptyBlocks = false
	}
	if interval {
		cc.CreateEmptyBlocksInterval = time.Second
	}
	cs := consensus.NewState(cc, w.state.Copy(), blockExec, s.bstore, mp, evpool)
	cs.SetLogger(log.NewNopLogger())
	if self >= 0 {
		var inner types.PrivValidator
		if hrs {
			dir, err := os.MkdirTemp(tmpRoot(), "verif-c02-")
			if err != nil {
				panic(err)
			}
			s.dir = dir
			inner = privval.NewFilePV(w.keys[self], dir+"/key.json", dir+"/state.json")
		} else {
			inner = types.NewMockPVWithParams(w.keys[self], false, false)
		}
		cs.SetPrivValidator(&recPV{inner: inner, s: s})
	}
	s.bus = types.NewEventBus()
	s.bus.SetLogger(log.NewNopLogger())
	if err := s.bus.Start(); err != nil {
		panic(err)
	}
	cs.SetEventBus(s.bus)
	s.node = consensus.NewVerifNode(cs, func(t consensus.VerifTimeout) {
		if t.Height == 1 {
			s.events = append(s.events, fmt.Sprintf("to(%d,%s)", t.Round, stepNames[t.Step]))
			s.sched = append(s.sched, [2]string{strconv.Itoa(int(t.Round)), stepNames[t.Step]})
		}
	})
	if self >= 0 {
		b, _ := s.node.CreateProposalBlock()
		if !bytes.Equal(b.Hash(), s.blocks[0].id.Hash) {
			panic("block 0 is not what createProposalBlock yields")
		}
	}
	return s
}

func (s *sim) close() {
	if s == nil {
		return
	}
	if s.bus != nil {
		s.bus.Stop() //nolint:errcheck
	}
	if s.dir != "" {
		os.RemoveAll(s.dir)
	}
}

func peerID(k int) p2p.ID {
	if k == 0 {
		return ""
	}
	return p2p.ID(fmt.Sprintf("peer%d", k))
}

func (s *sim) parseBid(x string) (types.BlockID, bool) {
	if x == "nil" {
		return types.BlockID{}, true
	}
	i, err := strconv.Atoi(x)
	if err != nil || i < 0 || i >= len(s.blocks) {
		return types.BlockID{}, false
	}
	return s.blocks[i].id, true
}

func vtype(x string) (tmproto.SignedMsgType, bool) {
	switch x {
	case "pv":
		return tmproto.PrevoteType, true
	case "pc":
		return tmproto.PrecommitType, true
	}
	return 0, false
}

func panicClass(p string) string {
	for _, c := range [][2]string{
		{"invalid timeout step", "invalid-timeout-step"},
		{"SetRound() must increment", "SetRound"},
		{"entering prevote wait step", "prevoteWait-no-any"},
		{"this POLRound should be", "POLRound"},
		{"+2/3 prevoted for an invalid block", "precommit-invalid-block"},
		{"entering precommit wait step", "precommitWait-no-any"},
		{"RunActionCommit() expects", "commit-no-maj23"},
		{"commit does not have 2/3 majority", "finalize-no-maj23"},
		{"expected ProposalBlockParts header", "finalize-header"},
		{"proposal block does not hash to commit hash", "finalize-hash"},
		{"+2/3 committed an invalid block", "finalize-invalid-block"},
	} {
		if strings.Contains(p, c[0]) {
			return c[1]
		}
	}
	return "other:" + strings.ReplaceAll(p, " ", "_")
}

// apply executes one op on the real node and returns the canonical line.
func (s *sim) apply(op string) string {
	f := strings.Fields(op)
	if len(f) == 0 {
		return "bad-op"
	}
	m := kv(op)
	atoi := func(k string) (int, bool) {
		x, err := strconv.Atoi(m[k])
		return x, err == nil
	}
	var run func() string
	switch f[0] {
	case "prop":
		r, ok1 := atoi("r")
		b, ok2 := atoi("b")
		pol, ok3 := atoi("pol")
		by, ok4 := atoi("by")
		if !(ok1 && ok2 && ok3 && ok4) || r < 0 || b < 0 || b >= nIDs || by < 0 || by >= len(s.w.keys) {
			return "bad-op"
		}
		run = func() string {
			p := types.NewProposal(1, int32(r), int32(pol), s.blocks[b].id)
			pp := p.ToProto()
			sig, err := s.w.keys[by].Sign(types.ProposalSignBytes(chainID, pp))
			if err != nil {
				panic(err)
			}
			p.Signature = sig
			return s.node.HandleProposal(p, "peer1")
		}
	case "block":
		b, ok := atoi("b")
		if !ok || b < 0 || b > idInvalid {
			return "bad-op"
		}
		run = func() string {
			rs := s.node.RS()
			return s.node.HandleBlockPart(1, rs.Round, s.blocks[b].parts.GetPart(0), "peer1")
		}
	case "vote":
		t, ok0 := vtype(m["t"])
		r, ok1 := atoi("r")
		id, ok2 := s.parseBid(m["b"])
		v, ok3 := atoi("v")
		peer, ok4 := atoi("peer")
		if !(ok0 && ok1 && ok2 && ok3 && ok4) || r < 0 || v < 0 || peer < 0 || (m["sig"] != "0" && m["sig"] != "1") {
			return "bad-op"
		}
		// optional: a = validator whose address the vote carries, k = validator whose key signs (default v)
		av, kv2 := v, v
		if x, ok := m["a"]; ok {
			y, err := strconv.Atoi(x)
			if err != nil || y < 0 {
				return "bad-op"
			}
			av = y
		}
		if x, ok := m["k"]; ok {
			y, err := strconv.Atoi(x)
			if err != nil || y < 0 {
				return "bad-op"
			}
			kv2 = y
		}
		run = func() string {
			vote := &types.Vote{Type: t, Height: 1, Round: int32(r), BlockID: id, Timestamp: genesisTime.Add(time.Second),
				ValidatorIndex: int32(v)}
			nk := len(s.w.keys)
			if av < nk {
				vote.ValidatorAddress = s.w.keys[av].PubKey().Address()
			} else { // an address of nobody in the set
				vote.ValidatorAddress = ed25519.GenPrivKeyFromSecret([]byte(fmt.Sprintf("stranger-%d", av))).PubKey().Address()
			}
			var key crypto.PrivKey
			if kv2 < nk {
				key = s.w.keys[kv2]
			} else {
				key = ed25519.GenPrivKeyFromSecret([]byte(fmt.Sprintf("stranger-%d", kv2)))
			}
			sig, err := key.Sign(types.VoteSignBytes(chainID, vote.ToProto()))
			if err != nil {
				panic(err)
			}
			if m["sig"] == "0" {
				sig[3] ^= 0x40
			}
			vote.Signature = sig
			return s.node.HandleVote(vote, peerID(peer))
		}
	case "maj23":
		t, ok0 := vtype(m["t"])
		r, ok1 := atoi("r")
		id, ok2 := s.parseBid(m["b"])
		peer, ok4 := atoi("peer")
		if !(ok0 && ok1 && ok2 && ok4) || r < 0 || peer < 0 {
			return "bad-op"
		}
		run = func() string {
			s.node.SetPeerMaj23(int32(r), t, peerID(peer), id) //nolint:errcheck
			return ""
		}
	case "timeout":
		r, ok1 := atoi("r")
		st, ok2 := stepByName(m["s"])
		if !ok1 || !ok2 || r < 0 {
			return "bad-op"
		}
		run = func() string { return s.node.HandleTimeout(1, int32(r), st) }
	case "makecommit":
		r, ok := atoi("r")
		if !ok || r < 0 {
			return "bad-op"
		}
		if s.halted || s.decided != "" {
			return "nocommit"
		}
		return s.showCommit(s.node.RS().Votes.Precommits(int32(r)), nil, r)
	case "txs":
		if len(f) != 1 {
			return "bad-op"
		}
		run = func() string { return s.node.HandleTxsAvailable() }
	default:
		return "bad-op"
	}
	s.events = nil
	if !s.halted && s.decided == "" {
		if p := run(); p != "" {
			s.halted = true
			s.events = append(s.events, "panic("+panicClass(p)+")")
		} else if rs := s.node.RS(); rs.Height != 1 {
			blk := s.bstore.LoadBlock(1)
			sc := s.bstore.LoadSeenCommit(1)
			s.decided = fmt.Sprintf("%s@%d %s", s.blockName(blk), sc.Round, s.showCommit(rsVotesAt(s, sc.Round), sc, int(sc.Round)))
			s.events = append(s.events, fmt.Sprintf("decide(%s,%d)", s.blockName(blk), sc.Round))
		}
	}
	return s.stateLine() + " |" + joinEvents(s.events)
}

// rsVotesAt: after the decision cs.Votes belongs to the next height; the precommits of the commit round
// live on as cs.LastCommit
func rsVotesAt(s *sim, round int32) *types.VoteSet {
	return s.node.RS().LastCommit
}

// showCommit prints what the REAL VoteSet.MakeCommit builds from a precommit set (or the commit that
// finalizeCommit built and stored, when given), the canonical vote of every slot, the power in the
// majority block's bucket, and the verdict of the REAL ValidatorSet.VerifyCommit for the majority block id.
func (s *sim) showCommit(vs *types.VoteSet, stored *types.Commit, r int) (line string) {
	if vs == nil {
		return "nocommit"
	}
	maj, ok := vs.TwoThirdsMajority()
	if !ok || maj.IsZero() {
		return "nocommit"
	}
	defer func() {
		if p := recover(); p != nil {
			line = "commit-panic:" + strings.ReplaceAll(fmt.Sprint(p), " ", "_")
		}
	}()
	commit := stored
	if commit == nil {
		commit = vs.MakeCommit()
	}
	var flags strings.Builder
	for _, cs := range commit.Signatures {
		switch cs.BlockIDFlag {
		case types.BlockIDFlagAbsent:
			flags.WriteByte('A')
		case types.BlockIDFlagNil:
			flags.WriteByte('N')
		case types.BlockIDFlagCommit:
			flags.WriteByte('C')
		default:
			flags.WriteByte('?')
		}
	}
	slots := make([]string, len(s.w.powers))
	for i := range slots {
		if v := vs.GetByIndex(int32(i)); v != nil {
			slots[i] = s.bidName(v.BlockID)
		} else {
			slots[i] = "-"
		}
	}
	vc := "ok"
	if !commit.BlockID.Equals(maj) {
		vc = "err:commit-block-id"
	} else if err := s.w.state.Validators.VerifyCommit(chainID, maj, 1, commit); err != nil {
		vc = "err:" + strings.ReplaceAll(err.Error(), " ", "_")
	}
	return fmt.Sprintf("commit r=%d b=%s bucket=%d sigs=%s votes=%s vc=%s", r, s.bidName(maj),
		s.sumOf(vs.BitArrayByBlockID(maj)), flags.String(), strings.Join(slots, ","), vc)
}

func joinEvents(ev []string) string {
	var b strings.Builder
	for _, e := range ev {
		b.WriteByte(' ')
		b.WriteString(e)
	}
	return b.String()
}

func (s *sim) sumOf(ba *bits.BitArray) int64 {
	if ba == nil {
		return 0
	}
	var t int64
	for i := 0; i < ba.Size() && i < len(s.w.powers); i++ {
		if ba.GetIndex(i) {
			t += s.w.powers[i]
		}
	}
	return t
}

func (s *sim) showVS(vs *types.VoteSet) string {
	maj := "-"
	if id, ok := vs.TwoThirdsMajority(); ok {
		maj = s.bidName(id)
	}
	var buckets []string
	if x := s.sumOf(vs.BitArrayByBlockID(types.BlockID{})); x != 0 {
		buckets = append(buckets, fmt.Sprintf("nil=%d", x))
	}
	for i, b := range s.blocks {
		if x := s.sumOf(vs.BitArrayByBlockID(b.id)); x != 0 {
			buckets = append(buckets, fmt.Sprintf("%d=%d", i, x))
		}
	}
	bs := "-"
	if len(buckets) > 0 {
		bs = strings.Join(buckets, "+")
	}
	return fmt.Sprintf("%d/%s/%s", s.sumOf(vs.BitArray()), maj, bs)
}

func (s *sim) stateLine() string {
	if s.halted {
		return "halted"
	}
	if s.decided != "" {
		return "decided " + s.decided
	}
	rs := s.node.RS()
	ob := func(b *types.Block) string { return s.blockName(b) }
	prop := "-"
	if rs.Proposal != nil {
		prop = fmt.Sprintf("%s/%d", s.bidName(rs.Proposal.BlockID), rs.Proposal.POLRound)
	}
	pp := "-/0"
	if rs.ProposalBlockParts != nil {
		name := "?"
		h := rs.ProposalBlockParts.Header()
		for i, b := range s.blocks {
			if b.id.PartSetHeader.Equals(h) {
				name = strconv.Itoa(i)
			}
		}
		d := 0
		if rs.ProposalBlockParts.IsComplete() {
			d = 1
		}
		pp = fmt.Sprintf("%s/%d", name, d)
	}
	tp := 0
	if rs.TriggeredTimeoutPrecommit {
		tp = 1
	}
	pr, _ := s.w.state.Validators.GetByAddress(rs.Validators.GetProposer().Address)
	var hv []string
	for r := int32(-1); r <= maxRounds; r++ {
		if p := rs.Votes.Prevotes(r); p != nil {
			hv = append(hv, fmt.Sprintf("%d:P%s:C%s", r, s.showVS(p), s.showVS(rs.Votes.Precommits(r))))
		}
	}
	return fmt.Sprintf("r=%d s=%s lr=%d lb=%s vr=%d vb=%s prop=%s pb=%s pp=%s cr=%d tp=%d pr=%d q=%d hr=%d hv=%s",
		rs.Round, stepNames[rs.Step], rs.LockedRound, ob(rs.LockedBlock), rs.ValidRound, ob(rs.ValidBlock), prop,
		ob(rs.ProposalBlock), pp, rs.CommitRound, tp, pr, s.node.InternalQueueLen(), rs.Votes.Round(), strings.Join(hv, ","))
}

func execCase(c core.Case) []string {
	var s *sim
	defer func() { s.close() }()
	out := make([]string, 0, len(c.Ops))
	for _, op := range c.Ops {
		if strings.HasPrefix(op, "cfg ") {
			s.close()
			s = newSim(op)
			if s == nil {
				out = append(out, "bad-op")
			} else {
				out = append(out, "ok")
			}
			continue
		}
		if s == nil {
			out = append(out, "bad-op")
			continue
		}
		out = append(out, s.apply(op))
	}
	return out
}

// ---- the property oracle, on the implementation's output lines only ----

type delivered struct {
	vals map[int]bool
}

func oracle(c core.Case, out []string) []core.Finding {
	var fs []core.Finding
	add := func(fp, desc string) {
		for _, f := range fs {
			if f.Fingerprint == fp {
				return
			}
		}
		fs = append(fs, core.Finding{Fingerprint: fp, Desc: desc})
	}
	var powers []int64
	var total int64
	self := -1
	future := c.Kind == "future"
	// (type, round, value) -> validators whose vote was delivered to the node (or is its own)
	recv := map[string]map[int]bool{}
	note := func(t string, r int, b string, v int) {
		k := fmt.Sprintf("%s/%d/%s", t, r, b)
		if recv[k] == nil {
			recv[k] = map[int]bool{}
		}
		recv[k][v] = true
	}
	powerOf := func(t string, r int, b string) int64 {
		var p int64
		for v := range recv[fmt.Sprintf("%s/%d/%s", t, r, b)] {
			p += powers[v]
		}
		return p
	}
	values := []string{"nil"}
	for i := 0; i < nIDs; i++ {
		values = append(values, strconv.Itoa(i))
	}
	signed := map[string]string{}     // "pv/3" -> value
	type pcRec struct {
		r int
		b string
	}
	var precommits []pcRec
	prevLR := "-1"
	prevR := 0
	field := func(line, k string) string {
		for _, t := range strings.Fields(line) {
			if strings.HasPrefix(t, k+"=") {
				return t[len(k)+1:]
			}
		}
		return ""
	}
	scheduled := map[string]bool{}
	tws := true
	defer func() {
		statMtx.Lock()
		if tws {
			statCount["oracle-cases-with-only-scheduled-or-round0-timeouts"]++
		} else {
			statCount["oracle-cases-with-unscheduled-timeouts"]++
		}
		statMtx.Unlock()
	}()
	for i, op := range c.Ops {
		if i >= len(out) {
			break
		}
		m := kv(op)
		f := strings.Fields(op)
		if len(f) == 0 {
			continue
		}
		// the ticker discipline of Props.C02.scheduled_timeouts_suffice, checked on the implementation's
		// outputs: a delivered timeout was scheduled before (to(r,step) among the outputs) or is for round 0
		if f[0] == "timeout" && m["r"] != "0" && !scheduled[m["r"]+"/"+m["s"]] {
			tws = false
		}
		if j := strings.Index(out[i], " |"); j >= 0 {
			for _, e := range strings.Fields(out[i][j+2:]) {
				if strings.HasPrefix(e, "to(") && strings.HasSuffix(e, ")") {
					a := strings.Split(e[3:len(e)-1], ",")
					if len(a) == 2 {
						scheduled[a[0]+"/"+a[1]] = true
					}
				}
			}
		}
		if f[0] == "cfg" {
			if out[i] != "ok" {
				return fs
			}
			powers, _ = parseInts(m["powers"])
			total = 0
			for _, p := range powers {
				total += p
			}
			self, _ = strconv.Atoi(m["self"])
			recv = map[string]map[int]bool{}
			signed = map[string]string{}
			precommits = nil
			prevLR = "-1"
			prevR = 0
			continue
		}
		if powers == nil || out[i] == "bad-op" {
			continue
		}
		if f[0] == "vote" && m["t"] == "pv" && m["sig"] == "1" {
			// power is counted by the DISTINCT ACTUAL SIGNER of a delivered prevote (k, default v),
			// whatever index and address the message claims
			k, _ := strconv.Atoi(m["v"])
			if x, ok := m["k"]; ok {
				k, _ = strconv.Atoi(x)
			}
			r, _ := strconv.Atoi(m["r"])
			if k >= 0 && k < len(powers) && k != self {
				note("pv", r, m["b"], k)
			}
		}
		// MakeCommit clauses: the commit built from a precommit set with a +2/3 majority for block b
		// verifies (real VerifyCommit) for exactly b, carries every vote of b's bucket, and more than 2/3
		if j := strings.Index(out[i], "commit r="); j >= 0 {
			cl := out[i][j:]
			if k := strings.Index(cl, " |"); k >= 0 {
				cl = cl[:k]
			}
			sigs, bucket := field(cl, "sigs"), field(cl, "bucket")
			var cp int64
			for x, ch := range sigs {
				if ch == 'C' && x < len(powers) {
					cp += powers[x]
				}
			}
			bk, _ := strconv.ParseInt(bucket, 10, 64)
			if vc := field(cl, "vc"); vc != "ok" {
				add("voteset.MakeCommit.commit-fails-VerifyCommit", fmt.Sprintf("the commit MakeCommit builds for block %s in round %s does not pass VerifyCommit: %s (sigs=%s votes=%s, op %d)", field(cl, "b"), field(cl, "r"), vc, sigs, field(cl, "votes"), i))
			}
			if cp < bk {
				add("voteset.MakeCommit.omits-majority-votes", fmt.Sprintf("the commit for block %s carries power %d but the vote set holds precommits for it of power %d (sigs=%s votes=%s, op %d)", field(cl, "b"), cp, bk, sigs, field(cl, "votes"), i))
			}
			if 3*cp <= 2*total {
				add("voteset.MakeCommit.commit-below-two-thirds", fmt.Sprintf("the commit for block %s carries power %d of %d (sigs=%s, op %d)", field(cl, "b"), cp, total, sigs, i))
			}
		} else if strings.Contains(out[i], "commit-panic:") {
			add("voteset.MakeCommit.panics", "MakeCommit panicked: "+out[i])
		}
		parts := strings.SplitN(out[i], " |", 2)
		if len(parts) != 2 {
			continue
		}
		state, evs := parts[0], strings.Fields(parts[1])
		for _, e := range evs {
			open := strings.IndexByte(e, '(')
			if open < 0 || !strings.HasSuffix(e, ")") {
				continue
			}
			kind, args := e[:open], strings.Split(e[open+1:len(e)-1], ",")
			switch kind {
			case "prop", "pv", "pc":
				r, _ := strconv.Atoi(args[0])
				val := strings.Join(args[1:], ",")
				key := kind + "/" + args[0]
				if old, ok := signed[key]; ok && old != val {
					add("state.signs-two-"+kind+"-in-one-round",
						fmt.Sprintf("the validator signed %s(%s,%s) after %s(%s,%s) in the same height and round (op %d)", kind, args[0], val, kind, args[0], old, i))
				}
				signed[key] = val
				if future {
					continue
				}
				if kind == "pv" {
					// clause 3: every earlier block precommit (r0,b0) with r0 < r and b0 != val needs a
					// +2/3 prevote quorum for one value != b0 in a round of (r0, r] received before
					for _, pc := range precommits {
						if pc.r >= r || pc.b == val {
							continue
						}
						ok := false
						for rr := pc.r + 1; rr <= r && !ok; rr++ {
							for _, y := range values {
								if y != pc.b && 3*powerOf("pv", rr, y) > 2*total {
									ok = true
								}
							}
						}
						if !ok {
							add("state.prevote-against-lock-without-newer-polka",
								fmt.Sprintf("prevote(%d,%s) signed after precommit(%d,%s) with no +2/3 prevote quorum for another value received in rounds %d..%d (op %d)", r, val, pc.r, pc.b, pc.r+1, r, i))
						}
					}
					note("pv", r, val, self)
				}
				if kind == "pc" && val != "nil" {
					if 3*powerOf("pv", r, val) <= 2*total {
						add("state.precommit-without-polka",
							fmt.Sprintf("precommit(%d,%s) signed but prevotes for it received in round %d carry %d of %d (op %d)", r, val, r, powerOf("pv", r, val), total, i))
					}
					if lb := field(state, "lb"); state != "halted" && !strings.HasPrefix(state, "decided") && lb != val {
						add("state.precommit-for-block-not-held",
							fmt.Sprintf("precommit(%d,%s) signed but the node's locked block is %s (op %d)", r, val, lb, i))
					}
					precommits = append(precommits, pcRec{r, val})
				}
			}
		}
		// clause 4 (lock_monotone): LockedRound only moves to -1 or to a round the node was in
		// during this input (between the round before and the round after it)
		if lr := field(state, "lr"); lr != "" && !future {
			if lr != prevLR && lr != "-1" {
				x, _ := strconv.Atoi(lr)
				hi, _ := strconv.Atoi(field(state, "r"))
				if x < prevR || x > hi {
					add("state.locked-round-moves-elsewhere", fmt.Sprintf("LockedRound went %s -> %s while the round went %d -> %d (op %d)", prevLR, lr, prevR, hi, i))
				}
			}
			prevLR = lr
			prevR, _ = strconv.Atoi(field(state, "r"))
		}
	}
	return fs
}

// ---- generators ----

var (
	statMtx   sync.Mutex
	maxRound  = map[string]int{}
	statCount = map[string]int{}
)

func stat(k string) {
	statMtx.Lock()
	statCount[k]++
	statMtx.Unlock()
}

type gen struct {
	r      *rand.Rand
	s      *sim
	ops    []string
	future bool
	n      int
	forge  int // 1 in `forge` votes carries an inconsistent (index, address, signer); 0 = none
}

func (g *gen) do(op string) {
	g.ops = append(g.ops, op)
	line := g.s.apply(op)
	if strings.Contains(line, " pc(") && !strings.Contains(line, ",nil)") {
		stat("block-precommits")
	}
	if strings.Contains(line, "decide(") {
		stat("decisions")
	}
	if strings.Contains(line, "panic(") {
		stat("panics")
	}
}

func (g *gen) live() bool { return !g.s.halted && g.s.decided == "" }

func (g *gen) curRound() int { return int(g.s.node.RS().Round) }

func (g *gen) pickBid(allowNil bool) string {
	rs := g.s.node.RS()
	x := g.r.Intn(10)
	switch {
	case x < 4 && rs.Proposal != nil:
		return g.s.bidName(rs.Proposal.BlockID)
	case x < 5 && rs.LockedBlock != nil:
		return g.s.blockName(rs.LockedBlock)
	case x < 6 && allowNil:
		return "nil"
	case x < 9:
		return strconv.Itoa(g.r.Intn(nValid))
	default:
		return strconv.Itoa(g.r.Intn(nPool))
	}
}

func (g *gen) pickRound() int {
	cur := g.curRound()
	switch x := g.r.Intn(20); {
	case x < 12:
		return cur
	case x < 15:
		return cur + 1
	case x < 16:
		return cur + 2 + g.r.Intn(3)
	default:
		if cur == 0 {
			return 0
		}
		return g.r.Intn(cur + 1)
	}
}

func (g *gen) voteOp(t string, r int, b string, v int) string {
	sig := 1
	if v == g.s.self || g.r.Intn(40) == 0 {
		sig = 0 // nobody else can produce our signature
	}
	op := fmt.Sprintf("vote t=%s r=%d b=%s v=%d peer=%d sig=%d", t, r, b, v, 1+g.r.Intn(3), sig)
	if g.forge > 0 && g.r.Intn(g.forge) == 0 {
		op = g.forgedVoteOp(t, r, b, v)
	}
	return op
}

// forgedVoteOp: a well-formed vote whose (index, address, actual signer) are inconsistent
func (g *gen) forgedVoteOp(t string, r int, b string, v int) string {
	n := len(g.s.w.powers)
	pick := func() int { // a validator other than us, sometimes a stranger
		if g.r.Intn(12) == 0 {
			return n + g.r.Intn(2)
		}
		for {
			if x := g.r.Intn(n); x != g.s.self {
				return x
			}
		}
	}
	a, k := v, v
	switch g.r.Intn(5) {
	case 0: // another validator's address and signature in slot v
		k = pick()
		a = k
	case 1: // right address, another validator's signature
		k = pick()
	case 2: // another address, the slot owner's signature
		a = pick()
	case 3: // all three different
		a, k = pick(), pick()
	default: // another validator's address and signature, index of a third
		k = pick()
		a = k
		v = g.r.Intn(n)
	}
	if k == g.s.self {
		k = pick()
	}
	return fmt.Sprintf("vote t=%s r=%d b=%s v=%d peer=%d sig=1 a=%d k=%d", t, r, b, v, 1+g.r.Intn(3), a, k)
}

func (g *gen) others() []int {
	var o []int
	for i := range g.s.w.powers {
		if i != g.s.self {
			o = append(o, i)
		}
	}
	g.r.Shuffle(len(o), func(i, j int) { o[i], o[j] = o[j], o[i] })
	return o
}

func (g *gen) move() {
	rs := g.s.node.RS()
	cur := int(rs.Round)
	n := len(g.s.w.powers)
	if cur > 30 {
		return
	}
	switch x := g.r.Intn(100); {
	case x < 22: // timeout
		y := g.r.Intn(20)
		if g.future && g.r.Intn(3) == 0 {
			y = 20
		}
		switch {
		case y == 20: // a timeout for a round the node has not reached (the real ticker never sends one)
			st := []string{"propose", "prevoteWait", "precommitWait", "propose", "newRound"}[g.r.Intn(5)]
			g.do(fmt.Sprintf("timeout r=%d s=%s", cur+1+g.r.Intn(3), st))
		case y < 13 && len(g.s.sched) > 0: // the most recently scheduled ones
			k := len(g.s.sched) - 1 - g.r.Intn(min(2, len(g.s.sched)))
			g.do(fmt.Sprintf("timeout r=%s s=%s", g.s.sched[k][0], g.s.sched[k][1]))
		case y < 16 && len(g.s.sched) > 0: // any scheduled one (stale)
			k := g.r.Intn(len(g.s.sched))
			g.do(fmt.Sprintf("timeout r=%s s=%s", g.s.sched[k][0], g.s.sched[k][1]))
		case y < 19: // a plausible one for the current round
			st := []string{"propose", "prevoteWait", "precommitWait", "newHeight", "newRound"}[g.r.Intn(5)]
			g.do(fmt.Sprintf("timeout r=%d s=%s", g.r.Intn(cur+1), st))
		default:
			names := []string{"newHeight", "newRound", "propose", "prevote", "prevoteWait", "precommit", "precommitWait", "commit"}
			rr := g.r.Intn(cur + 1)
			if g.future {
				rr = cur + g.r.Intn(4)
			}
			st := names[g.r.Intn(len(names))]
			if !g.future && (st == "prevote" || st == "precommit" || st == "commit") && g.r.Intn(4) != 0 {
				st = "propose"
			}
			g.do(fmt.Sprintf("timeout r=%d s=%s", rr, st))
		}
	case x < 34: // proposal
		r := cur
		if g.r.Intn(8) == 0 {
			r = g.pickRound()
		}
		by := g.s.w.proposers[min(r, maxRounds)]
		if g.r.Intn(6) == 0 {
			by = g.r.Intn(n)
		}
		pol := -1
		switch y := g.r.Intn(12); {
		case y < 3 && r > 0:
			pol = r - 1
		case y < 5 && r > 0:
			pol = g.r.Intn(r)
		case y == 5:
			pol = r + g.r.Intn(2)
		case y == 6:
			pol = -2
		}
		b := g.r.Intn(nValid + 1)
		if g.r.Intn(12) == 0 {
			b = g.r.Intn(nPool)
		}
		if by == g.s.self && g.r.Intn(3) != 0 {
			return // only we can sign for ourselves; keep a few as forged-impossible inputs out
		}
		g.do(fmt.Sprintf("prop r=%d b=%d pol=%d by=%d", r, b, pol, by))
	case x < 46: // block arrives
		b := g.r.Intn(idInvalid + 1)
		if rs.ProposalBlockParts != nil && g.r.Intn(4) != 0 {
			h := rs.ProposalBlockParts.Header()
			for i := 0; i <= idInvalid; i++ {
				if g.s.blocks[i].id.PartSetHeader.Equals(h) {
					b = i
				}
			}
		}
		g.do(fmt.Sprintf("block b=%d", b))
	case x < 64: // single votes
		t := []string{"pv", "pc"}[g.r.Intn(2)]
		r := g.pickRound()
		k := 1 + g.r.Intn(3)
		for i := 0; i < k && g.live(); i++ {
			v := g.r.Intn(n)
			if g.r.Intn(60) == 0 {
				v = n + g.r.Intn(2)
			}
			g.do(g.voteOp(t, r, g.pickBid(true), v))
		}
	case x < 90: // a burst towards a quorum for one value
		t := "pv"
		if g.r.Intn(5) < 2 {
			t = "pc"
		}
		r := g.pickRound()
		b := g.pickBid(true)
		var acc, total int64
		for _, p := range g.s.w.powers {
			total += p
		}
		stopEarly := g.r.Intn(6) == 0
		for _, v := range g.others() {
			if !g.live() {
				break
			}
			g.do(g.voteOp(t, r, b, v))
			acc += g.s.w.powers[v]
			if 3*acc > 2*total && g.r.Intn(3) != 0 {
				break
			}
			if stopEarly && 3*acc > total {
				break
			}
		}
	case x < 96: // peer claims a majority
		t := []string{"pv", "pc"}[g.r.Intn(2)]
		g.do(fmt.Sprintf("maj23 t=%s r=%d b=%s peer=%d", t, g.pickRound(), g.pickBid(true), 1+g.r.Intn(3)))
	default:
		g.do("txs")
	}
}

func genCase(r *rand.Rand, kind string, minOps, maxOps int) core.Case {
	w := getWorld(powerSets[r.Intn(len(powerSets))])
	self := r.Intn(len(w.powers)+1) - 1
	if self == -1 && r.Intn(4) != 0 {
		self = r.Intn(len(w.powers))
	}
	hrs := r.Intn(3) != 0
	if kind == "future" {
		hrs = true
	}
	line := cfgLine(w, self, hrs, r.Intn(6) == 0, r.Intn(8) == 0)
	s := newSim(line)
	if s == nil {
		panic("generator produced a cfg line the harness rejects: " + line)
	}
	defer s.close()
	g := &gen{r: r, s: s, ops: []string{line}, future: kind == "future"}
	switch r.Intn(4) {
	case 0:
		g.forge = 3
	case 1:
		g.forge = 15
	}
	if r.Intn(10) != 0 {
		g.do("timeout r=0 s=newHeight")
	}
	target := minOps + r.Intn(maxOps-minOps+1)
	for tries := 0; len(g.ops) < target && tries < 4*target; tries++ {
		if !g.live() {
			// a few more ops against the stopped machine, then end
			for k := 0; k < 3; k++ {
				g.ops = append(g.ops, g.voteOp("pv", 0, "nil", 0))
			}
			break
		}
		g.move()
	}
	statMtx.Lock()
	if cr := int(s.node.RS().Round); s.decided == "" && cr > maxRound[kind] {
		maxRound[kind] = cr
	}
	statMtx.Unlock()
	return core.Case{Kind: kind, Ops: g.ops}
}

// scripted adversarial scenarios of the property's quantifier (lock, then competing polka)
func genLockScenario(r *rand.Rand) core.Case {
	w := getWorld([]int64{1, 1, 1, 1})
	self := r.Intn(4)
	line := cfgLine(w, self, r.Intn(2) == 0, false, false)
	s := newSim(line)
	defer s.close()
	g := &gen{r: r, s: s, ops: []string{line}}
	g.do("timeout r=0 s=newHeight")
	a, b := 1+r.Intn(2), 0
	if a == 1 {
		b = 2
	}
	round := 0
	quorum := func(t string, rr int, bid string) {
		for _, v := range g.others() {
			if g.live() {
				g.do(g.voteOp(t, rr, bid, v))
			}
		}
	}
	// round 0: proposal a (if we are not the proposer), polka for a -> we lock a
	if w.proposers[0] != self {
		g.do(fmt.Sprintf("prop r=0 b=%d pol=-1 by=%d", a, w.proposers[0]))
		g.do(fmt.Sprintf("block b=%d", a))
	} else {
		a = 0
		b = 1
	}
	quorum("pv", 0, strconv.Itoa(a))
	// nil precommits from the others -> precommitWait -> round 1
	quorum("pc", 0, "nil")
	if g.live() {
		g.do("timeout r=0 s=precommitWait")
	}
	round = 1
	for k := 0; k < 3 && g.live(); k++ {
		// a competing proposal; depending on the variant a polka for it / for nil / nothing arrives
		by := w.proposers[min(round, maxRounds)]
		if by != self {
			pol := -1
			if r.Intn(2) == 0 {
				pol = round - 1
			}
			g.do(fmt.Sprintf("prop r=%d b=%d pol=%d by=%d", round, b, pol, by))
			g.do(fmt.Sprintf("block b=%d", b))
		}
		if g.live() {
			g.do(fmt.Sprintf("timeout r=%d s=propose", round))
		}
		switch r.Intn(4) {
		case 0:
			quorum("pv", round, strconv.Itoa(b))
		case 1:
			quorum("pv", round, "nil")
		case 2:
			quorum("pv", round, strconv.Itoa(a))
		default:
			// split: no polka
			o := g.others()
			g.do(g.voteOp("pv", round, strconv.Itoa(b), o[0]))
			g.do(g.voteOp("pv", round, "nil", o[1]))
			g.do(g.voteOp("pv", round, strconv.Itoa(a), o[2]))
		}
		if g.live() {
			g.do(fmt.Sprintf("timeout r=%d s=prevoteWait", round))
		}
		quorum("pc", round, "nil")
		if g.live() {
			g.do(fmt.Sprintf("timeout r=%d s=precommitWait", round))
		}
		round++
	}
	return core.Case{Kind: "lock-scenario", Ops: g.ops}
}

// quorumFrom delivers votes for (t, r, bid) from the given validators
func (g *gen) votesFrom(t string, r int, bid string, vals []int) {
	for _, v := range vals {
		if g.live() {
			g.do(g.voteOp(t, r, bid, v))
		}
	}
}

// nextRound takes the node from round r to r+1 through nil precommits of the others and the
// precommit-wait timeout (it precommits whatever its prevote set allows on the way)
func (g *gen) nextRound(r int) {
	g.votesFrom("pc", r, "nil", g.others())
	if g.live() {
		g.do(fmt.Sprintf("timeout r=%d s=precommitWait", r))
	}
}

// propose delivers a proposal for block b (with the given POL round) and the block in round r, unless
// the node is the proposer itself
func (g *gen) propose(r, b, pol int, withBlock bool) {
	by := g.s.w.proposers[min(r, maxRounds)]
	if by == g.s.self || !g.live() {
		return
	}
	g.do(fmt.Sprintf("prop r=%d b=%d pol=%d by=%d", r, b, pol, by))
	if withBlock && g.live() {
		g.do(fmt.Sprintf("block b=%d", b))
	}
}

func smallWorld(r *rand.Rand) *world {
	sets := [][]int64{{1, 1, 1, 1}, {1, 1, 1, 1}, {3, 3, 2, 2, 1, 1, 1}, {4, 3, 3}, {5, 3, 2, 1}}
	return getWorld(sets[r.Intn(len(sets))])
}

// genStaleQuorum: lock B, precommit B again in later rounds (re-lock) while the prevotes of the rounds
// in between are held back, then deliver those OLDER quorums (for nil or another block), then offer a
// different block in the next round. A correct node keeps prevoting B: the only quorums for something
// else it has seen are older than its latest precommit.
func genStaleQuorum(r *rand.Rand) core.Case {
	w := smallWorld(r)
	n := len(w.powers)
	self := r.Intn(n)
	line := cfgLine(w, self, r.Intn(2) == 0, false, false)
	s := newSim(line)
	defer s.close()
	g := &gen{r: r, s: s, ops: []string{line}}
	g.do("timeout r=0 s=newHeight")
	bB := 1 + r.Intn(2)
	if w.proposers[0] == self {
		bB = 0
	}
	bC := (bB + 1) % nValid
	// round 0: lock B
	g.propose(0, bB, -1, true)
	g.votesFrom("pv", 0, strconv.Itoa(bB), g.others())
	g.nextRound(0)
	lockRound := 0
	type held struct {
		round int
		bid   string
		vals  []int
	}
	var back []held
	round := 1
	rounds := 2 + r.Intn(3)
	for k := 0; k < rounds && g.live(); k++ {
		relock := k == rounds-1 || r.Intn(3) == 0
		if relock && round > lockRound+1 || (relock && r.Intn(4) == 0) {
			// a second polka for B: proposal of B with the old lock round as POL round
			g.propose(round, bB, lockRound, true)
			if g.live() {
				g.do(fmt.Sprintf("timeout r=%d s=propose", round))
			}
			g.votesFrom("pv", round, strconv.Itoa(bB), g.others())
			lockRound = round
		} else {
			// no polka seen in this round: one prevote for something else arrives, the rest is held back
			if g.live() {
				g.do(fmt.Sprintf("timeout r=%d s=propose", round))
			}
			bid := "nil"
			if r.Intn(3) == 0 {
				bid = strconv.Itoa(bC)
			}
			o := g.others()
			g.votesFrom("pv", round, bid, o[:1])
			back = append(back, held{round, bid, o[1:]})
		}
		g.nextRound(round)
		round++
	}
	// the held-back quorums of older rounds arrive now (some before, some after the new proposal)
	r.Shuffle(len(back), func(i, j int) { back[i], back[j] = back[j], back[i] })
	cut := r.Intn(len(back) + 1)
	for _, h := range back[:cut] {
		g.votesFrom("pv", h.round, h.bid, h.vals)
	}
	g.propose(round, bC, -1, true)
	for _, h := range back[cut:] {
		g.votesFrom("pv", h.round, h.bid, h.vals)
	}
	if g.live() {
		g.do(fmt.Sprintf("timeout r=%d s=propose", round))
	}
	// one more round for good measure
	g.nextRound(round)
	if g.live() {
		g.propose(round+1, bC, -1, true)
		if g.live() {
			g.do(fmt.Sprintf("timeout r=%d s=propose", round+1))
		}
	}
	stat("stale-quorum-cases")
	return core.Case{Kind: "stale-quorum", Ops: g.ops}
}

// genLatePOL: a proposal with a POL round arrives without its block, the node prevotes at the propose
// timeout, the block completes while it sits in step Prevote, and only then the prevotes of the POL
// round arrive. A correct node does not prevote a second time in that round.
func genLatePOL(r *rand.Rand) core.Case {
	w := smallWorld(r)
	n := len(w.powers)
	self := r.Intn(n)
	line := cfgLine(w, self, r.Intn(3) == 0, false, false) // mostly a signer that signs anything
	s := newSim(line)
	defer s.close()
	g := &gen{r: r, s: s, ops: []string{line}}
	g.do("timeout r=0 s=newHeight")
	target := 1 + r.Intn(3)
	for rr := 0; rr < target && g.live(); rr++ {
		if r.Intn(2) == 0 && g.live() {
			g.do(fmt.Sprintf("timeout r=%d s=propose", rr))
		}
		g.nextRound(rr)
	}
	pol := r.Intn(target)
	b := 1 + r.Intn(2)
	g.propose(target, b, pol, false)
	if g.live() {
		g.do(fmt.Sprintf("timeout r=%d s=propose", target))
	}
	steps := []int{0, 1}
	if r.Intn(2) == 0 {
		steps = []int{1, 0}
	}
	o := g.others()
	half := len(o) / 2
	for _, st := range steps {
		if !g.live() {
			break
		}
		if st == 0 {
			g.do(fmt.Sprintf("block b=%d", b))
		} else {
			g.votesFrom("pv", pol, strconv.Itoa(b), o[:half])
		}
	}
	g.votesFrom("pv", pol, strconv.Itoa(b), o[half:])
	if g.live() && r.Intn(2) == 0 {
		g.do(fmt.Sprintf("block b=%d", b))
	}
	// and the round goes on
	g.votesFrom("pv", target, strconv.Itoa(b), g.others())
	g.nextRound(target)
	stat("late-pol-cases")
	return core.Case{Kind: "late-pol", Ops: g.ops}
}

// genAfterLock: adaptive — run the random generator until the node is locked, then try to make it
// prevote something else while only quorums of rounds up to its lock round (or no quorum at all)
// are delivered.
func genAfterLock(r *rand.Rand) core.Case {
	w := getWorld(powerSets[r.Intn(len(powerSets))])
	n := len(w.powers)
	self := r.Intn(n)
	line := cfgLine(w, self, r.Intn(2) == 0, false, false)
	s := newSim(line)
	defer s.close()
	g := &gen{r: r, s: s, ops: []string{line}}
	g.do("timeout r=0 s=newHeight")
	for tries := 0; tries < 150 && g.live() && s.node.RS().LockedBlock == nil; tries++ {
		g.move()
	}
	if !g.live() || s.node.RS().LockedBlock == nil {
		return core.Case{Kind: "after-lock", Ops: g.ops}
	}
	stat("after-lock-locked")
	for k := 0; k < 4 && g.live(); k++ {
		rs := s.node.RS()
		cur := int(rs.Round)
		if cur > 28 {
			break
		}
		lr := int(rs.LockedRound)
		locked := s.blockName(rs.LockedBlock)
		other := strconv.Itoa((func() int {
			for i := 0; i < nValid; i++ {
				if strconv.Itoa(i) != locked {
					return i
				}
			}
			return 0
		})())
		// quorums for something else, but only in rounds <= the lock round
		if lr >= 0 && r.Intn(2) == 0 {
			bid := "nil"
			if r.Intn(2) == 0 {
				bid = other
			}
			g.votesFrom("pv", r.Intn(lr+1), bid, g.others())
		}
		g.nextRound(cur)
		if !g.live() {
			break
		}
		nr := int(s.node.RS().Round)
		ob, _ := strconv.Atoi(other)
		pol := -1
		if r.Intn(3) == 0 && lr >= 0 {
			pol = r.Intn(lr + 1)
		}
		g.propose(nr, ob, pol, true)
		if g.live() {
			g.do(fmt.Sprintf("timeout r=%d s=propose", nr))
		}
		// a minority prevotes the other block in the new round
		o := g.others()
		g.votesFrom("pv", nr, other, o[:1])
	}
	return core.Case{Kind: "after-lock", Ops: g.ops}
}

// genLockedPOL: the prevote decision of a LOCKED node (defaultDoPrevote). Lock B; in the following
// rounds the round's prevotes (for B / nil / another block / no quorum) arrive on time or only after
// the node has precommitted nil; then complete proposals for OTHER blocks arrive whose POLRound is
// -1, below, equal to or above LockedRound, or round-1 — before or after the propose timeout.
func genLockedPOL(r *rand.Rand) core.Case {
	w := smallWorld(r)
	n := len(w.powers)
	self := r.Intn(n)
	line := cfgLine(w, self, r.Intn(2) == 0, false, false)
	s := newSim(line)
	defer s.close()
	g := &gen{r: r, s: s, ops: []string{line}}
	g.do("timeout r=0 s=newHeight")
	bB := 1 + r.Intn(2)
	if w.proposers[0] == self {
		bB = 0
	}
	bC := (bB + 1) % nValid
	g.propose(0, bB, -1, true)
	g.votesFrom("pv", 0, strconv.Itoa(bB), g.others())
	g.nextRound(0)
	round := 1
	mid := 1 + r.Intn(3)
	for k := 0; k < mid && g.live(); k++ {
		// what the others prevote in this round
		bid := []string{strconv.Itoa(bB), strconv.Itoa(bB), "nil", strconv.Itoa(bC), ""}[r.Intn(5)]
		late := r.Intn(3) != 0
		if r.Intn(3) == 0 {
			g.propose(round, bB, r.Intn(round+1)-1, true)
		}
		if g.live() {
			g.do(fmt.Sprintf("timeout r=%d s=propose", round))
		}
		deliver := func() {
			o := g.others()
			if bid == "" { // no quorum: split
				g.votesFrom("pv", round, strconv.Itoa(bB), o[:1])
				g.votesFrom("pv", round, "nil", o[1:2])
				return
			}
			g.votesFrom("pv", round, bid, o)
		}
		if !late {
			deliver()
		}
		// nil precommits of the others: the node precommits (nil unless it saw a polka) ...
		g.votesFrom("pc", round, "nil", g.others())
		if late {
			deliver() // ... and sees this round's prevotes only now
		}
		if g.live() {
			g.do(fmt.Sprintf("timeout r=%d s=precommitWait", round))
		}
		round++
	}
	// complete proposals for other blocks with every kind of POL round
	for k := 0; k < 2+r.Intn(2) && g.live(); k++ {
		rs := s.node.RS()
		round = int(rs.Round)
		if round > 28 {
			break
		}
		lr := int(rs.LockedRound)
		pol := -1
		switch r.Intn(6) {
		case 0:
			pol = -1
		case 1:
			if lr > 0 {
				pol = r.Intn(lr)
			}
		case 2:
			if lr >= 0 && lr < round {
				pol = lr
			}
		case 3, 4:
			if lr+1 < round {
				pol = lr + 1 + r.Intn(round-lr-1)
			}
		default:
			pol = round - 1
		}
		other := bC
		if rs.LockedBlock != nil && s.blockName(rs.LockedBlock) == strconv.Itoa(bC) {
			other = bB
		}
		before := r.Intn(3) != 0
		if before {
			g.propose(round, other, pol, r.Intn(8) != 0)
		}
		if g.live() {
			g.do(fmt.Sprintf("timeout r=%d s=propose", round))
		}
		if !before {
			g.propose(round, other, pol, true)
		}
		// the others prevote the proposal only partly: no new quorum in this round
		o := g.others()
		g.votesFrom("pv", round, strconv.Itoa(other), o[:1])
		g.nextRound(round)
	}
	stat("locked-pol-cases")
	return core.Case{Kind: "locked-pol", Ops: g.ops}
}

// genForgedSlots: ONE validator tries to fill the slots of the others: votes carrying its own address
// and signature (or the slot owner's address with its signature) under every index, for prevotes and
// precommits of the current, an earlier and a later round. A correct vote set counts none of them.
func genForgedSlots(r *rand.Rand) core.Case {
	w := getWorld(powerSets[r.Intn(len(powerSets))])
	n := len(w.powers)
	self := r.Intn(n)
	line := cfgLine(w, self, r.Intn(2) == 0, false, false)
	s := newSim(line)
	defer s.close()
	g := &gen{r: r, s: s, ops: []string{line}}
	g.do("timeout r=0 s=newHeight")
	// get to some round first
	for rr, upto := 0, r.Intn(3); rr < upto && g.live(); rr++ {
		g.do(fmt.Sprintf("timeout r=%d s=propose", rr))
		g.nextRound(rr)
	}
	d := r.Intn(n) // the forger
	for d == self {
		d = r.Intn(n)
	}
	for k := 0; k < 2+r.Intn(2) && g.live(); k++ {
		cur := g.curRound()
		b := 1 + r.Intn(2)
		g.propose(cur, b, -1, true)
		if g.live() && r.Intn(2) == 0 {
			g.do(fmt.Sprintf("timeout r=%d s=propose", cur))
		}
		rounds := []int{cur, cur, cur + 1}
		if cur > 0 {
			rounds = append(rounds, r.Intn(cur))
		}
		vr := rounds[r.Intn(len(rounds))]
		bid := strconv.Itoa(b)
		if r.Intn(5) == 0 {
			bid = "nil"
		}
		for _, t := range []string{"pv", "pc"} {
			if r.Intn(4) == 0 {
				g.do(g.voteOp(t, vr, bid, d)) // its one genuine vote
			}
			for _, v := range r.Perm(n) {
				if !g.live() {
					break
				}
				a := d
				if r.Intn(4) == 0 {
					a = v
				}
				g.do(fmt.Sprintf("vote t=%s r=%d b=%s v=%d peer=%d sig=1 a=%d k=%d", t, vr, bid, v, 1+r.Intn(3), a, d))
			}
			if g.live() && t == "pv" && r.Intn(2) == 0 {
				g.do(fmt.Sprintf("timeout r=%d s=prevoteWait", g.curRound()))
			}
		}
		if g.live() {
			g.nextRound(g.curRound())
		}
	}
	stat("forged-slots-cases")
	return core.Case{Kind: "forged-slots", Ops: g.ops}
}

// subsetWithSum returns indices out of `cands` whose powers sum to exactly `want` (nil if none)
func subsetWithSum(powers []int64, cands []int, want int64) []int {
	for mask := 0; mask < 1<<len(cands); mask++ {
		var sum int64
		var pick []int
		for i, c := range cands {
			if mask&(1<<i) != 0 {
				sum += powers[c]
				pick = append(pick, c)
			}
		}
		if sum == want {
			return pick
		}
	}
	return nil
}

// genThreshold: prevotes (then precommits) for one value whose power is exactly one below the quorum
// `total*2/3+1` — in particular exactly two thirds of the total when it is divisible by 3 — or exactly
// the quorum. Just below, a correct node sees no polka: it precommits nil and does not commit.
func genThreshold(r *rand.Rand) core.Case {
	var w *world
	for {
		w = getWorld(powerSets[r.Intn(len(powerSets))])
		var t int64
		for _, p := range w.powers {
			t += p
		}
		if t%3 == 0 || r.Intn(4) == 0 {
			break
		}
	}
	n := len(w.powers)
	var total int64
	for _, p := range w.powers {
		total += p
	}
	quorum := total*2/3 + 1
	self := r.Intn(n)
	line := cfgLine(w, self, r.Intn(2) == 0, false, false)
	s := newSim(line)
	defer s.close()
	g := &gen{r: r, s: s, ops: []string{line}}
	g.do("timeout r=0 s=newHeight")
	for k := 0; k < 3 && g.live(); k++ {
		cur := g.curRound()
		if cur > 20 {
			break
		}
		b := 1 + r.Intn(2)
		if w.proposers[min(cur, maxRounds)] == self {
			b = 0
			if vb := s.node.RS().ValidBlock; vb != nil {
				b, _ = strconv.Atoi(s.blockName(vb))
			}
		}
		g.propose(cur, b, -1, true)
		if g.live() {
			g.do(fmt.Sprintf("timeout r=%d s=propose", cur))
		}
		// did we prevote b ourselves?
		own := int64(0)
		if p := s.node.RS().Votes.Prevotes(int32(cur)); p != nil {
			if v := p.GetByIndex(int32(self)); v != nil && s.bidName(v.BlockID) == strconv.Itoa(b) {
				own = w.powers[self]
			}
		}
		want := quorum - 1
		if r.Intn(3) == 0 {
			want = quorum
		}
		pick := subsetWithSum(w.powers, g.others(), want-own)
		if pick == nil {
			pick = subsetWithSum(w.powers, g.others(), quorum-own)
		}
		g.votesFrom("pv", cur, strconv.Itoa(b), pick)
		// the rest prevotes nil so that +2/3 of anything is there
		rest := []int{}
		for _, v := range g.others() {
			in := false
			for _, x := range pick {
				in = in || x == v
			}
			if !in {
				rest = append(rest, v)
			}
		}
		g.votesFrom("pv", cur, "nil", rest)
		if g.live() {
			g.do(fmt.Sprintf("timeout r=%d s=prevoteWait", cur))
		}
		// precommits for b at the same threshold
		pc := subsetWithSum(w.powers, g.others(), want)
		g.votesFrom("pc", cur, strconv.Itoa(b), pc)
		if g.live() {
			g.nextRound(cur)
		}
	}
	stat("threshold-cases")
	return core.Case{Kind: "threshold", Ops: g.ops}
}

// genCommit: precommit sets that reach a +2/3 majority for a block while (a) one validator's single
// precommit is for the same block HASH with another part-set header, (b) an equivocator's first precommit
// is for something else and its second one, for the majority block, is tracked through a peer's maj23
// claim (before or after the quorum is crossed), (c) nil precommits and absentees fill the rest; then
// `makecommit` — and, when the node holds the block, the decision with the commit finalizeCommit stored.
func genCommit(r *rand.Rand) core.Case {
	sets := [][]int64{{1, 1, 1, 1}, {3, 3, 2, 2, 1, 1, 1}, {3, 3, 2, 2, 1, 1, 1}, {10, 10, 5, 3, 1, 1}, {8, 4, 2, 1, 1}, {1, 1, 1, 1, 1, 1, 1}}
	w := getWorld(sets[r.Intn(len(sets))])
	n := len(w.powers)
	var total int64
	for _, p := range w.powers {
		total += p
	}
	self := r.Intn(n)
	line := cfgLine(w, self, r.Intn(2) == 0, false, false)
	s := newSim(line)
	defer s.close()
	g := &gen{r: r, s: s, ops: []string{line}}
	g.do("timeout r=0 s=newHeight")
	for rr, upto := 0, r.Intn(2); rr < upto && g.live(); rr++ {
		g.do(fmt.Sprintf("timeout r=%d s=propose", rr))
		g.nextRound(rr)
	}
	cur := g.curRound()
	b := 1 + r.Intn(2)   // the block that gets the majority
	twin := nPool + b - 1 // same hash, other parts
	holds := r.Intn(2) == 0
	if holds {
		g.propose(cur, b, -1, true)
	}
	vr := cur
	if r.Intn(4) == 0 {
		vr = cur + 1
	}
	o := g.others()
	// roles among the others: odd = votes the twin id, eq = equivocator; only while a quorum stays reachable
	power := func(xs []int) (p int64) {
		for _, x := range xs {
			p += w.powers[x]
		}
		return
	}
	odd, eq := -1, -1
	rest := append([]int{}, o...)
	if r.Intn(3) != 0 && 3*(power(rest)-w.powers[rest[len(rest)-1]]) > 2*total {
		odd = rest[len(rest)-1]
		rest = rest[:len(rest)-1]
	}
	if r.Intn(3) != 0 && len(rest) > 1 {
		eq = rest[len(rest)-1] // its vote for b counts (tracked through the claim), so it stays in `rest`
	}
	bs := strconv.Itoa(b)
	if odd >= 0 {
		g.do(g.voteOp("pc", vr, strconv.Itoa(twin), odd))
	}
	eqLate := r.Intn(2) == 0
	if eq >= 0 {
		other := []string{"nil", strconv.Itoa(3 - b), strconv.Itoa(twin)}[r.Intn(3)]
		g.do(g.voteOp("pc", vr, other, eq))
		g.do(fmt.Sprintf("maj23 t=pc r=%d b=%s peer=%d", vr, bs, 1+r.Intn(3)))
	}
	for _, v := range rest {
		if !g.live() {
			break
		}
		if v == eq && eqLate {
			continue
		}
		g.do(g.voteOp("pc", vr, bs, v))
		if r.Intn(4) == 0 && g.live() {
			g.do(fmt.Sprintf("makecommit r=%d", vr))
		}
	}
	if eq >= 0 && eqLate && g.live() {
		g.do(g.voteOp("pc", vr, bs, eq))
	}
	if g.live() {
		g.do(fmt.Sprintf("makecommit r=%d", vr))
	}
	if !holds && g.live() && r.Intn(2) == 0 {
		// the block arrives only now: the node, waiting in the commit step, finalizes
		g.do(fmt.Sprintf("block b=%d", b))
	}
	if g.live() {
		g.do(fmt.Sprintf("makecommit r=%d", vr))
	}
	g.ops = append(g.ops, "makecommit r=0")
	stat("commit-cases")
	return core.Case{Kind: "commit", Ops: g.ops}
}

func main() {
	// C02_CFG="1,1,1,1:self:hrs" prints the cfg line for that configuration (for hand-written corpus cases)
	if e := os.Getenv("C02_CFG"); e != "" {
		f := strings.Split(e, ":")
		p, _ := parseInts(f[0])
		self, _ := strconv.Atoi(f[1])
		fmt.Println(cfgLine(getWorld(p), self, f[2] == "1", false, false))
		return
	}
	core.Main(core.Prop{
		ID:     "C02",
		Driver: "c02",
		Gen: func(r *rand.Rand, tier string, emit func(core.Case)) {
			n, lo, hi := 900, 20, 70
			if tier == "thorough" {
				n, lo, hi = 9000, 20, 120
			}
			for i := 0; i < n; i++ {
				emit(genCase(r, "node", lo, hi))
			}
			for i := 0; i < n/6; i++ {
				emit(genCase(r, "future", lo, hi))
			}
			for i := 0; i < n/6; i++ {
				emit(genLockScenario(r))
			}
			for i := 0; i < n/6; i++ {
				emit(genStaleQuorum(r))
			}
			for i := 0; i < n/6; i++ {
				emit(genLatePOL(r))
			}
			for i := 0; i < n/6; i++ {
				emit(genAfterLock(r))
			}
			for i := 0; i < n/6; i++ {
				emit(genLockedPOL(r))
			}
			for i := 0; i < n/6; i++ {
				emit(genForgedSlots(r))
			}
			for i := 0; i < n/6; i++ {
				emit(genThreshold(r))
			}
			for i := 0; i < n/6; i++ {
				emit(genCommit(r))
			}
			if tier == "thorough" {
				for i := 0; i < n/10; i++ {
					emit(genCase(r, "node", 150, 260)) // long runs reaching higher rounds
				}
			}
		},
		Exec:   execCase,
		Oracle: oracle,
		NonTrivial: func(c core.Case, out []string) bool {
			for _, o := range out {
				if strings.Contains(o, " pv(") || strings.Contains(o, " pc(") {
					return true
				}
			}
			return false
		},
		Rule: "a real consensus.State (kvstore app, 3..7 validators from 12 power configurations incl. one validator above 2/3, FilePV or MockPV signer or no key, in-memory stores, nil WAL, recording ticker) driven synchronously; generated adaptively against the live node: proposals by the right/wrong proposer with POL rounds (-2,-1,earlier,round-1,>=round), complete blocks (3 valid, 1 invalid, 2 unknown ids, 2 ids sharing a block's hash with another part-set header — voted by a minority only, the model identifies a block by one id), single votes and quorum bursts for current/earlier/future/catch-up rounds from 3 peers incl. equivocation, bad signatures, out-of-range indices, votes whose (index, address, actual signer) are inconsistent in every combination (incl. kind forged-slots: one validator's address+signature under every index, prevotes and precommits, current/earlier/later rounds), peer maj23 claims, timeouts (scheduled, stale, arbitrary, and in kind=future for rounds not reached), txs-available; scripted scenarios: lock-then-competing-polka, stale-quorum (lock, re-lock in later rounds, then the held-back older quorums for nil/another block, then a different proposal), late-pol (proposal with POL round, prevote at timeout, block completes in step Prevote, then the POL prevotes), locked-pol (locked node; the following rounds' prevotes for the locked block / nil / another block / no quorum arrive on time or after its nil precommit; then complete proposals for other blocks with POLRound -1, <, =, > LockedRound or round-1, before/after the propose timeout), commit (precommit majorities with a same-hash/other-parts vote, an equivocator tracked through a peer maj23 claim, nil votes and absentees; makecommit op and the commit stored at the decision, checked with the real VerifyCommit), threshold (prevotes/precommits for one value with power exactly quorum-1 — exactly 2/3 where the total is divisible by 3 — or exactly the quorum), after-lock (adaptive: once locked, only quorums of rounds up to the lock round and competing proposals). Non-trivial = the node signed at least one vote; distinct by hash of the op list",
		Assumptions: []string{
			"one height; a block id stands for (hash, part-set header) of a one-part block; signatures ideal (a vote either verifies for its validator or not)",
			"own messages are processed in FIFO order right after the input that caused them (the 1000-slot internal queue never overflows)",
			"proposer rotation enters the model as the table of proposers after k single priority increments (enterNewRound performs one increment per round entered or skipped)",
			"timeouts for rounds the node has not reached (never produced by the real ticker) are exercised in kind=future for model/implementation agreement only; the oracle applies the one-per-round clause there",
		},
		Parallel: 8,
		Extra: func() map[string]interface{} {
			statMtx.Lock()
			defer statMtx.Unlock()
			return map[string]interface{}{"max_round_reached": maxRound, "generator_events": statCount}
		},
	})
}
