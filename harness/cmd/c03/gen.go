package main

import (
	"fmt"
	"math/rand"
	"strings"
	"sync"

	cstypes "github.com/tendermint/tendermint/consensus/types"

	"verifharness/core"
)

var (
	statMtx   sync.Mutex
	statCount = map[string]int{}
)

func stat(k string) {
	statMtx.Lock()
	statCount[k]++
	statMtx.Unlock()
}

// gen builds a case adaptively against a live net of real nodes
type gen struct {
	r       *rand.Rand
	nt      *net
	ops     []string
	seen    []map[int]bool // per node position: log entries already handed to it by the generator
	faulty  []int
	group   []int // partition of the correct nodes during the asynchronous prefix
	hostile bool  // sprinkle ill-formed / refused / untimely ops
}

// junk emits one op the machinery must reject (or treat as a no-op) on both sides
func (g *gen) junk() {
	n := len(g.nt.w.powers)
	c := g.idx(g.r.Intn(len(g.nt.nodes)))
	f := n + g.r.Intn(2)
	if len(g.faulty) > 0 && g.r.Intn(2) == 0 {
		f = g.faulty[g.r.Intn(len(g.faulty))]
	}
	ops := []string{
		fmt.Sprintf("dl node=%d k=%d", f, g.r.Intn(len(g.nt.log)+1)),
		fmt.Sprintf("dl node=%d k=%d", c, len(g.nt.log)+g.r.Intn(3)),
		fmt.Sprintf("dl node=%d", c),
		fmt.Sprintf("dl k=0 node=%d extra=1", c),
		fmt.Sprintf("byz vote t=pv r=%d b=nil v=%d", g.maxRound(), c),
		fmt.Sprintf("byz vote t=px r=0 b=nil v=%d", f),
		fmt.Sprintf("byz vote t=pc r=0 b=%d v=%d", g.nt.w.nIDs()+g.r.Intn(2), f),
		fmt.Sprintf("byz vote t=pc r=1001 b=nil v=%d", f),
		fmt.Sprintf("byz prop r=%d b=0 pol=-1 by=%d", g.maxRound(), c),
		fmt.Sprintf("byz prop r=0 b=%d pol=-1 by=%d", g.nt.w.nIDs(), f),
		fmt.Sprintf("byz prop r=0 b=0 pol=-1001 by=%d", f),
		fmt.Sprintf("byz block b=%d", g.nt.w.invalid()+1+g.r.Intn(2)),
		"byz",
		"byz gossip x=1",
		fmt.Sprintf("claim node=%d from=%d", c, f),
		fmt.Sprintf("claim node=%d from=%d", f, c),
		fmt.Sprintf("byzclaim node=%d peer=%d t=pv r=0 b=nil", c, 1+c),
		fmt.Sprintf("byzclaim node=%d peer=0 t=pv r=0 b=nil", c),
		fmt.Sprintf("byzclaim node=%d peer=%d t=pc r=0 b=0", c, n+1+g.r.Intn(2)),
		fmt.Sprintf("byzclaim node=%d peer=%d t=pc r=1001 b=0", c, 1+f),
		fmt.Sprintf("byzclaim node=%d peer=%d t=pc r=0", c, 1+f),
		fmt.Sprintf("fire node=%d", f),
		fmt.Sprintf("fire node=%d x=1", c),
		"fire",
		"closure now",
		"sync now",
		"end now",
		"frobnicate",
		"cfg n=0",
	}
	g.do(ops[g.r.Intn(len(ops))])
}

func newGen(r *rand.Rand, w *world, correct []int) *gen {
	// clock skew tolerated in the synchronous suffix: below the smallest timeout (1000 ms)
	skew := int64([]int{0, 0, 1, 100, 500, 999}[r.Intn(6)])
	line := cfgLine(w, correct, skew)
	nt := newNet(line)
	if nt == nil {
		panic("generator produced a cfg line the harness rejects: " + line)
	}
	g := &gen{r: r, nt: nt, ops: []string{line}}
	for range correct {
		g.seen = append(g.seen, map[int]bool{})
		g.group = append(g.group, 0)
	}
	for v := range w.powers {
		if !nt.isCorrect(v) {
			g.faulty = append(g.faulty, v)
		}
	}
	return g
}

func (g *gen) do(op string) string {
	g.ops = append(g.ops, op)
	return g.nt.apply(op)
}

func (g *gen) idx(i int) int { return g.nt.correct[i] }

func (g *gen) dl(i, k int) {
	g.seen[i][k] = true
	m := g.nt.log[k]
	if m.kind != "block" && m.by == g.idx(i) {
		return
	}
	if !g.nt.nodes[i].live() {
		return
	}
	g.do(fmt.Sprintf("dl node=%d k=%d", g.idx(i), k))
}

// dlMatch hands node i every logged message matching pred that the generator has not handed to it yet
func (g *gen) dlMatch(i int, pred func(m *msg) bool) {
	for k := 0; k < len(g.nt.log); k++ {
		if !g.seen[i][k] && pred(g.nt.log[k]) {
			g.dl(i, k)
		}
	}
}

func (g *gen) fire(i int) {
	if g.nt.nodes[i].live() && g.nt.nodes[i].tick.pending {
		g.do(fmt.Sprintf("fire node=%d", g.idx(i)))
	}
}

func (g *gen) fireIf(i int, step cstypes.RoundStepType) {
	if t := g.nt.nodes[i].tick; t.pending && t.pendingS == step {
		g.fire(i)
	}
}

func (g *gen) byzVote(t string, r, b, v int) int {
	g.do(fmt.Sprintf("byz vote t=%s r=%d b=%s v=%d", t, r, bidStr(b), v))
	return g.nt.logIdx[(&msg{kind: "vote", t: t, r: r, b: b, by: v}).key()]
}

func (g *gen) round(i int) int { return int(g.nt.nodes[i].node.RS().Round) }

func (g *gen) maxRound() int { return g.nt.maxRound() }

func (g *gen) allDone() bool {
	for _, s := range g.nt.nodes {
		if s.live() {
			return false
		}
	}
	return true
}

func isVote(t string, r int) func(*msg) bool {
	return func(m *msg) bool { return m.kind == "vote" && m.t == t && m.r == r }
}

func (g *gen) isFaulty(v int) bool { return !g.nt.isCorrect(v) }

// ---- random asynchronous prefix ----

func (g *gen) repartition() {
	k := 1 + g.r.Intn(3)
	for i := range g.group {
		g.group[i] = g.r.Intn(k)
	}
}

func (g *gen) groupOf(v int) int {
	for i, c := range g.nt.correct {
		if c == v {
			return g.group[i]
		}
	}
	return -1
}

func (g *gen) byzAction() {
	if len(g.faulty) == 0 {
		return
	}
	v := g.faulty[g.r.Intn(len(g.faulty))]
	n := len(g.nt.w.powers)
	mr := g.maxRound()
	r := mr
	switch x := g.r.Intn(10); {
	case x < 2 && mr > 0:
		r = g.r.Intn(mr + 1)
	case x < 4:
		r = mr + 1
	case x == 4:
		r = mr + 2 + g.r.Intn(2)
	}
	pickB := func() int {
		switch x := g.r.Intn(10); {
		case x < 2:
			return -1
		case x < 6:
			// something a correct node is working on
			s := g.nt.nodes[g.r.Intn(len(g.nt.nodes))]
			if s.live() {
				rs := s.node.RS()
				if rs.Proposal != nil {
					if i := g.nt.w.bidIndex(rs.Proposal.BlockID); i >= 0 {
						return i
					}
				}
				if rs.LockedBlock != nil {
					for i, b := range g.nt.w.blocks {
						if b.block != nil && string(b.id.Hash) == string(rs.LockedBlock.Hash()) {
							return i
						}
					}
				}
			}
			return g.nt.w.proposers[min(r, maxRounds)]
		case x < 8:
			return g.nt.w.proposers[min(r, maxRounds)]
		case x < 9:
			return n + v
		default:
			return g.r.Intn(g.nt.w.nIDs())
		}
	}
	switch x := g.r.Intn(10); {
	case x < 7:
		t := []string{"pv", "pc"}[g.r.Intn(2)]
		g.byzVote(t, r, pickB(), v)
		if g.r.Intn(3) == 0 { // equivocate
			g.byzVote(t, r, pickB(), v)
		}
	case x < 9:
		// a proposal (useful when v is the proposer of r; otherwise it is rejected)
		rr := r
		for k := 0; k < 4 && g.nt.w.proposers[min(rr, maxRounds)] != v; k++ {
			rr++
		}
		b := []int{v, n + v, g.nt.w.invalid()}[g.r.Intn(3)]
		if g.r.Intn(8) != 0 && b == g.nt.w.invalid() {
			b = v
		}
		pol := -1
		if rr > 0 && g.r.Intn(3) == 0 {
			pol = g.r.Intn(rr)
		}
		g.do(fmt.Sprintf("byz prop r=%d b=%d pol=%d by=%d", rr, b, pol, v))
		g.do(fmt.Sprintf("byz block b=%d", b))
	default:
		i := g.r.Intn(len(g.nt.nodes))
		if g.nt.nodes[i].live() {
			g.do(fmt.Sprintf("byzclaim node=%d peer=%d t=%s r=%d b=%s", g.idx(i), 1+v, []string{"pv", "pc"}[g.r.Intn(2)], r, bidStr(pickB())))
		}
	}
}

func (g *gen) randomPrefix(steps int) {
	g.repartition()
	for st := 0; st < steps && !g.allDone() && g.maxRound() < 24; st++ {
		if st%25 == 24 && g.r.Intn(2) == 0 {
			g.repartition()
		}
		if g.hostile && g.r.Intn(12) == 0 {
			g.junk()
		}
		i := g.r.Intn(len(g.nt.nodes))
		if !g.nt.nodes[i].live() {
			continue
		}
		// what could be delivered to i now
		var cand []int
		for k, m := range g.nt.log {
			if g.seen[i][k] {
				continue
			}
			if m.kind == "block" || g.isFaulty(m.by) {
				if g.r.Intn(3) != 0 {
					cand = append(cand, k)
				}
			} else if g.groupOf(m.by) == g.group[i] {
				cand = append(cand, k)
			}
		}
		switch x := g.r.Intn(100); {
		case x < 62 && len(cand) > 0:
			k := cand[0]
			if g.r.Intn(4) == 0 {
				k = cand[g.r.Intn(len(cand))]
			}
			g.dl(i, k)
		case x < 80:
			if len(cand) == 0 || g.r.Intn(4) == 0 {
				g.fire(i)
			}
		case x < 92:
			g.byzAction()
		case x < 97:
			j := g.r.Intn(len(g.nt.nodes))
			if j != i {
				g.do(fmt.Sprintf("claim node=%d from=%d", g.idx(i), g.idx(j)))
			}
		default:
			// a stale message again
			if len(g.nt.log) > 0 {
				g.dl(i, g.r.Intn(len(g.nt.log)))
			}
		}
	}
}

// ---- the synchronous suffix ----

func (g *gen) syncSuffix(maxFires int, byzKeepsGoing bool) {
	g.syncSuffixRounds(maxFires, byzKeepsGoing, 14)
}

// syncSuffixRounds: as syncSuffix, giving up after `rounds` rounds past the synchrony point
func (g *gen) syncSuffixRounds(maxFires int, byzKeepsGoing bool, rounds int) {
	g.do("sync")
	start := g.maxRound()
	for f := 0; f < maxFires; f++ {
		g.do("closure")
		if g.allDone() || g.maxRound() > start+rounds || g.maxRound() >= maxRounds-4 {
			break
		}
		if byzKeepsGoing && g.r.Intn(4) == 0 {
			g.byzAction()
			continue
		}
		if g.hostile && g.r.Intn(3) == 0 {
			switch g.r.Intn(3) {
			case 0:
				g.junk()
			case 1:
				// a timeout while messages are still in flight
				g.byzAction()
				g.do(fmt.Sprintf("fire node=%d", g.idx(g.r.Intn(len(g.nt.nodes)))))
			default:
				// a timeout that is not due yet (if there is one), or one of a node without a timer
				g.do(fmt.Sprintf("fire node=%d", g.idx(g.r.Intn(len(g.nt.nodes)))))
			}
			continue
		}
		var pend []int
		for i, s := range g.nt.nodes {
			if s.live() && s.tick.pending && g.nt.due(i) {
				pend = append(pend, i)
			}
		}
		if len(pend) == 0 {
			break
		}
		g.fire(pend[g.r.Intn(len(pend))])
	}
	if !g.nt.closed {
		g.do("closure")
	}
	g.do("end")
}

// ---- synchronous suffix with adversarial delivery ORDER ----
//
// Everything is still delivered before any timeout fires (closure runs before every timeout), but
// the generator hands the messages out itself first, in an unlucky order for one node X: the other
// nodes are served first and completely; X gets precommits before prevotes (and, in the late-block
// variant, all votes before the proposal and its block). A faulty validator keeps helping the others
// to their polka, sends a nil precommit and never precommits the block, so that every correct
// precommit is needed for the decision.

func (g *gen) byzHelpsPolkaWithholdsPrecommit(v int, done map[int]bool) {
	for _, m := range g.nt.log {
		if m.kind == "prop" && !done[m.r] && m.r <= g.maxRound() {
			done[m.r] = true
			g.byzVote("pv", m.r, m.b, v)
			g.byzVote("pc", m.r, -1, v)
			return
		}
	}
}

func (g *gen) nextFor(i int, rank func(m *msg) int) int {
	best, bestRank := -1, -1
	s := g.nt.nodes[i]
	if !s.live() {
		return -1
	}
	cur := int(s.node.RS().Round)
	for k, m := range g.nt.log {
		if g.seen[i][k] || (m.kind != "block" && m.by == g.idx(i)) {
			continue
		}
		if m.kind == "prop" && m.r > cur {
			continue // it will be taken when the node is in that round (closure hands it out again)
		}
		rk := 0
		if rank != nil {
			rk = rank(m)
		}
		if rk > bestRank {
			best, bestRank = k, rk
		}
	}
	return best
}

func (g *gen) orderedClosure(X int, lateBlock bool, byz int, byzDone map[int]bool) {
	rank := func(m *msg) int {
		switch {
		case m.kind == "vote" && m.t == "pc":
			return 3
		case m.kind == "vote":
			return 2
		case lateBlock:
			return 1
		default:
			return 4
		}
	}
	for steps := 0; steps < 600; steps++ {
		if byz >= 0 {
			g.byzHelpsPolkaWithholdsPrecommit(byz, byzDone)
		}
		served := false
		for i := range g.nt.nodes {
			if i == X {
				continue
			}
			if k := g.nextFor(i, nil); k >= 0 {
				g.dl(i, k)
				served = true
				break
			}
		}
		if served {
			continue
		}
		if k := g.nextFor(X, rank); k >= 0 {
			g.dl(X, k)
			continue
		}
		break
	}
	g.do("closure")
}

// precommits overtaking prevotes at one node / the block arriving after all votes, every round,
// with a faulty voter that withholds its block precommit
func genUnluckyOrder(r *rand.Rand) core.Case {
	w := getWorld([]int64{1, 1, 1, 1}, nil, 0)
	byz := r.Intn(4)
	g := newGen(r, w, complement(4, []int{byz}))
	X := r.Intn(3)
	lateBlock := r.Intn(2) == 0
	for i := range g.nt.nodes {
		g.fire(i)
	}
	if r.Intn(3) == 0 {
		g.randomPrefix(5 + r.Intn(25))
	}
	g.do("sync")
	start := g.maxRound()
	done := map[int]bool{}
	sawWaitBeforePrecommit := false
	for f := 0; f < 80; f++ {
		g.orderedClosure(X, lateBlock, byz, done)
		if s := g.nt.nodes[X]; s.live() && s.node.RS().TriggeredTimeoutPrecommit {
			sawWaitBeforePrecommit = true
		}
		if g.allDone() || g.maxRound() > start+8 {
			break
		}
		var pend []int
		for i, s := range g.nt.nodes {
			if s.live() && s.tick.pending && g.nt.due(i) {
				pend = append(pend, i)
			}
		}
		if len(pend) == 0 {
			break
		}
		g.fire(pend[g.r.Intn(len(pend))])
	}
	if sawWaitBeforePrecommit {
		stat("precommit-wait-entered-at-unlucky-node")
	}
	if !g.nt.closed {
		g.do("closure")
	}
	g.do("end")
	return g.finish("unlucky-order")
}

func (g *gen) finish(kind string) core.Case {
	g.nt.close()
	return core.Case{Kind: kind, Ops: g.ops}
}

// ---- configurations ----

var powerSets = [][]int64{
	{1, 1, 1, 1},
	{5, 3, 2, 1},
	{8, 4, 2, 1, 1},
	{10, 10, 5, 3, 1, 1},
	{3, 3, 2, 2, 1, 1, 1},
	{4, 3, 3},
	{1, 1, 1, 1, 1, 1, 1},
}

// pickFaulty chooses a set of faulty validators with 3*power < total (possibly empty)
func pickFaulty(r *rand.Rand, powers []int64) []int {
	var total int64
	for _, p := range powers {
		total += p
	}
	var acc int64
	var out []int
	if r.Intn(5) == 0 {
		return nil
	}
	for _, v := range r.Perm(len(powers)) {
		if 3*(acc+powers[v]) < total && r.Intn(3) != 0 {
			acc += powers[v]
			out = append(out, v)
		}
	}
	return out
}

func complement(n int, faulty []int) []int {
	var out []int
	for v := 0; v < n; v++ {
		f := false
		for _, x := range faulty {
			f = f || x == v
		}
		if !f {
			out = append(out, v)
		}
	}
	return out
}

var (
	skewedOnce sync.Once
	skewedSets []skewed
)

func getSkewed() []skewed {
	skewedOnce.Do(func() { skewedSets = historySets(7, 6) })
	return skewedSets
}

func pickWorld(r *rand.Rand) *world {
	if sk := getSkewed(); len(sk) > 0 && r.Intn(4) == 0 {
		s := sk[r.Intn(len(sk))]
		return getWorld(s.powers, s.prios, s.prop)
	}
	return getWorld(powerSets[r.Intn(len(powerSets))], nil, 0)
}

// ---- generated cases ----

func genRandom(r *rand.Rand, steps int, hostile bool) core.Case {
	w := pickWorld(r)
	faulty := pickFaulty(r, w.powers)
	g := newGen(r, w, complement(len(w.powers), faulty))
	g.hostile = hostile
	for i := range g.nt.nodes {
		if r.Intn(6) != 0 {
			g.fire(i)
		}
	}
	g.randomPrefix(steps/2 + r.Intn(steps))
	g.syncSuffix(90, r.Intn(2) == 0)
	if hostile {
		return g.finish("hostile")
	}
	return g.finish("random")
}

// two groups locked on different blocks from different rounds (4 validators of power 1, one faulty)
func genSplitLocks(r *rand.Rand) core.Case {
	w := getWorld([]int64{1, 1, 1, 1}, nil, 0)
	p0, p1 := w.proposers[0], w.proposers[1]
	byz := -1
	for _, v := range r.Perm(4) {
		if v != p0 && v != p1 {
			byz = v
			break
		}
	}
	g := newGen(r, w, complement(4, []int{byz}))
	pos := func(v int) int {
		for i, c := range g.nt.correct {
			if c == v {
				return i
			}
		}
		panic("not a correct node")
	}
	X, Y := pos(p0), pos(p1)
	Z := 3 - X - Y
	for i := range g.nt.nodes {
		g.fire(i)
	}
	b0 := p0
	// round 0: Y gets the proposal, Z does not
	g.dlMatch(Y, func(m *msg) bool { return (m.kind == "prop" && m.r == 0) || (m.kind == "block" && m.b == b0) })
	g.fireIf(Z, cstypes.RoundStepPropose)
	kB := g.byzVote("pv", 0, b0, byz)
	kN := g.byzVote("pv", 0, -1, byz)
	g.dl(X, kB)
	g.dl(Y, kN)
	g.dl(Z, kN)
	correctPV := func(rr int) func(*msg) bool {
		return func(m *msg) bool { return m.kind == "vote" && m.t == "pv" && m.r == rr && m.by != byz }
	}
	for _, i := range []int{X, Y, Z} {
		g.dlMatch(i, correctPV(0))
	}
	g.fireIf(Y, cstypes.RoundStepPrevoteWait)
	g.fireIf(Z, cstypes.RoundStepPrevoteWait)
	g.byzVote("pc", 0, -1, byz)
	for _, i := range []int{X, Y, Z} {
		g.dlMatch(i, isVote("pc", 0))
	}
	for _, i := range []int{X, Y, Z} {
		g.fireIf(i, cstypes.RoundStepPrecommitWait)
	}
	// round 1: Y proposes its own block; X is locked on b0
	b1 := p1
	for _, i := range []int{X, Z} {
		g.dlMatch(i, func(m *msg) bool { return (m.kind == "prop" && m.r == 1) || (m.kind == "block" && m.b == b1) })
	}
	g.fireIf(X, cstypes.RoundStepPropose)
	kB1 := g.byzVote("pv", 1, b1, byz)
	kN1 := g.byzVote("pv", 1, -1, byz)
	g.dl(Y, kB1)
	g.dl(X, kN1)
	g.dl(Z, kN1)
	for _, i := range []int{X, Y, Z} {
		g.dlMatch(i, correctPV(1))
	}
	if lb := g.nt.nodes[X].node.RS().LockedBlock; lb != nil {
		if lb2 := g.nt.nodes[Y].node.RS().LockedBlock; lb2 != nil && string(lb.Hash()) != string(lb2.Hash()) {
			stat("split-locks-reached")
		}
	}
	switch r.Intn(5) {
	case 0:
	case 1:
		g.fireIf(X, cstypes.RoundStepPrevoteWait)
		g.fireIf(Z, cstypes.RoundStepPrevoteWait)
	case 2:
		g.randomPrefix(10 + r.Intn(40))
	default:
		// the releasing polka arrives late: everybody moves on to round 2 (X still without the faulty
		// validator's round-1 prevote for b1), only then the polka of round 1 is completed at X; the
		// faulty validator stays silent afterwards, so X must have unlocked for anything to reach +2/3
		g.fireIf(X, cstypes.RoundStepPrevoteWait)
		g.fireIf(Z, cstypes.RoundStepPrevoteWait)
		g.byzVote("pc", 1, -1, byz)
		for _, i := range []int{X, Y, Z} {
			g.dlMatch(i, isVote("pc", 1))
		}
		for _, i := range []int{X, Y, Z} {
			g.fireIf(i, cstypes.RoundStepPrecommitWait)
		}
		if g.nt.nodes[X].live() && g.round(X) == 2 && g.nt.nodes[X].node.RS().LockedRound == 0 {
			stat("late-polka-pending-at-locked-node")
		}
		if r.Intn(2) == 0 {
			g.dl(X, kB1)
		}
		g.syncSuffix(120, false)
		return g.finish("split-locks-late-polka")
	}
	g.syncSuffix(90, r.Intn(2) == 0)
	return g.finish("split-locks")
}

// one node learns the commit (+2/3 precommits) without ever getting the block; in variant 1 it is
// then pulled out of the commit step by +2/3 prevotes of the next round
func genCommitNoBlock(r *rand.Rand) core.Case {
	w := getWorld([]int64{1, 1, 1, 1}, nil, 0)
	var faulty []int
	p0 := w.proposers[0]
	variant := r.Intn(4)
	if r.Intn(2) == 0 {
		for _, v := range r.Perm(4) {
			if v != p0 {
				faulty = []int{v}
				break
			}
		}
	}
	g := newGen(r, w, complement(4, faulty))
	var D int
	for {
		D = r.Intn(len(g.nt.nodes))
		if g.idx(D) != p0 {
			break
		}
	}
	for i := range g.nt.nodes {
		g.fire(i)
	}
	b0 := p0
	var others []int
	for i := range g.nt.nodes {
		if i != D {
			others = append(others, i)
		}
	}
	for _, i := range others {
		g.dlMatch(i, func(m *msg) bool { return (m.kind == "prop" && m.r == 0) || (m.kind == "block" && m.b == b0) })
	}
	g.fireIf(D, cstypes.RoundStepPropose)
	for _, v := range faulty {
		g.byzVote("pv", 0, b0, v)
		g.byzVote("pc", 0, b0, v)
	}
	for _, i := range others {
		g.dlMatch(i, isVote("pv", 0))
	}
	g.dlMatch(D, isVote("pv", 0))
	// D learns every precommit; the others miss one block precommit each and see D's nil instead
	g.dlMatch(D, isVote("pc", 0))
	for n, i := range others {
		skip := g.idx(others[(n+1)%len(others)])
		g.dlMatch(i, func(m *msg) bool { return m.kind == "vote" && m.t == "pc" && m.r == 0 && m.by != skip })
	}
	if g.nt.nodes[D].live() && g.nt.nodes[D].node.RS().Step == cstypes.RoundStepCommit {
		stat("commit-without-block-reached")
	}
	if variant >= 1 {
		for _, i := range others {
			g.fireIf(i, cstypes.RoundStepPrecommitWait)
		}
		if variant >= 2 {
			// the others prevote in round 1 (after the propose timeout or on the proposal)
			for _, i := range others {
				g.dlMatch(i, func(m *msg) bool { return m.kind == "prop" && m.r == 1 || (m.kind == "block") })
				g.fireIf(i, cstypes.RoundStepPropose)
			}
			for _, v := range faulty {
				g.byzVote("pv", 1, b0, v)
			}
			g.dlMatch(D, isVote("pv", 1))
			if g.nt.nodes[D].live() && g.nt.nodes[D].node.RS().Step != cstypes.RoundStepCommit && g.nt.nodes[D].node.RS().CommitRound >= 0 {
				stat("left-commit-step-with-commit-round")
			}
			if variant == 3 {
				g.randomPrefix(10 + r.Intn(30))
			}
		}
	}
	g.syncSuffix(90, len(faulty) > 0 && r.Intn(2) == 0)
	return g.finish("commit-no-block")
}

// a node in the commit step (it has +2/3 precommits for block B, is collecting B's parts and never
// saw the proposal) receives a validly signed proposal of its round for ANOTHER block before B's
// parts: the proposer of round 0 is faulty and equivocates
func genCommitForeignProposal(r *rand.Rand) core.Case {
	w := getWorld([]int64{1, 1, 1, 1}, nil, 0)
	p0 := w.proposers[0]
	g := newGen(r, w, complement(4, []int{p0}))
	D := r.Intn(3)
	var others []int
	for i := range g.nt.nodes {
		g.fire(i)
		if i != D {
			others = append(others, i)
		}
	}
	bB, bC := p0, 4+p0
	g.do(fmt.Sprintf("byz prop r=0 b=%d pol=-1 by=%d", bB, p0))
	kBlockB := len(g.nt.log)
	g.do(fmt.Sprintf("byz block b=%d", bB))
	kPropC := len(g.nt.log)
	g.do(fmt.Sprintf("byz prop r=0 b=%d pol=-1 by=%d", bC, p0))
	g.do(fmt.Sprintf("byz block b=%d", bC))
	for _, i := range others {
		g.dl(i, 0)
		g.dl(i, kBlockB)
	}
	g.fireIf(D, cstypes.RoundStepPropose)
	g.byzVote("pv", 0, bB, p0)
	g.byzVote("pc", 0, bB, p0)
	for i := range g.nt.nodes {
		g.dlMatch(i, isVote("pv", 0))
	}
	// D learns the commit; the others only if the variant says so
	g.dlMatch(D, isVote("pc", 0))
	if g.nt.nodes[D].live() && g.nt.nodes[D].node.RS().Step == cstypes.RoundStepCommit && g.nt.nodes[D].node.RS().Proposal == nil {
		stat("commit-step-without-proposal-reached")
	}
	// the other proposal reaches D before any part of B
	g.dl(D, kPropC)
	switch r.Intn(3) {
	case 0:
	case 1:
		// ... and its block too
		g.dl(D, kPropC+1)
	default:
		for _, i := range others {
			g.dlMatch(i, isVote("pc", 0))
		}
	}
	g.syncSuffix(60, r.Intn(3) == 0)
	return g.finish("commit-foreign-proposal")
}

// a faulty validator equivocates on its round-0 precommit (block B to one correct node, nil to the
// others): that node decides and leaves the height; the others move on to round 1 and can admit the
// conflicting precommit for B only through the decider's majority claim for the PAST round 0
func genEquivPrecommitPastClaim(r *rand.Rand) core.Case {
	w := getWorld([]int64{1, 1, 1, 1}, nil, 0)
	p0 := w.proposers[0]
	byz := -1
	for _, v := range r.Perm(4) {
		if v != p0 {
			byz = v
			break
		}
	}
	g := newGen(r, w, complement(4, []int{byz}))
	perm := r.Perm(3)
	Y, X, Z := perm[0], perm[1], perm[2] // Y decides; Z misses the polka and precommits nil
	for i := range g.nt.nodes {
		g.fire(i)
	}
	b := p0
	for i := range g.nt.nodes {
		g.dlMatch(i, func(m *msg) bool { return (m.kind == "prop" && m.r == 0) || (m.kind == "block" && m.b == b) })
	}
	kPV := g.byzVote("pv", 0, b, byz)
	g.dl(X, kPV)
	g.dl(Y, kPV)
	correct := func(t string, rr int) func(*msg) bool {
		return func(m *msg) bool { return m.kind == "vote" && m.t == t && m.r == rr && m.by != byz }
	}
	// X and Y see the polka; Z sees only two prevotes for b and the faulty validator's nil
	g.dlMatch(X, correct("pv", 0))
	g.dlMatch(Y, correct("pv", 0))
	kPVn := g.byzVote("pv", 0, -1, byz)
	g.dl(Z, kPVn)
	zv := 0
	g.dlMatch(Z, func(m *msg) bool {
		if m.kind == "vote" && m.t == "pv" && m.r == 0 && m.by != byz && m.by != g.idx(Z) && zv < 1 {
			zv++
			return true
		}
		return false
	})
	g.fireIf(Z, cstypes.RoundStepPropose)
	g.dlMatch(Z, func(m *msg) bool { return m.kind == "vote" && m.t == "pv" && m.r == 0 && m.by == g.idx(Z) })
	g.fireIf(Z, cstypes.RoundStepPrevoteWait)
	// precommits: block b from the faulty validator to Y only, nil to X and Z
	kB := g.byzVote("pc", 0, b, byz)
	kN := g.byzVote("pc", 0, -1, byz)
	g.dl(Y, kB)
	g.dl(X, kN)
	g.dl(Z, kN)
	for i := range g.nt.nodes {
		g.dlMatch(i, correct("pc", 0))
	}
	if !g.nt.nodes[Y].live() && g.nt.nodes[X].live() && g.nt.nodes[Z].live() {
		stat("one-decided-through-equivocated-precommit")
	}
	// the others leave round 0 behind
	g.fireIf(X, cstypes.RoundStepPrecommitWait)
	g.fireIf(Z, cstypes.RoundStepPrecommitWait)
	if r.Intn(2) == 0 {
		g.fireIf(X, cstypes.RoundStepPropose)
		g.fireIf(Z, cstypes.RoundStepPropose)
	}
	g.syncSuffix(80, false)
	return g.finish("equivocated-precommit-past-claim")
}

// a lock that outlives its releasing polka: X locks b0 in round 0 and is then cut off; Y and Z go on,
// lock b1 on the polka of round 1 and move to round 2. X is handed the complete polka of round 1
// while it is still in round 0 (the unlock rule `LockedRound < vote.Round <= cs.Round` does not
// fire), then the prevotes of round 2, on which it skips to round 2 — no prevote of round 1 will ever
// be added at X again, so the rule is never re-evaluated.
func genStaleLock(r *rand.Rand) core.Case {
	w := getWorld([]int64{1, 1, 1, 1}, nil, 0)
	p0, p1 := w.proposers[0], w.proposers[1]
	byz := -1
	for _, v := range r.Perm(4) {
		if v != p0 && v != p1 {
			byz = v
			break
		}
	}
	g := newGen(r, w, complement(4, []int{byz}))
	pos := func(v int) int {
		for i, c := range g.nt.correct {
			if c == v {
				return i
			}
		}
		panic("not a correct node")
	}
	X, Y := pos(p0), pos(p1)
	Z := 3 - X - Y
	for i := range g.nt.nodes {
		g.fire(i)
	}
	b0, b1 := p0, p1
	// round 0 as in genSplitLocks: only X sees the polka for b0
	g.dlMatch(Y, func(m *msg) bool { return (m.kind == "prop" && m.r == 0) || (m.kind == "block" && m.b == b0) })
	g.fireIf(Z, cstypes.RoundStepPropose)
	kB := g.byzVote("pv", 0, b0, byz)
	kN := g.byzVote("pv", 0, -1, byz)
	g.dl(X, kB)
	g.dl(Y, kN)
	g.dl(Z, kN)
	correctOf := func(t string, rr int) func(*msg) bool {
		return func(m *msg) bool { return m.kind == "vote" && m.t == t && m.r == rr && m.by != byz }
	}
	for _, i := range []int{X, Y, Z} {
		g.dlMatch(i, correctOf("pv", 0))
	}
	g.fireIf(Y, cstypes.RoundStepPrevoteWait)
	g.fireIf(Z, cstypes.RoundStepPrevoteWait)
	g.byzVote("pc", 0, -1, byz)
	// X is cut off from here on
	for _, i := range []int{Y, Z} {
		g.dlMatch(i, isVote("pc", 0))
		g.fireIf(i, cstypes.RoundStepPrecommitWait)
	}
	// round 1: Y proposes b1; Y and Z see the polka (with the faulty validator's help) and lock b1
	g.dlMatch(Z, func(m *msg) bool { return (m.kind == "prop" && m.r == 1) || (m.kind == "block" && m.b == b1) })
	g.byzVote("pv", 1, b1, byz)
	for _, i := range []int{Y, Z} {
		g.dlMatch(i, isVote("pv", 1))
	}
	g.byzVote("pc", 1, -1, byz)
	for _, i := range []int{Y, Z} {
		g.dlMatch(i, isVote("pc", 1))
		g.fireIf(i, cstypes.RoundStepPrecommitWait)
	}
	// round 2: Y and Z prevote (their locked block) at the propose timeout, the faulty validator nil
	for _, i := range []int{Y, Z} {
		g.dlMatch(i, func(m *msg) bool { return m.kind == "prop" && m.r == 2 })
		g.fireIf(i, cstypes.RoundStepPropose)
	}
	g.byzVote("pv", 2, -1, byz)
	// X: first the whole polka of round 1 (still in round 0), then the prevotes of round 2
	g.dlMatch(X, isVote("pv", 1))
	if rs := g.nt.nodes[X].node.RS(); g.nt.nodes[X].live() && rs.Round == 0 && rs.LockedRound == 0 {
		stat("polka-recorded-before-its-round-is-reached")
	}
	g.dlMatch(X, isVote("pv", 2))
	if rs := g.nt.nodes[X].node.RS(); g.nt.nodes[X].live() && rs.Round == 2 && rs.LockedRound == 0 {
		stat("stale-lock-after-round-skip")
	}
	g.syncSuffixRounds(80, false, 6)
	return g.finish("stale-lock")
}

// a multi-round skip over the round of the releasing polka: X locks b0 in round 0 and is cut off; Y
// and Z lock B on the polka of round 2 and walk on to round 6 without deciding; stray votes of later
// rounds (rounds 3..8, each peer being the first to show X two of them) use up every peer's two catch-up rounds
// at X and make it skip 0 -> 6; only then is X handed the polka of round 2. SetRound has created
// the vote sets of all skipped rounds, so the prevotes are taken, X unlocks and the height terminates.
func genSkipOverPolka(r *rand.Rand) core.Case {
	w := getWorld([]int64{1, 1, 1, 1}, nil, 0)
	// proposers are 0,1,2,3,…: X = validator 0 proposes round 0, Z = validator 2 proposes round 2
	byz := 3
	g := newGen(r, w, complement(4, []int{byz}))
	X, Y, Z := 0, 1, 2
	b0, B := w.proposers[0], w.proposers[2]
	if g.idx(X) != w.proposers[0] || g.idx(Z) != w.proposers[2] || w.proposers[1] != g.idx(Y) {
		return genStaleLock(r)
	}
	for i := range g.nt.nodes {
		g.fire(i)
	}
	// round 0: only X sees the polka for b0 (as in genStaleLock)
	g.dlMatch(Y, func(m *msg) bool { return (m.kind == "prop" && m.r == 0) || (m.kind == "block" && m.b == b0) })
	g.fireIf(Z, cstypes.RoundStepPropose)
	kB := g.byzVote("pv", 0, b0, byz)
	kN := g.byzVote("pv", 0, -1, byz)
	g.dl(X, kB)
	g.dl(Y, kN)
	g.dl(Z, kN)
	correctOf := func(t string, rr int) func(*msg) bool {
		return func(m *msg) bool { return m.kind == "vote" && m.t == t && m.r == rr && m.by != byz }
	}
	for _, i := range []int{X, Y, Z} {
		g.dlMatch(i, correctOf("pv", 0))
	}
	g.fireIf(Y, cstypes.RoundStepPrevoteWait)
	g.fireIf(Z, cstypes.RoundStepPrevoteWait)
	g.byzVote("pc", 0, -1, byz)
	yz := []int{Y, Z}
	endRound := func(rr int) {
		g.byzVote("pc", rr, -1, byz)
		for _, i := range yz {
			g.dlMatch(i, isVote("pc", rr))
		}
		for _, i := range yz {
			g.fireIf(i, cstypes.RoundStepPrecommitWait)
		}
	}
	for _, i := range yz {
		g.dlMatch(i, isVote("pc", 0))
		g.fireIf(i, cstypes.RoundStepPrecommitWait)
	}
	// a round without polka among Y and Z (X is cut off)
	nilRound := func(rr int) {
		for _, i := range yz {
			g.fireIf(i, cstypes.RoundStepPropose)
		}
		g.byzVote("pv", rr, -1, byz)
		for _, i := range yz {
			g.dlMatch(i, isVote("pv", rr))
		}
		for _, i := range yz {
			g.fireIf(i, cstypes.RoundStepPrevoteWait)
		}
		endRound(rr)
	}
	nilRound(1)
	// round 2: Z proposes B; Y and Z see the polka (with the faulty validator's prevote) and lock B
	g.dlMatch(Y, func(m *msg) bool { return (m.kind == "prop" && m.r == 2) || (m.kind == "block" && m.b == B) })
	g.byzVote("pv", 2, B, byz)
	for _, i := range yz {
		g.dlMatch(i, isVote("pv", 2))
	}
	endRound(2)
	if lb := g.nt.nodes[Y].node.RS().LockedRound; lb == 2 && g.nt.nodes[Z].node.RS().LockedRound == 2 {
		stat("locked-by-polka-of-round-2")
	}
	nilRound(3)
	nilRound(4)
	nilRound(5)
	for _, i := range yz {
		g.fireIf(i, cstypes.RoundStepPropose)
	}
	g.byzVote("pv", 6, -1, byz)
	// stray votes: each peer's two catch-up rounds at X are used up, the second one by round 6
	voteOf := func(t string, rr, by int) func(*msg) bool {
		return func(m *msg) bool { return m.kind == "vote" && m.t == t && m.r == rr && m.by == by }
	}
	// (a vote only uses up a catch-up round of its peer when it is the FIRST vote X sees of that round)
	g.byzVote("pv", 7, -1, byz)
	g.byzVote("pv", 8, -1, byz)
	g.dlMatch(X, voteOf("pv", 3, g.idx(Y)))
	g.dlMatch(X, voteOf("pv", 4, g.idx(Z)))
	g.dlMatch(X, voteOf("pv", 5, g.idx(Z)))
	g.dlMatch(X, voteOf("pv", 7, byz))
	g.dlMatch(X, voteOf("pv", 8, byz))
	g.dlMatch(X, voteOf("pv", 6, g.idx(Y)))
	g.dlMatch(X, isVote("pv", 6))
	if rs := g.nt.nodes[X].node.RS(); g.nt.nodes[X].live() && rs.Round == 6 && rs.LockedRound == 0 {
		stat("skipped-over-the-polka-round")
	}
	if r.Intn(2) == 0 {
		// the releasing polka, explicitly, before the synchrony point
		g.dlMatch(X, isVote("pv", 2))
	}
	g.syncSuffixRounds(140, false, 8)
	return g.finish("skip-over-polka")
}

// the majority-claim gate for conflicting votes, with the claim arriving for a PAST round: X is
// locked on b0 (round 0); in round 1 the faulty validator F equivocates — prevote nil to X, prevote
// b1 to Y and Z, who therefore see the polka for b1 and lock it; everybody moves on to round 2. At
// the synchrony point X holds F's nil prevote of round 1, so F's prevote for b1 is a CONFLICTING
// vote: the vote set admits it only after a peer has claimed +2/3 for b1 in (round 1, prevote)
// (VoteSetMaj23 -> Reactor.ReceiveEnvelope -> HeightVoteSet.SetPeerMaj23, for ANY round of the
// height). Then X sees the polka of round 1, unlocks, and the height terminates.
func genEquivClaimPastRound(r *rand.Rand) core.Case {
	w := getWorld([]int64{1, 1, 1, 1}, nil, 0)
	byz := 3
	g := newGen(r, w, complement(4, []int{byz}))
	X, Y, Z := 0, 1, 2
	b0, b1 := w.proposers[0], w.proposers[1]
	if g.idx(X) != b0 || g.idx(Y) != b1 {
		return genStaleLock(r)
	}
	all := []int{X, Y, Z}
	for _, i := range all {
		g.fire(i)
	}
	correctOf := func(t string, rr int) func(*msg) bool {
		return func(m *msg) bool { return m.kind == "vote" && m.t == t && m.r == rr && m.by != byz }
	}
	// round 0: only X sees the polka for b0 and locks it
	g.dlMatch(Y, func(m *msg) bool { return (m.kind == "prop" && m.r == 0) || (m.kind == "block" && m.b == b0) })
	g.fireIf(Z, cstypes.RoundStepPropose)
	kB := g.byzVote("pv", 0, b0, byz)
	kN := g.byzVote("pv", 0, -1, byz)
	g.dl(X, kB)
	g.dl(Y, kN)
	g.dl(Z, kN)
	for _, i := range all {
		g.dlMatch(i, correctOf("pv", 0))
	}
	g.fireIf(Y, cstypes.RoundStepPrevoteWait)
	g.fireIf(Z, cstypes.RoundStepPrevoteWait)
	g.byzVote("pc", 0, -1, byz)
	for _, i := range all {
		g.dlMatch(i, isVote("pc", 0))
	}
	for _, i := range all {
		g.fireIf(i, cstypes.RoundStepPrecommitWait)
	}
	// round 1: Y proposes b1; F tells X "nil" and Y, Z "b1"
	for _, i := range []int{X, Z} {
		g.dlMatch(i, func(m *msg) bool { return (m.kind == "prop" && m.r == 1) || (m.kind == "block" && m.b == b1) })
	}
	g.fireIf(X, cstypes.RoundStepPropose)
	kN1 := g.byzVote("pv", 1, -1, byz)
	kB1 := g.byzVote("pv", 1, b1, byz)
	g.dl(X, kN1)
	g.dl(Y, kB1)
	g.dl(Z, kB1)
	for _, i := range all {
		g.dlMatch(i, correctOf("pv", 1))
	}
	g.fireIf(X, cstypes.RoundStepPrevoteWait)
	g.byzVote("pc", 1, -1, byz)
	for _, i := range all {
		g.dlMatch(i, isVote("pc", 1))
	}
	for _, i := range all {
		g.fireIf(i, cstypes.RoundStepPrecommitWait)
	}
	if rs := g.nt.nodes[X].node.RS(); g.nt.nodes[X].live() && rs.Round == 2 && rs.LockedRound == 0 &&
		g.nt.nodes[Y].node.RS().LockedRound == 1 && g.nt.nodes[Z].node.RS().LockedRound == 1 {
		stat("locked-node-holds-the-equivocators-other-vote")
	}
	switch r.Intn(3) {
	case 0:
	case 1:
		// the claim and the conflicting vote explicitly, before the synchrony point
		g.do(fmt.Sprintf("claim node=%d from=%d", g.idx(X), g.idx(Y)))
		g.dl(X, kB1)
	default:
		// the conflicting vote first (refused), the claim later (closure)
		g.dl(X, kB1)
	}
	g.syncSuffixRounds(140, false, 8)
	return g.finish("equivocator-past-round-claim")
}

// skewed validator set (reached through validator updates): most of the power walks through the
// rounds one by one, one node is cut off and then skips several rounds at once
func genSkipPath(r *rand.Rand) core.Case {
	sk := getSkewed()
	if len(sk) == 0 {
		return genRandom(r, 40, false)
	}
	s := sk[r.Intn(len(sk))]
	w := getWorld(s.powers, s.prios, s.prop)
	var a, b int
	fmt.Sscanf(w.pathDep, "%d->%d", &a, &b)
	n := len(w.powers)
	g := newGen(r, w, complement(n, nil))
	// the skipper: the smallest validator
	S := n - 1
	if r.Intn(3) == 0 {
		S = 1 + r.Intn(n-1)
	}
	for i := range g.nt.nodes {
		g.fire(i)
	}
	noProp := func(rr int) func(*msg) bool {
		return func(m *msg) bool { return m.kind == "vote" && m.r == rr }
	}
	walk := func(nodes []int, rr int) {
		for _, i := range nodes {
			g.fireIf(i, cstypes.RoundStepPropose)
		}
		for _, i := range nodes {
			g.dlMatch(i, noProp(rr))
		}
		for _, i := range nodes {
			g.fireIf(i, cstypes.RoundStepPrevoteWait)
		}
		for _, i := range nodes {
			g.dlMatch(i, noProp(rr))
		}
		for _, i := range nodes {
			g.fireIf(i, cstypes.RoundStepPrecommitWait)
		}
	}
	var all, walkers []int
	for i := range g.nt.nodes {
		all = append(all, i)
		if i != S {
			walkers = append(walkers, i)
		}
	}
	for rr := 0; rr < a; rr++ {
		walk(all, rr)
	}
	for rr := a; rr < b; rr++ {
		walk(walkers, rr)
	}
	for _, i := range walkers {
		g.fireIf(i, cstypes.RoundStepPropose)
	}
	g.dlMatch(S, isVote("pv", b))
	if g.nt.nodes[S].live() && g.round(S) == b {
		stat("skipper-jumped")
	}
	if r.Intn(2) == 0 {
		g.randomPrefix(r.Intn(30))
	}
	g.syncSuffix(90, false)
	return g.finish("skip-path")
}

func describe(c core.Case, out []string) string {
	var b strings.Builder
	for i, op := range c.Ops {
		fmt.Fprintf(&b, "> %s\n", op)
		if i < len(out) {
			fmt.Fprintf(&b, "  %s\n", out[i])
		}
	}
	return b.String()
}
