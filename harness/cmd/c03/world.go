package main

import (
	"bytes"
	"crypto/sha256"
	"fmt"
	"sort"
	"strconv"
	"strings"
	"sync"
	"time"

	cfg "github.com/tendermint/tendermint/config"
	"github.com/tendermint/tendermint/crypto"
	"github.com/tendermint/tendermint/crypto/ed25519"
	sm "github.com/tendermint/tendermint/state"
	"github.com/tendermint/tendermint/types"
)

const (
	chainID   = "verif-c03"
	maxRounds = 40 // = Tmv.Sync.roundCap
)

var genesisTime = time.Unix(1_000_000_000, 0).UTC()

// world = a validator set (powers in set order, optionally explicit proposer priorities and
// proposer: the set a chain reaches after validator updates), its keys, the genesis-like state and
// the proposer table (k single IncrementProposerPriority(1) calls, k = 0..maxRounds).
type world struct {
	powers    []int64
	prios     []int64 // nil = what MakeGenesisState yields
	prop      int
	keys      []crypto.PrivKey // by validator index (set order)
	state     sm.State
	proposers []int
	pathDep   string // "" or "a->b": IncrementProposerPriority(b-a) after a single steps names another proposer than b single steps
	blocks    []blockInfo
}

var (
	worldMtx sync.Mutex
	worlds   = map[string]*world{}
)

func intsKey(p []int64) string {
	if len(p) == 0 {
		return "-"
	}
	s := make([]string, len(p))
	for i, x := range p {
		s[i] = strconv.FormatInt(x, 10)
	}
	return strings.Join(s, ",")
}

func parseInts(s string) ([]int64, bool) {
	if s == "" || s == "-" {
		return nil, true
	}
	var out []int64
	for _, p := range strings.Split(s, ",") {
		x, err := strconv.ParseInt(p, 10, 64)
		if err != nil {
			return nil, false
		}
		out = append(out, x)
	}
	return out, true
}

// canonical keys: n keys from fixed secrets, sorted by address, so that validator index i (set
// order: power descending, address ascending) is key i for any non-increasing power list.
func canonicalKeys(n int) []crypto.PrivKey {
	ks := make([]crypto.PrivKey, n)
	for i := range ks {
		ks[i] = ed25519.GenPrivKeyFromSecret([]byte(fmt.Sprintf("verif-c03-val-%d-%d", n, i)))
	}
	sort.Slice(ks, func(i, j int) bool {
		return bytes.Compare(ks[i].PubKey().Address(), ks[j].PubKey().Address()) < 0
	})
	return ks
}

func getWorld(powers, prios []int64, prop int) *world {
	worldMtx.Lock()
	defer worldMtx.Unlock()
	k := intsKey(powers) + "/" + intsKey(prios) + "/" + strconv.Itoa(prop)
	if w, ok := worlds[k]; ok {
		return w
	}
	n := len(powers)
	keys := canonicalKeys(n)
	gvals := make([]types.GenesisValidator, n)
	for i := 0; i < n; i++ {
		gvals[i] = types.GenesisValidator{PubKey: keys[i].PubKey(), Power: powers[i]}
	}
	gd := &types.GenesisDoc{GenesisTime: genesisTime, ChainID: chainID, InitialHeight: 1, Validators: gvals}
	if err := gd.ValidateAndComplete(); err != nil {
		panic(err)
	}
	st, err := sm.MakeGenesisState(gd)
	if err != nil {
		panic(err)
	}
	for i, v := range st.Validators.Validators {
		if !bytes.Equal(v.Address, keys[i].PubKey().Address()) || v.VotingPower != powers[i] {
			panic("validator set order is not the canonical key order")
		}
	}
	if prios != nil {
		for i, v := range st.Validators.Validators {
			v.ProposerPriority = prios[i]
		}
		st.Validators.Proposer = st.Validators.Validators[prop]
		st.NextValidators = st.Validators.CopyIncrementProposerPriority(1)
	}
	w := &world{powers: powers, prios: prios, prop: prop, keys: keys, state: st}
	singles := singleSteps(st.Validators)
	for r := 0; r <= maxRounds; r++ {
		idx, _ := st.Validators.GetByAddress(singles[r].GetProposer().Address)
		w.proposers = append(w.proposers, int(idx))
	}
	w.pathDep = pathDep(singles)
	w.blocks = makeBlocks(w)
	worlds[k] = w
	return w
}

func singleSteps(vs *types.ValidatorSet) []*types.ValidatorSet {
	singles := make([]*types.ValidatorSet, maxRounds+1)
	singles[0] = vs.Copy()
	for r := 1; r <= maxRounds; r++ {
		singles[r] = singles[r-1].Copy()
		singles[r].IncrementProposerPriority(1)
	}
	return singles
}

// "" or "a->b": IncrementProposerPriority(b-a) applied after a single steps names another proposer
// than b single steps do
func pathDep(singles []*types.ValidatorSet) string {
	for a := 0; a < 10; a++ {
		for b := a + 2; b <= a+8 && b <= maxRounds; b++ {
			c := singles[a].Copy()
			c.IncrementProposerPriority(int32(b - a))
			if !bytes.Equal(c.GetProposer().Address, singles[b].GetProposer().Address) {
				return fmt.Sprintf("%d->%d", a, b)
			}
		}
	}
	return ""
}

type blockInfo struct {
	block *types.Block
	parts *types.PartSet
	id    types.BlockID
}

// block ids: 0..n-1 = what createProposalBlock of validator i yields (no txs); n..2n-1 = a second
// valid block "by" validator i-n (one tx; what an equivocating proposer sends); 2n = a block that
// fails ValidateBlock; 2n+1 = an id nobody has a block for.
func (w *world) nIDs() int    { return 2*len(w.powers) + 2 }
func (w *world) invalid() int { return 2 * len(w.powers) }

func makeBlocks(w *world) []blockInfo {
	n := len(w.powers)
	out := make([]blockInfo, w.nIDs())
	emptyCommit := types.NewCommit(0, 0, types.BlockID{}, nil)
	for i := 0; i <= 2*n; i++ {
		var txs []types.Tx
		if i >= n {
			txs = []types.Tx{types.Tx(fmt.Sprintf("k%d=v%d", i, i))}
		}
		b, _ := w.state.MakeBlock(1, txs, emptyCommit, nil, w.keys[i%n].PubKey().Address())
		if i == 2*n {
			b.Header.AppHash = []byte("not the app hash")
		}
		ps := b.MakePartSet(types.BlockPartSizeBytes)
		if ps.Total() != 1 {
			panic("blocks are expected to have one part")
		}
		out[i] = blockInfo{b, ps, types.BlockID{Hash: b.Hash(), PartSetHeader: ps.Header()}}
	}
	h := sha256.Sum256([]byte("unknown-block"))
	h2 := sha256.Sum256([]byte("unknown-parts"))
	out[2*n+1] = blockInfo{nil, nil, types.BlockID{Hash: h[:], PartSetHeader: types.PartSetHeader{Total: 1, Hash: h2[:]}}}
	return out
}

func cfgLine(w *world, correct []int, skew int64) string {
	ps := make([]string, len(w.proposers))
	for i, p := range w.proposers {
		ps[i] = strconv.Itoa(p)
	}
	cs := make([]string, len(correct))
	for i, c := range correct {
		cs[i] = strconv.Itoa(c)
	}
	def := cfg.DefaultConsensusConfig()
	ms := func(d time.Duration) int64 { return int64(d / time.Millisecond) }
	return fmt.Sprintf("cfg n=%d powers=%s prios=%s prop=%d correct=%s proposers=%s invalid=%d ids=%d tmo=%d,%d,%d,%d,%d,%d skew=%d",
		len(w.powers), intsKey(w.powers), intsKey(w.prios), w.prop, strings.Join(cs, ","), strings.Join(ps, ","), w.invalid(), w.nIDs(),
		ms(def.TimeoutPropose), ms(def.TimeoutProposeDelta), ms(def.TimeoutPrevote), ms(def.TimeoutPrevoteDelta),
		ms(def.TimeoutPrecommit), ms(def.TimeoutPrecommitDelta), skew)
}

// reachable skewed validator sets: the chain's own recipe (state/execution.go updateState:
// NextValidators.Copy(), UpdateWithChangeSet, IncrementProposerPriority(1) per height) applied to
// throw-away keys; returned in set order.
type skewed struct {
	powers, prios []int64
	prop          int
}

func historySets(seed int64, want int) []skewed {
	rnd := newLCG(seed)
	var out []skewed
	seen := map[string]bool{}
	for tries := 0; tries < 4000 && len(out) < want; tries++ {
		n := 4 + rnd.intn(3)
		var vals []*types.Validator
		keys := make([]crypto.PrivKey, n)
		for i := range keys {
			keys[i] = ed25519.GenPrivKeyFromSecret([]byte(fmt.Sprintf("hist-%d-%d-%d", seed, tries, i)))
		}
		start := n - 1 - rnd.intn(2)
		for i := 0; i < start; i++ {
			vals = append(vals, types.NewValidator(keys[i].PubKey(), int64(1+rnd.intn(60))))
		}
		vs := types.NewValidatorSet(vals)
		added := start
		for h := 0; h < 14; h++ {
			nvs := vs.Copy()
			if rnd.intn(3) == 0 {
				var ch []*types.Validator
				if added < n && rnd.intn(2) == 0 {
					ch = append(ch, types.NewValidator(keys[added].PubKey(), int64(1+rnd.intn(20)*rnd.intn(400))))
					added++
				} else {
					i := rnd.intn(added)
					ch = append(ch, types.NewValidator(keys[i].PubKey(), int64(1+rnd.intn(30)*rnd.intn(300))))
				}
				if err := nvs.UpdateWithChangeSet(ch); err != nil {
					continue
				}
			}
			nvs.IncrementProposerPriority(1)
			vs = nvs
			if vs.Size() != n {
				continue
			}
			var mx int64
			for _, v := range vs.Validators {
				if v.VotingPower > mx {
					mx = v.VotingPower
				}
			}
			// no validator above 2/3 (it would decide alone) and at least 4% for the smallest
			if 3*mx >= 2*vs.TotalVotingPower() || pathDep(singleSteps(vs)) == "" {
				continue
			}
			var s skewed
			for i, v := range vs.Validators {
				s.powers = append(s.powers, v.VotingPower)
				s.prios = append(s.prios, v.ProposerPriority)
				if bytes.Equal(v.Address, vs.GetProposer().Address) {
					s.prop = i
				}
			}
			k := intsKey(s.powers) + "/" + intsKey(s.prios)
			if seen[k] {
				continue
			}
			w := getWorld(s.powers, s.prios, s.prop)
			if w.pathDep != "" {
				seen[k] = true
				out = append(out, s)
				break
			}
		}
	}
	return out
}

// small deterministic generator for the constant table above (not a case generator)
type lcg struct{ s uint64 }

func newLCG(seed int64) *lcg { return &lcg{uint64(seed)*2862933555777941757 + 3037000493} }
func (l *lcg) intn(n int) int {
	l.s = l.s*6364136223846793005 + 1442695040888963407
	return int((l.s >> 33) % uint64(n))
}
