// C03 stream ("c03-sync" of DESIGN.md): n real consensus.State nodes (one per correct validator)
// in one process, driven synchronously through handleMsg / handleTimeout (build tag verif): an
// adversarial asynchronous prefix (partitions, delays, faulty validators with < 1/3 of the power
// equivocating / withholding, scripted splits) followed by a synchronous suffix with idealised
// gossip (closure: every logged message and every majority claim reaches every correct node;
// timeouts fire only when the net is closed). The same schedule runs on the Lean model
// (Tmv.Sync over Tmv.Cons.step) and every answer line is compared; the oracle checks termination
// within the bound, agreement, and that correct nodes agree on the proposer of a round.
package main

import (
	"fmt"
	"math/rand"
	"os"
	"sort"
	"strconv"
	"strings"

	"verifharness/core"
)

func execCase(c core.Case) []string {
	var nt *net
	defer func() { nt.close() }()
	out := make([]string, 0, len(c.Ops))
	for _, op := range c.Ops {
		if strings.HasPrefix(op, "cfg ") {
			nt.close()
			nt = newNet(op)
			if nt == nil {
				out = append(out, "bad-op")
			} else {
				out = append(out, "ok")
			}
			continue
		}
		if nt == nil {
			out = append(out, "bad-op")
			continue
		}
		out = append(out, nt.apply(op))
	}
	return out
}

// ---- the property oracle, on the implementation's output lines only ----

type nodeView struct {
	decided string // "b@r" or ""
	halted  bool
	r       int
	step    string
	lb      string
	vb      string
	pr      int
	cr      int
	lr      int
	polkas  map[int]string // round -> recorded +2/3 prevote majority
	rounds  map[int]bool   // rounds that have a vote set
}

func field(line, k string) string {
	for _, t := range strings.Fields(line) {
		if strings.HasPrefix(t, k+"=") {
			return t[len(k)+1:]
		}
	}
	return ""
}

// parseNode reads "n<i> r=.. s=.. ..." / "n<i> decided b@r" / "n<i> halted"
func parseNode(s string) (int, nodeView, bool) {
	s = strings.TrimSpace(s)
	if i := strings.Index(s, " |"); i >= 0 {
		s = s[:i]
	}
	f := strings.Fields(s)
	if len(f) < 2 || !strings.HasPrefix(f[0], "n") {
		return 0, nodeView{}, false
	}
	id, err := strconv.Atoi(f[0][1:])
	if err != nil {
		return 0, nodeView{}, false
	}
	var v nodeView
	switch f[1] {
	case "halted":
		v.halted = true
		return id, v, true
	case "decided":
		if len(f) < 3 {
			return 0, v, false
		}
		v.decided = f[2]
		return id, v, true
	}
	v.r, _ = strconv.Atoi(field(s, "r"))
	v.step = field(s, "s")
	v.lb = field(s, "lb")
	v.vb = field(s, "vb")
	v.pr, _ = strconv.Atoi(field(s, "pr"))
	v.cr, _ = strconv.Atoi(field(s, "cr"))
	v.lr, _ = strconv.Atoi(field(s, "lr"))
	v.polkas = map[int]string{}
	v.rounds = map[int]bool{}
	for _, e := range strings.Split(field(s, "hv"), ",") {
		// "<round>:P<sum>/<maj>/<buckets>:C…"
		parts := strings.SplitN(e, ":", 3)
		if len(parts) < 2 || !strings.HasPrefix(parts[1], "P") {
			continue
		}
		q, err := strconv.Atoi(parts[0])
		if err == nil {
			v.rounds[q] = true
		}
		f := strings.Split(parts[1], "/")
		if err == nil && len(f) >= 2 && f[1] != "-" {
			v.polkas[q] = f[1]
		}
	}
	return id, v, true
}

var (
	histRounds = map[string]int{} // rounds between the synchrony point and the last decision
	histSlack  = map[string]int{} // bound - decision round
	histEnd    = map[string]int{}
	histPasses = map[string]int{} // gossip passes per closure (the last one changes nothing)
	counted    = map[string]bool{}
)

func oracle(c core.Case, out []string) []core.Finding {
	var fs []core.Finding
	add := func(fp, desc string) {
		for _, f := range fs {
			if f.Fingerprint == fp {
				return
			}
		}
		fs = append(fs, core.Finding{Fingerprint: fp, Desc: desc})
	}
	var proposers []int64
	correct := map[int]bool{}
	views := map[int]nodeView{}
	synced := false
	syncR := -1
	bound := -1    // absolute round by which every correct node must have decided
	afterSync := 0 // closures seen after the synchrony point
	var lastEnd string
	// for every node and round q: the round the node was in BEFORE the move during which the +2/3
	// prevote majority of round q first showed up in its vote set
	prevRound := map[int]int{}
	roundAtPolka := map[int]map[int]int{}
	observe := func(id int, v nodeView) {
		if v.decided == "" && !v.halted {
			if roundAtPolka[id] == nil {
				roundAtPolka[id] = map[int]int{}
			}
			for q := range v.polkas {
				if _, ok := roundAtPolka[id][q]; !ok {
					roundAtPolka[id][q] = prevRound[id]
				}
			}
			prevRound[id] = v.r
		}
	}
	check := func(i int) {
		// agreement on the proposer of a round, among correct nodes that are in that round
		ids := make([]int, 0, len(views))
		for id := range views {
			ids = append(ids, id)
		}
		sort.Ints(ids)
		for _, a := range ids {
			for _, b := range ids {
				va, vb := views[a], views[b]
				if a < b && va.decided == "" && vb.decided == "" && !va.halted && !vb.halted && va.r == vb.r && va.pr != vb.pr {
					add("state.enterNewRound.proposer-depends-on-skipped-rounds",
						fmt.Sprintf("correct nodes %d and %d are both in round %d but take validator %d resp. %d for its proposer (op %d)", a, b, va.r, va.pr, vb.pr, i))
				}
				if a < b && va.decided != "" && vb.decided != "" && strings.Split(va.decided, "@")[0] != strings.Split(vb.decided, "@")[0] {
					add("agreement.two-blocks-decided", fmt.Sprintf("correct nodes %d and %d decided %s and %s", a, b, va.decided, vb.decided))
				}
			}
		}
	}
	for i, op := range c.Ops {
		if i >= len(out) {
			break
		}
		f := strings.Fields(op)
		if len(f) == 0 {
			continue
		}
		o := out[i]
		switch f[0] {
		case "cfg":
			if o != "ok" {
				return fs
			}
			m := kv(op)
			proposers, _ = parseInts(m["proposers"])
			cl, _ := parseInts(m["correct"])
			correct = map[int]bool{}
			for _, x := range cl {
				correct[int(x)] = true
			}
			views = map[int]nodeView{}
			prevRound = map[int]int{}
			roundAtPolka = map[int]map[int]int{}
			synced, syncR, bound, afterSync, lastEnd = false, -1, -1, 0, ""
		case "dl", "claim", "byzclaim", "fire":
			if id, v, ok := parseNode(o); ok {
				views[id] = v
				observe(id, v)
				if v.halted {
					add("state.correct-node-panics", fmt.Sprintf("correct node %d halted with a panic (op %d: %s)", id, i, o[strings.Index(o, " |")+1:]))
				}
				check(i)
			}
		case "closure":
			if pp := field(strings.SplitN(o, " ;; ", 2)[0], "p"); pp != "" {
				statMtx.Lock()
				if !counted["p/"+c.ID+"/"+strconv.Itoa(i)] {
					counted["p/"+c.ID+"/"+strconv.Itoa(i)] = true
					histPasses[pp]++
				}
				statMtx.Unlock()
				if pp == "fuel" {
					add("sync.closure-did-not-converge", fmt.Sprintf("the gossip closure was still changing node states after 64 passes (op %d)", i))
				}
			}
			parts := strings.Split(o, " ;; ")
			for _, p := range parts[1:] {
				if id, v, ok := parseNode(p); ok {
					views[id] = v
					observe(id, v)
				}
			}
			check(i)
			if synced {
				afterSync++
				if afterSync == 1 && proposers != nil {
					// the bound of termination_partial: the first round after the highest round a
					// correct node is in whose proposer is correct and, if correct nodes are locked,
					// is one of them (it re-proposes the locked block with its POL round)
					R1 := syncR
					locked := map[int]bool{}
					for id, v := range views {
						if v.decided == "" && !v.halted {
							if v.r > R1 {
								R1 = v.r
							}
							if v.lb != "-" && v.lb != "" {
								locked[id] = true
							}
						}
					}
					bound = maxRounds
					for r := R1 + 1; r < len(proposers); r++ {
						p := int(proposers[r])
						if correct[p] && (len(locked) == 0 || locked[p]) {
							bound = r
							break
						}
					}
				}
			}
		case "sync":
			if strings.HasPrefix(o, "sync R=") {
				synced = true
				syncR, _ = strconv.Atoi(o[len("sync R="):])
			}
		case "end":
			lastEnd = o
		}
	}
	if !synced || lastEnd == "" || !strings.HasPrefix(lastEnd, "end ") {
		return fs
	}
	dec := strings.Split(field(lastEnd, "decided"), ",")
	pend := strings.Split(field(lastEnd, "pending"), ",")
	closed := field(lastEnd, "closed") == "1"
	endR, _ := strconv.Atoi(field(lastEnd, "R"))
	undecided, noTimer, lastDecision := 0, true, -1
	for k, d := range dec {
		if d == "-" {
			undecided++
			if k < len(pend) && pend[k] != "-" {
				noTimer = false
			}
		} else if at := strings.IndexByte(d, '@'); at > 0 {
			r, _ := strconv.Atoi(d[at+1:])
			if r > lastDecision {
				lastDecision = r
			}
		}
	}
	statMtx.Lock()
	defer statMtx.Unlock()
	// histograms count every case once (the runner calls the oracle again while shrinking)
	count := !counted[c.ID]
	counted[c.ID] = true
	bump := func(m map[string]int, k string) {
		if count {
			m[k]++
		}
	}
	switch {
	case undecided == 0:
		bump(histEnd, "all-decided")
		bump(histRounds, strconv.Itoa(max(0, lastDecision-syncR)))
		if bound >= 0 {
			bump(histSlack, strconv.Itoa(bound-lastDecision))
			if lastDecision > bound {
				add("sync.decision-later-than-bound",
					fmt.Sprintf("all messages delivered from round %d on, but the last correct node decided in round %d, later than round %d (first round whose proposer is correct and holds the lock)", syncR, lastDecision, bound))
			}
		}
	case closed && noTimer:
		bump(histEnd, "stuck")
		// who is stuck, and in which state
		var desc []string
		class := "other"
		for id, v := range views {
			if v.decided == "" && !v.halted {
				desc = append(desc, fmt.Sprintf("node %d: round %d step %s commit-round %d", id, v.r, v.step, v.cr))
				if v.cr >= 0 && v.step != "commit" {
					class = "left-commit-step"
				} else if v.step == "commit" && class == "other" {
					class = "in-commit-step"
				}
			}
		}
		sort.Strings(desc)
		add("sync.correct-node-never-decides."+class,
			fmt.Sprintf("every message is delivered and no timeout is pending, yet %d correct node(s) have not decided (%s); decided: %s", undecided, strings.Join(desc, "; "), strings.Join(dec, ",")))
	default:
		bump(histEnd, "inconclusive")
		// a correct node still locked on a block although it holds a polka for something else from a
		// later round that it has reached: the unlock rule was never re-evaluated
		// — the known defect only if the polka arrived while the node was still in an EARLIER round (then
		// the rule `LockedRound < vote.Round <= cs.Round` legitimately did not fire); a lock that survives a
		// polka of a round the node had already reached is something else
		stale, late := "", ""
		for id, v := range views {
			if v.decided == "" && !v.halted && v.lb != "-" && v.lb != "" {
				for q, val := range v.polkas {
					if v.lr < q && q <= v.r && val != v.lb {
						d := fmt.Sprintf("node %d is locked on block %s since round %d although it holds +2/3 prevotes for %s from round %d (it is in round %d; it was in round %d when that majority arrived)", id, v.lb, v.lr, val, q, v.r, roundAtPolka[id][q])
						if roundAtPolka[id][q] < q {
							stale = d
						} else {
							late = d
						}
					}
				}
			}
		}
		// a correct node still locked although ANOTHER correct node holds a releasing polka (for a round
		// the locked node has reached) that the locked node has not recorded — after closure, i.e. with
		// every vote and every majority claim handed over
		gate, untracked := "", ""
		for id, v := range views {
			if v.decided != "" || v.halted || v.lb == "-" || v.lb == "" {
				continue
			}
			for id2, v2 := range views {
				if id2 == id || v2.halted {
					continue
				}
				for q, val := range v2.polkas {
					if _, has := v.polkas[q]; !has && v.lr < q && q <= v.r && val != v.lb {
						d := fmt.Sprintf("node %d is locked on block %s since round %d and has not recorded the +2/3 prevotes for %s of round %d that node %d holds", id, v.lb, v.lr, val, q, id2)
						if v.rounds[q] {
							gate = d + " (it tracks that round: a conflicting vote was not admitted although a peer claimed the majority)"
						} else {
							untracked = d + " (it has no vote set for that round)"
						}
					}
				}
			}
		}
		if bound >= 0 && endR > bound+1 && late == "" && stale == "" && gate != "" {
			add("sync.conflicting-vote-not-admitted.peer-maj23-claim-ignored",
				fmt.Sprintf("all messages and majority claims delivered from round %d on, correct nodes reached round %d without deciding (bound was round %d): %s", syncR, endR, bound, gate))
		} else if bound >= 0 && endR > bound+1 && late == "" && stale == "" && untracked != "" {
			add("sync.releasing-polka-refused.round-not-tracked",
				fmt.Sprintf("all messages delivered from round %d on, correct nodes reached round %d without deciding (bound was round %d): %s", syncR, endR, bound, untracked))
		} else if bound >= 0 && endR > bound+1 && late != "" {
			add("sync.lock-not-released-by-polka-of-reached-round",
				fmt.Sprintf("all messages delivered from round %d on, correct nodes reached round %d without deciding (bound was round %d): %s", syncR, endR, bound, late))
		} else if bound >= 0 && endR > bound+1 && stale != "" {
			add("sync.stale-lock-never-released",
				fmt.Sprintf("all messages delivered from round %d on, correct nodes reached round %d without deciding (bound was round %d): %s", syncR, endR, bound, stale))
		} else if bound >= 0 && endR > bound+1 {
			add("sync.decision-later-than-bound",
				fmt.Sprintf("all messages delivered from round %d on, correct nodes reached round %d without all deciding; bound was round %d", syncR, endR, bound))
		}
	}
	return fs
}

func main() {
	// C03_SHOW=<kind>:<seed> prints one generated case with the implementation's answers
	if e := os.Getenv("C03_SHOW"); e != "" {
		f := strings.Split(e, ":")
		seed, _ := strconv.ParseInt(f[1], 10, 64)
		r := rand.New(rand.NewSource(seed))
		var c core.Case
		switch f[0] {
		case "split":
			c = genSplitLocks(r)
		case "commit":
			c = genCommitNoBlock(r)
		case "skip":
			c = genSkipPath(r)
		case "foreign":
			c = genCommitForeignProposal(r)
		case "equiv":
			c = genEquivPrecommitPastClaim(r)
		case "unlucky":
			c = genUnluckyOrder(r)
		case "stale":
			c = genStaleLock(r)
		case "skipover":
			c = genSkipOverPolka(r)
		case "pastclaim":
			c = genEquivClaimPastRound(r)
		default:
			c = genRandom(r, 80, f[0] == "hostile")
		}
		out := execCase(c)
		fmt.Print(describe(c, out))
		for _, fd := range oracle(c, out) {
			fmt.Println("FINDING", fd.Fingerprint, fd.Desc)
		}
		return
	}
	core.Main(core.Prop{
		ID:     "C03",
		Driver: "c03",
		Gen: func(r *rand.Rand, tier string, emit func(core.Case)) {
			n := 60
			if tier == "thorough" {
				n = 600
			}
			for i := 0; i < n; i++ {
				emit(genSplitLocks(r))
				emit(genCommitNoBlock(r))
				emit(genSkipPath(r))
				emit(genCommitForeignProposal(r))
				emit(genEquivPrecommitPastClaim(r))
				emit(genUnluckyOrder(r))
				emit(genStaleLock(r))
				emit(genSkipOverPolka(r))
				emit(genEquivClaimPastRound(r))
				emit(genRandom(r, 60, false))
				emit(genRandom(r, 160, false))
				emit(genRandom(r, 60, true))
			}
		},
		Exec:   execCase,
		Oracle: oracle,
		NonTrivial: func(c core.Case, out []string) bool {
			for _, o := range out {
				if strings.HasPrefix(o, "sync R=") {
					return true
				}
			}
			return false
		},
		Rule: "n real consensus.State nodes in one process (one per correct validator; kvstore app, MockPV signer, in-memory stores, nil WAL, recording ticker with the durations the node asked for; 3..7 validators from 7 power configurations plus skewed validator sets reached through validator updates; faulty validators with < 1/3 of the power, possibly none), driven synchronously through handleMsg/handleTimeout. Every case = adversarial asynchronous prefix, the synchrony point, a synchronous suffix (closure = every logged message and every majority claim to every correct node until nothing changes; then one eligible timeout — net closed, no other timer due more than skew earlier — or a move of a faulty validator; repeat). Prefixes: random (partitions re-drawn, per-message delays and re-deliveries, timeouts at any time, faulty validators equivocating in votes and proposals, voting for future rounds, withholding, bogus majority claims) and scripted: two correct nodes locked on different blocks from different rounds; a node that sees the commit (+2/3 precommits) without the block, optionally pulled out of the commit step by +2/3 prevotes of the next round; most of the power walking through rounds by timeouts while one node is cut off and then skips them at once (skewed sets); a node in the commit step without proposal receiving an equivocating proposer's proposal for another block before the committed block's parts; locks from different rounds with the releasing polka completed only after the locked node has moved to a later round (faulty validator silent afterwards); a faulty validator's equivocated round-0 precommit that the remaining nodes, already in round 1, can admit only through the decider's majority claim for the past round; a suffix with an unlucky delivery order every round (one node gets precommits before prevotes, or all votes before the proposal and its block, while a faulty validator helps the others to their polka and withholds its own block precommit so that every correct precommit is needed); a lock that outlives its releasing polka (the polka is completed at the locked node while it is still in an earlier round, then the node skips past that round); a multi-round skip over the round of the releasing polka, with every peer's catch-up rounds at the lagging node used up by stray votes first and the polka handed over only after the skip; an equivocating faulty validator whose second prevote completes a polka of a past round at a locked node and is admitted only through a peer's majority claim for that past round (delivered through the real Reactor.ReceiveEnvelope). Non-trivial = the case reached the synchrony point; distinct by hash of the op list",
		Assumptions: []string{
			"one height; a block id stands for (hash, part-set header) of a one-part block; block i is what createProposalBlock of validator i yields (checked at node construction); signatures ideal: correct nodes' messages are the objects they really signed, faulty validators' messages are signed by the harness with their keys",
			"idealised gossip as in the property's quantifier: closure hands every logged message (proposals, block parts, votes of all rounds) and every +2/3 majority claim of every correct node to every correct node, repeatedly until no node changes; votes arrive from the peer of their signer (2 catch-up rounds per peer apply)",
			"wall-clock timeouts are replaced by virtual time: a timer armed at time t with the duration the real node computed (config.Propose/Prevote/Precommit(round), default config) expires at t+duration; message delivery takes no time; in the synchronous suffix a timer may fire only when the net is closed and no other pending timer expires more than skew (< 1000 ms, the smallest timeout) earlier; the NewHeight timeout counts as 0",
			"clocks-not-behind is a hypothesis of the property (block time validity belongs to C06); create_empty_blocks on",
			"the oracle's bound: every correct node decides at the latest in the first round after the highest round reached at the first closure whose proposer (real rotation table) is correct and, if correct nodes are locked, is one of them; fairness of the rotation itself is not derived",
			"own messages are processed in FIFO order right after the input that caused them (the 1000-slot internal queue never overflows)",
		},
		Parallel: 8,
		Extra: func() map[string]interface{} {
			statMtx.Lock()
			defer statMtx.Unlock()
			return map[string]interface{}{
				"rounds_from_synchrony_to_last_decision": histRounds,
				"bound_minus_decision_round":             histSlack,
				"suffix_outcomes":                        histEnd,
				"gossip_passes_per_closure":              histPasses,
				"generator_events":                       statCount,
			}
		},
	})
}
