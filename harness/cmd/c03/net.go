package main

import (
	"bytes"
	"fmt"
	gonet "net"
	"sort"
	"strconv"
	"strings"
	"time"

	dbm "github.com/tendermint/tm-db"

	abcicli "github.com/tendermint/tendermint/abci/client"
	"github.com/tendermint/tendermint/abci/example/kvstore"
	cfg "github.com/tendermint/tendermint/config"
	"github.com/tendermint/tendermint/consensus"
	cstypes "github.com/tendermint/tendermint/consensus/types"
	"github.com/tendermint/tendermint/crypto"
	"github.com/tendermint/tendermint/libs/bits"
	"github.com/tendermint/tendermint/libs/log"
	tmsync "github.com/tendermint/tendermint/libs/sync"
	mempoolmock "github.com/tendermint/tendermint/mempool/mock"
	"github.com/tendermint/tendermint/p2p"
	p2pmock "github.com/tendermint/tendermint/p2p/mock"
	tmcons "github.com/tendermint/tendermint/proto/tendermint/consensus"
	tmproto "github.com/tendermint/tendermint/proto/tendermint/types"
	sm "github.com/tendermint/tendermint/state"
	"github.com/tendermint/tendermint/store"
	"github.com/tendermint/tendermint/types"
)

func kv(op string) map[string]string {
	m := map[string]string{}
	f := strings.Fields(op)
	if len(f) == 0 {
		return m
	}
	for _, t := range f[1:] {
		if i := strings.IndexByte(t, '='); i > 0 {
			m[t[:i]] = t[i+1:]
		}
	}
	return m
}

var stepNames = map[cstypes.RoundStepType]string{
	cstypes.RoundStepNewHeight: "newHeight", cstypes.RoundStepNewRound: "newRound", cstypes.RoundStepPropose: "propose",
	cstypes.RoundStepPrevote: "prevote", cstypes.RoundStepPrevoteWait: "prevoteWait", cstypes.RoundStepPrecommit: "precommit",
	cstypes.RoundStepPrecommitWait: "precommitWait", cstypes.RoundStepCommit: "commit",
}

// ---- a message on the wire ----

type msg struct {
	kind string // prop | block | vote
	t    string // pv | pc
	r    int
	b    int // -1 = nil
	pol  int
	by   int // signer (proposal: proposer key, vote: validator index)
	// the signed object (what the correct node really signed, or what the harness signed for a faulty validator)
	vote *types.Vote
	prop *types.Proposal
}

func bidStr(b int) string {
	if b < 0 {
		return "nil"
	}
	return strconv.Itoa(b)
}

func (m *msg) key() string {
	switch m.kind {
	case "prop":
		return fmt.Sprintf("prop(%d,%d,%d,%d)", m.r, m.b, m.pol, m.by)
	case "block":
		return fmt.Sprintf("block(%d)", m.b)
	default:
		return fmt.Sprintf("%s(%d,%s,%d)", m.t, m.r, bidStr(m.b), m.by)
	}
}

// ---- consensus/ticker.go timeoutRoutine, one height ----

type ticker struct {
	hasLast      bool
	lastR, lastS int
	pending      bool
	pendingR     int
	pendingS     cstypes.RoundStepType
	expiry       int64 // virtual time (ms)
}

func newTicker() ticker {
	return ticker{hasLast: true, lastR: 0, lastS: int(cstypes.RoundStepNewHeight), pending: true, pendingR: 0, pendingS: cstypes.RoundStepNewHeight}
}

func (t *ticker) schedule(expiry int64, r int, s cstypes.RoundStepType) {
	if t.hasLast {
		if r < t.lastR {
			return
		}
		if r == t.lastR && t.lastS > 0 && int(s) <= t.lastS {
			return
		}
	}
	t.hasLast, t.lastR, t.lastS = true, r, int(s)
	t.pending, t.pendingR, t.pendingS, t.expiry = true, r, s, expiry
}

func (t *ticker) show() string {
	if !t.pending {
		return "-"
	}
	return fmt.Sprintf("%d/%s@%d", t.pendingR, stepNames[t.pendingS], t.expiry)
}

// ---- one real node ----

type sim struct {
	nt      *net
	w       *world
	self    int
	node    *consensus.VerifNode
	bus     *types.EventBus
	bstore  *store.BlockStore
	events  []string
	nEvents int
	sent    []*msg // what this node signed during the current op
	halted  bool
	decided string
	tick    ticker
	conR    *consensus.Reactor  // the real consensus reactor around this node's State (never gossips: no switch peers)
	peers   map[p2p.ID]p2p.Peer // reactor-level peers by id
}

// fixedPeer is p2p/mock.Peer with a chosen id (the id the vote sets key catch-up rounds and majority
// claims by)
type fixedPeer struct {
	*p2pmock.Peer
	id p2p.ID
}

func (p fixedPeer) ID() p2p.ID { return p.id }

func (s *sim) peer(id p2p.ID) p2p.Peer {
	if pr, ok := s.peers[id]; ok {
		return pr
	}
	mp := p2pmock.NewPeer(gonet.IP{127, 0, 0, 1})
	mp.Stop() //nolint:errcheck // not running: Switch.StopPeerForError is then a no-op
	fp := fixedPeer{mp, id}
	mp.Set(types.PeerStateKey, consensus.NewPeerState(fp))
	s.peers[id] = fp
	return fp
}

// receiveMaj23 hands a VoteSetMaj23 message of peer `id` to the node the way the switch does:
// Reactor.ReceiveEnvelope on the state channel (which calls HeightVoteSet.SetPeerMaj23 and answers
// with VoteSetBits)
func (s *sim) receiveMaj23(round int32, t tmproto.SignedMsgType, id p2p.ID, bid types.BlockID) (panicked string) {
	defer func() {
		if r := recover(); r != nil {
			panicked = fmt.Sprint(r)
		}
	}()
	s.conR.ReceiveEnvelope(p2p.Envelope{
		Src:       s.peer(id),
		ChannelID: consensus.StateChannel,
		Message:   &tmcons.VoteSetMaj23{Height: 1, Round: round, Type: t, BlockID: bid.ToProto()},
	})
	return ""
}

type recPV struct {
	inner types.PrivValidator
	s     *sim
}

func (p *recPV) GetPubKey() (crypto.PubKey, error) { return p.inner.GetPubKey() }
func (p *recPV) SignVote(chain string, v *tmproto.Vote) error {
	err := p.inner.SignVote(chain, v)
	if err == nil && v.Height == 1 {
		t := "pv"
		if v.Type == tmproto.PrecommitType {
			t = "pc"
		}
		id, _ := types.BlockIDFromProto(&v.BlockID)
		p.s.event(fmt.Sprintf("%s(%d,%s)", t, v.Round, p.s.w.bidName(*id)))
		if vote, e := types.VoteFromProto(v); e == nil {
			p.s.sent = append(p.s.sent, &msg{kind: "vote", t: t, r: int(v.Round), b: p.s.w.bidIndex(*id), by: p.s.self, vote: vote})
		}
	}
	return err
}
func (p *recPV) SignProposal(chain string, pr *tmproto.Proposal) error {
	err := p.inner.SignProposal(chain, pr)
	if err == nil && pr.Height == 1 {
		id, _ := types.BlockIDFromProto(&pr.BlockID)
		p.s.event(fmt.Sprintf("prop(%d,%s,%d)", pr.Round, p.s.w.bidName(*id), pr.PolRound))
		if prop, e := types.ProposalFromProto(pr); e == nil {
			b := p.s.w.bidIndex(*id)
			p.s.sent = append(p.s.sent, &msg{kind: "prop", r: int(pr.Round), b: b, pol: int(pr.PolRound), by: p.s.self, prop: prop},
				&msg{kind: "block", b: b})
		}
	}
	return err
}

func (s *sim) event(e string) {
	s.events = append(s.events, e)
	s.nEvents++
}

func (w *world) bidIndex(id types.BlockID) int {
	if id.IsZero() {
		return -1
	}
	for i, b := range w.blocks {
		if b.id.Equals(id) {
			return i
		}
	}
	return -2
}

func (w *world) bidName(id types.BlockID) string {
	switch i := w.bidIndex(id); i {
	case -1:
		return "nil"
	case -2:
		return "?"
	default:
		return strconv.Itoa(i)
	}
}

func (w *world) blockName(b *types.Block) string {
	if b == nil {
		return "-"
	}
	h := b.Hash()
	for i, x := range w.blocks {
		if bytes.Equal(x.id.Hash, h) {
			return strconv.Itoa(i)
		}
	}
	return "?"
}

func newSim(nt *net, w *world, self int) *sim {
	s := &sim{nt: nt, w: w, self: self, tick: newTicker()}
	app := kvstore.NewApplication()
	mtx := new(tmsync.Mutex)
	proxyApp := abcicli.NewLocalClient(mtx, app)
	mp := mempoolmock.Mempool{}
	evpool := sm.EmptyEvidencePool{}
	stateStore := sm.NewStore(dbm.NewMemDB(), sm.StoreOptions{DiscardABCIResponses: false})
	if err := stateStore.Save(w.state); err != nil {
		panic(err)
	}
	s.bstore = store.NewBlockStore(dbm.NewMemDB())
	blockExec := sm.NewBlockExecutor(stateStore, log.NewNopLogger(), proxyApp, mp, evpool)
	cc := cfg.TestConsensusConfig()
	cc.SkipTimeoutCommit = false
	def := cfg.DefaultConsensusConfig()
	cc.TimeoutPropose, cc.TimeoutProposeDelta = def.TimeoutPropose, def.TimeoutProposeDelta
	cc.TimeoutPrevote, cc.TimeoutPrevoteDelta = def.TimeoutPrevote, def.TimeoutPrevoteDelta
	cc.TimeoutPrecommit, cc.TimeoutPrecommitDelta = def.TimeoutPrecommit, def.TimeoutPrecommitDelta
	cs := consensus.NewState(cc, w.state.Copy(), blockExec, s.bstore, mp, evpool)
	cs.SetLogger(log.NewNopLogger())
	cs.SetPrivValidator(&recPV{inner: types.NewMockPVWithParams(w.keys[self], false, false), s: s})
	s.bus = types.NewEventBus()
	s.bus.SetLogger(log.NewNopLogger())
	if err := s.bus.Start(); err != nil {
		panic(err)
	}
	cs.SetEventBus(s.bus)
	s.peers = map[p2p.ID]p2p.Peer{}
	s.conR = consensus.NewReactor(cs, true) // waitSync: the reactor never starts the State itself
	s.conR.SetLogger(log.NewNopLogger())
	sw := p2p.NewSwitch(cfg.DefaultP2PConfig(), nil)
	sw.SetLogger(log.NewNopLogger())
	s.conR.SetSwitch(sw)
	if err := s.conR.Start(); err != nil {
		panic(err)
	}
	s.node = consensus.NewVerifNodeTimed(cs, func(t consensus.VerifTimeoutD) {
		if t.Height == 1 {
			s.event(fmt.Sprintf("to(%d,%s)", t.Round, stepNames[t.Step]))
			var d int64
			switch t.Step {
			case cstypes.RoundStepPropose, cstypes.RoundStepPrevoteWait, cstypes.RoundStepPrecommitWait:
				// what config.Propose / Prevote / Precommit(round) returned; the NewHeight timeout
				// (relative to the wall clock) and the NewRound timeout count as 0
				d = int64(t.Duration / time.Millisecond)
			}
			s.tick.schedule(nt.now+d, int(t.Round), t.Step)
		}
	})
	b, _ := s.node.CreateProposalBlock()
	if !bytes.Equal(b.Hash(), w.blocks[self].id.Hash) {
		panic("block <self> is not what createProposalBlock yields")
	}
	return s
}

func (s *sim) close() {
	if s != nil && s.conR != nil {
		s.conR.Stop() //nolint:errcheck
	}
	if s != nil && s.bus != nil {
		s.bus.Stop() //nolint:errcheck
	}
}

func peerID(k int) p2p.ID {
	if k == 0 {
		return ""
	}
	return p2p.ID(fmt.Sprintf("peer%d", k))
}

func panicClass(p string) string {
	for _, c := range [][2]string{
		{"invalid timeout step", "invalid-timeout-step"},
		{"SetRound() must increment", "SetRound"},
		{"entering prevote wait step", "prevoteWait-no-any"},
		{"this POLRound should be", "POLRound"},
		{"+2/3 prevoted for an invalid block", "precommit-invalid-block"},
		{"entering precommit wait step", "precommitWait-no-any"},
		{"RunActionCommit() expects", "commit-no-maj23"},
		{"commit does not have 2/3 majority", "finalize-no-maj23"},
		{"expected ProposalBlockParts header", "finalize-header"},
		{"proposal block does not hash to commit hash", "finalize-hash"},
		{"+2/3 committed an invalid block", "finalize-invalid-block"},
	} {
		if strings.Contains(p, c[0]) {
			return c[1]
		}
	}
	return "other:" + strings.ReplaceAll(p, " ", "_")
}

func (s *sim) live() bool { return !s.halted && s.decided == "" }

// run executes one input on the real node; what it signed goes on the wire
func (s *sim) run(f func() string) {
	if !s.live() {
		return
	}
	s.sent = nil
	if p := f(); p != "" {
		s.halted = true
		s.event("panic(" + panicClass(p) + ")")
	} else if rs := s.node.RS(); rs.Height != 1 {
		blk := s.bstore.LoadBlock(1)
		sc := s.bstore.LoadSeenCommit(1)
		s.decided = fmt.Sprintf("%s@%d", s.w.blockName(blk), sc.Round)
		s.event(fmt.Sprintf("decide(%s,%d)", s.w.blockName(blk), sc.Round))
	}
	for _, m := range s.sent {
		s.nt.logAdd(m)
	}
	s.sent = nil
}

func (s *sim) deliver(m *msg) {
	switch m.kind {
	case "prop":
		s.run(func() string { return s.node.HandleProposal(m.prop, "peer1") })
	case "block":
		s.run(func() string {
			return s.node.HandleBlockPart(1, s.node.RS().Round, s.w.blocks[m.b].parts.GetPart(0), "peer1")
		})
	case "vote":
		s.run(func() string { return s.node.HandleVote(m.vote, peerID(1+m.by)) })
	}
}

func (s *sim) sumOf(ba *bits.BitArray) int64 {
	if ba == nil {
		return 0
	}
	var t int64
	for i := 0; i < ba.Size() && i < len(s.w.powers); i++ {
		if ba.GetIndex(i) {
			t += s.w.powers[i]
		}
	}
	return t
}

func (s *sim) showVS(vs *types.VoteSet) string {
	maj := "-"
	if id, ok := vs.TwoThirdsMajority(); ok {
		maj = s.w.bidName(id)
	}
	var buckets []string
	if x := s.sumOf(vs.BitArrayByBlockID(types.BlockID{})); x != 0 {
		buckets = append(buckets, fmt.Sprintf("nil=%d", x))
	}
	for i, b := range s.w.blocks {
		if x := s.sumOf(vs.BitArrayByBlockID(b.id)); x != 0 {
			buckets = append(buckets, fmt.Sprintf("%d=%d", i, x))
		}
	}
	bs := "-"
	if len(buckets) > 0 {
		bs = strings.Join(buckets, "+")
	}
	return fmt.Sprintf("%d/%s/%s", s.sumOf(vs.BitArray()), maj, bs)
}

func (s *sim) stateLine() string {
	head := fmt.Sprintf("n%d ", s.self)
	if s.halted {
		return head + "halted"
	}
	if s.decided != "" {
		return head + "decided " + s.decided
	}
	rs := s.node.RS()
	ob := func(b *types.Block) string { return s.w.blockName(b) }
	prop := "-"
	if rs.Proposal != nil {
		prop = fmt.Sprintf("%s/%d", s.w.bidName(rs.Proposal.BlockID), rs.Proposal.POLRound)
	}
	pp := "-/0"
	if rs.ProposalBlockParts != nil {
		name := "?"
		h := rs.ProposalBlockParts.Header()
		for i, b := range s.w.blocks {
			if b.id.PartSetHeader.Equals(h) {
				name = strconv.Itoa(i)
			}
		}
		d := 0
		if rs.ProposalBlockParts.IsComplete() {
			d = 1
		}
		pp = fmt.Sprintf("%s/%d", name, d)
	}
	tp := 0
	if rs.TriggeredTimeoutPrecommit {
		tp = 1
	}
	pr, _ := s.w.state.Validators.GetByAddress(rs.Validators.GetProposer().Address)
	var hv []string
	for r := int32(-1); r <= maxRounds; r++ {
		if p := rs.Votes.Prevotes(r); p != nil {
			hv = append(hv, fmt.Sprintf("%d:P%s:C%s", r, s.showVS(p), s.showVS(rs.Votes.Precommits(r))))
		}
	}
	return head + fmt.Sprintf("r=%d s=%s lr=%d lb=%s vr=%d vb=%s prop=%s pb=%s pp=%s cr=%d tp=%d pr=%d q=%d tk=%s hr=%d hv=%s",
		rs.Round, stepNames[rs.Step], rs.LockedRound, ob(rs.LockedBlock), rs.ValidRound, ob(rs.ValidBlock), prop,
		ob(rs.ProposalBlock), pp, rs.CommitRound, tp, pr, s.node.InternalQueueLen(), s.tick.show(), rs.Votes.Round(), strings.Join(hv, ","))
}

// ---- the net of correct nodes ----

type net struct {
	w       *world
	correct []int
	nodes   []*sim
	log     []*msg
	logIdx  map[string]int
	closed  bool
	synced  bool
	now     int64
	skew    int64
}

func newNet(line string) *net {
	m := kv(line)
	powers, ok := parseInts(m["powers"])
	if !ok || len(powers) == 0 || len(powers) > 9 || !sort.SliceIsSorted(powers, func(i, j int) bool { return powers[i] > powers[j] }) {
		return nil
	}
	for _, p := range powers {
		if p <= 0 {
			return nil
		}
	}
	prios, ok := parseInts(m["prios"])
	if !ok || (prios != nil && len(prios) != len(powers)) {
		return nil
	}
	prop, err := strconv.Atoi(m["prop"])
	if err != nil || prop < 0 || prop >= len(powers) {
		return nil
	}
	cl, ok := parseInts(m["correct"])
	if !ok || len(cl) == 0 {
		return nil
	}
	var correct []int
	for i, c := range cl {
		if c < 0 || int(c) >= len(powers) || (i > 0 && cl[i-1] >= c) {
			return nil
		}
		correct = append(correct, int(c))
	}
	skew, err := strconv.ParseInt(m["skew"], 10, 64)
	if err != nil || skew < 0 {
		return nil
	}
	w := getWorld(powers, prios, prop)
	if line != cfgLine(w, correct, skew) {
		return nil
	}
	nt := &net{w: w, correct: correct, logIdx: map[string]int{}, skew: skew}
	for _, c := range correct {
		nt.nodes = append(nt.nodes, newSim(nt, w, c))
	}
	return nt
}

func (nt *net) close() {
	if nt == nil {
		return
	}
	for _, s := range nt.nodes {
		s.close()
	}
}

func (nt *net) logAdd(m *msg) int {
	k := m.key()
	if i, ok := nt.logIdx[k]; ok {
		return i
	}
	nt.logIdx[k] = len(nt.log)
	nt.log = append(nt.log, m)
	return len(nt.log) - 1
}

func (nt *net) isCorrect(v int) bool {
	for _, c := range nt.correct {
		if c == v {
			return true
		}
	}
	return false
}

func (nt *net) pos(m map[string]string, key string) int {
	v, err := strconv.Atoi(m[key])
	if err != nil {
		return -1
	}
	for i, c := range nt.correct {
		if c == v {
			return i
		}
	}
	return -1
}

func (nt *net) deliver(i, k int) {
	s, m := nt.nodes[i], nt.log[k]
	if m.kind != "block" && m.by == s.self {
		return
	}
	s.deliver(m)
}

type claimT struct {
	r int
	t tmproto.SignedMsgType
	b types.BlockID
}

func (nt *net) claimsOf(j int) []claimT {
	p := nt.nodes[j]
	var out []claimT
	if p.halted {
		return nil
	}
	if p.decided != "" {
		at := strings.IndexByte(p.decided, '@')
		b, _ := strconv.Atoi(p.decided[:at])
		r, _ := strconv.Atoi(p.decided[at+1:])
		return []claimT{{r, tmproto.PrecommitType, nt.w.blocks[b].id}}
	}
	rs := p.node.RS()
	for r := int32(0); r <= maxRounds; r++ {
		if vs := rs.Votes.Prevotes(r); vs != nil {
			if id, ok := vs.TwoThirdsMajority(); ok {
				out = append(out, claimT{int(r), tmproto.PrevoteType, id})
			}
		}
		if vs := rs.Votes.Precommits(r); vs != nil {
			if id, ok := vs.TwoThirdsMajority(); ok {
				out = append(out, claimT{int(r), tmproto.PrecommitType, id})
			}
		}
	}
	return out
}

func (nt *net) claim(i, j int) {
	if i == j {
		return
	}
	s := nt.nodes[i]
	for _, c := range nt.claimsOf(j) {
		c := c
		s.run(func() string {
			return s.receiveMaj23(int32(c.r), c.t, peerID(1+nt.nodes[j].self), c.b)
		})
	}
}

func (nt *net) pass() {
	for i := range nt.nodes {
		for j := range nt.nodes {
			nt.claim(i, j)
		}
		L := len(nt.log)
		for k := 0; k < L; k++ {
			nt.deliver(i, k)
		}
	}
}

func (nt *net) sig() string {
	var b strings.Builder
	fmt.Fprintf(&b, "%d", len(nt.log))
	for _, s := range nt.nodes {
		fmt.Fprintf(&b, "|%d|%s", s.nEvents, s.stateLine())
	}
	return b.String()
}

// closure returns the number of passes made, or -1 if the fuel ran out before a pass changed nothing
func (nt *net) closure() int {
	n := -1
	for fuel := 0; fuel < 64; fuel++ {
		before := nt.sig()
		nt.pass()
		if nt.sig() == before {
			n = fuel + 1
			break
		}
	}
	nt.closed = true
	return n
}

func (nt *net) maxRound() int {
	mx := 0
	for _, s := range nt.nodes {
		r := 0
		if s.halted {
			r = 0
		} else if s.decided != "" {
			r, _ = strconv.Atoi(s.decided[strings.IndexByte(s.decided, '@')+1:])
		} else if !s.halted {
			r = int(s.node.RS().Round)
		}
		if r > mx {
			mx = r
		}
	}
	return mx
}

// due: in the synchronous suffix node i's timer may fire only if no other pending timer (of a node
// that can still act) expires more than skew earlier
func (nt *net) due(i int) bool {
	if !nt.synced {
		return true
	}
	s := nt.nodes[i]
	if !s.live() || !s.tick.pending {
		return true
	}
	for _, o := range nt.nodes {
		if o.live() && o.tick.pending && o.tick.expiry+nt.skew < s.tick.expiry {
			return false
		}
	}
	return true
}

func (nt *net) nodeAnswer(i int) string {
	s := nt.nodes[i]
	var b strings.Builder
	b.WriteString(s.stateLine())
	b.WriteString(" |")
	for _, e := range s.events {
		b.WriteByte(' ')
		b.WriteString(e)
	}
	return b.String()
}

func (nt *net) parseMsg(f []string, m map[string]string) *msg {
	atoi := func(k string) (int, bool) {
		x, err := strconv.Atoi(m[k])
		return x, err == nil
	}
	if len(f) < 2 {
		return nil
	}
	n := len(nt.w.powers)
	switch f[1] {
	case "prop":
		r, ok1 := atoi("r")
		b, ok2 := atoi("b")
		pol, ok3 := atoi("pol")
		by, ok4 := atoi("by")
		if !(ok1 && ok2 && ok3 && ok4) || r < 0 || b < 0 || b >= nt.w.nIDs() || by < 0 || by >= n || r > 1000 || pol < -1000 || pol > 1000 {
			return nil
		}
		return &msg{kind: "prop", r: r, b: b, pol: pol, by: by}
	case "block":
		b, ok := atoi("b")
		if !ok || b < 0 || b > nt.w.invalid() {
			return nil
		}
		return &msg{kind: "block", b: b, by: -1}
	case "vote":
		t := m["t"]
		r, ok1 := atoi("r")
		v, ok3 := atoi("v")
		b := -1
		ok2 := m["b"] == "nil"
		if !ok2 {
			b, ok2 = atoi("b")
			ok2 = ok2 && b >= 0 && b < nt.w.nIDs()
		}
		if (t != "pv" && t != "pc") || !(ok1 && ok2 && ok3) || r < 0 || r > 1000 || v < 0 || v >= n {
			return nil
		}
		return &msg{kind: "vote", t: t, r: r, b: b, by: v}
	}
	return nil
}

// sign fills in the signed object of a faulty validator's message
func (nt *net) sign(m *msg) {
	bid := types.BlockID{}
	if m.b >= 0 {
		bid = nt.w.blocks[m.b].id
	}
	switch m.kind {
	case "prop":
		p := types.NewProposal(1, int32(m.r), int32(m.pol), bid)
		p.Timestamp = genesisTime
		sig, err := nt.w.keys[m.by].Sign(types.ProposalSignBytes(chainID, p.ToProto()))
		if err != nil {
			panic(err)
		}
		p.Signature = sig
		m.prop = p
	case "vote":
		t := tmproto.PrevoteType
		if m.t == "pc" {
			t = tmproto.PrecommitType
		}
		v := &types.Vote{Type: t, Height: 1, Round: int32(m.r), BlockID: bid, Timestamp: genesisTime,
			ValidatorIndex: int32(m.by), ValidatorAddress: nt.w.keys[m.by].PubKey().Address()}
		sig, err := nt.w.keys[m.by].Sign(types.VoteSignBytes(chainID, v.ToProto()))
		if err != nil {
			panic(err)
		}
		v.Signature = sig
		m.vote = v
	}
}

// apply executes one op on the real nodes and returns the canonical line
func (nt *net) apply(op string) string {
	f := strings.Fields(op)
	if len(f) == 0 {
		return "bad-op"
	}
	m := kv(op)
	for _, s := range nt.nodes {
		s.events = nil
	}
	switch f[0] {
	case "dl":
		i := nt.pos(m, "node")
		k, err := strconv.Atoi(m["k"])
		if len(f) != 3 || i < 0 || err != nil || k < 0 || k >= len(nt.log) {
			return "bad-op"
		}
		nt.deliver(i, k)
		nt.closed = false
		return nt.nodeAnswer(i)
	case "byz":
		x := nt.parseMsg(f, m)
		if x == nil {
			return "bad-op"
		}
		if x.kind != "block" && nt.isCorrect(x.by) {
			return "refused"
		}
		nt.sign(x)
		nt.closed = false
		return fmt.Sprintf("log=%d", nt.logAdd(x))
	case "claim":
		i, j := nt.pos(m, "node"), nt.pos(m, "from")
		if len(f) != 3 || i < 0 || j < 0 {
			return "bad-op"
		}
		nt.claim(i, j)
		nt.closed = false
		return nt.nodeAnswer(i)
	case "byzclaim":
		i := nt.pos(m, "node")
		peer, e1 := strconv.Atoi(m["peer"])
		r, e2 := strconv.Atoi(m["r"])
		t := m["t"]
		b := -1
		ok := m["b"] == "nil"
		if !ok {
			var e error
			b, e = strconv.Atoi(m["b"])
			ok = e == nil && b >= 0
		}
		if i < 0 || e1 != nil || e2 != nil || r < 0 || r > 1000 || peer < 0 || (t != "pv" && t != "pc") || !ok {
			return "bad-op"
		}
		if peer == 0 || peer > len(nt.w.powers) || nt.isCorrect(peer-1) {
			return "refused"
		}
		s := nt.nodes[i]
		s.run(func() string {
			tt := tmproto.PrevoteType
			if t == "pc" {
				tt = tmproto.PrecommitType
			}
			id := types.BlockID{}
			if b >= 0 && b < nt.w.nIDs() {
				id = nt.w.blocks[b].id
			} else if b >= 0 {
				// an id outside the table: some other unknown block
				id = types.BlockID{Hash: bytes.Repeat([]byte{byte(b)}, 32), PartSetHeader: types.PartSetHeader{Total: 1, Hash: bytes.Repeat([]byte{byte(b + 1)}, 32)}}
			}
			return s.receiveMaj23(int32(r), tt, peerID(peer), id)
		})
		nt.closed = false
		return nt.nodeAnswer(i)
	case "fire":
		i := nt.pos(m, "node")
		if len(f) != 2 || i < 0 {
			return "bad-op"
		}
		if nt.synced && !nt.closed {
			return "not-idle"
		}
		if !nt.due(i) {
			return "not-due"
		}
		s := nt.nodes[i]
		if !s.tick.pending {
			return "none"
		}
		s.tick.pending = false
		if s.tick.expiry > nt.now {
			nt.now = s.tick.expiry
		}
		r, st := s.tick.pendingR, s.tick.pendingS
		s.run(func() string { return s.node.HandleTimeout(1, int32(r), st) })
		nt.closed = false
		return nt.nodeAnswer(i)
	case "closure":
		if len(f) != 1 {
			return "bad-op"
		}
		L := len(nt.log)
		passes := nt.closure()
		var b strings.Builder
		if passes < 0 {
			fmt.Fprintf(&b, "closed p=fuel log=%d new=", len(nt.log))
		} else {
			fmt.Fprintf(&b, "closed p=%d log=%d new=", passes, len(nt.log))
		}
		if len(nt.log) == L {
			b.WriteString("-")
		}
		for k := L; k < len(nt.log); k++ {
			if k > L {
				b.WriteByte(',')
			}
			b.WriteString(nt.log[k].key())
		}
		for _, s := range nt.nodes {
			b.WriteString(" ;; ")
			b.WriteString(s.stateLine())
		}
		return b.String()
	case "sync":
		if len(f) != 1 {
			return "bad-op"
		}
		nt.synced = true
		return fmt.Sprintf("sync R=%d", nt.maxRound())
	case "end":
		if len(f) != 1 {
			return "bad-op"
		}
		var dec, pend []string
		for _, s := range nt.nodes {
			switch {
			case s.decided != "":
				dec = append(dec, s.decided)
			case s.halted:
				dec = append(dec, "halted")
			default:
				dec = append(dec, "-")
			}
			pend = append(pend, s.tick.show())
		}
		c := 0
		if nt.closed {
			c = 1
		}
		return fmt.Sprintf("end decided=%s pending=%s closed=%d R=%d now=%d", strings.Join(dec, ","), strings.Join(pend, ","), c, nt.maxRound(), nt.now)
	}
	return "bad-op"
}
