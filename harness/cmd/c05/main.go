// C05 correspondence streams: the application sees each block exactly once, in order, across crashes.
//
//	(a) "pipe": real consensus.Handshaker / sm.BlockExecutor / stores, in-process, crash = panic at
//	    an effect boundary (or inside a state-store effect before its committing write), vs the Lean
//	    pipeline model (Tmv/Model/Pipeline.lean) line by line.
//	(b) "node": a real single-validator node in a child process (goleveldb, on-disk WAL and privval,
//	    recording app with an fsynced journal) killed at FAIL_TEST_INDEX fail points (libs/fail),
//	    restarted, killed again during recovery; journal + stores judged by the oracle.
//	(c) "mp": real mempool v0/v1 + real BlockExecutor.Commit behind a gate on the ABCI connections vs
//	    the Lean lock-discipline model (Tmv/Model/MempoolLock.lean).
package main

import (
	"fmt"
	"math/rand"
	"os"
	"sort"
	"strconv"
	"strings"
	"sync"

	"verifharness/core"
)

func kv(op string) map[string]string {
	m := map[string]string{}
	f := strings.Fields(op)
	for _, t := range f[1:] {
		if i := strings.IndexByte(t, '='); i > 0 && strings.Count(t, "=") == 1 {
			if _, dup := m[t[:i]]; !dup {
				m[t[:i]] = t[i+1:]
			}
		}
	}
	return m
}

func natTok(s string) (int, bool) {
	if s == "" {
		return 0, false
	}
	for _, c := range s {
		if c < '0' || c > '9' {
			return 0, false
		}
	}
	n, err := strconv.Atoi(s)
	return n, err == nil
}

var (
	statMu    sync.Mutex
	preShapes = map[string]int{}
	startHist = map[string]int{}
	nodeRuns  int
	failHits  int
)

func execCase(c core.Case) []string {
	var out []string
	var p *pcase
	var m *mpCase
	mpLocked := false
	defer func() {
		if p != nil {
			p.close()
		}
		if m != nil {
			m.close()
		}
		if mpLocked {
			mpSerial.Unlock()
		}
	}()
	getP := func() *pcase {
		if p == nil {
			cd, err := buildChain("-", nil, 1)
			if err != nil {
				panic(err)
			}
			p = newPCase(cd, false, -1)
		}
		return p
	}
	for _, op := range c.Ops {
		f := strings.Fields(op)
		if len(f) == 0 {
			out = append(out, "bad-op")
			continue
		}
		a := kv(op)
		switch f[0] {
		case "chain":
			txs, ok := parseChain(a)
			if !ok {
				out = append(out, "bad-op")
				break
			}
			ih := 1
			if s, has := a["ih"]; has {
				var okih bool
				ih, okih = natTok(s)
				if !okih || ih < 1 || ih > 1000 {
					out = append(out, "bad-op")
					break
				}
			}
			eh := false
			if s, has := a["emptyhash"]; has {
				if s != "0" && s != "1" {
					out = append(out, "bad-op")
					break
				}
				eh = s == "1"
			}
			cd, err := buildChain(a["txs"], txs, int64(ih), eh)
			if err != nil {
				out = append(out, "chain-error:"+trunc(err.Error(), 200))
				break
			}
			if p != nil {
				p.close()
			}
			discard := false
			if s, has := a["discard"]; has {
				if s != "0" && s != "1" {
					out = append(out, "bad-op")
					break
				}
				discard = s == "1"
			}
			retainK := -1
			if s, has := a["retain"]; has {
				v, okr := natTok(s)
				if !okr || v > 100 {
					out = append(out, "bad-op")
					break
				}
				retainK = v
			}
			p = newPCase(cd, discard, retainK)
			if m != nil {
				m.close()
				m = nil
			}
			out = append(out, "ok")
		case "start", "commit":
			k, ok := parseCrash(a["crash"])
			if _, has := a["crash"]; !has || !ok {
				out = append(out, "bad-op")
				break
			}
			mid := 0
			if s, has := a["mid"]; has {
				v, okm := natTok(s)
				if !okm || v > 9 {
					out = append(out, "bad-op")
					break
				}
				mid = v
			}
			if f[0] == "start" {
				l := getP().start(k, mid)
				if ff := strings.Fields(l); len(ff) > 3 {
					statMu.Lock()
					startHist[strings.Join(ff[1:4], ",")]++
					statMu.Unlock()
				}
				out = append(out, l)
			} else {
				out = append(out, getP().commit(k, mid))
			}
		case "rollback":
			j, ok := natTok(a["n"])
			if !ok {
				out = append(out, "bad-op")
				break
			}
			q := getP()
			q.close()
			q.up = false
			q.live = false
			q.app.Rollback(j)
			out = append(out, q.line("rollback"))
		case "appextra":
			j, ok := natTok(a["n"])
			if !ok {
				out = append(out, "bad-op")
				break
			}
			q := getP()
			q.close()
			q.up = false
			q.live = false
			q.app.Crash()
			for i := 0; i < j; i++ {
				q.app.tick = nil
				q.app.Commit()
				q.app.tick = q.tick
			}
			out = append(out, q.line("appextra"))
		case "setresp":
			h, ok := natTok(a["h"])
			if !ok {
				out = append(out, "bad-op")
				break
			}
			out = append(out, getP().setresp(h))
		case "saveblock":
			if len(f) != 1 {
				out = append(out, "bad-op")
				break
			}
			out = append(out, getP().saveblock())
		case "check":
			if len(f) != 1 {
				out = append(out, "bad-op")
				break
			}
			out = append(out, getP().check())
		case "mp":
			pool, ok := natTok(a["pool"])
			conn, hasConn := a["conn"]
			if !hasConn {
				conn = "sync"
			}
			if !ok || (a["ver"] != "v0" && a["ver"] != "v1") || !(conn == "sync" || conn == "async") {
				out = append(out, "bad-op")
				break
			}
			if m != nil {
				m.close()
			}
			if !mpLocked {
				mpSerial.Lock()
				mpLocked = true
			}
			var err error
			m, err = newMPCase(a["ver"], pool, conn == "async")
			if err != nil {
				out = append(out, "mp-error:"+trunc(err.Error(), 200))
				m = nil
				break
			}
			out = append(out, m.settle())
		case "spawncheck":
			i, ok := natTok(a["i"])
			if !ok || m == nil {
				out = append(out, "bad-op")
				break
			}
			out = append(out, m.spawnCheck(i))
		case "spawncommit":
			if len(f) != 1 || m == nil {
				out = append(out, "bad-op")
				break
			}
			out = append(out, m.spawnCommit())
		case "rel":
			w := a["what"]
			if m == nil || !validRel(w) {
				out = append(out, "bad-op")
				break
			}
			out = append(out, m.rel(w))
		case "node":
			out = append(out, execNode(a))
		default:
			out = append(out, "bad-op")
		}
	}
	return out
}

func validRel(w string) bool {
	parts := strings.Split(w, ":")
	switch {
	case len(parts) == 1 && (w == "flush" || w == "commit"):
		return true
	case len(parts) == 2 && (parts[0] == "check" || parts[0] == "recheck"):
		_, ok := natTok(parts[1])
		return ok
	}
	return false
}

func execNode(a map[string]string) string {
	blocks, ok := natTok(a["blocks"])
	if !ok || blocks < 1 || blocks > 8 {
		return "bad-op"
	}
	var fails []int
	if a["fails"] != "-" && a["fails"] != "" {
		for _, s := range strings.Split(a["fails"], ",") {
			if s == "x" {
				fails = append(fails, -1)
				continue
			}
			n, ok := natTok(s)
			if !ok {
				return "bad-op"
			}
			fails = append(fails, n)
		}
	}
	var txs []int
	if a["txs"] != "-" && a["txs"] != "" {
		for _, s := range strings.Split(a["txs"], ",") {
			n, ok := natTok(s)
			if !ok {
				return "bad-op"
			}
			txs = append(txs, n)
		}
	}
	ver := a["mp"]
	if ver != "v0" && ver != "v1" {
		return "bad-op"
	}
	ih := 1
	if s, has := a["ih"]; has {
		var okih bool
		ih, okih = natTok(s)
		if !okih || ih < 1 || ih > 1000 {
			return "bad-op"
		}
	}
	var extra []string
	for _, o := range []struct{ key, env string }{{"discard", "TMH_C05_DISCARD"}, {"noempty", "TMH_C05_NOEMPTY"}, {"retain", "TMH_C05_RETAIN"}} {
		if s, has := a[o.key]; has {
			v, okv := natTok(s)
			if !okv || v > 100 {
				return "bad-op"
			}
			extra = append(extra, o.env+"="+strconv.Itoa(v))
		}
	}
	r := runNodeCase(blocks, fails, ver, txs, 20, ih, extra)
	statMu.Lock()
	for _, l := range r.Trace {
		if strings.HasPrefix(l, "pre ") {
			preShapes[preShape(l)]++
		}
	}
	for _, run := range r.Runs {
		nodeRuns++
		if run.FailHit {
			failHits++
		}
	}
	statMu.Unlock()
	if r.Err != "" {
		for _, run := range r.Runs {
			if run.TimedOut {
				return fmt.Sprintf("stalled app=%d store=%d state=%d", r.FinalApp, r.FinalStore, r.FinalState)
			}
		}
		return "node-error:" + strings.ReplaceAll(trunc(r.Err, 300), " ", "_")
	}
	hs := "agree"
	nPost := 0
	for _, l := range r.Trace {
		if strings.HasPrefix(l, "hs-error") {
			hs = "error:" + strings.ReplaceAll(trunc(l, 200), " ", "_")
		}
		if strings.HasPrefix(l, "post ") {
			nPost++
			t := kv(l)
			if !(t["app"] == t["store"] && t["store"] == t["state"] && t["heq"] == "1") {
				hs = "differ:" + strings.ReplaceAll(l, " ", "_")
			}
		}
		if strings.HasPrefix(l, "pre ") {
			t := kv(l)
			ap, _ := strconv.Atoi(t["app"])
			st, _ := strconv.Atoi(t["store"])
			sa, _ := strconv.Atoi(t["state"])
			nx := sa + 1
			if sa == 0 {
				nx = ih
			}
			if !((st == sa || st == nx) && (ap == sa || ap == st)) {
				hs = "bad-crash-state:" + strings.ReplaceAll(l, " ", "_")
			}
		}
	}
	if nPost == 0 {
		hs = "no-handshake-completed"
	}
	committed, bad := journalCheckIH(r.Journal, func(h int64) ([]int, bool) {
		t, ok := r.Chain[h]
		return t, ok
	}, int64(ih))
	wf := "1"
	if bad != "" {
		wf = "0:" + strings.ReplaceAll(trunc(bad, 200), " ", "_")
	} else if committed != r.FinalApp {
		wf = fmt.Sprintf("0:journal-commits-%d-app-height-%d", committed, r.FinalApp)
	}
	heq := bit(r.FinalHashEq)
	return fmt.Sprintf("done app=%d store=%d state=%d heq=%s wf=%s hs=%s inc=%s", r.FinalApp, r.FinalStore, r.FinalState, heq, wf, hs, incOrDash(a, r))
}

// incarnations: per process incarnation, the (app/store/state) triple it found, the triple right
// after its handshake (if that completed) and the calls it made on the consensus connection
// (DeliverTx left out: which transactions a block of the real node carries is a matter of timing)
func incarnations(r nodeResult) string {
	var segs [][]string
	cur := []string{}
	for _, tok := range r.Journal {
		if tok == "R" {
			segs = append(segs, cur)
			cur = []string{}
			continue
		}
		if tok[0] != 'T' {
			cur = append(cur, tok)
		}
	}
	segs = append(segs, cur)
	var incs []string
	tri := func(l string) string {
		t := kv(l)
		return t["app"] + "/" + t["store"] + "/" + t["state"]
	}
	i := 0
	for k := 0; k < len(r.Trace); k++ {
		if !strings.HasPrefix(r.Trace[k], "pre ") {
			continue
		}
		post := "-"
		if k+1 < len(r.Trace) && strings.HasPrefix(r.Trace[k+1], "post ") {
			post = tri(r.Trace[k+1])
		}
		js := "-"
		if i < len(segs) && len(segs[i]) > 0 {
			js = strings.Join(segs[i], ".")
		}
		incs = append(incs, tri(r.Trace[k])+">"+post+":"+js)
		i++
	}
	return strings.Join(incs, ";")
}

// with create_empty_blocks=false the number of own votes (rounds) before a commit depends on when
// transactions arrive: the fail index no longer determines the crash position, so the
// per-incarnation prediction is not compared (the oracle still judges the run)
func incOrDash(a map[string]string, r nodeResult) string {
	if v, has := a["noempty"]; has && v != "0" {
		return "-"
	}
	// with transactions around, a proposal signed by an earlier incarnation can conflict with the
	// one rebuilt after the restart (privval refuses, the height takes another round, two more vote
	// fail points): positions are compared for runs without transactions only
	if a["txs"] != "-" && a["txs"] != "" {
		return "-"
	}
	return incarnations(r)
}

func preShape(l string) string {
	t := kv(l)
	ap, _ := strconv.Atoi(t["app"])
	st, _ := strconv.Atoi(t["store"])
	sa, _ := strconv.Atoi(t["state"])
	rel := func(x int) string {
		switch {
		case x == sa:
			return "state"
		case x == st:
			return "next"
		}
		return "other"
	}
	return fmt.Sprintf("store=%s,app=%s", rel(st), rel(ap))
}

// ---------------------------------------------------------------------------------------------
// property oracle on the implementation's outputs

func isHostile(c core.Case) bool {
	for _, op := range c.Ops {
		switch strings.Fields(op + " x")[0] {
		case "appextra", "setresp", "saveblock":
			return true
		}
	}
	return false
}

func oracle(c core.Case, out []string) []core.Finding {
	var fs []core.Finding
	add := func(fp, desc string) { fs = append(fs, core.Finding{Fingerprint: fp, Desc: desc}) }
	hostile := isHostile(c)
	var chain [][]int
	oih := int64(1)
	var journal []string
	lastUp := false
	mpver := ""
	for i, op := range c.Ops {
		if i >= len(out) {
			break
		}
		o := out[i]
		f := strings.Fields(op)
		if len(f) == 0 {
			continue
		}
		if strings.HasPrefix(o, "PANIC") || strings.HasPrefix(o, "MISSING") {
			add("harness.panic", "harness panicked on "+op+": "+trunc(o, 300))
			continue
		}
		if o == "bad-op" {
			continue
		}
		t := kv(o)
		if js, ok := t["j"]; ok && js != "-" {
			journal = append(journal, strings.Split(js, ",")...)
		}
		switch f[0] {
		case "chain":
			if o == "ok" {
				chain, _ = parseChain(kv(op))
				oih = 1
				if s, has := kv(op)["ih"]; has {
					v, _ := natTok(s)
					oih = int64(v)
				}
				journal = nil
				lastUp = false
			}
		case "start":
			oc := t["out"]
			if oc == "ok" {
				if !(t["app"] == t["store"] && t["store"] == t["state"]) {
					add("handshake.completed-but-heights-differ", "after a completed handshake: "+o)
				} else if t["heq"] != "1" {
					add("handshake.completed-but-apphash-differs", "after a completed handshake: "+o)
				} else if t["sc"] != "1" && !hostile {
					add("handshake.recovered-state-not-canonical", "the state saved by recovery differs from the state of an uninterrupted run: "+o)
				}
			} else if oc == "err-app-too-low" && !hostile && tooLowRule(t, oih) {
				// the application was restored from a snapshot older than the block store's base - 1:
				// refusing to start is what the node must do
			} else if oc != "crashed" && !hostile {
				add("handshake.fails-on-crash-state."+oc, "the handshake does not complete on a state reached by crashes only: "+o)
			}
			lastUp = t["up"] == "1"
		case "commit":
			oc := t["out"]
			if lastUp && !hostile && oc != "ok" && oc != "crashed" && oc != "no-block" {
				add("commit.after-recovery-fails."+strings.SplitN(oc, ":", 2)[0], "finalizeCommit on a recovered node: "+o)
			}
			if oc == "ok" && t["up"] == "1" && !(t["app"] == t["store"] && t["store"] == t["state"] && t["heq"] == "1") {
				add("commit.completed-but-out-of-sync", o)
			}
			lastUp = t["up"] == "1"
		case "rollback", "appextra", "saveblock":
			lastUp = false
		case "check":
			if hostile {
				break
			}
			_, bad := journalCheckIH(journal, func(h int64) ([]int, bool) {
				if h < oih || int(h-oih) >= len(chain) {
					return nil, false
				}
				return chain[h-oih], true
			}, oih)
			if bad != "" {
				add("journal."+journalFingerprint(bad), "application journal ill-formed: "+bad)
			}
		case "mp":
			mpver = kv(op)["ver"]
			if kv(op)["conn"] == "async" {
				mpver += ".async"
			}
		case "spawncheck", "spawncommit", "rel":
			g := kv("x " + o)["gate"]
			if strings.HasSuffix(o, " flush-outside-lock") {
				add("mempool."+mpver+".flush-outside-lock", "BlockExecutor.Commit called mempool.FlushAppConn without holding the mempool lock: "+o)
			}
			if strings.HasPrefix(o, "TIMEOUT") {
				add("harness.mempool-not-quiescent", o)
			}
			hasCheck, hasCommit, hasRe := false, false, false
			if q, isAsync := kv("x " + o)["queue"]; isAsync {
				// asynchronous connection: requests listed in connection order; a new check is
				// in flight while it is in the queue; rechecks queued behind it are not done
				checkSeen := false
				if q != "-" {
					for _, n := range strings.Split(q, ",") {
						if strings.HasPrefix(n, "check:") {
							checkSeen = true
						} else if strings.HasPrefix(n, "recheck:") && checkSeen {
							hasRe, hasCheck = true, true
						}
					}
				}
				if checkSeen && g == "commit" {
					add("mempool."+mpver+".new-check-in-flight-while-commit-requested",
						"a CheckTx of a new transaction is unanswered on the asynchronous mempool connection while app Commit is requested: "+o)
				}
				if hasRe {
					add("mempool."+mpver+".new-check-in-flight-before-recheck-done",
						"a CheckTx of a new transaction is unanswered ahead of the rechecks of the committed block: "+o)
				}
				break
			}
			if g == "" || g == "-" {
				break
			}
			for _, n := range strings.Split(g, ",") {
				switch {
				case strings.HasPrefix(n, "check:"):
					hasCheck = true
				case n == "commit":
					hasCommit = true
				case strings.HasPrefix(n, "recheck:"):
					hasRe = true
				}
			}
			if hasCheck && hasCommit {
				add("mempool."+mpver+".new-check-in-flight-while-commit-requested",
					"a CheckTx of a new transaction is on the mempool connection while app Commit is requested: "+o)
			}
			if hasCheck && hasRe {
				add("mempool."+mpver+".new-check-in-flight-before-recheck-done",
					"a CheckTx of a new transaction is on the mempool connection before the rechecks of the committed block are done: "+o)
			}
		case "node":
			if strings.HasPrefix(o, "stalled ") {
				add("node.stalls-after-restart", "real node stopped committing after a restart (timed out): "+o+" on "+op)
				break
			}
			if !strings.HasPrefix(o, "done ") {
				if o != "bad-op" {
					add("node.run-failed", o)
				}
				break
			}
			n, _ := strconv.Atoi(kv(op)["blocks"])
			if s, has := kv(op)["ih"]; has {
				v, _ := strconv.Atoi(s)
				n += v - 1 // height of the last block to commit
			}
			if t["wf"] != "1" {
				add("node.journal."+journalFingerprint(t["wf"]), "real node, journal ill-formed: "+o)
			}
			if t["hs"] != "agree" {
				add("node.recovery."+strings.SplitN(t["hs"], ":", 2)[0], "real node, after a restart: "+o)
			}
			if t["app"] != strconv.Itoa(n) || t["state"] != strconv.Itoa(n) || t["store"] != strconv.Itoa(n+1) || t["heq"] != "1" {
				add("node.no-progress-or-out-of-sync", "real node did not reach the target in sync: "+o)
			}
		}
	}
	return fs
}

// ReplayBlocks' own rule for refusing an application that is below the (pruned) block store
func tooLowRule(t map[string]string, ih int64) bool {
	app, _ := strconv.ParseInt(t["app"], 10, 64)
	base, _ := strconv.ParseInt(t["base"], 10, 64)
	return (app == 0 && ih < base) || (app > 0 && app < base-1)
}

func journalFingerprint(bad string) string {
	switch {
	case strings.Contains(bad, "executed_again") || strings.Contains(bad, "executed again"):
		return "committed-block-executed-again"
	case strings.Contains(bad, "skipped"):
		return "height-skipped"
	case strings.Contains(bad, "InitChain"):
		return "initchain-after-commit"
	case strings.Contains(bad, "DeliverTx"):
		return "txs-out-of-block-order"
	case strings.Contains(bad, "Commit"):
		return "commit-without-execution"
	case strings.Contains(bad, "commits"):
		return "commit-count-mismatch"
	}
	return "ill-formed"
}

// ---------------------------------------------------------------------------------------------
// generators

var txAlphabet = []int{1, 2, 3, 17, 8, 9, 27, 4}

func genChain(r *rand.Rand, n int) string {
	bs := make([]string, n)
	for i := range bs {
		k := r.Intn(4)
		if k == 0 {
			bs[i] = "e"
			continue
		}
		ts := make([]string, k)
		for j := range ts {
			ts[j] = strconv.Itoa(txAlphabet[r.Intn(len(txAlphabet))])
		}
		bs[i] = strings.Join(ts, ".")
	}
	ih := []string{"", "", "", " ih=1", " ih=2", " ih=5", " ih=100"}[r.Intn(7)]
	if r.Intn(3) == 0 {
		ih += " discard=1" // storage.discard_abci_responses
	}
	if n == 0 {
		return "chain n=0 txs=-" + ih
	}
	return fmt.Sprintf("chain n=%d txs=%s%s", n, strings.Join(bs, ","), ih)
}

func crashTok(r *rand.Rand, max int) string {
	return "crash=" + strconv.Itoa(r.Intn(max+1))
}

// mid=j: the crash falls inside the next state-store effect, after j of its database writes (at the
// latest before its last one)
func midTok(r *rand.Rand) string {
	if r.Intn(3) == 0 {
		return fmt.Sprintf(" mid=%d", 1+r.Intn(3))
	}
	return ""
}

func gen(r *rand.Rand, tier string, emit func(core.Case)) {
	scale := 1
	if tier == "thorough" {
		scale = 6
	}
	// (a1) every crash prefix of finalizeCommit at a chosen height × a crash prefix of the recovery
	for i := 0; i < 600*scale; i++ {
		n := 2 + r.Intn(3)
		ch := genChain(r, n)
		if r.Intn(4) == 0 {
			ch += " emptyhash=1" // an application whose app hash is zero-length at every height
		}
		ops := []string{ch, "start crash=-"}
		target := 1 + r.Intn(n)
		for h := 1; h < target; h++ {
			ops = append(ops, "commit crash=-")
		}
		ops = append(ops, "commit "+crashTok(r, 10)+midTok(r))
		depth := r.Intn(4)
		for d := 0; d < depth; d++ {
			ops = append(ops, "start "+crashTok(r, 9)+midTok(r))
		}
		ops = append(ops, "start crash=-")
		for h := 0; h < 2; h++ {
			ops = append(ops, "commit crash=-")
		}
		ops = append(ops, "check")
		emit(core.Case{Kind: "pipe-crash-recover", Ops: ops})
	}
	// (a1') systematic: one chain, every (k, j)
	if tier == "thorough" {
		for k := 0; k <= 11; k++ {
			for j := -1; j <= 9; j++ {
				for mid := 0; mid < 4; mid++ {
					ms := ""
					if mid >= 1 {
						ms = fmt.Sprintf(" mid=%d", mid)
					}
					ops := []string{"chain n=3 txs=1.17,8.2,3", "start crash=-", "commit crash=-", fmt.Sprintf("commit crash=%d%s", k, ms)}
					if j >= 0 {
						ops = append(ops, fmt.Sprintf("start crash=%d%s", j, ms))
					}
					ops = append(ops, "start crash=-", "commit crash=-", "check")
					emit(core.Case{Kind: "pipe-systematic", Ops: ops})
				}
			}
		}
	}
	// (a1-mw) a crash after each single database write of stateStore.Save / SaveABCIResponses (in
	// finalizeCommit's ApplyBlock and in the handshake's), then recovery and at least four more heights:
	// whatever the crash left half-written must not stop the node later
	for _, dis := range []string{"", " discard=1"} {
		for k := 7; k <= 10; k++ {
			for j := 1; j <= 3; j++ {
				h := 1 + r.Intn(2)
				ops := []string{"chain n=7 txs=1,2.17,e,3,8,4,9" + dis, "start crash=-"}
				for i := 1; i < h; i++ {
					ops = append(ops, "commit crash=-")
				}
				ops = append(ops, fmt.Sprintf("commit crash=%d mid=%d", k, j))
				if r.Intn(2) == 0 {
					ops = append(ops, fmt.Sprintf("start crash=%d mid=%d", r.Intn(7), 1+r.Intn(3)))
				}
				ops = append(ops, "start crash=-", "commit crash=-", "commit crash=-", "commit crash=-", "commit crash=-", "check")
				emit(core.Case{Kind: "pipe-midwrite", Ops: ops})
			}
		}
	}
	for j := 1; j <= 3; j++ { // the genesis state's save (handshake on an empty node)
		emit(core.Case{Kind: "pipe-midwrite", Ops: []string{"chain n=5 txs=1,2,3,e,4", fmt.Sprintf("start crash=1 mid=%d", j),
			"start crash=-", "commit crash=-", "commit crash=-", "commit crash=-", "commit crash=-", "check"}})
	}
	// (a1-eh) empty app hash: plain restarts (no crash) at every height, then a crash and recovery
	for _, ih := range []string{"", " ih=4"} {
		ops := []string{"chain n=4 txs=1,e,2.3,4 emptyhash=1" + ih, "start crash=-", "start crash=-", "commit crash=-", "start crash=-",
			"commit crash=-", "start crash=-", "commit crash=9", "start crash=-", "start crash=-", "commit crash=-", "check"}
		emit(core.Case{Kind: "pipe-emptyhash", Ops: ops})
	}
	// (a1-ih) first block of a chain with InitialHeight > 1: every crash prefix, then a crash prefix of the recovery
	for _, ih := range []int{2, 7} {
		for k := 0; k <= 11; k++ {
			j := r.Intn(8) - 2
			ops := []string{fmt.Sprintf("chain n=2 txs=1.17,8 ih=%d", ih), "start crash=-", fmt.Sprintf("commit crash=%d%s", k, midTok(r))}
			if j >= 0 {
				ops = append(ops, fmt.Sprintf("start crash=%d", j))
			}
			ops = append(ops, "start crash=-", "commit crash=-", "check")
			emit(core.Case{Kind: "pipe-initial-height", Ops: ops})
		}
	}
	// (a1-rb) application restored from an older snapshot of itself (any number of blocks behind),
	// crashes while the handshake replays the missing blocks
	for i := 0; i < 200*scale; i++ {
		n := 2 + r.Intn(4)
		ops := []string{genChain(r, n), "start crash=-"}
		for h := r.Intn(n + 1); h > 0; h-- {
			ops = append(ops, "commit crash=-")
		}
		if r.Intn(2) == 0 {
			ops = append(ops, "commit "+crashTok(r, 10))
		}
		ops = append(ops, fmt.Sprintf("rollback n=%d", 1+r.Intn(4)))
		for d := r.Intn(3); d > 0; d-- {
			ops = append(ops, "start "+crashTok(r, 14)+midTok(r))
			if r.Intn(3) == 0 {
				ops = append(ops, fmt.Sprintf("rollback n=%d", 1+r.Intn(2)))
			}
		}
		ops = append(ops, "start crash=-", "commit crash=-", "check")
		emit(core.Case{Kind: "pipe-rollback", Ops: ops})
	}
	// (a1-pr) pruning from the application's RetainHeight: crashes around PruneBlocks / PruneStates,
	// restores of the application relative to the pruned base (refused / replayed / the base-1 panic)
	for i := 0; i < 150*scale; i++ {
		n := 3 + r.Intn(3)
		bs := make([]string, n)
		for j := range bs {
			bs[j] = []string{"e", "1", "2.3", "9", "4.8"}[r.Intn(5)] // no validator-set changes (model: valLHC = InitialHeight)
		}
		ihs := []string{"", "", " ih=4"}[r.Intn(3)]
		ops := []string{fmt.Sprintf("chain n=%d txs=%s retain=%d%s", n, strings.Join(bs, ","), r.Intn(4), ihs), "start crash=-"}
		for h := 0; h < n; h++ {
			switch r.Intn(6) {
			case 0:
				ops = append(ops, "commit "+crashTok(r, 14)+midTok(r), "start crash=-")
			case 1:
				ops = append(ops, "commit crash=-", fmt.Sprintf("rollback n=%d", 1+r.Intn(3)), "start "+crashTok(r, 8), "start crash=-")
			default:
				ops = append(ops, "commit crash=-")
			}
		}
		ops = append(ops, "start crash=-", "commit crash=-", "check")
		emit(core.Case{Kind: "pipe-prune", Ops: ops})
	}
	// (a2) random walks: crashes anywhere, repeated crashes while recovering, crashes at genesis
	for i := 0; i < 600*scale; i++ {
		n := r.Intn(5)
		ops := []string{genChain(r, n)}
		l := 4 + r.Intn(10)
		for j := 0; j < l; j++ {
			switch r.Intn(6) {
			case 0, 1:
				ops = append(ops, "start crash=-")
			case 2:
				ops = append(ops, "start "+crashTok(r, 8)+midTok(r))
			case 3, 4:
				ops = append(ops, "commit crash=-")
			case 5:
				ops = append(ops, "commit "+crashTok(r, 10)+midTok(r))
			}
		}
		ops = append(ops, "start crash=-", "commit crash=-", "check")
		emit(core.Case{Kind: "pipe-random", Ops: ops})
	}
	// (a3) hostile: application restored from an older snapshot / ahead of the store, foreign
	// last-responses record, block store ahead; and malformed lines
	for i := 0; i < 300*scale; i++ {
		n := 1 + r.Intn(4)
		ops := []string{genChain(r, n)}
		l := 4 + r.Intn(8)
		for j := 0; j < l; j++ {
			switch r.Intn(10) {
			case 0, 1:
				ops = append(ops, "start crash=-")
			case 2:
				ops = append(ops, "start "+crashTok(r, 8))
			case 3, 4:
				ops = append(ops, "commit crash=-")
			case 5:
				ops = append(ops, "commit "+crashTok(r, 10))
			case 6:
				ops = append(ops, fmt.Sprintf("rollback n=%d", 1+r.Intn(3)))
			case 7:
				ops = append(ops, fmt.Sprintf("appextra n=%d", 1+r.Intn(2)))
			case 8:
				ops = append(ops, fmt.Sprintf("setresp h=%d", r.Intn(n+2)))
			case 9:
				ops = append(ops, "saveblock")
			}
		}
		ops = append(ops, "start crash=-", "check")
		emit(core.Case{Kind: "pipe-hostile", Ops: ops})
	}
	bad := []string{"start", "start crash=x", "commit crash=", "chain n=2 txs=1", "chain n=x txs=1,2", "chain n=1 txs=a",
		"frobnicate", "rollback", "rollback n=-1", "setresp h=q", "rel what=check:1", "spawncheck i=1", "mp ver=v2 pool=1",
		"mp ver=v0 pool=x", "spawncommit", "rel what=nothing", "check now", "saveblock 1"}
	for i := 0; i < 20*scale; i++ {
		ops := []string{genChain(r, 2), "start crash=-"}
		for j := 0; j < 4; j++ {
			ops = append(ops, bad[r.Intn(len(bad))])
			if r.Intn(2) == 0 {
				ops = append(ops, "commit crash=-")
			}
		}
		emit(core.Case{Kind: "malformed", Ops: ops})
	}
	// (c) mempool interleavings
	for i := 0; i < 120*scale; i++ {
		ver := []string{"v0", "v1", "v0 conn=async", "v1 conn=async"}[r.Intn(4)]
		pool := r.Intn(3)
		ops := []string{fmt.Sprintf("mp ver=%s pool=%d", ver, pool)}
		ver = strings.ReplaceAll(ver, " conn=", "-")
		ids := []int{1, 9, 2}
		// a random schedule over the names a model-free scheduler can know: it releases whatever
		// the previous answers could have shown; wrong guesses answer not-enabled on both sides
		names := []string{"flush", "commit", "commit", "check:1", "check:2", "check:9", "check:1", "recheck:0", "recheck:1", "recheck:2", "recheck:3", "recheck:4"}
		nextCheck := 1
		l := 6 + r.Intn(12)
		// asynchronous connection: the order in which several checks blocked on the mempool lock get
		// queued when it is released is a scheduler race; at most one check is submitted once a
		// commit may hold the lock
		commits, lateChecks := 0, 0
		relCheckSeen := false
		for j := 0; j < l; j++ {
			switch x := r.Intn(10); {
			case x < 2 && nextCheck <= 3 && !(strings.HasSuffix(ver, "async") && commits > 0 && lateChecks > 0) &&
				// v1 over the asynchronous connection: a check blocked on the lock would race with the
				// recheck goroutines at unlock; checks are submitted before any commit or right after the
				// first spawncommit (the committer is then waiting in FlushSync with the lock released)
				// — which needs an unanswered request in front of the flush)
				!(ver == "v1-async" && commits > 0 && !(commits == 1 && ops[len(ops)-1] == "spawncommit" && nextCheck > 1 && !relCheckSeen)):
				ops = append(ops, fmt.Sprintf("spawncheck i=%d", ids[nextCheck-1]))
				nextCheck++
				if commits > 0 {
					lateChecks++
				}
			case x < 4:
				commits++
				ops = append(ops, "spawncommit")
			default:
				w := names[r.Intn(len(names))]
				if strings.HasPrefix(w, "check:") {
					relCheckSeen = true
				}
				ops = append(ops, "rel what="+w)
			}
		}
		emit(core.Case{Kind: "mp-random-" + ver, Ops: ops})
	}
	// asynchronous connection, v1: a check queued before the flush is answered before the commit is
	// requested; one queued while the committer waits in FlushSync (lock released) is in flight at commit
	for pool := 0; pool <= 2; pool++ {
		ops := []string{fmt.Sprintf("mp ver=v1 pool=%d conn=async", pool), "spawncheck i=1", "spawncommit", "spawncheck i=2",
			"rel what=flush", "rel what=check:1", "rel what=flush", "rel what=commit", "rel what=check:2", "rel what=recheck:0", "spawncheck i=3",
			"rel what=recheck:1", "rel what=recheck:2", "rel what=recheck:3", "rel what=check:3", "spawncommit", "rel what=flush", "rel what=commit"}
		emit(core.Case{Kind: "mp-scripted-v1-async", Ops: ops})
	}
	// asynchronous connection, v0: checks (accepted and rejected) unanswered when the commit starts,
	// with an empty and a non-empty pool; checks submitted while rechecks are unanswered
	for pool := 0; pool <= 2; pool++ {
		for _, first := range []int{1, 9} {
			ops := []string{fmt.Sprintf("mp ver=v0 pool=%d conn=async", pool), fmt.Sprintf("spawncheck i=%d", first), "spawncheck i=2", "spawncommit",
				"rel what=flush", "rel what=commit", fmt.Sprintf("rel what=check:%d", first), "rel what=flush", "rel what=check:2", "rel what=flush", "rel what=commit",
				"spawncheck i=3", "rel what=recheck:0", "rel what=check:3", "rel what=recheck:0", "rel what=recheck:1", "rel what=recheck:2", "rel what=recheck:3", "rel what=check:3",
				"spawncommit", "spawncheck i=4", "rel what=flush", "rel what=commit", "rel what=check:4"}
			emit(core.Case{Kind: "mp-scripted-v0-async", Ops: ops})
		}
	}
	for _, ver := range []string{"v0", "v1"} {
		for pool := 0; pool <= 2; pool++ {
			// check in flight when the commit starts
			ops := []string{fmt.Sprintf("mp ver=%s pool=%d", ver, pool), "spawncheck i=1", "spawncommit", "rel what=flush", "rel what=commit",
				"rel what=recheck:0", "rel what=check:1", "rel what=flush", "rel what=commit", "rel what=recheck:0", "rel what=recheck:1", "rel what=recheck:2", "rel what=recheck:3"}
			emit(core.Case{Kind: "mp-scripted-" + ver, Ops: ops})
			// check submitted at each phase of the commit
			for phase := 0; phase < 4; phase++ {
				ops := []string{fmt.Sprintf("mp ver=%s pool=%d", ver, pool), "spawncommit"}
				seq := []string{"rel what=flush", "rel what=commit", "rel what=recheck:0", "rel what=recheck:1"}
				for ph, s := range seq {
					if ph == phase {
						ops = append(ops, "spawncheck i=1")
					}
					ops = append(ops, s)
				}
				ops = append(ops, "rel what=check:1", "spawncommit", "rel what=flush", "rel what=commit", "rel what=recheck:1", "rel what=recheck:2", "rel what=recheck:3", "rel what=recheck:4", "rel what=recheck:5")
				emit(core.Case{Kind: "mp-scripted-" + ver, Ops: ops})
			}
		}
	}
	// (b) real node, killed at fail points
	nNode := 36
	if tier == "thorough" {
		nNode = 0
		for idx := 0; idx <= 36; idx++ { // every fail point of the first three heights
			second := []string{"", fmt.Sprintf(",%d", r.Intn(6)), fmt.Sprintf(",%d,%d", r.Intn(6), r.Intn(6))}[idx%3]
			opt := []string{"", " discard=1", " retain=1", " noempty=1"}[idx%4]
			emit(core.Case{Kind: "node", Ops: []string{fmt.Sprintf("node blocks=3 fails=%d%s mp=%s txs=%s%s", idx, second, []string{"v0", "v1"}[idx%2], []string{"-", "1,2,17,8,3,9"}[(idx/2)%2], opt)}})
		}
		nNode = 20
	}
	for i := 0; i < nNode; i++ {
		blocks := 2 + r.Intn(2)
		fails := []string{strconv.Itoa(r.Intn(11*blocks + 4))}
		if i%3 == 0 { // around the own-vote fail points: privval ahead of the WAL, votes replayed / refused / stale
			fails = []string{strconv.Itoa([]int{0, 1, 2, 11, 12, 13}[r.Intn(6)])}
		}
		for d := r.Intn(4); d > 0; d-- {
			fails = append(fails, strconv.Itoa(r.Intn(13)))
		}
		var txs []string
		for j := r.Intn(6) * (i % 2); j > 0; j-- {
			txs = append(txs, strconv.Itoa(txAlphabet[r.Intn(len(txAlphabet))]+10*r.Intn(3)*0))
		}
		ts := "-"
		if len(txs) > 0 {
			ts = strings.Join(txs, ",")
		}
		ih := []string{"", "", " ih=3", " ih=50"}[r.Intn(4)]
		// configuration corners of the commit pipeline: responses not kept per height, no empty
		// blocks, pruning below the application's RetainHeight
		ih += []string{"", "", " discard=1", " discard=1", " noempty=1", " retain=1", " retain=2 discard=1"}[r.Intn(7)]
		emit(core.Case{Kind: "node", Ops: []string{fmt.Sprintf("node blocks=%d fails=%s mp=%s txs=%s%s", blocks, strings.Join(fails, ","), []string{"v0", "v1"}[r.Intn(2)], ts, ih)}})
	}
}

func copyHist(h map[string]int) map[string]int {
	o := map[string]int{}
	for k, v := range h {
		o[k] = v
	}
	return o
}

func nonTrivial(c core.Case, out []string) bool {
	crashed, recovered := false, false
	for i, o := range out {
		if i >= len(c.Ops) {
			break
		}
		if strings.Contains(o, "out=crashed") {
			crashed = true
		}
		if crashed && strings.HasPrefix(o, "start out=ok") {
			recovered = true
		}
		if strings.HasPrefix(o, "gate=") && strings.Contains(o, ",") {
			return true
		}
		if strings.HasPrefix(o, "done ") {
			return true
		}
	}
	return crashed && recovered
}

func main() {
	if os.Getenv("TMH_C05_CHILD") != "" {
		childMain()
		return
	}
	core.Main(core.Prop{
		ID:         "C05",
		Driver:     "c05",
		Gen:        gen,
		Exec:       execCase,
		Oracle:     oracle,
		NonTrivial: nonTrivial,
		Parallel:   6,
		Rule:       "a case counts when a crash happened and a later handshake completed (pipe), when two requests were at the ABCI gate at once (mp), or when a real node run finished (node)",
		Assumptions: []string{
			"crash = process death between two persistent effects or inside a state-store effect before its committing write; no torn database pages",
			"local ABCI client only (socket/gRPC clients not driven)",
			"mempool interleavings are interleavings of mutex-protected sections observed at the ABCI connection; goroutine progress is read from goroutine states",
			"block store never pruned in the pipeline stream (base = 1)",
		},
		Extra: func() map[string]interface{} {
			statMu.Lock()
			defer statMu.Unlock()
			keys := make([]string, 0, len(preShapes))
			for k := range preShapes {
				keys = append(keys, k)
			}
			sort.Strings(keys)
			shapes := map[string]int{}
			for _, k := range keys {
				shapes[k] = preShapes[k]
			}
			return map[string]interface{}{
				"node_child_runs":              nodeRuns,
				"node_fail_points_hit":         failHits,
				"node_crash_state_shapes_seen": shapes,
				"pipe_start_outcomes":          copyHist(startHist),
			}
		},
	})
}
