package main

// Stream (a): the REAL consensus.Handshaker, sm.BlockExecutor.ApplyBlock, store.BlockStore and
// state store on (store, state, app) triples cut from a real chain at every effect boundary.
// A crash is a panic thrown by a harness-side wrapper at the start of the k-th persistent effect
// (application call on the consensus connection, state-store write, block-store write, WAL marker),
// unwound out of the real code; everything volatile is then dropped and rebuilt.

import (
	"bytes"
	"fmt"
	"strconv"
	"strings"
	"sync"
	"time"

	dbm "github.com/tendermint/tm-db"

	abci "github.com/tendermint/tendermint/abci/types"
	"github.com/tendermint/tendermint/consensus"
	"github.com/tendermint/tendermint/crypto/ed25519"
	"github.com/tendermint/tendermint/libs/clist"
	"github.com/tendermint/tendermint/libs/log"
	mempl "github.com/tendermint/tendermint/mempool"
	tmstate "github.com/tendermint/tendermint/proto/tendermint/state"
	tmproto "github.com/tendermint/tendermint/proto/tendermint/types"
	"github.com/tendermint/tendermint/proxy"
	sm "github.com/tendermint/tendermint/state"
	"github.com/tendermint/tendermint/store"
	"github.com/tendermint/tendermint/types"
)

var chainPriv = ed25519.GenPrivKeyFromSecret([]byte("verif-c05"))
var genesisTime = time.Date(2020, 1, 1, 0, 0, 0, 0, time.UTC)

func mkGenDoc(ih int64) *types.GenesisDoc {
	return &types.GenesisDoc{
		ChainID:         "c05",
		InitialHeight:   ih,
		GenesisTime:     genesisTime,
		ConsensusParams: types.DefaultConsensusParams(),
		Validators:      []types.GenesisValidator{{Address: chainPriv.PubKey().Address(), PubKey: chainPriv.PubKey(), Power: 10}},
	}
}

// nopMempool: what consensus/replay_stubs.go emptyMempool is (the pipeline stream is not about the mempool)
type nopMempool struct{}

var _ mempl.Mempool = nopMempool{}

func (nopMempool) Lock()            {}
func (nopMempool) Unlock()          {}
func (nopMempool) Size() int        { return 0 }
func (nopMempool) SizeBytes() int64 { return 0 }
func (nopMempool) CheckTx(_ types.Tx, _ func(*abci.Response), _ mempl.TxInfo) error {
	return nil
}
func (nopMempool) RemoveTxByKey(txKey types.TxKey) error       { return nil }
func (nopMempool) ReapMaxBytesMaxGas(_, _ int64) types.Txs     { return types.Txs{} }
func (nopMempool) ReapMaxTxs(n int) types.Txs                  { return types.Txs{} }
func (nopMempool) Update(_ int64, _ types.Txs, _ []*abci.ResponseDeliverTx, _ mempl.PreCheckFunc, _ mempl.PostCheckFunc) error {
	return nil
}
func (nopMempool) Flush()                        {}
func (nopMempool) FlushAppConn() error           { return nil }
func (nopMempool) TxsAvailable() <-chan struct{} { return make(chan struct{}) }
func (nopMempool) EnableTxsAvailable()           {}
func (nopMempool) TxsBytes() int64               { return 0 }
func (nopMempool) TxsFront() *clist.CElement     { return nil }
func (nopMempool) TxsWaitChan() <-chan struct{}  { return nil }
func (nopMempool) InitWAL() error                { return nil }
func (nopMempool) CloseWAL()                     {}

// chainData: a real chain produced once by the real BlockExecutor on scratch stores.
type chainData struct {
	emptyHash bool
	ihashes   [][]byte // the application's internal (never reported when emptyHash) hash after block k
	ih      int64 // genesis InitialHeight: block k (1..n) has height ih+k-1
	n       int
	txs     [][]int
	blocks  []*types.Block   // 1..n
	parts   []*types.PartSet // 1..n
	commits []*types.Commit  // seen commit of block h
	states  [][]byte         // canonical state bytes after height h (0 = unused)
	hashes  [][]byte         // app hash after height h (0 = nil)
	resps   []*tmstate.ABCIResponses
}

var chainCache sync.Map

// idx: block index of a height (0 = none)
func (cd *chainData) idx(h int64) int {
	if h < cd.ih || h >= cd.ih+int64(cd.n) {
		return 0
	}
	return int(h-cd.ih) + 1
}

// next height after h (state/store cursor semantics: 0 = nothing yet)
func (cd *chainData) next(h int64) int64 {
	if h == 0 {
		return cd.ih
	}
	return h + 1
}

func buildChain(key string, txs [][]int, ih int64, emptyHash ...bool) (*chainData, error) {
	eh := len(emptyHash) > 0 && emptyHash[0]
	key = fmt.Sprintf("%d|%v|%s", ih, eh, key)
	if v, ok := chainCache.Load(key); ok {
		return v.(*chainData), nil
	}
	n := len(txs)
	cd := &chainData{emptyHash: eh, ih: ih, n: n, txs: txs, blocks: make([]*types.Block, n+1), parts: make([]*types.PartSet, n+1),
		commits: make([]*types.Commit, n+1), states: make([][]byte, n+1), hashes: make([][]byte, n+1),
		resps: make([]*tmstate.ABCIResponses, n+1)}
	genDoc := mkGenDoc(ih)
	state, err := sm.MakeGenesisState(genDoc)
	if err != nil {
		return nil, err
	}
	app := &recApp{valKey: chainPriv.PubKey(), emptyHash: eh}
	stateStore := sm.NewStore(dbm.NewMemDB(), sm.StoreOptions{})
	blockStore := store.NewBlockStore(dbm.NewMemDB())
	pa := proxy.NewAppConns(proxy.NewLocalClientCreator(app))
	if err := pa.Start(); err != nil {
		return nil, err
	}
	defer pa.Stop() //nolint
	// the node's first start: handshake on empty stores (InitChain, genesis state saved)
	hs := consensus.NewHandshaker(stateStore, state, blockStore, genDoc)
	if err := hs.Handshake(pa); err != nil {
		return nil, err
	}
	state, err = stateStore.Load()
	if err != nil {
		return nil, err
	}
	pv := types.NewMockPVWithParams(chainPriv, false, false)
	be := sm.NewBlockExecutor(stateStore, log.NewNopLogger(), pa.Consensus(), nopMempool{}, sm.EmptyEvidencePool{})
	lastCommit := types.NewCommit(0, 0, types.BlockID{}, nil)
	for k := 1; k <= n; k++ {
		h := k
		hh := ih + int64(k) - 1
		var btxs []types.Tx
		for _, id := range txs[k-1] {
			btxs = append(btxs, mkTx(id))
		}
		block, ps := state.MakeBlock(hh, btxs, lastCommit, nil, state.Validators.GetProposer().Address)
		blockID := types.BlockID{Hash: block.Hash(), PartSetHeader: ps.Header()}
		vs := types.NewVoteSet(genDoc.ChainID, hh, 0, tmproto.PrecommitType, state.Validators)
		commit, err := types.MakeCommit(blockID, hh, 0, vs, []types.PrivValidator{pv}, genesisTime.Add(time.Duration(k)*time.Second))
		if err != nil {
			return nil, err
		}
		state, _, err = be.ApplyBlock(state, blockID, block)
		if err != nil {
			return nil, fmt.Errorf("scratch ApplyBlock %d: %v", h, err)
		}
		cd.blocks[h], cd.parts[h], cd.commits[h] = block, ps, commit
		cd.states[h] = state.Bytes()
		cd.hashes[h] = append([]byte{}, state.AppHash...)
		_, ihash, _ := app.snapshot()
		cd.ihashes = append(cd.ihashes, ihash)
		cd.resps[h], _ = stateStore.LoadABCIResponses(hh)
		lastCommit = commit
	}
	chainCache.Store(key, cd)
	return cd, nil
}

// crashStore wraps the state store: Save and SaveABCIResponses are persistent effects.
type crashStore struct {
	sm.Store
	tick    func(writes int)
	discard bool
}

// the effect's database writes as state/store.go makes them: Save = validators info (twice for the
// genesis state), consensus params info, the state itself; SaveABCIResponses = the per-height entry
// (unless discarded) and the last-responses record
func (s crashStore) Save(st sm.State) error {
	n := 3
	if st.LastBlockHeight == 0 {
		n = 4
	}
	s.tick(n)
	return s.Store.Save(st)
}

func (s crashStore) SaveABCIResponses(h int64, r *tmstate.ABCIResponses) error {
	n := 2
	if s.discard {
		n = 1
	}
	s.tick(n)
	return s.Store.SaveABCIResponses(h, r)
}

// midDB lets a state-store effect start and kills it after a chosen number of its database writes, at the
// latest before its last one (in the code as it is, the SetSync of the
// state key / lastABCIResponseKey): the effect's earlier writes are on disk, its commit point is not.
type midDB struct {
	dbm.DB
	p *pcase
}

func (d midDB) write() {
	if d.p.midArmed {
		if d.p.midLeft == 0 {
			d.p.midArmed = false
			panic(crashSig{})
		}
		d.p.midLeft--
	}
}

func (d midDB) SetSync(k, v []byte) error {
	d.write()
	return d.DB.SetSync(k, v)
}

func (d midDB) Set(k, v []byte) error {
	d.write()
	return d.DB.Set(k, v)
}

type crashSig struct{}

type pcase struct {
	cd         *chainData
	genDoc     *types.GenesisDoc
	app        *recApp
	inner      sm.Store
	stateStore sm.Store
	blockStore *store.BlockStore
	walEnd     int64 // emulated: the WAL's last #ENDHEIGHT (the real WAL is exercised by the node stream)
	pvH        int64 // emulated: privval's last signed height
	up         bool
	live       bool
	proxy      proxy.AppConns

	armed    bool
	k, count int
	mid      int
	midArmed bool
	midLeft  int // database writes of the current effect still allowed before the crash
	seen     int
}

func newPCase(cd *chainData, discard bool, retainK int) *pcase {
	p := &pcase{cd: cd, genDoc: mkGenDoc(cd.ih)}
	p.app = &recApp{valKey: chainPriv.PubKey(), emptyHash: cd.emptyHash}
	p.app.tick = p.tick
	if retainK >= 0 {
		p.app.hasRet, p.app.retainK = true, int64(retainK)
	}
	sdb := midDB{DB: dbm.NewMemDB(), p: p}
	// storage.discard_abci_responses: per-height responses are not kept, the last one always is
	p.inner = sm.NewStore(sdb, sm.StoreOptions{DiscardABCIResponses: discard})
	p.stateStore = crashStore{Store: p.inner, tick: p.tickStore, discard: discard}
	p.blockStore = store.NewBlockStore(dbm.NewMemDB())
	return p
}

func (p *pcase) tick() {
	if p.armed && p.count == p.k {
		p.armed = false
		panic(crashSig{})
	}
	p.count++
}

// a state-store effect: with mid set, the crash point "after k effects" is realised inside the
// (k+1)-th effect, just before its committing write
func (p *pcase) tickStore(writes int) {
	if p.armed && p.count == p.k && p.mid > 0 {
		left := p.mid
		if left > writes-1 {
			left = writes - 1
		}
		if left > 0 { // otherwise: before the first write = an ordinary crash point
			p.armed = false
			p.midArmed = true
			p.midLeft = left
			p.count++
			return
		}
	}
	p.tick()
}

func (p *pcase) arm(k int, mid int) {
	p.count = 0
	p.armed = k >= 0
	p.k = k
	p.mid = mid
	p.midArmed = false
}

// protect runs f; returns (crashed, panicValue)
func (p *pcase) protect(f func()) (crashed bool, pv interface{}) {
	defer func() {
		if r := recover(); r != nil {
			if _, ok := r.(crashSig); ok {
				crashed = true
			} else {
				pv = r
			}
		}
	}()
	f()
	return
}

func (p *pcase) die() {
	if p.proxy != nil {
		p.proxy.Stop() //nolint
		p.proxy = nil
	}
	p.up = false
	p.live = false
	p.armed = false
	p.midArmed = false
	p.app.Crash()
}

func (p *pcase) close() {
	if p.proxy != nil {
		p.proxy.Stop() //nolint
		p.proxy = nil
	}
}

type capLogger struct {
	mu   sync.Mutex
	real bool
	mock bool
}

func (l *capLogger) note(msg string) {
	l.mu.Lock()
	defer l.mu.Unlock()
	if strings.Contains(msg, "using real app") {
		l.real = true
	}
	if strings.Contains(msg, "using mock app") {
		l.mock = true
	}
}
func (l *capLogger) Debug(msg string, kv ...interface{}) {}
func (l *capLogger) Info(msg string, kv ...interface{})  { l.note(msg) }
func (l *capLogger) Error(msg string, kv ...interface{}) {}
func (l *capLogger) With(kv ...interface{}) log.Logger   { return l }

func classify(s string) string {
	switch {
	case strings.Contains(s, "too far below block store base"):
		return "err-app-too-low"
	case strings.Contains(s, "is higher than core"):
		return "err-app-too-high"
	case strings.Contains(s, "StateBlockHeight ("):
		return "panic-state-ahead"
	case strings.Contains(s, "StoreBlockHeight ("):
		return "panic-store-ahead"
	case strings.Contains(s, "uncovered case"):
		return "panic-uncovered"
	case strings.Contains(s, "block.AppHash does not match"):
		return "panic-hash-block"
	case strings.Contains(s, "state.AppHash does not match"):
		return "panic-hash-state"
	case strings.Contains(s, "could not find validator set for height"):
		return "panic-validators-pruned"
	case strings.Contains(s, "not persisting abci responses"):
		return "err-resp-not-persisted"
	case strings.Contains(s, "last stored abci responses") || strings.Contains(s, "no last ABCI response"):
		return "err-no-resp"
	case strings.Contains(s, "wrong Block.Header") || strings.Contains(s, "invalid block"):
		return "err-invalid-block"
	}
	return "other:" + strings.ReplaceAll(trunc(s, 200), " ", "_")
}

func trunc(s string, n int) string {
	s = strings.ReplaceAll(s, "\n", " ")
	if len(s) > n {
		return s[:n]
	}
	return s
}


func (p *pcase) line(hd string) string {
	h, hash, j := p.app.snapshot()
	st, err := p.inner.Load()
	if err != nil {
		return hd + " load-error"
	}
	resp := pipeRespHeight(p)
	sc := true
	if st.LastBlockHeight > 0 {
		k := p.cd.idx(st.LastBlockHeight)
		sc = k > 0 && bytes.Equal(st.Bytes(), p.cd.states[k])
	}
	delta := j[p.seen:]
	p.seen = len(j)
	js := "-"
	if len(delta) > 0 {
		js = strings.Join(delta, ",")
	}
	return fmt.Sprintf("%s app=%d store=%d base=%d state=%d resp=%s wal=%d pv=%d heq=%s sc=%s up=%s live=%s j=%s", hd, h,
		p.blockStore.Height(), p.blockStore.Base(), st.LastBlockHeight, resp, p.walEnd, p.pvH, bit(p.hashEq(hash, st)), bit(sc), bit(p.up), bit(p.live), js)
}

// does the application's hash equal the state's app hash? With an application that reports a
// zero-length hash at every height the reported values are trivially equal; the comparison is then
// made on what the hash stands for: the application's internal history digest against the one of
// the uninterrupted run at the state's height
func (p *pcase) hashEq(appInternal []byte, st sm.State) bool {
	if !p.app.emptyHash {
		return bytes.Equal(appInternal, st.AppHash)
	}
	if len(st.AppHash) != 0 {
		return false
	}
	k := p.cd.idx(st.LastBlockHeight)
	if k == 0 {
		return len(appInternal) == 0
	}
	return k-1 < len(p.cd.ihashes) && bytes.Equal(appInternal, p.cd.ihashes[k-1])
}

// the height stored under lastABCIResponseKey: probe the public API for the height it accepts
func pipeRespHeight(p *pcase) string {
	for h := int64(0); h <= p.cd.ih+int64(p.cd.n)+2; h++ {
		if _, err := p.inner.LoadLastABCIResponse(h); err == nil {
			return strconv.FormatInt(h, 10)
		} else if strings.Contains(err.Error(), "no last ABCI response") {
			return "-"
		}
	}
	return "?"
}

func (p *pcase) start(k int, mid int) string {
	if p.proxy != nil { // restart of a running node: clean stop first (nothing volatile is open)
		p.close()
		p.up = false
		p.live = false
	}
	lg := &capLogger{}
	out := "ok"
	live := false
	p.arm(k, mid)
	crashed, pv := p.protect(func() {
		state, err := p.inner.LoadFromDBOrGenesisDoc(p.genDoc)
		if err != nil {
			out = "other:" + err.Error()
			return
		}
		p.proxy = proxy.NewAppConns(proxy.NewLocalClientCreator(p.app))
		if err := p.proxy.Start(); err != nil {
			out = "other:" + err.Error()
			return
		}
		hs := consensus.NewHandshaker(p.stateStore, state, p.blockStore, p.genDoc)
		hs.SetLogger(lg)
		if err := hs.Handshake(p.proxy); err != nil {
			out = classify(err.Error())
			return
		}
		// State.OnStart -> catchupReplay(stateH+1): replays the WAL after #ENDHEIGHT stateH; as
		// repaired it writes that marker when the WAL lacks it (then nothing is replayed)
		st, err := p.inner.Load()
		if err != nil {
			out = "other:" + err.Error()
			return
		}
		live = p.walEnd == st.LastBlockHeight || p.pvH <= st.LastBlockHeight
		if p.walEnd != st.LastBlockHeight {
			p.tick()
			p.walEnd = st.LastBlockHeight
		}
	})
	switch {
	case crashed:
		out = "crashed"
		p.die()
	case pv != nil:
		out = classify(fmt.Sprint(pv))
		p.die()
	case out != "ok":
		p.die()
	case k >= 0: // the process dies right after the handshake completed
		p.die()
	default:
		p.armed = false
		p.up = true
		p.live = live
	}
	real, mock := lg.real && out != "crashed", lg.mock && out != "crashed"
	return p.line(fmt.Sprintf("start out=%s real=%s mock=%s", out, bit(real), bit(mock)))
}

// commit = consensus/state.go finalizeCommit for the next height on the running node:
// (ValidateBlock) ; SaveBlock unless stored ; WAL #ENDHEIGHT ; ApplyBlock
func (p *pcase) commit(k int, mid int) string {
	if !p.up || !p.live {
		return p.line("commit out=not-up")
	}
	state, err := p.inner.Load()
	if err != nil {
		return "commit load-error"
	}
	h := p.cd.next(state.LastBlockHeight) // cs.Height of updateToState
	bi := p.cd.idx(h)
	if bi == 0 {
		return p.line("commit out=no-block")
	}
	block, ps := p.cd.blocks[bi], p.cd.parts[bi]
	be := sm.NewBlockExecutor(p.stateStore, log.NewNopLogger(), p.proxy.Consensus(), nopMempool{}, sm.EmptyEvidencePool{})
	if err := be.ValidateBlock(state, block); err != nil {
		p.die()
		return p.line("commit out=invalid")
	}
	out := "ok"
	p.arm(k, mid)
	crashed, pv := p.protect(func() {
		p.tick()
		p.pvH = h // the validator's prevote for h: signed (privval) and logged (WAL)
		p.tick()  // ... and its precommit
		if p.blockStore.Height() < block.Height {
			p.tick()
			p.blockStore.SaveBlock(block, ps, p.cd.commits[bi])
		}
		p.tick()
		p.walEnd = h
		_, retainHeight, err := be.ApplyBlock(state.Copy(), types.BlockID{Hash: block.Hash(), PartSetHeader: ps.Header()}, block)
		if err != nil {
			out = "apply-error:" + classify(err.Error())
			return
		}
		// cs.pruneBlocks(retainHeight), consensus/state.go
		if retainHeight > 0 {
			base := p.blockStore.Base()
			if retainHeight > base {
				p.tick()
				if _, err := p.blockStore.PruneBlocks(retainHeight); err == nil {
					p.tick()
					_ = p.stateStore.PruneStates(base, retainHeight)
				}
			}
		}
	})
	switch {
	case crashed:
		out = "crashed"
		p.die()
	case pv != nil:
		out = "panic:" + classify(fmt.Sprint(pv))
		p.die()
	case k >= 0:
		p.die()
	default:
		p.armed = false
	}
	return p.line("commit out=" + out)
}

func (p *pcase) saveblock() string {
	k := p.cd.idx(p.cd.next(p.blockStore.Height()))
	if k == 0 {
		return p.line("saveblock out=no-block")
	}
	p.die()
	p.blockStore.SaveBlock(p.cd.blocks[k], p.cd.parts[k], p.cd.commits[k])
	return p.line("saveblock out=ok")
}

func (p *pcase) setresp(h int) string {
	r := &tmstate.ABCIResponses{BeginBlock: &abci.ResponseBeginBlock{}, EndBlock: &abci.ResponseEndBlock{}}
	if k := p.cd.idx(int64(h)); k > 0 && p.cd.resps[k] != nil {
		r = p.cd.resps[k]
	}
	if err := p.inner.SaveABCIResponses(int64(h), r); err != nil {
		return "setresp error"
	}
	return p.line("setresp")
}

func (p *pcase) check() string {
	_, _, j := p.app.snapshot()
	committed, bad := journalCheckIH(j, func(h int64) ([]int, bool) {
		k := p.cd.idx(h)
		if k == 0 {
			return nil, false
		}
		return p.cd.txs[k-1], true
	}, p.cd.ih)
	if bad != "" {
		return "wf=0"
	}
	return fmt.Sprintf("wf=1 committed=%d", committed)
}

func parseCrash(s string) (int, bool) {
	if s == "-" {
		return -1, true
	}
	n, err := strconv.Atoi(s)
	if err != nil || n < 0 {
		return 0, false
	}
	return n, true
}

func parseChain(m map[string]string) ([][]int, bool) {
	n, err := strconv.Atoi(m["n"])
	if err != nil {
		return nil, false
	}
	var txs [][]int
	if m["txs"] != "-" && m["txs"] != "" {
		for _, b := range strings.Split(m["txs"], ",") {
			var ids []int
			if b != "e" {
				for _, t := range strings.Split(b, ".") {
					id, err := strconv.Atoi(t)
					if err != nil || id < 0 {
						return nil, false
					}
					ids = append(ids, id)
				}
			}
			txs = append(txs, ids)
		}
	}
	if len(txs) != n {
		return nil, false
	}
	return txs, true
}

func bit(b bool) string {
	if b {
		return "1"
	}
	return "0"
}
