package main

// Stream (c): the REAL mempool v0 / v1 and the REAL sm.BlockExecutor.Commit, driven through a gate
// on the ABCI connections: every CheckTx / Flush / Commit request stops at the gate when it is issued
// ("arrives" = the request is started on the connection) and is forwarded to the application only
// when the op line releases it. Goroutines run until they block (on the gate or on the mempool
// mutex); quiescence is read off the goroutine states, then the set of requests at the gate is printed.

import (
	"bytes"
	"fmt"
	"runtime"
	"sort"
	"strconv"
	"strings"
	"sync"
	"time"

	abcicli "github.com/tendermint/tendermint/abci/client"
	abci "github.com/tendermint/tendermint/abci/types"
	cfg "github.com/tendermint/tendermint/config"
	"github.com/tendermint/tendermint/libs/log"
	tmsync "github.com/tendermint/tendermint/libs/sync"
	mempl "github.com/tendermint/tendermint/mempool"
	mempoolv0 "github.com/tendermint/tendermint/mempool/v0"
	mempoolv1 "github.com/tendermint/tendermint/mempool/v1"
	"github.com/tendermint/tendermint/proxy"
	sm "github.com/tendermint/tendermint/state"
	"github.com/tendermint/tendermint/types"
	dbm "github.com/tendermint/tm-db"
)

// one mempool case at a time: quiescence is judged from the process's goroutine dump
var mpSerial sync.Mutex

type gateEntry struct {
	kind string // check | recheck | flush | commit
	tx   string
	name string
	ch   chan struct{}
}

type gate struct {
	mu      sync.Mutex
	open    bool // pass-through (setup / teardown)
	waiting []*gateEntry
	nextRe  int
	arrived int
}

func (g *gate) pass(kind, tx string) {
	g.mu.Lock()
	if g.open {
		g.mu.Unlock()
		return
	}
	e := &gateEntry{kind: kind, tx: tx, ch: make(chan struct{})}
	g.waiting = append(g.waiting, e)
	g.arrived++
	g.mu.Unlock()
	<-e.ch
}

// names assigns stable names to the requests at the gate and returns them sorted
func (g *gate) names() []string {
	g.mu.Lock()
	defer g.mu.Unlock()
	var fresh []*gateEntry
	for _, e := range g.waiting {
		if e.name == "" {
			switch e.kind {
			case "check":
				e.name = "check:" + strings.TrimPrefix(e.tx, "c")
			case "recheck":
				fresh = append(fresh, e)
			default:
				e.name = e.kind
			}
		}
	}
	sort.Slice(fresh, func(i, j int) bool { return fresh[i].tx < fresh[j].tx })
	for _, e := range fresh {
		e.name = "recheck:" + strconv.Itoa(g.nextRe)
		g.nextRe++
	}
	var out []string
	for _, e := range g.waiting {
		out = append(out, e.name)
	}
	sort.Strings(out)
	return out
}

func (g *gate) release(name string) bool {
	g.mu.Lock()
	defer g.mu.Unlock()
	for i, e := range g.waiting {
		if e.name == name {
			g.waiting = append(g.waiting[:i], g.waiting[i+1:]...)
			close(e.ch)
			return true
		}
	}
	return false
}

func (g *gate) openAll() {
	g.mu.Lock()
	defer g.mu.Unlock()
	g.open = true
	for _, e := range g.waiting {
		close(e.ch)
	}
	g.waiting = nil
}

type gateClient struct {
	abcicli.Client
	g *gate
}

func (c *gateClient) CheckTxAsync(req abci.RequestCheckTx) *abcicli.ReqRes {
	c.g.pass(checkKind(req), string(req.Tx))
	return c.Client.CheckTxAsync(req)
}

func (c *gateClient) CheckTxSync(req abci.RequestCheckTx) (*abci.ResponseCheckTx, error) {
	c.g.pass(checkKind(req), string(req.Tx))
	return c.Client.CheckTxSync(req)
}

func (c *gateClient) FlushSync() error {
	c.g.pass("flush", "")
	return c.Client.FlushSync()
}

func (c *gateClient) CommitSync() (*abci.ResponseCommit, error) {
	c.g.pass("commit", "")
	return c.Client.CommitSync()
}

func checkKind(req abci.RequestCheckTx) string {
	if req.Type == abci.CheckTxType_Recheck {
		return "recheck"
	}
	return "check"
}

// asyncClient is an asynchronous mempool connection (what the socket client is): CheckTxAsync
// queues the request and returns at once; the request is in flight until the op line releases it
// (FIFO, like the socket server answering in order): then it is forwarded to the application,
// the response is set, the global and the per-request callbacks run in the answering goroutine.
// FlushSync returns when every request queued before it has been answered.
type asyncClient struct {
	abcicli.Client
	g     *gate
	mu    sync.Mutex
	cond  *sync.Cond
	cb    abcicli.Callback
	queue []*asyncEntry
	m     *mpCase
	enq   int // requests queued so far
	ans   int // requests answered so far (FIFO)
}

type asyncEntry struct {
	rr   *abcicli.ReqRes
	req  abci.RequestCheckTx
	name string
}

func newAsyncClient(inner abcicli.Client, g *gate) *asyncClient {
	c := &asyncClient{Client: inner, g: g}
	c.cond = sync.NewCond(&c.mu)
	return c
}

func (c *asyncClient) SetResponseCallback(cb abcicli.Callback) {
	c.mu.Lock()
	c.cb = cb
	c.mu.Unlock()
}

func (c *asyncClient) Error() error { return nil }

func (c *asyncClient) answer(e *asyncEntry) {
	res, _ := c.Client.CheckTxSync(e.req)
	e.rr.Response = abci.ToResponseCheckTx(*res)
	e.rr.Done()
	c.mu.Lock()
	cb := c.cb
	c.mu.Unlock()
	if cb != nil {
		cb(e.rr.Request, e.rr.Response)
	}
	e.rr.InvokeCallback()
}

func (c *asyncClient) CheckTxAsync(req abci.RequestCheckTx) *abcicli.ReqRes {
	e := &asyncEntry{rr: abcicli.NewReqRes(abci.ToRequestCheckTx(req)), req: req}
	c.g.mu.Lock()
	open := c.g.open
	if !open {
		c.g.arrived++
	}
	c.g.mu.Unlock()
	if open {
		c.answer(e)
		return e.rr
	}
	c.mu.Lock()
	if checkKind(req) != "recheck" {
		e.name = "check:" + strings.TrimPrefix(string(req.Tx), "c")
	} // rechecks are labelled in queue order when the queue is observed
	c.queue = append(c.queue, e)
	c.enq++
	c.mu.Unlock()
	return e.rr
}

func (c *asyncClient) CheckTxSync(req abci.RequestCheckTx) (*abci.ResponseCheckTx, error) {
	rr := c.CheckTxAsync(req)
	rr.Wait()
	return rr.Response.GetCheckTx(), nil
}

func (c *asyncClient) FlushAsync() *abcicli.ReqRes {
	return c.Client.FlushAsync()
}

// FlushSync returns when every request queued BEFORE it has been answered (the flush request
// travels on the same FIFO connection)
func (c *asyncClient) FlushSync() error {
	c.mu.Lock()
	target := c.enq
	for c.ans < target {
		c.cond.Wait()
	}
	c.mu.Unlock()
	c.g.pass("flush", "") // the flush answer is held at the gate until the op line releases it
	return nil
}

func (c *asyncClient) names() []string {
	c.mu.Lock()
	defer c.mu.Unlock()
	var out []string
	for _, e := range c.queue {
		if e.name == "" {
			c.g.mu.Lock()
			e.name = "recheck:" + strconv.Itoa(c.g.nextRe)
			c.g.nextRe++
			c.g.mu.Unlock()
		}
		out = append(out, e.name)
	}
	return out
}

// releaseHead answers the head of the queue if it has this name (goroutine named for the quiescence check)
func (c *asyncClient) releaseHead(name string, m *mpCase) bool {
	c.names()
	c.mu.Lock()
	if len(c.queue) == 0 || c.queue[0].name != name {
		c.mu.Unlock()
		return false
	}
	e := c.queue[0]
	c.mu.Unlock()
	m.wg.Add(1)
	go m.mpThreadAnswer(c, e)
	return true
}

func (m *mpCase) mpThreadAnswer(c *asyncClient, e *asyncEntry) {
	defer m.wg.Done()
	c.answer(e)
	c.mu.Lock()
	c.queue = c.queue[1:]
	c.ans++
	c.cond.Broadcast()
	c.mu.Unlock()
}

func (c *asyncClient) drain() {
	for {
		c.mu.Lock()
		if len(c.queue) == 0 {
			c.mu.Unlock()
			return
		}
		e := c.queue[0]
		c.mu.Unlock()
		c.answer(e)
		c.mu.Lock()
		c.queue = c.queue[1:]
		c.ans++
		c.cond.Broadcast()
		c.mu.Unlock()
	}
}

// trackMempool is what BlockExecutor.Commit sees: it notes whether FlushAppConn is called under the
// mempool lock (v1's FlushAppConn unlocks the mutex it expects to hold: calling it unlocked is a fatal
// runtime error, so the flush is then sent on the connection directly and the fact is reported)
type trackMempool struct {
	mempl.Mempool
	conn     proxy.AppConnMempool
	mu       sync.Mutex
	locked   bool
	unlocked bool // FlushAppConn was called without the lock
}

func (t *trackMempool) Lock() {
	t.Mempool.Lock()
	t.mu.Lock()
	t.locked = true
	t.mu.Unlock()
}

func (t *trackMempool) Unlock() {
	t.mu.Lock()
	t.locked = false
	t.mu.Unlock()
	t.Mempool.Unlock()
}

func (t *trackMempool) FlushAppConn() error {
	t.mu.Lock()
	locked := t.locked
	if !locked {
		t.unlocked = true
	}
	t.mu.Unlock()
	if locked {
		return t.Mempool.FlushAppConn()
	}
	return t.conn.FlushSync()
}

func (t *trackMempool) flag() string {
	t.mu.Lock()
	defer t.mu.Unlock()
	if t.unlocked {
		return " flush-outside-lock"
	}
	return ""
}

type mpCase struct {
	track   *trackMempool
	async   *asyncClient
	ver     string
	g       *gate
	mp      mempl.Mempool
	be      *sm.BlockExecutor
	state   sm.State
	height  int64
	wg      sync.WaitGroup
	spawned map[int]bool
	mu      sync.Mutex
	commitR bool // committer goroutine running
}

func newMPCase(ver string, pool int, async bool) (*mpCase, error) {
	m := &mpCase{ver: ver, g: &gate{open: true}, spawned: map[int]bool{}}
	app := &recApp{}
	mtx := new(tmsync.Mutex)
	var mcli abcicli.Client = &gateClient{Client: abcicli.NewLocalClient(mtx, app), g: m.g}
	if async {
		m.async = newAsyncClient(abcicli.NewLocalClient(mtx, app), m.g)
		mcli = m.async
	}
	ccli := &gateClient{Client: abcicli.NewLocalClient(mtx, app), g: m.g}
	conf := cfg.DefaultMempoolConfig()
	conf.Version = ver
	conf.Recheck = true
	conf.CacheSize = 1000
	mconn := proxy.NewAppConnMempool(mcli)
	if ver == "v0" {
		m.mp = mempoolv0.NewCListMempool(conf, mconn, 0)
	} else {
		m.mp = mempoolv1.NewTxMempool(log.NewNopLogger(), conf, mconn, 0)
	}
	st, err := sm.MakeGenesisState(mkGenDoc(1))
	if err != nil {
		return nil, err
	}
	m.state = st
	m.track = &trackMempool{Mempool: m.mp, conn: mconn}
	m.be = sm.NewBlockExecutor(sm.NewStore(dbm.NewMemDB(), sm.StoreOptions{}), log.NewNopLogger(),
		proxy.NewAppConnConsensus(ccli), m.track, sm.EmptyEvidencePool{})
	for j := 0; j < pool; j++ {
		if err := m.mp.CheckTx(types.Tx(fmt.Sprintf("p%03d", j)), nil, mempl.TxInfo{}); err != nil {
			return nil, err
		}
	}
	if m.mp.Size() != pool {
		return nil, fmt.Errorf("setup: pool size %d, wanted %d", m.mp.Size(), pool)
	}
	m.g.mu.Lock()
	m.g.open = false
	m.g.mu.Unlock()
	return m, nil
}

// the goroutines of the case: named so that the goroutine dump identifies them
func (m *mpCase) mpThreadCheck(i int) {
	defer m.wg.Done()
	_ = m.mp.CheckTx(types.Tx("c"+strconv.Itoa(i)), nil, mempl.TxInfo{})
}

func (m *mpCase) mpThreadCommit() {
	defer m.wg.Done()
	m.height++
	block := types.MakeBlock(m.height, nil, nil, nil)
	_, _, _ = m.be.Commit(m.state, block, nil)
	m.mu.Lock()
	m.commitR = false
	m.mu.Unlock()
}

var busyStates = []string{"[running", "[runnable", "[syscall", "[IO wait"}
var ourFrames = []string{"cmd/c05.(*mpCase).mpThread", "mempool/v0.", "mempool/v1.", "taskgroup."}

// quiescent: no goroutine belonging to the case is runnable
func quiescent() bool {
	buf := make([]byte, 1<<20)
	n := runtime.Stack(buf, true)
	for _, gr := range bytes.Split(buf[:n], []byte("\n\n")) {
		s := string(gr)
		ours := false
		for _, f := range ourFrames {
			if strings.Contains(s, f) {
				ours = true
				break
			}
		}
		if !ours || strings.Contains(s, "cmd/c05.quiescent") {
			continue
		}
		hdr := s
		if i := strings.IndexByte(s, '\n'); i >= 0 {
			hdr = s[:i]
		}
		for _, b := range busyStates {
			if strings.Contains(hdr, b) {
				return false
			}
		}
	}
	return true
}

func (m *mpCase) settle() string {
	deadline := time.Now().Add(5 * time.Second)
	stable := 0
	last := ""
	for time.Now().Before(deadline) {
		runtime.Gosched()
		time.Sleep(300 * time.Microsecond)
		if !quiescent() {
			stable = 0
			continue
		}
		cur := fmt.Sprint(m.g.arrivedCount(), m.mp.Size())
		if cur == last {
			stable++
		} else {
			stable = 0
			last = cur
		}
		if stable >= 3 {
			names := m.g.names()
			gs := "-"
			if len(names) > 0 {
				gs = strings.Join(names, ",")
			}
			if m.async != nil {
				qs := "-"
				if q := m.async.names(); len(q) > 0 {
					qs = strings.Join(q, ",")
				}
				return fmt.Sprintf("gate=%s queue=%s pool=%d%s", gs, qs, m.mp.Size(), m.track.flag())
			}
			return fmt.Sprintf("gate=%s pool=%d%s", gs, m.mp.Size(), m.track.flag())
		}
	}
	return "TIMEOUT-not-quiescent"
}

func (g *gate) arrivedCount() int {
	g.mu.Lock()
	defer g.mu.Unlock()
	return g.arrived
}

func (m *mpCase) spawnCheck(i int) string {
	if m.spawned[i] {
		return "not-enabled"
	}
	m.spawned[i] = true
	m.wg.Add(1)
	go m.mpThreadCheck(i)
	return m.settle()
}

func (m *mpCase) spawnCommit() string {
	m.mu.Lock()
	if m.commitR {
		m.mu.Unlock()
		return "not-enabled"
	}
	m.commitR = true
	m.mu.Unlock()
	m.wg.Add(1)
	go m.mpThreadCommit()
	return m.settle()
}

func (m *mpCase) rel(what string) string {
	m.g.names()
	if m.async != nil && (strings.HasPrefix(what, "check:") || strings.HasPrefix(what, "recheck:")) {
		if !m.async.releaseHead(what, m) {
			return "not-enabled"
		}
		return m.settle()
	}
	if !m.g.release(what) {
		return "not-enabled"
	}
	return m.settle()
}

func (m *mpCase) close() {
	m.g.openAll()
	if m.async != nil {
		m.async.drain()
	}
	done := make(chan struct{})
	go func() { m.wg.Wait(); close(done) }()
	select {
	case <-done:
	case <-time.After(5 * time.Second):
	}
	// v1: let the recheck goroutine drain
	for i := 0; i < 200 && !quiescent(); i++ {
		time.Sleep(time.Millisecond)
	}
}
