// C05 node rig: a REAL single-validator tendermint node (node.NewNode: handshake, WAL catch-up,
// consensus, mempool, block executor) in a child process of this binary, on a directory that
// survives the child. The child is stopped either by the repo's own libs/fail crash points
// (FAIL_TEST_INDEX, exit code 1) or cleanly by the recording application at BeginBlock N+1
// (exit code 0). The parent restarts it on the same directory and finally reads the journal, the
// trace of (app, store, state) heights around every handshake, and the chain from the block store.
package main

import (
	"bytes"
	"context"
	"errors"
	"fmt"
	"os"
	"os/exec"
	"path/filepath"
	"strconv"
	"strings"
	"time"

	dbm "github.com/tendermint/tm-db"

	"github.com/tendermint/tendermint/config"
	"github.com/tendermint/tendermint/libs/log"
	"github.com/tendermint/tendermint/mempool"
	"github.com/tendermint/tendermint/node"
	"github.com/tendermint/tendermint/p2p"
	"github.com/tendermint/tendermint/privval"
	tmstate "github.com/tendermint/tendermint/proto/tendermint/state"
	"github.com/tendermint/tendermint/proxy"
	sm "github.com/tendermint/tendermint/state"
	"github.com/tendermint/tendermint/store"
	"github.com/tendermint/tendermint/types"
)

const (
	envChild   = "TMH_C05_CHILD"
	envBlocks  = "TMH_C05_BLOCKS"
	envMpVer   = "TMH_C05_MPVER"
	envTxs     = "TMH_C05_TXS"
	envTimeout = "TMH_C05_TIMEOUT"
	envRun     = "TMH_C05_RUN"
	envVerbose = "TMH_C05_VERBOSE"

	nodeChainID = "c05-node"
)

// ---------------------------------------------------------------------------------------------
// child side

func traceAppend(dir, line string) {
	f, err := os.OpenFile(filepath.Join(dir, "trace.log"), os.O_APPEND|os.O_CREATE|os.O_WRONLY, 0o644)
	if err != nil {
		fmt.Fprintln(os.Stderr, "trace:", err)
		return
	}
	_, _ = f.WriteString(line + "\n")
	_ = f.Sync()
	_ = f.Close()
}

func oneLine(s string) string {
	s = strings.ReplaceAll(s, "\r", " ")
	return strings.ReplaceAll(s, "\n", " | ")
}

func b01(b bool) int {
	if b {
		return 1
	}
	return 0
}

func childDie(dir string, code int, what string, err interface{}) {
	msg := oneLine(fmt.Sprint(err))
	traceAppend(dir, what+" "+msg)
	fmt.Fprintln(os.Stderr, "c05 child:", what, msg)
	os.Exit(code)
}

func envInt(name string, def int) int {
	if v, err := strconv.Atoi(strings.TrimSpace(os.Getenv(name))); err == nil {
		return v
	}
	return def
}

func parseIDs(s string) []int {
	var out []int
	for _, f := range strings.Split(s, ",") {
		f = strings.TrimSpace(f)
		if f == "" {
			continue
		}
		if v, err := strconv.Atoi(f); err == nil {
			out = append(out, v)
		}
	}
	return out
}

// lastRespHeight reads the height recorded with the last persisted ABCI responses ("-" if none).
func lastRespHeight(db dbm.DB) string {
	bz, err := db.Get([]byte("lastABCIResponseKey"))
	if err != nil || len(bz) == 0 {
		return "-"
	}
	info := new(tmstate.ABCIResponsesInfo)
	if err := info.Unmarshal(bz); err != nil {
		return "?"
	}
	return strconv.FormatInt(info.GetHeight(), 10)
}

// peekStores opens block store and state DB, reads the heights and closes both again.
func peekStores(cfg *config.Config) (storeH, stateH int64, appHash []byte, resp string, err error) {
	bdb, err := node.DefaultDBProvider(&node.DBContext{ID: "blockstore", Config: cfg})
	if err != nil {
		return 0, 0, nil, "?", err
	}
	storeH = store.NewBlockStore(bdb).Height()
	if err = bdb.Close(); err != nil {
		return 0, 0, nil, "?", err
	}
	sdb, err := node.DefaultDBProvider(&node.DBContext{ID: "state", Config: cfg})
	if err != nil {
		return 0, 0, nil, "?", err
	}
	st, lerr := sm.NewStore(sdb, sm.StoreOptions{DiscardABCIResponses: true}).Load()
	resp = lastRespHeight(sdb)
	if cerr := sdb.Close(); cerr != nil && lerr == nil {
		lerr = cerr
	}
	if lerr != nil {
		return storeH, 0, nil, resp, lerr
	}
	return storeH, st.LastBlockHeight, st.AppHash, resp, nil
}

func childMain() {
	dir := os.Getenv(envChild)
	timeout := envInt(envTimeout, 60)
	if timeout <= 0 {
		timeout = 60
	}
	time.AfterFunc(time.Duration(timeout)*time.Second, func() {
		fmt.Fprintln(os.Stderr, "c05 child: safety timeout")
		os.Exit(3)
	})

	cfg := config.DefaultConfig()
	cfg.SetRoot(dir)
	for _, d := range []string{"config", "data"} {
		if err := os.MkdirAll(filepath.Join(dir, d), 0o700); err != nil {
			childDie(dir, 5, "setup-error", err)
		}
	}
	cfg.DBBackend = "goleveldb"
	cfg.P2P.ListenAddress = "tcp://127.0.0.1:0"
	cfg.P2P.PexReactor = false
	cfg.P2P.AllowDuplicateIP = true
	cfg.RPC.ListenAddress = ""
	cfg.RPC.GRPCListenAddress = ""
	cfg.Consensus.TimeoutCommit = 10 * time.Millisecond
	cfg.Consensus.SkipTimeoutCommit = true
	cfg.Consensus.CreateEmptyBlocks = envInt("TMH_C05_NOEMPTY", 0) == 0
	cfg.Storage.DiscardABCIResponses = envInt("TMH_C05_DISCARD", 0) == 1
	cfg.Consensus.CreateEmptyBlocksInterval = 0
	mpver := os.Getenv(envMpVer)
	if mpver == "" {
		mpver = config.MempoolV0
	}
	cfg.Mempool.Version = mpver
	cfg.Mempool.Recheck = true
	cfg.TxIndex.Indexer = "null"
	cfg.Instrumentation.Prometheus = false
	if err := cfg.ValidateBasic(); err != nil {
		childDie(dir, 5, "setup-error", err)
	}

	pv := privval.LoadOrGenFilePV(cfg.PrivValidatorKeyFile(), cfg.PrivValidatorStateFile())
	nodeKey, err := p2p.LoadOrGenNodeKey(cfg.NodeKeyFile())
	if err != nil {
		childDie(dir, 5, "setup-error", err)
	}
	pubKey, err := pv.GetPubKey()
	if err != nil {
		childDie(dir, 5, "setup-error", err)
	}
	if _, err := os.Stat(cfg.GenesisFile()); err != nil {
		genDoc := &types.GenesisDoc{
			ChainID:         nodeChainID,
			InitialHeight:   int64(envInt("TMH_C05_IH", 1)),
			GenesisTime:     time.Date(2020, 1, 1, 0, 0, 0, 0, time.UTC),
			ConsensusParams: types.DefaultConsensusParams(),
			Validators: []types.GenesisValidator{{
				Address: pubKey.Address(), PubKey: pubKey, Power: 10, Name: "v0"}},
		}
		if err := genDoc.ValidateAndComplete(); err != nil {
			childDie(dir, 5, "setup-error", err)
		}
		if err := genDoc.SaveAs(cfg.GenesisFile()); err != nil {
			childDie(dir, 5, "setup-error", err)
		}
	}

	app, err := openRecApp(filepath.Join(dir, "journal"))
	if err != nil {
		childDie(dir, 5, "setup-error", err)
	}
	app.valKey = pubKey
	if os.Getenv("TMH_C05_RETAIN") != "" {
		app.hasRet, app.retainK = true, int64(envInt("TMH_C05_RETAIN", 0))
	}
	app.exitAtBegin = int64(envInt("TMH_C05_IH", 1)) + int64(envInt(envBlocks, 3))

	// what a restarting node finds
	storeH, stateH, stateHash, resp, err := peekStores(cfg)
	if err != nil {
		childDie(dir, 5, "setup-error", err)
	}
	appH, appHash, _ := app.snapshot()
	traceAppend(dir, fmt.Sprintf("pre app=%d store=%d state=%d heq=%d resp=%s",
		appH, storeH, stateH, b01(bytes.Equal(appHash, stateHash)), resp))

	var logger log.Logger = log.NewNopLogger()
	if os.Getenv(envVerbose) != "" {
		logger = log.NewTMLogger(log.NewSyncWriter(os.Stderr))
	}

	// NewNode performs the ABCI handshake (Info, InitChain / block replay)
	var n *node.Node
	func() {
		defer func() {
			if r := recover(); r != nil {
				childDie(dir, 4, "hs-panic", r)
			}
		}()
		n, err = node.NewNode(cfg, pv, nodeKey, proxy.NewLocalClientCreator(app),
			node.DefaultGenesisDocProviderFunc(cfg), node.DefaultDBProvider,
			node.DefaultMetricsProvider(cfg.Instrumentation), logger)
	}()
	if err != nil {
		childDie(dir, 4, "hs-error", err)
	}

	st := n.ConsensusState().GetState()
	appH, appHash, _ = app.snapshot()
	traceAppend(dir, fmt.Sprintf("post app=%d store=%d state=%d heq=%d",
		appH, n.BlockStore().Height(), st.LastBlockHeight, b01(bytes.Equal(appHash, st.AppHash))))

	// Start: consensus WAL catch-up replay, then live consensus
	func() {
		defer func() {
			if r := recover(); r != nil {
				childDie(dir, 6, "start-panic", r)
			}
		}()
		err = n.Start()
	}()
	if err != nil {
		childDie(dir, 6, "start-error", err)
	}

	ids := parseIDs(os.Getenv(envTxs))
	off := 1000 * envInt(envRun, 0) // a later incarnation submits fresh ids with the same id%10
	go func() {
		mp := n.Mempool()
		for _, id := range ids {
			_ = mp.CheckTx(mkTx(id+off), nil, mempool.TxInfo{})
			time.Sleep(5 * time.Millisecond)
		}
		// create_empty_blocks = false: blocks are only proposed when transactions are waiting
		for k := 1; envInt("TMH_C05_NOEMPTY", 0) == 1; k++ {
			_ = mp.CheckTx(mkTx(100000+off*100+k*10+1), nil, mempool.TxInfo{})
			time.Sleep(15 * time.Millisecond)
		}
	}()

	select {} // the application exits the process at BeginBlock N+1
}

// ---------------------------------------------------------------------------------------------
// parent side

type nodeRun struct {
	ExitCode int
	FailHit  bool
	TimedOut bool
}

type nodeResult struct {
	Runs    []nodeRun
	Journal []string        // readJournal after the last run
	Trace   []string        // lines of trace.log
	Chain   map[int64][]int // tx ids per height read from the block store after the last run

	FinalApp, FinalStore, FinalState int64
	FinalHashEq                      bool

	Err string // harness-level problem ("" if none)
}

func tailStr(b []byte, n int) string {
	if len(b) > n {
		b = b[len(b)-n:]
	}
	return oneLine(strings.TrimSpace(string(b)))
}

// runChildOnce runs one incarnation of the node on dir. failIdx < 0: no FAIL_TEST_INDEX.
func runChildOnce(dir string, run, blocks, failIdx int, mpver string, txs []int, timeoutSec int, ih int, extraEnv []string) (nodeRun, string) {
	var r nodeRun
	var env []string
	for _, e := range os.Environ() {
		if strings.HasPrefix(e, "FAIL_TEST_INDEX=") || (strings.HasPrefix(e, "TMH_C05_") && !strings.HasPrefix(e, envVerbose+"=")) {
			continue
		}
		env = append(env, e)
	}
	ts := make([]string, len(txs))
	for i, t := range txs {
		ts[i] = strconv.Itoa(t)
	}
	env = append(env,
		envChild+"="+dir,
		envBlocks+"="+strconv.Itoa(blocks),
		"TMH_C05_IH="+strconv.Itoa(ih),
		envMpVer+"="+mpver,
		envTxs+"="+strings.Join(ts, ","),
		envTimeout+"="+strconv.Itoa(timeoutSec),
		envRun+"="+strconv.Itoa(run),
	)
	env = append(env, extraEnv...)
	if failIdx >= 0 {
		env = append(env, "FAIL_TEST_INDEX="+strconv.Itoa(failIdx))
	}

	ctx, cancel := context.WithTimeout(context.Background(), time.Duration(timeoutSec+5)*time.Second)
	defer cancel()
	self, err := os.Executable()
	if err != nil {
		self = os.Args[0]
	}
	cmd := exec.CommandContext(ctx, self)
	cmd.Env = env
	cmd.Dir = dir
	var stdout, stderr bytes.Buffer
	cmd.Stdout = &stdout
	cmd.Stderr = &stderr
	cmd.WaitDelay = 2 * time.Second

	err = cmd.Run()
	r.FailHit = bytes.Contains(stdout.Bytes(), []byte("*** fail-test"))
	if ctx.Err() != nil {
		r.TimedOut = true
	}
	switch {
	case err == nil:
		r.ExitCode = 0
	default:
		var ee *exec.ExitError
		if errors.As(err, &ee) {
			r.ExitCode = ee.ExitCode() // -1 if killed by a signal
		} else {
			r.ExitCode = -2
			return r, fmt.Sprintf("run %d: cannot run child: %v", run, err)
		}
	}
	if r.ExitCode == 3 {
		r.TimedOut = true
	}
	ok := (r.ExitCode == 0 && !r.TimedOut) || (r.ExitCode == 1 && r.FailHit)
	if !ok {
		return r, fmt.Sprintf("run %d (fail index %d): unexpected exit code %d (timedOut=%v failHit=%v); stderr tail: %s",
			run, failIdx, r.ExitCode, r.TimedOut, r.FailHit, tailStr(stderr.Bytes(), 500))
	}
	return r, ""
}

// readFinal opens the goleveldb databases the child left behind.
func readFinal(dir string, res *nodeResult) (err error) {
	defer func() {
		if r := recover(); r != nil {
			err = fmt.Errorf("reading final stores panicked: %v", r)
		}
	}()
	dataDir := filepath.Join(dir, "data")
	if _, serr := os.Stat(filepath.Join(dataDir, "blockstore.db")); serr != nil {
		return fmt.Errorf("no block store: %v", serr)
	}
	bdb, err := dbm.NewDB("blockstore", dbm.GoLevelDBBackend, dataDir)
	if err != nil {
		return err
	}
	defer bdb.Close()
	bs := store.NewBlockStore(bdb)
	res.FinalStore = bs.Height()
	for h := bs.Base(); h >= 1 && h <= res.FinalStore; h++ {
		b := bs.LoadBlock(h)
		if b == nil {
			return fmt.Errorf("block store height %d but block %d missing", res.FinalStore, h)
		}
		ids := make([]int, 0, len(b.Txs))
		for _, tx := range b.Txs {
			ids = append(ids, txID(tx))
		}
		res.Chain[h] = ids
	}
	sdb, err := dbm.NewDB("state", dbm.GoLevelDBBackend, dataDir)
	if err != nil {
		return err
	}
	defer sdb.Close()
	st, err := sm.NewStore(sdb, sm.StoreOptions{DiscardABCIResponses: true}).Load()
	if err != nil {
		return err
	}
	res.FinalState = st.LastBlockHeight

	a := &recApp{}
	for _, tok := range res.Journal {
		a.applyToken(tok)
	}
	res.FinalApp = a.height
	res.FinalHashEq = bytes.Equal(a.hash, st.AppHash)
	return nil
}

// runNodeCase runs the child up to len(fails)+1 times in a fresh os.MkdirTemp dir (removed before
// returning): run i (i < len(fails)) has FAIL_TEST_INDEX=fails[i] (fails[i] < 0: no env, i.e. a
// clean run); the last run has no FAIL_TEST_INDEX. A run that exits with code 0 (clean stop at
// BeginBlock N+1) ends the sequence early.
func runNodeCase(blocks int, fails []int, mpver string, txs []int, timeoutSec int, ih int, extraEnv []string) (res nodeResult) {
	res.Chain = map[int64][]int{}
	if timeoutSec <= 0 {
		timeoutSec = 60
	}
	dir, err := os.MkdirTemp("", "c05node")
	if err != nil {
		res.Err = "mkdtemp: " + err.Error()
		return res
	}
	defer os.RemoveAll(dir)
	defer func() {
		if r := recover(); r != nil {
			res.Err = fmt.Sprintf("harness panic: %v", r)
		}
	}()

	for i := 0; i <= len(fails); i++ {
		f := -1
		if i < len(fails) {
			f = fails[i]
		}
		r, problem := runChildOnce(dir, i, blocks, f, mpver, txs, timeoutSec, ih, extraEnv)
		res.Runs = append(res.Runs, r)
		if problem != "" {
			res.Err = problem
			break
		}
		if r.ExitCode == 0 {
			break
		}
	}

	res.Journal = readJournal(filepath.Join(dir, "journal"))
	res.Trace = readJournal(filepath.Join(dir, "trace.log"))
	if err := readFinal(dir, &res); err != nil && res.Err == "" {
		res.Err = "final read: " + err.Error()
	}
	return res
}
