package main

import (
	"bufio"
	"crypto/sha256"
	"fmt"
	"os"
	"strconv"
	"strings"
	"sync"

	abci "github.com/tendermint/tendermint/abci/types"
	cryptoenc "github.com/tendermint/tendermint/crypto/encoding"
	"github.com/tendermint/tendermint/crypto"
)

// recApp is the recording application: it accepts every call on the consensus connection,
// records it in a journal (in child-process mode appended to a file and fsynced per call) and
// keeps (height, hash) of what it has committed. Its uncommitted execution is volatile.
//
// Journal tokens: S<h> (restored from its own snapshot at height h; in-process streams only), I (InitChain), B<h> (BeginBlock header height), T<id> (DeliverTx), E<h>
// (EndBlock), C (Commit), R (process restart marker).
//
// Transactions are ASCII "t<id>". id%10==7: the application answers EndBlock with a voting-power
// change of the validator it was configured with; id%10==8: with a consensus-parameter change.
type recApp struct {
	abci.BaseApplication
	mu      sync.Mutex
	height  int64
	hash    []byte
	hashLog [][]byte // own hash after each commit (what an older snapshot would hold)
	hgtLog  []int64  // height reported after each commit
	retainK int64    // >= 0: Commit answers RetainHeight = height + 1 - retainK (the node prunes below it); -1: none
	hasRet  bool
	emptyHash bool // the application reports a zero-length app hash at every height (legal: the hash is opaque)
	ih      int64    // InitialHeight (the first block's height); 0/1 = 1
	pend    *pendExec
	journal []string
	file    *os.File // child mode: journal file
	valKey  crypto.PubKey

	// hooks
	tick        func()      // called at the start of every consensus-connection call (crash injection)
	exitAtBegin int64       // child mode: os.Exit(0) when BeginBlock of this height arrives
	onCheckTx   func([]byte) // mempool stream
}

type pendExec struct {
	h     int64
	txs   []int
	ended bool
}

func txID(tx []byte) int {
	s := string(tx)
	if len(s) < 2 || s[0] != 't' {
		return -1
	}
	n, err := strconv.Atoi(s[1:])
	if err != nil {
		return -1
	}
	return n
}

func mkTx(id int) []byte { return []byte("t" + strconv.Itoa(id)) }

func nextHash(prev []byte, h int64, txs []int) []byte {
	hh := sha256.New()
	hh.Write(prev)
	fmt.Fprintf(hh, "|h=%d|", h)
	for _, t := range txs {
		fmt.Fprintf(hh, "%d,", t)
	}
	return hh.Sum(nil)
}

// applyToken replays one journal token on the committed state (used both live and on re-open).
func (a *recApp) applyToken(tok string) {
	switch {
	case tok == "I":
		a.pend = nil
	case tok == "R":
		a.pend = nil
	case tok[0] == 'B':
		h, _ := strconv.ParseInt(tok[1:], 10, 64)
		a.pend = &pendExec{h: h}
	case tok[0] == 'T':
		id, _ := strconv.Atoi(tok[1:])
		if a.pend != nil {
			a.pend.txs = append(a.pend.txs, id)
		}
	case tok[0] == 'E':
		if a.pend != nil {
			a.pend.ended = true
		}
	case tok == "C":
		// the application reports the header height of the block it committed
		if a.pend != nil {
			a.hash = nextHash(a.hash, a.pend.h, a.pend.txs)
			a.height = a.pend.h
		} else {
			a.hash = nextHash(a.hash, 0, nil)
			a.height++
		}
		a.hashLog = append(a.hashLog, a.hash)
		a.hgtLog = append(a.hgtLog, a.height)
		a.pend = nil
	}
}

func (a *recApp) record(tok string) {
	a.journal = append(a.journal, tok)
	if a.file != nil {
		if _, err := a.file.WriteString(tok + "\n"); err != nil {
			panic(err)
		}
		if err := a.file.Sync(); err != nil {
			panic(err)
		}
	}
	a.applyToken(tok)
}

// openRecApp re-opens the journal file: committed state is rebuilt from it, then a restart
// marker is appended (a torn last line, which a kill inside WriteString could leave, is dropped).
func openRecApp(path string) (*recApp, error) {
	a := &recApp{}
	if b, err := os.ReadFile(path); err == nil {
		s := string(b)
		if len(s) > 0 && !strings.HasSuffix(s, "\n") {
			s = s[:strings.LastIndexByte(s, '\n')+1]
			if err := os.WriteFile(path, []byte(s), 0o644); err != nil {
				return nil, err
			}
		}
		sc := bufio.NewScanner(strings.NewReader(s))
		for sc.Scan() {
			if t := sc.Text(); t != "" {
				a.journal = append(a.journal, t)
				a.applyToken(t)
			}
		}
	}
	f, err := os.OpenFile(path, os.O_APPEND|os.O_CREATE|os.O_WRONLY, 0o644)
	if err != nil {
		return nil, err
	}
	a.file = f
	if len(a.journal) > 0 {
		a.record("R")
	}
	return a, nil
}

func readJournal(path string) []string {
	b, err := os.ReadFile(path)
	if err != nil {
		return nil
	}
	var out []string
	for _, l := range strings.Split(string(b), "\n") {
		if l != "" {
			out = append(out, l)
		}
	}
	return out
}

// in-process crash: volatile state gone, restart marker
func (a *recApp) Crash() {
	a.mu.Lock()
	defer a.mu.Unlock()
	a.record("R")
}

// hostile: the application comes back from a snapshot j commits older
func (a *recApp) Rollback(j int) {
	a.mu.Lock()
	defer a.mu.Unlock()
	nh := len(a.hashLog) - j
	if nh < 0 {
		nh = 0
	}
	a.hashLog = a.hashLog[:nh]
	a.hgtLog = a.hgtLog[:nh]
	a.hash = nil
	a.height = 0
	if nh > 0 {
		a.hash = a.hashLog[nh-1]
		a.height = a.hgtLog[nh-1]
	}
	a.journal = append(a.journal, "S"+strconv.FormatInt(a.height, 10))
	a.pend = nil
}

func (a *recApp) Info(req abci.RequestInfo) abci.ResponseInfo {
	a.mu.Lock()
	defer a.mu.Unlock()
	if a.emptyHash {
		return abci.ResponseInfo{LastBlockHeight: a.height}
	}
	return abci.ResponseInfo{LastBlockHeight: a.height, LastBlockAppHash: a.hash}
}

func (a *recApp) InitChain(req abci.RequestInitChain) abci.ResponseInitChain {
	if a.tick != nil {
		a.tick()
	}
	a.mu.Lock()
	defer a.mu.Unlock()
	a.record("I")
	return abci.ResponseInitChain{}
}

func (a *recApp) BeginBlock(req abci.RequestBeginBlock) abci.ResponseBeginBlock {
	if a.tick != nil {
		a.tick()
	}
	a.mu.Lock()
	defer a.mu.Unlock()
	if a.exitAtBegin > 0 && req.Header.Height >= a.exitAtBegin {
		os.Exit(0)
	}
	a.record("B" + strconv.FormatInt(req.Header.Height, 10))
	return abci.ResponseBeginBlock{}
}

func (a *recApp) DeliverTx(req abci.RequestDeliverTx) abci.ResponseDeliverTx {
	if a.tick != nil {
		a.tick()
	}
	a.mu.Lock()
	defer a.mu.Unlock()
	id := txID(req.Tx)
	a.record("T" + strconv.Itoa(id))
	code := uint32(0)
	if id >= 0 && id%10 == 9 {
		code = 1 // a tx that fails in the block (still part of it)
	}
	return abci.ResponseDeliverTx{Code: code, Data: []byte(strconv.Itoa(id))}
}

func (a *recApp) EndBlock(req abci.RequestEndBlock) abci.ResponseEndBlock {
	if a.tick != nil {
		a.tick()
	}
	a.mu.Lock()
	defer a.mu.Unlock()
	var res abci.ResponseEndBlock
	if a.pend != nil {
		for _, id := range a.pend.txs {
			if id%10 == 7 && a.valKey != nil {
				pk, err := cryptoenc.PubKeyToProto(a.valKey)
				if err == nil {
					res.ValidatorUpdates = []abci.ValidatorUpdate{{PubKey: pk, Power: 10 + req.Height}}
				}
			}
			if id%10 == 8 {
				res.ConsensusParamUpdates = &abci.ConsensusParams{
					Block: &abci.BlockParams{MaxBytes: 2000000 + req.Height, MaxGas: -1}}
			}
		}
	}
	a.record("E" + strconv.FormatInt(req.Height, 10))
	return res
}

func (a *recApp) Commit() abci.ResponseCommit {
	if a.tick != nil {
		a.tick()
	}
	a.mu.Lock()
	defer a.mu.Unlock()
	a.record("C")
	res := abci.ResponseCommit{Data: a.hash}
	if a.emptyHash {
		res.Data = nil
	}
	if a.hasRet && a.height+1-a.retainK >= 1 {
		res.RetainHeight = a.height + 1 - a.retainK
	}
	return res
}

func (a *recApp) CheckTx(req abci.RequestCheckTx) abci.ResponseCheckTx {
	if a.onCheckTx != nil {
		a.onCheckTx(req.Tx)
	}
	code := uint32(0)
	if s := string(req.Tx); len(s) > 1 && s[0] == 'c' {
		if n, err := strconv.Atoi(s[1:]); err == nil && n%10 == 9 {
			code = 1 // rejected: the pool does not grow
		}
	}
	return abci.ResponseCheckTx{Code: code, GasWanted: 1}
}

func (a *recApp) snapshot() (int64, []byte, []string) {
	a.mu.Lock()
	defer a.mu.Unlock()
	return a.height, append([]byte{}, a.hash...), append([]string{}, a.journal...)
}

// ---------------------------------------------------------------------------------------------
// the property's journal grammar, evaluated on a real journal against the real chain
// (independent Go implementation; the Lean `jrun` is the model-side twin)

// journalCheck returns "" if well formed, else a description and the index of the failing call.
// chain(h) = tx ids of block h.
func journalCheck(j []string, chain func(h int64) ([]int, bool)) (committed int64, bad string) {
	return journalCheckIH(j, chain, 1)
}

// journalCheckIH: the first block has height ih
func journalCheckIH(j []string, chain func(h int64) ([]int, bool), ih int64) (committed int64, bad string) {
	var open *pendExec
	for i, tok := range j {
		fail := func(why string) (int64, string) {
			lo := i - 6
			if lo < 0 {
				lo = 0
			}
			return committed, fmt.Sprintf("%s at call %d (%s) after …%s", why, i, tok, strings.Join(j[lo:i], ","))
		}
		switch {
		case tok == "I":
			if committed != 0 {
				return fail("InitChain after a block was committed")
			}
			if open != nil {
				return fail("InitChain inside an open block execution")
			}
		case tok == "R":
			open = nil
		case tok[0] == 'S': // restored from an older snapshot of itself at this height
			committed, _ = strconv.ParseInt(tok[1:], 10, 64)
			open = nil
		case tok[0] == 'B':
			h, _ := strconv.ParseInt(tok[1:], 10, 64)
			if open != nil {
				return fail("BeginBlock inside an open block execution")
			}
			if h <= committed {
				return fail(fmt.Sprintf("block %d executed again after it was committed", h))
			}
			if (committed == 0 && h != ih) || (committed != 0 && h != committed+1) {
				return fail(fmt.Sprintf("height skipped: BeginBlock %d after commit of %d", h, committed))
			}
			open = &pendExec{h: h}
		case tok[0] == 'T':
			id, _ := strconv.Atoi(tok[1:])
			if open == nil || open.ended {
				return fail("DeliverTx outside Begin..End")
			}
			txs, ok := chain(open.h)
			if !ok { // block not available any more (pruned): its transactions cannot be compared
				open.txs = append(open.txs, id)
				break
			}
			if len(open.txs) >= len(txs) || txs[len(open.txs)] != id {
				return fail("DeliverTx not the block's next transaction")
			}
			open.txs = append(open.txs, id)
		case tok[0] == 'E':
			h, _ := strconv.ParseInt(tok[1:], 10, 64)
			if open == nil || open.ended || open.h != h {
				return fail("EndBlock without matching BeginBlock")
			}
			txs, known := chain(open.h)
			if known && len(open.txs) != len(txs) {
				return fail("EndBlock before all transactions of the block")
			}
			open.ended = true
		case tok == "C":
			if open == nil || !open.ended {
				return fail("Commit without a finished block execution")
			}
			committed = open.h
			open = nil
		default:
			return fail("unknown journal token")
		}
	}
	return committed, ""
}
