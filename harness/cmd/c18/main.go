// C18 correspondence stream: the real store.BlockStore and state.Store over journaling memdbs,
// driven the way consensus finalizeCommit drives them (SaveBlock, ApplyBlock, pruning glue), vs
// the Lean model of the same write sequences. Every Set/Delete/batch-Write is recorded as one
// crash unit, so the databases can be rebuilt at every write prefix, reopened and audited.
package main

import (
	"bytes"
	"fmt"
	"math/rand"
	"strconv"
	"strings"
	"sync"
	"time"

	dbm "github.com/tendermint/tm-db"

	abcicli "github.com/tendermint/tendermint/abci/client"
	abci "github.com/tendermint/tendermint/abci/types"
	"github.com/tendermint/tendermint/consensus"
	"github.com/tendermint/tendermint/crypto"
	"github.com/tendermint/tendermint/crypto/ed25519"
	cryptoenc "github.com/tendermint/tendermint/crypto/encoding"
	"github.com/tendermint/tendermint/libs/log"
	mempl "github.com/tendermint/tendermint/mempool/mock"
	tmproto "github.com/tendermint/tendermint/proto/tendermint/types"
	"github.com/tendermint/tendermint/proxy"
	sm "github.com/tendermint/tendermint/state"
	"github.com/tendermint/tendermint/store"
	"github.com/tendermint/tendermint/types"

	"verifharness/core"
)

// ---------------------------------------------------------------- journaling DB

type kvop struct {
	del bool
	k   []byte
	v   []byte
}

type unit struct {
	db  int // 0 = block store, 1 = state store
	ops []kvop
}

type journal struct {
	mtx   sync.Mutex
	units []unit
}

// jdb wraps a MemDB; every write that reaches the inner DB is appended to the shared journal as
// one crash unit (a batch Write/WriteSync is one unit).
type jdb struct {
	*dbm.MemDB
	id int
	j  *journal
}

func (d *jdb) rec(ops []kvop) {
	d.j.mtx.Lock()
	d.j.units = append(d.j.units, unit{d.id, ops})
	d.j.mtx.Unlock()
}
func cp(b []byte) []byte { return append([]byte{}, b...) }
func (d *jdb) Set(k, v []byte) error {
	d.rec([]kvop{{false, cp(k), cp(v)}})
	return d.MemDB.Set(k, v)
}
func (d *jdb) SetSync(k, v []byte) error { return d.Set(k, v) }
func (d *jdb) Delete(k []byte) error {
	d.rec([]kvop{{true, cp(k), nil}})
	return d.MemDB.Delete(k)
}
func (d *jdb) DeleteSync(k []byte) error { return d.Delete(k) }
func (d *jdb) NewBatch() dbm.Batch       { return &jbatch{d: d} }

type jbatch struct {
	d   *jdb
	ops []kvop
}

func (b *jbatch) Set(k, v []byte) error { b.ops = append(b.ops, kvop{false, cp(k), cp(v)}); return nil }
func (b *jbatch) Delete(k []byte) error { b.ops = append(b.ops, kvop{true, cp(k), nil}); return nil }
func (b *jbatch) Write() error {
	b.d.rec(b.ops)
	applyOps(b.d.MemDB, b.ops)
	b.ops = nil
	return nil
}
func (b *jbatch) WriteSync() error { return b.Write() }
func (b *jbatch) Close() error     { return nil }

func applyOps(db *dbm.MemDB, ops []kvop) {
	for _, o := range ops {
		if o.del {
			db.Delete(o.k)
		} else {
			db.Set(o.k, o.v)
		}
	}
}

func cloneMem(src *dbm.MemDB) *dbm.MemDB {
	dst := dbm.NewMemDB()
	it, err := src.Iterator(nil, nil)
	if err != nil {
		panic(err)
	}
	defer it.Close()
	for ; it.Valid(); it.Next() {
		dst.Set(cp(it.Key()), cp(it.Value()))
	}
	return dst
}

// ---------------------------------------------------------------- scripted application

const chainID = "c18-chain"

var genesisTime = time.Unix(1600000000, 0).UTC()

type script struct {
	id, vu, pu int
	retain     int64
}

func (s script) tx() types.Tx {
	return types.Tx(fmt.Sprintf("id=%d;vu=%d;pu=%d;retain=%d", s.id, s.vu, s.pu, s.retain))
}

func parseScript(tx []byte) script {
	var s script
	for _, f := range strings.Split(string(tx), ";") {
		kv := strings.SplitN(f, "=", 2)
		if len(kv) != 2 {
			continue
		}
		n, _ := strconv.ParseInt(kv[1], 10, 64)
		switch kv[0] {
		case "id":
			s.id = int(n)
		case "vu":
			s.vu = int(n)
		case "pu":
			s.pu = int(n)
		case "retain":
			s.retain = n
		}
	}
	return s
}

// app answers EndBlock / Commit from the script carried in the block's single tx.
type app struct {
	abci.BaseApplication
	pubs []crypto.PubKey
	h    int64
	cur  script
}

func (a *app) BeginBlock(req abci.RequestBeginBlock) abci.ResponseBeginBlock {
	a.h = req.Header.Height
	a.cur = script{}
	return abci.ResponseBeginBlock{}
}
func (a *app) DeliverTx(req abci.RequestDeliverTx) abci.ResponseDeliverTx {
	a.cur = parseScript(req.Tx)
	return abci.ResponseDeliverTx{Code: 0}
}
func (a *app) EndBlock(req abci.RequestEndBlock) abci.ResponseEndBlock {
	var res abci.ResponseEndBlock
	if a.cur.vu == 1 {
		pk, err := cryptoenc.PubKeyToProto(a.pubs[int(a.h)%len(a.pubs)])
		if err != nil {
			panic(err)
		}
		res.ValidatorUpdates = []abci.ValidatorUpdate{{PubKey: pk, Power: 10 + a.h%5}}
	}
	if a.cur.pu == 1 {
		if a.h%2 == 0 {
			res.ConsensusParamUpdates = &abci.ConsensusParams{
				Block: &abci.BlockParams{MaxBytes: 1048576 + a.h, MaxGas: -1},
			}
		} else {
			// an update that leaves the Block params (all that HashConsensusParams covers) alone
			res.ConsensusParamUpdates = &abci.ConsensusParams{
				Evidence:  &tmproto.EvidenceParams{MaxAgeNumBlocks: 100000 + a.h, MaxAgeDuration: 48 * time.Hour, MaxBytes: 1000 + a.h%50},
				Validator: &tmproto.ValidatorParams{PubKeyTypes: append([]string{types.ABCIPubKeyTypeEd25519}, []string{types.ABCIPubKeyTypeSecp256k1}[:a.h%3%2]...)},
				Version:   &tmproto.VersionParams{AppVersion: uint64(a.h)},
			}
		}
	}
	return res
}
func (a *app) Commit() abci.ResponseCommit {
	return abci.ResponseCommit{Data: []byte{1}, RetainHeight: a.cur.retain}
}

// ---------------------------------------------------------------- node

type node struct {
	j     *journal
	bmem  *dbm.MemDB
	smem  *dbm.MemDB
	bs    *store.BlockStore
	ss    sm.Store
	be    *sm.BlockExecutor
	state sm.State
	gen   sm.State
	privs map[string]types.PrivValidator
	pubs  []crypto.PubKey
	used  map[int]bool
	// params in force per height as the chain's applied blocks determined them (harness-side ground
	// truth, not read from the stores)
	inforce *sync.Map
}

func (n *node) open(bmem, smem *dbm.MemDB) {
	n.bmem, n.smem = bmem, smem
	n.bs = store.NewBlockStore(&jdb{bmem, 0, n.j})
	n.ss = sm.NewStore(&jdb{smem, 1, n.j}, sm.StoreOptions{})
	cli := abcicli.NewLocalClient(nil, &app{pubs: n.pubs})
	n.be = sm.NewBlockExecutor(n.ss, log.NewNopLogger(), proxy.NewAppConnConsensus(cli), mempl.Mempool{}, sm.EmptyEvidencePool{})
	st, err := n.ss.Load()
	if err != nil {
		panic(err)
	}
	if st.IsEmpty() {
		st = n.gen.Copy()
	}
	n.state = st
}

func newNode(ih int64, nv int) *node {
	n := &node{j: &journal{}, privs: map[string]types.PrivValidator{}, used: map[int]bool{}, inforce: &sync.Map{}}
	var gvs []types.GenesisValidator
	for i := 0; i < nv; i++ {
		pk := ed25519.GenPrivKeyFromSecret([]byte(fmt.Sprintf("c18-val-%d", i)))
		pv := types.NewMockPVWithParams(pk, false, false)
		n.privs[string(pk.PubKey().Address())] = pv
		n.pubs = append(n.pubs, pk.PubKey())
		gvs = append(gvs, types.GenesisValidator{Address: pk.PubKey().Address(), PubKey: pk.PubKey(), Power: 10, Name: fmt.Sprint(i)})
	}
	gd := &types.GenesisDoc{ChainID: chainID, GenesisTime: genesisTime, InitialHeight: ih,
		ConsensusParams: types.DefaultConsensusParams(), Validators: gvs}
	st, err := sm.MakeGenesisState(gd)
	if err != nil {
		panic(err)
	}
	n.gen = st
	n.open(dbm.NewMemDB(), dbm.NewMemDB())
	// the handshake saves the genesis state
	if err := n.ss.Save(n.state); err != nil {
		panic(err)
	}
	n.inforce.Store(ih, n.state.ConsensusParams)
	return n
}

func (n *node) makeCommit(vals *types.ValidatorSet, bid types.BlockID, h int64) *types.Commit {
	ts := genesisTime.Add(time.Duration(h-n.gen.InitialHeight+1) * time.Second)
	sigs := make([]types.CommitSig, vals.Size())
	for i, v := range vals.Validators {
		vote := &types.Vote{Type: tmproto.PrecommitType, Height: h, Round: 0, BlockID: bid, Timestamp: ts,
			ValidatorAddress: v.Address, ValidatorIndex: int32(i)}
		pb := vote.ToProto()
		if err := n.privs[string(v.Address)].SignVote(chainID, pb); err != nil {
			panic(err)
		}
		sigs[i] = types.NewCommitSigForBlock(pb.Signature, v.Address, ts)
	}
	return types.NewCommit(h, 0, bid, sigs)
}

func bogusID() types.BlockID {
	return types.BlockID{Hash: bytes.Repeat([]byte{0xEE}, 32), PartSetHeader: types.PartSetHeader{Total: 1, Hash: bytes.Repeat([]byte{0xDD}, 32)}}
}

type stepIn struct {
	id, parts              int
	vu, pu                 int
	retain                 int64
	badlc, badsc, incompl bool
}

type stepOut struct {
	h                                int64
	saved, applied, blocks, states string
}

func nextHeight(st sm.State) int64 {
	h := st.LastBlockHeight + 1
	if h == 1 {
		h = st.InitialHeight
	}
	return h
}

func classify(err error, table [][2]string, dflt string) string {
	s := err.Error()
	for _, t := range table {
		if strings.Contains(s, t[0]) {
			return t[1]
		}
	}
	return dflt
}

var bsErrs = [][2]string{{"height must be greater than 0", "nonPositive"}, {"cannot prune beyond", "beyondHeight"}, {"lower than base height", "belowBase"}}
var ssErrs = [][2]string{{"must be greater than 0", "nonPositive"}, {"must be lower than to height", "fromNotBelowTo"},
	{"validators at height", "noValsAtTo"}, {"consensus params at height", "noParamsAtTo"},
	{"could not find validator set", "keptVals"}, {"couldn't find validators", "keptVals"}}

// pruneGlue = consensus State.pruneBlocks on our stores
func (n *node) pruneGlue(retain int64) (blocks, states string) {
	if retain <= n.bs.Base() {
		// the glue returns (0, nil) without touching anything
		consensus.VerifPruneBlocks(n.bs, n.be, retain)
		return "noop", "skip"
	}
	pruned, err := consensus.VerifPruneBlocks(n.bs, n.be, retain)
	if err != nil {
		if strings.Contains(err.Error(), "failed to prune block store") {
			return "err:" + classify(err, bsErrs, "other"), "skip"
		}
		return "?", "err:" + classify(err, ssErrs, "keptParams")
	}
	return fmt.Sprint(pruned), "ok"
}

// step = one height of finalizeCommit
func (n *node) step(in stepIn) (o stepOut) {
	H := nextHeight(n.state)
	o = stepOut{h: H, applied: "skip", blocks: "none", states: "skip"}
	var block *types.Block
	var bid types.BlockID
	if n.bs.Height() < H {
		var lc *types.Commit
		if in.badlc {
			lc = n.makeCommit(n.state.LastValidators, bogusID(), H-1)
			if n.state.LastValidators == nil || n.state.LastValidators.Size() == 0 {
				lc = n.makeCommit(n.state.Validators, bogusID(), H-1)
			}
		} else if lc = n.bs.LoadSeenCommit(H - 1); lc == nil {
			lc = types.NewCommit(0, 0, types.BlockID{}, nil)
		}
		sc := script{in.id, in.vu, in.pu, in.retain}
		b, _ := n.state.MakeBlock(H, []types.Tx{sc.tx()}, lc, nil, n.state.Validators.GetProposer().Address)
		pb, err := b.ToProto()
		if err != nil {
			panic(err)
		}
		sz := pb.Size()
		psize := (sz + in.parts - 1) / in.parts
		ps := b.MakePartSet(uint32(psize))
		if int(ps.Total()) != in.parts {
			panic(fmt.Sprintf("harness: wanted %d parts, got %d (size %d)", in.parts, ps.Total(), sz))
		}
		bid = types.BlockID{Hash: b.Hash(), PartSetHeader: ps.Header()}
		seenID := bid
		if in.badsc {
			seenID = bogusID()
		}
		seen := n.makeCommit(n.state.Validators, seenID, H)
		if in.incompl {
			ps = types.NewPartSetFromHeader(ps.Header())
		}
		// finalizeCommit: "+2/3 committed an invalid block" panics before anything is saved
		if err := n.be.ValidateBlock(n.state, b); err != nil {
			o.saved = "panic:invalid"
			return o
		}
		func() {
			defer func() {
				if r := recover(); r != nil {
					o.saved = "panic:" + classify(fmt.Errorf("%v", r), [][2]string{{"contiguous", "notContiguous"}, {"complete block part", "incomplete"}}, "other")
				}
			}()
			n.bs.SaveBlock(b, ps, seen)
			o.saved = "1"
		}()
		if o.saved != "1" {
			return o
		}
		block = b
	} else {
		block = n.bs.LoadBlock(H)
		meta := n.bs.LoadBlockMeta(H)
		if block == nil || meta == nil {
			o.saved = "panic:noStoredBlock"
			return o
		}
		bid = meta.BlockID
		o.saved = "0"
	}
	var st sm.State
	var retain int64
	var err error
	func() {
		defer func() {
			if r := recover(); r != nil {
				o.applied = "panic:" + classify(fmt.Errorf("%v", r), [][2]string{{"could not find validator set", "noLastVals"}}, "other")
			}
		}()
		st, retain, err = n.be.ApplyBlock(n.state, bid, block)
	}()
	if strings.HasPrefix(o.applied, "panic") {
		return o
	}
	if err != nil {
		if _, ok := err.(sm.ErrInvalidBlock); ok {
			o.applied = "err:validate"
		} else {
			o.applied = "err:save"
		}
		return o
	}
	n.state = st
	n.inforce.Store(st.LastBlockHeight+1, st.ConsensusParams)
	o.applied = "ok"
	if retain > 0 {
		o.blocks, o.states = n.pruneGlue(retain)
	}
	return o
}

// ---------------------------------------------------------------- audit (the property itself)

// audit opens fresh stores over the two databases and checks everything the property demands
// of every height in [base,height]; returns "ok" or "<height>:<fault>".
func audit(bmem, smem *dbm.MemDB, inforce *sync.Map) (verdict string) {
	var h int64
	defer func() {
		if r := recover(); r != nil {
			verdict = fmt.Sprintf("%d:panic", h)
		}
	}()
	bs := store.NewBlockStore(bmem)
	ss := sm.NewStore(smem, sm.StoreOptions{})
	B, H := bs.Base(), bs.Height()
	if B == 0 && H == 0 {
		return "ok"
	}
	if B <= 0 || B > H {
		return fmt.Sprintf("%d:range", B)
	}
	for h = B; h <= H; h++ {
		f := func(s string) string { return fmt.Sprintf("%d:%s", h, s) }
		meta := bs.LoadBlockMeta(h)
		if meta == nil {
			return f("noMeta")
		}
		if meta.Header.Height != h {
			return f("metaHeight")
		}
		var block *types.Block
		func() {
			defer func() {
				if recover() != nil {
					block = nil
				}
			}()
			block = bs.LoadBlock(h)
		}()
		if block == nil {
			return f("noBlock")
		}
		if !bytes.Equal(block.Hash(), meta.BlockID.Hash) || !bytes.Equal(block.Hash(), meta.Header.Hash()) {
			return f("blockHash")
		}
		if block.Height != h {
			return f("blockHeight")
		}
		// the parts are the ones the meta's part-set header commits to
		ps := types.NewPartSetFromHeader(meta.BlockID.PartSetHeader)
		for i := 0; i < int(meta.BlockID.PartSetHeader.Total); i++ {
			p := bs.LoadBlockPart(h, i)
			if p == nil {
				return f("noBlock")
			}
			if ok, err := ps.AddPart(p); !ok || err != nil {
				return f("blockTotal")
			}
		}
		if !ps.IsComplete() {
			return f("blockTotal")
		}
		if bh := bs.LoadBlockByHash(meta.BlockID.Hash); bh == nil || bh.Height != h || !bytes.Equal(bh.Hash(), meta.BlockID.Hash) {
			return f("hashIdx")
		}
		var commit *types.Commit
		no, mis := "noCommit", "commitMismatch"
		if h < H {
			commit = bs.LoadBlockCommit(h)
		} else {
			commit = bs.LoadSeenCommit(h)
			no, mis = "noSeen", "seenMismatch"
		}
		if commit == nil {
			return f(no)
		}
		if commit.Height != h || !commit.BlockID.Equals(meta.BlockID) {
			return f(mis)
		}
		vals, err := ss.LoadValidators(h)
		if err != nil {
			return f("noVals")
		}
		if !bytes.Equal(vals.Hash(), meta.Header.ValidatorsHash) {
			return f("valsMismatch")
		}
		// "the commit verifies for it": full signature check with the state store's validators
		if err := vals.VerifyCommit(chainID, meta.BlockID, h, commit); err != nil {
			return f(mis)
		}
		params, err := ss.LoadConsensusParams(h)
		if err != nil || params.Equal(&tmproto.ConsensusParams{}) {
			return f("noParams")
		}
		if !bytes.Equal(types.HashConsensusParams(params), meta.Header.ConsensusHash) {
			return f("paramsMismatch")
		}
		if want, ok := inforce.Load(h); ok {
			if w := want.(tmproto.ConsensusParams); !params.Equal(&w) {
				return f("params-differ-from-in-force")
			}
		}
	}
	return "ok"
}

// ---------------------------------------------------------------- exec

var (
	statMtx sync.Mutex
	stats   = map[string]int{}
)

func stat(k string, n int) {
	statMtx.Lock()
	stats[k] += n
	statMtx.Unlock()
}

func kv(op string) (string, map[string]string) {
	fs := strings.Fields(op)
	m := map[string]string{}
	if len(fs) == 0 {
		return "", m
	}
	for _, t := range fs[1:] {
		if i := strings.IndexByte(t, '='); i >= 0 && strings.Count(t, "=") == 1 {
			// exactly one '=', first occurrence of a key wins (as Tmv.kv does)
			if _, dup := m[t[:i]]; !dup {
				m[t[:i]] = t[i+1:]
			}
		}
	}
	return fs[0], m
}

// leanNat parses the language of Lean's String.toNat? (digits, single '_' between digits),
// magnitude at most 10^15 (the driver applies the same bound).
func leanNat(s string) (int64, bool) {
	if s == "" {
		return 0, false
	}
	var v int64
	prevDigit := false
	for i := 0; i < len(s); i++ {
		c := s[i]
		switch {
		case c >= '0' && c <= '9':
			if v <= 1000000000000000 {
				v = v*10 + int64(c-'0')
			}
			prevDigit = true
		case c == '_' && prevDigit && i+1 < len(s) && s[i+1] >= '0' && s[i+1] <= '9':
			prevDigit = false
		default:
			return 0, false
		}
	}
	if v > 1000000000000000 {
		return 0, false
	}
	return v, true
}

func leanInt(s string) (int64, bool) {
	if strings.HasPrefix(s, "-") {
		v, ok := leanNat(s[1:])
		return -v, ok
	}
	return leanNat(s)
}

func natOr(m map[string]string, k string, d int) (int, bool) {
	v, ok := m[k]
	if !ok {
		return d, true
	}
	n, ok := leanNat(v)
	if !ok || n > 2000000000 {
		return 2000000000, ok
	}
	return int(n), true
}

func intOr(m map[string]string, k string, d int64) (int64, bool) {
	v, ok := m[k]
	if !ok {
		return d, true
	}
	return leanInt(v)
}

func intReq(m map[string]string, k string) (int64, bool) {
	if _, ok := m[k]; !ok {
		return 0, false
	}
	return intOr(m, k, 0)
}

func (n *node) summary() string {
	return fmt.Sprintf("base=%d height=%d sth=%d", n.bs.Base(), n.bs.Height(), n.state.LastBlockHeight)
}

type snap struct {
	b, s  *dbm.MemDB
	start int
}

func (n *node) snapshot(m map[string]string) *snap {
	_, a := m["audit"]
	_, c := m["crashat"]
	if !a && !c {
		return &snap{start: len(n.j.units)}
	}
	return &snap{cloneMem(n.bmem), cloneMem(n.smem), len(n.j.units)}
}

// finish: report the op, audit, enumerate crash prefixes, possibly crash
func (n *node) finish(sn *snap, m map[string]string, head string) string {
	a, ok1 := natOr(m, "audit", 0)
	c, ok2 := natOr(m, "crashat", 1000000000)
	if !ok1 || !ok2 {
		panic("finish: unchecked params")
	}
	units := n.j.units[sn.start:]
	crashVerdicts := ""
	if a >= 2 {
		b, s := cloneMem(sn.b), cloneMem(sn.s)
		var bad []string
		for k := 0; ; k++ {
			if v := audit(b, s, n.inforce); v != "ok" {
				bad = append(bad, fmt.Sprintf("%d=%s", k, v))
			}
			if k == len(units) {
				break
			}
			if units[k].db == 0 {
				applyOps(b, units[k].ops)
			} else {
				applyOps(s, units[k].ops)
			}
		}
		crashVerdicts = fmt.Sprintf(" crash=%d:", len(units)+1)
		if len(bad) == 0 {
			crashVerdicts += "-"
		} else {
			crashVerdicts += strings.Join(bad, ";")
		}
	}
	crashed := 0
	nunits := len(units)
	if c < len(units) {
		crashed = 1
		b, s := sn.b, sn.s
		for _, u := range units[:c] {
			if u.db == 0 {
				applyOps(b, u.ops)
			} else {
				applyOps(s, u.ops)
			}
		}
		n.open(b, s)
	}
	stat("crashes_injected", crashed)
	if a >= 2 {
		stat("crash_prefixes_audited", nunits+1)
		if !strings.HasSuffix(crashVerdicts, ":-") {
			stat("ops_with_failing_crash_prefix(hostile inputs)", 1)
		}
		for _, f := range strings.Fields(head) {
			for _, pre := range []string{"prune=", "pruned="} {
				if strings.HasPrefix(f, pre) {
					if v, err := strconv.Atoi(f[len(pre):]); err == nil && v >= 1000 {
						stat("multi_batch_prunes_audited_at_every_unit", 1)
					}
				}
			}
		}
	}
	if strings.Contains(head, "prune=") && !strings.Contains(head, "prune=none") && !strings.Contains(head, "prune=noop") && !strings.Contains(head, "prune=err") || strings.HasPrefix(head, "pruned=") {
		stat("prunes_done", 1)
	}
	if strings.Contains(head, "saved=0") {
		stat("stored_block_replayed_after_crash", 1)
	}
	out := head + fmt.Sprintf(" units=%d crashed=%d ", nunits, crashed) + n.summary()
	if a >= 1 {
		out += " audit=" + audit(n.bmem, n.smem, n.inforce)
	}
	return out + crashVerdicts
}

func flag(m map[string]string, k string) bool { return m[k] == "1" }

func b2i(b bool) int {
	if b {
		return 1
	}
	return 0
}

func execCase(c core.Case) []string {
	var n *node
	out := make([]string, 0, len(c.Ops))
	for _, op := range c.Ops {
		out = append(out, execOp(&n, op))
	}
	return out
}

func checkFinish(m map[string]string) bool {
	_, ok1 := natOr(m, "audit", 0)
	_, ok2 := natOr(m, "crashat", 0)
	return ok1 && ok2
}

func execOp(np **node, op string) string {
	name, m := kv(op)
	n := *np
	if name == "new" {
		ih, ok := intOr(m, "ih", 1)
		if !ok || ih < 1 {
			return "bad-op"
		}
		nv, ok := natOr(m, "nv", 2)
		if !ok || nv < 1 || nv > 4 {
			return "bad-op"
		}
		*np = newNode(ih, nv)
		return "ok"
	}
	if n == nil {
		return "bad-op"
	}
	switch name {
	case "step":
		id, ok0 := intReq(m, "id")
		parts, ok1 := natOr(m, "parts", 1)
		retain, ok2 := intOr(m, "retain", 0)
		if !ok0 || !ok1 || !ok2 || id <= 0 || id >= 1000000000 || parts == 0 || parts > 8 || n.used[int(id)] || !checkFinish(m) {
			return "bad-op"
		}
		n.used[int(id)] = true
		sn := n.snapshot(m)
		o := n.step(stepIn{int(id), parts, b2i(flag(m, "vu")), b2i(flag(m, "pu")), retain, flag(m, "badlc"), flag(m, "badsc"), flag(m, "incomplete")})
		return n.finish(sn, m, fmt.Sprintf("h=%d saved=%s apply=%s prune=%s st=%s", o.h, o.saved, o.applied, o.blocks, o.states))
	case "bulk":
		cnt, ok0 := natOr(m, "n", 1)
		id, ok1 := intReq(m, "id")
		parts, ok2 := natOr(m, "parts", 1)
		vue, ok3 := natOr(m, "vue", 0)
		pue, ok4 := natOr(m, "pue", 0)
		lag, ok5 := intOr(m, "lag", 0)
		if !ok0 || !ok1 || !ok2 || !ok3 || !ok4 || !ok5 || id <= 0 || id >= 1000000000 || parts == 0 || parts > 8 || cnt > 5000 {
			return "bad-op"
		}
		for k := 0; k < cnt; k++ {
			if n.used[int(id)+k] {
				return "bad-op"
			}
		}
		okAll := 1
		for k := 0; k < cnt; k++ {
			n.used[int(id)+k] = true
		}
		for k := 0; k < cnt; k++ {
			H := nextHeight(n.state)
			in := stepIn{id: int(id) + k, parts: parts}
			if vue > 0 && int(H)%vue == 0 {
				in.vu = 1
			}
			if pue > 0 && int(H)%pue == 0 {
				in.pu = 1
			}
			if lag > 0 && H-lag > 0 {
				in.retain = H - lag
			}
			if o := n.step(in); o.applied != "ok" {
				okAll = 0
				break
			}
		}
		return fmt.Sprintf("ok=%d ", okAll) + n.summary() + " audit=" + audit(n.bmem, n.smem, n.inforce)
	case "prune":
		r, ok := intReq(m, "retain")
		if !ok || !checkFinish(m) {
			return "bad-op"
		}
		sn := n.snapshot(m)
		b, s := n.pruneGlue(r)
		return n.finish(sn, m, fmt.Sprintf("prune=%s st=%s", b, s))
	case "bsprune":
		r, ok := intReq(m, "retain")
		if !ok || !checkFinish(m) {
			return "bad-op"
		}
		sn := n.snapshot(m)
		pruned, err := n.bs.PruneBlocks(r)
		if err != nil {
			return "err:" + classify(err, bsErrs, "other")
		}
		return n.finish(sn, m, fmt.Sprintf("pruned=%d", pruned))
	case "stprune":
		f, ok0 := intReq(m, "from")
		t, ok1 := intReq(m, "to")
		if !ok0 || !ok1 || !checkFinish(m) {
			return "bad-op"
		}
		sn := n.snapshot(m)
		res := "ok"
		if err := n.ss.PruneStates(f, t); err != nil {
			res = "err:" + classify(err, ssErrs, "keptParams")
		}
		return n.finish(sn, m, "st="+res)
	case "audit":
		if len(m) != 0 || len(strings.Fields(op)) != 1 {
			return "bad-op"
		}
		return n.summary() + " audit=" + audit(n.bmem, n.smem, n.inforce)
	}
	return "bad-op"
}

// ---------------------------------------------------------------- oracle

// The property on the implementation's outputs: in a history whose inputs are honest (no
// badsc flag, no direct state-store prune), every audit — after each op and after every crash
// prefix — must be "ok".
func oracle(c core.Case, out []string) []core.Finding {
	var fs []core.Finding
	hostile := false
	seen := map[string]bool{}
	add := func(fp, desc string) {
		if !seen[fp] {
			seen[fp] = true
			fs = append(fs, core.Finding{Fingerprint: fp, Desc: desc})
		}
	}
	for i, op := range c.Ops {
		name, m := kv(op)
		// a bad LastCommit is NOT hostile: finalizeCommit validates before saving, the property must hold
		if flag(m, "badsc") || name == "stprune" {
			hostile = true
		}
		if hostile || i >= len(out) {
			continue
		}
		o := out[i]
		if strings.HasPrefix(o, "PANIC") {
			add("harness.panic."+name, "panic while executing "+op+": "+o)
			continue
		}
		om := outFields(o)
		site := name
		if name == "step" || name == "prune" {
			if p := om["prune"]; p != "" && p != "none" && p != "noop" {
				site = "PruneBlocks"
			} else if name == "step" {
				site = "SaveBlock"
			}
		} else if name == "bsprune" {
			site = "PruneBlocks"
		}
		if v, ok := om["audit"]; ok && v != "ok" {
			add(fmt.Sprintf("%s.after-op.%s", site, faultOf(v)), fmt.Sprintf("after `%s` the audit of [base,height] fails: %s (output %q)", op, v, o))
		}
		if v, ok := om["crash"]; ok {
			if j := strings.IndexByte(v, ':'); j >= 0 && v[j+1:] != "-" {
				first := strings.Split(v[j+1:], ";")[0]
				cls := first
				if e := strings.IndexByte(first, '='); e >= 0 {
					cls = first[e+1:]
				}
				add(fmt.Sprintf("%s.crash-prefix.%s", site, faultOf(cls)), fmt.Sprintf("after a crash inside `%s` (write prefix=verdict: %s) the reopened stores fail the audit", op, v[j+1:]))
			}
		}
	}
	return fs
}

// outFields splits an OUTPUT line into key=value fields at the FIRST '=' of each token (values such
// as crash=5:2=1000:noMeta contain '='; the op-line parser kv, which mirrors Tmv.kv, would drop them).
func outFields(o string) map[string]string {
	m := map[string]string{}
	for _, t := range strings.Fields(o) {
		if i := strings.IndexByte(t, '='); i > 0 {
			if _, dup := m[t[:i]]; !dup {
				m[t[:i]] = t[i+1:]
			}
		}
	}
	return m
}

func faultOf(v string) string {
	if i := strings.IndexByte(v, ':'); i >= 0 {
		return v[i+1:]
	}
	return v
}

// ---------------------------------------------------------------- generators

func auditFlags(r *rand.Rand, pAudit2 float64) string {
	x := r.Float64()
	switch {
	case x < pAudit2:
		return " audit=2"
	case x < pAudit2+0.3:
		return " audit=1"
	}
	return ""
}

// genSmall: short chains, every step audited at every crash prefix, frequent crashes, prunes of
// every shape (noop, beyond height, to the tip), validator and parameter changes.
func genSmall(r *rand.Rand, emit func(core.Case), count int) {
	ihs := []int64{1, 1, 1, 2, 7, 99995, 199998}
	for c := 0; c < count; c++ {
		ih := ihs[r.Intn(len(ihs))]
		ops := []string{fmt.Sprintf("new ih=%d nv=%d", ih, 1+r.Intn(3))}
		id := 1
		h := ih - 1 // approximate tip (crashes may hold it back)
		base := ih
		nops := 4 + r.Intn(14)
		for k := 0; k < nops; k++ {
			x := r.Float64()
			switch {
			case x < 0.72:
				op := fmt.Sprintf("step id=%d parts=%d", id, 1+r.Intn(4))
				id++
				if r.Intn(3) == 0 {
					op += " vu=1"
				}
				if r.Intn(4) == 0 {
					op += " pu=1"
				}
				if r.Intn(3) == 0 {
					// retain around the current range, sometimes out of it
					ret := base + int64(r.Intn(int(h-base+4))) - 1
					if ret > 0 {
						op += fmt.Sprintf(" retain=%d", ret)
						if ret > base && ret <= h+1 {
							base = ret
						}
					}
				}
				op += " audit=2"
				if r.Intn(4) == 0 {
					op += fmt.Sprintf(" crashat=%d", r.Intn(16))
				}
				ops = append(ops, op)
				h++
			case x < 0.84:
				ret := base + int64(r.Intn(int(h-base+4))) - 1
				op := fmt.Sprintf("prune retain=%d audit=2", ret)
				if r.Intn(3) == 0 {
					op += fmt.Sprintf(" crashat=%d", r.Intn(5))
				}
				ops = append(ops, op)
				if ret > base && ret <= h {
					base = ret
				}
			case x < 0.92:
				ret := base + int64(r.Intn(int(h-base+5))) - 2
				ops = append(ops, fmt.Sprintf("bsprune retain=%d audit=2", ret))
				if ret > base && ret <= h {
					base = ret
				}
			case x < 0.96:
				n := 2 + r.Intn(12)
				ops = append(ops, fmt.Sprintf("bulk n=%d id=%d parts=%d vue=%d pue=%d lag=%d", n, id, 1+r.Intn(3), r.Intn(4), r.Intn(5), r.Intn(3)*r.Intn(6)))
				id += n
				h += int64(n)
			default:
				ops = append(ops, "audit")
			}
		}
		ops = append(ops, "audit")
		emit(core.Case{Kind: "small", Ops: ops})
	}
}

// genHostile: inputs the store cannot check itself (a LastCommit / seen commit for another
// block, incomplete part sets, direct state-store prunes above the block base), malformed lines.
func genHostile(r *rand.Rand, emit func(core.Case), count int) {
	for c := 0; c < count; c++ {
		ops := []string{fmt.Sprintf("new ih=%d nv=%d", 1+r.Intn(3), 1+r.Intn(2))}
		id := 1
		n := 2 + r.Intn(5)
		ops = append(ops, fmt.Sprintf("bulk n=%d id=%d parts=2 vue=%d pue=3", n, id, 1+r.Intn(3)))
		id += n
		for k := 0; k < 3+r.Intn(5); k++ {
			switch r.Intn(8) {
			case 0:
				ops = append(ops, fmt.Sprintf("step id=%d parts=2 badlc=1 audit=2", id))
				id++
			case 1:
				ops = append(ops, fmt.Sprintf("step id=%d parts=1 badsc=1 audit=2", id))
				id++
			case 2:
				ops = append(ops, fmt.Sprintf("step id=%d parts=3 incomplete=1 audit=2", id))
				id++
			case 3:
				ops = append(ops, fmt.Sprintf("stprune from=%d to=%d audit=2", r.Intn(4), r.Intn(n+4)))
			case 4:
				ops = append(ops, fmt.Sprintf("bsprune retain=%d audit=1", r.Intn(n+6)-2))
			case 5:
				bad := []string{"step id=0", "step parts=2", "step id=x", "bulk n=2", "prune", "prune retain=z", "frob", "step id=1 parts=9",
					fmt.Sprintf("step id=%d", 1+r.Intn(id)), "new ih=0", "stprune from=1", "audit now", "step id=900 audit=x", "step id=901 crashat=-1",
					"step id=902 id=903 audit=1 audit=2", "step id=904=5", "prune retain=1 retain=2 audit=1", "step id=905 parts=2=3 audit=1",
					"bsprune retain=1=2", "step id=906 retain=+3", "step id=+907", "step id=908 parts=02", "bulk n=3 id=909 lag=-1", "step id=910 =1 audit=1",
					"step id=9_11 parts=0_2 audit=1", "step id=912 retain=99999999999999999999", "step id=913 retain=-0 audit=1", "step id=914_ audit=1",
					"new ih=2 nv=9", "new ih=1_0 nv=1", "prune retain=1000000000000000 audit=1", "prune retain=1000000000000001 audit=1", "step id=915 crashat=3000000000 audit=1"}
				ops = append(ops, bad[r.Intn(len(bad))])
			default:
				ops = append(ops, fmt.Sprintf("step id=%d parts=%d vu=%d audit=2", id, 1+r.Intn(3), r.Intn(2)))
				id++
			}
		}
		ops = append(ops, "audit")
		emit(core.Case{Kind: "hostile", Ops: ops})
	}
}

// genBig: chains long enough for PruneBlocks / PruneStates to flush intermediate batches
// (more than 1000 pruned heights), audited at every crash unit, crashed between the batches and
// continued.
func genBig(r *rand.Rand, emit func(core.Case), count int, two bool) {
	for c := 0; c < count; c++ {
		ih := []int64{1, 1, 5, 99500}[r.Intn(4)]
		n := 1010 + r.Intn(300)
		extra := 0
		if two && c%2 == 0 {
			n = 2010 + r.Intn(500)
		}
		ops := []string{fmt.Sprintf("new ih=%d nv=%d", ih, 1+r.Intn(2))}
		ops = append(ops, fmt.Sprintf("bulk n=%d id=1 parts=1 vue=%d pue=%d", n, []int{0, 3, 97, 400}[r.Intn(4)], []int{0, 5, 301}[r.Intn(3)]))
		id := n + 1
		tip := ih + int64(n) - 1
		// one prune crossing the batch boundary, driven by the app's retain height
		keep := int64(1 + r.Intn(8+extra))
		ret := tip + 1 - keep
		op := fmt.Sprintf("step id=%d parts=2 retain=%d audit=2", id, ret)
		id++
		crash := r.Intn(3) == 0
		if crash {
			// units: 2 parts + 5 + 2 abci + 3 save = 12, then descriptor, batch, descriptor, batch, ...
			op += fmt.Sprintf(" crashat=%d", 12+r.Intn(8))
		}
		ops = append(ops, op)
		for k := 0; k < 2+r.Intn(3); k++ {
			o := fmt.Sprintf("step id=%d parts=1 vu=%d", id, r.Intn(2))
			if k == 0 && crash && r.Intn(2) == 0 {
				o += fmt.Sprintf(" retain=%d audit=1", ret)
			} else if k == 1 && crash {
				o += fmt.Sprintf(" retain=%d audit=2", ret+1)
			} else {
				o += " audit=1"
			}
			ops = append(ops, o)
			id++
		}
		ops = append(ops, "audit")
		emit(core.Case{Kind: "big", Ops: ops})
	}
}

func gen(r *rand.Rand, tier string, emit func(core.Case)) {
	// the confirmed scenario first: 1300 blocks, retain 1251 (two batches)
	emit(core.Case{ID: "two-batch-prune", Kind: "big", Ops: []string{"new ih=1 nv=2", "bulk n=1300 id=1 parts=1 vue=7 pue=11",
		"prune retain=1251 audit=2", "audit"}})
	emit(core.Case{ID: "two-batch-prune-crash", Kind: "big", Ops: []string{"new ih=1 nv=1", "bulk n=1100 id=1 parts=1 vue=0 pue=0",
		"bsprune retain=1050 audit=2 crashat=2", "audit", "step id=5000 parts=1 audit=1", "bsprune retain=1050 audit=2", "audit"}})
	if tier == "thorough" {
		genSmall(r, emit, 4000)
		genHostile(r, emit, 800)
		genBig(r, emit, 80, true)
	} else {
		genSmall(r, emit, 500)
		genHostile(r, emit, 120)
		genBig(r, emit, 8, false)
	}
}

// oracleSelfTest: the oracle must flag a failing crash prefix and a failing final audit on
// fabricated outputs (guards against output-format / parser drift silencing it).
func oracleSelfTest() {
	c := core.Case{Ops: []string{"new ih=1 nv=1", "prune retain=2 audit=2", "step id=1 audit=1"}}
	fs := oracle(c, []string{"ok",
		"prune=1 st=ok units=4 crashed=0 base=2 height=3 sth=3 audit=ok crash=5:2=1:noMeta",
		"h=4 saved=1 apply=ok prune=none st=skip units=11 crashed=0 base=2 height=4 sth=4 audit=2:noCommit"})
	got := map[string]bool{}
	for _, f := range fs {
		got[f.Fingerprint] = true
	}
	if !got["PruneBlocks.crash-prefix.noMeta"] || !got["SaveBlock.after-op.noCommit"] {
		panic(fmt.Sprintf("C18 oracle self-test failed: %v", fs))
	}
}

func main() {
	oracleSelfTest()
	core.Main(core.Prop{
		ID: "C18", Driver: "c18", Gen: gen, Exec: execCase, Oracle: oracle,
		NonTrivial: func(c core.Case, out []string) bool {
			for _, o := range out {
				if strings.Contains(o, "audit=") {
					return true
				}
			}
			return false
		},
		Rule: "real store.BlockStore + state.Store over journaling memdbs, driven as finalizeCommit does (SaveBlock, ApplyBlock, pruneBlocks glue); after each op and after EVERY write prefix the databases are rebuilt, the stores reopened and every height in [base,height] audited (block, parts vs part-set header, meta, hash index, commit/seen commit incl. signature verification with the state store's validators, validator-set and params hashes vs header); outputs must equal the Lean model's and the audit must be ok on honest histories",
		Assumptions: []string{
			"memdb stands for goleveldb: ordered map, a batch Write is one crash unit, earlier writes are durable before later ones (each group of writes to one DB ends with a synced write before the other DB is touched)",
			"block hash labels: distinct blocks have distinct hashes (SHA-256 collisions not considered)",
			"crash recovery of consensus state (WAL, handshake) is outside: after a crash the harness re-applies the stored block as the handshake would",
		},
		Parallel: 8,
		Extra: func() map[string]interface{} {
			statMtx.Lock()
			defer statMtx.Unlock()
			m := map[string]interface{}{}
			for k, v := range stats {
				m["c18_"+k] = v
			}
			return m
		},
	})
}
