// C06 correspondence stream: real state.BlockExecutor (ValidateBlock, MakeBlock, CreateProposalBlock,
// ApplyBlock on two independently constructed replicas) vs the Lean model Tmv.Model.Validate.
package main

import (
	"bytes"
	"crypto/sha256"
	"encoding/hex"
	"fmt"
	"math/big"
	"math/rand"
	"sort"
	"strconv"
	"strings"
	"sync"
	"time"

	"github.com/gogo/protobuf/proto"
	dbm "github.com/tendermint/tm-db"

	abcicli "github.com/tendermint/tendermint/abci/client"
	abci "github.com/tendermint/tendermint/abci/types"
	"github.com/tendermint/tendermint/consensus"
	"github.com/tendermint/tendermint/crypto"
	"github.com/tendermint/tendermint/crypto/ed25519"
	"github.com/tendermint/tendermint/crypto/merkle"
	"github.com/tendermint/tendermint/evidence"
	cryptoenc "github.com/tendermint/tendermint/crypto/encoding"
	"github.com/tendermint/tendermint/libs/log"
	tmsync "github.com/tendermint/tendermint/libs/sync"
	mempl "github.com/tendermint/tendermint/mempool"
	mmock "github.com/tendermint/tendermint/mempool/mock"
	tmstate "github.com/tendermint/tendermint/proto/tendermint/state"
	tmproto "github.com/tendermint/tendermint/proto/tendermint/types"
	tmversion "github.com/tendermint/tendermint/proto/tendermint/version"
	"github.com/tendermint/tendermint/proxy"
	sm "github.com/tendermint/tendermint/state"
	"github.com/tendermint/tendermint/types"

	"verifharness/core"
)

// ---------------------------------------------------------------- text helpers

func hx(b []byte) string {
	if len(b) == 0 {
		return "-"
	}
	return hex.EncodeToString(b)
}

func unhx(s string) []byte {
	if s == "-" || s == "" || s == "." {
		return nil
	}
	b, err := hex.DecodeString(s)
	if err != nil {
		panic("bad hex " + s)
	}
	return b
}

func hxList(l [][]byte) string {
	if len(l) == 0 {
		return "-"
	}
	s := make([]string, len(l))
	for i, b := range l {
		if len(b) == 0 {
			s[i] = "."
		} else {
			s[i] = hex.EncodeToString(b)
		}
	}
	return strings.Join(s, ",")
}

func unhxList(s string) [][]byte {
	if s == "-" || s == "" {
		return nil
	}
	parts := strings.Split(s, ",")
	out := make([][]byte, len(parts))
	for i, p := range parts {
		out[i] = unhx(p)
	}
	return out
}

func kvs(op string) map[string]string {
	m := map[string]string{}
	f := strings.Fields(op)
	for _, t := range f[1:] {
		if i := strings.IndexByte(t, '='); i > 0 {
			m[t[:i]] = t[i+1:]
		}
	}
	return m
}

func atoi(s string) int64 {
	v, err := strconv.ParseInt(s, 10, 64)
	if err != nil {
		panic("bad int " + s)
	}
	return v
}

var billion = big.NewInt(1000000000)

// nanos since the Unix epoch as a decimal string (year 1 does not fit int64)
func nanos(t time.Time) string {
	x := new(big.Int).Mul(big.NewInt(t.Unix()), billion)
	x.Add(x, big.NewInt(int64(t.Nanosecond())))
	return x.String()
}

func fromNanos(s string) time.Time {
	x, ok := new(big.Int).SetString(s, 10)
	if !ok {
		panic("bad time " + s)
	}
	sec, ns := new(big.Int).DivMod(x, billion, new(big.Int)) // Euclidean: 0 <= ns
	return time.Unix(sec.Int64(), ns.Int64()).UTC()
}

// ---------------------------------------------------------------- op-level block

type sigT struct {
	Flag int
	Addr []byte
	TS   string
	Sig  []byte
}

type commitT struct {
	Nil    bool
	Height int64
	Round  int64
	BID    types.BlockID
	Sigs   []sigT
}

type evT struct {
	Kind  int
	Inner []byte
	Basic bool
	DVT   string // the evidence in C11's structured terms (generator side only; the model's input)
}

type blkT struct {
	VB, VA                               uint64
	Chain                                string
	H                                    int64
	T                                    string
	LBID                                 types.BlockID
	LCH, DH, VH, NVH, CH, AppH, LRH, EH  []byte
	Prop                                 []byte
	Txs                                  [][]byte
	Ev                                   []evT
	LC                                   commitT
}

func showBID(b types.BlockID) string {
	return fmt.Sprintf("%s/%d/%s", hx(b.Hash), b.PartSetHeader.Total, hx(b.PartSetHeader.Hash))
}

func parseBID(s string) types.BlockID {
	p := strings.Split(s, "/")
	if len(p) != 3 {
		panic("bad bid " + s)
	}
	return types.BlockID{Hash: unhx(p[0]), PartSetHeader: types.PartSetHeader{Total: uint32(atoi(p[1])), Hash: unhx(p[2])}}
}

func showCommit(c commitT) string {
	if c.Nil {
		return "nil"
	}
	sg := "-"
	if len(c.Sigs) > 0 {
		ss := make([]string, len(c.Sigs))
		for i, s := range c.Sigs {
			ss[i] = fmt.Sprintf("%d:%s:%s:%s", s.Flag, hx(s.Addr), s.TS, hx(s.Sig))
		}
		sg = strings.Join(ss, ";")
	}
	return fmt.Sprintf("%d/%d/%s/%s", c.Height, c.Round, showBID(c.BID), sg)
}

func parseCommit(s string) commitT {
	if s == "nil" {
		return commitT{Nil: true}
	}
	p := strings.Split(s, "/")
	if len(p) != 6 {
		panic("bad commit " + s)
	}
	c := commitT{Height: atoi(p[0]), Round: atoi(p[1]), BID: parseBID(strings.Join(p[2:5], "/"))}
	if p[5] != "-" {
		for _, e := range strings.Split(p[5], ";") {
			q := strings.Split(e, ":")
			if len(q) != 4 {
				panic("bad sig " + e)
			}
			c.Sigs = append(c.Sigs, sigT{Flag: int(atoi(q[0])), Addr: unhx(q[1]), TS: q[2], Sig: unhx(q[3])})
		}
	}
	return c
}

func showEvs(e []evT) string {
	if len(e) == 0 {
		return "-"
	}
	s := make([]string, len(e))
	for i, x := range e {
		b := 0
		if x.Basic {
			b = 1
		}
		d := x.DVT
		if d == "" {
			d = "-"
		}
		s[i] = fmt.Sprintf("%d:%s:%d:%s", x.Kind, hx(x.Inner), b, d)
	}
	return strings.Join(s, ",")
}

func parseEvs(s string) []evT {
	if s == "-" || s == "" {
		return nil
	}
	var out []evT
	for _, e := range strings.Split(s, ",") {
		q := strings.Split(e, ":")
		if len(q) != 3 && len(q) != 4 {
			panic("bad ev " + e)
		}
		x := evT{Kind: int(atoi(q[0])), Inner: unhx(q[1]), Basic: q[2] == "1"}
		if len(q) == 4 && q[3] != "-" {
			x.DVT = q[3]
		}
		out = append(out, x)
	}
	return out
}

func (b blkT) headerToks() string {
	return fmt.Sprintf("vb=%d va=%d chain=%s h=%d t=%s lbid=%s lch=%s dh=%s vh=%s nvh=%s ch=%s apph=%s lrh=%s eh=%s prop=%s",
		b.VB, b.VA, hx([]byte(b.Chain)), b.H, b.T, showBID(b.LBID), hx(b.LCH), hx(b.DH), hx(b.VH), hx(b.NVH), hx(b.CH),
		hx(b.AppH), hx(b.LRH), hx(b.EH), hx(b.Prop))
}

func (b blkT) toks() string {
	return b.headerToks() + fmt.Sprintf(" txs=%s ev=%s lc=%s", hxList(b.Txs), showEvs(b.Ev), showCommit(b.LC))
}

func parseBlk(m map[string]string) blkT {
	return blkT{VB: uint64(atoi(m["vb"])), VA: parseU64(m["va"]), Chain: string(unhx(m["chain"])), H: atoi(m["h"]), T: m["t"],
		LBID: parseBID(m["lbid"]), LCH: unhx(m["lch"]), DH: unhx(m["dh"]), VH: unhx(m["vh"]), NVH: unhx(m["nvh"]),
		CH: unhx(m["ch"]), AppH: unhx(m["apph"]), LRH: unhx(m["lrh"]), EH: unhx(m["eh"]), Prop: unhx(m["prop"]),
		Txs: unhxList(m["txs"]), Ev: parseEvs(m["ev"]), LC: parseCommit(m["lc"])}
}

func parseU64(s string) uint64 {
	v, err := strconv.ParseUint(s, 10, 64)
	if err != nil {
		panic("bad uint " + s)
	}
	return v
}

func realCommit(c commitT) *types.Commit {
	if c.Nil {
		return nil
	}
	sigs := make([]types.CommitSig, len(c.Sigs))
	for i, s := range c.Sigs {
		sigs[i] = types.CommitSig{BlockIDFlag: types.BlockIDFlag(s.Flag), ValidatorAddress: s.Addr, Timestamp: fromNanos(s.TS), Signature: s.Sig}
	}
	return types.NewCommit(c.Height, int32(c.Round), c.BID, sigs)
}

func opCommit(c *types.Commit) commitT {
	if c == nil {
		return commitT{Nil: true}
	}
	o := commitT{Height: c.Height, Round: int64(c.Round), BID: c.BlockID}
	for _, s := range c.Signatures {
		o.Sigs = append(o.Sigs, sigT{Flag: int(s.BlockIDFlag), Addr: s.ValidatorAddress, TS: nanos(s.Timestamp), Sig: s.Signature})
	}
	return o
}

// evidence: only duplicate-vote evidence is generated; built without FromProto's validation so
// that items failing ValidateBasic can be carried too
func realEv(e evT) types.Evidence {
	if e.Kind != 1 {
		panic("unsupported evidence kind")
	}
	var pb tmproto.DuplicateVoteEvidence
	if err := pb.Unmarshal(e.Inner); err != nil {
		panic(err)
	}
	va, err := types.VoteFromProto(pb.VoteA)
	if err != nil {
		panic(err)
	}
	vb, err := types.VoteFromProto(pb.VoteB)
	if err != nil {
		panic(err)
	}
	return &types.DuplicateVoteEvidence{VoteA: va, VoteB: vb, TotalVotingPower: pb.TotalVotingPower, ValidatorPower: pb.ValidatorPower, Timestamp: pb.Timestamp}
}

func opEv(e types.Evidence) evT {
	return evT{Kind: 1, Inner: e.Bytes(), Basic: e.ValidateBasic() == nil}
}

func realEvs(es []evT) []types.Evidence {
	var out []types.Evidence
	for _, e := range es {
		out = append(out, realEv(e))
	}
	return out
}

func realBlock(b blkT) *types.Block {
	txs := make(types.Txs, len(b.Txs))
	for i, t := range b.Txs {
		txs[i] = types.Tx(t)
	}
	return &types.Block{
		Header: types.Header{
			Version: tmversion.Consensus{Block: b.VB, App: b.VA}, ChainID: b.Chain, Height: b.H, Time: fromNanos(b.T),
			LastBlockID: b.LBID, LastCommitHash: b.LCH, DataHash: b.DH, ValidatorsHash: b.VH, NextValidatorsHash: b.NVH,
			ConsensusHash: b.CH, AppHash: b.AppH, LastResultsHash: b.LRH, EvidenceHash: b.EH, ProposerAddress: b.Prop,
		},
		Data:       types.Data{Txs: txs},
		Evidence:   types.EvidenceData{Evidence: realEvs(b.Ev)},
		LastCommit: realCommit(b.LC),
	}
}

func opBlock(b *types.Block) blkT {
	o := blkT{VB: b.Version.Block, VA: b.Version.App, Chain: b.ChainID, H: b.Height, T: nanos(b.Time), LBID: b.LastBlockID,
		LCH: b.LastCommitHash, DH: b.DataHash, VH: b.ValidatorsHash, NVH: b.NextValidatorsHash, CH: b.ConsensusHash,
		AppH: b.AppHash, LRH: b.LastResultsHash, EH: b.EvidenceHash, Prop: b.ProposerAddress, LC: opCommit(b.LastCommit)}
	for _, t := range b.Txs {
		o.Txs = append(o.Txs, []byte(t))
	}
	for _, e := range b.Evidence.Evidence {
		o.Ev = append(o.Ev, opEv(e))
	}
	return o
}

// ---------------------------------------------------------------- state line

func showVals(vs *types.ValidatorSet, full bool) string {
	if vs == nil || len(vs.Validators) == 0 {
		return "-"
	}
	s := make([]string, len(vs.Validators))
	for i, v := range vs.Validators {
		k := v.PubKey.Bytes()
		if !full {
			k = k[:4]
		}
		s[i] = fmt.Sprintf("%s:%d:%d", hex.EncodeToString(k), v.VotingPower, v.ProposerPriority)
	}
	return strings.Join(s, ",")
}

func showParams(p tmproto.ConsensusParams) string {
	ts := "-"
	if len(p.Validator.PubKeyTypes) > 0 {
		ts = strings.Join(p.Validator.PubKeyTypes, ";")
	}
	return fmt.Sprintf("%d/%d/%d/%d/%d/%d/%s/%d", p.Block.MaxBytes, p.Block.MaxGas, p.Block.TimeIotaMs, p.Evidence.MaxAgeNumBlocks,
		int64(p.Evidence.MaxAgeDuration), p.Evidence.MaxBytes, ts, p.Version.AppVersion)
}

func parseParams(s string) tmproto.ConsensusParams {
	q := strings.Split(s, "/")
	if len(q) != 8 {
		panic("bad params " + s)
	}
	var ts []string
	if q[6] != "-" {
		ts = strings.Split(q[6], ";")
	}
	return tmproto.ConsensusParams{
		Block:     tmproto.BlockParams{MaxBytes: atoi(q[0]), MaxGas: atoi(q[1]), TimeIotaMs: atoi(q[2])},
		Evidence:  tmproto.EvidenceParams{MaxAgeNumBlocks: atoi(q[3]), MaxAgeDuration: time.Duration(atoi(q[4])), MaxBytes: atoi(q[5])},
		Validator: tmproto.ValidatorParams{PubKeyTypes: ts},
		Version:   tmproto.VersionParams{AppVersion: parseU64(q[7])},
	}
}

// stateToks prints every field of the state; full=true is the (re-parsable) input form
func stateToks(s sm.State, full bool) string {
	r := fmt.Sprintf("vb=%d va=%d chain=%s ih=%d lbh=%d lbid=%s lbt=%s nvals=%s vals=%s lvals=%s lhvc=%d params=%s lhpc=%d lrh=%s apph=%s",
		s.Version.Consensus.Block, s.Version.Consensus.App, hx([]byte(s.ChainID)), s.InitialHeight, s.LastBlockHeight, showBID(s.LastBlockID),
		nanos(s.LastBlockTime), showVals(s.NextValidators, full), showVals(s.Validators, full), showVals(s.LastValidators, full),
		s.LastHeightValidatorsChanged, showParams(s.ConsensusParams), s.LastHeightConsensusParamsChanged, hx(s.LastResultsHash), hx(s.AppHash))
	if !full {
		r += fmt.Sprintf(" vh=%s nvh=%s ch=%s", hex.EncodeToString(s.Validators.Hash()), hex.EncodeToString(s.NextValidators.Hash()),
			hex.EncodeToString(types.HashConsensusParams(s.ConsensusParams)))
	}
	return r
}

// ---------------------------------------------------------------- scripted application and pools

type script struct {
	Results []abci.ResponseDeliverTx
	ValUpd  []abci.ValidatorUpdate
	PU      *abci.ConsensusParams
	AppHash []byte
}

type scriptApp struct {
	abci.BaseApplication
	sc script
	i  int
}

// replica-specific noise for every field outside the whitelist of types.deterministicResponseDeliverTx
// (Code, Data, GasWanted, GasUsed): Log, Info, Events, Codespace; and for Begin/EndBlock events
func (a *scriptApp) noise() (string, []abci.Event) {
	tag := fmt.Sprintf("replica-%p", a)
	return tag, []abci.Event{{Type: "noise", Attributes: []abci.EventAttribute{{Key: []byte("who"), Value: []byte(tag), Index: true}}}}
}

func (a *scriptApp) BeginBlock(abci.RequestBeginBlock) abci.ResponseBeginBlock {
	a.i = 0
	_, ev := a.noise()
	return abci.ResponseBeginBlock{Events: ev}
}
func (a *scriptApp) DeliverTx(abci.RequestDeliverTx) abci.ResponseDeliverTx {
	var r abci.ResponseDeliverTx
	if a.i < len(a.sc.Results) {
		r = a.sc.Results[a.i]
	}
	// non-deterministic fields that must not reach the results hash / the next state
	tag, ev := a.noise()
	r.Log, r.Info, r.Codespace, r.Events = "log-"+tag, "info-"+tag, "cs-"+tag, ev
	a.i++
	return r
}
func (a *scriptApp) EndBlock(abci.RequestEndBlock) abci.ResponseEndBlock {
	_, ev := a.noise()
	return abci.ResponseEndBlock{ValidatorUpdates: a.sc.ValUpd, ConsensusParamUpdates: a.sc.PU, Events: ev}
}
func (a *scriptApp) Commit() abci.ResponseCommit { return abci.ResponseCommit{Data: a.sc.AppHash} }

// in-memory block store for the evidence pool: metas of applied blocks, commits saved with the next block
type memBS struct {
	metas   map[int64]*types.BlockMeta
	commits map[int64]*types.Commit
	h       int64
}

func newMemBS() *memBS {
	return &memBS{metas: map[int64]*types.BlockMeta{}, commits: map[int64]*types.Commit{}}
}
func (b *memBS) LoadBlockMeta(h int64) *types.BlockMeta { return b.metas[h] }
func (b *memBS) LoadBlockCommit(h int64) *types.Commit  { return b.commits[h] }
func (b *memBS) Height() int64                          { return b.h }

// what consensus does before ApplyBlock: the block is saved; returns the undo for a refused block
func (b *memBS) save(blk *types.Block, bid types.BlockID) func() {
	oldH := b.h
	oldMeta, hadMeta := b.metas[blk.Height]
	oldC, hadC := b.commits[blk.Height-1]
	b.metas[blk.Height] = &types.BlockMeta{BlockID: bid, Header: blk.Header, NumTxs: len(blk.Txs)}
	if blk.LastCommit != nil {
		b.commits[blk.Height-1] = blk.LastCommit
	}
	b.h = blk.Height
	return func() {
		b.h = oldH
		if hadMeta {
			b.metas[blk.Height] = oldMeta
		} else {
			delete(b.metas, blk.Height)
		}
		if hadC {
			b.commits[blk.Height-1] = oldC
		} else {
			delete(b.commits, blk.Height-1)
		}
	}
}

type poolMempool struct {
	mmock.Mempool
	pool    [][]byte
	gotMax  int64
	reaped  int
}

var _ mempl.Mempool = (*poolMempool)(nil)

// as CListMempool.ReapMaxBytesMaxGas without gas: longest prefix within maxBytes
func (m *poolMempool) ReapMaxBytesMaxGas(maxBytes, _ int64) types.Txs {
	m.gotMax = maxBytes
	var txs types.Txs
	var running int64
	for _, t := range m.pool {
		sz := types.ComputeProtoSizeForTxs([]types.Tx{t})
		if maxBytes > -1 && running+sz > maxBytes {
			break
		}
		running += sz
		txs = append(txs, types.Tx(t))
	}
	m.reaped = len(txs)
	return txs
}

type replica struct {
	app   *scriptApp
	store sm.Store
	exec  *sm.BlockExecutor
	evp   *evidence.Pool
	bs    *memBS
	mp    *poolMempool
	state sm.State
}

func newReplica() *replica {
	r := &replica{app: &scriptApp{}, mp: &poolMempool{}, bs: newMemBS()}
	r.store = sm.NewStore(dbm.NewMemDB(), sm.StoreOptions{})
	return r
}

func (r *replica) boot(st sm.State) {
	r.state = st.Copy()
	if err := r.store.Save(r.state); err != nil {
		panic(err)
	}
	// the REAL evidence pool on the replica's own state store and block store
	evp, err := evidence.NewPool(dbm.NewMemDB(), r.store, r.bs)
	if err != nil {
		panic(err)
	}
	r.evp = evp
	cli := abcicli.NewLocalClient(new(tmsync.Mutex), r.app)
	r.exec = sm.NewBlockExecutor(r.store, log.NewNopLogger(), proxy.NewAppConnConsensus(cli), r.mp, r.evp)
}

// ---------------------------------------------------------------- error classes

func vcClass(err error) string {
	if err == nil {
		return "ok"
	}
	s := err.Error()
	switch {
	case strings.Contains(s, "wrong set size"):
		return "size"
	case strings.Contains(s, "wrong height"):
		return "height"
	case strings.Contains(s, "wrong block ID"):
		return "blockid"
	case strings.Contains(s, "wrong signature"):
		return "sig"
	case strings.Contains(s, "insufficient voting power"):
		return "power"
	}
	return "other"
}

func errClass(err error) string {
	if err == nil {
		return "ok"
	}
	s := err.Error()
	type pc struct{ pat, cls string }
	for _, p := range []pc{
		{"invalid header: block protocol is incorrect", "e-hdr-version-block"},
		{"invalid header: chainID is too long", "e-hdr-chainid-len"},
		{"invalid header: negative Height", "e-hdr-height"},
		{"invalid header: zero Height", "e-hdr-height"},
		{"invalid header: wrong LastBlockID", "e-hdr-lastblockid"},
		{"invalid header: wrong LastCommitHash", "e-hdr-lastcommithash"},
		{"invalid header: wrong DataHash", "e-hdr-datahash"},
		{"invalid header: wrong EvidenceHash", "e-hdr-evidencehash"},
		{"invalid header: invalid ProposerAddress length", "e-hdr-proposer-len"},
		{"invalid header: wrong NextValidatorsHash", "e-hdr-nextvalshash"},
		{"invalid header: wrong ValidatorsHash", "e-hdr-valshash"},
		{"invalid header: wrong ConsensusHash", "e-hdr-consensushash"},
		{"invalid header: wrong LastResultsHash", "e-hdr-lastresultshash"},
		{"nil LastCommit", "e-nil-lastcommit"},
		{"wrong LastCommit:", "e-lastcommit-basic"},
		{"wrong Header.LastCommitHash", "e-lastcommithash"},
		{"wrong Header.DataHash", "e-datahash"},
		{"invalid evidence (#", "e-evidence-basic"},
		{"wrong Header.EvidenceHash", "e-evidencehash"},
		{"wrong Block.Header.Version", "e-version"},
		{"wrong Block.Header.ChainID", "e-chainid"},
		{"wrong Block.Header.Height", "e-height"},
		{"wrong Block.Header.LastBlockID", "e-lastblockid"},
		{"wrong Block.Header.AppHash", "e-apphash"},
		{"wrong Block.Header.ConsensusHash", "e-consensushash"},
		{"wrong Block.Header.LastResultsHash", "e-lastresultshash"},
		{"wrong Block.Header.NextValidatorsHash", "e-nextvalshash"},
		{"wrong Block.Header.ValidatorsHash", "e-valshash"},
		{"initial block can't have LastCommit signatures", "e-initial-commit-sigs"},
		{"expected ProposerAddress size", "e-proposer-len"},
		{"is not a validator", "e-proposer-unknown"},
		{"not greater than last block time", "e-time-not-after"},
		{"invalid block time. Expected", "e-time-median"},
		{"is not equal to genesis time", "e-time-genesis"},
		{"lower than initial height", "e-height-below-initial"},
		{"Too much evidence", "e-evidence-overflow"},
		{"Invalid evidence:", "e-evidence-check"},
		{"don't have header #", "e-evidence-check"},
		{"evidence has a different time to the block", "e-evidence-check"},
		{"is too old; min height is", "e-evidence-check"},
		{"was not a validator at height", "e-evidence-check"},
		{"h/r/s does not match", "e-evidence-check"},
		{"validator addresses do not match", "e-evidence-check"},
		{"not a real duplicate vote", "e-evidence-check"},
		{"doesn't match pubkey", "e-evidence-check"},
		{"validator power from evidence", "e-evidence-check"},
		{"total voting power from the evidence", "e-evidence-check"},
		{"verifying VoteA", "e-evidence-check"},
		{"verifying VoteB", "e-evidence-check"},
		{"validators at height", "e-evidence-check"},
	} {
		if strings.Contains(s, p.pat) {
			return p.cls
		}
	}
	if c := vcClass(err); c != "other" {
		return "e-commit:" + c
	}
	return "e-other:" + strings.ReplaceAll(s, " ", "_")
}

// ---------------------------------------------------------------- Exec

func blockLine(r, rb *replica, b blkT, admit bool) string {
	blk := realBlock(b)
	_ = admit
	v := errClass(r.exec.ValidateBlock(r.state, realBlock(b)))
	// the independently constructed replica must reach the same verdict on the same block
	rbv := "same"
	if rb != nil && rb.state.Validators != nil {
		if v2 := errClass(rb.exec.ValidateBlock(rb.state, realBlock(b))); v2 != v {
			rbv = "DIFF:" + v2
		}
	}
	histMu.Lock()
	verdHist[v]++
	histMu.Unlock()
	pb, err := blk.ToProto()
	if err != nil {
		return "toproto-error"
	}
	bz, err := proto.Marshal(pb)
	if err != nil {
		return "marshal-error"
	}
	sum := sha256.Sum256(bz)
	lch := "nil"
	if blk.LastCommit != nil {
		lch = hex.EncodeToString(blk.LastCommit.Hash())
	}
	return fmt.Sprintf("hh=%s size=%d enc=%s lch=%s dh=%s eh=%s evsize=%d v=%s", hx(blk.Header.Hash()), blk.Size(), hex.EncodeToString(sum[:8]),
		lch, hex.EncodeToString(blk.Data.Hash()), hex.EncodeToString(blk.Evidence.Hash()), blk.Evidence.ByteSize(), v) + " rb=" + rbv
}

func parsePU(s string) *abci.ConsensusParams {
	if s == "none" {
		return nil
	}
	pu := &abci.ConsensusParams{}
	for _, p := range strings.Split(s, ";") {
		q := strings.Split(p, ":")
		switch q[0] {
		case "b":
			pu.Block = &abci.BlockParams{MaxBytes: atoi(q[1]), MaxGas: atoi(q[2])}
		case "e":
			pu.Evidence = &tmproto.EvidenceParams{MaxAgeNumBlocks: atoi(q[1]), MaxAgeDuration: time.Duration(atoi(q[2])), MaxBytes: atoi(q[3])}
		case "v":
			var ts []string
			if q[1] != "-" {
				ts = strings.Split(q[1], "+")
			}
			pu.Validator = &tmproto.ValidatorParams{PubKeyTypes: ts}
		case "a":
			pu.Version = &tmproto.VersionParams{AppVersion: parseU64(q[1])}
		case "x":
		default:
			panic("bad pu " + s)
		}
	}
	return pu
}

func parseScript(m map[string]string) script {
	var sc script
	if m["res"] != "-" && m["res"] != "" {
		for _, e := range strings.Split(m["res"], ",") {
			q := strings.Split(e, ":")
			sc.Results = append(sc.Results, abci.ResponseDeliverTx{Code: uint32(atoi(q[0])), Data: unhx(q[1]), GasWanted: atoi(q[2]), GasUsed: atoi(q[3])})
		}
	}
	if m["valupd"] != "-" && m["valupd"] != "" {
		for _, e := range strings.Split(m["valupd"], ",") {
			q := strings.Split(e, ":")
			pk, err := cryptoenc.PubKeyToProto(ed25519.PubKey(unhx(q[0])))
			if err != nil {
				panic(err)
			}
			sc.ValUpd = append(sc.ValUpd, abci.ValidatorUpdate{PubKey: pk, Power: atoi(q[1])})
		}
	}
	sc.PU = parsePU(m["pu"])
	sc.AppHash = unhx(m["apph"])
	return sc
}

func applyClass(err error) string {
	s := err.Error()
	switch {
	case strings.Contains(s, "error in validator updates"), strings.Contains(s, "error changing validator set"):
		return "err-valset"
	case strings.Contains(s, "error updating consensus params"):
		return "err-params"
	}
	return "err-invalid:" + errClass(err)
}

func setField(st *sm.State, f, v string) bool {
	switch f {
	case "lbh":
		st.LastBlockHeight = atoi(v)
	case "ih":
		st.InitialHeight = atoi(v)
	case "lbt":
		st.LastBlockTime = fromNanos(v)
	case "apph":
		st.AppHash = unhx(v)
	case "lrh":
		st.LastResultsHash = unhx(v)
	case "chain":
		st.ChainID = string(unhx(v))
	case "va":
		st.Version.Consensus.App = parseU64(v)
	case "vb":
		st.Version.Consensus.Block = parseU64(v)
	case "lbid":
		st.LastBlockID = parseBID(v)
	case "maxbytes":
		st.ConsensusParams.Block.MaxBytes = atoi(v)
	case "evmax":
		st.ConsensusParams.Evidence.MaxBytes = atoi(v)
	default:
		return false
	}
	return true
}

func genesisFromToks(m map[string]string) (sm.State, error) {
	var gvs []types.GenesisValidator
	if m["vals"] != "-" {
		for _, e := range strings.Split(m["vals"], ",") {
			q := strings.Split(e, ":")
			pk := ed25519.PubKey(unhx(q[0]))
			gvs = append(gvs, types.GenesisValidator{Address: pk.Address(), PubKey: pk, Power: atoi(q[1])})
		}
	}
	p := parseParams(m["params"])
	gd := &types.GenesisDoc{ChainID: string(unhx(m["chain"])), InitialHeight: atoi(m["ih"]), GenesisTime: fromNanos(m["lbt"]),
		Validators: gvs, ConsensusParams: &p, AppHash: unhx(m["apph"])}
	st, err := sm.MakeGenesisState(gd)
	if err != nil {
		return st, err
	}
	st.Version.Consensus.App = parseU64(m["va"])
	return st, nil
}

// replica c is a node that only ever applies blocks (the block-sync path: ApplyBlock runs the
// stateless validateBlock, never the pool's CheckEvidence)
func execOp(a, b, c *replica, cur **blkT, op string) (out string) {
	parsed := false
	defer func() {
		if r := recover(); r != nil {
			if !parsed {
				out = "bad-op" // the harness could not parse the line
				return
			}
			out = "panic:" + strings.ReplaceAll(strings.SplitN(fmt.Sprint(r), "\n", 2)[0], " ", "_")
			if len(out) > 80 {
				out = out[:80]
			}
		}
	}()
	m := kvs(op)
	switch strings.Fields(op)[0] {
	case "state":
		st, err := genesisFromToks(m)
		if err != nil {
			return "bad-op"
		}
		parsed = true
		*a, *b, *c = *newReplica(), *newReplica(), *newReplica()
		a.boot(st)
		b.boot(st)
		c.boot(st)
		*cur = nil
		return "st " + stateToks(a.state, false)
	case "set":
		if a.state.Validators == nil || m["v"] == "" || !setField(&a.state, m["f"], m["v"]) || !setField(&b.state, m["f"], m["v"]) || !setField(&c.state, m["f"], m["v"]) {
			return "bad-op"
		}
		return "st " + stateToks(a.state, false)
	case "block":
		if a.state.Validators == nil {
			return "bad-op"
		}
		bt := parseBlk(m)
		realBlock(bt)
		parsed = true
		*cur = &bt
		line := blockLine(a, b, bt, true)
		rcv := "same"
		if strings.HasPrefix(m["pert"], "evidence.committed") && c.state.Validators != nil {
			// evidence that is already in a committed block must be refused on every node, whichever
			// way that block reached it
			if v2 := errClass(c.exec.ValidateBlock(c.state, realBlock(bt))); v2 != outKV(line)["v"] {
				rcv = "DIFF:" + v2
			}
		}
		return line + " rc=" + rcv
	case "make":
		if a.state.Validators == nil {
			return "bad-op"
		}
		c := parseCommit(m["lc"])
		var txs []types.Tx
		for _, t := range unhxList(m["txs"]) {
			txs = append(txs, types.Tx(t))
		}
		mh, mevs, mprop := atoi(m["h"]), realEvs(parseEvs(m["ev"])), unhx(m["prop"])
		if c.Nil || m["prop"] == "" || m["txs"] == "" {
			return "bad-op"
		}
		parsed = true
		blk, _ := a.state.MakeBlock(mh, txs, realCommit(c), mevs, mprop)
		bt := opBlock(blk)
		*cur = &bt
		return bt.headerToks() + " " + blockLine(a, b, bt, m["evadm"] != "0")
	case "create":
		if a.state.Validators == nil {
			return "bad-op"
		}
		c := parseCommit(m["lc"])
		a.mp.pool = unhxList(m["pool"])
		a.mp.gotMax = -7
		ch, cprop := atoi(m["h"]), unhx(m["prop"])
		if c.Nil || m["prop"] == "" || m["pool"] == "" {
			return "bad-op"
		}
		parsed = true
		var blk *types.Block
		func() {
			defer func() {
				if r := recover(); r != nil {
					if strings.Contains(fmt.Sprint(r), "Negative MaxDataBytes") {
						blk = nil
					} else {
						panic(r)
					}
				}
			}()
			blk, _ = a.exec.CreateProposalBlock(ch, a.state, realCommit(c), cprop)
		}()
		if blk == nil {
			return "maxdata=panic"
		}
		bt := opBlock(blk)
		*cur = &bt
		return fmt.Sprintf("maxdata=%d ntx=%d nev=%d %s fits=%v", a.mp.gotMax, a.mp.reaped, len(blk.Evidence.Evidence), blockLine(a, b, bt, m["evadm"] != "0"),
			int64(blk.Size()) <= a.state.ConsensusParams.Block.MaxBytes)
	case "votetime":
		// block times are offsets from the local clock at the moment of the call
		off := func(k string) (*int64, bool) {
			v, ok := m[k]
			if !ok {
				return nil, false
			}
			if v == "nil" {
				return nil, true
			}
			x := atoi(v)
			return &x, true
		}
		lo, ok1 := off("locked")
		po, ok2 := off("prop")
		if !ok1 || !ok2 || m["iota"] == "" {
			return "bad-op"
		}
		iota := atoi(m["iota"])
		parsed = true
		before := time.Now().UTC()
		var lb, pb *types.Block
		if lo != nil {
			lb = &types.Block{Header: types.Header{Time: before.Add(time.Duration(*lo))}}
		}
		if po != nil {
			pb = &types.Block{Header: types.Header{Time: before.Add(time.Duration(*po))}}
		}
		r := consensus.VerifVoteTime(lb, pb, iota)
		after := time.Now().UTC()
		cls := "other"
		switch {
		case lb != nil && r.Equal(lb.Time.Add(time.Duration(iota)*time.Millisecond)):
			cls = "locked+iota"
		case pb != nil && r.Equal(pb.Time.Add(time.Duration(iota)*time.Millisecond)):
			cls = "proposal+iota"
		case !r.Before(before) && !r.After(after):
			cls = "now"
		}
		gt := func(b *types.Block) string {
			if b == nil {
				return "-"
			}
			return fmt.Sprint(r.After(b.Time))
		}
		return fmt.Sprintf("vt=%s gtlocked=%s gtprop=%s", cls, gt(lb), gt(pb))
	case "addev":
		if a.state.Validators == nil {
			return "bad-op"
		}
		evs := realEvs(parseEvs(m["ev"]))
		if len(evs) != 1 || parseEvs(m["ev"])[0].DVT == "" {
			return "bad-op"
		}
		parsed = true
		errA := a.evp.AddEvidence(evs[0])
		errB := b.evp.AddEvidence(realEvs(parseEvs(m["ev"]))[0])
		if (errA == nil) != (errB == nil) {
			return "det=DIFF:addevidence"
		}
		if errA != nil {
			return "err"
		}
		return "ok"
	case "apply":
		if a.state.Validators == nil || *cur == nil {
			return "bad-op"
		}
		sc := parseScript(m)
		bid := parseBID(m["bid"])
		if m["res"] == "" || m["changed"] == "" || m["nvals"] == "" || m["apph"] == "" {
			return "bad-op"
		}
		parsed = true
		blkA := realBlock(**cur)
		// replica B receives the block over the wire
		var blkB *types.Block
		if pb, err := realBlock(**cur).ToProto(); err == nil {
			if bz, err := proto.Marshal(pb); err == nil {
				var pb2 tmproto.Block
				if err := proto.Unmarshal(bz, &pb2); err == nil {
					blkB, _ = types.BlockFromProto(&pb2)
				}
			}
		}
		a.app.sc, b.app.sc = sc, sc
		undoA := a.bs.save(blkA, bid)
		stA, _, errA := a.exec.ApplyBlock(a.state, bid, blkA)
		if errA != nil {
			undoA()
		}
		if blkB == nil {
			// undecodable on the wire: replica B cannot even see it; A must have refused it too
			if errA == nil {
				return "ok det=DIFF:accepted-block-that-does-not-survive-the-wire"
			}
			return applyClass(errA)
		}
		undoB := b.bs.save(blkB, bid)
		stB, _, errB := b.exec.ApplyBlock(b.state, bid, blkB)
		if errB != nil {
			undoB()
		}
		if (errA == nil) != (errB == nil) {
			return fmt.Sprintf("det=DIFF:error-on-one-replica:%v/%v", errA != nil, errB != nil)
		}
		if errA != nil {
			if applyClass(errA) != applyClass(errB) {
				return "det=DIFF:error-class"
			}
			return applyClass(errA)
		}
		det := "same"
		// reference: Merkle root over exactly the fields the ABCI specification calls deterministic
		var leaves [][]byte
		for k := range blkA.Txs {
			var rs abci.ResponseDeliverTx
			if k < len(sc.Results) {
				rs = abci.ResponseDeliverTx{Code: sc.Results[k].Code, Data: sc.Results[k].Data, GasWanted: sc.Results[k].GasWanted, GasUsed: sc.Results[k].GasUsed}
			}
			bz, _ := rs.Marshal()
			leaves = append(leaves, bz)
		}
		switch {
		case !bytes.Equal(stA.LastResultsHash, stB.LastResultsHash):
			det = "DIFF:last-results-hash"
		case !bytes.Equal(stA.LastResultsHash, merkle.HashFromByteSlices(leaves)):
			det = "DIFF:results-hash-covers-more-than-code-data-gas"
		case !bytes.Equal(stA.Bytes(), stB.Bytes()):
			det = "DIFF:state-bytes"
		case !bytes.Equal(blkA.Hash(), blkB.Hash()):
			det = "DIFF:block-hash"
		default:
			// the stored form round-trips to the same bytes
			la, errL := a.store.Load()
			if errL != nil || !bytes.Equal(la.Bytes(), stA.Bytes()) {
				det = "DIFF:stored-state"
			}
			var ps tmstate.State
			if err := proto.Unmarshal(stA.Bytes(), &ps); err != nil {
				det = "DIFF:state-unmarshal"
			} else if s2, err := sm.FromProto(&ps); err != nil || !bytes.Equal(s2.Bytes(), stA.Bytes()) {
				det = "DIFF:state-roundtrip"
			}
		}
		// the block-sync node: the same block over the wire, ApplyBlock only
		if c.state.Validators != nil && det == "same" {
			undoC := c.bs.save(blkB, bid)
			c.app.sc = sc
			stC, _, errC := c.exec.ApplyBlock(c.state, bid, blkB)
			if errC != nil {
				undoC()
				det = "DIFF:sync-node-refuses"
			} else {
				if !bytes.Equal(stC.Bytes(), stA.Bytes()) {
					det = "DIFF:sync-node-state-bytes"
				}
				c.state = stC
			}
		}
		a.state, b.state = stA, stB
		*cur = nil
		return "ok det=" + det + " st " + stateToks(stA, false) + " xck=ok"
	}
	return "bad-op"
}

func execCase(c core.Case) []string {
	a, b, rc := &replica{}, &replica{}, &replica{}
	var cur *blkT
	out := make([]string, 0, len(c.Ops))
	for _, op := range c.Ops {
		out = append(out, execOp(a, b, rc, &cur, op))
	}
	return out
}


// ---------------------------------------------------------------- reference weighted median (oracle side)

type wtE struct {
	ts *big.Int
	w  int64
}

func parseWT(s string) []wtE {
	var out []wtE
	if s == "" || s == "-" {
		return out
	}
	for _, e := range strings.Split(s, ";") {
		q := strings.Split(e, ":")
		t, _ := new(big.Int).SetString(q[0], 10)
		out = append(out, wtE{t, atoi(q[1])})
	}
	return out
}

// the rule of the BFT-time specification as the code documents it: order the votes by time, the
// block time is the time of the first vote at which the cumulative voting power reaches half
// (integer half) of the power present in the commit; nil if there is no vote
func refMedian(w []wtE) *big.Int {
	w = append([]wtE{}, w...)
	sort.SliceStable(w, func(i, j int) bool { return w[i].ts.Cmp(w[j].ts) < 0 })
	var tot int64
	for _, e := range w {
		tot += e.w
	}
	half, cum := tot/2, int64(0)
	for _, e := range w {
		cum += e.w
		if cum >= half {
			return e.ts
		}
	}
	return nil
}

// (timestamp, power) of the commit's non-absent votes of known validators — input of the oracle
func wtHint(st sm.State, c commitT) string {
	var out []string
	if st.LastValidators == nil {
		return "-"
	}
	for _, s := range c.Sigs {
		if s.Flag == 1 {
			continue
		}
		if _, v := st.LastValidators.GetByAddress(s.Addr); v != nil {
			out = append(out, fmt.Sprintf("%s:%d", s.TS, v.VotingPower))
		}
	}
	if len(out) == 0 {
		return "-"
	}
	return strings.Join(out, ";")
}

// ---------------------------------------------------------------- oracle (the property itself)

func outKV(s string) map[string]string {
	m := map[string]string{}
	for _, t := range strings.Fields(s) {
		if i := strings.IndexByte(t, '='); i > 0 {
			m[t[:i]] = t[i+1:]
		}
	}
	return m
}

func oracle(c core.Case, out []string) []core.Finding {
	var fs []core.Finding
	var ih, lbt string // of the state the node currently holds (from its own printed state)
	for i, op := range c.Ops {
		if i >= len(out) {
			break
		}
		m := kvs(op)
		o := outKV(out[i])
		kind := strings.Fields(op)[0]
		if (kind == "block" || kind == "make") && o["v"] == "ok" && ih != "" && m["h"] != "" {
			// an accepted block above the initial height: time strictly after the previous block's
			// and equal to the weighted median of its last commit
			bt := m["t"]
			if kind == "make" {
				bt = o["t"]
			}
			h, _ := new(big.Int).SetString(m["h"], 10)
			i0, _ := new(big.Int).SetString(ih, 10)
			t, ok1 := new(big.Int).SetString(bt, 10)
			l, ok2 := new(big.Int).SetString(lbt, 10)
			if h != nil && i0 != nil && ok1 && ok2 && h.Cmp(i0) > 0 {
				if t.Cmp(l) <= 0 {
					fs = append(fs, core.Finding{Fingerprint: "ValidateBlock.accepts.time-not-after-last-block",
						Desc: fmt.Sprintf("an accepted block at height %s carries time %s, not later than the previous block's time %s", m["h"], bt, lbt)})
				}
				if w := parseWT(m["wt"]); m["wt"] != "" {
					if rm := refMedian(w); rm == nil || rm.Cmp(t) != 0 {
						fs = append(fs, core.Finding{Fingerprint: "ValidateBlock.accepts.time-not-weighted-median",
							Desc: fmt.Sprintf("an accepted block at height %s carries time %s, the weighted median of its last commit is %v", m["h"], bt, rm)})
					}
				}
			}
		}
		if o["rc"] != "" && o["rc"] != "same" {
			fs = append(fs, core.Finding{Fingerprint: "ValidateBlock.sync-node-disagrees." + m["pert"], Desc: "a node that applied the chain without validating proposals judges the block differently: " + o["v"] + " vs " + o["rc"]})
		}
		if o["rb"] != "" && o["rb"] != "same" {
			fs = append(fs, core.Finding{Fingerprint: "ValidateBlock.replicas-disagree", Desc: "replica B judges replica A's block differently: A " + o["v"] + ", B " + o["rb"]})
		}
		if strings.HasPrefix(out[i], "st ") || strings.Contains(out[i], " st vb=") {
			if o["ih"] != "" && o["lbt"] != "" {
				ih, lbt = o["ih"], o["lbt"]
			}
		}
		if strings.HasPrefix(out[i], "panic:") {
			fs = append(fs, core.Finding{Fingerprint: kind + ".panic", Desc: "the code under test panicked on op " + trunc(op, 200) + ": " + out[i]})
			continue
		}
		switch kind {
		case "block", "make", "create":
			v, has := o["v"]
			if !has {
				break
			}
			switch m["expect"] {
			case "ok":
				if v != "ok" {
					fp := fmt.Sprintf("%s.rejected.%s.%s", opName(kind), m["scn"], v)
					if m["scn"] == "byz-time" && v == "e-time-not-after" && m["totw"] != "" && 2*atoi(m["byzw"])+1 == atoi(m["totw"]) {
						// the early stampers hold exactly floor(T/2) of the commit's power T = 2F+1
						fp = "MedianTime.floor-half-selects-minority-timestamp"
					}
					fs = append(fs, core.Finding{Fingerprint: fp, Desc: fmt.Sprintf("a block that the property requires to be accepted (%s, scenario %s) is rejected with %s", kind, m["scn"], v)})
				}
			case "reject":
				if v == "ok" {
					fp := fmt.Sprintf("ValidateBlock.accepts.%s", m["pert"])
					fs = append(fs, core.Finding{Fingerprint: fp, Desc: fmt.Sprintf("an otherwise valid block with the single perturbation %q is accepted", m["pert"])})
				}
			}
			if kind == "create" && o["fits"] == "false" && m["budget"] != "exempt" {
				fp := "CreateProposalBlock.block-exceeds-MaxBytes." + m["scn"]
				fs = append(fs, core.Finding{Fingerprint: fp, Desc: fmt.Sprintf("CreateProposalBlock built a block of %s bytes although MaxDataBytes(%s) did not panic (scenario %s)", o["size"], o["maxdata"], m["scn"])})
			}
		case "votetime":
			// BFT time: a correct validator's vote is stamped later than the block it can be for - the
			// block it is locked on, else the round's proposal
			if m["locked"] != "nil" && o["gtlocked"] == "false" {
				fs = append(fs, core.Finding{Fingerprint: "voteTime.not-after-locked-block", Desc: "a validator locked on a block stamps its vote not later than that block's time (locked " + m["locked"] + "ns, proposal " + m["prop"] + "ns from now): " + out[i]})
			}
			if m["locked"] == "nil" && m["prop"] != "nil" && o["gtprop"] == "false" {
				fs = append(fs, core.Finding{Fingerprint: "voteTime.not-after-proposal-block", Desc: "a validator stamps its vote for the proposal not later than the proposal's time: " + out[i]})
			}
		case "addev":
			if m["expect"] == "ok" && out[i] != "ok" {
				fs = append(fs, core.Finding{Fingerprint: "AddEvidence.rejects.genuine", Desc: "the pool refused genuine, fresh, new duplicate-vote evidence: " + out[i]})
			}
			if m["expect"] == "err" && out[i] == "ok" {
				fs = append(fs, core.Finding{Fingerprint: "AddEvidence.accepts." + m["variant"], Desc: "the pool accepted evidence that is " + m["variant"]})
			}
		case "apply":
			if d, ok := o["det"]; ok && d != "same" {
				fs = append(fs, core.Finding{Fingerprint: "ApplyBlock.replicas-diverge." + d, Desc: "two replicas applying the same block to the same state disagree: " + d})
			}
			if strings.HasPrefix(out[i], "det=DIFF") {
				fs = append(fs, core.Finding{Fingerprint: "ApplyBlock.replicas-diverge.error", Desc: out[i]})
			}
			if m["expect"] == "ok" && !strings.HasPrefix(out[i], "ok") {
				fs = append(fs, core.Finding{Fingerprint: "ApplyBlock.rejected." + strings.SplitN(out[i], " ", 2)[0], Desc: "a valid block with valid application responses was not applied: " + out[i]})
			}
		}
	}
	return fs
}

func opName(kind string) string {
	switch kind {
	case "make":
		return "MakeBlock"
	case "create":
		return "CreateProposalBlock"
	}
	return "ValidateBlock"
}

func trunc(s string, n int) string {
	if len(s) > n {
		return s[:n]
	}
	return s
}

// ---------------------------------------------------------------- generator

var (
	histMu   sync.Mutex
	pertHist = map[string]int{}
	scnHist  = map[string]int{}
	verdHist = map[string]int{}
)

type gen struct {
	r      *rand.Rand
	id     int
	keys   map[string]ed25519.PrivKey // by address
	allKey []ed25519.PrivKey
	rep    *replica
	ops    []string
	nkey   int
	hist      []histE           // applied blocks: height, header time, validator set of that height
	committed map[string]bool   // evidence (inner bytes) committed in applied blocks
	commitEv  []evT
}

type histE struct {
	h    int64
	t    time.Time
	vals *types.ValidatorSet
}

func (g *gen) newKey() ed25519.PrivKey {
	g.nkey++
	k := ed25519.GenPrivKeyFromSecret([]byte(fmt.Sprintf("c06-%d-%d", g.id, g.nkey)))
	g.keys[string(k.PubKey().Address())] = k
	g.allKey = append(g.allKey, k)
	return k
}

func (g *gen) rbytes(n int) []byte {
	b := make([]byte, n)
	for i := range b {
		b[i] = byte(g.r.Intn(256))
	}
	return b
}

func (g *gen) emit(op string) { g.ops = append(g.ops, op) }

// signed precommit of validator idx of vs
func (g *gen) signSig(chainID string, vs *types.ValidatorSet, idx int, height int64, round int32, bid types.BlockID, ts time.Time, flag types.BlockIDFlag) types.CommitSig {
	v := vs.Validators[idx]
	vote := &types.Vote{Type: tmproto.PrecommitType, Height: height, Round: round, Timestamp: ts, ValidatorAddress: v.Address, ValidatorIndex: int32(idx)}
	if flag == types.BlockIDFlagCommit {
		vote.BlockID = bid
	}
	sb := types.VoteSignBytes(chainID, vote.ToProto())
	sig, err := g.keys[string(v.Address)].Sign(sb)
	if err != nil {
		panic(err)
	}
	return types.CommitSig{BlockIDFlag: flag, ValidatorAddress: v.Address, Timestamp: ts, Signature: sig}
}

// commitFor builds the last commit a proposer at the next height would hold.
// scn "honest": every timestamp is later than the last block time, > 2/3 power for the block.
// scn "byz-time": validators holding < 1/3 of the power stamp arbitrary (early) times.
func (g *gen) commitFor(st sm.State, scn string) *types.Commit {
	c, _, _ := g.commitForW(st, scn)
	return c
}

// also returns the voting power of the included early-stamping validators and of all included ones
func (g *gen) commitForW(st sm.State, scn string) (*types.Commit, int64, int64) {
	r := g.r
	if st.LastBlockHeight == 0 {
		return types.NewCommit(0, 0, types.BlockID{}, nil), 0, 0
	}
	vs := st.LastValidators
	n := len(vs.Validators)
	total := vs.TotalVotingPower()
	round := int32(r.Intn(3))
	base := st.LastBlockTime
	sigs := make([]types.CommitSig, n)
	// choose the byzantine set (power < 1/3) for byz-time
	byz := map[int]bool{}
	if scn == "byz-time" {
		var bp int64
		for _, i := range r.Perm(n) {
			if 3*(bp+vs.Validators[i].VotingPower) < total {
				byz[i] = true
				bp += vs.Validators[i].VotingPower
			}
		}
	}
	// choose absent / nil voters among the correct ones while keeping > 2/3 for the block
	forBlock := total
	flags := make([]types.BlockIDFlag, n)
	for i := range flags {
		flags[i] = types.BlockIDFlagCommit
	}
	order := r.Perm(n)
	if scn == "byz-time" {
		// drop as many correct validators as the threshold allows (the minimal commit is the hard case)
		for _, i := range order {
			p := vs.Validators[i].VotingPower
			if !byz[i] && (forBlock-p) > total*2/3 && r.Intn(4) != 0 {
				flags[i] = types.BlockIDFlagAbsent
				forBlock -= p
			}
		}
	} else {
		for _, i := range order {
			p := vs.Validators[i].VotingPower
			if (forBlock-p) > total*2/3 && r.Intn(3) == 0 {
				if r.Intn(3) == 0 {
					flags[i] = types.BlockIDFlagNil
				} else {
					flags[i] = types.BlockIDFlagAbsent
				}
				forBlock -= p
			}
		}
	}
	staleEarlier, staleLate := r.Intn(3) == 0, -1
	if r.Intn(3) == 0 {
		staleLate = r.Intn(n)
	}
	for i := 0; i < n; i++ {
		if flags[i] == types.BlockIDFlagAbsent {
			sigs[i] = types.NewCommitSigAbsent()
			continue
		}
		ts := base.Add(time.Duration(1+r.Intn(5)) * time.Duration([]int64{1, 1000, 1000000, 1000000000}[r.Intn(4)]))
		if scn == "stale-time" { // correctly signed votes that do not advance the clock
			ts = base
			if staleEarlier {
				ts = base.Add(-time.Duration(r.Intn(3)) * time.Millisecond)
			} else if i == staleLate {
				ts = base.Add(time.Second)
			}
		}
		if byz[i] {
			switch r.Intn(3) {
			case 0:
				ts = base
			case 1:
				ts = base.Add(-time.Duration(1+r.Intn(1000)) * time.Millisecond)
			default:
				ts = base.Add(time.Duration(r.Intn(3)) * time.Nanosecond)
			}
		}
		sigs[i] = g.signSig(st.ChainID, vs, i, st.LastBlockHeight, round, st.LastBlockID, ts, flags[i])
	}
	var byzw, totw int64
	for i := 0; i < n; i++ {
		if flags[i] != types.BlockIDFlagAbsent {
			totw += vs.Validators[i].VotingPower
			if byz[i] {
				byzw += vs.Validators[i].VotingPower
			}
		}
	}
	return types.NewCommit(st.LastBlockHeight, round, st.LastBlockID, sigs), byzw, totw
}

var evVariants = []string{"wrong-time", "wrong-power", "wrong-total", "non-validator", "future-height", "bad-sig", "round-mismatch"}

func (g *gen) histAt(h int64) *histE {
	for i := range g.hist {
		if g.hist[i].h == h {
			return &g.hist[i]
		}
	}
	return nil
}

// has the evidence expired for a node whose latest state is st (both limits exceeded)
func expiredFor(st sm.State, h int64, t time.Time) bool {
	return st.LastBlockHeight-h > st.ConsensusParams.Evidence.MaxAgeNumBlocks &&
		st.LastBlockTime.Sub(t) > st.ConsensusParams.Evidence.MaxAgeDuration
}

func voteTok(v *types.Vote, ok bool) string {
	var bid uint64
	for i := 0; i < 7 && i < len(v.BlockID.Hash); i++ {
		bid = bid<<8 | uint64(v.BlockID.Hash[i])
	}
	sg := "bad"
	if ok {
		sg = "ok"
	}
	pre := v.Signature
	if len(pre) > 6 {
		pre = pre[:6]
	}
	return fmt.Sprintf("%d/%d/%d/%s/%d/%s/%d/%s%s", v.Height, v.Round, int(v.Type), hex.EncodeToString(v.ValidatorAddress), bid,
		nanos(v.Timestamp), v.ValidatorIndex, sg, hex.EncodeToString(pre))
}

// the evidence item for the op line, with its reading in C11's terms: the signature tokens say
// whether the real ed25519 accepts the vote under the key of the validator with that address at the
// evidence height (what VerifyDuplicateVote checks)
func (g *gen) evTok(chainID string, d *types.DuplicateVoteEvidence) evT {
	x := opEv(d)
	ok := func(v *types.Vote) bool {
		e := g.histAt(v.Height)
		if e == nil {
			return false
		}
		_, val := e.vals.GetByAddress(v.ValidatorAddress)
		return val != nil && val.PubKey.VerifySignature(types.VoteSignBytes(chainID, v.ToProto()), v.Signature)
	}
	x.DVT = fmt.Sprintf("%s~%s~%d~%d~%s", voteTok(d.VoteA, ok(d.VoteA)), voteTok(d.VoteB, ok(d.VoteB)), d.TotalVotingPower, d.ValidatorPower, nanos(d.Timestamp))
	return x
}

// duplicate-vote evidence against a validator of an applied height; variant "genuine" is what a
// correct node would form (not expired for st), the others break exactly one thing
func (g *gen) mkDVE(st sm.State, variant string) (evT, bool) {
	r := g.r
	var e histE
	switch variant {
	case "future-height":
		e = histE{h: st.LastBlockHeight + int64(2+r.Intn(3)), t: st.LastBlockTime.Add(time.Second), vals: st.Validators}
	case "expired":
		var c []histE
		for _, x := range g.hist {
			if expiredFor(st, x.h, x.t) {
				c = append(c, x)
			}
		}
		if len(c) == 0 {
			return evT{}, false
		}
		e = c[r.Intn(len(c))]
	default:
		var c []histE
		for _, x := range g.hist {
			if !expiredFor(st, x.h, x.t) {
				c = append(c, x)
			}
		}
		if len(c) == 0 {
			return evT{}, false
		}
		e = c[r.Intn(len(c))]
	}
	vi := r.Intn(len(e.vals.Validators))
	val := e.vals.Validators[vi]
	k, have := g.keys[string(val.Address)]
	if !have {
		return evT{}, false
	}
	addr := val.Address
	vp, tvp := val.VotingPower, e.vals.TotalVotingPower()
	if variant == "non-validator" {
		k = g.newKey()
		addr = k.PubKey().Address()
		vp = int64(1 + r.Intn(9))
	}
	chain := st.ChainID
	if variant == "bad-sig" {
		chain += "-other"
	}
	typ := []tmproto.SignedMsgType{tmproto.PrevoteType, tmproto.PrecommitType}[r.Intn(2)]
	round := int32(r.Intn(3))
	mk := func(round int32) *types.Vote {
		bid := types.BlockID{Hash: g.rbytes(32), PartSetHeader: types.PartSetHeader{Total: uint32(1 + r.Intn(5)), Hash: g.rbytes(32)}}
		v := &types.Vote{Type: typ, Height: e.h, Round: round, BlockID: bid, Timestamp: e.t.Add(time.Duration(r.Intn(1000))), ValidatorAddress: addr, ValidatorIndex: int32(vi)}
		sig, _ := k.Sign(types.VoteSignBytes(chain, v.ToProto()))
		v.Signature = sig
		return v
	}
	rb := round
	if variant == "round-mismatch" {
		rb++
	}
	a, b := mk(round), mk(rb)
	if strings.Compare(a.BlockID.Key(), b.BlockID.Key()) >= 0 {
		a, b = b, a
	}
	ts := e.t
	switch variant {
	case "wrong-time":
		ts = ts.Add(time.Second)
	case "wrong-power":
		vp++
	case "wrong-total":
		tvp++
	}
	d := &types.DuplicateVoteEvidence{VoteA: a, VoteB: b, TotalVotingPower: tvp, ValidatorPower: vp, Timestamp: ts}
	return g.evTok(st.ChainID, d), true
}

// re-attach the structured reading to evidence items that went through the real block
func (g *gen) retok(st sm.State, evs []evT) []evT {
	out := make([]evT, len(evs))
	for i, x := range evs {
		out[i] = g.evTok(st.ChainID, realEv(x).(*types.DuplicateVoteEvidence))
		out[i].Basic = x.Basic
	}
	return out
}

// per slot of the commit: does the real ed25519 accept the signature under the validator at that
// position of LastValidators over the canonical vote of the slot (what VerifyCommit checks)
func sigokHint(st sm.State, b blkT) string {
	if b.LC.Nil || len(b.LC.Sigs) == 0 || st.LastValidators == nil {
		return "."
	}
	c := realCommit(b.LC)
	out := make([]byte, len(c.Signatures))
	for i := range c.Signatures {
		out[i] = '-'
		if c.Signatures[i].Absent() || i >= len(st.LastValidators.Validators) {
			continue
		}
		func() {
			defer func() {
				if r := recover(); r != nil {
					out[i] = '0'
				}
			}()
			if st.LastValidators.Validators[i].PubKey.VerifySignature(c.VoteSignBytes(st.ChainID, int32(i)), c.Signatures[i].Signature) {
				out[i] = '1'
			} else {
				out[i] = '0'
			}
		}()
	}
	return string(out)
}

func flip(b []byte, r *rand.Rand) []byte {
	c := append([]byte{}, b...)
	if len(c) == 0 {
		return []byte{1}
	}
	c[r.Intn(len(c))] ^= 1 << uint(r.Intn(8))
	return c
}

type pert struct {
	name   string
	expect string // reject | ok | any
	b      blkT
}

// perturbations of an otherwise valid block: every header field one at a time, then the contents
func (g *gen) perturbations(st sm.State, b blkT) []pert {
	r := g.r
	var ps []pert
	add := func(name, expect string, f func(x *blkT)) {
		x := b
		x.Txs = append([][]byte{}, b.Txs...)
		x.Ev = append([]evT{}, b.Ev...)
		x.LC.Sigs = append([]sigT{}, b.LC.Sigs...)
		f(&x)
		ps = append(ps, pert{name, expect, x})
	}
	initial := b.H == st.InitialHeight
	// --- header fields
	add("version.block", "reject", func(x *blkT) { x.VB += uint64(1 + r.Intn(2)) })
	add("version.block-", "reject", func(x *blkT) { x.VB-- })
	add("version.app", "reject", func(x *blkT) { x.VA += uint64(1 + r.Intn(3)) })
	add("chainid.append", "reject", func(x *blkT) { x.Chain += "x" })
	add("chainid.other", "reject", func(x *blkT) { x.Chain = "other-chain" })
	add("chainid.long", "reject", func(x *blkT) { x.Chain = strings.Repeat("c", 51) })
	add("height+", "reject", func(x *blkT) { x.H += int64(1 + r.Intn(3)) })
	add("height-", "reject", func(x *blkT) { x.H-- })
	add("height.zero", "reject", func(x *blkT) { x.H = 0 })
	add("height.neg", "reject", func(x *blkT) { x.H = -x.H })
	add("time+1ns", "reject", func(x *blkT) { x.T = nanos(fromNanos(x.T).Add(1)) })
	add("time-1ns", "reject", func(x *blkT) { x.T = nanos(fromNanos(x.T).Add(-1)) })
	add("time+1s", "reject", func(x *blkT) { x.T = nanos(fromNanos(x.T).Add(time.Second)) })
	add("time.zero", "reject", func(x *blkT) { x.T = nanos(time.Time{}) })
	if !initial {
		add("time.lastblocktime", "reject", func(x *blkT) { x.T = nanos(st.LastBlockTime) })
	}
	add("lastblockid.hash", "reject", func(x *blkT) { x.LBID.Hash = flip(x.LBID.Hash, r) })
	add("lastblockid.total", "reject", func(x *blkT) { x.LBID.PartSetHeader.Total++ })
	add("lastblockid.pshash", "reject", func(x *blkT) { x.LBID.PartSetHeader.Hash = flip(x.LBID.PartSetHeader.Hash, r) })
	if !initial {
		add("lastblockid.zero", "reject", func(x *blkT) { x.LBID = types.BlockID{} })
		add("lastblockid.hash.short", "reject", func(x *blkT) { x.LBID.Hash = x.LBID.Hash[:31] })
	}
	hashField := func(name string, get func(x *blkT) *[]byte) {
		add(name+".flip", "reject", func(x *blkT) { p := get(x); *p = flip(*p, r) })
		if len(*get(&b)) > 0 {
			add(name+".empty", "reject", func(x *blkT) { p := get(x); *p = nil })
			add(name+".short", "reject", func(x *blkT) { p := get(x); *p = (*p)[:len(*p)-1] })
		}
		add(name+".long", "reject", func(x *blkT) { p := get(x); *p = append(append([]byte{}, *p...), 0) })
	}
	hashField("lastcommithash", func(x *blkT) *[]byte { return &x.LCH })
	hashField("datahash", func(x *blkT) *[]byte { return &x.DH })
	hashField("validatorshash", func(x *blkT) *[]byte { return &x.VH })
	hashField("nextvalidatorshash", func(x *blkT) *[]byte { return &x.NVH })
	hashField("consensushash", func(x *blkT) *[]byte { return &x.CH })
	hashField("apphash", func(x *blkT) *[]byte { return &x.AppH })
	hashField("lastresultshash", func(x *blkT) *[]byte { return &x.LRH })
	hashField("evidencehash", func(x *blkT) *[]byte { return &x.EH })
	add("proposer.unknown", "reject", func(x *blkT) { x.Prop = g.rbytes(20) })
	add("proposer.short", "reject", func(x *blkT) { x.Prop = x.Prop[:19] })
	add("proposer.empty", "reject", func(x *blkT) { x.Prop = nil })
	if len(st.Validators.Validators) > 1 {
		add("free:proposer.other-validator", "ok", func(x *blkT) {
			for {
				v := st.Validators.Validators[r.Intn(len(st.Validators.Validators))]
				if !bytes.Equal(v.Address, x.Prop) {
					x.Prop = v.Address
					return
				}
			}
		})
	}
	// --- contents with the header left alone
	add("txs.add", "reject", func(x *blkT) { x.Txs = append(x.Txs, g.rbytes(1+r.Intn(3))) })
	if len(b.Txs) > 0 {
		add("txs.remove", "reject", func(x *blkT) { x.Txs = x.Txs[:len(x.Txs)-1] })
		add("txs.modify", "reject", func(x *blkT) { i := r.Intn(len(x.Txs)); x.Txs[i] = flip(x.Txs[i], r) })
	}
	if len(b.Txs) > 1 && !bytes.Equal(b.Txs[0], b.Txs[1]) {
		add("txs.swap", "reject", func(x *blkT) { x.Txs[0], x.Txs[1] = x.Txs[1], x.Txs[0] })
	}
	anyEv := func() (evT, bool) {
		if e, ok := g.mkDVE(st, "genuine"); ok {
			return e, true
		}
		return g.mkDVE(st, "future-height")
	}
	if e, ok := anyEv(); ok {
		add("evidence.add", "reject", func(x *blkT) { x.Ev = append(x.Ev, e) })
	}
	if len(b.Ev) > 0 {
		add("evidence.remove", "reject", func(x *blkT) { x.Ev = x.Ev[:len(x.Ev)-1] })
	}
	add("lastcommit.nil", "reject", func(x *blkT) { x.LC = commitT{Nil: true} })
	if initial {
		// Commit.Hash covers only the signatures: round / block id of the empty first commit are free
		add("free:lastcommit.round(initial)", "any", func(x *blkT) { x.LC.Round++ })
		add("lastcommit.height(initial)", "any", func(x *blkT) { x.LC.Height = 1 + int64(r.Intn(3)) })
	} else {
		add("lastcommit.round", "reject", func(x *blkT) { x.LC.Round++ })
		add("lastcommit.height", "reject", func(x *blkT) { x.LC.Height++ })
		add("lastcommit.blockid.hash", "reject", func(x *blkT) { x.LC.BID.Hash = flip(x.LC.BID.Hash, r) })
		add("lastcommit.blockid.total", "reject", func(x *blkT) { x.LC.BID.PartSetHeader.Total++ })
		if n := len(b.LC.Sigs); n > 0 {
			i := r.Intn(n)
			for k := 0; k < n && b.LC.Sigs[i].Flag == 1; k++ {
				i = (i + 1) % n
			}
			if b.LC.Sigs[i].Flag != 1 {
				add("lastcommit.sig.timestamp", "reject", func(x *blkT) { x.LC.Sigs[i].TS = nanos(fromNanos(x.LC.Sigs[i].TS).Add(1)) })
				add("lastcommit.sig.signature", "reject", func(x *blkT) { x.LC.Sigs[i].Sig = flip(x.LC.Sigs[i].Sig, r) })
				add("lastcommit.sig.address", "reject", func(x *blkT) { x.LC.Sigs[i].Addr = flip(x.LC.Sigs[i].Addr, r) })
				add("lastcommit.sig.flag", "reject", func(x *blkT) { x.LC.Sigs[i].Flag = 5 - x.LC.Sigs[i].Flag })
				add("lastcommit.sig.absent", "reject", func(x *blkT) { x.LC.Sigs[i] = sigT{Flag: 1, TS: nanos(time.Time{})} })
				// the dependent hash recomputed: the forged signature itself must be caught
				add("lastcommit.sig.timestamp+hash", "reject", func(x *blkT) {
					x.LC.Sigs[i].TS = nanos(fromNanos(x.LC.Sigs[i].TS).Add(1))
					x.LCH = realCommit(x.LC).Hash()
				})
				add("lastcommit.sig.signature+hash", "reject", func(x *blkT) {
					x.LC.Sigs[i].Sig = flip(x.LC.Sigs[i].Sig, r)
					x.LCH = realCommit(x.LC).Hash()
				})
			}
			add("lastcommit.sig.drop", "reject", func(x *blkT) { x.LC.Sigs = x.LC.Sigs[:n-1] })
			add("lastcommit.sig.extra", "reject", func(x *blkT) { x.LC.Sigs = append(x.LC.Sigs, x.LC.Sigs[0]) })
		}
	}
	// --- malformed commits with the dependent hash recomputed (Commit/CommitSig.ValidateBasic)
	rehash := func(x *blkT) { x.LCH = realCommit(x.LC).Hash() }
	if initial {
		add("lastcommit.sigs(initial)+hash", "reject", func(x *blkT) {
			x.LC.Sigs = append(x.LC.Sigs, sigT{Flag: 2, Addr: g.rbytes(20), TS: nanos(st.LastBlockTime.Add(time.Second)), Sig: g.rbytes(64)})
			rehash(x)
		})
	} else {
		add("lastcommit.round.negative", "reject", func(x *blkT) { x.LC.Round = -1 })
		add("lastcommit.height.negative", "reject", func(x *blkT) { x.LC.Height = -x.LC.Height })
		add("lastcommit.blockid.zero", "reject", func(x *blkT) { x.LC.BID = types.BlockID{} })
		if n := len(b.LC.Sigs); n > 0 {
			j := r.Intn(n)
			for k := 0; k < n && b.LC.Sigs[j].Flag == 1; k++ {
				j = (j + 1) % n
			}
			if b.LC.Sigs[j].Flag != 1 {
				add("lastcommit.sig.drop+hash", "reject", func(x *blkT) { x.LC.Sigs = x.LC.Sigs[:n-1]; rehash(x) })
				add("lastcommit.sig.extra+hash", "reject", func(x *blkT) { x.LC.Sigs = append(x.LC.Sigs, x.LC.Sigs[j]); rehash(x) })
				add("lastcommit.all-absent+hash", "reject", func(x *blkT) {
					for k := range x.LC.Sigs {
						x.LC.Sigs[k] = sigT{Flag: 1, TS: nanos(time.Time{})}
					}
					rehash(x)
				})
				add("lastcommit.sig.toolong+hash", "reject", func(x *blkT) { x.LC.Sigs[j].Sig = append(append([]byte{}, x.LC.Sigs[j].Sig...), 7); rehash(x) })
				add("lastcommit.sig.empty+hash", "reject", func(x *blkT) { x.LC.Sigs[j].Sig = nil; rehash(x) })
				add("lastcommit.sig.addr-short+hash", "reject", func(x *blkT) { x.LC.Sigs[j].Addr = x.LC.Sigs[j].Addr[:19]; rehash(x) })
				add("lastcommit.sig.flag-unknown+hash", "reject", func(x *blkT) { x.LC.Sigs[j].Flag = []int{0, 4, 255}[r.Intn(3)]; rehash(x) })
				add("lastcommit.sig.absent-with-addr+hash", "reject", func(x *blkT) {
					x.LC.Sigs[j] = sigT{Flag: 1, Addr: x.LC.Sigs[j].Addr, TS: nanos(time.Time{})}
					rehash(x)
				})
				add("lastcommit.sig.absent-with-time+hash", "reject", func(x *blkT) {
					x.LC.Sigs[j] = sigT{Flag: 1, TS: x.LC.Sigs[j].TS}
					rehash(x)
				})
				add("lastcommit.sig.absent-with-sig+hash", "reject", func(x *blkT) {
					x.LC.Sigs[j] = sigT{Flag: 1, TS: nanos(time.Time{}), Sig: x.LC.Sigs[j].Sig}
					rehash(x)
				})
			}
		}
	}
	// --- evidence with the dependent hash recomputed
	evHash := func(x *blkT) { ed := types.EvidenceData{Evidence: realEvs(x.Ev)}; x.EH = ed.Hash() }
	if e, ok := g.mkDVE(st, "genuine"); ok {
		// a genuine, fresh, new item: admissible, so only the size limit can refuse it
		add("free:evidence.genuine+hash", "size", func(x *blkT) { x.Ev = append(x.Ev, e); evHash(x) })
		add("evidence.duplicate+hash", "reject", func(x *blkT) { x.Ev = append(x.Ev, e, e); evHash(x) })
		add("evidence.invalid-basic+hash", "reject", func(x *blkT) {
			d := realEv(e).(*types.DuplicateVoteEvidence)
			d.VoteA, d.VoteB = d.VoteB, d.VoteA
			x.Ev = append(x.Ev, g.evTok(st.ChainID, d))
			evHash(x)
		})
	}
	for _, v := range append([]string{"expired"}, evVariants...) {
		if e, ok := g.mkDVE(st, v); ok {
			add("evidence."+v+"+hash", "reject", func(x *blkT) { x.Ev = append(x.Ev, e); evHash(x) })
		}
	}
	if len(g.commitEv) > 0 {
		e := g.commitEv[r.Intn(len(g.commitEv))]
		add("evidence.committed+hash", "reject", func(x *blkT) { x.Ev = append(x.Ev, e); evHash(x) })
	}
	// --- free choices with the dependent hash recomputed: must stay valid
	add("free:txs+datahash", "ok", func(x *blkT) {
		x.Txs = append(x.Txs, g.rbytes(1+r.Intn(3)))
		var txs types.Txs
		for _, t := range x.Txs {
			txs = append(txs, t)
		}
		x.DH = txs.Hash()
	})
	return ps
}

func (g *gen) blockOp(st sm.State, b blkT, extra string) string {
	return "block " + b.toks() + " sigok=" + sigokHint(st, b) + " wt=" + wtHint(st, b.LC) + extra
}

func (g *gen) txs(n int) [][]byte {
	out := make([][]byte, n)
	for i := range out {
		out[i] = g.rbytes(1 + g.r.Intn(4))
	}
	return out
}

// one chain
func (g *gen) chain(tier string, kind string) core.Case {
	r := g.r
	nv := 1 + r.Intn(6)
	if r.Intn(8) == 0 {
		nv = 7 + r.Intn(8)
	}
	if kind == "byztime" {
		nv = []int{4, 4, 7, 4 + r.Intn(6)}[r.Intn(4)]
	}
	if kind == "budget" {
		nv = 5 + r.Intn(9)
	}
	if kind == "wide" { // commit sizes across the 2-byte/3-byte length-prefix boundary (147 signatures)
		nv = 130 + r.Intn(40)
	}
	var gvs []string
	equalPower := kind == "byztime" && r.Intn(3) != 0
	for i := 0; i < nv; i++ {
		k := g.newKey()
		p := int64(1 + r.Intn(20))
		if equalPower {
			p = 1
		}
		gvs = append(gvs, fmt.Sprintf("%s:%d:0", hex.EncodeToString(k.PubKey().Bytes()), p))
	}
	chain := []string{"c", "test-chain", "chain-" + strconv.Itoa(r.Intn(1000)), strings.Repeat("z", 50)}[r.Intn(4)]
	ih := int64(1)
	switch r.Intn(6) {
	case 0:
		ih = int64(2 + r.Intn(1000))
	case 1:
		ih = int64(1) << uint(7*(1+r.Intn(8))) // varint length boundaries
	}
	gt := time.Unix(1500000000+int64(r.Intn(400000000)), int64(r.Intn(3))*int64(r.Intn(1000000000))).UTC()
	p := *types.DefaultConsensusParams()
	small := kind == "budget" || (kind != "wide" && r.Intn(4) == 0)
	if small {
		p.Block.MaxBytes = int64(900 + 111*nv + r.Intn(3000))
		p.Evidence.MaxBytes = int64(r.Intn(int(p.Block.MaxBytes / 2)))
	}
	if r.Intn(3) == 0 && kind != "extreme" {
		// evidence expires quickly on this chain
		p.Evidence.MaxAgeNumBlocks = int64(1 + r.Intn(3))
		p.Evidence.MaxAgeDuration = time.Duration(1 + r.Intn(1000))
	}
	va := uint64(0)
	if r.Intn(4) == 0 {
		va = uint64(r.Intn(300))
	}
	apph := [][]byte{nil, g.rbytes(8), g.rbytes(32), g.rbytes(32)}[r.Intn(4)]
	// genesis through the real code (the op line is re-parsed by Exec the same way)
	m := map[string]string{"chain": hx([]byte(chain)), "ih": fmt.Sprint(ih), "lbt": nanos(gt), "vals": strings.Join(gvs, ","),
		"params": showParams(p), "apph": hx(apph), "va": fmt.Sprint(va)}
	st, err := genesisFromToks(m)
	if err != nil {
		panic(err)
	}
	g.rep = newReplica()
	g.rep.boot(st)
	g.emit("state " + stateToks(st, true))

	heights := 5 + r.Intn(6)
	if tier == "thorough" {
		heights = 5 + r.Intn(36)
	}
	tainted := false
	exp := func(e string) string {
		if tainted {
			return "any"
		}
		return e
	}
	pertAt := r.Intn(heights)
	pertAt2 := -1
	if r.Intn(2) == 0 {
		pertAt2 = r.Intn(heights)
	}
	if kind == "wide" {
		heights, pertAt, pertAt2 = 3, -1, -1
	}
	for hi := 0; hi < heights; hi++ {
		st = g.rep.state
		h := st.LastBlockHeight + 1
		if st.LastBlockHeight == 0 {
			h = st.InitialHeight
		}
		scn := "honest"
		if kind == "byztime" && st.LastBlockHeight > 0 && r.Intn(2) == 0 {
			scn = "byz-time"
		}
		if scn == "honest" && st.LastBlockHeight > 0 && kind != "wide" && r.Intn(8) == 0 {
			scn = "stale-time"
		}
		histMu.Lock()
		scnHist[scn]++
		histMu.Unlock()
		commit, byzw, totw := g.commitForW(st, scn)
		lc := opCommit(commit)
		mkExpect, mkPert := "ok", ""
		if scn == "stale-time" {
			// the property: the block time is the weighted median AND later than the previous block
			l, _ := new(big.Int).SetString(nanos(st.LastBlockTime), 10)
			if rm := refMedian(parseWT(wtHint(st, lc))); rm != nil && rm.Cmp(l) <= 0 {
				mkExpect, mkPert = "reject", " pert=time.median-not-after-last-block"
			}
		}
		prop := st.Validators.Validators[r.Intn(len(st.Validators.Validators))].Address
		var evs []evT
		if kind != "hostile" && kind != "wide" {
			for k := r.Intn(3); k > 0 && r.Intn(2) == 0; k-- {
				if e, ok := g.mkDVE(st, "genuine"); ok {
					evs = append(evs, e)
				}
			}
			// evidence reaching the pool from peers: genuine items become pending (and are proposed by
			// CreateProposalBlock), broken ones are refused
			for k := r.Intn(3); k > 0; k-- {
				v := "genuine"
				if r.Intn(2) == 0 {
					v = append([]string{"expired"}, evVariants...)[r.Intn(1+len(evVariants))]
				}
				if e, ok := g.mkDVE(st, v); ok {
					exp := "err"
					if v == "genuine" {
						exp = "ok"
					}
					g.emit(fmt.Sprintf("addev ev=%s expect=%s variant=%s", showEvs([]evT{e}), exp, v))
					_ = g.rep.evp.AddEvidence(realEv(e))
				}
			}
		}
		if len(evs) > 0 {
			ed := types.EvidenceData{Evidence: realEvs(evs)}
			if ed.ByteSize() > st.ConsensusParams.Evidence.MaxBytes {
				evs = nil
			}
		}
		txs := g.txs(r.Intn(4))
		// CreateProposalBlock with a pool that fills the budget
		if kind == "budget" || kind == "wide" || r.Intn(5) == 0 {
			var pool [][]byte
			room := st.ConsensusParams.Block.MaxBytes
			if room > 6000 {
				room = 6000
			}
			if kind == "wide" {
				room = 20000 + int64(r.Intn(20000)) // Data beyond the 2-byte length prefix
			}
			for used := int64(0); used < room; {
				l := r.Intn(200)
				if r.Intn(3) == 0 {
					l = r.Intn(8)
				}
				pool = append(pool, g.rbytes(l))
				used += int64(l) + 2
			}
			cscn := "steady"
			if len(st.LastValidators.Validators) > len(st.Validators.Validators) {
				cscn = "valset-shrunk"
			}
			budget := ""
			if len(st.AppHash) > 32 {
				budget = " budget=exempt"
			}
			g.emit(fmt.Sprintf("create h=%d pool=%s prop=%s lc=%s sigok=%s expect=%s scn=%s%s", h, hxList(pool), hx(prop),
				showCommit(lc), sigokHint(st, blkT{H: h, LC: lc}), exp(map[bool]string{true: "ok", false: "any"}[scn == "honest"]), cscn, budget))
		}
		// the proposer's block
		mk := fmt.Sprintf("make h=%d txs=%s ev=%s prop=%s lc=%s sigok=%s expect=%s scn=%s byzw=%d totw=%d wt=%s%s", h, hxList(txs), showEvs(evs), hx(prop), showCommit(lc),
			sigokHint(st, blkT{H: h, LC: lc}), exp(mkExpect), scn, byzw, totw, wtHint(st, lc), mkPert)
		g.emit(mk)
		var rtxs []types.Tx
		for _, t := range txs {
			rtxs = append(rtxs, t)
		}
		blk, parts := st.MakeBlock(h, rtxs, commit, realEvs(evs), prop)
		b := opBlock(blk)
		b.Ev = g.retok(st, b.Ev)
		valid := g.rep.exec.ValidateBlock(st, realBlock(b)) == nil
		if !valid && tainted {
			break
		}
		if valid && !tainted && (hi == pertAt || hi == pertAt2) {
			for _, p := range g.perturbations(st, b) {
				histMu.Lock()
				pertHist[p.name]++
				histMu.Unlock()
				if p.expect == "size" {
					ed := types.EvidenceData{Evidence: realEvs(p.b.Ev)}
					p.expect = map[bool]string{true: "ok", false: "reject"}[ed.ByteSize() <= st.ConsensusParams.Evidence.MaxBytes]
				}
				g.emit(g.blockOp(st, p.b, fmt.Sprintf(" pert=%s expect=%s", p.name, p.expect)))
				// the generator's own node sees the same blocks (CheckEvidence leaves verified items pending)
				func() {
					defer func() { recover() }()
					_ = g.rep.exec.ValidateBlock(st, realBlock(p.b))
				}()
			}
			g.emit(g.blockOp(st, b, " pert=free:none expect=ok"))
			_ = g.rep.exec.ValidateBlock(st, realBlock(b))
		}
		if !valid {
			// a correct proposer's block was refused (reported by the oracle at the make op): the
			// chain continues with an honest commit instead
			commit = g.commitFor(st, "honest")
			lc = opCommit(commit)
			g.emit(fmt.Sprintf("make h=%d txs=%s ev=%s prop=%s lc=%s sigok=%s expect=ok scn=honest wt=%s", h, hxList(txs), showEvs(evs), hx(prop), showCommit(lc),
				sigokHint(st, blkT{H: h, LC: lc}), wtHint(st, lc)))
			blk, parts = st.MakeBlock(h, rtxs, commit, realEvs(evs), prop)
			b = opBlock(blk)
			b.Ev = g.retok(st, b.Ev)
			_ = g.rep.exec.ValidateBlock(st, realBlock(b))
		}
		// application responses
		var sc script
		var resS []string
		for range txs {
			rs := abci.ResponseDeliverTx{Code: uint32(r.Intn(3)), Data: g.rbytes(r.Intn(3)), GasWanted: int64(r.Intn(5)), GasUsed: int64(r.Intn(5))}
			sc.Results = append(sc.Results, rs)
			resS = append(resS, fmt.Sprintf("%d:%s:%d:%d", rs.Code, hx(rs.Data), rs.GasWanted, rs.GasUsed))
		}
		var updS []string
		nvalsNow := len(st.NextValidators.Validators)
		shrink := kind == "budget" && hi == 1
		if r.Intn(3) == 0 || shrink {
			cnt := 1 + r.Intn(2)
			if shrink { // the validator set collapses to one or two members
				cnt = nvalsNow - 1 - r.Intn(2)
				if cnt < 1 {
					cnt = 1
				}
			}
			used := map[string]bool{}
			for k := 0; k < cnt; k++ {
				var pk crypto.PubKey
				var pw int64
				switch c := r.Intn(4); {
				case c == 0 && !shrink: // new validator
					pk = g.newKey().PubKey()
					pw = int64(1 + r.Intn(20))
				case (c == 1 || shrink) && nvalsNow-len(used) > 1: // removal
					v := st.NextValidators.Validators[r.Intn(nvalsNow)]
					for shrink && used[string(v.PubKey.Bytes())] {
						v = st.NextValidators.Validators[r.Intn(nvalsNow)]
					}
					pk, pw = v.PubKey, 0
				default: // power change
					v := st.NextValidators.Validators[r.Intn(nvalsNow)]
					pk, pw = v.PubKey, int64(1+r.Intn(20))
				}
				if used[string(pk.Bytes())] {
					continue
				}
				used[string(pk.Bytes())] = true
				ppk, _ := cryptoenc.PubKeyToProto(pk)
				sc.ValUpd = append(sc.ValUpd, abci.ValidatorUpdate{PubKey: ppk, Power: pw})
				updS = append(updS, fmt.Sprintf("%s:%d", hex.EncodeToString(pk.Bytes()), pw))
			}
			if r.Intn(25) == 0 && len(sc.ValUpd) > 0 { // hostile application: negative power
				sc.ValUpd[0].Power = -1
				updS[0] = updS[0][:strings.IndexByte(updS[0], ':')] + ":-1"
			}
		}
		pu := "none"
		if r.Intn(4) == 0 {
			var parts []string
			if r.Intn(2) == 0 {
				mb := st.ConsensusParams.Block.MaxBytes + int64(r.Intn(2000)) - 500
				if r.Intn(12) == 0 {
					mb = []int64{0, -1, types.MaxBlockSizeBytes + 1}[r.Intn(3)]
				}
				parts = append(parts, fmt.Sprintf("b:%d:%d", mb, int64(r.Intn(100))-1))
			}
			if r.Intn(3) == 0 {
				em := int64(r.Intn(3000))
				// the age limits stay (C11's model has them fixed per chain); only the size limit moves
				parts = append(parts, fmt.Sprintf("e:%d:%d:%d", st.ConsensusParams.Evidence.MaxAgeNumBlocks, int64(st.ConsensusParams.Evidence.MaxAgeDuration), em))
			}
			if r.Intn(4) == 0 {
				parts = append(parts, "v:"+[]string{"ed25519", "ed25519+secp256k1", "-", "bogus"}[r.Intn(4)])
			}
			if r.Intn(3) == 0 {
				parts = append(parts, fmt.Sprintf("a:%d", r.Intn(1000)))
			}
			if len(parts) == 0 {
				parts = []string{"x"}
			}
			pu = strings.Join(parts, ";")
		}
		sc.PU = parsePU(pu)
		sc.AppHash = [][]byte{nil, g.rbytes(8), g.rbytes(32), g.rbytes(32), g.rbytes(32)}[r.Intn(5)]
		bid := types.BlockID{Hash: blk.Hash(), PartSetHeader: parts.Header()}
		g.rep.app.sc = sc
		var nst sm.State
		var aerr error
		paniced := false
		func() {
			defer func() {
				if r := recover(); r != nil {
					paniced = true
				}
			}()
			rb := realBlock(b)
			undo := g.rep.bs.save(rb, bid)
			nst, _, aerr = g.rep.exec.ApplyBlock(st, bid, rb)
			if aerr != nil {
				undo()
			}
		}()
		if paniced {
			break // only under hostile state edits (the store no longer matches the state)
		}
		if aerr != nil && tainted && strings.HasPrefix(applyClass(aerr), "err-invalid:e-other") {
			// the state store refuses to save an edited state (its own consistency checks, outside
			// this model): the hostile chain ends here
			break
		}
		// C08's part, as a verdict for the model: NextValidators after the change set and one increment
		nvals := "err"
		func() {
			defer func() { recover() }()
			for _, u := range sc.ValUpd {
				if u.Power < 0 {
					return
				}
			}
			ups, err := types.PB2TM.ValidatorUpdates(sc.ValUpd)
			if err != nil {
				return
			}
			nv := st.NextValidators.Copy()
			if len(ups) > 0 {
				if err := nv.UpdateWithChangeSet(ups); err != nil {
					return
				}
			}
			nv.IncrementProposerPriority(1)
			nvals = showVals(nv, true)
		}()
		expect := "any"
		if aerr == nil {
			g.rep.state = nst
			g.hist = append(g.hist, histE{h: b.H, t: fromNanos(b.T), vals: st.Validators.Copy()})
			for _, e := range b.Ev {
				g.committed[hex.EncodeToString(e.Inner)] = true
				g.commitEv = append(g.commitEv, e)
			}
		}
		if pu == "none" && len(updS) == 0 {
			expect = exp("ok")
		}
		upd := "-"
		if len(updS) > 0 {
			upd = strings.Join(updS, ",")
		}
		res := "-"
		if len(resS) > 0 {
			res = strings.Join(resS, ",")
		}
		changed := 0
		if len(updS) > 0 {
			changed = 1
		}
		g.emit(fmt.Sprintf("apply bid=%s res=%s valupd=%s changed=%d nvals=%s pu=%s apph=%s sigok=%s expect=%s", showBID(bid), res, upd, changed, nvals, pu,
			hx(sc.AppHash), sigokHint(st, b), expect))
		// hostile state edits between heights (the chain then usually stops validating; that is the point)
		if kind == "hostile" && r.Intn(3) == 0 {
			f := []string{"lbh", "ih", "lbt", "apph", "lrh", "chain", "va", "vb", "lbid", "maxbytes", "evmax"}[r.Intn(11)]
			cur := g.rep.state
			var v string
			switch f {
			case "lbh":
				v = fmt.Sprint([]int64{0, -1, cur.LastBlockHeight + 1, cur.LastBlockHeight - 1}[r.Intn(4)])
			case "ih":
				v = fmt.Sprint([]int64{cur.InitialHeight + 1, cur.LastBlockHeight + 1, cur.LastBlockHeight + 2, 0}[r.Intn(4)])
			case "lbt":
				v = nanos(cur.LastBlockTime.Add(time.Duration(r.Intn(5)-2) * time.Second))
			case "apph", "lrh":
				v = hx(g.rbytes([]int{0, 8, 32, 33}[r.Intn(4)]))
			case "chain":
				v = hx([]byte("other"))
			case "va", "vb":
				v = fmt.Sprint(r.Intn(13))
			case "lbid":
				v = showBID(types.BlockID{Hash: g.rbytes(32), PartSetHeader: types.PartSetHeader{Total: 1, Hash: g.rbytes(32)}})
			case "maxbytes":
				v = fmt.Sprint(500 + r.Intn(3000))
			case "evmax":
				v = fmt.Sprint(r.Intn(600))
			}
			g.emit(fmt.Sprintf("set f=%s v=%s", f, v))
			setField(&g.rep.state, f, v)
			tainted = true
		}
	}
	return core.Case{Kind: kind, Ops: g.ops}
}


// extreme: every variable-length field of header and commit at the maximum the types allow
// (50-byte chain id, heights >= 2^56, app version >= 2^63, times before 1970 with 5-byte nanos,
// part-set total and round >= 2^28), one validator, a single transaction that fills the data budget
// exactly; the application hash length decides the header size (189 bytes -> MaxHeaderBytes = 626).
func (g *gen) extreme(appLen int) core.Case {
	k := g.newKey()
	chain := strings.Repeat("z", 50)
	ih := int64(1) << 62
	gt := time.Unix(-315619200, 999999900).UTC() // 1960
	const dataBudget = 16384                      // one tx of 16381 bytes: Data = 1+2+16381 = 16384, a 3-byte length prefix in the block
	p := *types.DefaultConsensusParams()
	p.Block.MaxBytes = dataBudget + types.MaxOverheadForBlock + types.MaxHeaderBytes + types.MaxCommitBytes(1)
	p.Evidence.MaxBytes = 0
	apph := g.rbytes(appLen)
	m := map[string]string{"chain": hx([]byte(chain)), "ih": fmt.Sprint(ih), "lbt": nanos(gt),
		"vals": fmt.Sprintf("%s:1:0", hex.EncodeToString(k.PubKey().Bytes())), "params": showParams(p), "apph": hx(apph),
		"va": fmt.Sprint(uint64(1) << 63)}
	st, err := genesisFromToks(m)
	if err != nil {
		panic(err)
	}
	g.rep = newReplica()
	g.rep.boot(st)
	g.emit("state " + stateToks(st, true))
	prop := st.Validators.Validators[0].Address
	// first block
	c0 := types.NewCommit(0, 0, types.BlockID{}, nil)
	lc0 := opCommit(c0)
	g.emit(fmt.Sprintf("make h=%d txs=- ev=- prop=%s lc=%s sigok=. expect=ok scn=honest wt=-", ih, hx(prop), showCommit(lc0)))
	blk, _ := st.MakeBlock(ih, nil, c0, nil, prop)
	bid := types.BlockID{Hash: blk.Hash(), PartSetHeader: types.PartSetHeader{Total: 1 << 28, Hash: g.rbytes(32)}}
	sc := script{AppHash: g.rbytes(appLen)}
	g.rep.app.sc = sc
	nst, _, aerr := g.rep.exec.ApplyBlock(st, bid, blk)
	if aerr != nil {
		panic(aerr)
	}
	g.emit(fmt.Sprintf("apply bid=%s res=- valupd=- changed=0 nvals=%s pu=none apph=%s sigok=. expect=ok", showBID(bid), showVals(nst.NextValidators, true), hx(sc.AppHash)))
	g.rep.state = nst
	st = nst
	// the proposer of the second block: a maximal commit and a pool that fills the budget exactly
	sig := g.signSig(st.ChainID, st.LastValidators, 0, ih, 1<<28, bid, gt.Add(50), types.BlockIDFlagCommit)
	commit := types.NewCommit(ih, 1<<28, bid, []types.CommitSig{sig})
	lc := opCommit(commit)
	hb, _ := st.MakeBlock(ih+1, nil, commit, nil, prop)
	hdr := hb.Header.ToProto().Size()
	scn := "extreme-header-within-budget"
	if int64(hdr)+7 > types.MaxHeaderBytes {
		scn = "extreme-header-at-budget" // header <= MaxHeaderBytes, but less than 7 bytes below it
	}
	budget := ""
	if int64(hdr) > types.MaxHeaderBytes {
		budget = " budget=exempt"
	}
	pool := [][]byte{g.rbytes(dataBudget - 3)}
	g.emit(fmt.Sprintf("create h=%d pool=%s ev=- prop=%s lc=%s sigok=%s expect=ok scn=%s hdr=%d%s", ih+1, hxList(pool), hx(prop),
		showCommit(lc), sigokHint(st, blkT{H: ih + 1, LC: lc}), scn, hdr, budget))
	return core.Case{Kind: "extreme", Ops: g.ops}
}

func genAll(r *rand.Rand, tier string, emit func(core.Case)) {
	n := 72
	if tier == "thorough" {
		n = 400
	}
	kinds := []string{"chain", "chain", "byztime", "budget", "hostile", "chain"}
	for i := 0; i < n; i++ {
		g := &gen{r: r, id: i + int(r.Int31n(1<<20))<<8, keys: map[string]ed25519.PrivKey{}, committed: map[string]bool{}}
		emit(g.chain(tier, kinds[i%len(kinds)]))
	}
	for i := 0; i < 2; i++ {
		g := &gen{r: r, id: 1000000 + i, keys: map[string]ed25519.PrivKey{}, committed: map[string]bool{}}
		emit(g.chain(tier, "wide"))
	}
	for i, al := range []int{32, 182, 183, 189, 190} {
		g := &gen{r: r, id: 2000000 + i, keys: map[string]ed25519.PrivKey{}, committed: map[string]bool{}}
		emit(g.extreme(al))
	}
	// vote timestamps: locked / proposal block times around the local clock (hours away from it, so
	// that "now" is unambiguous), also a clock that is behind both
	{
		var ops []string
		offs := []string{"nil", "-7200000000000", "-3600000000000", "3600000000000", "7200000000000", "10800000000000"}
		for _, l := range offs {
			for _, p := range offs {
				if l != "nil" && l == p {
					continue
				}
				ops = append(ops, fmt.Sprintf("votetime locked=%s prop=%s iota=%d", l, p, []int64{1, 1000, 60000}[r.Intn(3)]))
			}
		}
		r.Shuffle(len(ops), func(i, j int) { ops[i], ops[j] = ops[j], ops[i] })
		emit(core.Case{Kind: "votetime", Ops: ops})
	}
	// malformed lines
	emit(core.Case{Kind: "malformed", Ops: []string{"validate", "block vb=11", "state chain=zz", "apply bid=-/0/-", "set f=lbh v=1", "make h=1"}})
}

func sortedHist(m map[string]int) map[string]int {
	histMu.Lock()
	defer histMu.Unlock()
	keys := make([]string, 0, len(m))
	for k := range m {
		keys = append(keys, k)
	}
	sort.Strings(keys)
	out := map[string]int{}
	for _, k := range keys {
		out[k] = m[k]
	}
	return out
}

func main() {
	core.Main(core.Prop{
		ID:     "C06",
		Driver: "c06",
		Gen:    genAll,
		Exec:   execCase,
		Oracle: oracle,
		NonTrivial: func(c core.Case, out []string) bool {
			for _, o := range out {
				if strings.HasPrefix(o, "ok det=same") {
					return true
				}
			}
			return false
		},
		Rule: "chains of 5-10 (thorough: 5-40) heights from random genesis documents (1-14 validators, chain ids up to 50 bytes, initial heights at varint boundaries, small and default MaxBytes) driven through the real BlockExecutor with a scripted application (random DeliverTx results, validator additions/removals/power changes, parameter updates incl. invalid ones, app hashes of 0/8/32 bytes); last commits with random absent/nil voters, and with <1/3 power stamping early times; at one or two heights every header field and every content item of the valid block is perturbed one at a time (about 75 variants); CreateProposalBlock with pools that fill the data budget, also right after validator removals; hostile edits of the node's own state; genuine duplicate-vote evidence against validators of applied heights in blocks, from peers (AddEvidence) and proposed from the pool, and evidence broken in exactly one way (time, power, total, non-validator, future height, signature, round, expired, committed, repeated). Non-trivial = at least one block applied on both replicas with identical State.Bytes() and Block.Hash()",
		Assumptions: []string{"VerifyCommit is C07's model, the validator-set update + rotation is C08's model, the evidence pool (CheckEvidence, AddEvidence, PendingEvidence, Update) is C11's model, all run inside the C06 driver in lockstep with the real BlockExecutor / evidence.Pool; what still comes from the real code per op line is only: ed25519 verdicts per commit slot and per evidence vote, and the structured reading of each evidence item (its bytes are hashed by the model)",
			"the set the real code computed for NextValidators is carried as a cross-check only (xck=)",
			"SHA-256 is an arbitrary function in the theorems; the driver instantiates it with a Lean SHA-256 so every hash and the marshalled block are byte-compared",
			"times are integer nanoseconds; Go's UnixNano wrap outside 1678..2262 is not modelled (generator stays inside); the evidence age limits are fixed per chain (C11's context), only Evidence.MaxBytes is updated"},
		Extra: func() map[string]interface{} {
			return map[string]interface{}{"perturbation_histogram": sortedHist(pertHist), "commit_scenarios": sortedHist(scnHist),
				"validate_verdict_histogram": sortedHist(verdHist)}
		},
	})
}
